import TwistedProps.C02.Inline
/-!
C02 — `_inlineCallbacks` over yields that are NOT Deferreds (`r = yield 5`): `isDeferred` is false, the
`while 1:` loop goes round again in the same frame (lemmas).
-/
namespace TwistedProps.C02
open Twisted.Defer.Depth

theorem genNext_plain (f gd g : Nat) (v : Int) (rest : List Item) (st : St)
    (h : (st.getGen g).items = .yieldV v :: rest) :
    genNext (f+1) gd g st = (st, .plain v) := by
  rw [genNext]
  simp only [h]

theorem genRun_resume_plain (f gd g : Nat) (v : Int) (r : Res) (rest : List Item) (st : St)
    (hs : (st.getGen g).started = true) (h : (st.getGen g).items = .yieldV v :: rest) :
    genRun f gd r g st =
      genNext f gd g ((((st.enter gd).enter (gd+1)).log (gd+1)).setGen g { st.getGen g with items := rest }) := by
  unfold genRun
  simp only [getGen_enter, hs, Bool.not_true, Bool.false_eq_true, if_false, h]

theorem iloop_plain (f D w g : Nat) (r : Res) (st st' : St) (v : Int)
    (h : genRun f (if r.isFail then D+2 else D+1) r g (st.enter (D+1)) = (st', .plain v)) :
    iloop (f+1) D w r g st = iloop f D w (.val v) g st' := by
  rw [iloop]
  simp only [h]

/-- loop head of `_inlineCallbacks`: the generator is suspended at a plain `yield`, `m` more follow -/
structure PlainAt (m : Nat) (st : St) : Prop where
  size : st.heap.size = 1
  gsize : st.gens.size = 1
  gen : st.getGen 0 = { items := List.replicate (m+1) (Item.yieldV 5), started := true, out := 0 }
  out : st.get 0 = {}
  oof : st.oof = false
  raised : st.raised = 0

/-- what `gen.send(v)` leaves behind when the generator was suspended at a plain `yield` -/
theorem plain_resume (m : Nat) (v : Int) (st : St) (h : PlainAt m st) :
    ∃ s1, (∀ f, genRun f 4 (.val v) 0 (st.enter 4) = genNext f 4 0 s1) ∧
      s1.heap = st.heap ∧ s1.gens.size = 1 ∧
      s1.getGen 0 = { items := List.replicate m (Item.yieldV 5), started := true, out := 0 } ∧
      s1.probes = 5 :: st.probes ∧ s1.oof = false ∧ s1.raised = 0 := by
  have hitems : ((st.enter 4).getGen 0).items = .yieldV 5 :: List.replicate m (Item.yieldV 5) := by
    rw [getGen_enter, h.gen]; rfl
  refine ⟨_, fun f => genRun_resume_plain f 4 0 5 (.val v) _ (st.enter 4) (by rw [getGen_enter, h.gen]) hitems,
    rfl, by simp [h.gsize], ?_, by simp, h.oof, h.raised⟩
  rw [getGen_setGen_eq _ _ _ (by simp [h.gsize])]
  simp [h.gen]

/-- **The loop of `_inlineCallbacks` over plain yields**: `m+1` more probes, all at depth 5, in the same
    activation of `_inlineCallbacks`; then the generator returns and the result Deferred is fired. -/
theorem plain_loop : ∀ (m f : Nat) (v : Int) (st : St), PlainAt m st →
    ∃ st', iloop (f + m + 7) 3 0 (.val v) 0 st = (st', false) ∧ st'.heap.size = 1 ∧
      st'.get 0 = { called := true, result := .val 7 } ∧
      st'.probes = List.replicate (m+1) 5 ++ st.probes ∧ st'.oof = false ∧ st'.raised = 0 := by
  intro m
  induction m with
  | zero =>
    intro f v st h
    obtain ⟨s1, hrun, hheap, hgs, hgen, hpr, ho, hr⟩ := plain_resume 0 v st h
    have hnil : (s1.getGen 0).items = [] := by rw [hgen]; rfl
    have hrun' : genRun (f+1+5) (if (Res.val v).isFail then 3+2 else 3+1) (.val v) 0 (st.enter (3+1)) = (s1, .ret 7) := by
      show genRun (f+1+5) 4 (.val v) 0 (st.enter 4) = _
      rw [hrun]
      exact genNext_nil (f+1+4) 4 0 s1 hnil
    have hbare : s1.get 0 = {} := by
      show s1.heap.getD 0 default = _
      rw [hheap]; exact h.out
    obtain ⟨s3, e3, hs3, hg3, _, hp3, ho3, hr3, _⟩ :=
      fireD_bare (f+1) 4 0 (.val 7) s1 (by rw [hheap, h.size]; omega) hbare
    refine ⟨s3, ?_, by rw [hs3, hheap]; exact h.size, hg3, by rw [hp3, hpr]; rfl, by rw [ho3, ho], by rw [hr3, hr]⟩
    have e : f + 0 + 7 = (f+1+5) + 1 := by omega
    rw [e, iloop_ret _ _ _ _ _ _ _ _ hrun']
    have hout : (s1.getGen 0).out = 0 := by rw [hgen]
    rw [hout]
    exact e3
  | succ m ih =>
    intro f v st h
    obtain ⟨s1, hrun, hheap, hgs, hgen, hpr, ho, hr⟩ := plain_resume (m+1) v st h
    have hitems : (s1.getGen 0).items = .yieldV 5 :: List.replicate m (Item.yieldV 5) := by rw [hgen]; rfl
    have hrun' : genRun (f + m + 7) (if (Res.val v).isFail then 3+2 else 3+1) (.val v) 0 (st.enter (3+1)) = (s1, .plain 5) := by
      show genRun (f + m + 7) 4 (.val v) 0 (st.enter 4) = _
      rw [hrun]
      exact genNext_plain (f + m + 6) 4 0 5 _ s1 hitems
    have hAt : PlainAt m s1 := ⟨by rw [hheap]; exact h.size, hgs, hgen,
      by show s1.heap.getD 0 default = _; rw [hheap]; exact h.out, ho, hr⟩
    obtain ⟨st', e', hs', hg', hp', ho', hr'⟩ := ih f 5 s1 hAt
    refine ⟨st', ?_, hs', hg', ?_, ho', hr'⟩
    · have e : f + (m+1) + 7 = (f + m + 7) + 1 := by omega
      rw [e, iloop_plain _ _ _ _ _ _ _ _ hrun']
      exact e'
    · rw [hp', hpr, replicate_shift]

theorem plainHeap_gen (n : Nat) :
    (plainHeap n).getGen 0 = { items := List.replicate n (Item.yieldV 5), started := false, out := 0 } := by
  simp [plainHeap, St.getGen]

theorem plainHeap_get (n : Nat) : (plainHeap n).get 0 = {} := by
  simp [plainHeap, St.get]

/-- the inlineCallbacks call over `n` plain yields returns with everything done -/
theorem plain_start (n g : Nat) :
    ∃ st', step (g + n + 8) (plainHeap n) (.start 0) = st' ∧ st'.heap.size = 1 ∧
      st'.get 0 = { called := true, result := .val 7 } ∧
      st'.probes = List.replicate n 5 ∧ st'.oof = false ∧ st'.raised = 0 := by
  let st0 := plainHeap n
  let s1 : St := { ((st0.enter 1).enter 2).enter 3 with waits := (((st0.enter 1).enter 2).enter 3).waits.push (true, .none) }
  have hG1 : (s1.enter 4).getGen 0 = { items := List.replicate n (Item.yieldV 5), started := false, out := 0 } :=
    plainHeap_gen n
  have hgs : st0.gens.size = 1 := by simp [st0, plainHeap]
  let s1' := ((s1.enter 4).enter 4).setGen 0 { (s1.enter 4).getGen 0 with started := true }
  have hG1' : s1'.getGen 0 = { items := List.replicate n (Item.yieldV 5), started := true, out := 0 } := by
    show (St.setGen _ 0 _).getGen 0 = _
    rw [getGen_setGen_eq _ _ _ (by show 0 < st0.gens.size; omega), hG1]
  have hget : ∀ j, s1'.get j = st0.get j := fun j => rfl
  have hrunG : ∀ f, genRun f (if (Res.val 0).isFail then 3+2 else 3+1) (.val 0) 0 (s1.enter (3+1)) = genNext f 4 0 s1' := by
    intro f
    show genRun f 4 (.val 0) 0 (s1.enter 4) = _
    rw [genRun_fresh _ _ _ _ _ (by rw [hG1])]
  have hstep : ∀ F, step (F+1) st0 (.start 0) =
      (match iloop F 3 0 (.val 0) 0 s1 with
        | (st, raised) => if raised then { st with raised := st.raised + 1 } else st) := fun F => rfl
  have hsz : s1'.heap.size = 1 := by show st0.heap.size = 1; simp [st0, plainHeap]
  cases n with
  | zero =>
    have hnil : (s1'.getGen 0).items = [] := by rw [hG1']; rfl
    have hrun : genRun (g+1+5) (if (Res.val 0).isFail then 3+2 else 3+1) (.val 0) 0 (s1.enter (3+1)) = (s1', .ret 7) := by
      rw [hrunG]
      exact genNext_nil (g+1+4) 4 0 s1' hnil
    obtain ⟨s3, e3, hs3, hg3, _, hp3, ho3, hr3, _⟩ :=
      fireD_bare (g+1) 4 0 (.val 7) s1' (by rw [hsz]; omega) (by rw [hget]; exact plainHeap_get 0)
    refine ⟨s3, ?_, by rw [hs3, hsz], hg3, by rw [hp3]; rfl, by rw [ho3]; rfl, by rw [hr3]; rfl⟩
    have e : g + 0 + 8 = ((g+1+5) + 1) + 1 := by omega
    rw [e, hstep, iloop_ret _ _ _ _ _ _ _ _ hrun]
    have hout : (s1'.getGen 0).out = 0 := by rw [hG1']
    rw [hout, e3]
    rfl
  | succ k =>
    have hitems : (s1'.getGen 0).items = .yieldV 5 :: List.replicate k (Item.yieldV 5) := by rw [hG1']; rfl
    have hrun : genRun (g + k + 7) (if (Res.val 0).isFail then 3+2 else 3+1) (.val 0) 0 (s1.enter (3+1)) = (s1', .plain 5) := by
      rw [hrunG]
      exact genNext_plain (g + k + 6) 4 0 5 _ s1' hitems
    have hAt : PlainAt k s1' := ⟨hsz, by show (St.setGen _ 0 _).gens.size = 1; rw [gens_size_setGen]; exact hgs, hG1',
      by rw [hget]; exact plainHeap_get (k+1), rfl, rfl⟩
    obtain ⟨st', e', hs', hg', hp', ho', hr'⟩ := plain_loop k g 5 s1' hAt
    refine ⟨st', ?_, hs', hg', by rw [hp']; simp; rfl, ho', hr'⟩
    have e : g + (k+1) + 8 = ((g + k + 7) + 1) + 1 := by omega
    rw [e, hstep, iloop_plain _ _ _ _ _ _ _ _ hrun, e']
    rfl

end TwistedProps.C02
