import TwistedProps.C02.Chain
/-!
C02 — `_inlineCallbacks` over already-fired Deferreds (lemmas).
-/
namespace TwistedProps.C02
open Twisted.Defer.Depth

@[simp] theorem getGen_set (st : St) (i g : Nat) (d : Dfd) : (st.set i d).getGen g = st.getGen g := rfl
@[simp] theorem getGen_enter (st : St) (D g : Nat) : (st.enter D).getGen g = st.getGen g := rfl
@[simp] theorem getGen_log (st : St) (D g : Nat) : (st.log D).getGen g = st.getGen g := rfl
@[simp] theorem get_setGen (st : St) (g i : Nat) (x : Gen) : (st.setGen g x).get i = st.get i := rfl
@[simp] theorem heap_setGen (st : St) (g : Nat) (x : Gen) : (st.setGen g x).heap = st.heap := rfl
@[simp] theorem probes_setGen (st : St) (g : Nat) (x : Gen) : (st.setGen g x).probes = st.probes := rfl
@[simp] theorem oof_setGen (st : St) (g : Nat) (x : Gen) : (st.setGen g x).oof = st.oof := rfl
@[simp] theorem raised_setGen (st : St) (g : Nat) (x : Gen) : (st.setGen g x).raised = st.raised := rfl
@[simp] theorem waits_setGen (st : St) (g : Nat) (x : Gen) : (st.setGen g x).waits = st.waits := rfl
@[simp] theorem waits_enter (st : St) (D : Nat) : (st.enter D).waits = st.waits := rfl
@[simp] theorem waits_log (st : St) (D : Nat) : (st.log D).waits = st.waits := rfl
@[simp] theorem waits_set (st : St) (i : Nat) (d : Dfd) : (st.set i d).waits = st.waits := rfl
@[simp] theorem gens_size_setGen (st : St) (g : Nat) (x : Gen) : (st.setGen g x).gens.size = st.gens.size := by
  simp [St.setGen]
@[simp] theorem gens_enter (st : St) (D : Nat) : (st.enter D).gens = st.gens := rfl
@[simp] theorem gens_log (st : St) (D : Nat) : (st.log D).gens = st.gens := rfl

theorem getGen_setGen_eq (st : St) (g : Nat) (x : Gen) (h : g < st.gens.size) : (st.setGen g x).getGen g = x := by
  simp [St.getGen, St.setGen, Array.getD_eq_getD_getElem?, h]

theorem genNext_nil (f gd g : Nat) (st : St) (h : (st.getGen g).items = []) :
    genNext (f+1) gd g st = (st, .ret 7) := by
  rw [genNext]
  simp only [h]

theorem genNext_await_ready (f gd g i : Nat) (rest : List Item) (st : St)
    (h : (st.getGen g).items = .awaitD i :: rest)
    (hp : (st.get i).paused = 0) (hr : (st.get i).result ≠ .none) :
    genNext (f+1) gd g st =
      genNext f gd g (((st.enter (gd+1)).log (gd+1)).setGen g { st.getGen g with items := rest }) := by
  rw [genNext]
  simp only [h, hp, hr, ne_eq, not_true_eq_false, or_self, if_false]

/-- a coroutine body over Deferreds that all have a result never gives control back:
    every probe runs in the same activation, at depth `gd+1` -/
theorem genNext_awaits (gd g o : Nat) :
    ∀ (l : List Nat) (st : St) (f : Nat), g < st.gens.size →
      st.getGen g = { items := l.map Item.awaitD, started := true, out := o } →
      (∀ i ∈ l, (st.get i).paused = 0 ∧ (st.get i).result ≠ .none) →
      ∃ st', genNext (f + l.length + 1) gd g st = (st', .ret 7) ∧ st'.heap = st.heap ∧
        st'.getGen g = { items := [], started := true, out := o } ∧ st'.gens.size = st.gens.size ∧
        st'.probes = List.replicate l.length (gd+1) ++ st.probes ∧ st'.waits = st.waits ∧
        st'.oof = st.oof ∧ st'.raised = st.raised := by
  intro l
  induction l with
  | nil =>
    intro st f hg hG _
    exact ⟨st, genNext_nil _ gd g st (by rw [hG]; rfl), rfl, hG, rfl, rfl, rfl, rfl, rfl⟩
  | cons i l ih =>
    intro st f hg hG hall
    have e : f + (i :: l).length + 1 = (f + l.length + 1) + 1 := by simp; omega
    obtain ⟨hp, hr⟩ := hall i (List.mem_cons_self ..)
    rw [e, genNext_await_ready _ gd g i (l.map Item.awaitD) st (by rw [hG]; rfl) hp hr]
    obtain ⟨st', e', hh, hG', hs', hp', hw', ho', hr'⟩ :=
      ih (((st.enter (gd+1)).log (gd+1)).setGen g { st.getGen g with items := l.map Item.awaitD }) f
        (by simp [hg]) (by rw [getGen_setGen_eq _ _ _ (by simp [hg]), hG])
        (fun j hj => hall j (List.mem_cons_of_mem _ hj))
    refine ⟨st', e', by rw [hh]; rfl, hG', by rw [hs']; simp, ?_, by rw [hw']; rfl, by rw [ho']; rfl, by rw [hr']; rfl⟩
    rw [hp']
    simp only [probes_setGen, probes_log, probes_enter, List.length_cons]
    rw [replicate_shift]

theorem inlineCb_succ (f D g : Nat) (r : Res) (st : St) :
    inlineCb (f+1) D r g st =
      iloop f D (st.enter D).waits.size r g
        { st.enter D with waits := (st.enter D).waits.push (true, .none) } := rfl

theorem iloop_ret (f D w g : Nat) (r : Res) (st st' : St) (v : Int)
    (h : genRun f (if r.isFail then D+2 else D+1) r g (st.enter (D+1)) = (st', .ret v)) :
    iloop (f+1) D w r g st = fireD f (D+1) (st'.getGen g).out (.val v) st' := by
  rw [iloop]
  simp only [h]

theorem genRun_fresh (f gd g : Nat) (r : Res) (st : St) (h : (st.getGen g).started = false) :
    genRun f gd r g st = genNext f gd g ((st.enter gd).setGen g { st.getGen g with started := true }) := by
  unfold genRun
  simp [h]

/-- firing a Deferred nobody has attached anything to -/
theorem fireD_bare (f D i : Nat) (r : Res) (st : St) (hsz : i < st.heap.size)
    (h : st.get i = {}) :
    ∃ st', fireD (f+5) D i r st = (st', false) ∧ st'.heap.size = st.heap.size ∧
      st'.get i = { called := true, result := r } ∧ (∀ j, j ≠ i → st'.get j = st.get j) ∧
      st'.probes = st.probes ∧ st'.oof = st.oof ∧ st'.raised = st.raised ∧ st'.gens = st.gens := by
  rw [fireD_succ]
  simp only [get_enter, h, Bool.false_eq_true, if_false]
  rw [runCallbacks_succ]
  have hg : ((((st.enter D).enter (D+1)).set i { called := true, result := r }).enter (D+2)).get i
      = { called := true, result := r } := by
    simp (disch := simp [hsz]) [get_set_eq, set_enter]
  rw [hg]
  simp only [Bool.false_eq_true, if_false]
  rw [outer_cons]
  rw [hg]
  simp only [ne_eq, not_true_eq_false, if_false]
  rw [inner_nil _ _ _ _ _ (by rw [hg]), outer_nil]
  refine ⟨_, rfl, by simp, hg, ?_, rfl, rfl, rfl, rfl⟩
  intro j hj; simp (disch := omega) [get_set_ne]

theorem prefiredHeap_size (n : Nat) (fails : Nat → Bool) (c : Bool) : (prefiredHeap n fails c).heap.size = n+1 := by
  simp [prefiredHeap]

theorem prefiredHeap_get_lt (n j : Nat) (fails : Nat → Bool) (c : Bool) (hj : j < n) :
    (prefiredHeap n fails c).get j = prefiredDfd fails j := by
  have : (prefiredHeap n fails c).heap[j]? = some (prefiredDfd fails j) := by
    simp only [prefiredHeap]
    rw [Array.getElem?_push]
    simp [hj]
    omega
  simp [St.get, Array.getD_eq_getD_getElem?, this]

theorem prefiredHeap_get_out (n : Nat) (fails : Nat → Bool) (c : Bool) :
    (prefiredHeap n fails c).get n = {} := by
  have : (prefiredHeap n fails c).heap[n]? = some {} := by
    simp only [prefiredHeap]
    rw [Array.getElem?_push]
    simp
  simp [St.get, Array.getD_eq_getD_getElem?, this]

theorem prefiredHeap_gen_coro (n : Nat) (fails : Nat → Bool) :
    (prefiredHeap n fails true).getGen 0 = { items := (List.range n).map Item.awaitD, started := false, out := n } := by
  simp [prefiredHeap, St.getGen]

/-- the coroutine over `n` pre-fired Deferreds runs to completion inside the first `send` -/
theorem coro_start (n g : Nat) (fails : Nat → Bool) :
    ∃ st', step (g + n + 8) (prefiredHeap n fails true) (.start 0) = st' ∧ st'.heap.size = n+1 ∧
      st'.get n = { called := true, result := .val 7 } ∧
      st'.probes = List.replicate n 5 ∧ st'.oof = false ∧ st'.raised = 0 := by
  let st0 := prefiredHeap n fails true
  let s1 : St := { ((st0.enter 1).enter 2).enter 3 with waits := (((st0.enter 1).enter 2).enter 3).waits.push (true, .none) }
  have hG1 : (s1.enter 4).getGen 0 = { items := (List.range n).map Item.awaitD, started := false, out := n } :=
    prefiredHeap_gen_coro n fails
  have hgs : (s1.enter 4).gens.size = 1 := by
    show st0.gens.size = 1
    simp [st0, prefiredHeap]
  let s1' := ((s1.enter 4).enter 4).setGen 0 { (s1.enter 4).getGen 0 with started := true }
  have hG1' : s1'.getGen 0 = { items := (List.range n).map Item.awaitD, started := true, out := n } := by
    show (St.setGen _ 0 _).getGen 0 = _
    rw [getGen_setGen_eq _ _ _ (by show 0 < st0.gens.size; simp [st0, prefiredHeap]), hG1]
  have hall : ∀ i ∈ List.range n, (s1'.get i).paused = 0 ∧ (s1'.get i).result ≠ .none := by
    intro i hi
    have hi' : i < n := List.mem_range.mp hi
    have : s1'.get i = prefiredDfd fails i := prefiredHeap_get_lt n i fails true hi'
    rw [this]
    refine ⟨rfl, ?_⟩
    unfold prefiredDfd
    split <;> simp
  obtain ⟨s2, e2, hh2, hG2, hs2, hp2, hw2, ho2, hr2⟩ :=
    genNext_awaits 4 0 n (List.range n) s1' (g+5) (by show 0 < (St.setGen _ 0 _).gens.size; rw [gens_size_setGen]; show 0 < st0.gens.size; simp [st0, prefiredHeap]) hG1' hall
  have hrun : genRun (g + n + 6) (if (Res.val 0).isFail then 3+2 else 3+1) (.val 0) 0 (s1.enter (3+1)) = (s2, .ret 7) := by
    show genRun (g + n + 6) 4 (.val 0) 0 (s1.enter 4) = _
    rw [genRun_fresh _ _ _ _ _ (by rw [hG1])]
    have e : g + n + 6 = g + 5 + (List.range n).length + 1 := by simp; omega
    rw [e]; exact e2
  have hout : (s2.getGen 0).out = n := by rw [hG2]
  have hsz2 : n < s2.heap.size := by
    rw [hh2]; show n < st0.heap.size; rw [prefiredHeap_size]; omega
  have hbare : s2.get n = {} := by
    show s2.heap.getD n default = _
    rw [hh2]; exact prefiredHeap_get_out n fails true
  obtain ⟨s3, e3, hs3, hg3, hf3, hp3, ho3, hr3, _⟩ := fireD_bare (g + n + 1) 4 n (.val 7) s2 hsz2 hbare
  have hstep : step (g + n + 8) st0 (.start 0) = s3 := by
    show (match inlineCb (g + n + 7 + 1) 3 (.val 0) 0 ((st0.enter 1).enter 2) with
          | (st, raised) => if raised then { st with raised := st.raised + 1 } else st) = s3
    rw [inlineCb_succ]
    show (match iloop (g + n + 6 + 1) 3 _ (.val 0) 0 s1 with
          | (st, raised) => if raised then { st with raised := st.raised + 1 } else st) = s3
    rw [iloop_ret _ _ _ _ _ _ _ _ hrun, hout]
    have e : g + n + 6 = g + n + 1 + 5 := by omega
    rw [e, e3]
    rfl
  refine ⟨s3, hstep, ?_, hg3, ?_, ?_, ?_⟩
  · rw [hs3, hh2]; exact prefiredHeap_size n fails true
  · rw [hp3, hp2]; simp; rfl
  · rw [ho3, ho2]; rfl
  · rw [hr3, hr2]; rfl

/-- `addBoth(probe)` on a Deferred that already has a plain result: the probe runs at depth 3 -/
theorem add_probe_fired (g i : Nat) (r : Res) (hr : r.isDfd = false) (st : St) (hsz : i < st.heap.size)
    (h : st.get i = { called := true, result := r }) :
    ∃ st', step (g+6) st (.add i .probe) = st' ∧ st'.heap.size = st.heap.size ∧
      st'.get i = { called := true, result := r } ∧ (∀ j, j ≠ i → st'.get j = st.get j) ∧
      st'.probes = 3 :: st.probes ∧ st'.oof = st.oof ∧ st'.raised = st.raised := by
  let s1 := (st.enter 1).set i { (st.enter 1).get i with callbacks := ((st.enter 1).get i).callbacks ++ [.probe] }
  have hg1 : s1.get i = { called := true, paused := 0, result := r, callbacks := .probe :: [], running := false } := by
    show (St.set _ i _).get i = _
    rw [get_set_eq _ _ _ (by simp [hsz])]
    simp [h]
  have hs1 : s1.heap.size = st.heap.size := by simp [s1]
  obtain ⟨s2, e2, hs2, hg2, hf2, hp2, ho2, hr2⟩ :=
    inner_probe (g+1+1) 2 i [] [] (s1.enter 2) r hr (by simp [hs1, hsz]) hg1
  have hstep : step (g+6) st (.add i .probe) = s2 := by
    have e : g+6 = g+1+1+2+1+1 := by omega
    rw [e]
    show (if (s1.get i).called then runCallbacks (g+1+1+2+1+1) 2 i s1 else s1) = s2
    rw [hg1]
    simp only [if_true]
    rw [runCallbacks_succ]
    have : ((s1.enter 2).get i).running = false := by rw [get_enter, hg1]
    simp only [this, Bool.false_eq_true, if_false]
    rw [outer_cons]
    have hp : ((s1.enter 2).get i).paused = 0 := by rw [get_enter, hg1]
    simp only [hp, ne_eq, not_true_eq_false, if_false]
    rw [e2, inner_nil _ _ _ _ _ (by rw [hg2]), outer_nil]
  refine ⟨s2, hstep, by rw [hs2]; simp [hs1], by rw [hg2], ?_, by rw [hp2]; rfl, by rw [ho2]; rfl, by rw [hr2]; rfl⟩
  intro j hj
  rw [hf2 j hj]
  show (St.set _ i _).get j = _
  rw [get_set_ne _ _ _ _ (Ne.symm hj)]; rfl

@[simp] theorem getWait_set (st : St) (i w : Nat) (d : Dfd) : (st.set i d).getWait w = st.getWait w := rfl
@[simp] theorem getWait_enter (st : St) (D w : Nat) : (st.enter D).getWait w = st.getWait w := rfl
@[simp] theorem getWait_log (st : St) (D w : Nat) : (st.log D).getWait w = st.getWait w := rfl
@[simp] theorem getWait_setGen (st : St) (g w : Nat) (x : Gen) : (st.setGen g x).getWait w = st.getWait w := rfl
@[simp] theorem get_setWait (st : St) (w i : Nat) (x : Bool × Res) : (st.setWait w x).get i = st.get i := rfl
@[simp] theorem getGen_setWait (st : St) (w g : Nat) (x : Bool × Res) : (st.setWait w x).getGen g = st.getGen g := rfl
@[simp] theorem heap_setWait (st : St) (w : Nat) (x : Bool × Res) : (st.setWait w x).heap = st.heap := rfl
@[simp] theorem gens_setWait (st : St) (w : Nat) (x : Bool × Res) : (st.setWait w x).gens = st.gens := rfl
@[simp] theorem probes_setWait (st : St) (w : Nat) (x : Bool × Res) : (st.setWait w x).probes = st.probes := rfl
@[simp] theorem oof_setWait (st : St) (w : Nat) (x : Bool × Res) : (st.setWait w x).oof = st.oof := rfl
@[simp] theorem raised_setWait (st : St) (w : Nat) (x : Bool × Res) : (st.setWait w x).raised = st.raised := rfl
@[simp] theorem waits_size_setWait (st : St) (w : Nat) (x : Bool × Res) : (st.setWait w x).waits.size = st.waits.size := by
  simp [St.setWait]
theorem getWait_setWait_eq (st : St) (w : Nat) (x : Bool × Res) (h : w < st.waits.size) :
    (st.setWait w x).getWait w = x := by
  simp [St.getWait, St.setWait, Array.getD_eq_getD_getElem?, h]

theorem callCb_gotResult_armed (f D w g : Nat) (arg : Res) (st : St) (h : (st.getWait w).1 = true) :
    callCb (f+1) D (.gotResult w g) arg st = ((st.enter D).setWait w (false, arg), .val 0) := by
  show (if ((st.enter D).getWait w).1 then _ else _) = _
  rw [getWait_enter, h]; rfl

/-- the result of the `i`-th awaited Deferred -/
def prefRes (fails : Nat → Bool) (i : Nat) : Res := if fails i then .fail 3 else .val 1

theorem prefRes_plain (fails : Nat → Bool) (i : Nat) : (prefRes fails i).isDfd = false ∧ prefRes fails i ≠ .none := by
  unfold prefRes; split <;> simp [Res.isDfd]

/-- `_runCallbacks` on a fired Deferred whose only callback is `_gotResultInlineCallbacks` with the
    `waiting` cell armed: the result is parked in the cell, nothing else happens -/
theorem runCallbacks_gotResult_armed (f D w g i : Nat) (r : Res) (st : St)
    (hi : i < st.heap.size) (hw : w < st.waits.size) (hwa : (st.getWait w).1 = true)
    (hd : st.get i = { called := true, paused := 0, result := r, callbacks := [.gotResult w g], running := false }) :
    ∃ st', runCallbacks (f+5) D i st = st' ∧
      st'.heap.size = st.heap.size ∧ st'.get i = { called := true, result := .val 0 } ∧
      (∀ j, j ≠ i → st'.get j = st.get j) ∧ st'.gens = st.gens ∧
      st'.waits.size = st.waits.size ∧ st'.getWait w = (false, r) ∧
      st'.probes = st.probes ∧ st'.oof = st.oof ∧ st'.raised = st.raised := by
  rw [runCallbacks_succ]
  have hrun : ((st.enter D).get i).running = false := by rw [get_enter, hd]
  simp only [hrun, Bool.false_eq_true, if_false]
  rw [outer_cons]
  have hp : ((st.enter D).get i).paused = 0 := by rw [get_enter, hd]
  simp only [hp, ne_eq, not_true_eq_false, if_false]
  have hcb : ((st.enter D).get i).callbacks = .gotResult w g :: [] := by rw [get_enter, hd]
  rw [inner_user (f+2) D i (.gotResult w g) [] [] (st.enter D) hcb (by intro ch; exact Cb.noConfusion)]
  have harm : ((beforeCb i [] (st.enter D)).getWait w).1 = true := by simp [beforeCb, hwa]
  rw [callCb_gotResult_armed (f+1) (D+1) w g _ _ harm]
  simp only []
  rw [afterCb_plain _ _ _ _ _ _ (by rfl)]
  have hres : ((st.enter D).get i).result = r := by rw [get_enter, hd]
  rw [hres]
  rw [inner_nil (f+1) D i [] _ (by
    simp (disch := first | omega | (simp [beforeCb]; omega)) [beforeCb, get_set_eq, set_enter, hd])]
  rw [outer_nil]
  refine ⟨_, rfl, ?_, ?_, ?_, ?_, ?_, ?_, ?_, ?_, ?_⟩
  · simp [beforeCb]
  · simp (disch := first | omega | (simp [beforeCb]; omega)) [beforeCb, get_set_eq, set_enter, hd]
  · intro j hj
    simp (disch := omega) [beforeCb, get_set_ne]
  · rfl
  · simp [beforeCb]
  · simp only [getWait_set]
    rw [getWait_setWait_eq _ _ _ (by simp [beforeCb, hw])]
  · rfl
  · rfl
  · rfl

/-- **The `waiting` trick.**  The generator yielded a Deferred that has already fired: `addBoth`
    runs `_gotResultInlineCallbacks` at once (frames `D+1 … D+3`), which finds `waiting[0]` armed and
    only parks the result; the `while` loop of `_inlineCallbacks` picks it up and goes round again —
    in the SAME frame, with one unit of fuel less. -/
theorem iloop_yield_fired (f D w g i : Nat) (r : Res) (fails : Nat → Bool) (st st1 : St)
    (hrun : genRun (f+5) (if r.isFail then D+2 else D+1) r g (st.enter (D+1)) = (st1, .yld i))
    (hi : i < st1.heap.size) (hd : st1.get i = prefiredDfd fails i)
    (hw : w < st1.waits.size) (hwa : st1.getWait w = (true, .none)) :
    ∃ st2, iloop (f+5+1) D w r g st = iloop (f+5) D w (prefRes fails i) g st2 ∧
      st2.heap.size = st1.heap.size ∧ st2.get i = { called := true, result := .val 0 } ∧
      (∀ j, j ≠ i → st2.get j = st1.get j) ∧ st2.gens = st1.gens ∧
      st2.waits.size = st1.waits.size ∧ st2.getWait w = (true, .none) ∧
      st2.probes = st1.probes ∧ st2.oof = st1.oof ∧ st2.raised = st1.raised := by
  rw [iloop]
  simp only [hrun]
  have hcalled : (st1.get i).called = true := by rw [hd]; rfl
  have hS : st1.set i { st1.get i with callbacks := (st1.get i).callbacks ++ [.gotResult w g] }
      = st1.set i { called := true, paused := 0, result := prefRes fails i, callbacks := [.gotResult w g], running := false } := by
    rw [hd]; rfl
  rw [hS]
  simp only [hcalled, if_true]
  have hdA : (st1.set i { called := true, paused := 0, result := prefRes fails i, callbacks := [.gotResult w g], running := false }).get i
      = { called := true, paused := 0, result := prefRes fails i, callbacks := [.gotResult w g], running := false } :=
    get_set_eq _ _ _ hi
  obtain ⟨sC, eC, hsC, hgC, hfC, hgensC, hwsC, hwC, hpC, hoC, hrC⟩ :=
    runCallbacks_gotResult_armed f (D+2) w g i (prefRes fails i)
      (st1.set i { called := true, paused := 0, result := prefRes fails i, callbacks := [.gotResult w g], running := false })
      (by simp [hi]) (by simpa using hw) (by simp [hwa]) hdA
  rw [eC, hwC]
  simp only [Bool.false_eq_true, if_false]
  refine ⟨_, rfl, by simp [hsC], by simp [hgC], ?_, (by show sC.gens = st1.gens; rw [hgensC]; rfl), (by rw [waits_size_setWait, hwsC]; rfl), ?_,
    by simp [hpC], by simp [hoC], by simp [hrC]⟩
  · intro j hj
    simp only [get_setWait]
    rw [hfC j hj, get_set_ne _ _ _ _ (Ne.symm hj)]
  · rw [getWait_setWait_eq _ _ _ (by rw [hwsC]; simpa using hw)]

theorem genNext_yield (f gd g j : Nat) (rest : List Item) (st : St)
    (h : (st.getGen g).items = .yieldD j :: rest) :
    genNext (f+1) gd g st = (st, .yld j) := by
  rw [genNext]
  simp only [h]

theorem genRun_resume_yield (f gd g i : Nat) (r : Res) (rest : List Item) (st : St)
    (hs : (st.getGen g).started = true) (h : (st.getGen g).items = .yieldD i :: rest) :
    genRun f gd r g st =
      genNext f gd g ((((st.enter gd).enter (gd+1)).log (gd+1)).setGen g { st.getGen g with items := rest }) := by
  unfold genRun
  simp only [getGen_enter, hs, Bool.not_true, Bool.false_eq_true, if_false, h]

/-- loop head of `_inlineCallbacks`: the generator is suspended at `yield d_i`, the `waiting` cell is armed -/
structure GenAt (n : Nat) (fails : Nat → Bool) (i : Nat) (st : St) : Prop where
  size : st.heap.size = n+1
  gsize : st.gens.size = 1
  wsize : 0 < st.waits.size
  armed : st.getWait 0 = (true, .none)
  gen : st.getGen 0 = { items := (List.range' i (n - i)).map Item.yieldD, started := true, out := n }
  rest : ∀ j, i < j → j < n → st.get j = prefiredDfd fails j
  out : st.get n = {}
  oof : st.oof = false
  raised : st.raised = 0
  pb : ∀ p ∈ st.probes, p = 5 ∨ p = 6

theorem gd_cases (r : Res) : (if r.isFail then 3+2 else 3+1) + 1 = 5 ∨ (if r.isFail then 3+2 else 3+1) + 1 = 6 := by
  split <;> simp

/-- what `gen.send` / `gen.throw` leaves behind when the generator was suspended at `yield d_i` -/
theorem resume_state (n : Nat) (fails : Nat → Bool) (i : Nat) (r : Res) (st : St) (h : GenAt n fails i st) (hi : i < n) :
    ∃ s1, (∀ f, genRun f (if r.isFail then 3+2 else 3+1) r 0 (st.enter (3+1)) =
              genNext f (if r.isFail then 3+2 else 3+1) 0 s1) ∧
      s1.heap = st.heap ∧ s1.gens.size = 1 ∧ s1.waits = st.waits ∧
      s1.getGen 0 = { items := (List.range' (i+1) (n - (i+1))).map Item.yieldD, started := true, out := n } ∧
      s1.probes.length = st.probes.length + 1 ∧ (∀ p ∈ s1.probes, p = 5 ∨ p = 6) ∧
      s1.oof = false ∧ s1.raised = 0 := by
  have hitems : ((st.enter (3+1)).getGen 0).items
      = .yieldD i :: (List.range' (i+1) (n - (i+1))).map Item.yieldD := by
    rw [getGen_enter, h.gen]
    have : n - i = (n - (i+1)) + 1 := by omega
    simp only [this, List.range'_succ, List.map_cons]
  refine ⟨_, fun f => genRun_resume_yield f _ 0 i r _ (st.enter (3+1)) (by rw [getGen_enter, h.gen]) hitems,
    rfl, by simp [h.gsize], rfl, ?_, by simp, ?_, h.oof, h.raised⟩
  · rw [getGen_setGen_eq _ _ _ (by simp [h.gsize])]
    simp [h.gen]
  · intro p hp
    simp only [probes_setGen, probes_log, probes_enter, List.mem_cons] at hp
    rcases hp with rfl | hp
    · exact gd_cases r
    · exact h.pb p hp

/-- outcome of the whole inlineCallbacks call as far as the property is concerned -/
structure GenDone (n k : Nat) (st : St) : Prop where
  size : st.heap.size = n+1
  out : st.get n = { called := true, result := .val 7 }
  count : st.probes.length = k
  pb : ∀ p ∈ st.probes, p = 5 ∨ p = 6
  oof : st.oof = false
  raised : st.raised = 0

/-- the generator returned: `status.deferred.callback(7)` on the fresh result Deferred -/
theorem iloop_finish (n f : Nat) (r : Res) (st s1 : St)
    (hrun : genRun (f+5) (if r.isFail then 3+2 else 3+1) r 0 (st.enter (3+1)) = (s1, .ret 7))
    (hsz : s1.heap.size = n+1) (hout : (s1.getGen 0).out = n) (hbare : s1.get n = {})
    (hpb : ∀ p ∈ s1.probes, p = 5 ∨ p = 6) (ho : s1.oof = false) (hr : s1.raised = 0) :
    ∃ st', iloop (f+5+1) 3 0 r 0 st = (st', false) ∧ GenDone n s1.probes.length st' := by
  rw [iloop_ret _ _ _ _ _ _ _ _ hrun, hout]
  obtain ⟨s3, e3, hs3, hg3, _, hp3, ho3, hr3, _⟩ := fireD_bare f 4 n (.val 7) s1 (by omega) hbare
  exact ⟨s3, e3, ⟨by omega, hg3, by rw [hp3], by rw [hp3]; exact hpb, by rw [ho3, ho], by rw [hr3, hr]⟩⟩

/-- **The loop of `_inlineCallbacks` over the remaining pre-fired Deferreds**: from the loop head
    with the generator suspended at `yield d_i` to the end, `m+1` more probes, all in the same
    activation of `_inlineCallbacks` (the fuel goes down by one per round, the depth never moves). -/
theorem gen_loop (n : Nat) (fails : Nat → Bool) :
    ∀ (m i f : Nat) (st : St), i + m + 1 = n → GenAt n fails i st →
      ∃ st', iloop (f + m + 6) 3 0 (prefRes fails i) 0 st = (st', false) ∧
        GenDone n (st.probes.length + m + 1) st' := by
  intro m
  induction m with
  | zero =>
    intro i f st him h
    obtain ⟨s1, hrun, hheap, hgs, hws, hgen, hcnt, hpb, ho, hr⟩ :=
      resume_state n fails i (prefRes fails i) st h (by omega)
    have hnil : (s1.getGen 0).items = [] := by
      rw [hgen]; have : n - (i+1) = 0 := by omega
      rw [this]; rfl
    have hrun' : genRun (f+5) (if (prefRes fails i).isFail then 3+2 else 3+1) (prefRes fails i) 0 (st.enter (3+1))
        = (s1, .ret 7) := by
      rw [hrun, genNext_nil _ _ _ _ hnil]
    obtain ⟨st', e', hd⟩ := iloop_finish n f (prefRes fails i) st s1 hrun'
      (by rw [hheap]; exact h.size) (by rw [hgen])
      (by show s1.heap.getD n default = _; rw [hheap]; exact h.out) hpb ho hr
    refine ⟨st', e', ?_⟩
    rw [hcnt] at hd
    exact hd
  | succ m ih =>
    intro i f st him h
    obtain ⟨s1, hrun, hheap, hgs, hws, hgen, hcnt, hpb, ho, hr⟩ :=
      resume_state n fails i (prefRes fails i) st h (by omega)
    have hitems : (s1.getGen 0).items = .yieldD (i+1) :: (List.range' (i+2) (n - (i+2))).map Item.yieldD := by
      rw [hgen]
      have : n - (i+1) = (n - (i+2)) + 1 := by omega
      simp only [this, List.range'_succ, List.map_cons]
    have e : f + (m+1) + 6 = (f + m + 1) + 5 + 1 := by omega
    have hrun' : genRun ((f + m + 1) + 5) (if (prefRes fails i).isFail then 3+2 else 3+1) (prefRes fails i) 0 (st.enter (3+1))
        = (s1, .yld (i+1)) := by
      rw [hrun, genNext_yield _ _ _ _ _ _ hitems]
    have hget : ∀ j, s1.get j = st.get j := by
      intro j; show s1.heap.getD j default = _; rw [hheap]; rfl
    obtain ⟨s2, e2, hs2, hg2, hf2, hgens2, hws2, hw2, hp2, ho2, hr2⟩ :=
      iloop_yield_fired (f + m + 1) 3 0 0 (i+1) (prefRes fails i) fails st s1 hrun'
        (by rw [hheap, h.size]; omega) (by rw [hget]; exact h.rest (i+1) (by omega) (by omega))
        (by rw [hws]; exact h.wsize) (by show s1.waits.getD 0 _ = _; rw [hws]; exact h.armed)
    have hAt : GenAt n fails (i+1) s2 := by
      refine ⟨by rw [hs2, hheap]; exact h.size, by rw [hgens2]; exact hgs, by rw [hws2, hws]; exact h.wsize, hw2, ?_, ?_, ?_,
        by rw [ho2]; exact ho, by rw [hr2]; exact hr, by rw [hp2]; exact hpb⟩
      · show s2.gens.getD 0 _ = _
        rw [hgens2]; exact hgen
      · intro j h1 h2
        rw [hf2 j (by omega), hget]
        exact h.rest j (by omega) h2
      · rw [hf2 n (by omega), hget]; exact h.out
    obtain ⟨st', e', hd⟩ := ih (i+1) f s2 (by omega) hAt
    refine ⟨st', ?_, ?_⟩
    · rw [e, e2]
      have e'' : f + m + 1 + 5 = f + m + 6 := by omega
      rw [e'']; exact e'
    · have : s2.probes.length + m + 1 = st.probes.length + (m+1) + 1 := by rw [hp2, hcnt]; omega
      rw [this] at hd
      exact hd

theorem prefiredHeap_gen_gen (n : Nat) (fails : Nat → Bool) :
    (prefiredHeap n fails false).getGen 0 = { items := (List.range' 0 n).map Item.yieldD, started := false, out := n } := by
  simp [prefiredHeap, St.getGen, List.range_eq_range']

/-- the inlineCallbacks call over `n` pre-fired Deferreds returns with everything done -/
theorem gen_start (n g : Nat) (fails : Nat → Bool) :
    ∃ st', step (g + n + 7) (prefiredHeap n fails false) (.start 0) = st' ∧ GenDone n n st' := by
  let st0 := prefiredHeap n fails false
  let s1 : St := { ((st0.enter 1).enter 2).enter 3 with waits := (((st0.enter 1).enter 2).enter 3).waits.push (true, .none) }
  have hG1 : (s1.enter 4).getGen 0 = { items := (List.range' 0 n).map Item.yieldD, started := false, out := n } :=
    prefiredHeap_gen_gen n fails
  have hgs : st0.gens.size = 1 := by simp [st0, prefiredHeap]
  let s1' := ((s1.enter 4).enter 4).setGen 0 { (s1.enter 4).getGen 0 with started := true }
  have hG1' : s1'.getGen 0 = { items := (List.range' 0 n).map Item.yieldD, started := true, out := n } := by
    show (St.setGen _ 0 _).getGen 0 = _
    rw [getGen_setGen_eq _ _ _ (by show 0 < st0.gens.size; omega), hG1]
  have hget : ∀ j, s1'.get j = st0.get j := fun j => rfl
  have hrunG : ∀ f, genRun f (if (Res.val 0).isFail then 3+2 else 3+1) (.val 0) 0 (s1.enter (3+1)) = genNext f 4 0 s1' := by
    intro f
    show genRun f 4 (.val 0) 0 (s1.enter 4) = _
    rw [genRun_fresh _ _ _ _ _ (by rw [hG1])]
  have hstep : ∀ F, step (F+1) st0 (.start 0) =
      (match iloop F 3 0 (.val 0) 0 s1 with
        | (st, raised) => if raised then { st with raised := st.raised + 1 } else st) := fun F => rfl
  have hws : s1'.waits.size = 1 := by
    show ((((st0.enter 1).enter 2).enter 3).waits.push (true, .none)).size = 1
    simp [st0, prefiredHeap]
  have hwa : s1'.getWait 0 = (true, .none) := by
    show ((((st0.enter 1).enter 2).enter 3).waits.push (true, .none)).getD 0 (false, .none) = _
    simp [st0, prefiredHeap]
  cases n with
  | zero =>
    have hnil : (s1'.getGen 0).items = [] := by rw [hG1']; rfl
    have hrun : genRun (g+5) (if (Res.val 0).isFail then 3+2 else 3+1) (.val 0) 0 (s1.enter (3+1)) = (s1', .ret 7) := by
      rw [hrunG, genNext_nil _ _ _ _ hnil]
    obtain ⟨st', e', hd⟩ := iloop_finish 0 g (.val 0) s1 s1' hrun (prefiredHeap_size 0 fails false)
      (by rw [hG1']) (by rw [hget]; exact prefiredHeap_get_out 0 fails false)
      (by intro p hp; cases hp) rfl rfl
    refine ⟨st', ?_, hd⟩
    have e : g + 0 + 7 = (g+5+1) + 1 := by omega
    rw [e, hstep, e']
    rfl
  | succ k =>
    have hitems : (s1'.getGen 0).items = .yieldD 0 :: (List.range' 1 k).map Item.yieldD := by
      rw [hG1']; simp only [List.range'_succ, List.map_cons]
    have hrun : genRun ((g+k+1)+5) (if (Res.val 0).isFail then 3+2 else 3+1) (.val 0) 0 (s1.enter (3+1)) = (s1', .yld 0) := by
      rw [hrunG, genNext_yield _ _ _ _ _ _ hitems]
    obtain ⟨s2, e2, hs2, hg2, hf2, hgens2, hws2, hw2, hp2, ho2, hr2⟩ :=
      iloop_yield_fired (g+k+1) 3 0 0 0 (.val 0) fails s1 s1' hrun
        (by show 0 < st0.heap.size; rw [prefiredHeap_size]; omega)
        (by rw [hget]; exact prefiredHeap_get_lt (k+1) 0 fails false (by omega))
        (by rw [hws]; omega) hwa
    have hAt : GenAt (k+1) fails 0 s2 := by
      refine ⟨by rw [hs2]; exact prefiredHeap_size (k+1) fails false, by rw [hgens2]; exact hgs,
        by rw [hws2, hws]; omega, hw2, ?_, ?_, ?_, by rw [ho2]; rfl, by rw [hr2]; rfl,
        by rw [hp2]; intro p hp; cases hp⟩
      · show s2.gens.getD 0 _ = _
        rw [hgens2]; exact hG1'
      · intro j h1 h2
        rw [hf2 j (by omega), hget]
        exact prefiredHeap_get_lt (k+1) j fails false h2
      · rw [hf2 (k+1) (by omega), hget]; exact prefiredHeap_get_out (k+1) fails false
    obtain ⟨st', e', hd⟩ := gen_loop (k+1) fails k 0 g s2 (by omega) hAt
    refine ⟨st', ?_, ?_⟩
    · have e : g + (k+1) + 7 = ((g+k+1)+5+1) + 1 := by omega
      rw [e, hstep, e2]
      have e'' : g + k + 1 + 5 = g + k + 6 := by omega
      rw [e'', e']
      rfl
    · have : s2.probes.length + k + 1 = k + 1 := by rw [hp2]; show 0 + k + 1 = k + 1; omega
      rw [this] at hd
      exact hd

end TwistedProps.C02
