import TwistedProps.C02.Chain
/-!
C02 — negative control (lemmas): chains built with `chainDeferred` DO recurse, three frames per link.
-/
namespace TwistedProps.C02
open Twisted.Defer.Depth

theorem explicitDfd_lt {n i : Nat} (h : i < n) : explicitDfd n i = { callbacks := [.probe, .fire (i+1)] } := by
  simp [explicitDfd, h]
theorem explicitDfd_last (n : Nat) : explicitDfd n n = { callbacks := [.probe] } := by
  simp [explicitDfd]

/-- probe depths of the levels `m, m-1, …, 0` below a `callback()` frame at depth `D` (newest first) -/
def stairs (D m : Nat) : List Nat := (List.range (m+1)).reverse.map fun t => D + 3 + 3*t

theorem stairs_succ (D m : Nat) : stairs D (m+1) = stairs (D+3) m ++ [D+3] := by
  have h : ∀ l : List Nat, (l.map Nat.succ).map (fun t => D+3+3*t) = l.map (fun t => D+3+3+3*t) := by
    intro l; rw [List.map_map]; apply List.map_congr_left; intro t _; simp; omega
  unfold stairs
  rw [List.range_succ_eq_map]
  simp only [List.reverse_cons, List.map_append, List.map_cons, List.map_nil, ← List.map_reverse]
  rw [List.map_reverse, List.map_reverse, h, List.map_reverse]

/-- **Explicit chaining recurses.**  `d_i.callbacks = [probe, d_{i+1}.callback]`: firing `d_i` at depth `D`
    nests three frames per link. -/
theorem explicit_nest (n : Nat) (r : Res) (hr : r.isDfd = false) :
    ∀ (m i D g : Nat) (st : St), i + m = n → n < st.heap.size →
      (∀ j, i ≤ j → j ≤ n → st.get j = explicitDfd n j) →
      ∃ st', fireD (g + 6*(m+1)) D i r st = (st', false) ∧ st'.heap.size = st.heap.size ∧
        (∀ j, j < i → st'.get j = st.get j) ∧
        st'.probes = stairs D m ++ st.probes ∧ st'.oof = st.oof ∧ st'.raised = st.raised := by
  intro m
  induction m with
  | zero =>
    intro i D g st him hsz hall
    have hin : i = n := by omega
    subst hin
    have hhere : st.get i = { callbacks := [.probe] } := by rw [hall i (by omega) (by omega), explicitDfd_last]
    have e : g + 6*(0+1) = (g+4)+2 := by omega
    obtain ⟨s1, e1, hs1, hg1, hf1, hp1, ho1, hr1⟩ :=
      fireD_fresh (g+4) D i r st hsz (by rw [hhere]) (by rw [hhere])
    have hres : s1.get i = { called := true, paused := 0, result := r, callbacks := .probe :: [], running := false } := by
      rw [hg1, hhere]
    obtain ⟨s2, e2, hs2, hg2, hf2, hp2, ho2, hr2⟩ :=
      inner_probe (g+1) (D+2) i [] [] s1 r hr (by omega) hres
    rw [e, e1]
    show ∃ st', (outer (g+3+1) (D+2) [i] s1, false) = (st', false) ∧ _
    rw [outer_cons]
    have hp : (s1.get i).paused = 0 := by rw [hres]
    simp only [hp, ne_eq, not_true_eq_false, if_false]
    rw [e2, inner_nil (g+1) (D+2) i [] s2 (by rw [hg2]), outer_nil]
    refine ⟨s2, rfl, by omega, ?_, ?_, by rw [ho2, ho1], by rw [hr2, hr1]⟩
    · intro j hj; rw [hf2 j (by omega), hf1 j (by omega)]
    · rw [hp2, hp1]; rfl
  | succ m ih =>
    intro i D g st him hsz hall
    have hi : i < n := by omega
    have hhere : st.get i = { callbacks := [.probe, .fire (i+1)] } := by
      rw [hall i (by omega) (by omega), explicitDfd_lt hi]
    have e : g + 6*(m+1+1) = ((g + 6*(m+1)) + 4)+2 := by omega
    obtain ⟨s1, e1, hs1, hg1, hf1, hp1, ho1, hr1⟩ :=
      fireD_fresh ((g + 6*(m+1)) + 4) D i r st (by omega) (by rw [hhere]) (by rw [hhere])
    have hres : s1.get i = { called := true, paused := 0, result := r, callbacks := .probe :: [.fire (i+1)], running := false } := by
      rw [hg1, hhere]
    obtain ⟨s2, e2, hs2, hg2, hf2, hp2, ho2, hr2⟩ :=
      inner_probe ((g + 6*(m+1)) + 1) (D+2) i [.fire (i+1)] [] s1 r hr (by omega) hres
    rw [e, e1]
    show ∃ st', (outer ((g + 6*(m+1))+3+1) (D+2) [i] s1, false) = (st', false) ∧ _
    rw [outer_cons]
    have hp : (s1.get i).paused = 0 := by rw [hres]
    simp only [hp, ne_eq, not_true_eq_false, if_false]
    rw [e2]
    have hcb2 : (s2.get i).callbacks = .fire (i+1) :: [] := by rw [hg2]
    rw [inner_user ((g + 6*(m+1)) + 1) (D+2) i (.fire (i+1)) [] [] s2 hcb2 (by intro ch; exact Cb.noConfusion)]
    rw [callCb_fire]
    have hres2 : (s2.get i).result = r := by rw [hg2]
    rw [hres2]
    -- the nested `d_{i+1}.callback(r)` at depth D+3
    have hsz2 : (beforeCb i [] s2).heap.size = st.heap.size := by simp [beforeCb, hs2, hs1]
    have hall2 : ∀ j, i+1 ≤ j → j ≤ n → ((beforeCb i [] s2).enter (D+2+1)).get j = explicitDfd n j := by
      intro j h1 h2
      simp (disch := omega) only [beforeCb, get_enter, get_set_ne]
      rw [hf2 j (by omega), hf1 j (by omega)]
      exact hall j (by omega) h2
    obtain ⟨s3, e3, hs3, hf3, hp3, ho3, hr3⟩ :=
      ih (i+1) (D+2+1) g ((beforeCb i [] s2).enter (D+2+1)) (by omega) (by simp [hsz2]; omega) hall2
    rw [e3]
    simp only [Bool.false_eq_true, if_false]
    rw [afterCb_plain _ _ _ _ _ _ (by rfl)]
    have hi3 : s3.get i = { called := true, paused := 0, result := r, callbacks := [], running := true } := by
      rw [hf3 i (by omega)]
      simp (disch := first | omega | (simp; omega)) [beforeCb, get_set_eq, hg2]
    have e6 : g + 6*(m+1) = (g + 6*m + 4) + 1 + 1 := by omega
    rw [e6, inner_nil _ (D+2) i [] _ (by simp (disch := first | omega | (simp [hs3, hsz2]; omega)) [get_set_eq, hi3]), outer_nil]
    refine ⟨_, rfl, by simp [hs3, hsz2], ?_, ?_, by simp [ho3, beforeCb, ho2, ho1], by simp [hr3, beforeCb, hr2, hr1]⟩
    · intro j hj
      simp (disch := omega) only [get_set_ne]
      rw [hf3 j (by omega)]
      simp (disch := omega) only [beforeCb, get_enter, get_set_ne]
      rw [hf2 j (by omega), hf1 j (by omega)]
    · simp only [probes_set, hp3, probes_enter, beforeCb, hp2, hp1, stairs_succ]
      simp

theorem explicitHeap_size (n : Nat) : (explicitHeap n).heap.size = n+1 := by simp [explicitHeap]

theorem explicitHeap_get (n j : Nat) (hj : j ≤ n) : (explicitHeap n).get j = explicitDfd n j := by
  have : j < n+1 := by omega
  simp [explicitHeap, St.get, Array.getD_eq_getD_getElem?, this]

end TwistedProps.C02
