import TwistedProps.C02.Basic
/-!
C02 — completion of the returns-next chains (lemmas).  `unwind` is the heart: when the innermost
Deferred finally gets a result, ONE activation of `_runCallbacks` walks the whole chain of waiting
Deferreds with its explicit `chain` list, running every probe at the same depth.
-/
namespace TwistedProps.C02
open Twisted.Defer.Depth

def contOf (j : Nat) : List Cb := if j = 0 then [] else [.cont (j-1)]
def waiting (j : Nat) : Dfd :=
  { called := true, paused := 1, result := .dfd (j+1), callbacks := .probe :: contOf j, running := false }
def resumed (j : Nat) (r : Res) : Dfd :=
  { called := true, paused := 0, result := r, callbacks := .probe :: contOf j, running := false }
def done (j : Nat) (r : Res) : Dfd :=
  { called := true, paused := 0, result := if j = 0 then r else .val 0, callbacks := [], running := false }

theorem afterCb_plain (f D cur : Nat) (rest : List Nat) (st : St) (r : Res) (hr : r.isDfd = false) :
    afterCb f D cur rest st r =
      inner f D cur rest (st.set cur { st.get cur with running := false, result := r }) := by
  cases r with
  | dfd j => simp [Res.isDfd] at hr
  | _ => rfl

/-- the probe step of a resumed link: one `inner` iteration -/
theorem inner_probe (f D cur : Nat) (cbs : List Cb) (rest : List Nat) (st : St) (r : Res)
    (hr : r.isDfd = false) (hsz : cur < st.heap.size)
    (h : st.get cur = { called := true, paused := 0, result := r, callbacks := .probe :: cbs, running := false }) :
    ∃ st', inner (f+2) D cur rest st = inner (f+1) D cur rest st' ∧
      st'.heap.size = st.heap.size ∧
      st'.get cur = { called := true, paused := 0, result := r, callbacks := cbs, running := false } ∧
      (∀ j, j ≠ cur → st'.get j = st.get j) ∧
      st'.probes = (D+1) :: st.probes ∧ st'.oof = st.oof ∧ st'.raised = st.raised := by
  have hcb : (st.get cur).callbacks = .probe :: cbs := by rw [h]
  rw [inner_user (f+1) D cur .probe cbs rest st hcb (by intro ch; exact Cb.noConfusion)]
  have hres : (st.get cur).result = r := by rw [h]
  rw [callCb_probe, hres]
  simp only []
  rw [afterCb_plain _ _ _ _ _ _ hr]
  refine ⟨_, rfl, ?_, ?_, ?_, ?_, ?_, ?_⟩
  · simp [beforeCb]
  · simp (disch := simp [beforeCb, hsz]) [beforeCb, get_set_eq, h]
  · intro j hj
    simp (disch := omega) [beforeCb, get_set_ne]
  · simp [beforeCb]
  · simp [beforeCb]
  · simp [beforeCb]

/-- the `_CONTINUE` step: the result moves to the chainee, which is pushed on the chain -/
theorem inner_handover (f D cur ch : Nat) (cbs : List Cb) (rest : List Nat) (st : St)
    (hne : ch ≠ cur) (hsz : cur < st.heap.size) (hsz' : ch < st.heap.size)
    (h : (st.get cur).callbacks = .cont ch :: cbs) :
    ∃ st', inner (f+1) D cur rest st = outer f D (ch :: cur :: rest) st' ∧
      st'.heap.size = st.heap.size ∧
      st'.get cur = { st.get cur with callbacks := cbs, result := .val 0 } ∧
      st'.get ch = { st.get ch with result := (st.get cur).result, paused := (st.get ch).paused - 1 } ∧
      (∀ j, j ≠ cur → j ≠ ch → st'.get j = st.get j) ∧
      st'.probes = st.probes ∧ st'.oof = st.oof ∧ st'.raised = st.raised := by
  rw [inner_cont f D cur ch cbs rest st h]
  refine ⟨_, rfl, ?_, ?_, ?_, ?_, ?_, ?_, ?_⟩
  · simp [handOver]
  · simp (disch := first | omega | simp [hsz, hsz']) [handOver, get_set_eq, get_set_ne, hne, Ne.symm hne]
  · simp (disch := first | omega | simp [hsz, hsz']) [handOver, get_set_eq, get_set_ne, hne, Ne.symm hne]
  · intro j h1 h2
    simp (disch := omega) [handOver, get_set_ne]
  · simp [handOver]
  · simp [handOver]
  · simp [handOver]

/-- a finished Deferred on top of the chain is popped (two units of fuel) -/
theorem outer_pop (f D x : Nat) (rest : List Nat) (st : St)
    (hp : (st.get x).paused = 0) (hc : (st.get x).callbacks = []) :
    outer (f+2) D (x :: rest) st = outer f D rest st := by
  rw [outer_cons]
  simp only [hp, ne_eq, not_true_eq_false, if_false]
  exact inner_nil f D x rest st hc

theorem replicate_shift (k a : Nat) (l : List Nat) :
    List.replicate k a ++ (a :: l) = List.replicate (k+1) a ++ l := by
  induction k with
  | zero => rfl
  | succ k ih => simp only [List.replicate_succ, List.cons_append, ih]

/-- **Unwinding.**  `d_k` has just been given the result `r`; `d_0 … d_{k-1}` each wait on the next.
    The `while chain` loop finishes all of them — every probe at the same depth — consuming
    `5k+3` units of fuel, and returns to the chain below. -/
theorem unwind (D : Nat) (r : Res) (hr : r.isDfd = false) :
    ∀ (k : Nat) (rest : List Nat) (st : St) (g : Nat),
      k < st.heap.size → st.get k = resumed k r → (∀ j < k, st.get j = waiting j) →
      (∀ x ∈ rest, k < x ∧ (st.get x).paused = 0 ∧ (st.get x).callbacks = []) →
      ∃ st', outer (g + (5*k+3)) D (k :: rest) st = outer g D rest st' ∧
        st'.heap.size = st.heap.size ∧
        (∀ j ≤ k, st'.get j = done j r) ∧ (∀ j, k < j → st'.get j = st.get j) ∧
        st'.probes = List.replicate (k+1) (D+1) ++ st.probes ∧ st'.oof = st.oof ∧ st'.raised = st.raised := by
  intro k
  induction k with
  | zero =>
    intro rest st g hsz hk _ hrest
    have e : g + (5*0+3) = (g+2)+1 := by omega
    rw [e, outer_cons]
    have hp : (st.get 0).paused = 0 := by rw [hk]; rfl
    simp only [hp, ne_eq, not_true_eq_false, if_false]
    obtain ⟨st1, e1, hs1, hg1, hf1, hp1, ho1, hr1⟩ :=
      inner_probe g D 0 (contOf 0) rest st r hr hsz hk
    rw [e1, inner_nil g D 0 rest st1 (by rw [hg1]; rfl)]
    refine ⟨st1, rfl, hs1, ?_, ?_, ?_, ho1, hr1⟩
    · intro j hj
      have : j = 0 := by omega
      subst this
      rw [hg1]; rfl
    · intro j hj; exact hf1 j (by omega)
    · rw [hp1]; rfl
  | succ k ih =>
    intro rest st g hsz hk hbelow hrest
    have e : g + (5*(k+1)+3) = ((g + 5*k + 5) + 2) + 1 := by omega
    rw [e, outer_cons]
    have hp : (st.get (k+1)).paused = 0 := by rw [hk]; rfl
    simp only [hp, ne_eq, not_true_eq_false, if_false]
    obtain ⟨st1, e1, hs1, hg1, hf1, hp1, ho1, hr1⟩ :=
      inner_probe (g + 5*k + 5) D (k+1) (contOf (k+1)) rest st r hr hsz hk
    rw [e1]
    have hc1 : (st1.get (k+1)).callbacks = .cont k :: [] := by rw [hg1]; simp [contOf]
    obtain ⟨st2, e2, hs2, hg2, hgk2, hf2, hp2, ho2, hr2⟩ :=
      inner_handover (g + 5*k + 5) D (k+1) k [] rest st1 (by omega) (by omega) (by omega) hc1
    rw [e2]
    have hk2 : st2.get k = resumed k r := by
      rw [hgk2, hf1 k (by omega), hbelow k (by omega), hg1]
      simp [waiting, resumed]
    have hfin2 : (st2.get (k+1)).paused = 0 ∧ (st2.get (k+1)).callbacks = [] := by
      rw [hg2, hg1]; exact ⟨rfl, rfl⟩
    have hbelow2 : ∀ j < k, st2.get j = waiting j := by
      intro j hj
      rw [hf2 j (by omega) (by omega), hf1 j (by omega)]
      exact hbelow j (by omega)
    have hrest2 : ∀ x ∈ (k+1) :: rest, k < x ∧ (st2.get x).paused = 0 ∧ (st2.get x).callbacks = [] := by
      intro x hx
      rcases List.mem_cons.mp hx with rfl | hx
      · exact ⟨by omega, hfin2.1, hfin2.2⟩
      · obtain ⟨h1, h2, h3⟩ := hrest x hx
        rw [hf2 x (by omega) (by omega), hf1 x (by omega)]
        exact ⟨by omega, h2, h3⟩
    have e' : g + 5*k + 5 = (g+2) + (5*k+3) := by omega
    rw [e']
    obtain ⟨st3, e3, hs3, hd3, hf3, hp3, ho3, hr3⟩ :=
      ih ((k+1) :: rest) st2 (g+2) (by omega) hk2 hbelow2 hrest2
    rw [e3]
    have hfin3 : (st3.get (k+1)).paused = 0 ∧ (st3.get (k+1)).callbacks = [] := by
      rw [hf3 (k+1) (by omega)]; exact hfin2
    rw [outer_pop g D (k+1) rest st3 hfin3.1 hfin3.2]
    refine ⟨st3, rfl, by omega, ?_, ?_, ?_, by rw [ho3, ho2, ho1], by rw [hr3, hr2, hr1]⟩
    · intro j hj
      by_cases hjk : j ≤ k
      · exact hd3 j hjk
      · have : j = k+1 := by omega
        subst this
        rw [hf3 (k+1) (by omega), hg2, hg1]
        simp [done]
    · intro j hj
      rw [hf3 j (by omega), hf2 j (by omega) (by omega), hf1 j (by omega)]
    · rw [hp3, hp2, hp1, replicate_shift]

/-- firing an uncalled Deferred: two frames, then the `while chain` loop starts with `[i]` -/
theorem fireD_fresh (f D i : Nat) (r : Res) (st : St) (hsz : i < st.heap.size)
    (hc : (st.get i).called = false) (hr : (st.get i).running = false) :
    ∃ st', fireD (f+2) D i r st = (outer f (D+2) [i] st', false) ∧
      st'.heap.size = st.heap.size ∧
      st'.get i = { st.get i with called := true, result := r } ∧
      (∀ j, j ≠ i → st'.get j = st.get j) ∧
      st'.probes = st.probes ∧ st'.oof = st.oof ∧ st'.raised = st.raised := by
  rw [fireD_succ]
  simp only [get_enter, hc, Bool.false_eq_true, if_false]
  rw [runCallbacks_succ]
  have : ((((st.enter D).enter (D+1)).set i { st.get i with called := true, result := r }).enter (D+2)).get i
      = { st.get i with called := true, result := r } := by
    simp (disch := simp [hsz]) [get_set_eq, set_enter]
  rw [this]
  simp only [hr, Bool.false_eq_true, if_false]
  refine ⟨_, rfl, ?_, ?_, ?_, ?_, ?_, ?_⟩
  · simp
  · simp (disch := simp [hsz]) [get_set_eq, set_enter, hr]
  · intro j hj; simp (disch := omega) [get_set_ne]
  · simp
  · simp
  · simp

/-- a callback returns a Deferred without result: the current one pauses and leaves its continuation -/
theorem inner_ret_wait (f D cur j : Nat) (cbs : List Cb) (rest : List Nat) (st : St)
    (hne : j ≠ cur) (hsz : cur < st.heap.size) (hsz' : j < st.heap.size)
    (h : (st.get cur).callbacks = .ret j :: cbs) (hj : (st.get j).result = .none) :
    ∃ st', inner (f+2) D cur rest st = outer (f+1) D rest st' ∧
      st'.heap.size = st.heap.size ∧
      st'.get cur = { st.get cur with callbacks := cbs, running := false, result := .dfd j,
                                      paused := (st.get cur).paused + 1 } ∧
      st'.get j = { st.get j with callbacks := (st.get j).callbacks ++ [.cont cur] } ∧
      (∀ x, x ≠ cur → x ≠ j → st'.get x = st.get x) ∧
      st'.probes = st.probes ∧ st'.oof = st.oof ∧ st'.raised = st.raised := by
  rw [inner_user (f+1) D cur (.ret j) cbs rest st h (by intro ch; exact Cb.noConfusion)]
  rw [callCb_ret]
  simp only []
  unfold afterCb
  simp only []
  have hj' : (((((beforeCb cur cbs st).enter (D + 1)).set cur
      { ((beforeCb cur cbs st).enter (D + 1)).get cur with running := false, result := Res.dfd j }).get j).result = .none) := by
    simp (disch := omega) [beforeCb, get_set_ne, hj]
  rw [if_pos (Or.inl hj')]
  refine ⟨_, rfl, ?_, ?_, ?_, ?_, ?_, ?_, ?_⟩
  · simp [beforeCb]
  · simp (disch := first | omega | simp [beforeCb, hsz, hsz']) [beforeCb, get_set_eq, get_set_ne]
  · simp (disch := first | omega | simp [beforeCb, hsz, hsz']) [beforeCb, get_set_eq, get_set_ne]
  · intro x h1 h2; simp (disch := omega) [beforeCb, get_set_ne]
  · simp [beforeCb]
  · simp [beforeCb]
  · simp [beforeCb]

/-- `d_0 … d_{k-1}` have been fired and each waits on the next; `d_k … d_n` are unfired -/
structure Linked (n k : Nat) (st : St) : Prop where
  size : st.heap.size = n+1
  below : ∀ j < k, st.get j = waiting j
  here : st.get k = { callbacks := (chainDfd n k).callbacks ++ contOf k }
  above : ∀ j, k < j → j ≤ n → st.get j = chainDfd n j
  probes : st.probes = []
  oof : st.oof = false
  raised : st.raised = 0

theorem chainDfd_lt {n i : Nat} (h : i < n) : chainDfd n i = { callbacks := [.ret (i+1), .probe] } := by
  simp [chainDfd, h]
theorem chainDfd_last (n : Nat) : chainDfd n n = { callbacks := [.probe] } := by
  simp [chainDfd]

theorem fire_link (n k g : Nat) (v : Int) (st : St) (hk : k < n) (h : Linked n k st) :
    Linked n (k+1) (step (g+5) st (.fire k v)) := by
  have hsz : k < st.heap.size := by rw [h.size]; omega
  have hsz' : k+1 < st.heap.size := by rw [h.size]; omega
  have hhere : st.get k = { callbacks := .ret (k+1) :: .probe :: contOf k } := by
    rw [h.here, chainDfd_lt hk]; rfl
  have hnext : st.get (k+1) = chainDfd n (k+1) := h.above (k+1) (by omega) (by omega)
  obtain ⟨s1, e1, hs1, hg1, hf1, hp1, ho1, hr1⟩ :=
    fireD_fresh (g+3) 1 k (.val v) st hsz (by rw [hhere]) (by rw [hhere])
  have hpz : (s1.get k).paused = 0 := by rw [hg1, hhere]
  have hcb : (s1.get k).callbacks = .ret (k+1) :: .probe :: contOf k := by rw [hg1, hhere]
  have hnr : (s1.get (k+1)).result = .none := by rw [hf1 (k+1) (by omega), hnext]; rfl
  obtain ⟨s2, e2, hs2, hg2, hgn2, hf2, hp2, ho2, hr2⟩ :=
    inner_ret_wait g 3 k (k+1) (.probe :: contOf k) [] s1 (by omega) (by omega) (by omega) hcb hnr
  have hstep : step (g+5) st (.fire k v) = s2 := by
    show (if (fireD (g+3+2) 1 k (.val v) st).2 then _ else (fireD (g+3+2) 1 k (.val v) st).1) = s2
    rw [e1]
    simp only [Bool.false_eq_true, if_false]
    show outer (g+2+1) 3 [k] s1 = s2
    rw [outer_cons]
    simp only [hpz, ne_eq, not_true_eq_false, if_false]
    rw [e2]
    rfl
  rw [hstep]
  refine ⟨by rw [hs2, hs1]; exact h.size, ?_, ?_, ?_, by rw [hp2, hp1, h.probes], by rw [ho2, ho1, h.oof], by rw [hr2, hr1, h.raised]⟩
  · intro j hj
    by_cases hjk : j < k
    · rw [hf2 j (by omega) (by omega), hf1 j (by omega)]; exact h.below j hjk
    · have : j = k := by omega
      subst this
      rw [hg2, hg1, hhere]; simp [waiting]
  · rw [hgn2, hf1 (k+1) (by omega), hnext]; simp [contOf]; exact ⟨rfl, rfl, rfl, rfl⟩
  · intro j h1 h2
    rw [hf2 j (by omega) (by omega), hf1 j (by omega)]
    exact h.above j (by omega) h2

/-- every Deferred of the chain is finished; `d_0` holds the final result -/
structure Completed (n : Nat) (r : Res) (st : St) : Prop where
  size : st.heap.size = n+1
  all : ∀ j ≤ n, st.get j = done j r
  probes : st.probes = List.replicate (n+1) 4
  oof : st.oof = false
  raised : st.raised = 0

theorem fire_last (n g : Nat) (r : Res) (hr : r.isDfd = false) (st : St) (h : Linked n n st) :
    Completed n r (fireD (g + (5*n+6)) 1 n r st).1 ∧ (fireD (g + (5*n+6)) 1 n r st).2 = false := by
  have hsz : n < st.heap.size := by rw [h.size]; omega
  have hhere : st.get n = { callbacks := .probe :: contOf n } := by
    rw [h.here, chainDfd_last]; rfl
  have e : g + (5*n+6) = (g + 5*n + 4) + 2 := by omega
  obtain ⟨s1, e1, hs1, hg1, hf1, hp1, ho1, hr1⟩ :=
    fireD_fresh (g + 5*n + 4) 1 n r st hsz (by rw [hhere]) (by rw [hhere])
  have hres : s1.get n = resumed n r := by rw [hg1, hhere]; rfl
  have hbelow : ∀ j < n, s1.get j = waiting j := by
    intro j hj; rw [hf1 j (by omega)]; exact h.below j hj
  have e' : g + 5*n + 4 = (g+1) + (5*n+3) := by omega
  obtain ⟨s2, e2, hs2, hd2, hf2, hp2, ho2, hr2⟩ :=
    unwind 3 r hr n [] s1 (g+1) (by omega) hres hbelow (by intro x hx; cases hx)
  rw [e, e1]
  show Completed n r (outer (g + 5*n + 4) 3 [n] s1) ∧ _
  rw [e', e2, outer_nil]
  refine ⟨⟨by rw [hs2, hs1]; exact h.size, hd2, ?_, by rw [ho2, ho1, h.oof], by rw [hr2, hr1, h.raised]⟩, rfl⟩
  rw [hp2, hp1, h.probes]; simp

theorem chainHeap_size (n : Nat) : (chainHeap n).heap.size = n+1 := by simp [chainHeap]

theorem chainHeap_get (n j : Nat) (hj : j ≤ n) : (chainHeap n).get j = chainDfd n j := by
  have : j < n+1 := by omega
  simp [chainHeap, St.get, Array.getD_eq_getD_getElem?, this]

theorem linked_zero (n : Nat) : Linked n 0 (chainHeap n) :=
  ⟨chainHeap_size n, by intro j hj; omega, by rw [chainHeap_get n 0 (by omega)]; simp [contOf]; rfl,
   fun j _ h2 => chainHeap_get n j h2, rfl, rfl, rfl⟩

theorem exec_append (f : Nat) (st : St) (a b : List Op) :
    exec f st (a ++ b) = exec f (exec f st a) b := by simp [exec, List.foldl_append]

theorem exec_singleton (f : Nat) (st : St) (op : Op) : exec f st [op] = step f st op := rfl

theorem step_fire_ok (f i : Nat) (v : Int) (st : St) (h : (fireD f 1 i (.val v) st).2 = false) :
    step f st (.fire i v) = (fireD f 1 i (.val v) st).1 := by
  show (if (fireD f 1 i (.val v) st).2 then _ else _) = _
  rw [h]; rfl

theorem step_fail_ok (f i : Nat) (e : Int) (st : St) (h : (fireD f 1 i (.fail e) st).2 = false) :
    step f st (.fail i e) = (fireD f 1 i (.fail e) st).1 := by
  show (if (fireD f 1 i (.fail e) st).2 then _ else _) = _
  rw [h]; rfl

theorem linked_prefix (n g k : Nat) (hk : k ≤ n) :
    Linked n k (exec (g+5) (chainHeap n) ((List.range k).map fun i => Op.fire i 1)) := by
  induction k with
  | zero => exact linked_zero n
  | succ k ih =>
    rw [List.range_succ, List.map_append, exec_append]
    exact fire_link n k g 1 _ (by omega) (ih (by omega))

end TwistedProps.C02
