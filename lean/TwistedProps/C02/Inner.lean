import TwistedProps.C02.Chain
/-!
C02 — inner-fired-first chains (lemmas): every link steals the result of the next one, already fired.
-/
namespace TwistedProps.C02
open Twisted.Defer.Depth

/-- a callback returns a Deferred that already has a plain result: the result is stolen, the loop goes on -/
theorem inner_ret_steal (f D cur j : Nat) (cbs : List Cb) (rest : List Nat) (st : St) (r' : Res)
    (hne : j ≠ cur) (hsz : cur < st.heap.size) (hsz' : j < st.heap.size)
    (h : (st.get cur).callbacks = .ret j :: cbs) (hj : (st.get j).result = r')
    (hr1 : r' ≠ .none) (hr2 : r'.isDfd = false) (hp : (st.get j).paused = 0)
    (hcs : (st.get j).callbacks = []) :
    ∃ st', inner (f+2) D cur rest st = inner (f+1) D cur rest st' ∧
      st'.heap.size = st.heap.size ∧
      st'.get cur = { st.get cur with callbacks := cbs, running := false, result := r' } ∧
      st'.get j = { st.get j with result := .val 0 } ∧
      (∀ x, x ≠ cur → x ≠ j → st'.get x = st.get x) ∧
      st'.probes = st.probes ∧ st'.oof = st.oof ∧ st'.raised = st.raised := by
  rw [inner_user (f+1) D cur (.ret j) cbs rest st h (by intro ch; exact Cb.noConfusion)]
  rw [callCb_ret]
  simp only []
  unfold afterCb
  simp only []
  have hjg : ((((beforeCb cur cbs st).enter (D + 1)).set cur
      { ((beforeCb cur cbs st).enter (D + 1)).get cur with running := false, result := Res.dfd j }).get j) = st.get j := by
    simp (disch := omega) [beforeCb, get_set_ne]
  rw [hjg, hj, hp, hcs]
  have hcond : ¬ (r' = .none ∨ r'.isDfd = true ∨ (0 : Int) ≠ 0 ∨ ([] : List Cb) ≠ []) := by
    simp [hr1, hr2]
  rw [if_neg hcond]
  refine ⟨_, rfl, ?_, ?_, ?_, ?_, ?_, ?_, ?_⟩
  · simp [beforeCb]
  · simp (disch := first | omega | (simp [beforeCb]; omega)) [beforeCb, get_set_eq, get_set_ne, set_enter]
  · simp (disch := first | omega | (simp [beforeCb]; omega)) [beforeCb, get_set_eq, get_set_ne, set_enter, hj]
  · intro x h1 h2; simp (disch := omega) [beforeCb, get_set_ne]
  · simp [beforeCb]
  · simp [beforeCb]
  · simp [beforeCb]

/-- inner-first progress: `d_k … d_n` have been fired; `d_k` holds the result, the ones above were emptied -/
structure Stolen (n k : Nat) (r : Res) (st : St) : Prop where
  size : st.heap.size = n+1
  below : ∀ j < k, st.get j = chainDfd n j
  here : st.get k = { called := true, result := r }
  above : ∀ j, k < j → j ≤ n → st.get j = { called := true, result := .val 0 }
  probes : st.probes = List.replicate (n + 1 - k) 4
  oof : st.oof = false
  raised : st.raised = 0

theorem fire_innermost (n g : Nat) (r : Res) (hr : r.isDfd = false) :
    Stolen n n r (fireD (g+7) 1 n r (chainHeap n)).1 ∧ (fireD (g+7) 1 n r (chainHeap n)).2 = false := by
  have hsz : n < (chainHeap n).heap.size := by rw [chainHeap_size]; omega
  have hhere : (chainHeap n).get n = { callbacks := [.probe] } := by
    rw [chainHeap_get n n (Nat.le_refl n), chainDfd_last]
  obtain ⟨s1, e1, hs1, hg1, hf1, hp1, ho1, hr1⟩ :=
    fireD_fresh (g+5) 1 n r (chainHeap n) hsz (by rw [hhere]) (by rw [hhere])
  have hres : s1.get n = { called := true, paused := 0, result := r, callbacks := .probe :: [], running := false } := by
    rw [hg1, hhere]
  obtain ⟨s2, e2, hs2, hg2, hf2, hp2, ho2, hr2⟩ :=
    inner_probe (g+2) 3 n [] [] s1 r hr (by omega) hres
  have hp : (s1.get n).paused = 0 := by rw [hres]
  have : fireD (g+7) 1 n r (chainHeap n) = (s2, false) := by
    show fireD (g+5+2) 1 n r (chainHeap n) = _
    rw [e1]
    show (outer (g+4+1) 3 [n] s1, false) = _
    rw [outer_cons]
    simp only [hp, ne_eq, not_true_eq_false, if_false]
    rw [e2, inner_nil (g+2) 3 n [] s2 (by rw [hg2]), outer_nil]
  rw [this]
  refine ⟨⟨by rw [hs2, hs1, chainHeap_size], ?_, by rw [hg2], ?_, ?_, by rw [ho2, ho1]; rfl, by rw [hr2, hr1]; rfl⟩, rfl⟩
  · intro j hj
    rw [hf2 j (by omega), hf1 j (by omega)]
    exact chainHeap_get n j (by omega)
  · intro j h1 h2; omega
  · rw [hp2, hp1]
    have : n + 1 - n = 1 := by omega
    rw [this]; rfl

theorem fire_steal (n k g : Nat) (v : Int) (r : Res) (hr0 : r ≠ .none) (hr : r.isDfd = false) (st : St)
    (hk : k < n) (h : Stolen n (k+1) r st) :
    Stolen n k r (step (g+7) st (.fire k v)) := by
  have hn := h.size
  have hsz : k < st.heap.size := by rw [h.size]; omega
  have hhere : st.get k = { callbacks := [.ret (k+1), .probe] } := by
    rw [h.below k (by omega), chainDfd_lt hk]
  obtain ⟨s1, e1, hs1, hg1, hf1, hp1, ho1, hr1⟩ :=
    fireD_fresh (g+5) 1 k (.val v) st hsz (by rw [hhere]) (by rw [hhere])
  have hcb : (s1.get k).callbacks = .ret (k+1) :: [.probe] := by rw [hg1, hhere]
  have hn1 : s1.get (k+1) = { called := true, result := r } := by rw [hf1 (k+1) (by omega), h.here]
  obtain ⟨s2, e2, hs2, hg2, hgn2, hf2, hp2, ho2, hr2⟩ :=
    inner_ret_steal (g+2) 3 k (k+1) [.probe] [] s1 r (by omega) (by omega) (by omega) hcb
      (by rw [hn1]) hr0 hr (by rw [hn1]) (by rw [hn1])
  have hres2 : s2.get k = { called := true, paused := 0, result := r, callbacks := .probe :: [], running := false } := by
    rw [hg2, hg1, hhere]
  obtain ⟨s3, e3, hs3, hg3, hf3, hp3, ho3, hr3⟩ :=
    inner_probe (g+1) 3 k [] [] s2 r hr (by omega) hres2
  have hp : (s1.get k).paused = 0 := by rw [hg1, hhere]
  have hstep : step (g+7) st (.fire k v) = s3 := by
    have : fireD (g+7) 1 k (.val v) st = (s3, false) := by
      show fireD (g+5+2) 1 k (.val v) st = _
      rw [e1]
      show (outer (g+4+1) 3 [k] s1, false) = _
      rw [outer_cons]
      simp only [hp, ne_eq, not_true_eq_false, if_false]
      rw [e2, e3, inner_nil (g+1) 3 k [] s3 (by rw [hg3]), outer_nil]
    rw [step_fire_ok _ k v _ (by rw [this]), this]
  rw [hstep]
  refine ⟨by rw [hs3, hs2, hs1]; exact h.size, ?_, by rw [hg3], ?_, ?_, by rw [ho3, ho2, ho1]; exact h.oof,
    by rw [hr3, hr2, hr1]; exact h.raised⟩
  · intro j hj
    rw [hf3 j (by omega), hf2 j (by omega) (by omega), hf1 j (by omega)]
    exact h.below j (by omega)
  · intro j h1 h2
    rw [hf3 j (by omega)]
    by_cases hj : j = k+1
    · subst hj; rw [hgn2, hn1]
    · rw [hf2 j (by omega) hj, hf1 j (by omega)]
      exact h.above j (by omega) h2
  · rw [hp3, hp2, hp1, h.probes]
    have : n + 1 - k = (n + 1 - (k+1)) + 1 := by omega
    rw [this, List.replicate_succ]

theorem steal_all (n g : Nat) (r : Res) (hr0 : r ≠ .none) (hr : r.isDfd = false) :
    ∀ (m : Nat) (st : St), m ≤ n → Stolen n m r st →
      Stolen n 0 r (exec (g+7) st ((List.range m).reverse.map fun i => Op.fire i 1)) := by
  intro m
  induction m with
  | zero => intro st _ h; exact h
  | succ m ih =>
    intro st hm h
    rw [List.range_succ, List.reverse_append]
    show Stolen n 0 r (exec (g+7) (step (g+7) st (.fire m 1)) _)
    exact ih _ (by omega) (fire_steal n m g 1 r hr0 hr st (by omega) h)

end TwistedProps.C02
