import TwistedModel.Defer.Depth
/-!
C02 — unfolding lemmas for the fuel-indexed functions of `TwistedModel/Defer/Depth.lean` and the
heap `get`/`set` algebra.  Lemmas only; the property statements are in `TwistedProps/C02.lean`.
-/
namespace TwistedProps.C02
open Twisted.Defer.Depth

/-! ### heap algebra -/

@[simp] theorem get_set_eq (st : St) (i : Nat) (d : Dfd) (h : i < st.heap.size) :
    (st.set i d).get i = d := by
  simp [St.get, St.set, Array.getD_eq_getD_getElem?, h]

theorem get_set_ne (st : St) (i j : Nat) (d : Dfd) (h : i ≠ j) :
    (st.set i d).get j = st.get j := by
  simp [St.get, St.set, Array.getD_eq_getD_getElem?, h]

theorem get_set_oob (st : St) (i j : Nat) (d : Dfd) (h : ¬ i < st.heap.size) :
    (st.set i d).get j = st.get j := by
  simp only [St.get, St.set]
  rw [Array.setIfInBounds_eq_of_size_le (by omega)]

/-- whatever the index: the new value or the old one -/
theorem get_set_cases (st : St) (i j : Nat) (d : Dfd) :
    (st.set i d).get j = d ∨ (st.set i d).get j = st.get j := by
  by_cases h : i < st.heap.size
  · by_cases hij : i = j
    · subst hij; left; exact get_set_eq st i d h
    · right; exact get_set_ne st i j d hij
  · right; exact get_set_oob st i j d h

@[simp] theorem size_set (st : St) (i : Nat) (d : Dfd) : (st.set i d).heap.size = st.heap.size := by
  simp [St.set]

/-- `enter`/`log` commute with `set`: push them outwards so that `get (set …)` meets `st` directly -/
theorem set_enter (st : St) (D i : Nat) (d : Dfd) : (st.enter D).set i d = (st.set i d).enter D := rfl
theorem set_log (st : St) (D i : Nat) (d : Dfd) : (st.log D).set i d = (st.set i d).log D := rfl
@[simp] theorem size_enter (st : St) (D : Nat) : (st.enter D).heap.size = st.heap.size := rfl
@[simp] theorem size_log (st : St) (D : Nat) : (st.log D).heap.size = st.heap.size := rfl

@[simp] theorem get_enter (st : St) (D i : Nat) : (st.enter D).get i = st.get i := rfl
@[simp] theorem get_log (st : St) (D i : Nat) : (st.log D).get i = st.get i := rfl
@[simp] theorem get_oof (st : St) (i : Nat) : st.outOfFuel.get i = st.get i := rfl
@[simp] theorem heap_enter (st : St) (D : Nat) : (st.enter D).heap = st.heap := rfl
@[simp] theorem heap_log (st : St) (D : Nat) : (st.log D).heap = st.heap := rfl
@[simp] theorem probes_enter (st : St) (D : Nat) : (st.enter D).probes = st.probes := rfl
@[simp] theorem probes_set (st : St) (i : Nat) (d : Dfd) : (st.set i d).probes = st.probes := rfl
@[simp] theorem probes_log (st : St) (D : Nat) : (st.log D).probes = D :: st.probes := rfl
@[simp] theorem probes_oof (st : St) : st.outOfFuel.probes = st.probes := rfl
@[simp] theorem maxDepth_enter (st : St) (D : Nat) : (st.enter D).maxDepth = max st.maxDepth D := rfl
@[simp] theorem maxDepth_set (st : St) (i : Nat) (d : Dfd) : (st.set i d).maxDepth = st.maxDepth := rfl
@[simp] theorem maxDepth_log (st : St) (D : Nat) : (st.log D).maxDepth = st.maxDepth := rfl
@[simp] theorem maxDepth_oof (st : St) : st.outOfFuel.maxDepth = st.maxDepth := rfl
@[simp] theorem oof_enter (st : St) (D : Nat) : (st.enter D).oof = st.oof := rfl
@[simp] theorem oof_set (st : St) (i : Nat) (d : Dfd) : (st.set i d).oof = st.oof := rfl
@[simp] theorem oof_log (st : St) (D : Nat) : (st.log D).oof = st.oof := rfl
@[simp] theorem raised_enter (st : St) (D : Nat) : (st.enter D).raised = st.raised := rfl
@[simp] theorem raised_set (st : St) (i : Nat) (d : Dfd) : (st.set i d).raised = st.raised := rfl
@[simp] theorem raised_log (st : St) (D : Nat) : (st.log D).raised = st.raised := rfl

/-! ### one-step unfoldings (all hold by `rfl`: the recursion is structural on the fuel) -/

theorem fireD_succ (f D i : Nat) (r : Res) (st : St) :
    fireD (f+1) D i r st =
      if (((st.enter D).enter (D+1)).get i).called then (((st.enter D).enter (D+1)), true)
      else (runCallbacks f (D+2) i
              (((st.enter D).enter (D+1)).set i
                { ((st.enter D).enter (D+1)).get i with called := true, result := r }), false) := rfl

theorem runCallbacks_succ (f D self : Nat) (st : St) :
    runCallbacks (f+1) D self st =
      if ((st.enter D).get self).running then st.enter D else outer f D [self] (st.enter D) := rfl

theorem outer_zero (D : Nat) (chain : List Nat) (st : St) : outer 0 D chain st = st.outOfFuel := rfl
theorem outer_nil (f D : Nat) (st : St) : outer (f+1) D [] st = st := rfl
theorem outer_cons (f D cur : Nat) (rest : List Nat) (st : St) :
    outer (f+1) D (cur :: rest) st =
      if (st.get cur).paused ≠ 0 then outer f D rest st else inner f D cur rest st := rfl

/-- what `inner` does after the user callback returned `r` in state `st` -/
def afterCb (f D cur : Nat) (rest : List Nat) (st : St) (r : Res) : St :=
  let st := st.set cur { st.get cur with running := false, result := r }
  match r with
  | .dfd j =>
    let t := st.get j
    if t.result = .none ∨ t.result.isDfd ∨ t.paused ≠ 0 ∨ t.callbacks ≠ [] then
      let st := st.set cur { st.get cur with paused := (st.get cur).paused + 1 }
      let st := st.set j { st.get j with callbacks := (st.get j).callbacks ++ [.cont cur] }
      outer f D rest st
    else
      let st := st.set j { t with result := .val 0 }
      let st := st.set cur { st.get cur with result := t.result }
      inner f D cur rest st
  | _ => inner f D cur rest st

/-- the `_CONTINUE` hand-over -/
def handOver (cur ch : Nat) (cbs : List Cb) (st : St) : St :=
  let d := st.get cur
  let st := st.set cur { d with callbacks := cbs }
  let st := st.set ch { st.get ch with result := d.result }
  let st := st.set cur { st.get cur with result := .val 0 }
  st.set ch { st.get ch with paused := (st.get ch).paused - 1 }

/-- state in which the user callback is called -/
def beforeCb (cur : Nat) (cbs : List Cb) (st : St) : St :=
  let st := st.set cur { st.get cur with callbacks := cbs }
  st.set cur { st.get cur with running := true }

theorem inner_zero (D cur : Nat) (rest : List Nat) (st : St) : inner 0 D cur rest st = st.outOfFuel := rfl

theorem inner_nil (f D cur : Nat) (rest : List Nat) (st : St) (h : (st.get cur).callbacks = []) :
    inner (f+1) D cur rest st = outer f D rest st := by
  show (match (st.get cur).callbacks with | [] => outer f D rest st | cb :: cbs => _) = _
  rw [h]

theorem inner_cont (f D cur ch : Nat) (cbs : List Cb) (rest : List Nat) (st : St)
    (h : (st.get cur).callbacks = .cont ch :: cbs) :
    inner (f+1) D cur rest st = outer f D (ch :: cur :: rest) (handOver cur ch cbs st) := by
  show (match (st.get cur).callbacks with | [] => outer f D rest st | cb :: cbs => _) = _
  rw [h]
  rfl

theorem inner_user (f D cur : Nat) (cb : Cb) (cbs : List Cb) (rest : List Nat) (st : St)
    (h : (st.get cur).callbacks = cb :: cbs) (hc : ∀ ch, cb ≠ .cont ch) :
    inner (f+1) D cur rest st =
      afterCb f D cur rest (callCb f (D+1) cb (st.get cur).result (beforeCb cur cbs st)).1
        (callCb f (D+1) cb (st.get cur).result (beforeCb cur cbs st)).2 := by
  show (match (st.get cur).callbacks with | [] => outer f D rest st | cb :: cbs => _) = _
  rw [h]
  cases cb with
  | cont ch => exact absurd rfl (hc ch)
  | _ => rfl

theorem callCb_zero (D : Nat) (cb : Cb) (arg : Res) (st : St) :
    callCb 0 D cb arg st = (st.outOfFuel, .val 0) := rfl
theorem callCb_probe (f D : Nat) (arg : Res) (st : St) :
    callCb (f+1) D .probe arg st = ((st.enter D).log D, arg) := rfl
theorem callCb_ret (f D j : Nat) (arg : Res) (st : St) :
    callCb (f+1) D (.ret j) arg st = (st.enter D, .dfd j) := rfl
theorem callCb_const (f D : Nat) (v : Int) (arg : Res) (st : St) :
    callCb (f+1) D (.const v) arg st = (st.enter D, .val v) := rfl
theorem callCb_raise (f D : Nat) (e : Int) (arg : Res) (st : St) :
    callCb (f+1) D (.raise e) arg st = (st.enter D, .fail e) := rfl
theorem callCb_cont (f D ch : Nat) (arg : Res) (st : St) :
    callCb (f+1) D (.cont ch) arg st = (st.enter D, arg) := rfl
theorem callCb_fire (f D j : Nat) (arg : Res) (st : St) :
    callCb (f+1) D (.fire j) arg st =
      ((fireD f D j arg (st.enter D)).1,
       if (fireD f D j arg (st.enter D)).2 then .fail alreadyCalled else .val 0) := rfl

end TwistedProps.C02
