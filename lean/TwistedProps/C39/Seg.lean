import TwistedProps.C39.Run
import TwistedModel.Telnet.NegotiateSeg
/-!
C39 — histories with arbitrary segmentation and synchronous transports (`TwistedModel/Telnet/NegotiateSeg.lean`)
are command-level histories: `mrun` is `run` of the primitive history it unfolds to, with the same requests.
-/
namespace TwistedProps.C39
open Twisted.Telnet.Negotiate

theorem run_append (pol : Bool → Policy) (a b : List Op) : ∀ s,
    run pol s (a ++ b) = ((run pol (run pol s a).1 b).1, (run pol s a).2 ++ (run pol (run pol s a).1 b).2) := by
  induction a with
  | nil => intro s; simp [run_nil]
  | cons op a ih => intro s; simp only [List.cons_append, run_cons, ih, List.append_assoc]

/-- the extended run is the command-level run of the primitive history it stands for; its event groups,
    concatenated, are that run's trace -/
theorem mrun_is_run (pol : Bool → Policy) (ops : List MOp) : ∀ ms,
    run pol ms.sys (mrun pol ms ops).2.2 = ((mrun pol ms ops).1.sys, (mrun pol ms ops).2.1.flatten) := by
  induction ops with
  | nil => intro ms; simp [mrun, run_nil]
  | cons op ops ih =>
    intro ms
    simp only [mrun, run_append, List.flatten_cons]
    have h := ih (mstep pol ms op).1
    have e1 : (mstep pol ms op).1.sys = (run pol ms.sys (mstep pol ms op).2.2).1 := rfl
    have e2 : (mstep pol ms op).2.1 = (run pol ms.sys (mstep pol ms op).2.2).2 := rfl
    rw [← e1, ← e2, h]

/-- the requests of an extended history -/
def mIsReq : MOp → Bool
  | .req _ _ _ => true
  | .sreq _ _ _ => true
  | _ => false

def mnumReq (ops : List MOp) : Nat := (ops.filter mIsReq).length

/-- the property's precondition on an extended op: `do(o)` only where the endpoint's own `enableRemote` accepts `o` -/
def mwfOp (pol : Bool → Policy) : MOp → Bool
  | .req x c o => wfOp pol (.req x c o)
  | .sreq x c o => wfOp pol (.req x c o)
  | _ => true

def mwf (pol : Bool → Policy) (ops : List MOp) : Prop := ∀ op ∈ ops, mwfOp pol op = true

instance (pol : Bool → Policy) (ops : List MOp) : Decidable (mwf pol ops) := by unfold mwf; infer_instance

theorem drainOps_deliver (pol : Bool → Policy) (fuel : Nat) : ∀ s, ∀ op ∈ drainOps pol fuel s, ∃ x, op = .deliver x := by
  induction fuel with
  | zero => intro s op h; simp [drainOps] at h
  | succ n ih =>
    intro s op h
    simp only [drainOps] at h
    split at h
    · simp at h
    · simp only [List.mem_append] at h
      rcases h with (h | h) | h
      · split at h <;> simp at h <;> first | exact ⟨_, h⟩ | exact ⟨_, h.2⟩
      · split at h <;> simp at h <;> first | exact ⟨_, h⟩ | exact ⟨_, h.2⟩
      · exact ih _ op h

/-- what an extended op unfolds to: the request itself (if it is one) and deliveries -/
theorem mops_shape (pol : Bool → Policy) (ms : MSys) (op : MOp) :
    (∀ p ∈ (mops pol ms op).1, (∃ x, p = .deliver x) ∨
      (mIsReq op = true ∧ ∃ x c o, p = .req x c o ∧ (op = .req x c o ∨ op = .sreq x c o))) ∧
    numReq (mops pol ms op).1 = (if mIsReq op then 1 else 0) := by
  cases op with
  | req x c o => simp [mops, mIsReq, numReq, List.filter_cons, isReqOp]
  | deliver x => simp [mops, mIsReq, numReq, isReqOp]
  | bytes x n =>
    constructor
    · intro p hp
      simp only [mops, List.mem_replicate] at hp
      exact Or.inl ⟨x, hp.2⟩
    · simp only [mops, mIsReq, numReq]
      rw [List.filter_eq_nil_iff.mpr]
      · rfl
      · intro p hp; simp only [List.mem_replicate] at hp; simp [hp.2, isReqOp]
  | sreq x c o =>
    simp only [mops]
    split
    · constructor
      · intro p hp
        simp only [List.mem_cons] at hp
        rcases hp with hp | hp
        · exact Or.inr ⟨rfl, x, c, o, hp, Or.inr rfl⟩
        · exact Or.inl (drainOps_deliver pol _ _ p hp)
      · simp only [numReq, mIsReq, List.filter_cons, isReqOp, if_true, List.length_cons]
        rw [List.filter_eq_nil_iff.mpr]
        · rfl
        · intro p hp
          obtain ⟨y, hy⟩ := drainOps_deliver pol _ _ p hp
          simp [hy, isReqOp]
    · simp [mIsReq, numReq, List.filter_cons, isReqOp]

theorem numReq_append (a b : List Op) : numReq (a ++ b) = numReq a + numReq b := by
  simp [numReq, List.filter_append]

theorem mrun_requests (pol : Bool → Policy) (ops : List MOp) : ∀ ms, mwf pol ops →
    wf pol (mrun pol ms ops).2.2 ∧ numReq (mrun pol ms ops).2.2 = mnumReq ops := by
  induction ops with
  | nil => intro ms _; simp [mrun, wf, numReq, mnumReq]
  | cons op ops ih =>
    intro ms h
    have hop : mwfOp pol op = true := h op (by simp)
    have hops : mwf pol ops := fun op' h' => h op' (by simp [h'])
    obtain ⟨w, n⟩ := ih (mstep pol ms op).1 hops
    obtain ⟨sh, nr⟩ := mops_shape pol ms op
    constructor
    · intro p hp
      simp only [mrun, List.mem_append] at hp
      rcases hp with hp | hp
      · rcases sh p hp with ⟨x, rfl⟩ | ⟨_, x, c, o, rfl, hh⟩
        · rfl
        · rcases hh with rfl | rfl <;> exact hop
      · exact w p hp
    · simp only [mrun, numReq_append]
      have : (mstep pol ms op).2.2 = (mops pol ms op).1 := rfl
      rw [this, nr, n]
      simp only [mnumReq, List.filter_cons]
      split <;> simp <;> omega

theorem effDeliveries_append (pol : Bool → Policy) (a b : List Op) : ∀ s,
    effDeliveries pol s (a ++ b) = effDeliveries pol s a + effDeliveries pol (run pol s a).1 b := by
  induction a with
  | nil => intro s; simp [effDeliveries, run_nil]
  | cons op a ih => intro s; simp only [List.cons_append, effDeliveries, ih, run_cons]; omega

/-- a pump of `fuel` rounds either empties both channels or makes at least `fuel` effective deliveries -/
theorem drain_progress (pol : Bool → Policy) (fuel : Nat) : ∀ s,
    ((run pol s (drainOps pol fuel s)).1.inbox false = [] ∧ (run pol s (drainOps pol fuel s)).1.inbox true = []) ∨
    fuel ≤ effDeliveries pol s (drainOps pol fuel s) := by
  induction fuel with
  | zero => intro s; right; omega
  | succ n ih =>
    intro s
    simp only [drainOps]
    split
    · rename_i hE
      left
      simp only [Bool.and_eq_true, List.isEmpty_iff] at hE
      simpa [run_nil] using hE
    · rename_i hE
      simp only [run_append, effDeliveries_append]
      rcases ih ((run pol (run pol s (if (s.inbox false).isEmpty then [] else [Op.deliver false])).1
        (if ((run pol s (if (s.inbox false).isEmpty then [] else [Op.deliver false])).1.inbox true).isEmpty then []
          else [Op.deliver true])).1) with h | h
      · left; exact h
      · right
        by_cases hA : (s.inbox false).isEmpty
        · have hB : (s.inbox true).isEmpty = false := by
            cases hb : (s.inbox true).isEmpty <;> simp_all
          simp only [hA, if_true, run_nil, hB] at h ⊢
          simp [effDeliveries, eff1, hB] at h ⊢
          omega
        · simp only [hA] at h ⊢
          simp [effDeliveries, eff1, hA] at h ⊢
          omega

theorem drainOps_numReq (pol : Bool → Policy) (fuel : Nat) (s : Sys) : numReq (drainOps pol fuel s) = 0 := by
  simp only [numReq]
  rw [List.filter_eq_nil_iff.mpr]
  · rfl
  · intro p hp
    obtain ⟨y, hy⟩ := drainOps_deliver pol _ _ p hp
    simp [hy, isReqOp]

end TwistedProps.C39
