import TwistedProps.C39.Once
/-!
C39 — lifting the step lemmas to whole histories (`run`), message accounting.
-/
namespace TwistedProps.C39
open Twisted.Telnet.Negotiate

/-- the property's precondition on a history -/
def wf (pol : Bool → Policy) (ops : List Op) : Prop := ∀ op ∈ ops, wfOp pol op = true

instance (pol : Bool → Policy) (ops : List Op) : Decidable (wf pol ops) := by unfold wf; infer_instance

def isReqOp : Op → Bool
  | .req _ _ _ => true
  | .deliver _ => false

def numReq (ops : List Op) : Nat := (ops.filter isReqOp).length

/-- requests in the history that concern link `(o, p)` -/
def reqOn (o : Nat) (p : Bool) : List Op → Nat
  | [] => 0
  | .req x c o' :: ops => (if o' = o ∧ linkOf x c = p then 1 else 0) + reqOn o p ops
  | _ :: ops => reqOn o p ops

theorem run_nil (pol : Bool → Policy) (s : Sys) : run pol s [] = (s, []) := rfl
theorem run_cons (pol : Bool → Policy) (s : Sys) (op : Op) (ops : List Op) :
    run pol s (op :: ops) =
      ((run pol (step pol s op).1 ops).1, (step pol s op).2 ++ (run pol (step pol s op).1 ops).2) := rfl

theorem wf_cons {pol : Bool → Policy} {op : Op} {ops : List Op} (h : wf pol (op :: ops)) :
    wfOp pol op = true ∧ wf pol ops :=
  ⟨h op (by simp), fun op' h' => h op' (by simp [h'])⟩

theorem run_inv (pol : Bool → Policy) (ops : List Op) : ∀ s, Inv pol s → wf pol ops → Inv pol (run pol s ops).1 := by
  induction ops with
  | nil => intro s h _; exact h
  | cons op ops ih =>
    intro s h hwf
    obtain ⟨h1, h2⟩ := wf_cons hwf
    rw [run_cons]
    exact ih _ (Inv_step pol s op h1 h) h2

theorem run_noraise (pol : Bool → Policy) (ops : List Op) :
    ∀ s, Inv pol s → wf pol ops → raisedIn (run pol s ops).2 = false := by
  induction ops with
  | nil => intro s _ _; rfl
  | cons op ops ih =>
    intro s h hwf
    obtain ⟨h1, h2⟩ := wf_cons hwf
    rw [run_cons, raisedIn_append, step_noraise pol s op h1 h, ih _ (Inv_step pol s op h1 h) h2]
    rfl

theorem run_J (pol : Bool → Policy) (ops : List Op) :
    ∀ s F, Inv pol s → wf pol ops → J s F → J (run pol s ops).1 (F ++ firedIds (run pol s ops).2) := by
  induction ops with
  | nil => intro s F _ _ hJ; simpa [run_nil, firedIds] using hJ
  | cons op ops ih =>
    intro s F h hwf hJ
    obtain ⟨h1, h2⟩ := wf_cons hwf
    rw [run_cons, firedIds_append, ← List.append_assoc]
    exact ih _ _ (Inv_step pol s op h1 h) h2 (J_step pol s op F h hJ)

theorem run_nextId (pol : Bool → Policy) (ops : List Op) :
    ∀ s, (run pol s ops).1.nextId = s.nextId + numReq ops := by
  induction ops with
  | nil => intro s; simp [run_nil, numReq]
  | cons op ops ih =>
    intro s
    rw [run_cons, ih]
    cases op with
    | req x c o => simp [step, Sys.commit, numReq, isReqOp, List.filter_cons]; omega
    | deliver x =>
      cases hib : s.inbox x with
      | nil => simp [step, hib, numReq, isReqOp, List.filter_cons]
      | cons m rest => obtain ⟨c, o⟩ := m; simp [step, hib, Sys.commit, numReq, isReqOp, List.filter_cons]

theorem sentOn_append (o : Nat) (p : Bool) (a b : List (Bool × Ev)) :
    sentOn o p (a ++ b) = sentOn o p a + sentOn o p b := by
  induction a with
  | nil => simp [sentOn]
  | cons e a ih => obtain ⟨x, e⟩ := e; cases e <;> simp [sentOn, ih]; omega

def reqOn1 (o : Nat) (p : Bool) : Op → Nat
  | .req x c o' => if o' = o ∧ linkOf x c = p then 1 else 0
  | _ => 0

theorem absOp_isReq (s : Sys) (op : Op) (o : Nat) (p : Bool) (lop : LOp) (h : absOp s op o p = some lop) :
    (if isReq lop then 2 else 0) ≤ 2 * reqOn1 o p op := by
  cases op with
  | req x c o' =>
    simp only [absOp] at h
    split at h
    · rename_i hc; simp [reqOn1, hc]; split <;> omega
    · cases h
  | deliver x =>
    cases hib : s.inbox x with
    | nil => simp [absOp, hib] at h
    | cons m rest =>
      obtain ⟨c, o'⟩ := m
      simp only [absOp, hib] at h
      split at h
      · cases h; split <;> simp [isReq]
      · cases h

theorem step_sent (pol : Bool → Policy) (s : Sys) (op : Op) (hwf : wfOp pol op = true) (h : Inv pol s)
    (o : Nat) (p : Bool) :
    sentOn o p (step pol s op).2 + phi (link pol (step pol s op).1 o p) ≤
      phi (link pol s o p) + 2 * reqOn1 o p op := by
  obtain ⟨h1, h2⟩ := link_step pol s op o p
  rw [h1, h2]
  cases hop : absOp s op o p with
  | none => simp [lapply]
  | some lop =>
    have := R_phi _ (h o p) lop (allOps_complete lop) (absOp_ok pol s op o p lop hwf hop)
    have h3 := absOp_isReq s op o p lop hop
    simp only [lapply]
    omega

theorem reqOn_cons (o : Nat) (p : Bool) (op : Op) (ops : List Op) :
    reqOn o p (op :: ops) = reqOn1 o p op + reqOn o p ops := by
  cases op <;> simp [reqOn, reqOn1]

theorem run_sent (pol : Bool → Policy) (ops : List Op) (o : Nat) (p : Bool) :
    ∀ s, Inv pol s → wf pol ops →
      sentOn o p (run pol s ops).2 + phi (link pol (run pol s ops).1 o p) ≤
        phi (link pol s o p) + 2 * reqOn o p ops := by
  induction ops with
  | nil => intro s _ _; simp [run_nil, sentOn, reqOn]
  | cons op ops ih =>
    intro s h hwf
    obtain ⟨h1, h2⟩ := wf_cons hwf
    have a := step_sent pol s op h1 h o p
    have b := ih _ (Inv_step pol s op h1 h) h2
    rw [run_cons, sentOn_append, reqOn_cons]
    simp only
    omega

/-- if every key occurs in `xs` at most `c` times as often as in `ys`, `xs` is at most `c` times as long -/
theorem length_le_of_count_le {α : Type} [BEq α] [LawfulBEq α] (c : Nat) :
    ∀ (n : Nat) (xs ys : List α), xs.length ≤ n → (∀ k, xs.count k ≤ c * ys.count k) →
      xs.length ≤ c * ys.length := by
  intro n
  induction n with
  | zero => intro xs ys h _; have : xs.length = 0 := by omega
            omega
  | succ n ih =>
    intro xs ys hlen h
    cases hxs0 : xs with
    | nil => simp
    | cons x t =>
      have hmem : x ∈ xs := by simp [hxs0]
      rw [← hxs0]
      have hx : xs.length = xs.count x + (xs.filter (fun a => !(a == x))).length := by
        have := List.length_eq_countP_add_countP (l := xs) (fun a => a == x)
        rw [List.countP_eq_length_filter (p := fun a => ¬ ((a == x) = true))] at this
        simpa [List.count] using this
      have hy : ys.length = ys.count x + (ys.filter (fun a => !(a == x))).length := by
        have := List.length_eq_countP_add_countP (l := ys) (fun a => a == x)
        rw [List.countP_eq_length_filter (p := fun a => ¬ ((a == x) = true))] at this
        simpa [List.count] using this
      have hpos : 1 ≤ xs.count x := List.count_pos_iff.2 hmem
      have hrec : (xs.filter (fun a => !(a == x))).length ≤ c * (ys.filter (fun a => !(a == x))).length := by
        apply ih
        · omega
        · intro k
          by_cases hk : k = x
          · subst hk
            have : (xs.filter (fun a => !(a == k))).count k = 0 :=
              List.count_eq_zero_of_not_mem (by simp)
            omega
          · rw [List.count_filter (by simpa using hk), List.count_filter (by simpa using hk)]
            exact h k
      have := h x
      rw [hx, hy, Nat.mul_add]
      omega

def sentKeys : List (Bool × Ev) → List (Nat × Bool)
  | [] => []
  | (x, .sent c o) :: evs => (o, linkOf x c) :: sentKeys evs
  | _ :: evs => sentKeys evs

def reqKeys : List Op → List (Nat × Bool)
  | [] => []
  | .req x c o :: ops => (o, linkOf x c) :: reqKeys ops
  | _ :: ops => reqKeys ops

/-- number of commands written in a trace -/
def sentCount : List (Bool × Ev) → Nat
  | [] => 0
  | (_, .sent _ _) :: evs => 1 + sentCount evs
  | _ :: evs => sentCount evs

theorem sentKeys_length (tr : List (Bool × Ev)) : (sentKeys tr).length = sentCount tr := by
  induction tr with
  | nil => rfl
  | cons e tr ih => obtain ⟨x, e⟩ := e; cases e <;> simp [sentKeys, sentCount, ih]; omega

theorem sentKeys_count (o : Nat) (p : Bool) (tr : List (Bool × Ev)) :
    (sentKeys tr).count (o, p) = sentOn o p tr := by
  induction tr with
  | nil => rfl
  | cons e tr ih =>
    obtain ⟨x, e⟩ := e
    cases e with
    | sent c o' =>
      simp only [sentKeys, sentOn, ih, List.count_cons]
      by_cases hc : o' = o ∧ linkOf x c = p
      · obtain ⟨h1, h2⟩ := hc; subst h1; subst h2; simp; omega
      · have : ((o', linkOf x c) == (o, p)) = false := by
          simp only [beq_eq_false_iff_ne, ne_eq, Prod.mk.injEq]; exact hc
        simp [hc, this]
    | _ => simp [sentKeys, sentOn, ih]

theorem reqKeys_length (ops : List Op) : (reqKeys ops).length = numReq ops := by
  induction ops with
  | nil => rfl
  | cons op ops ih => cases op <;> simp_all [reqKeys, numReq, isReqOp, List.filter_cons]

theorem reqKeys_count (o : Nat) (p : Bool) (ops : List Op) :
    (reqKeys ops).count (o, p) = reqOn o p ops := by
  induction ops with
  | nil => rfl
  | cons op ops ih =>
    cases op with
    | req x c o' =>
      simp only [reqKeys, reqOn, ih, List.count_cons]
      by_cases hc : o' = o ∧ linkOf x c = p
      · obtain ⟨h1, h2⟩ := hc; subst h1; subst h2; simp; omega
      · have : ((o', linkOf x c) == (o, p)) = false := by
          simp only [beq_eq_false_iff_ne, ne_eq, Prod.mk.injEq]; exact hc
        simp [hc, this]
    | deliver x => simp [reqKeys, reqOn, ih]

/-! conservation of commands: in flight + delivered = written -/

def inflight (s : Sys) : Nat := (s.inbox false).length + (s.inbox true).length

def eff1 (s : Sys) : Op → Nat
  | .deliver x => if (s.inbox x).isEmpty then 0 else 1
  | _ => 0

/-- deliveries in the history that actually handed a command to an endpoint -/
def effDeliveries (pol : Bool → Policy) : Sys → List Op → Nat
  | _, [] => 0
  | s, op :: ops => eff1 s op + effDeliveries pol (step pol s op).1 ops

theorem sentCount_map (x : Bool) (evs : List Ev) : sentCount (evs.map (Prod.mk x)) = (sentMsgs evs).length := by
  induction evs with
  | nil => rfl
  | cons e evs ih => cases e <;> simp [sentCount, sentMsgs, ih]; omega

theorem sentCount_append (a b : List (Bool × Ev)) : sentCount (a ++ b) = sentCount a + sentCount b := by
  induction a with
  | nil => simp [sentCount]
  | cons e a ih => obtain ⟨x, e⟩ := e; cases e <;> simp [sentCount, ih]; omega

theorem step_conservation (pol : Bool → Policy) (s : Sys) (op : Op) :
    inflight (step pol s op).1 + eff1 s op = inflight s + sentCount (step pol s op).2 := by
  cases op with
  | req x c o =>
    cases x <;> simp [step, Sys.commit, inflight, eff1, sentCount_map] <;> omega
  | deliver x =>
    cases hib : s.inbox x with
    | nil => simp [step, hib, eff1, sentCount]
    | cons m rest =>
      obtain ⟨c, o⟩ := m
      cases x <;> simp_all [step, Sys.commit, inflight, eff1, sentCount_map] <;> omega

theorem run_conservation (pol : Bool → Policy) (ops : List Op) :
    ∀ s, inflight (run pol s ops).1 + effDeliveries pol s ops = inflight s + sentCount (run pol s ops).2 := by
  induction ops with
  | nil => intro s; simp [run_nil, effDeliveries, sentCount]
  | cons op ops ih =>
    intro s
    have a := step_conservation pol s op
    have b := ih (step pol s op).1
    rw [run_cons, sentCount_append]
    simp only [effDeliveries]
    omega

end TwistedProps.C39
