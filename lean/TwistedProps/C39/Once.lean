import TwistedProps.C39.Refine
/-!
C39 — every request's Deferred fires at most once: bookkeeping of the `onResult` cells.
-/
namespace TwistedProps.C39
open Twisted.Telnet.Negotiate

/-- ids of the Deferreds fired, in order -/
def firedOf : List Ev → List Nat
  | [] => []
  | .fired i _ :: evs => i :: firedOf evs
  | _ :: evs => firedOf evs

def firedIds : List (Bool × Ev) → List Nat
  | [] => []
  | (_, .fired i _) :: evs => i :: firedIds evs
  | _ :: evs => firedIds evs

theorem firedIds_map (x : Bool) (evs : List Ev) : firedIds (evs.map (Prod.mk x)) = firedOf evs := by
  induction evs with
  | nil => rfl
  | cons e evs ih => cases e <;> simp [firedIds, firedOf, ih]

theorem firedIds_append (a b : List (Bool × Ev)) : firedIds (a ++ b) = firedIds a ++ firedIds b := by
  induction a with
  | nil => rfl
  | cons e a ih => obtain ⟨x, e⟩ := e; cases e <;> simp [firedIds, ih]

/-- where a pending Deferred can be stored: (endpoint, option, `us`?) -/
abbrev Slot := Bool × Nat × Bool

def sel (u : Bool) (st : OptState) : Persp := if u then st.us else st.him

def slotVal (s : Sys) (sl : Slot) : Option Nat := (sel sl.2.2 (s.opts sl.1 sl.2.1)).onResult

/-! what one handler / request does to the two `onResult` cells of an option -/

theorem recv_class (pol : Policy) (c : Cmd) (st : OptState) (o : Nat) :
    (firedOf (receive pol c st o).2 = [] ∧ ∀ u, (sel u (receive pol c st o).1).onResult = (sel u st).onResult) ∨
    (∃ u i, (sel u st).onResult = some i ∧ (sel u (receive pol c st o).1).onResult = none ∧
      (sel (!u) (receive pol c st o).1).onResult = (sel (!u) st).onResult ∧
      firedOf (receive pol c st o).2 = [i]) := by
  obtain ⟨⟨us_s, us_n, us_r⟩, ⟨hs, hn, hr⟩⟩ := st
  cases c
  case WILL =>
    cases hs <;> cases hn <;> cases hr <;> cases hok : pol.remoteOK o <;>
      simp [receive, telnet_WILL, will_no_false, will_no_true, will_yes_false, will_yes_true, firedOf, sel, hok]
    all_goals exact ⟨false, by simp⟩
  case WONT =>
    cases hs <;> cases hn <;> cases hr <;>
      simp [receive, telnet_WONT, wont_no_false, wont_no_true, wont_yes_false, wont_yes_true, firedOf, sel]
    all_goals exact ⟨false, by simp⟩
  case DO =>
    cases us_s <;> cases us_n <;> cases us_r <;> cases hok : pol.localOK o <;>
      simp [receive, telnet_DO, do_no_false, do_no_true, do_yes_false, do_yes_true, firedOf, sel, hok]
    all_goals exact ⟨true, by simp⟩
  case DONT =>
    cases us_s <;> cases us_n <;> cases us_r <;>
      simp [receive, telnet_DONT, dont_no_false, dont_no_true, dont_yes_false, dont_yes_true, firedOf, sel]
    all_goals exact ⟨true, by simp⟩

theorem req_class (c : Cmd) (st : OptState) (o id : Nat)
    (hus : st.us.negotiating = false → st.us.onResult = none)
    (hhim : st.him.negotiating = false → st.him.onResult = none) :
    (firedOf (request c st o id).2 = [id] ∧ ∀ u, (sel u (request c st o id).1).onResult = (sel u st).onResult) ∨
    (firedOf (request c st o id).2 = [] ∧ ∃ u, (sel u st).onResult = none ∧
      (sel u (request c st o id).1).onResult = some id ∧
      (sel (!u) (request c st o id).1).onResult = (sel (!u) st).onResult) := by
  obtain ⟨⟨us_s, us_n, us_r⟩, ⟨hs, hn, hr⟩⟩ := st
  cases c <;> cases us_n <;> cases hn <;> cases us_s <;> cases hs <;>
    simp_all [request, requestUs, requestHim, firedOf, sel]
  all_goals first | exact ⟨true, by simp⟩ | exact ⟨false, by simp⟩

theorem commit_slot (s : Sys) (x : Bool) (o : Nat) (st : OptState) (ib : List Msg) (evs : List Ev) (n : Nat)
    (sl : Slot) :
    slotVal (s.commit x o st ib evs n) sl =
      if sl.1 = x ∧ sl.2.1 = o then (sel sl.2.2 st).onResult else slotVal s sl := by
  simp only [slotVal, Sys.commit]
  split <;> rfl

theorem slots_same (s s' : Sys) (x : Bool) (o : Nat) (st' : OptState)
    (hopts : ∀ sl, slotVal s' sl = if sl.1 = x ∧ sl.2.1 = o then (sel sl.2.2 st').onResult else slotVal s sl)
    (h : ∀ u, (sel u st').onResult = (sel u (s.opts x o)).onResult) :
    ∀ sl, slotVal s' sl = slotVal s sl := by
  intro sl
  rw [hopts]
  split
  · rename_i hc
    obtain ⟨x2, o2, u2⟩ := sl
    obtain ⟨h1, h2⟩ := hc
    simp only at h1 h2
    subst h1; subst h2
    simp [slotVal, h]
  · rfl

theorem slots_update (s s' : Sys) (x : Bool) (o : Nat) (u : Bool) (v : Option Nat) (st' : OptState)
    (hopts : ∀ sl, slotVal s' sl = if sl.1 = x ∧ sl.2.1 = o then (sel sl.2.2 st').onResult else slotVal s sl)
    (h1 : (sel u st').onResult = v)
    (h2 : (sel (!u) st').onResult = (sel (!u) (s.opts x o)).onResult) :
    ∀ sl, slotVal s' sl = if sl = (x, o, u) then v else slotVal s sl := by
  intro sl
  rw [hopts]
  obtain ⟨x2, o2, u2⟩ := sl
  by_cases hc : x2 = x ∧ o2 = o
  · obtain ⟨hx, ho⟩ := hc
    subst hx; subst ho
    by_cases hu : u2 = u
    · subst hu; simp [h1]
    · have : u2 = !u := by cases u2 <;> cases u <;> simp_all
      subst this
      simp [h2, slotVal]
  · have : ¬ ((x2, o2, u2) = (x, o, u)) := by
      intro h; injection h with ha hb; injection hb with hb hc'; exact hc ⟨ha, hb⟩
    simp [hc, this]

theorem inv_has (pol : Bool → Policy) (s : Sys) (h : Inv pol s) (x : Bool) (o : Nat) :
    ((s.opts x o).us.negotiating = false → (s.opts x o).us.onResult = none) ∧
    ((s.opts x o).him.negotiating = false → (s.opts x o).him.onResult = none) := by
  have h1 := (R_has _ (h o x)).1
  have h2 := (R_has _ (h o (!x))).2
  simp only [link, erase, Bool.not_not] at h1 h2
  constructor
  · intro hn; rw [hn] at h1; cases hr : (s.opts x o).us.onResult <;> simp_all
  · intro hn; rw [hn] at h2; cases hr : (s.opts x o).him.onResult <;> simp_all

/-- what one step does to the request counter, the fired Deferreds and the `onResult` cells -/
theorem step_class (pol : Bool → Policy) (s : Sys) (op : Op) (hinv : Inv pol s) :
    ((step pol s op).1.nextId = s.nextId ∧ firedIds (step pol s op).2 = [] ∧
      ∀ sl, slotVal (step pol s op).1 sl = slotVal s sl) ∨
    ((step pol s op).1.nextId = s.nextId + 1 ∧ firedIds (step pol s op).2 = [s.nextId] ∧
      ∀ sl, slotVal (step pol s op).1 sl = slotVal s sl) ∨
    ((step pol s op).1.nextId = s.nextId + 1 ∧ firedIds (step pol s op).2 = [] ∧
      ∃ sl0, slotVal s sl0 = none ∧
        ∀ sl, slotVal (step pol s op).1 sl = if sl = sl0 then some s.nextId else slotVal s sl) ∨
    ((step pol s op).1.nextId = s.nextId ∧
      ∃ sl0 i, slotVal s sl0 = some i ∧ firedIds (step pol s op).2 = [i] ∧
        ∀ sl, slotVal (step pol s op).1 sl = if sl = sl0 then none else slotVal s sl) := by
  cases op with
  | req x c o =>
    obtain ⟨hus, hhim⟩ := inv_has pol s hinv x o
    have hopts := commit_slot s x o (request c (s.opts x o) o s.nextId).1 (s.inbox x)
      (request c (s.opts x o) o s.nextId).2 (s.nextId + 1)
    rcases req_class c (s.opts x o) o s.nextId hus hhim with ⟨hf, hs⟩ | ⟨hf, u, h0, h1, h2⟩
    · right; left
      refine ⟨rfl, by simp [step, firedIds_map, hf], ?_⟩
      exact slots_same s _ x o _ hopts hs
    · right; right; left
      refine ⟨rfl, by simp [step, firedIds_map, hf], (x, o, u), h0, ?_⟩
      exact slots_update s _ x o u _ _ hopts h1 h2
  | deliver x =>
    cases hib : s.inbox x with
    | nil => left; simp [step, hib, firedIds]
    | cons m rest =>
      obtain ⟨c, o⟩ := m
      have hopts := commit_slot s x o (receive (pol x) c (s.opts x o) o).1 rest
        (receive (pol x) c (s.opts x o) o).2 s.nextId
      rcases recv_class (pol x) c (s.opts x o) o with ⟨hf, hs⟩ | ⟨u, i, h0, h1, h2, hf⟩
      · left
        refine ⟨by simp [step, hib, Sys.commit], by simp [step, hib, firedIds_map, hf], ?_⟩
        simp only [step, hib]
        exact slots_same s _ x o _ hopts hs
      · right; right; right
        refine ⟨by simp [step, hib, Sys.commit], (x, o, u), i, h0, by simp [step, hib, firedIds_map, hf], ?_⟩
        simp only [step, hib]
        exact slots_update s _ x o u _ _ hopts h1 h2

/-- the Deferred ledger: request ids are `0 … nextId-1`; each is either already fired (once) or pending
    in exactly one `onResult` cell -/
structure J (s : Sys) (F : List Nat) : Prop where
  lt : ∀ sl i, slotVal s sl = some i → i < s.nextId
  fresh : ∀ sl i, slotVal s sl = some i → i ∉ F
  inj : ∀ sl1 sl2 i, slotVal s sl1 = some i → slotVal s sl2 = some i → sl1 = sl2
  nodup : F.Nodup
  flt : ∀ i ∈ F, i < s.nextId
  total : ∀ i, i < s.nextId → i ∈ F ∨ ∃ sl, slotVal s sl = some i

theorem J_init : J Sys.init [] := by
  refine ⟨?_, ?_, ?_, List.nodup_nil, ?_, ?_⟩ <;> intros <;> simp_all [slotVal, Sys.init, sel, OptState.init, Persp.init]
  all_goals (split at * <;> simp_all)

theorem J_step (pol : Bool → Policy) (s : Sys) (op : Op) (F : List Nat) (hinv : Inv pol s) (hJ : J s F) :
    J (step pol s op).1 (F ++ firedIds (step pol s op).2) := by
  obtain ⟨lt, fresh, inj, nodup, flt, total⟩ := hJ
  rcases step_class pol s op hinv with ⟨hn, hf, hs⟩ | ⟨hn, hf, hs⟩ | ⟨hn, hf, sl0, h0, hs⟩ | ⟨hn, sl0, i0, h0, hf, hs⟩
  · rw [hf, List.append_nil]
    refine ⟨?_, ?_, ?_, nodup, ?_, ?_⟩
    · intro sl i h; rw [hs] at h; rw [hn]; exact lt sl i h
    · intro sl i h; rw [hs] at h; exact fresh sl i h
    · intro a b i ha hb; rw [hs] at ha hb; exact inj a b i ha hb
    · intro i hi; rw [hn]; exact flt i hi
    · intro i hi; rw [hn] at hi
      rcases total i hi with h | ⟨sl, h⟩
      · exact Or.inl h
      · exact Or.inr ⟨sl, by rw [hs]; exact h⟩
  · rw [hf]
    refine ⟨?_, ?_, ?_, ?_, ?_, ?_⟩
    · intro sl i h; rw [hs] at h; rw [hn]; have := lt sl i h; omega
    · intro sl i h; rw [hs] at h
      have h1 := fresh sl i h
      have h2 := lt sl i h
      simp only [List.mem_append, List.mem_singleton, not_or]
      exact ⟨h1, by omega⟩
    · intro a b i ha hb; rw [hs] at ha hb; exact inj a b i ha hb
    · rw [List.nodup_append]
      refine ⟨nodup, (by simp), ?_⟩
      intro a ha b hb
      simp only [List.mem_singleton] at hb
      have := flt a ha
      omega
    · intro i hi; rw [hn]
      simp only [List.mem_append, List.mem_singleton] at hi
      rcases hi with hi | hi
      · have := flt i hi; omega
      · omega
    · intro i hi; rw [hn] at hi
      by_cases he : i = s.nextId
      · left; simp [he]
      · rcases total i (by omega) with h | ⟨sl, h⟩
        · left; simp [h]
        · right; exact ⟨sl, by rw [hs]; exact h⟩
  · rw [hf, List.append_nil]
    refine ⟨?_, ?_, ?_, nodup, ?_, ?_⟩
    · intro sl i h; rw [hs] at h; rw [hn]
      split at h
      · cases h; omega
      · have := lt sl i h; omega
    · intro sl i h; rw [hs] at h
      split at h
      · cases h; intro hc; have := flt _ hc; omega
      · exact fresh sl i h
    · intro a b i ha hb; rw [hs] at ha hb
      split at ha <;> split at hb
      · rename_i e1 e2; exact e1.trans e2.symm
      · cases ha; have := lt b _ hb; omega
      · cases hb; have := lt a _ ha; omega
      · exact inj a b i ha hb
    · intro i hi; rw [hn]; have := flt i hi; omega
    · intro i hi; rw [hn] at hi
      by_cases he : i = s.nextId
      · right; exact ⟨sl0, by rw [hs]; simp [he]⟩
      · rcases total i (by omega) with h | ⟨sl, h⟩
        · exact Or.inl h
        · right
          refine ⟨sl, ?_⟩
          rw [hs]
          have : sl ≠ sl0 := by intro hc; rw [hc, h0] at h; cases h
          simp [this, h]
  · rw [hf]
    refine ⟨?_, ?_, ?_, ?_, ?_, ?_⟩
    · intro sl i h; rw [hs] at h; rw [hn]
      split at h
      · cases h
      · exact lt sl i h
    · intro sl i h; rw [hs] at h
      split at h
      · cases h
      · rename_i hne
        simp only [List.mem_append, List.mem_singleton, not_or]
        refine ⟨fresh sl i h, ?_⟩
        intro hc; subst hc
        exact hne (inj sl sl0 i h h0)
    · intro a b i ha hb; rw [hs] at ha hb
      split at ha
      · cases ha
      · split at hb
        · cases hb
        · exact inj a b i ha hb
    · rw [List.nodup_append]
      refine ⟨nodup, (by simp), ?_⟩
      intro a ha b hb
      simp only [List.mem_singleton] at hb
      subst hb
      intro hc; subst hc
      exact fresh sl0 a h0 ha
    · intro i hi; rw [hn]
      simp only [List.mem_append, List.mem_singleton] at hi
      rcases hi with hi | hi
      · exact flt i hi
      · subst hi; exact lt sl0 i h0
    · intro i hi; rw [hn] at hi
      rcases total i hi with h | ⟨sl, h⟩
      · left; simp [h]
      · by_cases hc : sl = sl0
        · subst hc; rw [h0] at h; cases h; left; simp
        · right; exact ⟨sl, by rw [hs]; simp [hc, h]⟩

end TwistedProps.C39
