import TwistedProps.C39.Link
/-!
C39 — refinement: the two-endpoint system, projected on one option and one direction, moves like the
abstract link of `Link.lean` (or does not move).
-/
namespace TwistedProps.C39
open Twisted.Telnet.Negotiate

def projPQ (o : Nat) (ms : List Msg) : List Bool :=
  ms.filterMap fun m => if m.2 = o ∧ isUsCmd m.1 = true then some (cmdBit m.1) else none

def projQP (o : Nat) (ms : List Msg) : List Bool :=
  ms.filterMap fun m => if m.2 = o ∧ isUsCmd m.1 = false then some (cmdBit m.1) else none

def link (pol : Bool → Policy) (s : Sys) (o : Nat) (p : Bool) : LState :=
  { lok := (pol p).localOK o, rok := (pol (!p)).remoteOK o,
    p := erase (s.opts p o).us, q := erase (s.opts (!p) o).him,
    pq := projPQ o (s.inbox (!p)), qp := projQP o (s.inbox p) }

theorem projPQ_append (o : Nat) (a b : List Msg) : projPQ o (a ++ b) = projPQ o a ++ projPQ o b := by
  simp [projPQ, List.filterMap_append]
theorem projQP_append (o : Nat) (a b : List Msg) : projQP o (a ++ b) = projQP o a ++ projQP o b := by
  simp [projQP, List.filterMap_append]

theorem projPQ_us (o o' : Nat) (bs : List Bool) :
    projPQ o (bs.map fun b => (usCmd b, o')) = if o' = o then bs else [] := by
  induction bs with
  | nil => simp [projPQ]
  | cons b bs ih =>
    simp only [projPQ] at ih ⊢
    by_cases h : o' = o <;> cases b <;> simp_all [usCmd, isUsCmd, cmdBit]
theorem projPQ_him (o o' : Nat) (bs : List Bool) :
    projPQ o (bs.map fun b => (himCmd b, o')) = [] := by
  induction bs with
  | nil => simp [projPQ]
  | cons b bs ih =>
    simp only [projPQ] at ih ⊢
    cases b <;> simp_all [himCmd, isUsCmd, cmdBit]
theorem projQP_him (o o' : Nat) (bs : List Bool) :
    projQP o (bs.map fun b => (himCmd b, o')) = if o' = o then bs else [] := by
  induction bs with
  | nil => simp [projQP]
  | cons b bs ih =>
    simp only [projQP] at ih ⊢
    by_cases h : o' = o <;> cases b <;> simp_all [himCmd, isUsCmd, cmdBit]
theorem projQP_us (o o' : Nat) (bs : List Bool) :
    projQP o (bs.map fun b => (usCmd b, o')) = [] := by
  induction bs with
  | nil => simp [projQP]
  | cons b bs ih =>
    simp only [projQP] at ih ⊢
    cases b <;> simp_all [usCmd, isUsCmd, cmdBit]

/-! handler simulation -/
theorem sim_WILL (ok : Bool) (him : Persp) (o : Nat) :
    erase (telnet_WILL ok him o).1 = (aRecvQ ok true (erase him)).1 ∧
    sentMsgs (telnet_WILL ok him o).2 = (aRecvQ ok true (erase him)).2.1.map (fun b => (himCmd b, o)) ∧
    hasRaise (telnet_WILL ok him o).2 = (aRecvQ ok true (erase him)).2.2 := by
  rcases him with ⟨_ | _, _ | _, _ | i⟩ <;> cases ok <;> exact ⟨rfl, rfl, rfl⟩

theorem sim_WONT (ok : Bool) (him : Persp) (o : Nat) :
    erase (telnet_WONT him o).1 = (aRecvQ ok false (erase him)).1 ∧
    sentMsgs (telnet_WONT him o).2 = (aRecvQ ok false (erase him)).2.1.map (fun b => (himCmd b, o)) ∧
    hasRaise (telnet_WONT him o).2 = (aRecvQ ok false (erase him)).2.2 := by
  rcases him with ⟨_ | _, _ | _, _ | i⟩ <;> exact ⟨rfl, rfl, rfl⟩

theorem sim_DO (ok : Bool) (us : Persp) (o : Nat) :
    erase (telnet_DO ok us o).1 = (aRecvP ok true (erase us)).1 ∧
    sentMsgs (telnet_DO ok us o).2 = (aRecvP ok true (erase us)).2.1.map (fun b => (usCmd b, o)) ∧
    hasRaise (telnet_DO ok us o).2 = (aRecvP ok true (erase us)).2.2 := by
  rcases us with ⟨_ | _, _ | _, _ | i⟩ <;> cases ok <;> exact ⟨rfl, rfl, rfl⟩

theorem sim_DONT (ok : Bool) (us : Persp) (o : Nat) :
    erase (telnet_DONT us o).1 = (aRecvP ok false (erase us)).1 ∧
    sentMsgs (telnet_DONT us o).2 = (aRecvP ok false (erase us)).2.1.map (fun b => (usCmd b, o)) ∧
    hasRaise (telnet_DONT us o).2 = (aRecvP ok false (erase us)).2.2 := by
  rcases us with ⟨_ | _, _ | _, _ | i⟩ <;> exact ⟨rfl, rfl, rfl⟩

theorem sim_requestUs (b : Bool) (st : OptState) (o id : Nat) :
    (requestUs b st o id).1.him = st.him ∧
    erase (requestUs b st o id).1.us = (aReq b st.him.negotiating (erase st.us)).1 ∧
    sentMsgs (requestUs b st o id).2 = (aReq b st.him.negotiating (erase st.us)).2.map (fun b => (usCmd b, o)) ∧
    hasRaise (requestUs b st o id).2 = false := by
  rcases st with ⟨⟨_ | _, _ | _, r⟩, ⟨hs, _ | _, hr⟩⟩ <;> cases b <;> exact ⟨rfl, rfl, rfl, rfl⟩

theorem sim_requestHim (b : Bool) (st : OptState) (o id : Nat) :
    (requestHim b st o id).1.us = st.us ∧
    erase (requestHim b st o id).1.him = (aReq b st.us.negotiating (erase st.him)).1 ∧
    sentMsgs (requestHim b st o id).2 = (aReq b st.us.negotiating (erase st.him)).2.map (fun b => (himCmd b, o)) ∧
    hasRaise (requestHim b st o id).2 = false := by
  rcases st with ⟨⟨us, _ | _, ur⟩, ⟨_ | _, _ | _, hr⟩⟩ <;> cases b <;> exact ⟨rfl, rfl, rfl, rfl⟩

/-- the direction (`P` side) of the link a command sent / requested by `x` belongs to -/
def linkOf (x : Bool) (c : Cmd) : Bool := if isUsCmd c then x else !x

def sentOn (o : Nat) (p : Bool) : List (Bool × Ev) → Nat
  | [] => 0
  | (x, .sent c o') :: evs => (if o' = o ∧ linkOf x c = p then 1 else 0) + sentOn o p evs
  | _ :: evs => sentOn o p evs

def absOp (s : Sys) (op : Op) (o : Nat) (p : Bool) : Option LOp :=
  match op with
  | .req x c o' =>
    if o' = o ∧ linkOf x c = p then
      some (if isUsCmd c then .pReq (cmdBit c) (s.opts x o).him.negotiating
            else .qReq (cmdBit c) (s.opts x o).us.negotiating)
    else none
  | .deliver x =>
    match s.inbox x with
    | [] => none
    | (c, o') :: _ =>
      if o' = o ∧ linkOf (!x) c = p then some (if isUsCmd c then .toQ else .toP) else none

def lapply (s : LState) : Option LOp → LRes
  | none => ⟨s, 0, false⟩
  | some op => lstep s op

theorem sentOn_map (o : Nat) (p x : Bool) (evs : List Ev) :
    sentOn o p (evs.map (Prod.mk x)) =
      ((sentMsgs evs).filter fun m => m.2 = o ∧ linkOf x m.1 = p).length := by
  induction evs with
  | nil => rfl
  | cons e evs ih =>
    cases e <;> simp [sentOn, sentMsgs, ih, List.filter_cons]
    split <;> simp <;> omega

theorem linkOf_us (x b : Bool) : linkOf x (usCmd b) = x := by cases b <;> rfl
theorem linkOf_him (x b : Bool) : linkOf x (himCmd b) = !x := by cases b <;> rfl

theorem count_us (o o' : Nat) (p x : Bool) (bs : List Bool) :
    ((bs.map fun b => (usCmd b, o')).filter fun m => m.2 = o ∧ linkOf x m.1 = p).length =
      if o' = o ∧ x = p then bs.length else 0 := by
  induction bs with
  | nil => simp
  | cons b bs ih =>
    simp only [List.map_cons, List.filter_cons, linkOf_us]
    by_cases h : o' = o ∧ x = p
    · simp only [h, and_self, decide_true, if_true, List.length_cons] at ih ⊢; omega
    · simp only [h, decide_false, if_false] at ih ⊢
      simpa using ih

theorem count_him (o o' : Nat) (p x : Bool) (bs : List Bool) :
    ((bs.map fun b => (himCmd b, o')).filter fun m => m.2 = o ∧ linkOf x m.1 = p).length =
      if o' = o ∧ (!x) = p then bs.length else 0 := by
  induction bs with
  | nil => simp
  | cons b bs ih =>
    simp only [List.map_cons, List.filter_cons, linkOf_him]
    by_cases h : o' = o ∧ (!x) = p
    · simp only [h, and_self, decide_true, if_true, List.length_cons] at ih ⊢; omega
    · simp only [h, decide_false, if_false] at ih ⊢
      simpa using ih

theorem link_step_req (pol : Bool → Policy) (s : Sys) (x : Bool) (c : Cmd) (o' o : Nat) (p : Bool) :
    link pol (step pol s (.req x c o')).1 o p = (lapply (link pol s o p) (absOp s (.req x c o') o p)).st ∧
    sentOn o p (step pol s (.req x c o')).2 = (lapply (link pol s o p) (absOp s (.req x c o') o p)).sent := by
  cases c
  case WILL =>
    obtain ⟨h1, h2, h3, _⟩ := sim_requestUs true (s.opts x o') o' s.nextId
    simp only [step, request, sentOn_map, h3, count_us]
    by_cases ho : o' = o
    · subst ho
      cases x <;> cases p <;>
        simp [link, Sys.commit, absOp, lapply, lstep, linkOf, isUsCmd, cmdBit, h1, h2, h3,
          projPQ_append, projQP_append, projPQ_us, projQP_us]
    · cases x <;> cases p <;>
        simp [link, Sys.commit, absOp, lapply, linkOf, isUsCmd, h3, ho, Ne.symm ho,
          projPQ_append, projQP_append, projPQ_us, projQP_us]
  case WONT =>
    obtain ⟨h1, h2, h3, _⟩ := sim_requestUs false (s.opts x o') o' s.nextId
    simp only [step, request, sentOn_map, h3, count_us]
    by_cases ho : o' = o
    · subst ho
      cases x <;> cases p <;>
        simp [link, Sys.commit, absOp, lapply, lstep, linkOf, isUsCmd, cmdBit, h1, h2, h3,
          projPQ_append, projQP_append, projPQ_us, projQP_us]
    · cases x <;> cases p <;>
        simp [link, Sys.commit, absOp, lapply, linkOf, isUsCmd, h3, ho, Ne.symm ho,
          projPQ_append, projQP_append, projPQ_us, projQP_us]
  case DO =>
    obtain ⟨h1, h2, h3, _⟩ := sim_requestHim true (s.opts x o') o' s.nextId
    simp only [step, request, sentOn_map, h3, count_him]
    by_cases ho : o' = o
    · subst ho
      cases x <;> cases p <;>
        simp [link, Sys.commit, absOp, lapply, lstep, linkOf, isUsCmd, cmdBit, h1, h2, h3,
          projPQ_append, projQP_append, projPQ_him, projQP_him]
    · cases x <;> cases p <;>
        simp [link, Sys.commit, absOp, lapply, linkOf, isUsCmd, h3, ho, Ne.symm ho,
          projPQ_append, projQP_append, projPQ_him, projQP_him]
  case DONT =>
    obtain ⟨h1, h2, h3, _⟩ := sim_requestHim false (s.opts x o') o' s.nextId
    simp only [step, request, sentOn_map, h3, count_him]
    by_cases ho : o' = o
    · subst ho
      cases x <;> cases p <;>
        simp [link, Sys.commit, absOp, lapply, lstep, linkOf, isUsCmd, cmdBit, h1, h2, h3,
          projPQ_append, projQP_append, projPQ_him, projQP_him]
    · cases x <;> cases p <;>
        simp [link, Sys.commit, absOp, lapply, linkOf, isUsCmd, h3, ho, Ne.symm ho,
          projPQ_append, projQP_append, projPQ_him, projQP_him]

theorem projPQ_cons (o : Nat) (c : Cmd) (o' : Nat) (ms : List Msg) :
    projPQ o ((c, o') :: ms) = (if o' = o ∧ isUsCmd c = true then [cmdBit c] else []) ++ projPQ o ms := by
  simp only [projPQ, List.filterMap_cons]
  split <;> simp_all
theorem projQP_cons (o : Nat) (c : Cmd) (o' : Nat) (ms : List Msg) :
    projQP o ((c, o') :: ms) = (if o' = o ∧ isUsCmd c = false then [cmdBit c] else []) ++ projQP o ms := by
  simp only [projQP, List.filterMap_cons]
  split <;> simp_all

theorem link_step_deliver (pol : Bool → Policy) (s : Sys) (x : Bool) (o : Nat) (p : Bool) :
    link pol (step pol s (.deliver x)).1 o p = (lapply (link pol s o p) (absOp s (.deliver x) o p)).st ∧
    sentOn o p (step pol s (.deliver x)).2 = (lapply (link pol s o p) (absOp s (.deliver x) o p)).sent := by
  cases hib : s.inbox x with
  | nil => simp [step, absOp, hib, lapply, sentOn]
  | cons m rest =>
    obtain ⟨c, o'⟩ := m
    cases c
    case WILL =>
      obtain ⟨h1, h2, h3⟩ := sim_WILL ((pol x).remoteOK o') (s.opts x o').him o'
      simp only [step, hib, receive, sentOn_map, h2, count_him]
      by_cases ho : o' = o
      · subst ho
        cases x <;> cases p <;>
          simp_all [link, Sys.commit, absOp, lapply, lstep, linkOf, isUsCmd, cmdBit,
            projPQ_append, projQP_append, projPQ_him, projQP_him, projPQ_cons, projQP_cons]
      · cases x <;> cases p <;>
          simp_all [link, Sys.commit, absOp, lapply, linkOf, isUsCmd, Ne.symm ho,
            projPQ_append, projQP_append, projPQ_him, projQP_him, projPQ_cons, projQP_cons]
    case WONT =>
      obtain ⟨h1, h2, h3⟩ := sim_WONT ((pol x).remoteOK o') (s.opts x o').him o'
      simp only [step, hib, receive, sentOn_map, h2, count_him]
      by_cases ho : o' = o
      · subst ho
        cases x <;> cases p <;>
          simp_all [link, Sys.commit, absOp, lapply, lstep, linkOf, isUsCmd, cmdBit,
            projPQ_append, projQP_append, projPQ_him, projQP_him, projPQ_cons, projQP_cons]
      · cases x <;> cases p <;>
          simp_all [link, Sys.commit, absOp, lapply, linkOf, isUsCmd, Ne.symm ho,
            projPQ_append, projQP_append, projPQ_him, projQP_him, projPQ_cons, projQP_cons]
    case DO =>
      obtain ⟨h1, h2, h3⟩ := sim_DO ((pol x).localOK o') (s.opts x o').us o'
      simp only [step, hib, receive, sentOn_map, h2, count_us]
      by_cases ho : o' = o
      · subst ho
        cases x <;> cases p <;>
          simp_all [link, Sys.commit, absOp, lapply, lstep, linkOf, isUsCmd, cmdBit,
            projPQ_append, projQP_append, projPQ_us, projQP_us, projPQ_cons, projQP_cons]
      · cases x <;> cases p <;>
          simp_all [link, Sys.commit, absOp, lapply, linkOf, isUsCmd, Ne.symm ho,
            projPQ_append, projQP_append, projPQ_us, projQP_us, projPQ_cons, projQP_cons]
    case DONT =>
      obtain ⟨h1, h2, h3⟩ := sim_DONT ((pol x).localOK o') (s.opts x o').us o'
      simp only [step, hib, receive, sentOn_map, h2, count_us]
      by_cases ho : o' = o
      · subst ho
        cases x <;> cases p <;>
          simp_all [link, Sys.commit, absOp, lapply, lstep, linkOf, isUsCmd, cmdBit,
            projPQ_append, projQP_append, projPQ_us, projQP_us, projPQ_cons, projQP_cons]
      · cases x <;> cases p <;>
          simp_all [link, Sys.commit, absOp, lapply, linkOf, isUsCmd, Ne.symm ho,
            projPQ_append, projQP_append, projPQ_us, projQP_us, projPQ_cons, projQP_cons]

def raisedIn : List (Bool × Ev) → Bool
  | [] => false
  | (_, .raised _) :: _ => true
  | _ :: evs => raisedIn evs

theorem raisedIn_map (x : Bool) (evs : List Ev) : raisedIn (evs.map (Prod.mk x)) = hasRaise evs := by
  induction evs with
  | nil => rfl
  | cons e evs ih => cases e <;> simp [raisedIn, hasRaise, ih]

theorem raisedIn_append (a b : List (Bool × Ev)) : raisedIn (a ++ b) = (raisedIn a || raisedIn b) := by
  induction a with
  | nil => simp [raisedIn]
  | cons e a ih => obtain ⟨x, e⟩ := e; cases e <;> simp [raisedIn, ih]

/-- an exception leaves a handler only if the abstract link says so -/
theorem step_raise (pol : Bool → Policy) (s : Sys) (op : Op)
    (h : raisedIn (step pol s op).2 = true) :
    ∃ o p lop, absOp s op o p = some lop ∧ (lstep (link pol s o p) lop).raised = true := by
  cases op with
  | req x c o' =>
    exfalso
    cases c <;> simp only [step, request, raisedIn_map] at h
    · rw [(sim_requestUs true _ _ _).2.2.2] at h; cases h
    · rw [(sim_requestUs false _ _ _).2.2.2] at h; cases h
    · rw [(sim_requestHim true _ _ _).2.2.2] at h; cases h
    · rw [(sim_requestHim false _ _ _).2.2.2] at h; cases h
  | deliver x =>
    cases hib : s.inbox x with
    | nil => simp [step, hib, raisedIn] at h
    | cons m rest =>
      obtain ⟨c, o'⟩ := m
      refine ⟨o', linkOf (!x) c, if isUsCmd c then .toQ else .toP, by simp [absOp, hib], ?_⟩
      cases c
      case WILL =>
        obtain ⟨h1, h2, h3⟩ := sim_WILL ((pol x).remoteOK o') (s.opts x o').him o'
        simp only [step, hib, receive, raisedIn_map, h3] at h
        cases x <;> simp_all [link, lstep, linkOf, isUsCmd, cmdBit, projPQ_cons, projQP_cons]
      case WONT =>
        obtain ⟨h1, h2, h3⟩ := sim_WONT ((pol x).remoteOK o') (s.opts x o').him o'
        simp only [step, hib, receive, raisedIn_map, h3] at h
        cases x <;> simp_all [link, lstep, linkOf, isUsCmd, cmdBit, projPQ_cons, projQP_cons]
      case DO =>
        obtain ⟨h1, h2, h3⟩ := sim_DO ((pol x).localOK o') (s.opts x o').us o'
        simp only [step, hib, receive, raisedIn_map, h3] at h
        cases x <;> simp_all [link, lstep, linkOf, isUsCmd, cmdBit, projPQ_cons, projQP_cons]
      case DONT =>
        obtain ⟨h1, h2, h3⟩ := sim_DONT ((pol x).localOK o') (s.opts x o').us o'
        simp only [step, hib, receive, raisedIn_map, h3] at h
        cases x <;> simp_all [link, lstep, linkOf, isUsCmd, cmdBit, projPQ_cons, projQP_cons]

/-- the property's precondition on one op: `do(o)` only where the endpoint's own `enableRemote` accepts `o` -/
def wfOp (pol : Bool → Policy) : Op → Bool
  | .req x .DO o => (pol x).remoteOK o
  | _ => true

theorem absOp_ok (pol : Bool → Policy) (s : Sys) (op : Op) (o : Nat) (p : Bool) (lop : LOp)
    (hwf : wfOp pol op = true) (h : absOp s op o p = some lop) : opOK (link pol s o p) lop = true := by
  cases op with
  | req x c o' =>
    cases c <;> cases x <;> cases p <;> simp_all [absOp, linkOf, isUsCmd, cmdBit, wfOp] <;>
      (obtain ⟨h1, h2⟩ := h; subst h2; subst h1; simp_all [opOK, link])
  | deliver x =>
    cases hib : s.inbox x with
    | nil => simp [absOp, hib] at h
    | cons m rest =>
      obtain ⟨c, o'⟩ := m
      simp only [absOp, hib] at h
      split at h
      · cases h; cases c <;> simp [isUsCmd, opOK]
      · cases h

/-- the invariant: every link is in one of the 40 listed configurations -/
def Inv (pol : Bool → Policy) (s : Sys) : Prop := ∀ o p, link pol s o p ∈ R

theorem link_step (pol : Bool → Policy) (s : Sys) (op : Op) (o : Nat) (p : Bool) :
    link pol (step pol s op).1 o p = (lapply (link pol s o p) (absOp s op o p)).st ∧
    sentOn o p (step pol s op).2 = (lapply (link pol s o p) (absOp s op o p)).sent := by
  cases op with
  | req x c o' => exact link_step_req pol s x c o' o p
  | deliver x => exact link_step_deliver pol s x o p

theorem Inv_init (pol : Bool → Policy) : Inv pol Sys.init := by
  intro o p
  exact R_init _ _

theorem Inv_step (pol : Bool → Policy) (s : Sys) (op : Op) (hwf : wfOp pol op = true)
    (h : Inv pol s) : Inv pol (step pol s op).1 := by
  intro o p
  rw [(link_step pol s op o p).1]
  cases hop : absOp s op o p with
  | none => exact h o p
  | some lop => exact R_closed _ (h o p) lop (allOps_complete lop) (absOp_ok pol s op o p lop hwf hop)

theorem step_noraise (pol : Bool → Policy) (s : Sys) (op : Op) (hwf : wfOp pol op = true)
    (h : Inv pol s) : raisedIn (step pol s op).2 = false := by
  cases hr : raisedIn (step pol s op).2 with
  | false => rfl
  | true =>
    obtain ⟨o, p, lop, hop, hraise⟩ := step_raise pol s op hr
    have := R_noraise _ (h o p) lop (allOps_complete lop) (absOp_ok pol s op o p lop hwf hop)
    rw [this] at hraise; cases hraise

end TwistedProps.C39
