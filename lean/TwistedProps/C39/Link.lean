import TwistedModel.Telnet.Negotiate
/-!
C39 — the abstract *link*: one option, one direction.

Endpoint `P`'s `us` perspective of an option and the peer `Q`'s `him` perspective of the same option
talk to each other only through WILL/WONT (P → Q) and DO/DONT (Q → P).  With Deferred identities
erased a link has finitely many reachable configurations; they are listed (`R`) and every fact the
theorems need about a link is checked on that list by the kernel (`decide`).
-/
namespace TwistedProps.C39
open Twisted.Telnet.Negotiate

/-- a perspective with the Deferred's identity erased -/
structure EP where
  state : Bool
  neg : Bool
  has : Bool
  deriving DecidableEq, Repr

def erase (p : Persp) : EP := ⟨p.state, p.negotiating, p.onResult.isSome⟩
def unerase (e : EP) : Persp := ⟨e.state, e.neg, if e.has then some 0 else none⟩

/-- WILL / DO are the enabling commands -/
def cmdBit : Cmd → Bool
  | .WILL => true | .WONT => false | .DO => true | .DONT => false

/-- WILL / WONT speak about the sender's side (`us`), DO / DONT about the receiver's -/
def isUsCmd : Cmd → Bool
  | .WILL => true | .WONT => true | .DO => false | .DONT => false

def usCmd (b : Bool) : Cmd := if b then .WILL else .WONT
def himCmd (b : Bool) : Cmd := if b then .DO else .DONT

def hasRaise : List Ev → Bool
  | [] => false
  | .raised _ :: _ => true
  | _ :: evs => hasRaise evs

def bits (evs : List Ev) : List Bool := (sentMsgs evs).map fun m => cmdBit m.1

structure LState where
  lok : Bool          -- P's `enableLocal(option)`
  rok : Bool          -- Q's `enableRemote(option)`
  p : EP              -- P's `us`
  q : EP              -- Q's `him`
  pq : List Bool      -- WILL (`true`) / WONT in flight P → Q, oldest first
  qp : List Bool      -- DO (`true`) / DONT in flight Q → P
  deriving DecidableEq, Repr

inductive LOp
  | pReq (enable blocked : Bool)   -- P calls will / wont; `blocked` = P's `him.negotiating`
  | qReq (enable blocked : Bool)   -- Q calls do / dont; `blocked` = Q's `us.negotiating`
  | toQ                            -- oldest WILL/WONT is received by Q
  | toP                            -- oldest DO/DONT is received by P
  deriving DecidableEq, Repr

/-- `will/wont/do/dont` on an erased perspective -/
def aReq (enable blocked : Bool) (e : EP) : EP × List Bool :=
  if blocked || e.neg then (e, [])
  else if e.state == enable then (e, [])
  else (⟨e.state, true, true⟩, [enable])

/-- the handlers, run on the erased perspective: new perspective, reply bits, raised? -/
def aRecvQ (rok b : Bool) (e : EP) : EP × List Bool × Bool :=
  let r := if b then telnet_WILL rok (unerase e) 0 else telnet_WONT (unerase e) 0
  (erase r.1, bits r.2, hasRaise r.2)

def aRecvP (lok b : Bool) (e : EP) : EP × List Bool × Bool :=
  let r := if b then telnet_DO lok (unerase e) 0 else telnet_DONT (unerase e) 0
  (erase r.1, bits r.2, hasRaise r.2)

structure LRes where
  st : LState
  sent : Nat
  raised : Bool

def lstep (s : LState) : LOp → LRes
  | .pReq enable blocked =>
    let r := aReq enable blocked s.p
    ⟨{ s with p := r.1, pq := s.pq ++ r.2 }, r.2.length, false⟩
  | .qReq enable blocked =>
    let r := aReq enable blocked s.q
    ⟨{ s with q := r.1, qp := s.qp ++ r.2 }, r.2.length, false⟩
  | .toQ =>
    match s.pq with
    | [] => ⟨s, 0, false⟩
    | b :: rest =>
      let r := aRecvQ s.rok b s.q
      ⟨{ s with q := r.1, pq := rest, qp := s.qp ++ r.2.1 }, r.2.1.length, r.2.2⟩
  | .toP =>
    match s.qp with
    | [] => ⟨s, 0, false⟩
    | b :: rest =>
      let r := aRecvP s.lok b s.p
      ⟨{ s with p := r.1, qp := rest, pq := s.pq ++ r.2.1 }, r.2.1.length, r.2.2⟩

def allOps : List LOp :=
  [.toQ, .toP] ++ ([true, false].flatMap fun e => [true, false].flatMap fun b => [.pReq e b, .qReq e b])

theorem allOps_complete (op : LOp) : op ∈ allOps := by
  cases op with
  | pReq e b => cases e <;> cases b <;> decide
  | qReq e b => cases e <;> cases b <;> decide
  | toQ => decide
  | toP => decide

/-- the hypothesis of the property on a link: `do` is requested only if Q's `enableRemote` accepts -/
def opOK (s : LState) : LOp → Bool
  | .qReq true _ => s.rok
  | _ => true

def linit (lok rok : Bool) : LState := ⟨lok, rok, ⟨false, false, false⟩, ⟨false, false, false⟩, [], []⟩

def expand (xs : List LState) : List LState :=
  xs.foldl (fun acc s => allOps.foldl (fun acc op =>
    if opOK s op then let t := (lstep s op).st; if acc.contains t then acc else acc ++ [t] else acc) acc) xs

def closure : Nat → List LState → List LState
  | 0, xs => xs
  | n + 1, xs => closure n (expand xs)

/-- every configuration of a link reachable under the hypothesis (computed by `closure 8` from the four
    initial configurations; `R_closed` below shows nothing else is reachable) -/
def R : List LState := [
  ⟨false, false, ⟨false, false, false⟩, ⟨false, false, false⟩, [], []⟩,
  ⟨false, true, ⟨false, false, false⟩, ⟨false, false, false⟩, [], []⟩,
  ⟨true, false, ⟨false, false, false⟩, ⟨false, false, false⟩, [], []⟩,
  ⟨true, true, ⟨false, false, false⟩, ⟨false, false, false⟩, [], []⟩,
  ⟨false, false, ⟨false, true, true⟩, ⟨false, false, false⟩, [true], []⟩,
  ⟨false, true, ⟨false, true, true⟩, ⟨false, false, false⟩, [true], []⟩,
  ⟨false, true, ⟨false, false, false⟩, ⟨false, true, true⟩, [], [true]⟩,
  ⟨true, false, ⟨false, true, true⟩, ⟨false, false, false⟩, [true], []⟩,
  ⟨true, true, ⟨false, true, true⟩, ⟨false, false, false⟩, [true], []⟩,
  ⟨true, true, ⟨false, false, false⟩, ⟨false, true, true⟩, [], [true]⟩,
  ⟨false, false, ⟨false, true, true⟩, ⟨false, false, false⟩, [], [false]⟩,
  ⟨false, true, ⟨false, true, true⟩, ⟨true, false, false⟩, [], [true]⟩,
  ⟨false, true, ⟨false, true, true⟩, ⟨false, true, true⟩, [true], [true]⟩,
  ⟨false, true, ⟨false, false, false⟩, ⟨false, true, true⟩, [false], []⟩,
  ⟨true, false, ⟨false, true, true⟩, ⟨false, false, false⟩, [], [false]⟩,
  ⟨true, true, ⟨false, true, true⟩, ⟨true, false, false⟩, [], [true]⟩,
  ⟨true, true, ⟨false, true, true⟩, ⟨false, true, true⟩, [true], [true]⟩,
  ⟨true, true, ⟨true, false, false⟩, ⟨false, true, true⟩, [true], []⟩,
  ⟨false, true, ⟨true, false, false⟩, ⟨true, false, false⟩, [], []⟩,
  ⟨false, true, ⟨false, true, true⟩, ⟨true, true, true⟩, [], [true, false]⟩,
  ⟨false, true, ⟨true, false, false⟩, ⟨false, true, true⟩, [true], []⟩,
  ⟨false, true, ⟨false, true, true⟩, ⟨false, true, true⟩, [false, true], []⟩,
  ⟨true, true, ⟨true, false, false⟩, ⟨true, false, false⟩, [], []⟩,
  ⟨true, true, ⟨false, true, true⟩, ⟨true, true, true⟩, [], [true, false]⟩,
  ⟨true, true, ⟨true, true, true⟩, ⟨false, true, true⟩, [true, false], []⟩,
  ⟨false, true, ⟨true, true, true⟩, ⟨true, false, false⟩, [false], []⟩,
  ⟨false, true, ⟨true, false, false⟩, ⟨true, true, true⟩, [], [false]⟩,
  ⟨false, true, ⟨true, true, true⟩, ⟨false, true, true⟩, [true, false], []⟩,
  ⟨true, true, ⟨true, true, true⟩, ⟨true, false, false⟩, [false], []⟩,
  ⟨true, true, ⟨true, false, false⟩, ⟨true, true, true⟩, [], [false]⟩,
  ⟨false, true, ⟨true, true, true⟩, ⟨false, false, false⟩, [], [false]⟩,
  ⟨false, true, ⟨true, true, true⟩, ⟨true, true, true⟩, [false], [false]⟩,
  ⟨false, true, ⟨false, false, false⟩, ⟨true, true, true⟩, [false], []⟩,
  ⟨true, true, ⟨true, true, true⟩, ⟨false, false, false⟩, [], [false]⟩,
  ⟨true, true, ⟨true, true, true⟩, ⟨true, true, true⟩, [false], [false]⟩,
  ⟨true, true, ⟨false, false, false⟩, ⟨true, true, true⟩, [false], []⟩,
  ⟨false, true, ⟨true, true, true⟩, ⟨false, true, true⟩, [], [false, true]⟩,
  ⟨false, true, ⟨false, true, true⟩, ⟨true, true, true⟩, [false, true], []⟩,
  ⟨true, true, ⟨true, true, true⟩, ⟨false, true, true⟩, [], [false, true]⟩,
  ⟨true, true, ⟨false, true, true⟩, ⟨true, true, true⟩, [false, true], []⟩]

/-- maximal number of commands still to be sent if only deliveries happen (4 rounds suffice: `phi_spec`) -/
def phiN : Nat → LState → Nat
  | 0, _ => 0
  | n + 1, s =>
    max (if s.pq.isEmpty then 0 else (lstep s .toQ).sent + phiN n (lstep s .toQ).st)
        (if s.qp.isEmpty then 0 else (lstep s .toP).sent + phiN n (lstep s .toP).st)

def phi (s : LState) : Nat := phiN 4 s

def isReq : LOp → Bool
  | .pReq _ _ => true
  | .qReq _ _ => true
  | _ => false

theorem R_init (lok rok : Bool) : linit lok rok ∈ R := by
  cases lok <;> cases rok <;> decide

/-- `R` is closed under every step allowed by the hypothesis -/
theorem R_closed : ∀ s ∈ R, ∀ op ∈ allOps, opOK s op = true → (lstep s op).st ∈ R := by
  decide +kernel

/-- no handler raises in a reachable configuration: the `assert False` cells `will_yes_true` /
    `do_yes_true`, the `enableRemote` assertion and `None.callback` are never reached -/
theorem R_noraise : ∀ s ∈ R, ∀ op ∈ allOps, opOK s op = true → (lstep s op).raised = false := by
  decide +kernel

/-- `onResult` is set exactly while negotiating -/
theorem R_has : ∀ s ∈ R, s.p.has = s.p.neg ∧ s.q.has = s.q.neg := by
  decide +kernel

/-- nothing in flight ⇒ both ends agree and nothing is pending -/
theorem R_quiescent : ∀ s ∈ R, s.pq = [] → s.qp = [] →
    s.p.state = s.q.state ∧ s.p.neg = false ∧ s.q.neg = false := by
  decide +kernel

/-- the potential: a delivery pays for what it sends, a request adds at most 2 -/
theorem R_phi : ∀ s ∈ R, ∀ op ∈ allOps, opOK s op = true →
    (lstep s op).sent + phi (lstep s op).st ≤ phi s + (if isReq op then 2 else 0) := by
  decide +kernel

/-- at most two commands of a link are ever in flight in each direction -/
theorem R_inflight : ∀ s ∈ R, s.pq.length ≤ 2 ∧ s.qp.length ≤ 2 := by
  decide +kernel

end TwistedProps.C39
