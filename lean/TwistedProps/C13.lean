import TwistedProps.C13.Live
import TwistedProps.C13.Life
import TwistedModel.Drv.C13
/-!
C13 — callFromThread runs each call once, in the reactor thread, in per-thread order, promptly.

Model: `TwistedModel/Reactor/ThreadQueue.lean` (the shared accesses of `callFromThread`, `wakeUp`,
the `threadCallQueue` drain of `runUntilCurrent`, `doIteration` on the waker; `Cfg.posix` for
select/poll/epoll with the pipe waker, `Cfg.asyncio` for the asyncio reactor).  A schedule is ANY
list of actors (`reactor` / `thread t`, any number of threads, any number of calls each); every
theorem below holds for every schedule and every `Cfg` (pipe capacity, read size, and whether the
post-drain `wakeUp` reaches the waker at all — it is not needed).

What "every call runs exactly once … promptly" means without a fairness assumption:
  * safety, in every reachable state: `accounting` — each issued call is run once or pending once,
    never both, never neither, and nothing that was not issued ever runs; `per_thread_fifo`;
  * `no_lost_wakeup`: the reactor is never asleep with a non-empty queue unless some thread is still
    inside `callFromThread` (its `wakeUp` is yet to come);
  * progress: `each_call_runs_exactly_once` — from any reachable state in which every
    `callFromThread` has returned, the reactor ALONE (no timer, no I/O, no other event) has run
    every issued call exactly once after `mu s` of its own steps, and for ever after.
Not covered (PARTIAL by nature, see ASSUMES in harness/corr/C13.py): that OS threads under the GIL
refine this step relation, and that select/poll/epoll/asyncio report the readable waker.
-/
namespace TwistedProps.C13
open Twisted.Reactor.ThreadQueue

/-- the reactor starts in `runUntilCurrent` (`mainLoop`) or idle in the event loop (asyncio) -/
def Start (s0 : State) : Prop := s0 = init ∨ s0 = initIdle

theorem inv_reachable (cfg : Cfg) (sched : List Actor) (s0 : State) (h0 : Start s0) :
    Inv (run cfg sched s0) := by
  apply inv_run
  rcases h0 with h | h <;> subst h
  · exact inv_init
  · exact inv_initIdle

/-! ### exactly once, in order: safety -/

/-- **Per-thread FIFO, nothing lost, nothing duplicated.**  In every reachable state and for every
    thread `t`: the calls of `t` that have run, followed by the calls of `t` still pending in the
    queue, are exactly `t`'s calls `0, 1, …, issued t - 1` in the order issued. -/
theorem per_thread_fifo (cfg : Cfg) (sched : List Actor) (s0 : State) (h0 : Start s0) (t : Nat) :
    ((run cfg sched s0).ran ++ pending (run cfg sched s0)).filter (byThread t)
      = issueList t ((run cfg sched s0).issued t) :=
  (inv_reachable cfg sched s0 h0).fifo t

/-- the calls of thread `t` that have run are its first `k` calls, in the order issued -/
theorem ran_in_issue_order (cfg : Cfg) (sched : List Actor) (s0 : State) (h0 : Start s0) (t : Nat) :
    ∃ k, k ≤ (run cfg sched s0).issued t ∧
      (run cfg sched s0).ran.filter (byThread t) = issueList t k := by
  have h := per_thread_fifo cfg sched s0 h0 t
  rw [List.filter_append] at h
  exact prefix_issueList _ _ _ _ h

/-- **Accounting.**  In every reachable state every call is in exactly one place: a call that was
    issued has run once or is pending once (never both); a call that was not issued is nowhere. -/
theorem accounting (cfg : Cfg) (sched : List Actor) (s0 : State) (h0 : Start s0) (c : Call) :
    (run cfg sched s0).ran.count c + (pending (run cfg sched s0)).count c
      = if c.idx < (run cfg sched s0).issued c.thread then 1 else 0 :=
  accounting_of_inv _ (inv_reachable cfg sched s0 h0) c

/-- no call ever runs twice -/
theorem each_call_at_most_once (cfg : Cfg) (sched : List Actor) (s0 : State) (h0 : Start s0) (c : Call) :
    (run cfg sched s0).ran.count c ≤ 1 := by
  have := accounting cfg sched s0 h0 c
  split at this <;> omega

/-- only issued calls run -/
theorem only_issued_calls_run (cfg : Cfg) (sched : List Actor) (s0 : State) (h0 : Start s0) (c : Call)
    (hc : c ∈ (run cfg sched s0).ran) : c.idx < (run cfg sched s0).issued c.thread := by
  have := accounting cfg sched s0 h0 c
  have hpos : 0 < (run cfg sched s0).ran.count c := List.count_pos_iff.mpr hc
  split at this
  · assumption
  · omega

/-! ### in the reactor thread -/

/-- a producer thread's step never runs a call: calls run only in reactor steps -/
theorem runs_in_reactor_thread (cfg : Cfg) (t : Nat) (s : State) : (threadStep cfg t s).ran = s.ran := by
  unfold threadStep
  split <;> rfl

/-- what has run stays run (the log only grows), whatever happens next -/
theorem ran_monotone (cfg : Cfg) (sched : List Actor) (s : State) :
    ∃ l, (run cfg sched s).ran = s.ran ++ l := by
  induction sched generalizing s with
  | nil => exact ⟨[], by simp [run]⟩
  | cons a rest ih =>
    obtain ⟨l, hl⟩ := ih (step cfg s a)
    obtain ⟨l1, hl1⟩ : ∃ l1, (step cfg s a).ran = s.ran ++ l1 := by
      cases a with
      | thread t => exact ⟨[], by simp [step, runs_in_reactor_thread]⟩
      | reactor =>
        simp only [step, reactorStep]
        split <;> (try split) <;> first | exact ⟨[_], rfl⟩ | exact ⟨[], by simp⟩
    exact ⟨l1 ++ l, by rw [show run cfg (a :: rest) s = run cfg rest (step cfg s a) from rfl, hl, hl1,
      List.append_assoc]⟩

/-! ### promptly: no lost wake-up, and progress by the reactor alone -/

/-- **No lost wake-up.**  In every reachable state: if the reactor sleeps in `doIteration` (waker not
    readable) while the queue is not empty, then some thread is still inside `callFromThread`,
    between its `append` and its `wakeUp` — so the wake-up is still coming.  Equivalently:
    "asleep ∧ queue ≠ [] ∧ every callFromThread returned" is unreachable. -/
theorem no_lost_wakeup (cfg : Cfg) (sched : List Actor) (s0 : State) (h0 : Start s0)
    (hb : blocked (run cfg sched s0) = true) (hq : (run cfg sched s0).queue ≠ []) :
    ∃ t, (run cfg sched s0).pw t = true := by
  have h := inv_reachable cfg sched s0 h0
  generalize run cfg sched s0 = s at *
  simp only [blocked, Bool.and_eq_true, beq_iff_eq] at hb
  obtain ⟨hpc, hw⟩ := hb
  have hu : unseen s ≠ [] := by simpa [unseen, hpc] using hq
  rcases h.covered hu with h1 | h1
  · omega
  · exact h1

/-- **Every call runs exactly once, in order, without any other event** (headline).
    Take any schedule at all and stop it at a point where every `callFromThread` has returned
    (`quiet`).  Then after `k ≥ mu s` steps of the reactor alone: nothing is pending, every issued
    call `⟨t, i⟩` has run exactly once, nothing else has run, and per thread the calls ran in the
    order issued. -/
theorem each_call_runs_exactly_once (cfg : Cfg) (sched : List Actor) (s0 : State) (h0 : Start s0)
    (hq : quiet (run cfg sched s0)) (k : Nat) (hk : mu (run cfg sched s0) ≤ k) :
    let s := run cfg sched s0
    let s' := rsteps cfg k s
    pending s' = [] ∧
    (∀ c : Call, s'.ran.count c = if c.idx < s.issued c.thread then 1 else 0) ∧
    (∀ t, s'.ran.filter (byThread t) = issueList t (s.issued t)) := by
  intro s s'
  have hinv : Inv s := inv_reachable cfg sched s0 h0
  have hinv' : Inv s' := inv_rsteps cfg k s hinv
  have hp : pending s' = [] := drains cfg k s hinv hq hk
  have hi : s'.issued = s.issued := issued_rsteps cfg k s
  refine ⟨hp, ?_, ?_⟩
  · intro c
    have := accounting_of_inv s' hinv' c
    rw [hp, hi] at this
    simpa using this
  · intro t
    have := hinv'.fifo t
    rw [hp, hi] at this
    simpa using this

/-- the same, for a call issued while the reactor is idle, with the exact number of steps: the
    reactor asleep on an empty queue; thread `t` calls `callFromThread` (append, wakeUp); five
    reactor steps later (`poll`, `doRead`, `check1`, `total`, `fetch`) exactly that call has run. -/
theorem idle_call_runs_promptly (cfg : Cfg) (s : State) (t : Nat)
    (hpc : s.pc = .poll) (hw : s.waker = 0) (hq : s.queue = []) (hp : s.pw t = false) :
    (rsteps cfg 5 (threadStep cfg t (threadStep cfg t s))).ran = s.ran ++ [⟨t, s.issued t⟩] := by
  rcases s with ⟨q, ran, w, pc, tot, cnt, iss, pw⟩
  dsimp only at hpc hw hq hp
  subst hpc hw hq
  have hw1 : wake cfg 0 ≠ 0 := Nat.pos_iff_ne_zero.mp (wake_pos cfg 0)
  simp [threadStep, hp, upd, rsteps, reactorStep, hw1]

/-! ### non-vacuity -/

/-- two threads; thread 1 appends while thread 0's call is being drained and delivers its wake-up five
    reactor steps later; then thread 0 issues a second call: reachable, quiet, and the bound is small -/
example :
    let sched : List Actor := [.thread 0, .thread 0, .reactor, .reactor, .reactor, .thread 1,
      .reactor, .reactor, .reactor, .reactor, .reactor, .thread 1, .thread 0, .thread 0]
    let s := run Cfg.posix sched init
    s.ran = [⟨0, 0⟩] ∧ s.queue = [⟨1, 0⟩, ⟨0, 1⟩] ∧ s.pc = .check1 ∧ s.waker = 2 ∧
    s.pw 0 = false ∧ s.pw 1 = false ∧ mu s = 8 ∧
    (rsteps Cfg.posix 8 s).ran = [⟨0, 0⟩, ⟨1, 0⟩, ⟨0, 1⟩] := by decide

/-- the reactor asleep when the calls arrive (wake-ups delivered late): the quadratic bound in action -/
example :
    let s := run Cfg.posix [.reactor, .thread 1, .reactor, .reactor, .thread 1, .thread 0, .thread 0] init
    s.ran = [] ∧ s.queue = [⟨1, 0⟩, ⟨0, 0⟩] ∧ s.pc = .poll ∧ s.waker = 2 ∧ mu s = 48 ∧
    (rsteps Cfg.posix 48 s).ran = [⟨1, 0⟩, ⟨0, 0⟩] ∧ pending (rsteps Cfg.posix 48 s) = [] := by decide

/-- the situation `no_lost_wakeup` speaks about is reachable: asleep, queue not empty, thread 0 mid-call -/
example :
    let s := run Cfg.posix [.reactor, .thread 0, .reactor] init
    blocked s = true ∧ s.queue = [⟨0, 0⟩] ∧ s.pw 0 = true := by decide

/-- asyncio configuration (one handle per call, post-drain wakeUp goes elsewhere), idle start -/
example :
    let s := run Cfg.asyncio [.thread 0, .thread 0, .thread 0, .reactor, .thread 0, .reactor] initIdle
    s.queue = [⟨0, 0⟩, ⟨0, 1⟩] ∧ s.waker = 1 ∧ s.pc = .check1 ∧
    (rsteps Cfg.asyncio (mu s) s).ran = [⟨0, 0⟩, ⟨0, 1⟩] := by decide

example : (rsteps Cfg.posix 5 (threadStep Cfg.posix 7 (threadStep Cfg.posix 7 initIdle))).ran = [⟨7, 0⟩] := by
  decide

/-! ## the whole run: `stop()`, shutdown pending on a Deferred, `crash`, exit of `mainLoop`

Model `TwistedModel/Reactor/ThreadQueueLife.lean`: the queue model above + the reactor's life cycle.
Calls may do `reactor.stop()` or fire the Deferred a 'before shutdown' trigger returned (`LCfg.eff`:
ANY assignment of such effects to calls); after `stop()` the reactor is still running
(`alive` = `reactor.running`) until that Deferred has fired, and `callFromThread` must behave exactly as
before.  Every theorem holds for every schedule, every `LCfg`, from a reactor that starts `running`. -/

/-- `run()` was called: the queue model at its start, `_stopped = False`; the Deferred may or may not have fired -/
def LStart (s0 : LState) : Prop := Start s0.base ∧ s0.phase = .running

theorem inv_reachable_lifecycle (lc : LCfg) (sched : List Actor) (s0 : LState) (h0 : LStart s0) :
    Inv (lrun lc sched s0).base := by
  apply linv_run
  rcases h0.1 with h | h <;> rw [h]
  · exact inv_init
  · exact inv_initIdle

/-- **Per-thread FIFO, nothing lost, nothing duplicated — in every phase of the run** (before `stop()`,
    while shutdown is pending, after `crash`, after `mainLoop` returned). -/
theorem per_thread_fifo_lifecycle (lc : LCfg) (sched : List Actor) (s0 : LState) (h0 : LStart s0) (t : Nat) :
    ((lrun lc sched s0).base.ran ++ pending (lrun lc sched s0).base).filter (byThread t)
      = issueList t ((lrun lc sched s0).base.issued t) :=
  (inv_reachable_lifecycle lc sched s0 h0).fifo t

/-- **Accounting in every phase**: an issued call has run once or is pending once, never both; nothing else runs. -/
theorem accounting_lifecycle (lc : LCfg) (sched : List Actor) (s0 : LState) (h0 : LStart s0) (c : Call) :
    (lrun lc sched s0).base.ran.count c + (pending (lrun lc sched s0).base).count c
      = if c.idx < (lrun lc sched s0).base.issued c.thread then 1 else 0 :=
  accounting_of_inv _ (inv_reachable_lifecycle lc sched s0 h0) c

theorem each_call_at_most_once_lifecycle (lc : LCfg) (sched : List Actor) (s0 : LState) (h0 : LStart s0)
    (c : Call) : (lrun lc sched s0).base.ran.count c ≤ 1 := by
  have := accounting_lifecycle lc sched s0 h0 c
  split at this <;> omega

/-- a producer thread's step never runs a call and never touches the life cycle -/
theorem runs_in_reactor_thread_lifecycle (lc : LCfg) (t : Nat) (s : LState) :
    (lthreadStep lc t s).base.ran = s.base.ran ∧ (lthreadStep lc t s).phase = s.phase ∧
    (lthreadStep lc t s).fired = s.fired :=
  ⟨runs_in_reactor_thread lc.cfg t s.base, rfl, rfl⟩

/-- **No lost wake-up in any phase.**  Whatever `stop()` / shutdown have done so far: if the reactor is
    asleep in `doIteration` while the queue is not empty, some thread is still inside `callFromThread`
    (its `wakeUp` is still to come).  In particular "`stop()` called, shutdown pending, loop idle, call
    queued, every `callFromThread` returned" is unreachable. -/
theorem no_lost_wakeup_lifecycle (lc : LCfg) (sched : List Actor) (s0 : LState) (h0 : LStart s0)
    (hb : blocked (lrun lc sched s0).base = true) (hq : (lrun lc sched s0).base.queue ≠ []) :
    ∃ t, (lrun lc sched s0).base.pw t = true := by
  have h := inv_reachable_lifecycle lc sched s0 h0
  generalize (lrun lc sched s0).base = s at *
  simp only [blocked, Bool.and_eq_true, beq_iff_eq] at hb
  obtain ⟨hpc, hw⟩ := hb
  have hu : unseen s ≠ [] := by simpa [unseen, hpc] using hq
  rcases h.covered hu with h1 | h1
  · omega
  · exact h1

/-- **Every call runs exactly once, in order, for as long as the reactor runs.**  Any schedule, any
    effects, stopped at a point where every `callFromThread` has returned; then after `k ≥ mu` steps of
    the reactor alone EITHER `reactor.running` has become false (the application fired the shutdown
    Deferred) OR nothing is pending and every issued call has run exactly once, per thread in issue order. -/
theorem each_call_runs_exactly_once_while_running (lc : LCfg) (sched : List Actor) (s0 : LState)
    (h0 : LStart s0) (hq : quiet (lrun lc sched s0).base) (k : Nat) (hk : mu (lrun lc sched s0).base ≤ k) :
    let s := lrun lc sched s0
    let s' := lrsteps lc k s
    alive s' = false ∨
    (pending s'.base = [] ∧
     (∀ c : Call, s'.base.ran.count c = if c.idx < s.base.issued c.thread then 1 else 0) ∧
     (∀ t, s'.base.ran.filter (byThread t) = issueList t (s.base.issued t))) := by
  intro s s'
  have hinv : Inv s.base := inv_reachable_lifecycle lc sched s0 h0
  have hinv' : Inv s'.base := linv_rsteps lc k s hinv
  rcases ldrains lc k s hinv hq hk with hd | hp
  · exact Or.inl hd
  · right
    have hi : s'.base.issued = s.base.issued := lissued_rsteps lc k s
    refine ⟨hp, ?_, ?_⟩
    · intro c
      have := accounting_of_inv s'.base hinv' c
      rw [hp, hi] at this
      simpa using this
    · intro t
      have := hinv'.fifo t
      rw [hp, hi] at this
      simpa using this

/-- **Calls issued after `stop()`, while shutdown is pending, run like any other** (the class of the
    seeded regression).  If the reactor is running (in ANY phase: before `stop()`, `stop()` just called,
    shutdown waiting for its Deferred), the Deferred has not fired and no call still to run fires it,
    then after `k ≥ mu` reactor-only steps the reactor is STILL running, nothing is pending and every
    issued call has run exactly once, in order — no timer, no I/O, no other event needed. -/
theorem calls_run_while_shutdown_pending (lc : LCfg) (sched : List Actor) (s0 : LState)
    (h0 : LStart s0) (hq : quiet (lrun lc sched s0).base) (ha : alive (lrun lc sched s0) = true)
    (hnf : noFire lc (lrun lc sched s0)) (k : Nat) (hk : mu (lrun lc sched s0).base ≤ k) :
    let s := lrun lc sched s0
    let s' := lrsteps lc k s
    alive s' = true ∧ pending s'.base = [] ∧
    (∀ c : Call, s'.base.ran.count c = if c.idx < s.base.issued c.thread then 1 else 0) ∧
    (∀ t, s'.base.ran.filter (byThread t) = issueList t (s.base.issued t)) := by
  intro s s'
  have hal : alive s' = true := alive_rsteps lc k s (inv_reachable_lifecycle lc sched s0 h0) ha hnf
  rcases each_call_runs_exactly_once_while_running lc sched s0 h0 hq k hk with hd | hr
  · rw [show lrsteps lc k (lrun lc sched s0) = s' from rfl, hal] at hd
    cases hd
  · exact ⟨hal, hr⟩

/-- the reactor stops running only when the application lets it: without a `fire` it runs for ever -/
theorem keeps_running_until_fired (lc : LCfg) (sched : List Actor) (s0 : LState) (h0 : LStart s0)
    (ha : alive (lrun lc sched s0) = true) (hnf : noFire lc (lrun lc sched s0)) (k : Nat) :
    alive (lrsteps lc k (lrun lc sched s0)) = true :=
  alive_rsteps lc k _ (inv_reachable_lifecycle lc sched s0 h0) ha hnf

/-- **`reactor.running` becomes false only at the application's request**: in every reachable state in
    which the reactor no longer runs, a call whose body is `reactor.stop()` has run AND the shutdown
    Deferred has fired.  (So the first alternative of `each_call_runs_exactly_once_while_running` is
    never the reactor's own doing.) -/
theorem stops_running_only_on_request (lc : LCfg) (sched : List Actor) (s0 : LState) (h0 : LStart s0)
    (hd : alive (lrun lc sched s0) = false) :
    (lrun lc sched s0).fired = true ∧ ∃ c ∈ (lrun lc sched s0).base.ran, lc.eff c = .stop := by
  have h : Why lc (lrun lc sched s0) := by
    apply why_run
    rcases s0 with ⟨b, ph, fd⟩
    have hp : ph = .running := h0.2
    subst hp
    exact ⟨by simp [alive], by simp⟩
  refine ⟨h.dead hd, h.stopped ?_⟩
  intro hr
  simp [alive, hr] at hd

/-- a call issued while the reactor is idle runs within five reactor steps IN EVERY PHASE in which the
    reactor runs — also after `stop()`, with shutdown pending — whatever the call itself does -/
theorem idle_call_runs_promptly_in_every_phase (lc : LCfg) (s : LState) (t : Nat) (ha : alive s = true)
    (hpc : s.base.pc = .poll) (hw : s.base.waker = 0) (hq : s.base.queue = []) (hp : s.base.pw t = false) :
    (lrsteps lc 5 (lthreadStep lc t (lthreadStep lc t s))).base.ran = s.base.ran ++ [⟨t, s.base.issued t⟩] := by
  rcases s with ⟨⟨q, ran, w, pc, tot, cnt, iss, pw⟩, ph, fd⟩
  dsimp only at hpc hw hq hp
  subst hpc hw hq
  have hw1 : wake lc.cfg 0 ≠ 0 := Nat.pos_iff_ne_zero.mp (wake_pos lc.cfg 0)
  have hex : ¬ ph = .exited := by intro h; simp [alive, h] at ha
  have hcr : ¬ ph = .crashed := by intro h; simp [alive, h] at ha
  have hran : ∀ (e : Eff) (x : LState), (applyEff lc e x).base.ran = x.base.ran := by
    intro e x
    obtain ⟨w, _, he⟩ := applyEff_base lc e x
    rw [he]; rfl
  simp [lthreadStep, threadStep, hp, upd, lrsteps, lreactorStep, reactorStep, hw1, hex, hcr, hran]

/-! ### non-vacuity (life cycle) -/

/-- thread 0's call 0 does `reactor.stop()`, thread 1's call 1 fires the shutdown Deferred -/
def demoEff (c : Call) : Eff :=
  if c = ⟨0, 0⟩ then .stop else if c = ⟨1, 1⟩ then .fire else .none

/-- the seeded scenario: `stop()` ran, shutdown is pending on the Deferred, the loop went idle; thread 1
    then issues a call: reachable, quiet, the reactor is blocked until the wake-up — and `mu` reactor-only
    steps later the call has run, the reactor still runs -/
example :
    let lc : LCfg := ⟨Cfg.posix, false, demoEff⟩
    let s := lrun lc ([.thread 0, .thread 0] ++ List.replicate 12 .reactor) (linit false)
    s.phase = .pending ∧ alive s = true ∧ lblocked s = true ∧ s.base.ran = [⟨0, 0⟩] ∧
    (let s1 := lthreadStep lc 1 s
     lblocked s1 = true ∧ s1.base.queue = [⟨1, 0⟩] ∧ s1.base.pw 1 = true ∧
     (let s2 := lthreadStep lc 1 s1
      lblocked s2 = false ∧ mu s2.base = 22 ∧
      (lrsteps lc 22 s2).base.ran = [⟨0, 0⟩, ⟨1, 0⟩] ∧ (lrsteps lc 22 s2).phase = .pending ∧
      (lrsteps lc 5 s2).base.ran = [⟨0, 0⟩, ⟨1, 0⟩])) := by decide

/-- … and thread 1's next call fires the Deferred: it runs, `crash` runs, the loop makes one more
    non-blocking `doIteration` and exits -/
def demoCrashed : LState :=
  lrun ⟨Cfg.posix, false, demoEff⟩ ([.thread 0, .thread 0] ++ List.replicate 12 .reactor ++ [.thread 1, .thread 1] ++
      List.replicate 8 .reactor ++ [.thread 1, .thread 1] ++ List.replicate 5 .reactor) (linit false)

example : demoCrashed.phase = .crashed ∧ alive demoCrashed = false ∧ demoCrashed.fired = true ∧
    demoCrashed.base.ran = [⟨0, 0⟩, ⟨1, 0⟩, ⟨1, 1⟩] := by decide

example : (lrsteps ⟨Cfg.posix, false, demoEff⟩ 2 demoCrashed).phase = .crashed ∧
    (lrsteps ⟨Cfg.posix, false, demoEff⟩ 3 demoCrashed).phase = .exited := by decide

/- a call issued after the exit stays queued (the reactor no longer runs): liveness is claimed only `while running` -/
set_option maxRecDepth 8000 in
example :
    let lc : LCfg := ⟨Cfg.posix, false, demoEff⟩
    let s := lrsteps lc 6 (lthreadStep lc 0 (lthreadStep lc 0 (lrsteps lc 3 demoCrashed)))
    s.base.queue = [⟨0, 1⟩] ∧ s.base.ran.length = 3 := by decide

/-- the Deferred fired BEFORE `stop()`: shutdown completes in the pass that ran `stop()` -/
example :
    let lc : LCfg := ⟨Cfg.posix, false, demoEff⟩
    (lrun lc ([.thread 0, .thread 0] ++ List.replicate 6 .reactor) (linit true)).phase = .crashed ∧
    (lrun lc ([.thread 0, .thread 0] ++ List.replicate 7 .reactor) (linit true)).phase = .exited := by decide

/-- asyncio: `stop()` itself schedules one more handle -/
example :
    let lc : LCfg := ⟨Cfg.asyncio, true, demoEff⟩
    let s := lrun lc [.thread 0, .thread 0, .reactor, .reactor, .reactor, .reactor, .reactor] (linitIdle false)
    s.base.ran = [⟨0, 0⟩] ∧ s.phase = .stopping ∧ s.base.waker = 1 := by decide

/-! ### calls issued by the reactor thread itself (from a call's body, from a delayed call) -/
section Reentrant
open Twisted.Drv.C13

theorem lrun_cons (lc : LCfg) (a : Actor) (l : List Actor) (s : LState) :
    lrun lc (a :: l) s = lrun lc l (lstep lc s a) := by
  simp [lrun]

theorem lrun_append (lc : LCfg) (l1 l2 : List Actor) (s : LState) :
    lrun lc (l1 ++ l2) s = lrun lc l2 (lrun lc l1 s) := by
  simp [lrun, List.foldl_append]

/-- **The reactor thread's own calls are ordinary schedules.**  Running a schedule in which calls' bodies issue
    calls themselves (`c`) or through a delayed call (`d`) — what the driver op `lrunx` computes and the tie
    compares with the real code — IS the life-cycle model's run on the schedule `desugar` builds (those calls
    as two steps of thread 7 where the body / the delayed call makes them: the reactor performs no other shared
    access in between).  Every theorem of this file holds for ALL schedules, hence for that one. -/
theorem lrunX_eq_lrun (lc : LCfg) (x : Call → XEff) (sched : List Actor) (s : LState) (later : Nat) :
    lrunX lc x sched s later = lrun lc (desugar lc x sched s later) s := by
  induction sched generalizing s later with
  | nil => simp [lrunX, desugar, lrun]
  | cons a rest ih =>
    cases a with
    | thread t => simp only [lrunX, desugar, lrun_cons]; exact ih _ _
    | reactor =>
      simp only [lrunX, desugar, lrun_cons, lrun_append]
      exact ih _ _

/-- per-thread FIFO, nothing lost, nothing duplicated — also for the calls the reactor thread issues itself
    (`t = 7`), whatever calls issue further calls -/
theorem per_thread_fifo_reentrant (lc : LCfg) (x : Call → XEff) (sched : List Actor) (s0 : LState)
    (h0 : LStart s0) (t : Nat) :
    ((lrunX lc x sched s0 0).base.ran ++ pending (lrunX lc x sched s0 0).base).filter (byThread t)
      = issueList t ((lrunX lc x sched s0 0).base.issued t) := by
  rw [lrunX_eq_lrun]; exact per_thread_fifo_lifecycle lc _ s0 h0 t

theorem accounting_reentrant (lc : LCfg) (x : Call → XEff) (sched : List Actor) (s0 : LState)
    (h0 : LStart s0) (c : Call) :
    (lrunX lc x sched s0 0).base.ran.count c + (pending (lrunX lc x sched s0 0).base).count c
      = if c.idx < (lrunX lc x sched s0 0).base.issued c.thread then 1 else 0 := by
  rw [lrunX_eq_lrun]; exact accounting_lifecycle lc _ s0 h0 c

/-- the reactor never sleeps on a non-empty queue unless a thread is still inside `callFromThread` — also when
    the queue holds calls the reactor thread issued itself -/
theorem no_lost_wakeup_reentrant (lc : LCfg) (x : Call → XEff) (sched : List Actor) (s0 : LState)
    (h0 : LStart s0) (hb : blocked (lrunX lc x sched s0 0).base = true)
    (hq : (lrunX lc x sched s0 0).base.queue ≠ []) :
    ∃ t, (lrunX lc x sched s0 0).base.pw t = true := by
  rw [lrunX_eq_lrun] at hb hq ⊢; exact no_lost_wakeup_lifecycle lc _ s0 h0 hb hq

/-- thread 0's call 0 schedules a delayed call that issues a call; the reactor thread's call 0 issues another
    from its own body -/
def demoX (c : Call) : XEff :=
  if c = ⟨0, 0⟩ then .later else if c = ⟨7, 0⟩ then .issue else .none

example :
    let lc : LCfg := ⟨Cfg.posix, false, fun _ => .none⟩
    let s := lrunX lc demoX ([.thread 0, .thread 0] ++ List.replicate 6 .reactor) (linit false) 0
    s.base.ran = [⟨0, 0⟩] ∧ s.base.queue = [⟨7, 0⟩] ∧ s.base.waker = 2 ∧ lblocked s = false ∧
    (lrunX lc demoX ([.thread 0, .thread 0] ++ List.replicate 20 .reactor) (linit false) 0).base.ran
      = [⟨0, 0⟩, ⟨7, 0⟩, ⟨7, 1⟩] ∧
    desugar lc demoX ([.thread 0, .thread 0] ++ List.replicate 6 .reactor) (linit false) 0
      = [.thread 0, .thread 0, .reactor, .reactor, .reactor, .reactor, .reactor, .thread 7, .thread 7, .reactor] := by
  decide

end Reentrant

end TwistedProps.C13
