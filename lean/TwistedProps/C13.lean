import TwistedProps.C13.Live
/-!
C13 — callFromThread runs each call once, in the reactor thread, in per-thread order, promptly.

Model: `TwistedModel/Reactor/ThreadQueue.lean` (the shared accesses of `callFromThread`, `wakeUp`,
the `threadCallQueue` drain of `runUntilCurrent`, `doIteration` on the waker; `Cfg.posix` for
select/poll/epoll with the pipe waker, `Cfg.asyncio` for the asyncio reactor).  A schedule is ANY
list of actors (`reactor` / `thread t`, any number of threads, any number of calls each); every
theorem below holds for every schedule and every `Cfg` (pipe capacity, read size, and whether the
post-drain `wakeUp` reaches the waker at all — it is not needed).

What "every call runs exactly once … promptly" means without a fairness assumption:
  * safety, in every reachable state: `accounting` — each issued call is run once or pending once,
    never both, never neither, and nothing that was not issued ever runs; `per_thread_fifo`;
  * `no_lost_wakeup`: the reactor is never asleep with a non-empty queue unless some thread is still
    inside `callFromThread` (its `wakeUp` is yet to come);
  * progress: `each_call_runs_exactly_once` — from any reachable state in which every
    `callFromThread` has returned, the reactor ALONE (no timer, no I/O, no other event) has run
    every issued call exactly once after `mu s` of its own steps, and for ever after.
Not covered (PARTIAL by nature, see ASSUMES in harness/corr/C13.py): that OS threads under the GIL
refine this step relation, and that select/poll/epoll/asyncio report the readable waker.
-/
namespace TwistedProps.C13
open Twisted.Reactor.ThreadQueue

/-- the reactor starts in `runUntilCurrent` (`mainLoop`) or idle in the event loop (asyncio) -/
def Start (s0 : State) : Prop := s0 = init ∨ s0 = initIdle

theorem inv_reachable (cfg : Cfg) (sched : List Actor) (s0 : State) (h0 : Start s0) :
    Inv (run cfg sched s0) := by
  apply inv_run
  rcases h0 with h | h <;> subst h
  · exact inv_init
  · exact inv_initIdle

/-! ### exactly once, in order: safety -/

/-- **Per-thread FIFO, nothing lost, nothing duplicated.**  In every reachable state and for every
    thread `t`: the calls of `t` that have run, followed by the calls of `t` still pending in the
    queue, are exactly `t`'s calls `0, 1, …, issued t - 1` in the order issued. -/
theorem per_thread_fifo (cfg : Cfg) (sched : List Actor) (s0 : State) (h0 : Start s0) (t : Nat) :
    ((run cfg sched s0).ran ++ pending (run cfg sched s0)).filter (byThread t)
      = issueList t ((run cfg sched s0).issued t) :=
  (inv_reachable cfg sched s0 h0).fifo t

/-- the calls of thread `t` that have run are its first `k` calls, in the order issued -/
theorem ran_in_issue_order (cfg : Cfg) (sched : List Actor) (s0 : State) (h0 : Start s0) (t : Nat) :
    ∃ k, k ≤ (run cfg sched s0).issued t ∧
      (run cfg sched s0).ran.filter (byThread t) = issueList t k := by
  have h := per_thread_fifo cfg sched s0 h0 t
  rw [List.filter_append] at h
  exact prefix_issueList _ _ _ _ h

/-- **Accounting.**  In every reachable state every call is in exactly one place: a call that was
    issued has run once or is pending once (never both); a call that was not issued is nowhere. -/
theorem accounting (cfg : Cfg) (sched : List Actor) (s0 : State) (h0 : Start s0) (c : Call) :
    (run cfg sched s0).ran.count c + (pending (run cfg sched s0)).count c
      = if c.idx < (run cfg sched s0).issued c.thread then 1 else 0 :=
  accounting_of_inv _ (inv_reachable cfg sched s0 h0) c

/-- no call ever runs twice -/
theorem each_call_at_most_once (cfg : Cfg) (sched : List Actor) (s0 : State) (h0 : Start s0) (c : Call) :
    (run cfg sched s0).ran.count c ≤ 1 := by
  have := accounting cfg sched s0 h0 c
  split at this <;> omega

/-- only issued calls run -/
theorem only_issued_calls_run (cfg : Cfg) (sched : List Actor) (s0 : State) (h0 : Start s0) (c : Call)
    (hc : c ∈ (run cfg sched s0).ran) : c.idx < (run cfg sched s0).issued c.thread := by
  have := accounting cfg sched s0 h0 c
  have hpos : 0 < (run cfg sched s0).ran.count c := List.count_pos_iff.mpr hc
  split at this
  · assumption
  · omega

/-! ### in the reactor thread -/

/-- a producer thread's step never runs a call: calls run only in reactor steps -/
theorem runs_in_reactor_thread (cfg : Cfg) (t : Nat) (s : State) : (threadStep cfg t s).ran = s.ran := by
  unfold threadStep
  split <;> rfl

/-- what has run stays run (the log only grows), whatever happens next -/
theorem ran_monotone (cfg : Cfg) (sched : List Actor) (s : State) :
    ∃ l, (run cfg sched s).ran = s.ran ++ l := by
  induction sched generalizing s with
  | nil => exact ⟨[], by simp [run]⟩
  | cons a rest ih =>
    obtain ⟨l, hl⟩ := ih (step cfg s a)
    obtain ⟨l1, hl1⟩ : ∃ l1, (step cfg s a).ran = s.ran ++ l1 := by
      cases a with
      | thread t => exact ⟨[], by simp [step, runs_in_reactor_thread]⟩
      | reactor =>
        simp only [step, reactorStep]
        split <;> (try split) <;> first | exact ⟨[_], rfl⟩ | exact ⟨[], by simp⟩
    exact ⟨l1 ++ l, by rw [show run cfg (a :: rest) s = run cfg rest (step cfg s a) from rfl, hl, hl1,
      List.append_assoc]⟩

/-! ### promptly: no lost wake-up, and progress by the reactor alone -/

/-- **No lost wake-up.**  In every reachable state: if the reactor sleeps in `doIteration` (waker not
    readable) while the queue is not empty, then some thread is still inside `callFromThread`,
    between its `append` and its `wakeUp` — so the wake-up is still coming.  Equivalently:
    "asleep ∧ queue ≠ [] ∧ every callFromThread returned" is unreachable. -/
theorem no_lost_wakeup (cfg : Cfg) (sched : List Actor) (s0 : State) (h0 : Start s0)
    (hb : blocked (run cfg sched s0) = true) (hq : (run cfg sched s0).queue ≠ []) :
    ∃ t, (run cfg sched s0).pw t = true := by
  have h := inv_reachable cfg sched s0 h0
  generalize run cfg sched s0 = s at *
  simp only [blocked, Bool.and_eq_true, beq_iff_eq] at hb
  obtain ⟨hpc, hw⟩ := hb
  have hu : unseen s ≠ [] := by simpa [unseen, hpc] using hq
  rcases h.covered hu with h1 | h1
  · omega
  · exact h1

/-- **Every call runs exactly once, in order, without any other event** (headline).
    Take any schedule at all and stop it at a point where every `callFromThread` has returned
    (`quiet`).  Then after `k ≥ mu s` steps of the reactor alone: nothing is pending, every issued
    call `⟨t, i⟩` has run exactly once, nothing else has run, and per thread the calls ran in the
    order issued. -/
theorem each_call_runs_exactly_once (cfg : Cfg) (sched : List Actor) (s0 : State) (h0 : Start s0)
    (hq : quiet (run cfg sched s0)) (k : Nat) (hk : mu (run cfg sched s0) ≤ k) :
    let s := run cfg sched s0
    let s' := rsteps cfg k s
    pending s' = [] ∧
    (∀ c : Call, s'.ran.count c = if c.idx < s.issued c.thread then 1 else 0) ∧
    (∀ t, s'.ran.filter (byThread t) = issueList t (s.issued t)) := by
  intro s s'
  have hinv : Inv s := inv_reachable cfg sched s0 h0
  have hinv' : Inv s' := inv_rsteps cfg k s hinv
  have hp : pending s' = [] := drains cfg k s hinv hq hk
  have hi : s'.issued = s.issued := issued_rsteps cfg k s
  refine ⟨hp, ?_, ?_⟩
  · intro c
    have := accounting_of_inv s' hinv' c
    rw [hp, hi] at this
    simpa using this
  · intro t
    have := hinv'.fifo t
    rw [hp, hi] at this
    simpa using this

/-- the same, for a call issued while the reactor is idle, with the exact number of steps: the
    reactor asleep on an empty queue; thread `t` calls `callFromThread` (append, wakeUp); five
    reactor steps later (`poll`, `doRead`, `check1`, `total`, `fetch`) exactly that call has run. -/
theorem idle_call_runs_promptly (cfg : Cfg) (s : State) (t : Nat)
    (hpc : s.pc = .poll) (hw : s.waker = 0) (hq : s.queue = []) (hp : s.pw t = false) :
    (rsteps cfg 5 (threadStep cfg t (threadStep cfg t s))).ran = s.ran ++ [⟨t, s.issued t⟩] := by
  rcases s with ⟨q, ran, w, pc, tot, cnt, iss, pw⟩
  dsimp only at hpc hw hq hp
  subst hpc hw hq
  have hw1 : wake cfg 0 ≠ 0 := Nat.pos_iff_ne_zero.mp (wake_pos cfg 0)
  simp [threadStep, hp, upd, rsteps, reactorStep, hw1]

/-! ### non-vacuity -/

/-- two threads; thread 1 appends while thread 0's call is being drained and delivers its wake-up five
    reactor steps later; then thread 0 issues a second call: reachable, quiet, and the bound is small -/
example :
    let sched : List Actor := [.thread 0, .thread 0, .reactor, .reactor, .reactor, .thread 1,
      .reactor, .reactor, .reactor, .reactor, .reactor, .thread 1, .thread 0, .thread 0]
    let s := run Cfg.posix sched init
    s.ran = [⟨0, 0⟩] ∧ s.queue = [⟨1, 0⟩, ⟨0, 1⟩] ∧ s.pc = .check1 ∧ s.waker = 2 ∧
    s.pw 0 = false ∧ s.pw 1 = false ∧ mu s = 8 ∧
    (rsteps Cfg.posix 8 s).ran = [⟨0, 0⟩, ⟨1, 0⟩, ⟨0, 1⟩] := by decide

/-- the reactor asleep when the calls arrive (wake-ups delivered late): the quadratic bound in action -/
example :
    let s := run Cfg.posix [.reactor, .thread 1, .reactor, .reactor, .thread 1, .thread 0, .thread 0] init
    s.ran = [] ∧ s.queue = [⟨1, 0⟩, ⟨0, 0⟩] ∧ s.pc = .poll ∧ s.waker = 2 ∧ mu s = 48 ∧
    (rsteps Cfg.posix 48 s).ran = [⟨1, 0⟩, ⟨0, 0⟩] ∧ pending (rsteps Cfg.posix 48 s) = [] := by decide

/-- the situation `no_lost_wakeup` speaks about is reachable: asleep, queue not empty, thread 0 mid-call -/
example :
    let s := run Cfg.posix [.reactor, .thread 0, .reactor] init
    blocked s = true ∧ s.queue = [⟨0, 0⟩] ∧ s.pw 0 = true := by decide

/-- asyncio configuration (one handle per call, post-drain wakeUp goes elsewhere), idle start -/
example :
    let s := run Cfg.asyncio [.thread 0, .thread 0, .thread 0, .reactor, .thread 0, .reactor] initIdle
    s.queue = [⟨0, 0⟩, ⟨0, 1⟩] ∧ s.waker = 1 ∧ s.pc = .check1 ∧
    (rsteps Cfg.asyncio (mu s) s).ran = [⟨0, 0⟩, ⟨0, 1⟩] := by decide

example : (rsteps Cfg.posix 5 (threadStep Cfg.posix 7 (threadStep Cfg.posix 7 initIdle))).ran = [⟨7, 0⟩] := by
  decide

end TwistedProps.C13
