import TwistedModel.Log.Publish
import TwistedModel.Log.Filter
import TwistedModel.Log.Buffer
/-!
C57 — log observers receive every event; filters honour the namespace hierarchy.

  * `LogPublisher` (model `Twisted.Log.Publish`; observers may return, raise, add/remove observers and
    PUBLISH further events through the same publisher — re-entrantly, in any order, to any depth):
    `every_observer_gets_every_event_once_in_order`, `each_registered_observer_exactly_once`,
    `reentrant_publish_once_in_order`, `reentrant_publish_is_publish`, `nested_reOK`, `publishWith_shape`,
    `history_every_event_once_in_order`, `registered_observers_stay_distinct`,
    `failures_reported_to_others`(`_nested`, `_reentrant`), `broken_eq_raisers`,
    `error_reporting_terminates`, `publishErrN_fuel_irrelevant`, `publishMain_fuel_irrelevant`, `run_fuel_irrelevant`,
    `overflow_sticky`, `live_iteration_counterexample`
  * `LogLevelFilterPredicate` / `FilteringLogObserver` (model `Twisted.Log.Filter`):
    `levelFor_eq_most_specific_prefix`, `governs_total`, `levelFor_governs`,
    `filter_passes_iff_level_ge_most_specific_prefix`, `filter_drops_events_without_level_or_namespace`
  * `LimitedHistoryLogObserver` (model `Twisted.Log.Buffer`): `history_replays_last_N_in_order`,
    `history_replays_last_N_reentrant`, `history_after_reentrant_replay`, `history_replay_to_self`(`_last_N`,
    `_full`, `_unbounded`: the observer replayed to is the history observer itself), …
-/
namespace TwistedProps.C57

section Buffer
open Twisted.Log.Buffer

/-! ## LimitedHistoryLogObserver -/

/-- feeding a stream of events to the observer -/
def observeAll {α : Type} (h : Hist α) (es : List α) : Hist α := es.foldl Hist.observe h

theorem observe_bounded_inv {α : Type} (n : Nat) (pre : List α) (e : α) :
    (Hist.observe ⟨some n, pre.drop (pre.length - n)⟩ e) =
      ⟨some n, (pre ++ [e]).drop ((pre ++ [e]).length - n)⟩ := by
  unfold Hist.observe
  simp only [List.length_append, List.length_cons, List.length_nil, List.length_drop]
  by_cases h0 : n = 0
  · subst h0; simp
  · simp only [h0, if_false]
    by_cases hl : pre.length - (pre.length - n) = n
    · simp only [hl, if_true]
      have : n ≤ pre.length := by omega
      simp only [List.drop_drop]
      rw [List.drop_append_of_le_length (by omega)]
      congr 3
      omega
    · simp only [hl, if_false]
      have h1 : pre.length - n = 0 := by omega
      have h2 : pre.length + (0 + 1) - n = 0 := by omega
      simp [h1, h2]

theorem observeAll_bounded {α : Type} (n : Nat) (pre es : List α) :
    (observeAll ⟨some n, pre.drop (pre.length - n)⟩ es) =
      ⟨some n, (pre ++ es).drop ((pre ++ es).length - n)⟩ := by
  induction es generalizing pre with
  | nil => simp [observeAll]
  | cons e es ih =>
    have := ih (pre ++ [e])
    simp only [observeAll, List.foldl_cons] at this ⊢
    rw [observe_bounded_inv, this]
    simp

/-- **A limited-history observer of size `N` replays exactly the last `N` events, in order** —
    for every `N` (including 0) and every event stream. -/
theorem history_replays_last_N_in_order {α : Type} (N : Nat) (es : List α) (h0 : Hist α)
    (hnew : Hist.new (some (N : Int)) = some h0) :
    (observeAll h0 es).replay = es.drop (es.length - N) := by
  have : h0 = ⟨some N, []⟩ := by
    simp [Hist.new] at hnew
    exact hnew.symm
  subst this
  have := observeAll_bounded N [] es
  simp at this
  simp [this, Hist.replay]

example : (observeAll (⟨some 2, []⟩ : Hist Nat) [10, 11, 12, 13]).replay = [12, 13] := by decide

/-- size `None`: everything is replayed -/
theorem history_unbounded_replays_all {α : Type} (es : List α) (h0 : Hist α)
    (hnew : Hist.new none = some h0) : (observeAll h0 es).replay = es := by
  have : h0 = ⟨none, []⟩ := by simp [Hist.new] at hnew; exact hnew.symm
  subst this
  suffices h : ∀ pre : List α, observeAll ⟨none, pre⟩ es = ⟨none, pre ++ es⟩ by
    simp [h, Hist.replay]
  induction es with
  | nil => simp [observeAll]
  | cons e es ih =>
    intro pre
    have := ih (pre ++ [e])
    simp only [observeAll, List.foldl_cons] at this ⊢
    simp [Hist.observe, this]

/-- a negative size is refused by the constructor (`deque` raises `ValueError`) -/
theorem history_negative_size_refused {α : Type} (n : Int) (h : n < 0) : Hist.new (α := α) (some n) = none := by
  simp [Hist.new, h]

/-! ### the observer replayed to logs to the history observer meanwhile (re-entrancy) -/

theorem observeAll_append {α : Type} (h : Hist α) (a b : List α) :
    observeAll h (a ++ b) = observeAll (observeAll h a) b := by simp [observeAll]

/-- the loop hands over exactly the copied buffer, whatever the target feeds back -/
theorem replayLoop_fst {α : Type} (feed : Nat → List α) (snap : List α) (i : Nat) (h : Hist α) :
    (Hist.replayLoop feed snap i h).1 = snap := by
  induction snap generalizing i h with
  | nil => rfl
  | cons ev rest ih => simp [Hist.replayLoop, ih]

/-- … and everything the target logged is observed, in order (history for the next replay) -/
theorem replayLoop_snd {α : Type} (feed : Nat → List α) (snap : List α) (i : Nat) (h : Hist α) :
    (Hist.replayLoop feed snap i h).2 = observeAll h ((List.range' i snap.length).flatMap feed) := by
  induction snap generalizing i h with
  | nil => simp [Hist.replayLoop, observeAll]
  | cons ev rest ih =>
    simp only [Hist.replayLoop, ih, List.length_cons, List.range'_succ, List.flatMap_cons, observeAll_append]
    rfl

/-- **Replay is exact under re-entrancy**: a limited-history observer of size `N` replays exactly the last
    `N` events observed before `replayTo` was called, in order — also when the observer replayed to logs
    (any number of events, at any of its calls) to the history observer itself while it is replayed to. -/
theorem history_replays_last_N_reentrant {α : Type} (N : Nat) (es : List α) (h0 : Hist α)
    (hnew : Hist.new (some (N : Int)) = some h0) (feed : Nat → List α) :
    ((observeAll h0 es).replayTo feed).1 = es.drop (es.length - N) := by
  unfold Hist.replayTo
  rw [replayLoop_fst]
  exact history_replays_last_N_in_order N es h0 hnew

theorem history_unbounded_replays_all_reentrant {α : Type} (es : List α) (h0 : Hist α)
    (hnew : Hist.new none = some h0) (feed : Nat → List α) : ((observeAll h0 es).replayTo feed).1 = es := by
  unfold Hist.replayTo
  rw [replayLoop_fst]
  exact history_unbounded_replays_all es h0 hnew

/-- what was logged during the replay is part of the stream afterwards: the state after the replay is the
    state after observing `es` followed by the events fed at the 0th, 1st, … call of the target -/
theorem history_after_reentrant_replay {α : Type} (es : List α) (h0 : Hist α) (feed : Nat → List α) :
    ((observeAll h0 es).replayTo feed).2 =
      observeAll h0 (es ++ (List.range' 0 (observeAll h0 es).buf.length).flatMap feed) := by
  unfold Hist.replayTo
  rw [replayLoop_snd, observeAll_append]

/-- size 2, events 10..13 observed; the target logs 20 at its first call and 21, 22 at its second: it is handed
    12, 13; the next replay hands over 21, 22 -/
example : ((observeAll (⟨some 2, []⟩ : Hist Nat) [10, 11, 12, 13]).replayTo
    (fun i => if i = 0 then [20] else if i = 1 then [21, 22] else [])).1 = [12, 13] := by decide
example : ((observeAll (⟨some 2, []⟩ : Hist Nat) [10, 11, 12, 13]).replayTo
    (fun i => if i = 0 then [20] else if i = 1 then [21, 22] else [])).2.replay = [21, 22] := by decide

/-! ### the history observer replayed to itself; the same event logged more than once -/

theorem flatMap_getElem?_toList {α : Type} (pre l : List α) :
    (List.range' pre.length l.length).flatMap (fun i => (pre ++ l)[i]?.toList) = l := by
  induction l generalizing pre with
  | nil => simp
  | cons a l ih =>
    have h := ih (pre ++ [a])
    simp only [List.length_append, List.length_cons, List.length_nil, List.append_assoc, List.singleton_append,
      Nat.zero_add] at h
    simp only [List.length_cons, List.range'_succ, List.flatMap_cons, h]
    simp

/-- **Replaying a history observer to itself**: it is handed its own buffer — the last `N` events — and observes
    them: afterwards its state is the state after the stream `es` followed by those events once more. -/
theorem history_replay_to_self {α : Type} (es : List α) (h0 : Hist α) :
    (observeAll h0 es).replayToSelf = observeAll h0 (es ++ (observeAll h0 es).replay) := by
  unfold Hist.replayToSelf
  rw [history_after_reentrant_replay]
  have := flatMap_getElem?_toList [] (observeAll h0 es).buf
  simp only [List.length_nil, List.nil_append] at this
  rw [this]
  rfl

/-- size `N`: after `h.replayTo(h)` the next replay hands over the last `N` of (the stream, then its last `N` again) -/
theorem history_replay_to_self_last_N {α : Type} (N : Nat) (es : List α) (h0 : Hist α)
    (hnew : Hist.new (some (N : Int)) = some h0) :
    (observeAll h0 es).replayToSelf.replay =
      (es ++ es.drop (es.length - N)).drop ((es ++ es.drop (es.length - N)).length - N) := by
  rw [history_replay_to_self, history_replays_last_N_in_order N es h0 hnew,
    history_replays_last_N_in_order N _ h0 hnew]

/-- a full buffer is unchanged by it -/
theorem history_replay_to_self_full {α : Type} (N : Nat) (es : List α) (h0 : Hist α)
    (hnew : Hist.new (some (N : Int)) = some h0) (hfull : N ≤ es.length) :
    (observeAll h0 es).replayToSelf.replay = es.drop (es.length - N) := by
  rw [history_replay_to_self_last_N N es h0 hnew]
  rw [List.drop_append_of_le_length (by simp; omega)]
  have : (es ++ List.drop (es.length - N) es).length - N = es.length := by simp; omega
  rw [this]; simp

/-- unbounded: everything is there twice -/
theorem history_replay_to_self_unbounded {α : Type} (es : List α) (h0 : Hist α) (hnew : Hist.new none = some h0) :
    (observeAll h0 es).replayToSelf.replay = es ++ es := by
  rw [history_replay_to_self, history_unbounded_replays_all es h0 hnew, history_unbounded_replays_all _ h0 hnew]

example : (observeAll (⟨some 3, []⟩ : Hist Nat) [10, 11]).replayToSelf.replay = [11, 10, 11] := by decide
example : (observeAll (⟨some 2, []⟩ : Hist Nat) [10, 11, 12]).replayToSelf.replay = [11, 12] := by decide
example : (observeAll (⟨none, []⟩ : Hist Nat) [10, 11]).replayToSelf.replay = [10, 11, 10, 11] := by decide
/-- the same event logged twice is two events -/
example : (observeAll (⟨some 3, []⟩ : Hist Nat) [10, 10, 11, 11]).replay = [10, 11, 11] := by decide

end Buffer

section Publisher
open Twisted.Log.Publish

/-! ## LogPublisher -/

/-- nesting depth of a failure report -/
def depth : Ev → Nat
  | .app _ => 0
  | .sub _ => 0
  | .report _ c => depth c + 1

/-- `below e d`: `d` is a failure report caused (directly or through further failing observers) by `e` -/
def below (e : Ev) : Ev → Bool
  | .app _ => false
  | .sub _ => false
  | .report _ c => c == e || below e c

theorem below_depth {e d : Ev} (h : below e d = true) : depth e < depth d := by
  induction d with
  | app k => simp [below] at h
  | sub k => simp [below] at h
  | report b c ih =>
    simp only [below, Bool.or_eq_true, beq_iff_eq] at h
    rcases h with h | h
    · subst h; simp [depth]
    · have := ih h; simp [depth]; omega

theorem below_ne {e d : Ev} (h : below e d = true) : d ≠ e := by
  intro hd; subst hd; have := below_depth h; omega

theorem below_trans {a b c : Ev} (h1 : below a b = true) (h2 : below b c = true) : below a c = true := by
  induction c with
  | app k => simp [below] at h2
  | sub k => simp [below] at h2
  | report o c ih =>
    simp only [below, Bool.or_eq_true, beq_iff_eq] at h2 ⊢
    rcases h2 with h | h
    · subst h; exact Or.inr h1
    · exact Or.inr (ih h)

theorem below_report (b : Obs) (e : Ev) : below e (.report b e) = true := by simp [below]

/-! ### events of re-entrant publishes -/

/-- the event a failure report is ultimately about -/
def root : Ev → Ev
  | .report _ c => root c
  | e => e

/-- `later m e`: `e` is — or is a failure report about — an event published by an observer (re-entrantly)
    as the `m`-th such event or later -/
def later (m : Nat) (e : Ev) : Bool :=
  match root e with
  | .sub j => decide (m ≤ j)
  | _ => false

theorem later_report (m : Nat) (b : Obs) (c : Ev) : later m (.report b c) = later m c := rfl
theorem later_app (m k : Nat) : later m (.app k) = false := rfl
theorem later_sub (m k : Nat) : later m (.sub k) = decide (m ≤ k) := rfl

theorem below_root {e d : Ev} (h : below e d = true) : root d = root e := by
  induction d with
  | app k => simp [below] at h
  | sub k => simp [below] at h
  | report b c ih =>
    simp only [below, Bool.or_eq_true, beq_iff_eq] at h
    rcases h with h | h
    · subst h; rfl
    · exact ih h

theorem below_later {e d : Ev} (m : Nat) (h : below e d = true) : later m d = later m e := by
  unfold later; rw [below_root h]

theorem later_mono {m m' : Nat} (h : m ≤ m') {e : Ev} (hl : later m' e = true) : later m e = true := by
  unfold later at hl ⊢
  split at hl
  · next j hj => simp only [decide_eq_true_eq] at hl ⊢; omega
  · simp at hl

/-- the part of the trace added between two states -/
def newOf (s s' : St) : List (Obs × Ev) := s'.trace.drop s.trace.length

theorem newOf_eq {s s' : St} {t : List (Obs × Ev)} (h : s'.trace = s.trace ++ t) : newOf s s' = t := by
  simp [newOf, h]

/-- `ExtP Q s s'`: from `s` to `s'` the trace only grew, by deliveries of events satisfying `Q`, and the
    counter of re-entrantly published events did not go back -/
def ExtP (Q : Ev → Prop) (s s' : St) : Prop :=
  s.next ≤ s'.next ∧ ∃ tail, s'.trace = s.trace ++ tail ∧ ∀ d ∈ tail, Q d.2

theorem ExtP.refl (Q : Ev → Prop) (s : St) : ExtP Q s s := ⟨Nat.le_refl _, [], by simp, by simp⟩

theorem ExtP.trans {Q : Ev → Prop} {a b c : St} (h1 : ExtP Q a b) (h2 : ExtP Q b c) : ExtP Q a c := by
  obtain ⟨n1, t1, e1, p1⟩ := h1
  obtain ⟨n2, t2, e2, p2⟩ := h2
  refine ⟨Nat.le_trans n1 n2, t1 ++ t2, by rw [e2, e1]; simp, ?_⟩
  intro d hd
  rcases List.mem_append.mp hd with h | h
  · exact p1 d h
  · exact p2 d h

theorem ExtP.mono {Q Q' : Ev → Prop} {a b : St} (hq : ∀ d, Q d → Q' d) (h : ExtP Q a b) : ExtP Q' a b := by
  obtain ⟨n1, t, e1, p⟩ := h
  exact ⟨n1, t, e1, fun d hd => hq _ (p d hd)⟩

theorem foldl_ExtP {Q : Ev → Prop} {α : Type} (m : Nat) (f : St → α → St) (l : List α) (s : St)
    (h : ∀ s, m ≤ s.next → ∀ b ∈ l, ExtP Q s (f s b)) (hm : m ≤ s.next) : ExtP Q s (l.foldl f s) := by
  induction l generalizing s with
  | nil => exact ExtP.refl Q s
  | cons b bs ih =>
    simp only [List.foldl_cons]
    have h1 := h s hm b (by simp)
    exact ExtP.trans h1 (ih _ (fun s hs b' hb' => h s hs b' (by simp [hb'])) (Nat.le_trans hm h1.1))

/-- only events of re-entrant publishes number `m` and later (and failure reports about them) -/
def Late (m : Nat) (d : Ev) : Prop := later m d = true
/-- failure reports caused by `e`, or events of re-entrant publishes number `m` and later -/
def Side (m : Nat) (e : Ev) (d : Ev) : Prop := below e d = true ∨ later m d = true

/-- `Ext m e s s'`: the trace grew by failure reports caused by `e` and by whatever re-entrant publishes
    (of events number `m` and later) delivered -/
abbrev Ext (m : Nat) (e : Ev) (s s' : St) : Prop := ExtP (Side m e) s s'

theorem Ext.weaken {m : Nat} {e e' : Ev} {a b : St} (hb : below e e' = true) (h : Ext m e' a b) : Ext m e a b :=
  ExtP.mono (fun _ hd => hd.elim (fun h1 => Or.inl (below_trans hb h1)) Or.inr) h

/-- **What an observer's re-entrant `publisher(event)` is assumed to do** (and `nested` is proved to do,
    `nested_reOK`): called with the freshly numbered event `sub k`, it only appends deliveries of events
    number `k` and later (and failure reports about them) and does not decrease the counter. -/
def ReOK (pub : Reenter) : Prop := ∀ k s, k < s.next → ExtP (Late k) s (pub (.sub k) s)

theorem runCmd_ExtP (pub : Reenter) (hp : ReOK pub) (m : Nat) (s : St) (c : Cmd) (hm : m ≤ s.next) :
    ExtP (Late m) s (runCmd pub s c) := by
  cases c with
  | remove o => exact ⟨Nat.le_refl _, [], by simp [runCmd], by simp⟩
  | add o => exact ⟨Nat.le_refl _, [], by simp [runCmd], by simp⟩
  | publish =>
    simp only [runCmd]
    obtain ⟨hn, t, ht, hq⟩ := hp s.next { s with next := s.next + 1 } (Nat.lt_succ_self _)
    exact ⟨by simp at hn; omega, t, ht, fun d hd => later_mono hm (hq d hd)⟩

theorem runCmds_ExtP (pub : Reenter) (hp : ReOK pub) (m : Nat) (cmds : List Cmd) (s : St) (hm : m ≤ s.next) :
    ExtP (Late m) s (cmds.foldl (runCmd pub) s) :=
  foldl_ExtP m _ _ s (fun s hs c _ => runCmd_ExtP pub hp m s c hs) hm

/-- one observer call: the delivery itself, then only deliveries made by its re-entrant publishes -/
theorem callObs_shape (pub : Reenter) (hp : ReOK pub) (beh : Beh) (m : Nat) (o : Obs) (e : Ev) (s : St)
    (hm : m ≤ s.next) :
    s.next ≤ (callObs pub beh o e s).1.next ∧
    ∃ t, (callObs pub beh o e s).1.trace = s.trace ++ (o, e) :: t ∧ ∀ d ∈ t, later m d.2 = true := by
  simp only [callObs]
  obtain ⟨hn, t, ht, hq⟩ := runCmds_ExtP pub hp m (beh o (calls o s.trace) e).cmds
    { s with trace := s.trace ++ [(o, e)] } hm
  exact ⟨hn, t, by rw [ht]; simp, hq⟩

/-- the deliveries visible at level `m`: everything except what re-entrant publishes number `m` and later delivered -/
def vis (m : Nat) (t : List (Obs × Ev)) : List (Obs × Ev) := t.filter (fun d => !later m d.2)

theorem vis_append (m : Nat) (a b : List (Obs × Ev)) : vis m (a ++ b) = vis m a ++ vis m b := by simp [vis]

theorem vis_late (m : Nat) (t : List (Obs × Ev)) (h : ∀ d ∈ t, later m d.2 = true) : vis m t = [] := by
  simp only [vis, List.filter_eq_nil_iff]
  intro d hd; simp [h d hd]

theorem vis_keep (m : Nat) (t : List (Obs × Ev)) (h : ∀ d ∈ t, later m d.2 = false) : vis m t = t := by
  simp only [vis, List.filter_eq_self]
  intro d hd; simp [h d hd]

/-- `Shape m e os s s'`: a publisher with observers `os` was called with `e`: apart from what re-entrant
    publishes (number `m` and later) delivered, the trace grew by `e` to every observer of `os` in order,
    then only by failure reports caused by `e` -/
def Shape (m : Nat) (e : Ev) (os : List Obs) (s s' : St) : Prop :=
  s.next ≤ s'.next ∧ ∃ T, s'.trace = s.trace ++ T ∧
    ∃ tail, vis m T = os.map (fun o => (o, e)) ++ tail ∧ ∀ d ∈ tail, below e d.2 = true

theorem Shape.ext {m : Nat} {e : Ev} {os : List Obs} {a b c : St} (h1 : Shape m e os a b) (h2 : Ext m e b c) :
    Shape m e os a c := by
  obtain ⟨n1, T, hT, tail, hv, hb⟩ := h1
  obtain ⟨n2, t2, ht2, hs⟩ := h2
  refine ⟨Nat.le_trans n1 n2, T ++ t2, by rw [ht2, hT]; simp, tail ++ vis m t2, by rw [vis_append, hv]; simp, ?_⟩
  intro d hd
  rcases List.mem_append.mp hd with h | h
  · exact hb d h
  · have hmem := List.mem_filter.mp h
    rcases hs d hmem.1 with h3 | h3
    · exact h3
    · simp [h3] at hmem

/-- a publish of a failure report about `e`, seen from the publish of `e` -/
theorem Shape.toExt {m : Nat} {e : Ev} {b : Obs} {F : List Obs} {s s' : St} (h : Shape m (.report b e) F s s') :
    Ext m e s s' := by
  obtain ⟨n1, T, hT, tail, hv, hb⟩ := h
  refine ⟨n1, T, hT, ?_⟩
  intro d hd
  cases hl : later m d.2 with
  | true => exact Or.inr hl
  | false =>
    left
    have : d ∈ vis m T := List.mem_filter.mpr ⟨hd, by simp [hl]⟩
    rw [hv] at this
    rcases List.mem_append.mp this with h1 | h1
    · obtain ⟨o, _, rfl⟩ := List.mem_map.mp h1
      exact below_report b e
    · exact below_trans (below_report b e) (hb d h1)

theorem deliverAll_shape (pub : Reenter) (hp : ReOK pub) (beh : Beh) (m : Nat) (e : Ev) (hf : later m e = false)
    (os : List Obs) (s : St) (hm : m ≤ s.next) :
    s.next ≤ (deliverAll pub beh e os s).1.next ∧
    ∃ T, (deliverAll pub beh e os s).1.trace = s.trace ++ T ∧ vis m T = os.map (fun o => (o, e)) := by
  induction os generalizing s with
  | nil => exact ⟨Nat.le_refl _, [], by simp [deliverAll], rfl⟩
  | cons o os ih =>
    simp only [deliverAll]
    obtain ⟨n1, t, ht, hq⟩ := callObs_shape pub hp beh m o e s hm
    obtain ⟨n2, T, hT, hv⟩ := ih (callObs pub beh o e s).1 (Nat.le_trans hm n1)
    refine ⟨Nat.le_trans n1 n2, (o, e) :: t ++ T, by rw [hT, ht]; simp, ?_⟩
    rw [vis_append, hv]
    have : vis m ((o, e) :: t) = [(o, e)] := by
      have := vis_late m t hq
      simp only [vis] at this ⊢
      simp [hf, this]
    rw [this]; rfl

theorem deliverAll_broken_sublist (pub : Reenter) (beh : Beh) (e : Ev) (os : List Obs) (s : St) :
    (deliverAll pub beh e os s).2.Sublist os := by
  induction os generalizing s with
  | nil => simp [deliverAll]
  | cons o os ih =>
    simp only [deliverAll]
    split
    · exact (ih _).cons_cons o
    · exact (ih _).cons o

theorem deliverAll_broken_mem (pub : Reenter) (beh : Beh) (e : Ev) (os : List Obs) (s : St) (b : Obs)
    (h : b ∈ (deliverAll pub beh e os s).2) : b ∈ os :=
  (deliverAll_broken_sublist pub beh e os s).subset h

theorem filter_ne_length_lt (obs : List Obs) (b : Obs) (h : b ∈ obs) :
    (obs.filter (· != b)).length < obs.length := by
  induction obs with
  | nil => simp at h
  | cons o os ih =>
    simp only [List.filter_cons]
    by_cases hob : o = b
    · subst hob
      simp
      exact Nat.lt_succ_of_le (List.length_filter_le _ _)
    · have hm : b ∈ os := by
        rcases List.mem_cons.mp h with h | h
        · exact absurd h.symm hob
        · exact h
      have := ih hm
      simp [hob]; omega

theorem publishErrN_succ (pub : Reenter) (beh : Beh) (n : Nat) (obs : List Obs) (e : Ev) (s : St) :
    publishErrN pub beh (n + 1) obs e s =
      (deliverAll pub beh e obs s).2.foldl
        (fun s b => publishErrN pub beh n (obs.filter (· != b)) (.report b e) s) (deliverAll pub beh e obs s).1 := rfl

/-- what a publisher with observers `obs` appends to the trace (apart from the deliveries of re-entrant
    publishes): first `e` to every observer in order, then only failure reports caused by `e` -/
theorem publishErrN_shape (pub : Reenter) (hp : ReOK pub) (beh : Beh) (m : Nat) (n : Nat) :
    ∀ (obs : List Obs) (e : Ev) (s : St), later m e = false → m ≤ s.next → obs.length ≤ n →
    Shape m e obs s (publishErrN pub beh n obs e s) := by
  induction n with
  | zero =>
    intro obs e s _ _ h
    have : obs = [] := List.length_eq_zero_iff.mp (by omega)
    subst this
    exact ⟨Nat.le_refl _, [], by simp [publishErrN], [], by simp [vis], by simp⟩
  | succ n ih =>
    intro obs e s hf hm h
    rw [publishErrN_succ]
    obtain ⟨n1, T, hT, hv⟩ := deliverAll_shape pub hp beh m e hf obs s hm
    have hfold : Ext m e (deliverAll pub beh e obs s).1
        ((deliverAll pub beh e obs s).2.foldl
          (fun s b => publishErrN pub beh n (obs.filter (· != b)) (.report b e) s) (deliverAll pub beh e obs s).1) := by
      apply foldl_ExtP m _ _ _ _ (Nat.le_trans hm n1)
      intro s' hs' b hb
      have hmem := deliverAll_broken_mem pub beh e obs s b hb
      have hl := filter_ne_length_lt obs b hmem
      exact (ih (obs.filter (· != b)) (.report b e) s' hf hs' (by omega)).toExt
    exact Shape.ext ⟨n1, T, hT, [], by simp [hv], by simp⟩ hfold

theorem publishErr_shape (pub : Reenter) (hp : ReOK pub) (beh : Beh) (m : Nat) (obs : List Obs) (e : Ev) (s : St)
    (hf : later m e = false) (hm : m ≤ s.next) : Shape m e obs s (publishErr pub beh obs e s) :=
  publishErrN_shape pub hp beh m obs.length obs e s hf hm (Nat.le_refl _)

theorem publishErr_Ext (pub : Reenter) (hp : ReOK pub) (beh : Beh) (m : Nat) (obs : List Obs) (b : Obs) (e : Ev) (s : St)
    (hf : later m e = false) (hm : m ≤ s.next) : Ext m e s (publishErr pub beh obs (.report b e) s) :=
  (publishErr_shape pub hp beh m obs (.report b e) s hf hm).toExt

/-- one call of the publisher under test with `e`, observers free to re-enter it (add, remove, publish):
    apart from what the re-entrant publishes delivered, `e` goes to every registered observer in order,
    then only failure reports caused by `e` follow -/
theorem publishWith_shape (pub : Reenter) (hp : ReOK pub) (beh : Beh) (m : Nat) (e : Ev) (s : St)
    (hf : later m e = false) (hm : m ≤ s.next) : Shape m e s.main s (publishWith pub beh e s) := by
  unfold publishWith reportMain
  obtain ⟨n1, T, hT, hv⟩ := deliverAll_shape pub hp beh m e hf s.main s hm
  have hfold := foldl_ExtP (Q := Side m e) m
    (fun s b => publishErr pub beh (s.main.filter (· != b)) (.report b e) s)
    (deliverAll pub beh e s.main s).2 (deliverAll pub beh e s.main s).1
    (fun s' hs' b _ => publishErr_Ext pub hp beh m _ b e s' hf hs') (Nat.le_trans hm n1)
  exact Shape.ext ⟨n1, T, hT, [], by simp [hv], by simp⟩ hfold

/-- `nested beh n` — the model's re-entrant `publisher(event)`, any depth — meets `ReOK` -/
theorem nested_reOK (beh : Beh) (n : Nat) : ReOK (nested beh n) := by
  induction n with
  | zero => intro k s _; exact ⟨Nat.le_refl _, [], by simp [nested], by simp⟩
  | succ n ih =>
    intro k s hk
    have hf : later s.next (.sub k) = false := by simp [later_sub]; omega
    obtain ⟨n1, T, hT, tail, hv, hb⟩ := publishWith_shape (nested beh n) ih beh s.next (.sub k) s hf (Nat.le_refl _)
    refine ⟨n1, T, hT, ?_⟩
    intro d hd
    cases hl : later s.next d.2 with
    | true => exact later_mono (Nat.le_of_lt hk) hl
    | false =>
      have : d ∈ vis s.next T := List.mem_filter.mpr ⟨hd, by simp [hl]⟩
      rw [hv] at this
      rcases List.mem_append.mp this with h1 | h1
      · obtain ⟨o, _, rfl⟩ := List.mem_map.mp h1
        simp [Late, later_sub]
      · show later k d.2 = true
        rw [below_later k (hb d h1)]; simp [later_sub]


/-- the observers to which event `e` was delivered, in delivery order, in a piece of trace -/
def recipients (e : Ev) (tr : List (Obs × Ev)) : List Obs := (tr.filter (fun d => d.2 == e)).map (·.1)

theorem recipients_append (e : Ev) (a b : List (Obs × Ev)) :
    recipients e (a ++ b) = recipients e a ++ recipients e b := by simp [recipients]

theorem recipients_map_self (e : Ev) (os : List Obs) : recipients e (os.map fun o => (o, e)) = os := by
  induction os with
  | nil => rfl
  | cons o os ih => simp [recipients] at ih ⊢; exact ih

theorem recipients_none (e : Ev) (tr : List (Obs × Ev)) (h : ∀ d ∈ tr, d.2 ≠ e) : recipients e tr = [] := by
  simp only [recipients, List.map_eq_nil_iff, List.filter_eq_nil_iff]
  intro d hd; simpa using h d hd

/-- deliveries of an event that no pending re-entrant publish can carry are all visible -/
theorem recipients_vis (m : Nat) (e : Ev) (t : List (Obs × Ev)) (hf : later m e = false) :
    recipients e t = recipients e (vis m t) := by
  simp only [recipients, vis, List.filter_filter]
  congr 1
  apply List.filter_congr
  intro d _
  by_cases h : d.2 = e
  · simp [h, hf]
  · simp [h]

theorem recipients_split (x : Ev) {s s1 s2 : St} {T t : List (Obs × Ev)} (h1 : s1.trace = s.trace ++ T)
    (h2 : s2.trace = s1.trace ++ t) :
    recipients x (newOf s s2) = recipients x T ++ recipients x (newOf s1 s2) := by
  rw [newOf_eq h2, ← recipients_append]
  congr 1
  apply newOf_eq
  rw [h2, h1, List.append_assoc]

/-- `Fresh e s`: `e` is not (a failure report about) an event that an observer has yet to publish — true of
    every application event, and of every event that was published by an observer before state `s` -/
abbrev Fresh (e : Ev) (s : St) : Prop := later s.next e = false

theorem fresh_app (k : Nat) (s : St) : Fresh (.app k) s := rfl
theorem fresh_sub (k : Nat) (s : St) (h : k < s.next) : Fresh (.sub k) s := by
  show later s.next (.sub k) = false
  rw [later_sub]; exact decide_eq_false (by omega)

/-- the main theorem for any re-entrancy handler that meets `ReOK` -/
theorem publishWith_once_in_order (pub : Reenter) (hp : ReOK pub) (beh : Beh) (e : Ev) (s : St) (hf : Fresh e s) :
    recipients e (newOf s (publishWith pub beh e s)) = s.main := by
  obtain ⟨_, T, hT, tail, hv, hb⟩ := publishWith_shape pub hp beh s.next e s hf (Nat.le_refl _)
  rw [newOf_eq hT, recipients_vis s.next e T hf, hv, recipients_append, recipients_map_self,
    recipients_none e tail (fun d hd => below_ne (hb d hd))]
  simp

/-- **Every observer gets every event exactly once, in registration order, whatever the observers do**
    (return, raise, add/remove observers — including themselves —, and publish further events through the
    same publisher, in any order and to any depth, while being called): during one call of the publisher
    with event `e`, the sequence of observers `e` is handed to is exactly the list of observers registered
    when the call started. -/
theorem every_observer_gets_every_event_once_in_order (beh : Beh) (fuel : Nat) (e : Ev) (s : St) (hf : Fresh e s) :
    recipients e ((publishMain beh fuel e s).trace.drop s.trace.length) = s.main :=
  publishWith_once_in_order (nested beh fuel) (nested_reOK beh fuel) beh e s hf

/-- with distinct registered observers: each of them receives `e` exactly once, nobody else does -/
theorem each_registered_observer_exactly_once (beh : Beh) (fuel : Nat) (e : Ev) (s : St) (hf : Fresh e s)
    (hnd : s.main.Nodup) (o : Obs) :
    (recipients e ((publishMain beh fuel e s).trace.drop s.trace.length)).count o = if o ∈ s.main then 1 else 0 := by
  rw [every_observer_gets_every_event_once_in_order beh fuel e s hf]
  exact hnd.count

/-- the model's re-entrant `publisher(event)` IS a call of the publisher under test (one level less fuel) -/
theorem reentrant_publish_is_publish (beh : Beh) (n : Nat) : nested beh (n + 1) = publishMain beh n := rfl

/-- **Re-entrant publishes deliver exactly once, in order, too**: when an observer — in the middle of any
    delivery, at any depth — publishes a new event through the publisher, that event goes exactly to the
    observers registered at that moment, once each, in registration order. -/
theorem reentrant_publish_once_in_order (beh : Beh) (n : Nat) (s : St) :
    recipients (.sub s.next) (newOf s (runCmd (nested beh (n + 1)) s .publish)) = s.main := by
  have := publishWith_once_in_order (nested beh n) (nested_reOK beh n) beh (.sub s.next)
    { s with next := s.next + 1 } (fresh_sub _ _ (Nat.lt_succ_self _))
  exact this

/-! ### failure reports -/

theorem recipients_report_other {b b' : Obs} {e : Ev} (F : List Obs) (t : List (Obs × Ev)) (hne : b' ≠ b)
    (ht : ∀ d ∈ t, below (.report b' e) d.2 = true) :
    recipients (.report b e) (F.map (fun o => (o, Ev.report b' e)) ++ t) = [] := by
  apply recipients_none
  intro d hd
  rcases List.mem_append.mp hd with h | h
  · obtain ⟨o, _, rfl⟩ := List.mem_map.mp h
    simp; intro hh; exact absurd hh hne
  · intro heq
    have := below_depth (ht d h)
    rw [heq] at this
    simp [depth] at this

theorem recipients_report_same {b : Obs} {e : Ev} (F : List Obs) (t : List (Obs × Ev))
    (ht : ∀ d ∈ t, below (.report b e) d.2 = true) :
    recipients (.report b e) (F.map (fun o => (o, Ev.report b e)) ++ t) = F := by
  rw [recipients_append, recipients_map_self, recipients_none _ t (fun d hd => below_ne (ht d hd))]
  simp

/-- who receives `report b e` during a publish of `report b' e` to the observers `F` -/
theorem Shape.recipients_report {m : Nat} {e : Ev} {b b' : Obs} {F : List Obs} {s s' : St} (hf : later m e = false)
    (h : Shape m (.report b' e) F s s') :
    recipients (.report b e) (newOf s s') = if b' = b then F else [] := by
  obtain ⟨_, T, hT, tail, hv, hb⟩ := h
  rw [newOf_eq hT, recipients_vis m _ T (by rw [later_report]; exact hf), hv]
  split
  · next h => subst h; exact recipients_report_same F tail hb
  · next h => exact recipients_report_other F tail h hb

/-- nobody receives `report b e` while `e` itself is being handed round -/
theorem recipients_report_deliveries (m : Nat) (e : Ev) (b : Obs) (hf : later m e = false) (os : List Obs)
    (T : List (Obs × Ev)) (hv : vis m T = os.map (fun o => (o, e))) : recipients (.report b e) T = [] := by
  rw [recipients_vis m _ T (by rw [later_report]; exact hf), hv]
  apply recipients_none
  intro d hd
  obtain ⟨o, _, rfl⟩ := List.mem_map.mp hd
  intro h
  have : depth e = depth (Ev.report b e) := by simp at h; rw [← h]
  simp [depth] at this

/-- the second loop of `__call__`, abstractly: a fold over the broken observers `bs` in which the step for
    `b`, from state `s`, is a publish of `report b e` to the observers `L s b`.  Then `report b e` is
    received, in order, by exactly `L sb b`, `sb` being the state in which that step started. -/
theorem fold_reports_general (m : Nat) (e : Ev) (hf : later m e = false) (f : St → Obs → St)
    (L : St → Obs → List Obs) (I : St → Prop) (bs : List Obs)
    (hstep : ∀ s, m ≤ s.next → ∀ b ∈ bs, I s → I (f s b) ∧ Shape m (.report b e) (L s b) s (f s b))
    (hnd : bs.Nodup) (s : St) (hm : m ≤ s.next) (hI : I s) (b : Obs) :
    I (bs.foldl f s) ∧ (s.next ≤ (bs.foldl f s).next ∧ ∃ t, (bs.foldl f s).trace = s.trace ++ t) ∧
      (if b ∈ bs then ∃ sb, I sb ∧ recipients (.report b e) (newOf s (bs.foldl f s)) = L sb b
       else recipients (.report b e) (newOf s (bs.foldl f s)) = []) := by
  induction bs generalizing s with
  | nil => simp [newOf, recipients]; exact hI
  | cons b' bs ih =>
    simp only [List.foldl_cons]
    obtain ⟨hI', hsh⟩ := hstep s hm b' (by simp) hI
    have hrep := Shape.recipients_report (b := b) hf hsh
    obtain ⟨n1, T1, hT1, -⟩ := hsh
    have hnd' : bs.Nodup := (List.nodup_cons.mp hnd).2
    have hb'bs : b' ∉ bs := (List.nodup_cons.mp hnd).1
    obtain ⟨hI2, ⟨n2, t2, ht2⟩, hrec⟩ :=
      ih (fun s hs b hb => hstep s hs b (by simp [hb])) hnd' (f s b') (Nat.le_trans hm n1) hI'
    refine ⟨hI2, ⟨Nat.le_trans n1 n2, T1 ++ t2, by rw [ht2, hT1, List.append_assoc]⟩, ?_⟩
    rw [newOf_eq hT1] at hrep
    rw [recipients_split _ hT1 ht2, hrep]
    by_cases hbb : b' = b
    · subst hbb
      simp only [hb'bs, if_false] at hrec
      rw [hrec]
      simp only [List.mem_cons, true_or, if_true, List.append_nil]
      exact ⟨s, hI, rfl⟩
    · have : (b ∈ b' :: bs) ↔ b ∈ bs := by simp [Ne.symm hbb]
      simp only [this, hbb, if_false, List.nil_append]
      exact hrec

/-- `fold_reports_general` when the recipients do not depend on the state -/
theorem fold_reports (m : Nat) (e : Ev) (hf : later m e = false) (f : St → Obs → St) (L : Obs → List Obs)
    (I : St → Prop) (bs : List Obs)
    (hstep : ∀ s, m ≤ s.next → ∀ b ∈ bs, I s → I (f s b) ∧ Shape m (.report b e) (L b) s (f s b))
    (hnd : bs.Nodup) (s : St) (hm : m ≤ s.next) (hI : I s) (b : Obs) :
    I (bs.foldl f s) ∧ (s.next ≤ (bs.foldl f s).next ∧ ∃ t, (bs.foldl f s).trace = s.trace ++ t) ∧
      recipients (.report b e) (newOf s (bs.foldl f s)) = if b ∈ bs then L b else [] := by
  obtain ⟨h1, h2, h3⟩ := fold_reports_general m e hf f (fun _ b => L b) I bs hstep hnd s hm hI b
  refine ⟨h1, h2, ?_⟩
  split
  · next h => simp only [h, if_true] at h3; obtain ⟨_, _, h⟩ := h3; exact h
  · next h => simp only [h, if_false] at h3; exact h3

/-- **Failures are reported to the other observers** (error publishers, i.e. every nesting level;
    no assumption on what observers do — they may re-enter the publisher under test, publishing included):
    if observer `b` of a publisher with distinct observers `obs` raised while handling `e`, the failure
    event `report b e` is delivered exactly to the observers `obs` without `b`, once each, in order — and
    never to `b`. -/
theorem failures_reported_to_others_nested (pub : Reenter) (hp : ReOK pub) (beh : Beh) (obs : List Obs) (e : Ev)
    (s : St) (hf : Fresh e s) (hnd : obs.Nodup)
    (b : Obs) (hb : b ∈ (deliverAll pub beh e obs s).2) :
    recipients (.report b e) (newOf s (publishErr pub beh obs e s)) = obs.filter (· != b) := by
  unfold publishErr
  cases hlen : obs.length with
  | zero =>
    have : obs = [] := List.length_eq_zero_iff.mp hlen
    subst this; simp [deliverAll] at hb
  | succ n =>
    rw [publishErrN_succ]
    have hbs := deliverAll_broken_sublist pub beh e obs s
    obtain ⟨n1, T, hT, hv⟩ := deliverAll_shape pub hp beh s.next e hf obs s (Nat.le_refl _)
    obtain ⟨_, ⟨_, t, ht⟩, hrec⟩ := fold_reports s.next e hf
      (fun s b => publishErrN pub beh n (obs.filter (· != b)) (.report b e) s)
      (fun b => obs.filter (· != b)) (fun _ => True) (deliverAll pub beh e obs s).2
      (fun s' hs' b' hb' _ => ⟨trivial, publishErrN_shape pub hp beh s.next n _ _ s' (by rw [later_report]; exact hf) hs' (by
          have := filter_ne_length_lt obs b' (hbs.subset hb'); omega)⟩)
      (hbs.nodup hnd) (deliverAll pub beh e obs s).1 n1 trivial b
    simp only [hb, if_true] at hrec
    rw [recipients_split _ hT ht, hrec, recipients_report_deliveries s.next e b hf obs T hv]
    simp

/-! ### what observers cannot break: invariants of the registration -/

/-- effect of one command on the registration, re-entrant publishes aside -/
def cmdMain (l : List Obs) : Cmd → List Obs
  | .remove o => removeObs l o
  | .add o => addObs l o
  | .publish => l

/-- `P` survives every `addObserver`/`removeObserver` the observers perform -/
def CmdsKeep (P : List Obs → Prop) (beh : Beh) : Prop :=
  ∀ o n ev, ∀ c ∈ (beh o n ev).cmds, ∀ l, P l → P (cmdMain l c)

/-- `P` survives a re-entrant publish -/
def ReKeeps (P : List Obs → Prop) (pub : Reenter) : Prop := ∀ e s, P s.main → P (pub e s).main

theorem foldl_inv {P : St → Prop} (f : St → Obs → St) (l : List Obs) (s : St)
    (h : ∀ s b, P s → P (f s b)) (hs : P s) : P (l.foldl f s) := by
  induction l generalizing s with
  | nil => exact hs
  | cons b bs ih => exact ih _ (h s b hs)

theorem runCmd_inv {P : List Obs → Prop} (pub : Reenter) (hpub : ReKeeps P pub) (s : St) (c : Cmd)
    (hc : ∀ l, P l → P (cmdMain l c)) (hs : P s.main) : P (runCmd pub s c).main := by
  cases c with
  | remove o => exact hc _ hs
  | add o => exact hc _ hs
  | publish => exact hpub _ _ hs

theorem callObs_inv {P : List Obs → Prop} (pub : Reenter) (hpub : ReKeeps P pub) (beh : Beh) (hc : CmdsKeep P beh)
    (o : Obs) (e : Ev) (s : St) (hs : P s.main) : P (callObs pub beh o e s).1.main := by
  simp only [callObs]
  have key : ∀ (cmds : List Cmd) (s : St), (∀ c ∈ cmds, ∀ l, P l → P (cmdMain l c)) → P s.main →
      P (cmds.foldl (runCmd pub) s).main := by
    intro cmds
    induction cmds with
    | nil => intro s _ h; exact h
    | cons c cs ih =>
      intro s hcs h
      simp only [List.foldl_cons]
      exact ih _ (fun c' hc' => hcs c' (by simp [hc'])) (runCmd_inv pub hpub s c (hcs c (by simp)) h)
  exact key _ _ (hc o _ e) hs

theorem deliverAll_inv {P : List Obs → Prop} (pub : Reenter) (hpub : ReKeeps P pub) (beh : Beh) (hc : CmdsKeep P beh)
    (e : Ev) (os : List Obs) (s : St) (hs : P s.main) : P (deliverAll pub beh e os s).1.main := by
  induction os generalizing s with
  | nil => exact hs
  | cons o os ih => exact ih _ (callObs_inv pub hpub beh hc o e s hs)

theorem publishErrN_inv {P : List Obs → Prop} (pub : Reenter) (hpub : ReKeeps P pub) (beh : Beh) (hc : CmdsKeep P beh)
    (n : Nat) (obs : List Obs) (e : Ev) (s : St) (hs : P s.main) : P (publishErrN pub beh n obs e s).main := by
  induction n generalizing obs e s with
  | zero => exact hs
  | succ n ih =>
    rw [publishErrN_succ]
    exact foldl_inv (P := fun s => P s.main) _ _ _ (fun s b h => ih _ _ _ h) (deliverAll_inv pub hpub beh hc e obs s hs)

theorem publishWith_inv {P : List Obs → Prop} (pub : Reenter) (hpub : ReKeeps P pub) (beh : Beh) (hc : CmdsKeep P beh)
    (e : Ev) (s : St) (hs : P s.main) : P (publishWith pub beh e s).main := by
  unfold publishWith reportMain
  exact foldl_inv (P := fun s => P s.main) _ _ _ (fun s b h => publishErrN_inv pub hpub beh hc _ _ _ s h)
    (deliverAll_inv pub hpub beh hc e s.main s hs)

theorem nested_keeps {P : List Obs → Prop} (beh : Beh) (hc : CmdsKeep P beh) (n : Nat) : ReKeeps P (nested beh n) := by
  induction n with
  | zero => intro e s h; exact h
  | succ n ih => intro e s h; exact publishWith_inv (nested beh n) ih beh hc e s h

theorem publishMain_inv {P : List Obs → Prop} (beh : Beh) (hc : CmdsKeep P beh) (fuel : Nat)
    (e : Ev) (s : St) (hs : P s.main) : P (publishMain beh fuel e s).main :=
  publishWith_inv (nested beh fuel) (nested_keeps beh hc fuel) beh hc e s hs

theorem addObs_nodup (l : List Obs) (o : Obs) (h : l.Nodup) : (addObs l o).Nodup := by
  unfold addObs
  split
  · exact h
  · next hm => exact List.nodup_append.mpr ⟨h, by simp, by intro a ha b hb; simp at hb; subst hb; intro hab; subst hab; exact hm ha⟩

theorem removeObs_nodup (l : List Obs) (o : Obs) (h : l.Nodup) : (removeObs l o).Nodup := h.erase o

theorem nodup_cmdsKeep (beh : Beh) : CmdsKeep List.Nodup beh := by
  intro o n ev c _ l h
  cases c with
  | remove x => exact removeObs_nodup _ _ h
  | add x => exact addObs_nodup _ _ h
  | publish => exact h

/-- **Registered observers stay distinct**: from a publisher built with distinct observers, no history
    of `addObserver` / `removeObserver` / events — with observers re-entering the publisher at will,
    publishing included — registers an observer twice.  (So "exactly once" is about every reachable state.) -/
theorem registered_observers_stay_distinct (beh : Beh) (fuel : Nat) (ops : List Op) (s : St) (h : s.main.Nodup) :
    (run beh fuel ops s).main.Nodup := by
  unfold run
  induction ops generalizing s with
  | nil => exact h
  | cons op ops ih =>
    simp only [List.foldl_cons]
    apply ih
    cases op with
    | add o => exact addObs_nodup _ _ h
    | remove o => exact removeObs_nodup _ _ h
    | emit k => exact publishMain_inv (P := List.Nodup) beh (nodup_cmdsKeep beh) fuel _ s h


/-! ### which observers are "broken"; observers that do not change the registration -/

/-- observers never publish re-entrantly (they may add and remove observers): the behaviours of round 1 -/
def NoPublish (beh : Beh) : Prop := ∀ o n ev, Cmd.publish ∉ (beh o n ev).cmds

theorem callObs_trace_noPublish (pub : Reenter) (beh : Beh) (hq : NoPublish beh) (o : Obs) (e : Ev) (s : St) :
    (callObs pub beh o e s).1.trace = s.trace ++ [(o, e)] := by
  simp only [callObs]
  have key : ∀ (cmds : List Cmd) (s : St), Cmd.publish ∉ cmds → (cmds.foldl (runCmd pub) s).trace = s.trace := by
    intro cmds
    induction cmds with
    | nil => intro s _; rfl
    | cons c cs ih =>
      intro s h
      simp only [List.foldl_cons]
      rw [ih _ (fun hc => h (by simp [hc]))]
      cases c with
      | remove x => rfl
      | add x => rfl
      | publish => exact absurd (by simp) h
  rw [key _ _ (hq o _ e)]

theorem calls_append_other (o o' : Obs) (e : Ev) (tr : List (Obs × Ev)) (h : o' ≠ o) :
    calls o' (tr ++ [(o, e)]) = calls o' tr := by
  simp [calls, List.countP_append, Ne.symm h]

/-- the broken observers of one call are exactly the registered observers whose behaviour for this
    call is to raise, in registration order (observers that do not publish re-entrantly: with re-entrant
    publishes an observer can be called — and use up a behaviour — before its turn) -/
theorem broken_eq_raisers (pub : Reenter) (beh : Beh) (hq : NoPublish beh) (e : Ev) (os : List Obs) (s : St)
    (hnd : os.Nodup) :
    (deliverAll pub beh e os s).2 = os.filter (fun o => (beh o (calls o s.trace) e).raises) := by
  induction os generalizing s with
  | nil => simp [deliverAll]
  | cons o os ih =>
    have ho : o ∉ os := (List.nodup_cons.mp hnd).1
    have hnd' := (List.nodup_cons.mp hnd).2
    have htail : (deliverAll pub beh e os (callObs pub beh o e s).1).2 =
        os.filter (fun o => (beh o (calls o s.trace) e).raises) := by
      rw [ih _ hnd']
      apply List.filter_congr
      intro o' ho'
      have : o' ≠ o := fun h => ho (h ▸ ho')
      rw [callObs_trace_noPublish pub beh hq, calls_append_other o o' e s.trace this]
    simp only [deliverAll, List.filter_cons, htail]
    simp only [callObs]
    split <;> simp_all

/-- observers never call `addObserver`/`removeObserver` while being called (they may publish re-entrantly) -/
def Quiet (beh : Beh) : Prop := ∀ o n ev, ∀ c ∈ (beh o n ev).cmds, c = Cmd.publish

theorem quiet_cmdsKeep (beh : Beh) (hq : Quiet beh) (L : List Obs) : CmdsKeep (· = L) beh := by
  intro o n ev c hc l h
  rw [hq o n ev c hc]; exact h

/-- **Failures are reported to the other observers** (the publisher under test, observers that do not
    change the registration — they may raise and publish re-entrantly): if the registered observer `b`
    raised while handling `e`, every other registered observer receives the failure event `report b e`
    exactly once, in registration order, and `b` does not. -/
theorem failures_reported_to_others (beh : Beh) (fuel : Nat) (hq : Quiet beh) (e : Ev) (s : St) (hf : Fresh e s)
    (hnd : s.main.Nodup) (b : Obs) (hb : b ∈ (deliverAll (nested beh fuel) beh e s.main s).2) :
    recipients (.report b e) (newOf s (publishMain beh fuel e s)) = s.main.filter (· != b) := by
  have hp := nested_reOK beh fuel
  have hc := quiet_cmdsKeep beh hq s.main
  have hk := nested_keeps (P := (· = s.main)) beh hc fuel
  have hbs := deliverAll_broken_sublist (nested beh fuel) beh e s.main s
  unfold publishMain publishWith reportMain
  obtain ⟨n1, T, hT, hv⟩ := deliverAll_shape (nested beh fuel) hp beh s.next e hf s.main s (Nat.le_refl _)
  obtain ⟨_, ⟨_, t, ht⟩, hrec⟩ := fold_reports s.next e hf
    (fun s b => publishErr (nested beh fuel) beh (s.main.filter (· != b)) (.report b e) s)
    (fun b => s.main.filter (· != b)) (fun x => x.main = s.main) (deliverAll (nested beh fuel) beh e s.main s).2
    (fun s' hs' b' _ hI => ⟨publishErrN_inv (P := (· = s.main)) (nested beh fuel) hk beh hc _ _ _ s' hI, by
        have := publishErr_shape (nested beh fuel) hp beh s.next (s'.main.filter (· != b')) (.report b' e) s'
          (by rw [later_report]; exact hf) hs'
        simp only [hI] at this ⊢; exact this⟩)
    (hbs.nodup hnd) (deliverAll (nested beh fuel) beh e s.main s).1 n1
    (deliverAll_inv (P := (· = s.main)) (nested beh fuel) hk beh hc e s.main s rfl) b
  simp only [hb, if_true] at hrec
  rw [recipients_split _ hT ht, hrec, recipients_report_deliveries s.next e b hf s.main T hv]
  simp

/-! ### failure reports when observers change the registration -/

/-- **Failures are reported to the other observers** (the publisher under test, observers free to call
    `addObserver`/`removeObserver` and to publish re-entrantly while being called): if the registered
    observer `b` raised while handling `e`, the failure event `report b e` is delivered exactly to the
    observers registered at the moment that failure is reported (state `sb`), without `b`: once each, in
    registration order, never to `b`. -/
theorem failures_reported_to_others_reentrant (beh : Beh) (fuel : Nat) (e : Ev) (s : St) (hf : Fresh e s)
    (hnd : s.main.Nodup) (b : Obs) (hb : b ∈ (deliverAll (nested beh fuel) beh e s.main s).2) :
    ∃ sb : St, sb.main.Nodup ∧
      recipients (.report b e) (newOf s (publishMain beh fuel e s)) = sb.main.filter (· != b) := by
  have hp := nested_reOK beh fuel
  have hc := nodup_cmdsKeep beh
  have hk := nested_keeps (P := List.Nodup) beh hc fuel
  have hbs := deliverAll_broken_sublist (nested beh fuel) beh e s.main s
  unfold publishMain publishWith reportMain
  obtain ⟨n1, T, hT, hv⟩ := deliverAll_shape (nested beh fuel) hp beh s.next e hf s.main s (Nat.le_refl _)
  obtain ⟨_, ⟨_, t, ht⟩, hrec⟩ := fold_reports_general s.next e hf
    (fun s b => publishErr (nested beh fuel) beh (s.main.filter (· != b)) (.report b e) s)
    (fun s b => s.main.filter (· != b)) (fun x => x.main.Nodup) (deliverAll (nested beh fuel) beh e s.main s).2
    (fun s' hs' b' _ hI => ⟨publishErrN_inv (P := List.Nodup) (nested beh fuel) hk beh hc _ _ _ s' hI,
        publishErr_shape (nested beh fuel) hp beh s.next _ (.report b' e) s' (by rw [later_report]; exact hf) hs'⟩)
    (hbs.nodup hnd) (deliverAll (nested beh fuel) beh e s.main s).1 n1
    (deliverAll_inv (P := List.Nodup) (nested beh fuel) hk beh hc e s.main s hnd) b
  simp only [hb, if_true] at hrec
  obtain ⟨sb, hsb, hrec⟩ := hrec
  refine ⟨sb, hsb, ?_⟩
  rw [recipients_split _ hT ht, hrec, recipients_report_deliveries s.next e b hf s.main T hv]
  simp

/-! ### the error recursion terminates -/

theorem foldl_congr_mem (f g : St → Obs → St) (l : List Obs) (s : St) (h : ∀ s, ∀ b ∈ l, f s b = g s b) :
    l.foldl f s = l.foldl g s := by
  induction l generalizing s with
  | nil => rfl
  | cons b bs ih =>
    simp only [List.foldl_cons]
    rw [h s b (by simp)]
    exact ih _ (fun s b' hb' => h s b' (by simp [hb']))

/-- the bound `n` of `publishErrN` is only a device: every bound that is at least the number of
    observers gives the same result, i.e. the recursion has bottomed out before the bound is used up -/
theorem publishErrN_fuel_irrelevant (pub : Reenter) (beh : Beh) (n m : Nat) : ∀ (obs : List Obs) (e : Ev) (s : St),
    obs.length ≤ n → obs.length ≤ m → publishErrN pub beh n obs e s = publishErrN pub beh m obs e s := by
  induction n generalizing m with
  | zero =>
    intro obs e s h _
    have : obs = [] := List.length_eq_zero_iff.mp (by omega)
    subst this
    cases m <;> simp [publishErrN, deliverAll]
  | succ n ih =>
    intro obs e s hn hm
    cases m with
    | zero =>
      have : obs = [] := List.length_eq_zero_iff.mp (by omega)
      subst this
      simp [publishErrN, deliverAll]
    | succ m =>
      rw [publishErrN_succ, publishErrN_succ]
      apply foldl_congr_mem
      intro s' b hb
      have := filter_ne_length_lt obs b (deliverAll_broken_mem pub beh e obs s b hb)
      exact ih m _ _ _ (by omega) (by omega)

/-!
The Python recursion of the error reporting itself, with no bound at all, as a big-step relation:
`Pub obs e s s'` — calling a `LogPublisher` whose observers are `obs` with event `e` in state `s`
returns, in state `s'`; `Rep obs e bs s s'` — its second loop over the remaining broken observers `bs`.
A derivation is a finite call tree, so `Pub … s s'` for some `s'` *is* termination of
`LogPublisher.__call__` (given that the observers' own calls — `pub` — return).
-/
mutual
inductive Pub (pub : Reenter) (beh : Beh) : List Obs → Ev → St → St → Prop
  | call (obs : List Obs) (e : Ev) (s s' : St) :
      Rep pub beh obs e (deliverAll pub beh e obs s).2 (deliverAll pub beh e obs s).1 s' → Pub pub beh obs e s s'
inductive Rep (pub : Reenter) (beh : Beh) : List Obs → Ev → List Obs → St → St → Prop
  | done (obs : List Obs) (e : Ev) (s : St) : Rep pub beh obs e [] s s
  | next (obs : List Obs) (e : Ev) (b : Obs) (bs : List Obs) (s s1 s2 : St) :
      Pub pub beh (obs.filter (· != b)) (.report b e) s s1 → Rep pub beh obs e bs s1 s2 → Rep pub beh obs e (b :: bs) s s2
end

theorem pub_of_publishErrN (pub : Reenter) (beh : Beh) (n : Nat) : ∀ (obs : List Obs) (e : Ev) (s : St), obs.length ≤ n →
    Pub pub beh obs e s (publishErrN pub beh n obs e s) := by
  induction n with
  | zero =>
    intro obs e s h
    have : obs = [] := List.length_eq_zero_iff.mp (by omega)
    subst this
    exact Pub.call _ _ _ _ (Rep.done _ _ _)
  | succ n ih =>
    intro obs e s h
    apply Pub.call
    rw [publishErrN_succ]
    have key : ∀ (bs : List Obs) (s1 : St), (∀ b ∈ bs, b ∈ obs) →
        Rep pub beh obs e bs s1 (bs.foldl (fun s b => publishErrN pub beh n (obs.filter (· != b)) (.report b e) s) s1) := by
      intro bs
      induction bs with
      | nil => intro s1 _; exact Rep.done _ _ _
      | cons b bs ihb =>
        intro s1 hmem
        simp only [List.foldl_cons]
        have := filter_ne_length_lt obs b (hmem b (by simp))
        exact Rep.next _ _ _ _ _ _ _ (ih _ _ s1 (by omega)) (ihb _ (fun b' hb' => hmem b' (by simp [hb'])))
    exact key _ _ (fun b hb => deliverAll_broken_mem pub beh e obs s b hb)

/-- **Error reporting terminates**: whatever the observers do — even if every observer raises on every
    event, failure reports included — a call of a publisher with observers `obs` returns (the call tree
    of the unbounded Python recursion is finite), and the state it returns in is the model's. -/
theorem error_reporting_terminates (pub : Reenter) (beh : Beh) (obs : List Obs) (e : Ev) (s : St) :
    Pub pub beh obs e s (publishErr pub beh obs e s) :=
  pub_of_publishErrN pub beh obs.length obs e s (Nat.le_refl _)

/-! ### the nesting bound is only a device -/

/-- `overflow`, once set, stays set -/
def Sticky (F : St → St) : Prop := ∀ s, s.overflow = true → (F s).overflow = true

/-- `Good F F'`: whenever `F` finishes without having hit the nesting bound, `F'` does exactly the same -/
def Good (F F' : St → St) : Prop := Sticky F ∧ ∀ s, (F s).overflow = false → F' s = F s

theorem Good.comp {F F' G G' : St → St} (h1 : Good F F') (h2 : Good G G') :
    Good (fun s => G (F s)) (fun s => G' (F' s)) := by
  refine ⟨fun s h => h2.1 _ (h1.1 s h), fun s h => ?_⟩
  have hF : (F s).overflow = false := by
    cases hf : (F s).overflow with
    | false => rfl
    | true =>
      have := h2.1 _ hf
      simp only [this] at h
      exact absurd h (by simp)
  show G' (F' s) = G (F s)
  rw [h1.2 s hF]
  exact h2.2 _ h

theorem Good.foldl {α : Type} (f f' : St → α → St) (l : List α)
    (h : ∀ b ∈ l, Good (fun s => f s b) (fun s => f' s b)) :
    Good (fun s => l.foldl f s) (fun s => l.foldl f' s) := by
  induction l with
  | nil => exact ⟨fun s h => h, fun s _ => rfl⟩
  | cons b bs ih =>
    simp only [List.foldl_cons]
    exact Good.comp (h b (by simp)) (ih (fun b' hb' => h b' (by simp [hb'])))

/-- the same for the observers' re-entrant `publisher(event)` -/
def GoodRe (pub pub' : Reenter) : Prop := ∀ e, Good (pub e) (pub' e)

theorem runCmd_good (pub pub' : Reenter) (hre : GoodRe pub pub') (c : Cmd) :
    Good (fun s => runCmd pub s c) (fun s => runCmd pub' s c) := by
  cases c with
  | remove o => exact ⟨fun s h => h, fun s _ => rfl⟩
  | add o => exact ⟨fun s h => h, fun s _ => rfl⟩
  | publish =>
    exact ⟨fun s h => (hre (.sub s.next)).1 { s with next := s.next + 1 } h,
      fun s h => (hre (.sub s.next)).2 { s with next := s.next + 1 } h⟩

theorem callObs_raises_eq (pub pub' : Reenter) (beh : Beh) (o : Obs) (e : Ev) (s : St) :
    (callObs pub' beh o e s).2 = (callObs pub beh o e s).2 := rfl

theorem callObs_good (pub pub' : Reenter) (hre : GoodRe pub pub') (beh : Beh) (o : Obs) (e : Ev) :
    Good (fun s => (callObs pub beh o e s).1) (fun s => (callObs pub' beh o e s).1) := by
  refine ⟨fun s h => ?_, fun s h => ?_⟩
  · exact (Good.foldl _ _ (beh o (calls o s.trace) e).cmds (fun c _ => runCmd_good pub pub' hre c)).1
      { s with trace := s.trace ++ [(o, e)] } h
  · exact (Good.foldl _ _ (beh o (calls o s.trace) e).cmds (fun c _ => runCmd_good pub pub' hre c)).2
      { s with trace := s.trace ++ [(o, e)] } h

theorem deliverAll_sticky (pub pub' : Reenter) (hre : GoodRe pub pub') (beh : Beh) (e : Ev) (os : List Obs) :
    Sticky (fun s => (deliverAll pub beh e os s).1) := by
  induction os with
  | nil => exact fun s h => h
  | cons o os ih => exact fun s h => ih _ ((callObs_good pub pub' hre beh o e).1 s h)

theorem deliverAll_agree (pub pub' : Reenter) (hre : GoodRe pub pub') (beh : Beh) (e : Ev) (os : List Obs) (s : St)
    (h : (deliverAll pub beh e os s).1.overflow = false) : deliverAll pub' beh e os s = deliverAll pub beh e os s := by
  induction os generalizing s with
  | nil => rfl
  | cons o os ih =>
    simp only [deliverAll] at h ⊢
    have h1 : (callObs pub beh o e s).1.overflow = false := by
      cases hf : (callObs pub beh o e s).1.overflow with
      | false => rfl
      | true =>
        have := deliverAll_sticky pub pub' hre beh e os _ hf
        simp only [this] at h
        exact absurd h (by simp)
    have h2 : (callObs pub' beh o e s).1 = (callObs pub beh o e s).1 := (callObs_good pub pub' hre beh o e).2 s h1
    rw [h2, ih _ h, callObs_raises_eq]

theorem publishErrN_good (pub pub' : Reenter) (hre : GoodRe pub pub') (beh : Beh) (n : Nat) :
    ∀ (obs : List Obs) (e : Ev), Good (publishErrN pub beh n obs e) (publishErrN pub' beh n obs e) := by
  induction n with
  | zero => intro obs e; exact ⟨fun s h => h, fun s _ => rfl⟩
  | succ n ih =>
    intro obs e
    have hfold := fun (bs : List Obs) => Good.foldl
      (fun s b => publishErrN pub beh n (obs.filter (· != b)) (.report b e) s)
      (fun s b => publishErrN pub' beh n (obs.filter (· != b)) (.report b e) s) bs (fun b _ => ih _ _)
    refine ⟨fun s h => ?_, fun s h => ?_⟩
    · rw [publishErrN_succ]
      exact (hfold _).1 _ (deliverAll_sticky pub pub' hre beh e obs s h)
    · rw [publishErrN_succ] at h ⊢
      rw [publishErrN_succ]
      have h1 : (deliverAll pub beh e obs s).1.overflow = false := by
        cases hf : (deliverAll pub beh e obs s).1.overflow with
        | false => rfl
        | true =>
          have := (hfold (deliverAll pub beh e obs s).2).1 _ hf
          simp only [this] at h
          exact absurd h (by simp)
      rw [deliverAll_agree pub pub' hre beh e obs s h1]
      exact (hfold _).2 _ h

theorem publishWith_good (pub pub' : Reenter) (hre : GoodRe pub pub') (beh : Beh) (e : Ev) :
    Good (publishWith pub beh e) (publishWith pub' beh e) := by
  have hfold := fun (bs : List Obs) => Good.foldl
    (fun s b => publishErr pub beh (s.main.filter (· != b)) (.report b e) s)
    (fun s b => publishErr pub' beh (s.main.filter (· != b)) (.report b e) s) bs
    (fun b _ => ⟨fun s h => (publishErrN_good pub pub' hre beh _ _ _).1 s h,
                 fun s h => (publishErrN_good pub pub' hre beh _ _ _).2 s h⟩)
  refine ⟨fun s h => ?_, fun s h => ?_⟩
  · unfold publishWith reportMain
    exact (hfold _).1 _ (deliverAll_sticky pub pub' hre beh e s.main s h)
  · unfold publishWith reportMain at h ⊢
    have h1 : (deliverAll pub beh e s.main s).1.overflow = false := by
      cases hf : (deliverAll pub beh e s.main s).1.overflow with
      | false => rfl
      | true =>
        have := (hfold (deliverAll pub beh e s.main s).2).1 _ hf
        simp only [this] at h
        exact absurd h (by simp)
    rw [deliverAll_agree pub pub' hre beh e s.main s h1]
    exact (hfold _).2 _ h

theorem nested_good (beh : Beh) (n : Nat) : ∀ m, n ≤ m → GoodRe (nested beh n) (nested beh m) := by
  induction n with
  | zero =>
    intro m _ e
    exact ⟨fun s _ => rfl, fun s h => by simp [nested] at h⟩
  | succ n ih =>
    intro m hm e
    cases m with
    | zero => omega
    | succ m => exact publishWith_good (nested beh n) (nested beh m) (ih m (by omega)) beh e

/-- **The nesting bound is only a device**: a call of the publisher that returns without having hit the
    bound `n` on re-entrant publishes (`overflow` not set) is the same for every larger bound. -/
theorem publishMain_fuel_irrelevant (beh : Beh) (n m : Nat) (hnm : n ≤ m) (e : Ev) (s : St)
    (h : (publishMain beh n e s).overflow = false) : publishMain beh m e s = publishMain beh n e s :=
  (publishWith_good (nested beh n) (nested beh m) (nested_good beh n m hnm) beh e).2 s h

/-- the same for whole histories: a run that ends with `overflow` not set — which is what the driver
    checks before it answers — does not depend on the bound -/
theorem run_fuel_irrelevant (beh : Beh) (n m : Nat) (hnm : n ≤ m) (ops : List Op) (s : St)
    (h : (run beh n ops s).overflow = false) : run beh m ops s = run beh n ops s := by
  have hstep : ∀ op ∈ ops, Good (fun s => step beh n s op) (fun s => step beh m s op) := by
    intro op _
    cases op with
    | add o => exact ⟨fun s h => h, fun s _ => rfl⟩
    | remove o => exact ⟨fun s h => h, fun s _ => rfl⟩
    | emit k => exact publishWith_good (nested beh n) (nested beh m) (nested_good beh n m hnm) beh (.app k)
  exact (Good.foldl (step beh n) (step beh m) ops hstep).2 s h

/-- a cut-off is never silent: once the bound has been hit, `overflow` stays set to the end of the run -/
theorem overflow_sticky (beh : Beh) (n : Nat) (ops : List Op) (s : St) (h : s.overflow = true) :
    (run beh n ops s).overflow = true := by
  have hstep : ∀ op ∈ ops, Good (fun s => step beh n s op) (fun s => step beh n s op) := by
    intro op _
    cases op with
    | add o => exact ⟨fun s h => h, fun s _ => rfl⟩
    | remove o => exact ⟨fun s h => h, fun s _ => rfl⟩
    | emit k => exact publishWith_good (nested beh n) (nested beh n) (nested_good beh n n (Nat.le_refl _)) beh (.app k)
  exact (Good.foldl (step beh n) (step beh n) ops hstep).1 s h

/-! ### histories -/

def isApp : Ev → Bool
  | .app _ => true
  | _ => false

/-- the deliveries of application events (not failure reports, not events published by observers) in a trace -/
def appOnly (tr : List (Obs × Ev)) : List (Obs × Ev) := tr.filter (fun d => isApp d.2)

/-- what the property demands of a history: each emitted event goes, in registration order, to the
    observers registered at that moment -/
def expected (beh : Beh) (fuel : Nat) : List Op → St → List (Obs × Ev)
  | [], _ => []
  | .emit k :: ops, s => s.main.map (fun o => (o, Ev.app k)) ++ expected beh fuel ops (step beh fuel s (.emit k))
  | .add o :: ops, s => expected beh fuel ops (step beh fuel s (.add o))
  | .remove o :: ops, s => expected beh fuel ops (step beh fuel s (.remove o))

theorem below_not_app {e d : Ev} (h : below e d = true) : isApp d = false := by
  cases d with
  | app k => simp [below] at h
  | sub k => rfl
  | report b c => rfl

theorem appOnly_vis (m : Nat) (t : List (Obs × Ev)) : appOnly t = appOnly (vis m t) := by
  simp only [appOnly, vis, List.filter_filter]
  apply List.filter_congr
  intro d _
  rcases d with ⟨o, ev⟩
  cases ev with
  | app k => simp [isApp, later_app]
  | sub k => simp [isApp]
  | report b c => simp [isApp]

/-- **Histories**: over any sequence of `addObserver` / `removeObserver` / events and any observer
    behaviour (re-entrant publishing included), the application events are delivered exactly as demanded —
    every event once to each observer registered when it is emitted, in registration order, and to nobody
    else, ever. -/
theorem history_every_event_once_in_order (beh : Beh) (fuel : Nat) (ops : List Op) (s : St) :
    appOnly (run beh fuel ops s).trace = appOnly s.trace ++ expected beh fuel ops s := by
  unfold run
  induction ops generalizing s with
  | nil => simp [expected]
  | cons op ops ih =>
    simp only [List.foldl_cons]
    rw [ih]
    cases op with
    | add o => simp [expected, step]
    | remove o => simp [expected, step]
    | emit k =>
      obtain ⟨_, T, hT, tail, hv, hb⟩ := publishWith_shape (nested beh fuel) (nested_reOK beh fuel) beh s.next (.app k) s
        rfl (Nat.le_refl _)
      have ht0 : appOnly tail = [] := by
        simp only [appOnly, List.filter_eq_nil_iff]
        intro d hd; simp [below_not_app (hb d hd)]
      have hm : appOnly (s.main.map fun o => (o, Ev.app k)) = s.main.map fun o => (o, Ev.app k) := by
        simp only [appOnly, List.filter_eq_self]
        intro d hd
        obtain ⟨o, _, rfl⟩ := List.mem_map.mp hd
        rfl
      have hT' : appOnly T = s.main.map fun o => (o, Ev.app k) := by
        rw [appOnly_vis s.next T, hv]
        simp only [appOnly, List.filter_append] at ht0 hm ⊢
        rw [ht0, hm]; simp
      simp only [expected, step, publishMain]
      rw [hT]
      simp only [appOnly, List.filter_append] at hT' ⊢
      rw [hT']
      simp

/-! ### non-vacuity, and the code before the repair -/

/-- three observers, 0 and 2 raise on their first call -/
def demoBeh : Beh := fun o n _ => if (o = 0 ∨ o = 2) ∧ n = 0 then { raises := true } else {}

example : (publishMain demoBeh 3 (.app 7) { main := [0, 1, 2], trace := [] }).trace =
    [(0, .app 7), (1, .app 7), (2, .app 7),
     (1, .report 0 (.app 7)), (2, .report 0 (.app 7)),
     (0, .report 2 (.app 7)), (1, .report 2 (.app 7))] := by decide

example : recipients (.app 7) ((publishMain demoBeh 3 (.app 7) { main := [0, 1, 2], trace := [] }).trace.drop 0) = [0, 1, 2] :=
  every_observer_gets_every_event_once_in_order demoBeh 3 (.app 7) { main := [0, 1, 2], trace := [] } rfl

example : (0 : Obs) ∈ (deliverAll (nested demoBeh 3) demoBeh (.app 7) [0, 1, 2] { main := [0, 1, 2], trace := [] }).2 := by decide
example : Quiet demoBeh := by intro o n ev; unfold demoBeh; split <;> simp
example : NoPublish demoBeh := by intro o n ev; unfold demoBeh; split <;> simp

/-- every observer raises on everything: the recursion still ends (3 + 3·2 + 3·2·1 deliveries) -/
example : (publishMain (fun _ _ _ => { raises := true }) 0 (.app 0) { main := [0, 1, 2], trace := [] }).trace.length = 15 := by decide

/-- observer 0 removes itself while being called (a one-shot observer) -/
def oneShot : Beh := fun o n _ => if o = 0 ∧ n = 0 then { cmds := [.remove 0] } else {}

/-- the repaired code: observer 1 still gets the event -/
example : (publishMain oneShot 1 (.app 0) { main := [0, 1], trace := [] }).trace = [(0, .app 0), (1, .app 0)] := by decide

/-- observer 0, on its first call, removes observer 1, adds observer 2, and raises -/
def reentrant : Beh := fun o n _ =>
  if o = 0 ∧ n = 0 then { cmds := [.remove 1, .add 2], raises := true } else {}

/-- observer 1 still gets the event (snapshot); the failure goes to whoever is registered then: observer 2 -/
example : (publishMain reentrant 1 (.app 0) { main := [0, 1], trace := [] }).trace =
    [(0, .app 0), (1, .app 0), (2, .report 0 (.app 0))] := by decide

/-- observers first(0), chatty(1), oneShot(2), last(3): chatty publishes another event through the
    publisher when it sees the outer event; oneShot unregisters itself when it sees the outer event —
    i.e. after chatty's nested publish has returned, while the outer event is still being handed round -/
def chattyOneShot : Beh := fun o _ ev =>
  if o = 1 ∧ ev = .app 0 then { cmds := [.publish] }
  else if o = 2 ∧ ev = .app 0 then { cmds := [.remove 2] } else {}

/-- the nested event goes to all four in order, in the middle of the outer delivery; the outer event still
    reaches `last` after the one-shot observer has gone -/
example : (publishMain chattyOneShot 1 (.app 0) { main := [0, 1, 2, 3], trace := [] }).trace =
    [(0, .app 0), (1, .app 0), (0, .sub 0), (1, .sub 0), (2, .sub 0), (3, .sub 0), (2, .app 0), (3, .app 0)] := by decide

example : (publishMain chattyOneShot 1 (.app 0) { main := [0, 1, 2, 3], trace := [] }).main = [0, 1, 3] := by decide
example : (publishMain chattyOneShot 1 (.app 0) { main := [0, 1, 2, 3], trace := [] }).overflow = false := by decide

/-- … so the same happens for every larger bound on the re-entrancy depth -/
example (m : Nat) (h : 1 ≤ m) : (publishMain chattyOneShot m (.app 0) { main := [0, 1, 2, 3], trace := [] }).main = [0, 1, 3] := by
  rw [publishMain_fuel_irrelevant chattyOneShot 1 m h _ _ (by decide)]; decide

/-- publishing, then unregistering itself, then raising — and the observer after it publishes from the
    failure report it receives -/
def busy : Beh := fun o n ev =>
  if o = 0 ∧ n = 0 then { cmds := [.publish, .remove 0], raises := true }
  else if o = 1 ∧ ev = .report 0 (.app 0) then { cmds := [.publish, .add 0] } else {}

example : (publishMain busy 2 (.app 0) { main := [0, 1], trace := [] }).trace =
    [(0, .app 0), (0, .sub 0), (1, .sub 0), (1, .app 0), (1, .report 0 (.app 0)), (1, .sub 1)] := by decide

example : recipients (.app 0) ((publishMain busy 2 (.app 0) { main := [0, 1], trace := [] }).trace.drop 0) = [0, 1] :=
  every_observer_gets_every_event_once_in_order busy 2 (.app 0) { main := [0, 1], trace := [] } rfl

/-- **The code before the repair** (`for observer in self._observers` over the live list) violated the
    property: the observer registered after a self-removing observer never received the event. -/
theorem live_iteration_counterexample :
    recipients (.app 0) ((publishMainLive oneShot 100 (.app 0) { main := [0, 1], trace := [] }).trace.drop 0) ≠ [0, 1] := by decide

end Publisher

section Filter
open Twisted.Log.Filter

/-! ## LogLevelFilterPredicate / FilteringLogObserver -/

theorem splitDot_ne_nil (s : Text) : splitDot s ≠ [] := by
  cases s with
  | nil => simp [splitDot]
  | cons c cs =>
    simp only [splitDot]
    split
    · simp
    · split <;> simp

theorem splitDot_cons_dot (cs : Text) : splitDot ('.' :: cs) = [] :: splitDot cs := by
  simp [splitDot]

theorem splitDot_cons_other (c : Char) (cs : Text) (h : c ≠ '.') :
    ∃ s ss, splitDot cs = s :: ss ∧ splitDot (c :: cs) = (c :: s) :: ss := by
  cases hs : splitDot cs with
  | nil => exact absurd hs (splitDot_ne_nil cs)
  | cons s ss => exact ⟨s, ss, rfl, by simp [splitDot, h, hs]⟩

theorem joinDot_cons_cons (c : Char) (s : Text) (ss : List Text) :
    joinDot ((c :: s) :: ss) = c :: joinDot (s :: ss) := by
  cases ss <;> simp [joinDot]

/-- `".".join(s.split(".")) == s` -/
theorem joinDot_splitDot (s : Text) : joinDot (splitDot s) = s := by
  induction s with
  | nil => simp [splitDot, joinDot]
  | cons c cs ih =>
    by_cases h : c = '.'
    · subst h
      rw [splitDot_cons_dot]
      cases hs : splitDot cs with
      | nil => exact absurd hs (splitDot_ne_nil cs)
      | cons t ts => rw [hs] at ih; simp [joinDot, ih]
    · obtain ⟨s, ss, h1, h2⟩ := splitDot_cons_other c cs h
      rw [h2, joinDot_cons_cons, ← h1, ih]

theorem splitDot_append_dot (a b : Text) : splitDot (a ++ '.' :: b) = splitDot a ++ splitDot b := by
  induction a with
  | nil => simp [splitDot]
  | cons c a ih =>
    by_cases h : c = '.'
    · subst h
      simp only [List.cons_append, splitDot_cons_dot, ih]
    · obtain ⟨s, ss, h1, h2⟩ := splitDot_cons_other c a h
      obtain ⟨s', ss', h1', h2'⟩ := splitDot_cons_other c (a ++ '.' :: b) h
      simp only [List.cons_append]
      rw [h2', h2]
      rw [ih, h1] at h1'
      simp only [List.cons_append, List.cons.injEq] at h1'
      rw [← h1'.1, ← h1'.2]
      simp

theorem joinDot_append (a b : List Text) (ha : a ≠ []) (hb : b ≠ []) :
    joinDot (a ++ b) = joinDot a ++ '.' :: joinDot b := by
  induction a with
  | nil => exact absurd rfl ha
  | cons x xs ih =>
    cases xs with
    | nil =>
      cases b with
      | nil => exact absurd rfl hb
      | cons t ts => simp [joinDot]
    | cons y ys =>
      have := ih (by simp)
      simp only [List.cons_append] at this ⊢
      simp [joinDot, this]

/-- `k` is the namespace itself or one of its ancestors in the dotted hierarchy -/
def DottedPrefix (k ns : Text) : Prop := k = ns ∨ (k ++ ['.']) <+: ns

/-- the candidates the walk looks at: `".".join(segments[:i])` -/
def cand (ns : Text) (i : Nat) : Text := joinDot ((splitDot ns).take i)

theorem cand_full (ns : Text) : cand ns (splitDot ns).length = ns := by
  simp [cand, joinDot_splitDot]

theorem cand_lt (ns : Text) (i j : Nat) (hi : 1 ≤ i) (hij : i < j) (hj : j ≤ (splitDot ns).length) :
    ∃ rest, cand ns j = cand ns i ++ '.' :: rest := by
  have h1 : (splitDot ns).take j = (splitDot ns).take i ++ ((splitDot ns).take j).drop i := by
    have := List.take_append_drop i ((splitDot ns).take j)
    rw [List.take_take, Nat.min_eq_left (by omega)] at this
    exact this.symm
  have ha : (splitDot ns).take i ≠ [] := by
    intro h
    have := congrArg List.length h
    rw [List.length_take, Nat.min_eq_left (by omega)] at this
    simp at this; omega
  have hb : ((splitDot ns).take j).drop i ≠ [] := by
    intro h
    have := congrArg List.length h
    rw [List.length_drop, List.length_take, Nat.min_eq_left hj] at this
    simp at this; omega
  refine ⟨joinDot (((splitDot ns).take j).drop i), ?_⟩
  unfold cand
  rw [h1, joinDot_append _ _ ha hb, ← h1]

theorem cand_length_lt (ns : Text) (i j : Nat) (hi : 1 ≤ i) (hij : i < j) (hj : j ≤ (splitDot ns).length) :
    (cand ns i).length < (cand ns j).length := by
  obtain ⟨rest, h⟩ := cand_lt ns i j hi hij hj
  rw [h]; simp

theorem cand_dottedPrefix (ns : Text) (i : Nat) (hi : 1 ≤ i) (hl : i ≤ (splitDot ns).length) :
    DottedPrefix (cand ns i) ns := by
  by_cases h : i = (splitDot ns).length
  · left; rw [h, cand_full]
  · right
    obtain ⟨rest, hr⟩ := cand_lt ns i (splitDot ns).length hi (by omega) (Nat.le_refl _)
    rw [cand_full] at hr
    exact ⟨rest, by simpa using hr.symm⟩

theorem dottedPrefix_is_cand (k ns : Text) (h : DottedPrefix k ns) :
    ∃ i, 1 ≤ i ∧ i ≤ (splitDot ns).length ∧ k = cand ns i := by
  have hpos : 1 ≤ (splitDot ns).length := by
    have := splitDot_ne_nil ns
    cases hs : splitDot ns with
    | nil => exact absurd hs this
    | cons _ _ => simp
  rcases h with h | ⟨rest, h⟩
  · exact ⟨_, hpos, Nat.le_refl _, by rw [cand_full, h]⟩
  · have hsplit : splitDot ns = splitDot k ++ splitDot rest := by
      rw [← h]; simp only [List.append_assoc, List.cons_append, List.nil_append]
      exact splitDot_append_dot k rest
    have hk : 1 ≤ (splitDot k).length := by
      have := splitDot_ne_nil k
      cases hs : splitDot k with
      | nil => exact absurd hs this
      | cons _ _ => simp
    refine ⟨(splitDot k).length, hk, by rw [hsplit]; simp, ?_⟩
    unfold cand
    rw [hsplit, List.take_left, joinDot_splitDot]

/-- what `walk` returns: the first hit going down from `i`, or the default -/
theorem walk_spec (c : LevelCfg) (ns : Text) (i : Nat) :
    (∃ j, 1 ≤ j ∧ j ≤ i ∧ c.find (cand ns j) = some (walk c (splitDot ns) i) ∧
        ∀ j', j < j' → j' ≤ i → c.find (cand ns j') = none) ∨
    (walk c (splitDot ns) i = c.dflt ∧ ∀ j, 1 ≤ j → j ≤ i → c.find (cand ns j) = none) := by
  induction i with
  | zero => right; exact ⟨rfl, fun j h1 h2 => by omega⟩
  | succ i ih =>
    simp only [walk]
    cases hf : c.find (joinDot ((splitDot ns).take (i + 1))) with
    | some l =>
      left
      exact ⟨i + 1, by omega, Nat.le_refl _, by simpa [cand] using hf, fun j' h1 h2 => by omega⟩
    | none =>
      simp only
      rcases ih with ⟨j, h1, h2, h3, h4⟩ | ⟨h1, h2⟩
      · left
        refine ⟨j, h1, by omega, h3, fun j' hj1 hj2 => ?_⟩
        by_cases hj : j' = i + 1
        · subst hj; simpa [cand] using hf
        · exact h4 j' hj1 (by omega)
      · right
        refine ⟨h1, fun j hj1 hj2 => ?_⟩
        by_cases hj : j = i + 1
        · subst hj; simpa [cand] using hf
        · exact h2 j hj1 (by omega)

/-- `Governs c ns lv`: by the hierarchy rule the configuration `c` assigns level `lv` to namespace `ns` —
    the level configured for the longest configured namespace that is `ns` or a dotted ancestor of it,
    or the default level if no configured namespace is. -/
inductive Governs (c : LevelCfg) (ns : Text) : Nat → Prop
  | configured (k : Text) (l : Nat) : k ≠ [] → c.levels.lookup k = some l → DottedPrefix k ns →
      (∀ k' l', k' ≠ [] → c.levels.lookup k' = some l' → DottedPrefix k' ns → k'.length ≤ k.length) →
      Governs c ns l
  | default : (∀ k' l', k' ≠ [] → c.levels.lookup k' = some l' → ¬ DottedPrefix k' ns) → Governs c ns c.dflt

theorem find_nonempty (c : LevelCfg) (k : Text) (h : k ≠ []) : c.find k = c.levels.lookup k := by
  simp [LevelCfg.find, h]

/-- **`logLevelForNamespace` honours the hierarchy**: for every configuration and every non-empty
    namespace it returns the level of the most specific configured dotted prefix, or the default. -/
theorem levelFor_eq_most_specific_prefix (c : LevelCfg) (ns : Text) (lv : Nat) (hns : ns ≠ [])
    (hg : Governs c ns lv) : levelFor c ns = lv := by
  have hL : 1 ≤ (splitDot ns).length := by
    have := splitDot_ne_nil ns
    cases hs : splitDot ns with
    | nil => exact absurd hs this
    | cons _ _ => simp
  unfold levelFor
  simp only [hns, if_false]
  cases hg with
  | configured k _ hk hlook hpre hmax =>
    obtain ⟨i0, hi1, hi2, hki⟩ := dottedPrefix_is_cand k ns hpre
    have hfk : c.find (cand ns i0) = some lv := by rw [← hki, find_nonempty c k hk, hlook]
    by_cases hfull : i0 = (splitDot ns).length
    · rw [hfull, cand_full] at hfk
      simp [hfk]
    · have hlt : k.length < ns.length := by
        have := cand_length_lt ns i0 (splitDot ns).length hi1 (by omega) (Nat.le_refl _)
        rw [cand_full, ← hki] at this; exact this
      cases hfn : c.find ns with
      | some l'' =>
        rw [find_nonempty c ns hns] at hfn
        have := hmax ns l'' hns hfn (Or.inl rfl)
        omega
      | none =>
        simp only
        rcases walk_spec c ns ((splitDot ns).length - 1) with ⟨j, h1, h2, h3, h4⟩ | ⟨_, h2⟩
        · by_cases hj : j = i0
          · subst hj; rw [hfk] at h3; exact (Option.some.inj h3).symm
          · by_cases hjlt : j < i0
            · have := h4 i0 hjlt (by omega)
              rw [hfk] at this; exact absurd this (by simp)
            · have hlen := cand_length_lt ns i0 j hi1 (by omega) (by omega)
              have hne : cand ns j ≠ [] := by intro h; rw [h] at hlen; simp at hlen
              rw [find_nonempty c _ hne] at h3
              have := hmax _ _ hne h3 (cand_dottedPrefix ns j h1 (by omega))
              rw [hki] at this; omega
        · have := h2 i0 hi1 (by omega)
          rw [hfk] at this; exact absurd this (by simp)
  | default hnone =>
    cases hfn : c.find ns with
    | some l'' =>
      rw [find_nonempty c ns hns] at hfn
      exact absurd (Or.inl rfl) (hnone ns l'' hns hfn)
    | none =>
      simp only
      rcases walk_spec c ns ((splitDot ns).length - 1) with ⟨j, h1, h2, h3, _⟩ | ⟨h1, _⟩
      · by_cases hne : cand ns j = []
        · rw [hne] at h3
          simp [LevelCfg.find] at h3
          exact h3.symm
        · rw [find_nonempty c _ hne] at h3
          exact absurd (cand_dottedPrefix ns j h1 (by omega)) (hnone _ _ hne h3)
      · exact h1


theorem dottedPrefix_length_le {k ns : Text} (h : DottedPrefix k ns) : k.length ≤ ns.length := by
  rcases h with h | ⟨rest, h⟩
  · rw [h]; exact Nat.le_refl _
  · rw [← h]; simp

/-- the hierarchy rule always assigns a level: `Governs` is total -/
theorem governs_total (c : LevelCfg) (ns : Text) : ∃ lv, Governs c ns lv := by
  by_cases hex : ∃ k l, k ≠ [] ∧ c.levels.lookup k = some l ∧ DottedPrefix k ns
  · obtain ⟨k, l, hk, hl, hp⟩ := hex
    -- climb to a longest configured dotted prefix
    have climb : ∀ n (k : Text) (l : Nat), k ≠ [] → c.levels.lookup k = some l → DottedPrefix k ns →
        ns.length - k.length ≤ n → ∃ lv, Governs c ns lv := by
      intro n
      induction n with
      | zero =>
        intro k l hk hl hp hn
        refine ⟨l, Governs.configured k l hk hl hp (fun k' l' _ _ hp' => ?_)⟩
        have := dottedPrefix_length_le hp'
        have := dottedPrefix_length_le hp
        omega
      | succ n ih =>
        intro k l hk hl hp hn
        by_cases hmax : ∀ k' l', k' ≠ [] → c.levels.lookup k' = some l' → DottedPrefix k' ns → k'.length ≤ k.length
        · exact ⟨l, Governs.configured k l hk hl hp hmax⟩
        · have ⟨k', hk'⟩ := Classical.not_forall.mp hmax
          have ⟨l', hl'⟩ := Classical.not_forall.mp hk'
          have h1 : k' ≠ [] := Classical.byContradiction fun h => hl' (fun h' => absurd h' h)
          have h2 : c.levels.lookup k' = some l' := Classical.byContradiction fun h => hl' (fun _ h' => absurd h' h)
          have h3 : DottedPrefix k' ns := Classical.byContradiction fun h => hl' (fun _ _ h' => absurd h' h)
          have h4 : ¬ k'.length ≤ k.length := fun h => hl' (fun _ _ _ => h)
          have := dottedPrefix_length_le h3
          exact ih k' l' h1 h2 h3 (by omega)
    exact climb _ k l hk hl hp (Nat.le_refl _)
  · exact ⟨c.dflt, Governs.default (fun k' l' h1 h2 h3 => hex ⟨k', l', h1, h2, h3⟩)⟩

/-- … and the level it assigns is the one `logLevelForNamespace` returns (so it is unique) -/
theorem levelFor_governs (c : LevelCfg) (ns : Text) (hns : ns ≠ []) : Governs c ns (levelFor c ns) := by
  obtain ⟨lv, h⟩ := governs_total c ns
  rw [levelFor_eq_most_specific_prefix c ns lv hns h]; exact h

theorem governs_unique (c : LevelCfg) (ns : Text) (hns : ns ≠ []) (a b : Nat)
    (ha : Governs c ns a) (hb : Governs c ns b) : a = b := by
  rw [← levelFor_eq_most_specific_prefix c ns a hns ha, ← levelFor_eq_most_specific_prefix c ns b hns hb]

/-- the empty namespace is the default namespace -/
theorem levelFor_empty (c : LevelCfg) : levelFor c [] = c.dflt := by simp [levelFor]

/-- **A level filter passes an event exactly when its level is at least the level configured for the
    most specific configured dotted prefix of its namespace (or the default)** — for every configuration,
    every non-empty namespace and every level: the event goes to the wrapped observer iff `lv ≤ l`,
    and to the negative observer otherwise. -/
theorem filter_passes_iff_level_ge_most_specific_prefix (c : LevelCfg) (ns : Text) (l lv : Nat)
    (hns : ns ≠ []) (hg : Governs c ns lv) :
    (filterObserve c [.level] ⟨some l, some ns⟩ = .ok .observer ↔ lv ≤ l) ∧
    (filterObserve c [.level] ⟨some l, some ns⟩ = .ok .negativeObserver ↔ l < lv) := by
  have hlv := levelFor_eq_most_specific_prefix c ns lv hns hg
  by_cases h : l < lv
  · have : ¬ lv ≤ l := by omega
    simp [filterObserve, shouldLog, levelPred, hns, hlv, h, this]
  · have : lv ≤ l := by omega
    simp [filterObserve, shouldLog, levelPred, hns, hlv, h, this]

/-- documented: events without a level or without a namespace are dropped (sent to the negative observer) -/
theorem filter_drops_events_without_level_or_namespace (c : LevelCfg) (ev : Event)
    (h : ev.level = none ∨ ev.ns = none ∨ ev.ns = some []) :
    filterObserve c [.level] ev = .ok .negativeObserver := by
  obtain ⟨lvl, ns⟩ := ev
  rcases h with h | h | h
  · simp only at h; subst h; simp [filterObserve, shouldLog, levelPred]
  · simp only at h; subst h; cases lvl <;> simp [filterObserve, shouldLog, levelPred]
  · simp only at h; subst h; cases lvl <;> simp [filterObserve, shouldLog, levelPred]

/-- the other predicates of a `FilteringLogObserver`: `maybe` defers to the rest, `yes`/`no` decide -/
theorem shouldLog_const (c : LevelCfg) (ev : Event) (ps : List Pred) :
    shouldLog c ev (.const .maybe :: ps) = shouldLog c ev ps ∧
    shouldLog c ev (.const .yes :: ps) = .ok true ∧ shouldLog c ev (.const .no :: ps) = .ok false := by
  simp [shouldLog]

/-- what "configured" means in terms of the API: the last `setLogLevelForNamespace` for that namespace
    since the last `clearLogLevels` -/
theorem setLevel_configures (c : LevelCfg) (k : Text) (l : Nat) (hk : k ≠ []) (hl : l < 5) :
    ∃ c', c.setLevel k l = .ok c' ∧ c'.levels.lookup k = some l ∧ c'.dflt = c.dflt ∧
      ∀ k', k' ≠ k → c'.levels.lookup k' = c.levels.lookup k' := by
  refine ⟨{ c with levels := (k, l) :: c.levels }, by simp [LevelCfg.setLevel, hl, hk], by simp [List.lookup], rfl, ?_⟩
  intro k' hk'
  have : (k' == k) = false := by simpa using hk'
  simp [List.lookup, this]

theorem setLevel_default (c : LevelCfg) (l : Nat) (hl : l < 5) :
    c.setLevel [] l = .ok { c with dflt := l } := by simp [LevelCfg.setLevel, hl]

theorem setLevel_invalid (c : LevelCfg) (k : Text) (l : Nat) (hl : 5 ≤ l) :
    c.setLevel k l = .error .invalidLogLevel := by
  have : ¬ l < 5 := by omega
  simp [LevelCfg.setLevel, this]

theorem clear_resets (c : LevelCfg) : c.clear.levels = [] ∧ c.clear.dflt = c.ctorDefault := by
  simp [LevelCfg.clear]

/-! non-vacuity: default `info`(1); `a.b` ↦ `error`(3), `a` ↦ `debug`(0), `a.bc` ↦ `critical`(4) -/
def demoCfg : LevelCfg := ⟨1, 1, [(['a', '.', 'b'], 3), (['a'], 0), (['a', '.', 'b', 'c'], 4)]⟩

example : Governs demoCfg ['a', '.', 'b', '.', 'c'] 3 := by
  have := levelFor_governs demoCfg ['a', '.', 'b', '.', 'c'] (by decide)
  rwa [show levelFor demoCfg ['a', '.', 'b', '.', 'c'] = 3 by decide] at this

example : Governs demoCfg ['a', '.', 'b', 'x'] 0 := by
  have := levelFor_governs demoCfg ['a', '.', 'b', 'x'] (by decide)
  rwa [show levelFor demoCfg ['a', '.', 'b', 'x'] = 0 by decide] at this

example : Governs demoCfg ['z'] 1 := by
  have := levelFor_governs demoCfg ['z'] (by decide)
  rwa [show levelFor demoCfg ['z'] = 1 by decide] at this

example : DottedPrefix ['a', '.', 'b'] ['a', '.', 'b', '.', 'c'] := Or.inr ⟨['c'], rfl⟩

end Filter

end TwistedProps.C57
