import TwistedModel.Log.Publish
import TwistedModel.Log.Filter
import TwistedModel.Log.Buffer
/-!
C57 — log observers receive every event; filters honour the namespace hierarchy.

  * `LogPublisher` (model `Twisted.Log.Publish`): `every_observer_gets_every_event_once_in_order`,
    `each_registered_observer_exactly_once`, `history_every_event_once_in_order`,
    `registered_observers_stay_distinct`, `failures_reported_to_others`(`_nested`, `_reentrant`), `broken_eq_raisers`,
    `error_reporting_terminates`, `publishErrN_fuel_irrelevant`, `live_iteration_counterexample`
  * `LogLevelFilterPredicate` / `FilteringLogObserver` (model `Twisted.Log.Filter`):
    `levelFor_eq_most_specific_prefix`, `governs_total`, `levelFor_governs`,
    `filter_passes_iff_level_ge_most_specific_prefix`, `filter_drops_events_without_level_or_namespace`
  * `LimitedHistoryLogObserver` (model `Twisted.Log.Buffer`): `history_replays_last_N_in_order`, …
-/
namespace TwistedProps.C57

section Buffer
open Twisted.Log.Buffer

/-! ## LimitedHistoryLogObserver -/

/-- feeding a stream of events to the observer -/
def observeAll {α : Type} (h : Hist α) (es : List α) : Hist α := es.foldl Hist.observe h

theorem observe_bounded_inv {α : Type} (n : Nat) (pre : List α) (e : α) :
    (Hist.observe ⟨some n, pre.drop (pre.length - n)⟩ e) =
      ⟨some n, (pre ++ [e]).drop ((pre ++ [e]).length - n)⟩ := by
  unfold Hist.observe
  simp only [List.length_append, List.length_cons, List.length_nil, List.length_drop]
  by_cases h0 : n = 0
  · subst h0; simp
  · simp only [h0, if_false]
    by_cases hl : pre.length - (pre.length - n) = n
    · simp only [hl, if_true]
      have : n ≤ pre.length := by omega
      simp only [List.drop_drop]
      rw [List.drop_append_of_le_length (by omega)]
      congr 3
      omega
    · simp only [hl, if_false]
      have h1 : pre.length - n = 0 := by omega
      have h2 : pre.length + (0 + 1) - n = 0 := by omega
      simp [h1, h2]

theorem observeAll_bounded {α : Type} (n : Nat) (pre es : List α) :
    (observeAll ⟨some n, pre.drop (pre.length - n)⟩ es) =
      ⟨some n, (pre ++ es).drop ((pre ++ es).length - n)⟩ := by
  induction es generalizing pre with
  | nil => simp [observeAll]
  | cons e es ih =>
    have := ih (pre ++ [e])
    simp only [observeAll, List.foldl_cons] at this ⊢
    rw [observe_bounded_inv, this]
    simp

/-- **A limited-history observer of size `N` replays exactly the last `N` events, in order** —
    for every `N` (including 0) and every event stream. -/
theorem history_replays_last_N_in_order {α : Type} (N : Nat) (es : List α) (h0 : Hist α)
    (hnew : Hist.new (some (N : Int)) = some h0) :
    (observeAll h0 es).replay = es.drop (es.length - N) := by
  have : h0 = ⟨some N, []⟩ := by
    simp [Hist.new] at hnew
    exact hnew.symm
  subst this
  have := observeAll_bounded N [] es
  simp at this
  simp [this, Hist.replay]

example : (observeAll (⟨some 2, []⟩ : Hist Nat) [10, 11, 12, 13]).replay = [12, 13] := by decide

/-- size `None`: everything is replayed -/
theorem history_unbounded_replays_all {α : Type} (es : List α) (h0 : Hist α)
    (hnew : Hist.new none = some h0) : (observeAll h0 es).replay = es := by
  have : h0 = ⟨none, []⟩ := by simp [Hist.new] at hnew; exact hnew.symm
  subst this
  suffices h : ∀ pre : List α, observeAll ⟨none, pre⟩ es = ⟨none, pre ++ es⟩ by
    simp [h, Hist.replay]
  induction es with
  | nil => simp [observeAll]
  | cons e es ih =>
    intro pre
    have := ih (pre ++ [e])
    simp only [observeAll, List.foldl_cons] at this ⊢
    simp [Hist.observe, this]

/-- a negative size is refused by the constructor (`deque` raises `ValueError`) -/
theorem history_negative_size_refused {α : Type} (n : Int) (h : n < 0) : Hist.new (α := α) (some n) = none := by
  simp [Hist.new, h]

end Buffer

section Publisher
open Twisted.Log.Publish

/-! ## LogPublisher -/

/-- nesting depth of a failure report -/
def depth : Ev → Nat
  | .app _ => 0
  | .report _ c => depth c + 1

/-- `below e d`: `d` is a failure report caused (directly or through further failing observers) by `e` -/
def below (e : Ev) : Ev → Bool
  | .app _ => false
  | .report _ c => c == e || below e c

theorem below_depth {e d : Ev} (h : below e d = true) : depth e < depth d := by
  induction d with
  | app k => simp [below] at h
  | report b c ih =>
    simp only [below, Bool.or_eq_true, beq_iff_eq] at h
    rcases h with h | h
    · subst h; simp [depth]
    · have := ih h; simp [depth]; omega

theorem below_ne {e d : Ev} (h : below e d = true) : d ≠ e := by
  intro hd; subst hd; have := below_depth h; omega

theorem below_trans {a b c : Ev} (h1 : below a b = true) (h2 : below b c = true) : below a c = true := by
  induction c with
  | app k => simp [below] at h2
  | report o c ih =>
    simp only [below, Bool.or_eq_true, beq_iff_eq] at h2 ⊢
    rcases h2 with h | h
    · subst h; exact Or.inr h1
    · exact Or.inr (ih h)

theorem below_report (b : Obs) (e : Ev) : below e (.report b e) = true := by simp [below]

/-- `Ext e s s'`: from `s` to `s'` the trace only grew, by deliveries of reports caused by `e` -/
def Ext (e : Ev) (s s' : St) : Prop :=
  ∃ tail, s'.trace = s.trace ++ tail ∧ ∀ d ∈ tail, below e d.2 = true

theorem Ext.refl (e : Ev) (s : St) : Ext e s s := ⟨[], by simp, by simp⟩

theorem Ext.trans {e : Ev} {a b c : St} (h1 : Ext e a b) (h2 : Ext e b c) : Ext e a c := by
  obtain ⟨t1, e1, p1⟩ := h1
  obtain ⟨t2, e2, p2⟩ := h2
  refine ⟨t1 ++ t2, by rw [e2, e1]; simp, ?_⟩
  intro d hd
  rcases List.mem_append.mp hd with h | h
  · exact p1 d h
  · exact p2 d h

theorem Ext.weaken {e e' : Ev} {a b : St} (hb : below e e' = true) (h : Ext e' a b) : Ext e a b := by
  obtain ⟨t, e1, p⟩ := h
  exact ⟨t, e1, fun d hd => below_trans hb (p d hd)⟩

theorem foldl_Ext {e : Ev} (f : St → Obs → St) (l : List Obs) (s : St)
    (h : ∀ s, ∀ b ∈ l, Ext e s (f s b)) : Ext e s (l.foldl f s) := by
  induction l generalizing s with
  | nil => exact Ext.refl e s
  | cons b bs ih =>
    simp only [List.foldl_cons]
    exact Ext.trans (h s b (by simp)) (ih _ (fun s b' hb' => h s b' (by simp [hb'])))

theorem callObs_trace (beh : Beh) (o : Obs) (e : Ev) (s : St) :
    (callObs beh o e s).1.trace = s.trace ++ [(o, e)] := rfl

theorem deliverAll_trace (beh : Beh) (e : Ev) (os : List Obs) (s : St) :
    (deliverAll beh e os s).1.trace = s.trace ++ os.map (fun o => (o, e)) := by
  induction os generalizing s with
  | nil => simp [deliverAll]
  | cons o os ih => simp [deliverAll, ih, callObs_trace]

theorem deliverAll_broken_sublist (beh : Beh) (e : Ev) (os : List Obs) (s : St) :
    (deliverAll beh e os s).2.Sublist os := by
  induction os generalizing s with
  | nil => simp [deliverAll]
  | cons o os ih =>
    simp only [deliverAll]
    split
    · exact (ih _).cons_cons o
    · exact (ih _).cons o

theorem deliverAll_broken_mem (beh : Beh) (e : Ev) (os : List Obs) (s : St) (b : Obs)
    (h : b ∈ (deliverAll beh e os s).2) : b ∈ os :=
  (deliverAll_broken_sublist beh e os s).subset h

theorem filter_ne_length_lt (obs : List Obs) (b : Obs) (h : b ∈ obs) :
    (obs.filter (· != b)).length < obs.length := by
  induction obs with
  | nil => simp at h
  | cons o os ih =>
    simp only [List.filter_cons]
    by_cases hob : o = b
    · subst hob
      simp
      exact Nat.lt_succ_of_le (List.length_filter_le _ _)
    · have hm : b ∈ os := by
        rcases List.mem_cons.mp h with h | h
        · exact absurd h.symm hob
        · exact h
      have := ih hm
      simp [hob]; omega

theorem publishErrN_succ (beh : Beh) (n : Nat) (obs : List Obs) (e : Ev) (s : St) :
    publishErrN beh (n + 1) obs e s =
      (deliverAll beh e obs s).2.foldl
        (fun s b => publishErrN beh n (obs.filter (· != b)) (.report b e) s) (deliverAll beh e obs s).1 := rfl

/-- what a publisher with observers `obs` appends to the trace: first `e` to every observer in
    order, then only failure reports caused by `e` -/
theorem publishErrN_shape (beh : Beh) (n : Nat) : ∀ (obs : List Obs) (e : Ev) (s : St), obs.length ≤ n →
    ∃ tail, (publishErrN beh n obs e s).trace = s.trace ++ obs.map (fun o => (o, e)) ++ tail ∧
      ∀ d ∈ tail, below e d.2 = true := by
  induction n with
  | zero =>
    intro obs e s h
    have : obs = [] := List.length_eq_zero_iff.mp (by omega)
    subst this
    exact ⟨[], by simp [publishErrN], by simp⟩
  | succ n ih =>
    intro obs e s h
    rw [publishErrN_succ]
    have hfold : Ext e (deliverAll beh e obs s).1
        ((deliverAll beh e obs s).2.foldl
          (fun s b => publishErrN beh n (obs.filter (· != b)) (.report b e) s) (deliverAll beh e obs s).1) := by
      apply foldl_Ext
      intro s' b hb
      have hmem := deliverAll_broken_mem beh e obs s b hb
      have hl := filter_ne_length_lt obs b hmem
      obtain ⟨t, ht, hp⟩ := ih (obs.filter (· != b)) (.report b e) s' (by omega)
      refine ⟨(obs.filter (· != b)).map (fun o => (o, Ev.report b e)) ++ t, by rw [ht]; simp, ?_⟩
      intro d hd
      rcases List.mem_append.mp hd with h1 | h1
      · obtain ⟨o, _, rfl⟩ := List.mem_map.mp h1
        exact below_report b e
      · exact below_trans (below_report b e) (hp d h1)
    obtain ⟨t, ht, hp⟩ := hfold
    exact ⟨t, by rw [ht, deliverAll_trace], hp⟩

theorem publishErr_shape (beh : Beh) (obs : List Obs) (e : Ev) (s : St) :
    ∃ tail, (publishErr beh obs e s).trace = s.trace ++ obs.map (fun o => (o, e)) ++ tail ∧
      ∀ d ∈ tail, below e d.2 = true :=
  publishErrN_shape beh obs.length obs e s (Nat.le_refl _)

theorem publishErr_Ext (beh : Beh) (obs : List Obs) (b : Obs) (e : Ev) (s : St) :
    Ext e s (publishErr beh obs (.report b e) s) := by
  obtain ⟨t, ht, hp⟩ := publishErr_shape beh obs (.report b e) s
  refine ⟨obs.map (fun o => (o, Ev.report b e)) ++ t, by rw [ht]; simp, ?_⟩
  intro d hd
  rcases List.mem_append.mp hd with h1 | h1
  · obtain ⟨o, _, rfl⟩ := List.mem_map.mp h1
    exact below_report b e
  · exact below_trans (below_report b e) (hp d h1)

theorem publishMain_shape (beh : Beh) (e : Ev) (s : St) :
    ∃ tail, (publishMain beh e s).trace = s.trace ++ s.main.map (fun o => (o, e)) ++ tail ∧
      ∀ d ∈ tail, below e d.2 = true := by
  unfold publishMain reportMain
  have hfold := foldl_Ext (e := e)
    (fun s b => publishErr beh (s.main.filter (· != b)) (.report b e) s)
    (deliverAll beh e s.main s).2 (deliverAll beh e s.main s).1
    (fun s' b _ => publishErr_Ext beh _ b e s')
  obtain ⟨t, ht, hp⟩ := hfold
  exact ⟨t, by rw [ht, deliverAll_trace], hp⟩

/-- the observers to which event `e` was delivered, in delivery order, in a piece of trace -/
def recipients (e : Ev) (tr : List (Obs × Ev)) : List Obs := (tr.filter (fun d => d.2 == e)).map (·.1)

theorem recipients_append (e : Ev) (a b : List (Obs × Ev)) :
    recipients e (a ++ b) = recipients e a ++ recipients e b := by simp [recipients]

theorem recipients_map_self (e : Ev) (os : List Obs) : recipients e (os.map fun o => (o, e)) = os := by
  induction os with
  | nil => rfl
  | cons o os ih => simp [recipients] at ih ⊢; exact ih

theorem recipients_none (e : Ev) (tr : List (Obs × Ev)) (h : ∀ d ∈ tr, d.2 ≠ e) : recipients e tr = [] := by
  simp only [recipients, List.map_eq_nil_iff, List.filter_eq_nil_iff]
  intro d hd; simpa using h d hd

/-- **Every observer gets every event exactly once, in registration order, whatever the observers do**
    (return, raise, add/remove observers — including themselves — while being called): during one call
    of the publisher with event `e`, the sequence of observers `e` is handed to is exactly the list of
    observers registered when the call started. -/
theorem every_observer_gets_every_event_once_in_order (beh : Beh) (e : Ev) (s : St) :
    recipients e ((publishMain beh e s).trace.drop s.trace.length) = s.main := by
  obtain ⟨t, ht, hp⟩ := publishMain_shape beh e s
  rw [ht, List.append_assoc, List.drop_left, recipients_append, recipients_map_self,
    recipients_none e t (fun d hd => below_ne (hp d hd))]
  simp


/-- with distinct registered observers: each of them receives `e` exactly once, nobody else does -/
theorem each_registered_observer_exactly_once (beh : Beh) (e : Ev) (s : St) (hnd : s.main.Nodup) (o : Obs) :
    (recipients e ((publishMain beh e s).trace.drop s.trace.length)).count o = if o ∈ s.main then 1 else 0 := by
  rw [every_observer_gets_every_event_once_in_order]
  exact hnd.count

/-! ### failure reports -/

/-- the part of the trace added between two states -/
def newOf (s s' : St) : List (Obs × Ev) := s'.trace.drop s.trace.length

theorem newOf_eq {s s' : St} {t : List (Obs × Ev)} (h : s'.trace = s.trace ++ t) : newOf s s' = t := by
  simp [newOf, h]

theorem recipients_report_other {b b' : Obs} {e : Ev} (F : List Obs) (t : List (Obs × Ev)) (hne : b' ≠ b)
    (ht : ∀ d ∈ t, below (.report b' e) d.2 = true) :
    recipients (.report b e) (F.map (fun o => (o, Ev.report b' e)) ++ t) = [] := by
  apply recipients_none
  intro d hd
  rcases List.mem_append.mp hd with h | h
  · obtain ⟨o, _, rfl⟩ := List.mem_map.mp h
    simp; intro hh; exact absurd hh hne
  · intro heq
    have := below_depth (ht d h)
    rw [heq] at this
    simp [depth] at this

theorem recipients_report_same {b : Obs} {e : Ev} (F : List Obs) (t : List (Obs × Ev))
    (ht : ∀ d ∈ t, below (.report b e) d.2 = true) :
    recipients (.report b e) (F.map (fun o => (o, Ev.report b e)) ++ t) = F := by
  rw [recipients_append, recipients_map_self, recipients_none _ t (fun d hd => below_ne (ht d hd))]
  simp

/-- the second loop of `__call__`, abstractly: a fold over the broken observers `bs` in which the step
    for `b` hands `report b e` to the observers `L b` in order and otherwise only delivers reports caused
    by it.  Then `report b e` is received, in order, by exactly `L b`. -/
theorem fold_reports (e : Ev) (f : St → Obs → St) (L : Obs → List Obs) (I : St → Prop) (bs : List Obs)
    (hstep : ∀ s, ∀ b ∈ bs, I s → I (f s b) ∧ ∃ t, (f s b).trace = s.trace ++ (L b).map (fun o => (o, Ev.report b e)) ++ t ∧
      ∀ d ∈ t, below (.report b e) d.2 = true)
    (hnd : bs.Nodup) (s : St) (hI : I s) (b : Obs) :
    I (bs.foldl f s) ∧ (∃ t, (bs.foldl f s).trace = s.trace ++ t) ∧
      recipients (.report b e) (newOf s (bs.foldl f s)) = if b ∈ bs then L b else [] := by
  induction bs generalizing s with
  | nil => simp [newOf, recipients]; exact hI
  | cons b' bs ih =>
    simp only [List.foldl_cons]
    obtain ⟨hI', t1, ht1, hp1⟩ := hstep s b' (by simp) hI
    have hnd' : bs.Nodup := (List.nodup_cons.mp hnd).2
    have hb'bs : b' ∉ bs := (List.nodup_cons.mp hnd).1
    obtain ⟨hI2, ⟨t2, ht2⟩, hrec⟩ := ih (fun s b hb => hstep s b (by simp [hb])) hnd' (f s b') hI'
    refine ⟨hI2, ⟨_, by rw [ht2, ht1, List.append_assoc, List.append_assoc]⟩, ?_⟩
    have hnew : newOf s (bs.foldl f (f s b')) =
        ((L b').map (fun o => (o, Ev.report b' e)) ++ t1) ++ newOf (f s b') (bs.foldl f (f s b')) := by
      rw [newOf_eq ht2]
      apply newOf_eq
      rw [ht2, ht1]
      simp [List.append_assoc]
    rw [hnew, recipients_append, hrec]
    by_cases hbb : b' = b
    · subst hbb
      rw [recipients_report_same _ _ hp1]
      simp [hb'bs]
    · rw [recipients_report_other _ _ hbb hp1]
      have : (b ∈ b' :: bs) ↔ b ∈ bs := by simp [Ne.symm hbb]
      simp [this]

/-- **Failures are reported to the other observers** (error publishers, i.e. every nesting level;
    no assumption on what observers do): if observer `b` of a publisher with distinct observers `obs`
    raised while handling `e`, the failure event `report b e` is delivered exactly to the observers
    `obs` without `b`, once each, in order — and never to `b`. -/
theorem failures_reported_to_others_nested (beh : Beh) (obs : List Obs) (e : Ev) (s : St) (hnd : obs.Nodup)
    (b : Obs) (hb : b ∈ (deliverAll beh e obs s).2) :
    recipients (.report b e) (newOf s (publishErr beh obs e s)) = obs.filter (· != b) := by
  unfold publishErr
  cases hlen : obs.length with
  | zero =>
    have : obs = [] := List.length_eq_zero_iff.mp hlen
    subst this; simp [deliverAll] at hb
  | succ n =>
    rw [publishErrN_succ]
    have hbs := deliverAll_broken_sublist beh e obs s
    have := fold_reports e (fun s b => publishErrN beh n (obs.filter (· != b)) (.report b e) s)
      (fun b => obs.filter (· != b)) (fun _ => True) (deliverAll beh e obs s).2
      (fun s' b' hb' _ => ⟨trivial, publishErrN_shape beh n _ _ s' (by
          have := filter_ne_length_lt obs b' (hbs.subset hb'); omega)⟩)
      (hbs.nodup hnd) (deliverAll beh e obs s).1 trivial b
    obtain ⟨_, ⟨t, ht⟩, hrec⟩ := this
    simp only [hb, if_true] at hrec
    have hnew : newOf s ((deliverAll beh e obs s).2.foldl
        (fun s b => publishErrN beh n (obs.filter (· != b)) (.report b e) s) (deliverAll beh e obs s).1) =
        obs.map (fun o => (o, e)) ++ newOf (deliverAll beh e obs s).1 ((deliverAll beh e obs s).2.foldl
        (fun s b => publishErrN beh n (obs.filter (· != b)) (.report b e) s) (deliverAll beh e obs s).1) := by
      rw [newOf_eq ht]
      apply newOf_eq
      rw [ht, deliverAll_trace]
      simp [List.append_assoc]
    rw [hnew, recipients_append, hrec, recipients_none]
    · simp
    · intro d hd
      obtain ⟨o, _, rfl⟩ := List.mem_map.mp hd
      intro h
      have : depth e = depth (Ev.report b e) := by simp at h; rw [← h]
      simp [depth] at this


/-! ### observers that do not re-enter the publisher; which observers are "broken" -/

/-- observers never call `addObserver`/`removeObserver` while being called -/
def Quiet (beh : Beh) : Prop := ∀ o n ev, (beh o n ev).removes = [] ∧ (beh o n ev).adds = []

theorem foldl_inv {P : St → Prop} (f : St → Obs → St) (l : List Obs) (s : St)
    (h : ∀ s b, P s → P (f s b)) (hs : P s) : P (l.foldl f s) := by
  induction l generalizing s with
  | nil => exact hs
  | cons b bs ih => exact ih _ (h s b hs)

theorem callObs_inv {P : List Obs → Prop} (beh : Beh) (o : Obs) (e : Ev) (s : St)
    (hadd : ∀ l o, P l → P (addObs l o)) (hrem : ∀ l o, P l → P (removeObs l o)) (hs : P s.main) :
    P (callObs beh o e s).1.main := by
  simp only [callObs]
  generalize (beh o (calls o s.trace) e).adds = adds
  generalize (beh o (calls o s.trace) e).removes = removes
  have h1 : P (removes.foldl removeObs s.main) := by
    induction removes generalizing s with
    | nil => exact hs
    | cons r rs ih => exact ih ⟨removeObs s.main r, s.trace⟩ (hrem _ _ hs)
  generalize removes.foldl removeObs s.main = m at h1
  induction adds generalizing m with
  | nil => exact h1
  | cons a as ih => exact ih _ (hadd _ _ h1)

theorem deliverAll_inv {P : List Obs → Prop} (beh : Beh) (e : Ev) (os : List Obs) (s : St)
    (hadd : ∀ l o, P l → P (addObs l o)) (hrem : ∀ l o, P l → P (removeObs l o)) (hs : P s.main) :
    P (deliverAll beh e os s).1.main := by
  induction os generalizing s with
  | nil => exact hs
  | cons o os ih => exact ih _ (callObs_inv beh o e s hadd hrem hs)

theorem publishErrN_inv {P : List Obs → Prop} (beh : Beh) (n : Nat) (obs : List Obs) (e : Ev) (s : St)
    (hadd : ∀ l o, P l → P (addObs l o)) (hrem : ∀ l o, P l → P (removeObs l o)) (hs : P s.main) :
    P (publishErrN beh n obs e s).main := by
  induction n generalizing obs e s with
  | zero => exact hs
  | succ n ih =>
    rw [publishErrN_succ]
    exact foldl_inv (P := fun s => P s.main) _ _ _ (fun s b h => ih _ _ _ h) (deliverAll_inv beh e obs s hadd hrem hs)

theorem publishMain_inv {P : List Obs → Prop} (beh : Beh) (e : Ev) (s : St)
    (hadd : ∀ l o, P l → P (addObs l o)) (hrem : ∀ l o, P l → P (removeObs l o)) (hs : P s.main) :
    P (publishMain beh e s).main := by
  unfold publishMain reportMain
  exact foldl_inv (P := fun s => P s.main) _ _ _ (fun s b h => publishErrN_inv beh _ _ _ s hadd hrem h)
    (deliverAll_inv beh e s.main s hadd hrem hs)

theorem addObs_nodup (l : List Obs) (o : Obs) (h : l.Nodup) : (addObs l o).Nodup := by
  unfold addObs
  split
  · exact h
  · next hm => exact List.nodup_append.mpr ⟨h, by simp, by intro a ha b hb; simp at hb; subst hb; intro hab; subst hab; exact hm ha⟩

theorem removeObs_nodup (l : List Obs) (o : Obs) (h : l.Nodup) : (removeObs l o).Nodup := h.erase o

/-- **Registered observers stay distinct**: from a publisher built with distinct observers, no history
    of `addObserver` / `removeObserver` / events — with observers re-entering the publisher at will —
    registers an observer twice.  (So "exactly once" below is about every reachable state.) -/
theorem registered_observers_stay_distinct (beh : Beh) (ops : List Op) (s : St) (h : s.main.Nodup) :
    (run beh ops s).main.Nodup := by
  unfold run
  induction ops generalizing s with
  | nil => exact h
  | cons op ops ih =>
    simp only [List.foldl_cons]
    apply ih
    cases op with
    | add o => exact addObs_nodup _ _ h
    | remove o => exact removeObs_nodup _ _ h
    | emit k => exact publishMain_inv (P := List.Nodup) beh _ s addObs_nodup removeObs_nodup h

theorem calls_append_other (o o' : Obs) (e : Ev) (tr : List (Obs × Ev)) (h : o' ≠ o) :
    calls o' (tr ++ [(o, e)]) = calls o' tr := by
  simp [calls, List.countP_append, Ne.symm h]

/-- the broken observers of one call are exactly the registered observers whose behaviour for this
    call is to raise, in registration order -/
theorem broken_eq_raisers (beh : Beh) (e : Ev) (os : List Obs) (s : St) (hnd : os.Nodup) :
    (deliverAll beh e os s).2 = os.filter (fun o => (beh o (calls o s.trace) e).raises) := by
  induction os generalizing s with
  | nil => simp [deliverAll]
  | cons o os ih =>
    have ho : o ∉ os := (List.nodup_cons.mp hnd).1
    have hnd' := (List.nodup_cons.mp hnd).2
    have htail : (deliverAll beh e os (callObs beh o e s).1).2 =
        os.filter (fun o => (beh o (calls o s.trace) e).raises) := by
      rw [ih _ hnd']
      apply List.filter_congr
      intro o' ho'
      have : o' ≠ o := fun h => ho (h ▸ ho')
      rw [callObs_trace, calls_append_other o o' e s.trace this]
    simp only [deliverAll, List.filter_cons, htail]
    simp only [callObs]
    split <;> simp_all

/-- **Failures are reported to the other observers** (the publisher under test, observers that do not
    re-enter it): if the registered observer `b` raised while handling `e`, every other registered
    observer receives the failure event `report b e` exactly once, in registration order, and `b` does not. -/
theorem failures_reported_to_others (beh : Beh) (hq : Quiet beh) (e : Ev) (s : St) (hnd : s.main.Nodup)
    (b : Obs) (hb : b ∈ (deliverAll beh e s.main s).2) :
    recipients (.report b e) (newOf s (publishMain beh e s)) = s.main.filter (· != b) := by
  have hbs := deliverAll_broken_sublist beh e s.main s
  -- quiet observers leave the registration unchanged
  have hcall : ∀ (o : Obs) (e' : Ev) (s' : St), (callObs beh o e' s').1.main = s'.main := by
    intro o e' s'; simp [callObs, (hq o _ e').1, (hq o _ e').2]
  have hdel : ∀ (os : List Obs) (e' : Ev) (s' : St), (deliverAll beh e' os s').1.main = s'.main := by
    intro os e'
    induction os with
    | nil => intro s'; rfl
    | cons o os ih => intro s'; simp only [deliverAll]; rw [ih, hcall]
  have hpub : ∀ (n : Nat) (obs : List Obs) (e' : Ev) (s' : St), (publishErrN beh n obs e' s').main = s'.main := by
    intro n
    induction n with
    | zero => intro obs e' s'; rfl
    | succ n ih =>
      intro obs e' s'
      rw [publishErrN_succ]
      have := foldl_inv (P := fun x => x.main = s'.main)
        (fun s b => publishErrN beh n (obs.filter (· != b)) (.report b e') s) (deliverAll beh e' obs s').2
        (deliverAll beh e' obs s').1 (fun x b hx => by rw [ih]; exact hx) (hdel obs e' s')
      exact this
  unfold publishMain reportMain
  have := fold_reports e (fun s b => publishErr beh (s.main.filter (· != b)) (.report b e) s)
    (fun b => s.main.filter (· != b)) (fun x => x.main = s.main) (deliverAll beh e s.main s).2
    (fun s' b' _ hI => ⟨by simp only [publishErr]; rw [hpub]; exact hI, by
        simp only [hI]; exact publishErr_shape beh _ _ s'⟩)
    (hbs.nodup hnd) (deliverAll beh e s.main s).1 (hdel _ _ _) b
  obtain ⟨_, ⟨t, ht⟩, hrec⟩ := this
  simp only [hb, if_true] at hrec
  have hnew : newOf s ((deliverAll beh e s.main s).2.foldl
      (fun s b => publishErr beh (s.main.filter (· != b)) (.report b e) s) (deliverAll beh e s.main s).1) =
      s.main.map (fun o => (o, e)) ++ newOf (deliverAll beh e s.main s).1 ((deliverAll beh e s.main s).2.foldl
      (fun s b => publishErr beh (s.main.filter (· != b)) (.report b e) s) (deliverAll beh e s.main s).1) := by
    rw [newOf_eq ht]
    apply newOf_eq
    rw [ht, deliverAll_trace]
    simp [List.append_assoc]
  rw [hnew, recipients_append, hrec, recipients_none]
  · simp
  · intro d hd
    obtain ⟨o, _, rfl⟩ := List.mem_map.mp hd
    intro h
    have : depth e = depth (Ev.report b e) := by simp at h; rw [← h]
    simp [depth] at this


/-! ### failure reports when observers re-enter the publisher -/

theorem fold_reports_general (e : Ev) (f : St → Obs → St) (L : St → Obs → List Obs) (I : St → Prop) (bs : List Obs)
    (hstep : ∀ s, ∀ b ∈ bs, I s → I (f s b) ∧ ∃ t, (f s b).trace = s.trace ++ (L s b).map (fun o => (o, Ev.report b e)) ++ t ∧
      ∀ d ∈ t, below (.report b e) d.2 = true)
    (hnd : bs.Nodup) (s : St) (hI : I s) (b : Obs) :
    I (bs.foldl f s) ∧ (∃ t, (bs.foldl f s).trace = s.trace ++ t) ∧
      (if b ∈ bs then ∃ sb, I sb ∧ recipients (.report b e) (newOf s (bs.foldl f s)) = L sb b
       else recipients (.report b e) (newOf s (bs.foldl f s)) = []) := by
  induction bs generalizing s with
  | nil => simp [newOf, recipients]; exact hI
  | cons b' bs ih =>
    simp only [List.foldl_cons]
    obtain ⟨hI', t1, ht1, hp1⟩ := hstep s b' (by simp) hI
    have hnd' : bs.Nodup := (List.nodup_cons.mp hnd).2
    have hb'bs : b' ∉ bs := (List.nodup_cons.mp hnd).1
    obtain ⟨hI2, ⟨t2, ht2⟩, hrec⟩ := ih (fun s b hb => hstep s b (by simp [hb])) hnd' (f s b') hI'
    refine ⟨hI2, ⟨_, by rw [ht2, ht1, List.append_assoc, List.append_assoc]⟩, ?_⟩
    have hnew : newOf s (bs.foldl f (f s b')) =
        ((L s b').map (fun o => (o, Ev.report b' e)) ++ t1) ++ newOf (f s b') (bs.foldl f (f s b')) := by
      rw [newOf_eq ht2]
      apply newOf_eq
      rw [ht2, ht1]
      simp [List.append_assoc]
    rw [hnew, recipients_append]
    by_cases hbb : b' = b
    · subst hbb
      simp only [hb'bs, if_false] at hrec
      rw [recipients_report_same _ _ hp1, hrec]
      simp only [List.mem_cons, true_or, if_true, List.append_nil]
      exact ⟨s, hI, rfl⟩
    · rw [recipients_report_other _ _ hbb hp1]
      have : (b ∈ b' :: bs) ↔ b ∈ bs := by simp [Ne.symm hbb]
      simp only [this, List.nil_append]
      exact hrec

/-- **Failures are reported to the other observers** (the publisher under test, observers free to call
    `addObserver`/`removeObserver` while being called): if the registered observer `b` raised while
    handling `e`, the failure event `report b e` is delivered exactly to the observers registered at the
    moment that failure is reported (state `sb`), without `b`: once each, in registration order, never to `b`. -/
theorem failures_reported_to_others_reentrant (beh : Beh) (e : Ev) (s : St) (hnd : s.main.Nodup)
    (b : Obs) (hb : b ∈ (deliverAll beh e s.main s).2) :
    ∃ sb : St, sb.main.Nodup ∧
      recipients (.report b e) (newOf s (publishMain beh e s)) = sb.main.filter (· != b) := by
  have hbs := deliverAll_broken_sublist beh e s.main s
  unfold publishMain reportMain
  have := fold_reports_general e (fun s b => publishErr beh (s.main.filter (· != b)) (.report b e) s)
    (fun s b => s.main.filter (· != b)) (fun x => x.main.Nodup) (deliverAll beh e s.main s).2
    (fun s' b' _ hI => ⟨publishErrN_inv (P := List.Nodup) beh _ _ _ s' addObs_nodup removeObs_nodup hI,
        publishErr_shape beh _ _ s'⟩)
    (hbs.nodup hnd) (deliverAll beh e s.main s).1
    (deliverAll_inv (P := List.Nodup) beh e s.main s addObs_nodup removeObs_nodup hnd) b
  obtain ⟨_, ⟨t, ht⟩, hrec⟩ := this
  simp only [hb, if_true] at hrec
  obtain ⟨sb, hsb, hrec⟩ := hrec
  refine ⟨sb, hsb, ?_⟩
  have hnew : newOf s ((deliverAll beh e s.main s).2.foldl
      (fun s b => publishErr beh (s.main.filter (· != b)) (.report b e) s) (deliverAll beh e s.main s).1) =
      s.main.map (fun o => (o, e)) ++ newOf (deliverAll beh e s.main s).1 ((deliverAll beh e s.main s).2.foldl
      (fun s b => publishErr beh (s.main.filter (· != b)) (.report b e) s) (deliverAll beh e s.main s).1) := by
    rw [newOf_eq ht]
    apply newOf_eq
    rw [ht, deliverAll_trace]
    simp [List.append_assoc]
  rw [hnew, recipients_append, hrec, recipients_none]
  · simp
  · intro d hd
    obtain ⟨o, _, rfl⟩ := List.mem_map.mp hd
    intro h
    have : depth e = depth (Ev.report b e) := by simp at h; rw [← h]
    simp [depth] at this


/-! ### the error recursion terminates -/

theorem foldl_congr_mem (f g : St → Obs → St) (l : List Obs) (s : St) (h : ∀ s, ∀ b ∈ l, f s b = g s b) :
    l.foldl f s = l.foldl g s := by
  induction l generalizing s with
  | nil => rfl
  | cons b bs ih =>
    simp only [List.foldl_cons]
    rw [h s b (by simp)]
    exact ih _ (fun s b' hb' => h s b' (by simp [hb']))

/-- the bound `n` of `publishErrN` is only a device: every bound that is at least the number of
    observers gives the same result, i.e. the recursion has bottomed out before the bound is used up -/
theorem publishErrN_fuel_irrelevant (beh : Beh) (n m : Nat) : ∀ (obs : List Obs) (e : Ev) (s : St),
    obs.length ≤ n → obs.length ≤ m → publishErrN beh n obs e s = publishErrN beh m obs e s := by
  induction n generalizing m with
  | zero =>
    intro obs e s h _
    have : obs = [] := List.length_eq_zero_iff.mp (by omega)
    subst this
    cases m <;> simp [publishErrN, deliverAll]
  | succ n ih =>
    intro obs e s hn hm
    cases m with
    | zero =>
      have : obs = [] := List.length_eq_zero_iff.mp (by omega)
      subst this
      simp [publishErrN, deliverAll]
    | succ m =>
      rw [publishErrN_succ, publishErrN_succ]
      apply foldl_congr_mem
      intro s' b hb
      have := filter_ne_length_lt obs b (deliverAll_broken_mem beh e obs s b hb)
      exact ih m _ _ _ (by omega) (by omega)

/-!
The Python recursion itself, with no bound at all, as a big-step relation: `Pub obs e s s'` — calling a
`LogPublisher` whose observers are `obs` with event `e` in state `s` returns, in state `s'`;
`Rep obs e bs s s'` — its second loop over the remaining broken observers `bs`.  A derivation is a
finite call tree, so `Pub … s s'` for some `s'` *is* termination of `LogPublisher.__call__`.
-/
mutual
inductive Pub (beh : Beh) : List Obs → Ev → St → St → Prop
  | call (obs : List Obs) (e : Ev) (s s' : St) :
      Rep beh obs e (deliverAll beh e obs s).2 (deliverAll beh e obs s).1 s' → Pub beh obs e s s'
inductive Rep (beh : Beh) : List Obs → Ev → List Obs → St → St → Prop
  | done (obs : List Obs) (e : Ev) (s : St) : Rep beh obs e [] s s
  | next (obs : List Obs) (e : Ev) (b : Obs) (bs : List Obs) (s s1 s2 : St) :
      Pub beh (obs.filter (· != b)) (.report b e) s s1 → Rep beh obs e bs s1 s2 → Rep beh obs e (b :: bs) s s2
end

theorem pub_of_publishErrN (beh : Beh) (n : Nat) : ∀ (obs : List Obs) (e : Ev) (s : St), obs.length ≤ n →
    Pub beh obs e s (publishErrN beh n obs e s) := by
  induction n with
  | zero =>
    intro obs e s h
    have : obs = [] := List.length_eq_zero_iff.mp (by omega)
    subst this
    exact Pub.call _ _ _ _ (Rep.done _ _ _)
  | succ n ih =>
    intro obs e s h
    apply Pub.call
    rw [publishErrN_succ]
    have key : ∀ (bs : List Obs) (s1 : St), (∀ b ∈ bs, b ∈ obs) →
        Rep beh obs e bs s1 (bs.foldl (fun s b => publishErrN beh n (obs.filter (· != b)) (.report b e) s) s1) := by
      intro bs
      induction bs with
      | nil => intro s1 _; exact Rep.done _ _ _
      | cons b bs ihb =>
        intro s1 hmem
        simp only [List.foldl_cons]
        have := filter_ne_length_lt obs b (hmem b (by simp))
        exact Rep.next _ _ _ _ _ _ _ (ih _ _ s1 (by omega)) (ihb _ (fun b' hb' => hmem b' (by simp [hb'])))
    exact key _ _ (fun b hb => deliverAll_broken_mem beh e obs s b hb)

/-- **Error reporting terminates**: whatever the observers do — even if every observer raises on every
    event, failure reports included — a call of a publisher with observers `obs` returns (the call tree
    of the unbounded Python recursion is finite), and the state it returns in is the model's. -/
theorem error_reporting_terminates (beh : Beh) (obs : List Obs) (e : Ev) (s : St) :
    Pub beh obs e s (publishErr beh obs e s) :=
  pub_of_publishErrN beh obs.length obs e s (Nat.le_refl _)

/-! ### histories -/

def isApp : Ev → Bool
  | .app _ => true
  | .report _ _ => false

/-- the deliveries of application events (not failure reports) in a trace -/
def appOnly (tr : List (Obs × Ev)) : List (Obs × Ev) := tr.filter (fun d => isApp d.2)

/-- what the property demands of a history: each emitted event goes, in registration order, to the
    observers registered at that moment -/
def expected (beh : Beh) : List Op → St → List (Obs × Ev)
  | [], _ => []
  | .emit k :: ops, s => s.main.map (fun o => (o, Ev.app k)) ++ expected beh ops (step beh s (.emit k))
  | .add o :: ops, s => expected beh ops (step beh s (.add o))
  | .remove o :: ops, s => expected beh ops (step beh s (.remove o))

theorem below_not_app {e d : Ev} (h : below e d = true) : isApp d = false := by
  cases d with
  | app k => simp [below] at h
  | report b c => rfl

/-- **Histories**: over any sequence of `addObserver` / `removeObserver` / events and any observer
    behaviour, the application events are delivered exactly as demanded — every event once to each
    observer registered when it is emitted, in registration order, and to nobody else, ever. -/
theorem history_every_event_once_in_order (beh : Beh) (ops : List Op) (s : St) :
    appOnly (run beh ops s).trace = appOnly s.trace ++ expected beh ops s := by
  unfold run
  induction ops generalizing s with
  | nil => simp [expected]
  | cons op ops ih =>
    simp only [List.foldl_cons]
    rw [ih]
    cases op with
    | add o => simp [expected, step]
    | remove o => simp [expected, step]
    | emit k =>
      obtain ⟨t, ht, hp⟩ := publishMain_shape beh (.app k) s
      have ht0 : appOnly t = [] := by
        simp only [appOnly, List.filter_eq_nil_iff]
        intro d hd; simp [below_not_app (hp d hd)]
      have hm : appOnly (s.main.map fun o => (o, Ev.app k)) = s.main.map fun o => (o, Ev.app k) := by
        simp only [appOnly, List.filter_eq_self]
        intro d hd
        obtain ⟨o, _, rfl⟩ := List.mem_map.mp hd
        rfl
      simp only [expected, step]
      rw [ht]
      simp only [appOnly, List.filter_append] at ht0 hm ⊢
      rw [ht0, hm]
      simp

/-! ### non-vacuity, and the code before the repair -/

/-- three observers, 0 and 2 raise on their first call -/
def demoBeh : Beh := fun o n _ => if (o = 0 ∨ o = 2) ∧ n = 0 then { raises := true } else {}

example : (publishMain demoBeh (.app 7) ⟨[0, 1, 2], []⟩).trace =
    [(0, .app 7), (1, .app 7), (2, .app 7),
     (1, .report 0 (.app 7)), (2, .report 0 (.app 7)),
     (0, .report 2 (.app 7)), (1, .report 2 (.app 7))] := by decide

example : recipients (.app 7) ((publishMain demoBeh (.app 7) ⟨[0, 1, 2], []⟩).trace.drop 0) = [0, 1, 2] :=
  every_observer_gets_every_event_once_in_order demoBeh (.app 7) ⟨[0, 1, 2], []⟩

example : (0 : Obs) ∈ (deliverAll demoBeh (.app 7) [0, 1, 2] ⟨[0, 1, 2], []⟩).2 := by decide
example : Quiet demoBeh := by intro o n ev; unfold demoBeh; split <;> simp

/-- every observer raises on everything: the recursion still ends (3 + 3·2 + 3·2·1 deliveries) -/
example : (publishMain (fun _ _ _ => { raises := true }) (.app 0) ⟨[0, 1, 2], []⟩).trace.length = 15 := by decide

/-- observer 0 removes itself while being called (a one-shot observer) -/
def oneShot : Beh := fun o n _ => if o = 0 ∧ n = 0 then { removes := [0] } else {}

/-- the repaired code: observer 1 still gets the event -/
example : (publishMain oneShot (.app 0) ⟨[0, 1], []⟩).trace = [(0, .app 0), (1, .app 0)] := by decide

/-- observer 0, on its first call, removes observer 1, adds observer 2, and raises -/
def reentrant : Beh := fun o n _ => if o = 0 ∧ n = 0 then { removes := [1], adds := [2], raises := true } else {}

/-- observer 1 still gets the event (snapshot); the failure goes to whoever is registered then: observer 2 -/
example : (publishMain reentrant (.app 0) ⟨[0, 1], []⟩).trace =
    [(0, .app 0), (1, .app 0), (2, .report 0 (.app 0))] := by decide

/-- **The code before the repair** (`for observer in self._observers` over the live list) violated the
    property: the observer registered after a self-removing observer never received the event. -/
theorem live_iteration_counterexample :
    recipients (.app 0) ((publishMainLive oneShot 100 (.app 0) ⟨[0, 1], []⟩).trace.drop 0) ≠ [0, 1] := by decide

end Publisher

section Filter
open Twisted.Log.Filter

/-! ## LogLevelFilterPredicate / FilteringLogObserver -/

theorem splitDot_ne_nil (s : Text) : splitDot s ≠ [] := by
  cases s with
  | nil => simp [splitDot]
  | cons c cs =>
    simp only [splitDot]
    split
    · simp
    · split <;> simp

theorem splitDot_cons_dot (cs : Text) : splitDot ('.' :: cs) = [] :: splitDot cs := by
  simp [splitDot]

theorem splitDot_cons_other (c : Char) (cs : Text) (h : c ≠ '.') :
    ∃ s ss, splitDot cs = s :: ss ∧ splitDot (c :: cs) = (c :: s) :: ss := by
  cases hs : splitDot cs with
  | nil => exact absurd hs (splitDot_ne_nil cs)
  | cons s ss => exact ⟨s, ss, rfl, by simp [splitDot, h, hs]⟩

theorem joinDot_cons_cons (c : Char) (s : Text) (ss : List Text) :
    joinDot ((c :: s) :: ss) = c :: joinDot (s :: ss) := by
  cases ss <;> simp [joinDot]

/-- `".".join(s.split(".")) == s` -/
theorem joinDot_splitDot (s : Text) : joinDot (splitDot s) = s := by
  induction s with
  | nil => simp [splitDot, joinDot]
  | cons c cs ih =>
    by_cases h : c = '.'
    · subst h
      rw [splitDot_cons_dot]
      cases hs : splitDot cs with
      | nil => exact absurd hs (splitDot_ne_nil cs)
      | cons t ts => rw [hs] at ih; simp [joinDot, ih]
    · obtain ⟨s, ss, h1, h2⟩ := splitDot_cons_other c cs h
      rw [h2, joinDot_cons_cons, ← h1, ih]

theorem splitDot_append_dot (a b : Text) : splitDot (a ++ '.' :: b) = splitDot a ++ splitDot b := by
  induction a with
  | nil => simp [splitDot]
  | cons c a ih =>
    by_cases h : c = '.'
    · subst h
      simp only [List.cons_append, splitDot_cons_dot, ih]
    · obtain ⟨s, ss, h1, h2⟩ := splitDot_cons_other c a h
      obtain ⟨s', ss', h1', h2'⟩ := splitDot_cons_other c (a ++ '.' :: b) h
      simp only [List.cons_append]
      rw [h2', h2]
      rw [ih, h1] at h1'
      simp only [List.cons_append, List.cons.injEq] at h1'
      rw [← h1'.1, ← h1'.2]
      simp

theorem joinDot_append (a b : List Text) (ha : a ≠ []) (hb : b ≠ []) :
    joinDot (a ++ b) = joinDot a ++ '.' :: joinDot b := by
  induction a with
  | nil => exact absurd rfl ha
  | cons x xs ih =>
    cases xs with
    | nil =>
      cases b with
      | nil => exact absurd rfl hb
      | cons t ts => simp [joinDot]
    | cons y ys =>
      have := ih (by simp)
      simp only [List.cons_append] at this ⊢
      simp [joinDot, this]

/-- `k` is the namespace itself or one of its ancestors in the dotted hierarchy -/
def DottedPrefix (k ns : Text) : Prop := k = ns ∨ (k ++ ['.']) <+: ns

/-- the candidates the walk looks at: `".".join(segments[:i])` -/
def cand (ns : Text) (i : Nat) : Text := joinDot ((splitDot ns).take i)

theorem cand_full (ns : Text) : cand ns (splitDot ns).length = ns := by
  simp [cand, joinDot_splitDot]

theorem cand_lt (ns : Text) (i j : Nat) (hi : 1 ≤ i) (hij : i < j) (hj : j ≤ (splitDot ns).length) :
    ∃ rest, cand ns j = cand ns i ++ '.' :: rest := by
  have h1 : (splitDot ns).take j = (splitDot ns).take i ++ ((splitDot ns).take j).drop i := by
    have := List.take_append_drop i ((splitDot ns).take j)
    rw [List.take_take, Nat.min_eq_left (by omega)] at this
    exact this.symm
  have ha : (splitDot ns).take i ≠ [] := by
    intro h
    have := congrArg List.length h
    rw [List.length_take, Nat.min_eq_left (by omega)] at this
    simp at this; omega
  have hb : ((splitDot ns).take j).drop i ≠ [] := by
    intro h
    have := congrArg List.length h
    rw [List.length_drop, List.length_take, Nat.min_eq_left hj] at this
    simp at this; omega
  refine ⟨joinDot (((splitDot ns).take j).drop i), ?_⟩
  unfold cand
  rw [h1, joinDot_append _ _ ha hb, ← h1]

theorem cand_length_lt (ns : Text) (i j : Nat) (hi : 1 ≤ i) (hij : i < j) (hj : j ≤ (splitDot ns).length) :
    (cand ns i).length < (cand ns j).length := by
  obtain ⟨rest, h⟩ := cand_lt ns i j hi hij hj
  rw [h]; simp

theorem cand_dottedPrefix (ns : Text) (i : Nat) (hi : 1 ≤ i) (hl : i ≤ (splitDot ns).length) :
    DottedPrefix (cand ns i) ns := by
  by_cases h : i = (splitDot ns).length
  · left; rw [h, cand_full]
  · right
    obtain ⟨rest, hr⟩ := cand_lt ns i (splitDot ns).length hi (by omega) (Nat.le_refl _)
    rw [cand_full] at hr
    exact ⟨rest, by simpa using hr.symm⟩

theorem dottedPrefix_is_cand (k ns : Text) (h : DottedPrefix k ns) :
    ∃ i, 1 ≤ i ∧ i ≤ (splitDot ns).length ∧ k = cand ns i := by
  have hpos : 1 ≤ (splitDot ns).length := by
    have := splitDot_ne_nil ns
    cases hs : splitDot ns with
    | nil => exact absurd hs this
    | cons _ _ => simp
  rcases h with h | ⟨rest, h⟩
  · exact ⟨_, hpos, Nat.le_refl _, by rw [cand_full, h]⟩
  · have hsplit : splitDot ns = splitDot k ++ splitDot rest := by
      rw [← h]; simp only [List.append_assoc, List.cons_append, List.nil_append]
      exact splitDot_append_dot k rest
    have hk : 1 ≤ (splitDot k).length := by
      have := splitDot_ne_nil k
      cases hs : splitDot k with
      | nil => exact absurd hs this
      | cons _ _ => simp
    refine ⟨(splitDot k).length, hk, by rw [hsplit]; simp, ?_⟩
    unfold cand
    rw [hsplit, List.take_left, joinDot_splitDot]

/-- what `walk` returns: the first hit going down from `i`, or the default -/
theorem walk_spec (c : LevelCfg) (ns : Text) (i : Nat) :
    (∃ j, 1 ≤ j ∧ j ≤ i ∧ c.find (cand ns j) = some (walk c (splitDot ns) i) ∧
        ∀ j', j < j' → j' ≤ i → c.find (cand ns j') = none) ∨
    (walk c (splitDot ns) i = c.dflt ∧ ∀ j, 1 ≤ j → j ≤ i → c.find (cand ns j) = none) := by
  induction i with
  | zero => right; exact ⟨rfl, fun j h1 h2 => by omega⟩
  | succ i ih =>
    simp only [walk]
    cases hf : c.find (joinDot ((splitDot ns).take (i + 1))) with
    | some l =>
      left
      exact ⟨i + 1, by omega, Nat.le_refl _, by simpa [cand] using hf, fun j' h1 h2 => by omega⟩
    | none =>
      simp only
      rcases ih with ⟨j, h1, h2, h3, h4⟩ | ⟨h1, h2⟩
      · left
        refine ⟨j, h1, by omega, h3, fun j' hj1 hj2 => ?_⟩
        by_cases hj : j' = i + 1
        · subst hj; simpa [cand] using hf
        · exact h4 j' hj1 (by omega)
      · right
        refine ⟨h1, fun j hj1 hj2 => ?_⟩
        by_cases hj : j = i + 1
        · subst hj; simpa [cand] using hf
        · exact h2 j hj1 (by omega)

/-- `Governs c ns lv`: by the hierarchy rule the configuration `c` assigns level `lv` to namespace `ns` —
    the level configured for the longest configured namespace that is `ns` or a dotted ancestor of it,
    or the default level if no configured namespace is. -/
inductive Governs (c : LevelCfg) (ns : Text) : Nat → Prop
  | configured (k : Text) (l : Nat) : k ≠ [] → c.levels.lookup k = some l → DottedPrefix k ns →
      (∀ k' l', k' ≠ [] → c.levels.lookup k' = some l' → DottedPrefix k' ns → k'.length ≤ k.length) →
      Governs c ns l
  | default : (∀ k' l', k' ≠ [] → c.levels.lookup k' = some l' → ¬ DottedPrefix k' ns) → Governs c ns c.dflt

theorem find_nonempty (c : LevelCfg) (k : Text) (h : k ≠ []) : c.find k = c.levels.lookup k := by
  simp [LevelCfg.find, h]

/-- **`logLevelForNamespace` honours the hierarchy**: for every configuration and every non-empty
    namespace it returns the level of the most specific configured dotted prefix, or the default. -/
theorem levelFor_eq_most_specific_prefix (c : LevelCfg) (ns : Text) (lv : Nat) (hns : ns ≠ [])
    (hg : Governs c ns lv) : levelFor c ns = lv := by
  have hL : 1 ≤ (splitDot ns).length := by
    have := splitDot_ne_nil ns
    cases hs : splitDot ns with
    | nil => exact absurd hs this
    | cons _ _ => simp
  unfold levelFor
  simp only [hns, if_false]
  cases hg with
  | configured k _ hk hlook hpre hmax =>
    obtain ⟨i0, hi1, hi2, hki⟩ := dottedPrefix_is_cand k ns hpre
    have hfk : c.find (cand ns i0) = some lv := by rw [← hki, find_nonempty c k hk, hlook]
    by_cases hfull : i0 = (splitDot ns).length
    · rw [hfull, cand_full] at hfk
      simp [hfk]
    · have hlt : k.length < ns.length := by
        have := cand_length_lt ns i0 (splitDot ns).length hi1 (by omega) (Nat.le_refl _)
        rw [cand_full, ← hki] at this; exact this
      cases hfn : c.find ns with
      | some l'' =>
        rw [find_nonempty c ns hns] at hfn
        have := hmax ns l'' hns hfn (Or.inl rfl)
        omega
      | none =>
        simp only
        rcases walk_spec c ns ((splitDot ns).length - 1) with ⟨j, h1, h2, h3, h4⟩ | ⟨_, h2⟩
        · by_cases hj : j = i0
          · subst hj; rw [hfk] at h3; exact (Option.some.inj h3).symm
          · by_cases hjlt : j < i0
            · have := h4 i0 hjlt (by omega)
              rw [hfk] at this; exact absurd this (by simp)
            · have hlen := cand_length_lt ns i0 j hi1 (by omega) (by omega)
              have hne : cand ns j ≠ [] := by intro h; rw [h] at hlen; simp at hlen
              rw [find_nonempty c _ hne] at h3
              have := hmax _ _ hne h3 (cand_dottedPrefix ns j h1 (by omega))
              rw [hki] at this; omega
        · have := h2 i0 hi1 (by omega)
          rw [hfk] at this; exact absurd this (by simp)
  | default hnone =>
    cases hfn : c.find ns with
    | some l'' =>
      rw [find_nonempty c ns hns] at hfn
      exact absurd (Or.inl rfl) (hnone ns l'' hns hfn)
    | none =>
      simp only
      rcases walk_spec c ns ((splitDot ns).length - 1) with ⟨j, h1, h2, h3, _⟩ | ⟨h1, _⟩
      · by_cases hne : cand ns j = []
        · rw [hne] at h3
          simp [LevelCfg.find] at h3
          exact h3.symm
        · rw [find_nonempty c _ hne] at h3
          exact absurd (cand_dottedPrefix ns j h1 (by omega)) (hnone _ _ hne h3)
      · exact h1


theorem dottedPrefix_length_le {k ns : Text} (h : DottedPrefix k ns) : k.length ≤ ns.length := by
  rcases h with h | ⟨rest, h⟩
  · rw [h]; exact Nat.le_refl _
  · rw [← h]; simp

/-- the hierarchy rule always assigns a level: `Governs` is total -/
theorem governs_total (c : LevelCfg) (ns : Text) : ∃ lv, Governs c ns lv := by
  by_cases hex : ∃ k l, k ≠ [] ∧ c.levels.lookup k = some l ∧ DottedPrefix k ns
  · obtain ⟨k, l, hk, hl, hp⟩ := hex
    -- climb to a longest configured dotted prefix
    have climb : ∀ n (k : Text) (l : Nat), k ≠ [] → c.levels.lookup k = some l → DottedPrefix k ns →
        ns.length - k.length ≤ n → ∃ lv, Governs c ns lv := by
      intro n
      induction n with
      | zero =>
        intro k l hk hl hp hn
        refine ⟨l, Governs.configured k l hk hl hp (fun k' l' _ _ hp' => ?_)⟩
        have := dottedPrefix_length_le hp'
        have := dottedPrefix_length_le hp
        omega
      | succ n ih =>
        intro k l hk hl hp hn
        by_cases hmax : ∀ k' l', k' ≠ [] → c.levels.lookup k' = some l' → DottedPrefix k' ns → k'.length ≤ k.length
        · exact ⟨l, Governs.configured k l hk hl hp hmax⟩
        · have ⟨k', hk'⟩ := Classical.not_forall.mp hmax
          have ⟨l', hl'⟩ := Classical.not_forall.mp hk'
          have h1 : k' ≠ [] := Classical.byContradiction fun h => hl' (fun h' => absurd h' h)
          have h2 : c.levels.lookup k' = some l' := Classical.byContradiction fun h => hl' (fun _ h' => absurd h' h)
          have h3 : DottedPrefix k' ns := Classical.byContradiction fun h => hl' (fun _ _ h' => absurd h' h)
          have h4 : ¬ k'.length ≤ k.length := fun h => hl' (fun _ _ _ => h)
          have := dottedPrefix_length_le h3
          exact ih k' l' h1 h2 h3 (by omega)
    exact climb _ k l hk hl hp (Nat.le_refl _)
  · exact ⟨c.dflt, Governs.default (fun k' l' h1 h2 h3 => hex ⟨k', l', h1, h2, h3⟩)⟩

/-- … and the level it assigns is the one `logLevelForNamespace` returns (so it is unique) -/
theorem levelFor_governs (c : LevelCfg) (ns : Text) (hns : ns ≠ []) : Governs c ns (levelFor c ns) := by
  obtain ⟨lv, h⟩ := governs_total c ns
  rw [levelFor_eq_most_specific_prefix c ns lv hns h]; exact h

theorem governs_unique (c : LevelCfg) (ns : Text) (hns : ns ≠ []) (a b : Nat)
    (ha : Governs c ns a) (hb : Governs c ns b) : a = b := by
  rw [← levelFor_eq_most_specific_prefix c ns a hns ha, ← levelFor_eq_most_specific_prefix c ns b hns hb]

/-- the empty namespace is the default namespace -/
theorem levelFor_empty (c : LevelCfg) : levelFor c [] = c.dflt := by simp [levelFor]

/-- **A level filter passes an event exactly when its level is at least the level configured for the
    most specific configured dotted prefix of its namespace (or the default)** — for every configuration,
    every non-empty namespace and every level: the event goes to the wrapped observer iff `lv ≤ l`,
    and to the negative observer otherwise. -/
theorem filter_passes_iff_level_ge_most_specific_prefix (c : LevelCfg) (ns : Text) (l lv : Nat)
    (hns : ns ≠ []) (hg : Governs c ns lv) :
    (filterObserve c [.level] ⟨some l, some ns⟩ = .ok .observer ↔ lv ≤ l) ∧
    (filterObserve c [.level] ⟨some l, some ns⟩ = .ok .negativeObserver ↔ l < lv) := by
  have hlv := levelFor_eq_most_specific_prefix c ns lv hns hg
  by_cases h : l < lv
  · have : ¬ lv ≤ l := by omega
    simp [filterObserve, shouldLog, levelPred, hns, hlv, h, this]
  · have : lv ≤ l := by omega
    simp [filterObserve, shouldLog, levelPred, hns, hlv, h, this]

/-- documented: events without a level or without a namespace are dropped (sent to the negative observer) -/
theorem filter_drops_events_without_level_or_namespace (c : LevelCfg) (ev : Event)
    (h : ev.level = none ∨ ev.ns = none ∨ ev.ns = some []) :
    filterObserve c [.level] ev = .ok .negativeObserver := by
  obtain ⟨lvl, ns⟩ := ev
  rcases h with h | h | h
  · simp only at h; subst h; simp [filterObserve, shouldLog, levelPred]
  · simp only at h; subst h; cases lvl <;> simp [filterObserve, shouldLog, levelPred]
  · simp only at h; subst h; cases lvl <;> simp [filterObserve, shouldLog, levelPred]

/-- the other predicates of a `FilteringLogObserver`: `maybe` defers to the rest, `yes`/`no` decide -/
theorem shouldLog_const (c : LevelCfg) (ev : Event) (ps : List Pred) :
    shouldLog c ev (.const .maybe :: ps) = shouldLog c ev ps ∧
    shouldLog c ev (.const .yes :: ps) = .ok true ∧ shouldLog c ev (.const .no :: ps) = .ok false := by
  simp [shouldLog]

/-- what "configured" means in terms of the API: the last `setLogLevelForNamespace` for that namespace
    since the last `clearLogLevels` -/
theorem setLevel_configures (c : LevelCfg) (k : Text) (l : Nat) (hk : k ≠ []) (hl : l < 5) :
    ∃ c', c.setLevel k l = .ok c' ∧ c'.levels.lookup k = some l ∧ c'.dflt = c.dflt ∧
      ∀ k', k' ≠ k → c'.levels.lookup k' = c.levels.lookup k' := by
  refine ⟨{ c with levels := (k, l) :: c.levels }, by simp [LevelCfg.setLevel, hl, hk], by simp [List.lookup], rfl, ?_⟩
  intro k' hk'
  have : (k' == k) = false := by simpa using hk'
  simp [List.lookup, this]

theorem setLevel_default (c : LevelCfg) (l : Nat) (hl : l < 5) :
    c.setLevel [] l = .ok { c with dflt := l } := by simp [LevelCfg.setLevel, hl]

theorem setLevel_invalid (c : LevelCfg) (k : Text) (l : Nat) (hl : 5 ≤ l) :
    c.setLevel k l = .error .invalidLogLevel := by
  have : ¬ l < 5 := by omega
  simp [LevelCfg.setLevel, this]

theorem clear_resets (c : LevelCfg) : c.clear.levels = [] ∧ c.clear.dflt = c.ctorDefault := by
  simp [LevelCfg.clear]

/-! non-vacuity: default `info`(1); `a.b` ↦ `error`(3), `a` ↦ `debug`(0), `a.bc` ↦ `critical`(4) -/
def demoCfg : LevelCfg := ⟨1, 1, [(['a', '.', 'b'], 3), (['a'], 0), (['a', '.', 'b', 'c'], 4)]⟩

example : Governs demoCfg ['a', '.', 'b', '.', 'c'] 3 := by
  have := levelFor_governs demoCfg ['a', '.', 'b', '.', 'c'] (by decide)
  rwa [show levelFor demoCfg ['a', '.', 'b', '.', 'c'] = 3 by decide] at this

example : Governs demoCfg ['a', '.', 'b', 'x'] 0 := by
  have := levelFor_governs demoCfg ['a', '.', 'b', 'x'] (by decide)
  rwa [show levelFor demoCfg ['a', '.', 'b', 'x'] = 0 by decide] at this

example : Governs demoCfg ['z'] 1 := by
  have := levelFor_governs demoCfg ['z'] (by decide)
  rwa [show levelFor demoCfg ['z'] = 1 by decide] at this

example : DottedPrefix ['a', '.', 'b'] ['a', '.', 'b', '.', 'c'] := Or.inr ⟨['c'], rfl⟩

end Filter

end TwistedProps.C57
