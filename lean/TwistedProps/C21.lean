import TwistedProps.C21.Global
/-!
C21 — pipelined requests are handled one at a time; every notifyFinish Deferred fires exactly once.

Proved here on the channel model (`TwistedModel/Http/Channel.lean`), for EVERY application (`App`: what it writes
in `requestReceived`, whether it finishes there, later or never, how many `notifyFinish()` Deferreds it takes) and
EVERY history `ops : List Op` from a fresh connection (bytes delivered in any segmentation, the application
finishing the request it holds, the application dropping the client itself — `Op.close`: `request.loseConnection()`
on the request it holds —, transport pause/resume, connection loss at any event boundary).  A resource that raises is an
`App` whose `onRequest` is what `server.Request.processingFailed` writes, finished (`siteApp`, script modes 4/5):

* `at_most_one_request_in_flight` — (a) at every point of the outputs the requests handed over are at most one
  ahead of the `requestDone`s; `requestReceived` only happens when every earlier request is done; `requestDone(k)`
  is for the request in flight, which is number `k`;
* `responses_in_request_order_not_interleaved` — (b) the application's bytes for request `k` are written only while
  `k` is the request in flight, the channel's own bytes (`100 Continue`, `400 Bad Request`) only while none is;
  `written_is_concatenation_of_responses` — hence the bytes on the wire are
  `own 0 ++ resp 0 ++ own 1 ++ resp 1 ++ …` (per-request responses in request order, the channel's own lines between);
* `notifyFinish_fires_exactly_once` — (c) for every request `k` handed over, its Deferreds fire in ONE batch of all
  of them: with `None` iff `requestDone(k)` ran (necessarily before the loss), else with a failure iff the
  connection was lost, else not yet (`pending_while_in_flight`: they are all still held);
  `notifyFinish_result_matches_order` — a firing with `None` comes after `requestDone(k)`, a firing with a failure
  while `k` is still the request in flight;
  `no_firing_without_request` — nothing fires for a request number never handed over.

They follow from an invariant (`TwistedProps/C21/`: `T` over the outputs — the automaton `alt` and the per-request
accounting `expected` — and `J` tying it to `Chan.nreq`, `inflight`, `pendingNotify`, `lineMode`, `handling`) kept by
`allContentReceived`, `lineReceived`, `rawDataReceived`, every iteration of the receive loop (`drain_J`) and every
event (`step_good`), hence true after any history (`reach_good`).  The local facts proved earlier are its step cases:

* `nothing_after_loss`, `nothing_after_loss_run` — once `connectionLost` has run, no event (delivery,
  finish, pause, resume, a second loss) changes anything: nothing more is written, no Deferred fires again;
* `loss_fires_pending` — `connectionLost` fires exactly the Deferreds still pending on the request in
  flight, with a failure, and leaves none pending;
* `history_with_loss` — in any history, everything after the first loss is irrelevant: the outcome is that
  of the events before it followed by the loss (this is "loss at every event boundary": the boundary is
  the length of the prefix, arbitrary);
* `finish_fires_pending` — when the application finishes the request it holds, the response bytes come
  first, then `requestDone`, then whatever the replay of buffered pipelined data does, and the request's pending
  Deferreds fire with `None` last;
* `finish_without_request` — a finish with no request in flight does nothing (a second finish, or one
  after the response already completed).

Modelling conventions the statements rest on (tied to the real code by `harness/corr/C21.py`, event order
included): the Deferreds of one request are a count, and `Out.notify k n ok` is the `for d in notifications` loop
firing all `n` of them with the same result (one batch = each of them once); `step` delivers nothing after
`loseConnection`/`connectionLost` and lets the application finish only a request it still holds on a live connection.
-/
namespace TwistedProps.C21
open Twisted.Http.Chunked hiding St feed init
open Twisted.Http.Channel

/-- **after the loss nothing happens** -/
theorem nothing_after_loss (app : App) (s : St) (h : s.lost = true) (op : Op) : step app s op = s := by
  cases op <;> simp [step, St.stopped, h]

theorem nothing_after_loss_run (app : App) (s : St) (h : s.lost = true) (ops : List Op) : runOps app s ops = s := by
  induction ops with
  | nil => rfl
  | cons o os ih =>
    show runOps app (step app s o) os = s
    rw [nothing_after_loss app s h o]
    exact ih

/-- **the loss fires what is pending, with a failure, and leaves nothing pending** -/
theorem loss_fires_pending (s : St) :
    (connectionLost s).outs = s.outs ++
      (if s.chan.inflight.isSome then notifyOuts (s.chan.nreq - 1) s.chan.pendingNotify false else []) ∧
    (connectionLost s).chan.pendingNotify = 0 ∧ (connectionLost s).lost = true ∧
    written (connectionLost s).outs = written s.outs := by
  refine ⟨rfl, rfl, rfl, ?_⟩
  simp only [connectionLost]
  have hw : ∀ (a b : List Out), written (a ++ b) = written a ++ written b := by
    intro a b
    induction a with
    | nil => rfl
    | cons x r ih => cases x <;> simp [written, ih]
  rw [hw]
  split
  · unfold notifyOuts; split <;> simp [written]
  · simp [written]

/-- the application dropping the client writes nothing, fires nothing, hands nothing over: the request it holds stays
    in flight with its Deferreds pending (they fire at the loss — `loss_fires_pending` — or at `finish`) -/
theorem close_keeps_request (s : St) :
    written (appClose s).outs = written s.outs ∧ delivered (appClose s).outs = delivered s.outs ∧
    (appClose s).chan.inflight = s.chan.inflight ∧ (appClose s).chan.pendingNotify = s.chan.pendingNotify ∧
    (appClose s).lost = s.lost := by
  unfold appClose
  have hw : ∀ (a : List Out), written (a ++ [Out.lose]) = written a := by
    intro a
    induction a with
    | nil => rfl
    | cons x r ih => cases x <;> simp [written, ih]
  have hd : ∀ (a : List Out), delivered (a ++ [Out.lose]) = delivered a := by
    intro a
    induction a with
    | nil => rfl
    | cons x r ih => cases x <;> simp [delivered, ih]
  split
  · exact ⟨hw _, hd _, rfl, rfl, rfl⟩
  · exact ⟨rfl, rfl, rfl, rfl, rfl⟩

theorem lost_after_lose (app : App) (s : St) : (step app s .lose).lost = true := by
  simp only [step]
  split
  · assumption
  · rfl

/-- **loss at any event boundary**: whatever follows the loss is irrelevant -/
theorem history_with_loss (app : App) (s : St) (before after : List Op) :
    runOps app s (before ++ .lose :: after) = step app (runOps app s before) .lose := by
  simp only [runOps, List.foldl_append, List.foldl_cons]
  exact nothing_after_loss_run app _ (lost_after_lose app _) after

/-- a finish with no request in flight does nothing -/
theorem finish_without_request (app : App) (s : St) (h : s.chan.inflight = none) : step app s .finish = s := by
  simp only [step, finishLater, h]
  split <;> rfl

/-- what a delivery adds to the outputs -/
def feedTail (app : App) (s : St) (data : Bytes) : List Out :=
  if s.chan.dead then [] else (drain app ((s.buffer ++ data).length + 1) s.chan (s.buffer ++ data)).2.2

theorem feed_outs (app : App) (s : St) (data : Bytes) :
    (Twisted.Http.Channel.feed app s data).outs = s.outs ++ feedTail app s data := by
  unfold Twisted.Http.Channel.feed feedTail
  split <;> simp

/-- **finishing fires what is pending, with `None`, after the response, `requestDone` and the replay of buffered
    data** (the step case of `notifyFinish_fires_exactly_once`) -/
theorem finish_fires_pending (app : App) (s : St) (req : Req) (h : s.chan.inflight = some req)
    (hf : app.finishable (s.chan.nreq - 1) req = true) :
    ∃ mid, (finishLater app s).outs =
      s.outs ++ (if (app.onFinish (s.chan.nreq - 1) req).isEmpty then [] else [Out.appWrite (s.chan.nreq - 1) (app.onFinish (s.chan.nreq - 1) req)])
        ++ [Out.done (s.chan.nreq - 1)] ++ mid ++ notifyOuts (s.chan.nreq - 1) s.chan.pendingNotify true := by
  unfold finishLater
  simp only [h, hf, Bool.not_true, Bool.false_eq_true, if_false]
  unfold requestDoneCore
  by_cases hp : s.chan.persistent = true
  · simp only [hp, if_true]
    by_cases hd : s.chan.dataBuffer.isEmpty = true
    · simp only [hd, if_true]
      exact ⟨if s.chan.waiting then [] else [Out.tpause false], by simp [List.append_assoc]⟩
    · simp only [hd, Bool.false_eq_true, if_false]
      rw [feed_outs]
      generalize feedTail app _ _ = ft
      exact ⟨(if s.chan.waiting then [] else [Out.tpause false]) ++ ft, by simp [List.append_assoc]⟩
  · simp only [hp]
    exact ⟨(if s.chan.waiting then [] else [Out.tpause false]) ++ [Out.lose], by simp [List.append_assoc]⟩

/-! ### non-vacuity: one request held by the application with two Deferreds, then the loss, then a finish -/

def exApp : App where
  onRequest := fun _ _ => ([], false)
  notifies := fun _ _ => 2
  finishable := fun _ _ => true
  onFinish := fun _ _ => [72]

/-- `GET / HTTP/1.1\r\n\r\n` -/
def exReq : Bytes := [71, 69, 84, 32, 47, 32, 72, 84, 84, 80, 47, 49, 46, 49, 13, 10, 13, 10]

example : (runOps exApp init [.data exReq, .lose, .finish, .data exReq, .lose]).outs =
      (runOps exApp init [.data exReq]).outs ++ [.notify 0 2 false] ∧
    (runOps exApp init [.data exReq, .finish]).outs =
      (runOps exApp init [.data exReq]).outs ++ [.appWrite 0 [72], .done 0, .tpause false, .notify 0 2 true] := by
  decide +kernel

/-- the application drops the client while it holds the request (two Deferreds), then the connection goes: they fire with
    a failure, once; had it finished instead, with `None` -/
example : (runOps exApp init [.data exReq, .close, .lose, .finish]).outs =
      (runOps exApp init [.data exReq]).outs ++ [.lose, .notify 0 2 false] ∧
    (runOps exApp init [.data exReq, .close, .finish, .lose]).outs =
      (runOps exApp init [.data exReq]).outs ++ [.lose, .appWrite 0 [72], .done 0, .tpause false, .notify 0 2 true] := by
  decide +kernel

/-! ### the global statements: any application, any history -/

/-- the outputs of any history are accepted by the one-request-at-a-time automaton -/
theorem history_alt (app : App) (ops : List Op) :
    alt 0 false (runOps app init ops).outs =
      some ((runOps app init ops).chan.nreq, (runOps app init ops).chan.inflight.isSome) :=
  (reach_good app ops).t.alt

/-- **(a) at most one request is in flight.**  In the outputs of ANY history (deliveries in any segmentation,
    finishes, pause/resume, loss anywhere), at every point the requests handed to the application are at most one
    ahead of the `requestDone`s; `requestReceived` happens only when every earlier request is done; and
    `requestDone(k)` is for the request in flight, which is number `k`. -/
theorem at_most_one_request_in_flight (app : App) (ops : List Op) (pre suf : List Out) :
    ((runOps app init ops).outs = pre ++ suf → nDone pre ≤ nReq pre ∧ nReq pre ≤ nDone pre + 1) ∧
    (∀ r, (runOps app init ops).outs = pre ++ .req r :: suf → nReq pre = nDone pre) ∧
    (∀ k, (runOps app init ops).outs = pre ++ .done k :: suf → nReq pre = k + 1 ∧ nDone pre = k) := by
  have ha := history_alt app ops
  refine ⟨fun h => ?_, fun r h => ?_, fun k h => ?_⟩
  · rw [h, alt_append] at ha
    cases hp : alt 0 false pre with
    | none => rw [hp] at ha; simp at ha
    | some g =>
      have := alt_counts _ _ _ _ _ hp
      obtain ⟨n, f⟩ := g
      cases f <;> simp [b2n] at this <;> omega
  · rw [h] at ha
    obtain ⟨f, _, h2, h3⟩ := alt_split _ _ _ _ ha
    cases f
    · simpa [b2n] using h2
    · simp [alt] at h3
  · rw [h] at ha
    obtain ⟨f, _, h2, h3⟩ := alt_split _ _ _ _ ha
    cases f
    · simp [alt] at h3
    · simp [alt] at h3
      simp [b2n] at h2
      omega

/-- **(b) responses are not interleaved and come in request order.**  In the outputs of any history, the
    application writes for request `k` only while `k` is the request in flight (so between `requestReceived` of
    `k` and `requestDone(k)`, and after all earlier requests are done), and the channel writes on its own
    account (`100 Continue`, `400 Bad Request`) only while no request is in flight. -/
theorem responses_in_request_order_not_interleaved (app : App) (ops : List Op) (pre suf : List Out) :
    (∀ k w, (runOps app init ops).outs = pre ++ .appWrite k w :: suf → nReq pre = k + 1 ∧ nDone pre = k) ∧
    (∀ w, (runOps app init ops).outs = pre ++ .write w :: suf → nReq pre = nDone pre) := by
  have ha := history_alt app ops
  refine ⟨fun k w h => ?_, fun w h => ?_⟩
  · rw [h] at ha
    obtain ⟨f, _, h2, h3⟩ := alt_split _ _ _ _ ha
    cases f
    · simp [alt] at h3
    · simp [alt] at h3
      simp [b2n] at h2
      omega
  · rw [h] at ha
    obtain ⟨f, _, h2, h3⟩ := alt_split _ _ _ _ ha
    cases f
    · simpa [b2n] using h2
    · simp [alt] at h3

/-- **(c) every notifyFinish Deferred fires exactly once.**  After any history, for every request `k` handed to
    the application (`r`), the firings of its Deferreds are: ONE batch of all the `app.notifies k r` Deferreds it
    took, with `None`, if `requestDone(k)` ran (the response finished — necessarily before the loss, after
    which nothing happens: `nothing_after_loss`); else ONE batch of all of them with a failure if the connection
    was lost; else none yet. -/
theorem notifyFinish_fires_exactly_once (app : App) (ops : List Op) (k : Nat) (r : Req)
    (hr : (delivered (runOps app init ops).outs)[k]? = some r) :
    notifs k (runOps app init ops).outs =
      if Out.done k ∈ (runOps app init ops).outs then notifyOuts k (app.notifies k r) true
      else if (runOps app init ops).lost = true then notifyOuts k (app.notifies k r) false
      else [] := by
  have g := reach_good app ops
  have hk : k < nReq (runOps app init ops).outs := by
    unfold nReq
    exact (List.getElem?_eq_some_iff.mp hr).1
  have hnr := g.t.nreq
  have hnd := g.t.ndone
  have hnf : nfOf app k (runOps app init ops).outs = app.notifies k r := by
    unfold nfOf; rw [hr]
  have hmem := done_mem_iff _ _ g.t.alt k
  rw [g.t.acc k]
  unfold expected fin
  rw [hnf]
  generalize runOps app init ops = s at *
  cases hf : s.chan.inflight.isSome <;> rw [hf] at hnd <;> simp only [b2n] at hnd ⊢ <;> grind

/-- **(c), order.**  In the outputs of any history, Deferreds of request `k` fire with `None` only after
    `requestDone(k)` (its response has finished), and with a failure only while `k` is the request in flight
    (handed over, not done). -/
theorem notifyFinish_result_matches_order (app : App) (ops : List Op) (pre suf : List Out) (k n : Nat) :
    ((runOps app init ops).outs = pre ++ .notify k n true :: suf → Out.done k ∈ pre) ∧
    ((runOps app init ops).outs = pre ++ .notify k n false :: suf → nReq pre = k + 1 ∧ nDone pre = k) := by
  have ha := history_alt app ops
  refine ⟨fun h => ?_, fun h => ?_⟩
  · rw [h] at ha
    obtain ⟨f, h1, h2, h3⟩ := alt_split _ _ _ _ ha
    rw [done_mem_iff _ _ h1 k]
    cases f <;> simp [alt, b2n] at h3 h2 <;> omega
  · rw [h] at ha
    obtain ⟨f, h1, h2, h3⟩ := alt_split _ _ _ _ ha
    cases f <;> simp [alt, b2n] at h3 h2
    omega

/-- no Deferred fires for a request that was never handed over -/
theorem no_firing_without_request (app : App) (ops : List Op) (k : Nat)
    (hr : (delivered (runOps app init ops).outs)[k]? = none) : notifs k (runOps app init ops).outs = [] := by
  have g := reach_good app ops
  have hk : nReq (runOps app init ops).outs ≤ k := by
    unfold nReq
    exact List.getElem?_eq_none_iff.mp hr
  have hnr := g.t.nreq
  have hnd := g.t.ndone
  rw [g.t.acc k]
  unfold expected fin
  cases hf : (runOps app init ops).chan.inflight.isSome <;> rw [hf] at hnd <;> simp only [b2n] at hnd ⊢ <;> grind

/-- while a request is in flight and the connection is up, its Deferreds are all still held by the request -/
theorem pending_while_in_flight (app : App) (ops : List Op) (r : Req)
    (hi : (runOps app init ops).chan.inflight = some r) (hl : (runOps app init ops).lost = false) :
    (delivered (runOps app init ops).outs)[(runOps app init ops).chan.nreq - 1]? = some r → 
    (runOps app init ops).chan.pendingNotify = app.notifies ((runOps app init ops).chan.nreq - 1) r := by
  intro hr
  have g := reach_good app ops
  rw [g.pend (by rw [hi]; rfl) hl]
  unfold nfOf; rw [hr]

/-- **(b), as an equation.**  The bytes on the wire after any history are, request by request in request order,
    the channel's own lines written while `k` requests had been handed over (`own 0 k`: `100 Continue` for request
    `k`, a final `400 Bad Request`) followed by the whole response of request `k` (`resp k`: everything the
    application wrote for it): `own 0 ++ resp 0 ++ own 1 ++ resp 1 ++ … ++ own n ++ resp n`, `n` = requests handed over
    (`resp n` is empty). -/
theorem written_is_concatenation_of_responses (app : App) (ops : List Op) :
    written (runOps app init ops).outs =
      catN (fun k => own 0 k (runOps app init ops).outs ++ resp k (runOps app init ops).outs) 0
        (nReq (runOps app init ops).outs + 1) := by
  have g := reach_good app ops
  have := written_alt 0 false _ _ _ g.t.alt
  rw [this, g.t.nreq]
  simp

/-! ### non-vacuity of the global statements: two pipelined requests in one delivery; the first is finished later
(1 Deferred), the second inside `requestReceived` (2 Deferreds); a third is in flight when the connection is lost -/

def exApp2 : App where
  onRequest := fun k _ => if k = 1 then ([75], true) else ([], false)
  notifies := fun k _ => k + 1
  finishable := fun _ _ => true
  onFinish := fun _ _ => [72]

/-- `GET / HTTP/1.1\r\nExpect: 100-continue\r\n\r\n` -/
def exReq100 : Bytes := [71, 69, 84, 32, 47, 32, 72, 84, 84, 80, 47, 49, 46, 49, 13, 10,
  69, 120, 112, 101, 99, 116, 58, 32, 49, 48, 48, 45, 99, 111, 110, 116, 105, 110, 117, 101, 13, 10, 13, 10]

def exHist : List Op := [.data (exReq ++ exReq.take 7), .pause, .data (exReq.drop 7), .finish, .resume, .data exReq100, .lose, .finish]

example :
    let o := (runOps exApp2 init exHist).outs
    nReq o = 3 ∧ nDone o = 2 ∧ (runOps exApp2 init exHist).lost = true ∧
    written o = [72, 75] ++ continueBytes ∧
    resp 0 o = [72] ∧ resp 1 o = [75] ∧ resp 2 o = [] ∧ own 0 2 o = continueBytes ∧ own 0 0 o = [] ∧
    notifs 0 o = [.notify 0 1 true] ∧ notifs 1 o = [.notify 1 2 true] ∧ notifs 2 o = [.notify 2 3 false] ∧
    Out.done 1 ∈ o ∧ Out.done 2 ∉ o ∧
    (o.filter fun x => isReq x || isDone x || isNotifyOf 0 x || isNotifyOf 1 x || isNotifyOf 2 x).map
        (fun x => match x with | .req _ => 0 | .done k => 10 + k | .notify k _ _ => 20 + k | _ => 99) =
      [0, 10, 0, 11, 21, 20, 0, 22] := by
  decide +kernel

end TwistedProps.C21
