import TwistedModel.Http.Channel
/-!
C21 — pipelined requests are handled one at a time; every notifyFinish Deferred fires exactly once.

Proved here on the channel model (`TwistedModel/Http/Channel.lean`), for every application, state and
history:

* `nothing_after_loss`, `nothing_after_loss_run` — once `connectionLost` has run, no event (delivery,
  finish, pause, resume, a second loss) changes anything: nothing more is written, no Deferred fires again;
* `loss_fires_pending` — `connectionLost` fires exactly the Deferreds still pending on the request in
  flight, with a failure, and leaves none pending;
* `history_with_loss` — in any history, everything after the first loss is irrelevant: the outcome is that
  of the events before it followed by the loss (this is "loss at every event boundary": the boundary is
  the length of the prefix, arbitrary);
* `finish_fires_pending` — when the application finishes the request it holds, the response bytes come
  first, then whatever the replay of buffered pipelined data does, and the request's pending Deferreds fire
  with `None` last, and `requestDone` handed nothing to the application before the response was complete;
* `finish_without_request` — a finish with no request in flight does nothing (a second finish, or one
  after the response already completed).

PARTIAL.  The global statements of the property — for every history at most one request is in flight,
the bytes written are the concatenation of the per-request responses in request order, and the number of
firings per Deferred is exactly one — need an invariant over `drain` tying `Chan.inflight`,
`Chan.handling` and the outputs together (`inflight.isSome → handling`, `req` outputs alternate with
`done` outputs).  That invariant is NOT proved here; it is checked on every run on the real code by the
oracle of `harness/corr/C21.py` (event log of the real channel) and the tie compares the order of events
of model and code.  Hence `finish_fires_pending` and `loss_fires_pending` are local (one event) facts.
-/
namespace TwistedProps.C21
open Twisted.Http.Chunked hiding St feed init
open Twisted.Http.Channel

/-- **after the loss nothing happens** -/
theorem nothing_after_loss (app : App) (s : St) (h : s.lost = true) (op : Op) : step app s op = s := by
  cases op <;> simp [step, St.stopped, h]

theorem nothing_after_loss_run (app : App) (s : St) (h : s.lost = true) (ops : List Op) : runOps app s ops = s := by
  induction ops with
  | nil => rfl
  | cons o os ih =>
    show runOps app (step app s o) os = s
    rw [nothing_after_loss app s h o]
    exact ih

/-- **the loss fires what is pending, with a failure, and leaves nothing pending** -/
theorem loss_fires_pending (s : St) :
    (connectionLost s).outs = s.outs ++
      (if s.chan.inflight.isSome then notifyOuts (s.chan.nreq - 1) s.chan.pendingNotify false else []) ∧
    (connectionLost s).chan.pendingNotify = 0 ∧ (connectionLost s).lost = true ∧
    written (connectionLost s).outs = written s.outs := by
  refine ⟨rfl, rfl, rfl, ?_⟩
  simp only [connectionLost]
  have hw : ∀ (a b : List Out), written (a ++ b) = written a ++ written b := by
    intro a b
    induction a with
    | nil => rfl
    | cons x r ih => cases x <;> simp [written, ih]
  rw [hw]
  split
  · unfold notifyOuts; split <;> simp [written]
  · simp [written]

theorem lost_after_lose (app : App) (s : St) : (step app s .lose).lost = true := by
  simp only [step]
  split
  · assumption
  · rfl

/-- **loss at any event boundary**: whatever follows the loss is irrelevant -/
theorem history_with_loss (app : App) (s : St) (before after : List Op) :
    runOps app s (before ++ .lose :: after) = step app (runOps app s before) .lose := by
  simp only [runOps, List.foldl_append, List.foldl_cons]
  exact nothing_after_loss_run app _ (lost_after_lose app _) after

/-- a finish with no request in flight does nothing -/
theorem finish_without_request (app : App) (s : St) (h : s.chan.inflight = none) : step app s .finish = s := by
  simp only [step, finishLater, h]
  split <;> rfl

/-- what a delivery adds to the outputs -/
def feedTail (app : App) (s : St) (data : Bytes) : List Out :=
  if s.chan.dead then [] else (drain app ((s.buffer ++ data).length + 1) s.chan (s.buffer ++ data)).2.2

theorem feed_outs (app : App) (s : St) (data : Bytes) :
    (Twisted.Http.Channel.feed app s data).outs = s.outs ++ feedTail app s data := by
  unfold Twisted.Http.Channel.feed feedTail
  split <;> simp

/-- **finishing fires what is pending, with `None`, after the response and after the replay of buffered
    data** (one event; see the file header for what is missing) -/
theorem finish_fires_pending_partial (app : App) (s : St) (req : Req) (h : s.chan.inflight = some req)
    (hf : app.finishable (s.chan.nreq - 1) req = true) :
    ∃ mid, (finishLater app s).outs =
      s.outs ++ (if (app.onFinish (s.chan.nreq - 1) req).isEmpty then [] else [Out.appWrite (s.chan.nreq - 1) (app.onFinish (s.chan.nreq - 1) req)])
        ++ [Out.done (s.chan.nreq - 1)] ++ mid ++ notifyOuts (s.chan.nreq - 1) s.chan.pendingNotify true := by
  unfold finishLater
  simp only [h, hf, Bool.not_true, Bool.false_eq_true, if_false]
  unfold requestDoneCore
  by_cases hp : s.chan.persistent = true
  · simp only [hp, if_true]
    by_cases hd : s.chan.dataBuffer.isEmpty = true
    · simp only [hd, if_true]
      exact ⟨if s.chan.waiting then [] else [Out.tpause false], by simp [List.append_assoc]⟩
    · simp only [hd, Bool.false_eq_true, if_false]
      rw [feed_outs]
      generalize feedTail app _ _ = ft
      exact ⟨(if s.chan.waiting then [] else [Out.tpause false]) ++ ft, by simp [List.append_assoc]⟩
  · simp only [hp]
    exact ⟨(if s.chan.waiting then [] else [Out.tpause false]) ++ [Out.lose], by simp [List.append_assoc]⟩

/-! ### non-vacuity: one request held by the application with two Deferreds, then the loss, then a finish -/

def exApp : App where
  onRequest := fun _ _ => ([], false)
  notifies := fun _ _ => 2
  finishable := fun _ _ => true
  onFinish := fun _ _ => [72]

/-- `GET / HTTP/1.1\r\n\r\n` -/
def exReq : Bytes := [71, 69, 84, 32, 47, 32, 72, 84, 84, 80, 47, 49, 46, 49, 13, 10, 13, 10]

example : (runOps exApp init [.data exReq, .lose, .finish, .data exReq, .lose]).outs =
      (runOps exApp init [.data exReq]).outs ++ [.notify 0 2 false] ∧
    (runOps exApp init [.data exReq, .finish]).outs =
      (runOps exApp init [.data exReq]).outs ++ [.appWrite 0 [72], .done 0, .tpause false, .notify 0 2 true] := by
  decide +kernel

end TwistedProps.C21
