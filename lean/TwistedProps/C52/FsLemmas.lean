import TwistedModel.Fs.Sim
/-!
Finite-map lemmas for the crash-able filesystem `TwistedModel/Fs/Sim.lean` (used by C51, C52, C53).
-/
namespace Twisted.Fs

@[simp] theorem get_nil (n : Name) : get [] n = none := rfl

theorem get_cons (m : Name) (c : Bytes) (rest : Fs) (n : Name) :
    get ((m, c) :: rest) n = if m = n then some c else get rest n := rfl

@[simp] theorem get_erase_self (fs : Fs) (n : Name) : get (erase fs n) n = none := by
  induction fs with
  | nil => rfl
  | cons e rest ih =>
    obtain ⟨m, c⟩ := e
    by_cases h : m = n
    · simp [erase, h] at ih ⊢; exact ih
    · simp [erase, h, get_cons] at ih ⊢; exact ih

theorem get_erase_ne (fs : Fs) {n m : Name} (h : m ≠ n) : get (erase fs n) m = get fs m := by
  induction fs with
  | nil => rfl
  | cons e rest ih =>
    obtain ⟨a, c⟩ := e
    simp [erase] at ih
    by_cases ha : a = n
    · have hne : ¬ n = m := fun hh => h hh.symm
      subst ha
      simp [erase, get_cons, hne, ih]
    · simp [erase, ha, get_cons, ih]

@[simp] theorem get_set_self (fs : Fs) (n : Name) (c : Bytes) : get (set fs n c) n = some c := by
  simp [set, get_cons]

theorem get_set_ne (fs : Fs) {n m : Name} (c : Bytes) (h : m ≠ n) : get (set fs n c) m = get fs m := by
  have : n ≠ m := fun hh => h hh.symm
  simp [set, get_cons, this, get_erase_ne fs h]

theorem get_set (fs : Fs) (n m : Name) (c : Bytes) :
    get (set fs n c) m = if m = n then some c else get fs m := by
  by_cases h : m = n
  · subst h; simp
  · simp [h, get_set_ne fs c h]

@[simp] theorem run_nil (fs : Fs) : run [] fs = fs := rfl
@[simp] theorem run_cons (p : Prim) (tr : List Prim) (fs : Fs) : run (p :: tr) fs = run tr (p.apply fs) := rfl
theorem run_append (a b : List Prim) (fs : Fs) : run (a ++ b) fs = run b (run a fs) := by
  simp [run, List.foldl_append]

/-- what each primitive does to a lookup -/
theorem get_apply_create (fs : Fs) (n m : Name) :
    get (Prim.apply fs (.create n)) m = if m = n then some [] else get fs m := by
  simp [Prim.apply, get_set]

theorem get_apply_remove (fs : Fs) (n m : Name) :
    get (Prim.apply fs (.remove n)) m = if m = n then none else get fs m := by
  by_cases h : m = n
  · subst h; simp [Prim.apply]
  · simp [Prim.apply, h, get_erase_ne fs h]

theorem get_apply_write (fs : Fs) (n m : Name) (d : Bytes) :
    get (Prim.apply fs (.write n d)) m =
      if m = n then (get fs n).map (· ++ d) else get fs m := by
  cases hg : get fs n with
  | none => by_cases h : m = n <;> simp [Prim.apply, h, hg]
  | some c => simp [Prim.apply, hg, get_set]

theorem get_apply_rename (fs : Fs) (a b m : Name) :
    get (Prim.apply fs (.rename a b)) m =
      match get fs a with
      | none => get fs m
      | some c => if m = b then some c else if m = a then none else get fs m := by
  cases hg : get fs a with
  | none => simp [Prim.apply, hg]
  | some c =>
    simp only [Prim.apply, hg, get_set]
    by_cases hb : m = b
    · simp [hb]
    · by_cases ha : m = a
      · subst ha; simp [hb]
      · simp [hb, ha, get_erase_ne fs ha]

/-- a crash at or beyond the end of the trace is the completed run -/
theorem crashAt_ge (tr : List Prim) (k p : Nat) (fs : Fs) (h : tr.length ≤ k) :
    crashAt tr k p fs = run tr fs := by
  simp [crashAt, List.take_of_length_le h, List.drop_eq_nil_of_le h]

end Twisted.Fs
