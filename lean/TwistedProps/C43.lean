import TwistedModel.Irc.Split
import TwistedModel.Irc.Ctcp
import TwistedModel.Irc.History
import TwistedProps.C43.Utf8
/-!
C43 — IRC messages are split within the length limit without losing content; CTCP and
low-level quoting round-trip any text.

"Round-trip" is proved at three levels: the quoting functions (`low_roundtrip`, `ctcp_roundtrip`),
the CTCP framing `ctcpStringify` → `ctcpExtract` for arbitrary data texts — leading, trailing,
only whitespace included — alone or interleaved with normal text (`ctcp_stringify_roundtrip`,
`ctcp_extract_interleaved`), and client → client (`ctcp_query_client_to_client`,
`ctcp_reply_client_to_client`: `ctcpMakeQuery`/`ctcpMakeReply` → wire → the peer's
`ctcpQuery`/`ctcpReply`, for CTCP texts `msg()` sends whole).
-/
namespace TwistedProps.C43
open Twisted.Irc.Split Twisted.Irc.Ctcp Twisted.Irc.History

/-! ### The sequential `str.replace` calls are one per-character substitution -/

def lq1 (c : Char) : Text :=
  if c = M_QUOTE then [M_QUOTE, M_QUOTE] else if c = NUL then [M_QUOTE, '0']
  else if c = NL then [M_QUOTE, 'n'] else if c = CR then [M_QUOTE, 'r'] else [c]

theorem lowQuote_eq_flatMap (s : Text) : lowQuote s = s.flatMap lq1 := by
  unfold lowQuote replaceChar
  rw [List.flatMap_assoc, List.flatMap_assoc, List.flatMap_assoc]
  congr 1
  funext x
  unfold lq1
  by_cases h1 : x = M_QUOTE
  · subst h1; decide
  · by_cases h2 : x = NUL
    · subst h2; decide
    · by_cases h3 : x = NL
      · subst h3; decide
      · by_cases h4 : x = CR
        · subst h4; decide
        · simp [h1, h2, h3, h4]

theorem lowQuote_nil : lowQuote [] = [] := by simp [lowQuote_eq_flatMap]
theorem lowQuote_cons (c : Char) (s : Text) : lowQuote (c :: s) = lq1 c ++ lowQuote s := by
  simp [lowQuote_eq_flatMap]
theorem lowQuote_append (a b : Text) : lowQuote (a ++ b) = lowQuote a ++ lowQuote b := by
  simp [lowQuote_eq_flatMap]

def xq1 (c : Char) : Text :=
  if c = X_QUOTE then [X_QUOTE, X_QUOTE] else if c = X_DELIM then [X_QUOTE, 'a'] else [c]

theorem ctcpQuote_eq_flatMap (s : Text) : ctcpQuote s = s.flatMap xq1 := by
  unfold ctcpQuote replaceChar
  rw [List.flatMap_assoc]
  congr 1
  funext x
  unfold xq1
  by_cases h1 : x = X_QUOTE
  · subst h1; decide
  · by_cases h2 : x = X_DELIM
    · subst h2; decide
    · simp [h1, h2]

theorem ctcpQuote_cons (c : Char) (s : Text) : ctcpQuote (c :: s) = xq1 c ++ ctcpQuote s := by
  simp [ctcpQuote_eq_flatMap]

/-! ### Dequoting: one-step unfoldings -/

theorem lowDequote_esc (d : Char) (rest : Text) :
    lowDequote (M_QUOTE :: d :: rest) = mDequote d :: lowDequote rest := by
  simp [lowDequote]

theorem lowDequote_lit (c : Char) (rest : Text) (h : c ≠ M_QUOTE) :
    lowDequote (c :: rest) = c :: lowDequote rest := by
  cases rest <;> simp [lowDequote, h]

theorem ctcpDequote_esc (d : Char) (rest : Text) :
    ctcpDequote (X_QUOTE :: d :: rest) = xDequote d :: ctcpDequote rest := by
  simp [ctcpDequote]

theorem ctcpDequote_lit (c : Char) (rest : Text) (h : c ≠ X_QUOTE) :
    ctcpDequote (c :: rest) = c :: ctcpDequote rest := by
  cases rest <;> simp [ctcpDequote, h]

theorem lowDequote_lq1 (c : Char) (rest : Text) : lowDequote (lq1 c ++ rest) = c :: lowDequote rest := by
  unfold lq1
  by_cases h1 : c = M_QUOTE
  · subst h1; simp only [if_true, List.cons_append, List.nil_append]; rw [lowDequote_esc]; rfl
  · by_cases h2 : c = NUL
    · subst h2; simp only [h1, if_false, if_true, List.cons_append, List.nil_append]; rw [lowDequote_esc]; rfl
    · by_cases h3 : c = NL
      · subst h3; simp only [h1, h2, if_false, if_true, List.cons_append, List.nil_append]; rw [lowDequote_esc]; rfl
      · by_cases h4 : c = CR
        · subst h4; simp only [h1, h2, h3, if_false, if_true, List.cons_append, List.nil_append]; rw [lowDequote_esc]; rfl
        · simp only [h1, h2, h3, h4, if_false, List.cons_append, List.nil_append]
          exact lowDequote_lit c rest h1

theorem ctcpDequote_xq1 (c : Char) (rest : Text) : ctcpDequote (xq1 c ++ rest) = c :: ctcpDequote rest := by
  unfold xq1
  by_cases h1 : c = X_QUOTE
  · subst h1; simp only [if_true, List.cons_append, List.nil_append]; rw [ctcpDequote_esc]; rfl
  · by_cases h2 : c = X_DELIM
    · subst h2; simp only [h1, if_false, if_true, List.cons_append, List.nil_append]; rw [ctcpDequote_esc]; rfl
    · simp only [h1, h2, if_false, List.cons_append, List.nil_append]
      exact ctcpDequote_lit c rest h1

/-! ### Quoting round-trips — every text -/

/-- **Low-level quoting round-trips**: `lowDequote(lowQuote(s)) == s` for every text. -/
theorem low_roundtrip (s : Text) : lowDequote (lowQuote s) = s := by
  induction s with
  | nil => simp [lowQuote_nil, lowDequote]
  | cons c s ih => rw [lowQuote_cons, lowDequote_lq1, ih]

example : lowDequote (lowQuote [M_QUOTE, 'n', NUL, '0', CR, NL, M_QUOTE]) = [M_QUOTE, 'n', NUL, '0', CR, NL, M_QUOTE] := by
  decide
example : lowQuote ['a', NL, M_QUOTE] = ['a', M_QUOTE, 'n', M_QUOTE, M_QUOTE] := by decide

/-- **CTCP quoting round-trips**: `ctcpDequote(ctcpQuote(s)) == s` for every text. -/
theorem ctcp_roundtrip (s : Text) : ctcpDequote (ctcpQuote s) = s := by
  induction s with
  | nil => simp [ctcpQuote_eq_flatMap, ctcpDequote]
  | cons c s ih => rw [ctcpQuote_cons, ctcpDequote_xq1, ih]

example : ctcpDequote (ctcpQuote ['\\', 'a', X_DELIM, '\\', '\\', 'a']) = ['\\', 'a', X_DELIM, '\\', '\\', 'a'] := by
  decide
example : ctcpQuote [X_DELIM, '\\'] = ['\\', 'a', '\\', '\\'] := by decide

/-! ### What is on the wire: no NUL / CR / LF survives quoting; UTF-8 octets -/

theorem lq1_cases (c : Char) :
    (c = M_QUOTE ∧ lq1 c = [M_QUOTE, M_QUOTE]) ∨ (c = NUL ∧ lq1 c = [M_QUOTE, '0']) ∨
    (c = NL ∧ lq1 c = [M_QUOTE, 'n']) ∨ (c = CR ∧ lq1 c = [M_QUOTE, 'r']) ∨
    (c ≠ M_QUOTE ∧ c ≠ NUL ∧ c ≠ NL ∧ c ≠ CR ∧ lq1 c = [c]) := by
  by_cases h1 : c = M_QUOTE
  · subst h1; exact Or.inl ⟨rfl, by decide⟩
  · by_cases h2 : c = NUL
    · subst h2; exact Or.inr (Or.inl ⟨rfl, by decide⟩)
    · by_cases h3 : c = NL
      · subst h3; exact Or.inr (Or.inr (Or.inl ⟨rfl, by decide⟩))
      · by_cases h4 : c = CR
        · subst h4; exact Or.inr (Or.inr (Or.inr (Or.inl ⟨rfl, by decide⟩)))
        · exact Or.inr (Or.inr (Or.inr (Or.inr ⟨h1, h2, h3, h4, by simp [lq1, h1, h2, h3, h4]⟩)))

theorem lq1_clean (c x : Char) (h : x ∈ lq1 c) : x ≠ NUL ∧ x ≠ NL ∧ x ≠ CR := by
  rcases lq1_cases c with ⟨_, e⟩ | ⟨_, e⟩ | ⟨_, e⟩ | ⟨_, e⟩ | ⟨_, h2, h3, h4, e⟩
  all_goals rw [e] at h; simp only [List.mem_cons, List.not_mem_nil, or_false] at h
  · rcases h with h | h <;> subst h <;> decide
  · rcases h with h | h <;> subst h <;> decide
  · rcases h with h | h <;> subst h <;> decide
  · rcases h with h | h <;> subst h <;> decide
  · subst h; exact ⟨h2, h3, h4⟩

/-- the output of `lowQuote` never contains NUL, LF or CR -/
theorem lowQuote_clean (s : Text) : ∀ x ∈ lowQuote s, x ≠ NUL ∧ x ≠ NL ∧ x ≠ CR := by
  intro x hx
  rw [lowQuote_eq_flatMap, List.mem_flatMap] at hx
  obtain ⟨c, _, hxc⟩ := hx
  exact lq1_clean c x hxc

theorem toNat_ne_of_ne (x : Char) (n : Nat) (h : x ≠ Char.ofNat n) : x.toNat ≠ n := by
  intro hn; apply h; rw [← hn, Char.ofNat_toNat]

/-- UTF-8 never produces the octets CR (13) or LF (10) except for those characters themselves -/
theorem utf8_no_crlf (x : Char) (hn : x ≠ NL) (hr : x ≠ CR) : ∀ b ∈ utf8 x, b ≠ 13 ∧ b ≠ 10 := by
  have h10 : x.toNat ≠ 10 := toNat_ne_of_ne x 10 hn
  have h13 : x.toNat ≠ 13 := toNat_ne_of_ne x 13 hr
  intro b hb
  have key : ∀ k : Nat, b = k.toUInt8 → (k < 256 ∧ k ≠ 13 ∧ k ≠ 10) → b ≠ 13 ∧ b ≠ 10 := by
    intro k hk hlt
    subst hk
    constructor
    · intro h; have := congrArg UInt8.toNat h; simp at this; omega
    · intro h; have := congrArg UInt8.toNat h; simp at this; omega
  unfold utf8 at hb
  simp only at hb
  split at hb
  · simp only [List.mem_cons, List.not_mem_nil, or_false] at hb
    exact key _ hb (by omega)
  · split at hb
    · simp only [List.mem_cons, List.not_mem_nil, or_false] at hb
      rcases hb with hb | hb <;> exact key _ hb (by omega)
    · split at hb
      · simp only [List.mem_cons, List.not_mem_nil, or_false] at hb
        rcases hb with hb | hb | hb <;> exact key _ hb (by omega)
      · have hmax : x.toNat < 0x110000 := char_lt x
        simp only [List.mem_cons, List.not_mem_nil, or_false] at hb
        rcases hb with hb | hb | hb | hb <;> exact key _ hb (by omega)

theorem utf8_length (c : Char) : 1 ≤ (utf8 c).length ∧ (utf8 c).length ≤ 4 := by
  unfold utf8
  simp only
  split
  · simp
  · split
    · simp
    · split <;> simp

/-- octets a text occupies on the wire (low-level quoted, UTF-8) -/
def wireLen (s : Text) : Nat := (encode (lowQuote s)).length

theorem wireLen_nil : wireLen [] = 0 := by simp [wireLen, lowQuote_nil, encode]
theorem wireLen_append (a b : Text) : wireLen (a ++ b) = wireLen a + wireLen b := by
  simp [wireLen, lowQuote_append, encode]
theorem wireLen_singleton (c : Char) : wireLen [c] = wireLen1 c := rfl

theorem wire_length (l : Text) : (wire l).length = wireLen l + 2 := by simp [wire, wireLen]

/-- a single character never needs more than 4 octets on the wire -/
theorem wireLen1_le (c : Char) : wireLen1 c ≤ 4 := by
  unfold wireLen1
  rw [lowQuote_cons, lowQuote_nil, List.append_nil]
  have := utf8_length c
  rcases lq1_cases c with ⟨_, e⟩ | ⟨_, e⟩ | ⟨_, e⟩ | ⟨_, e⟩ | ⟨_, _, _, _, e⟩
  · rw [e]; decide
  · rw [e]; decide
  · rw [e]; decide
  · rw [e]; decide
  · rw [e]; simp [encode]; omega

theorem wireLen1_pos (c : Char) : 1 ≤ wireLen1 c := by
  unfold wireLen1
  rw [lowQuote_cons, lowQuote_nil, List.append_nil]
  have := utf8_length c
  rcases lq1_cases c with ⟨_, e⟩ | ⟨_, e⟩ | ⟨_, e⟩ | ⟨_, e⟩ | ⟨_, _, _, _, e⟩
  · rw [e]; decide
  · rw [e]; decide
  · rw [e]; decide
  · rw [e]; decide
  · rw [e]; simp [encode]; omega

/-! ### `_splitOctets` -/

theorem splitOctetsAux_ok (m : Nat) : ∀ (text cur : Text) (size : Nat) (ps : List Text),
    size = wireLen cur → wireLen cur ≤ m → splitOctetsAux m text cur size = .ok ps →
    ps.flatten = cur ++ text ∧ ∀ p ∈ ps, wireLen p ≤ m := by
  intro text
  induction text with
  | nil =>
    intro cur size ps _ hle h
    simp only [splitOctetsAux, Except.ok.injEq] at h
    subst h
    by_cases he : cur.isEmpty = true
    · have : cur = [] := by simpa using he
      subst this; simp
    · simp only [he, Bool.false_eq_true, if_false, List.append_nil]
      exact ⟨by simp, by intro p hp; simp at hp; subst hp; exact hle⟩
  | cons c rest ih =>
    intro cur size ps hsz hle h
    simp only [splitOctetsAux] at h
    split at h
    · exact absurd h (by simp)
    · rename_i hc
      split at h
      · split at h
        · exact absurd h (by simp)
        · rename_i qs hq
          simp only [Except.ok.injEq] at h
          subst h
          have := ih [c] (wireLen1 c) qs rfl (by rw [wireLen_singleton]; omega) hq
          refine ⟨by simp [this.1], ?_⟩
          intro p hp
          simp only [List.mem_cons] at hp
          rcases hp with hp | hp
          · subst hp; exact hle
          · exact this.2 p hp
      · rename_i hs
        have hw : wireLen (cur ++ [c]) = size + wireLen1 c := by
          rw [wireLen_append, wireLen_singleton, hsz]
        have := ih (cur ++ [c]) (size + wireLen1 c) ps hw.symm (by omega) h
        exact ⟨by simp [this.1], this.2⟩

theorem splitOctetsAux_succeeds (m : Nat) : ∀ (text cur : Text) (size : Nat),
    (∀ c ∈ text, wireLen1 c ≤ m) → ∃ ps, splitOctetsAux m text cur size = .ok ps := by
  intro text
  induction text with
  | nil => intro cur size _; exact ⟨_, rfl⟩
  | cons c rest ih =>
    intro cur size h
    have hc : ¬ wireLen1 c > m := by have := h c (by simp); omega
    have hr : ∀ x ∈ rest, wireLen1 x ≤ m := fun x hx => h x (by simp [hx])
    simp only [splitOctetsAux, hc, if_false]
    split
    · obtain ⟨qs, hq⟩ := ih [c] (wireLen1 c) hr
      rw [hq]; exact ⟨_, rfl⟩
    · exact ih _ _ hr

/-- `_splitOctets`: the pieces concatenate to the text (nothing dropped, added or reordered) and
    each occupies at most `maximum` octets on the wire. -/
theorem splitOctets_ok (text : Text) (m : Nat) (ps : List Text) (h : splitOctets text m = .ok ps) :
    ps.flatten = text ∧ ∀ p ∈ ps, wireLen p ≤ m := by
  have := splitOctetsAux_ok m text [] 0 ps (by simp [wireLen_nil]) (by simp [wireLen_nil]) h
  simpa using this

/-- `_splitOctets` refuses only when a single character does not fit. -/
theorem splitOctets_succeeds (text : Text) (m : Nat) (h : ∀ c ∈ text, wireLen1 c ≤ m) :
    ∃ ps, splitOctets text m = .ok ps := splitOctetsAux_succeeds m text [] 0 h

theorem splitAllOctets_ok (m : Nat) : ∀ (ls ps : List Text), splitAllOctets m ls = .ok ps →
    ps.flatten = ls.flatten ∧ ∀ p ∈ ps, wireLen p ≤ m := by
  intro ls
  induction ls with
  | nil => intro ps h; simp only [splitAllOctets, Except.ok.injEq] at h; subst h; simp
  | cons l ls ih =>
    intro ps h
    simp only [splitAllOctets] at h
    split at h
    · exact absurd h (by simp)
    · rename_i qs hq
      split at h
      · exact absurd h (by simp)
      · rename_i rs hr
        simp only [Except.ok.injEq] at h
        subst h
        have h1 := splitOctets_ok l m qs hq
        have h2 := ih rs hr
        refine ⟨by simp [h1.1, h2.1], ?_⟩
        intro p hp
        simp only [List.mem_append] at hp
        rcases hp with hp | hp
        · exact h1.2 p hp
        · exact h2.2 p hp

theorem splitAllOctets_succeeds (m : Nat) (hm : 4 ≤ m) : ∀ ls : List Text, ∃ ps, splitAllOctets m ls = .ok ps := by
  intro ls
  induction ls with
  | nil => exact ⟨_, rfl⟩
  | cons l ls ih =>
    obtain ⟨qs, hq⟩ := splitOctets_succeeds l m (fun c _ => by have := wireLen1_le c; omega)
    obtain ⟨rs, hr⟩ := ih
    simp only [splitAllOctets, hq, hr]
    exact ⟨_, rfl⟩

/-! ### `str.split("\n")` and whitespace -/

theorem nonspace_append (a b : Text) : nonspace (a ++ b) = nonspace a ++ nonspace b := by
  simp [nonspace]

theorem splitAux_nonspace (sep : Char) (hsep : isSpace sep = true) : ∀ (s cur : Text),
    nonspace (splitAux sep s cur).flatten = nonspace cur ++ nonspace s := by
  intro s
  induction s with
  | nil => intro cur; simp [splitAux, nonspace]
  | cons c s ih =>
    intro cur
    simp only [splitAux]
    split
    · rename_i h; subst h
      simp only [List.flatten_cons, nonspace_append, ih]
      simp [nonspace, hsep]
    · rw [ih, nonspace_append, List.append_assoc]
      congr 1
      exact (nonspace_append [c] s).symm

/-- joining the pieces of `str.split("\n")` loses only the newlines -/
theorem splitOn_nonspace (s : Text) : nonspace (splitOn NL s).flatten = nonspace s := by
  have := splitAux_nonspace NL (by decide) s []
  simpa [splitOn, nonspace] using this

theorem flatMap_nonspace (f : Text → List Text) (hf : ∀ l, nonspace (f l).flatten = nonspace l) :
    ∀ ls : List Text, nonspace (ls.flatMap f).flatten = nonspace ls.flatten := by
  intro ls
  induction ls with
  | nil => simp
  | cons l ls ih => simp [nonspace_append, hf, ih]

/-! ### `split` (public function) -/

/-- `split(str, length)` for `length > 0`: no chunk is longer than `length` characters … -/
theorem split_chunks_le (wrap : Wrap) (hw : WrapContract wrap) (s : Text) (length : Int) (chunks : List Text)
    (h : split wrap s length = .ok chunks) : ∀ c ∈ chunks, (c.length : Int) ≤ length := by
  unfold split at h
  split at h
  · exact absurd h (by simp)
  · rename_i hl
    simp only [Except.ok.injEq] at h
    subst h
    intro c hc
    rw [List.mem_flatMap] at hc
    obtain ⟨line, _, hcl⟩ := hc
    have := hw.width line length.toNat (by omega) c hcl
    omega

/-- … and the chunks are the text's non-whitespace characters in order. -/
theorem split_content (wrap : Wrap) (hw : WrapContract wrap) (s : Text) (length : Int) (chunks : List Text)
    (h : split wrap s length = .ok chunks) : nonspace chunks.flatten = nonspace s := by
  unfold split at h
  split at h
  · exact absurd h (by simp)
  · rename_i hl
    simp only [Except.ok.injEq] at h
    subst h
    rw [flatMap_nonspace _ (fun l => hw.content l length.toNat (by omega)), splitOn_nonspace]

theorem split_refuses (wrap : Wrap) (s : Text) (length : Int) :
    (∃ chunks, split wrap s length = .ok chunks) ↔ 0 < length := by
  unfold split
  constructor
  · rintro ⟨chunks, h⟩
    split at h
    · exact absurd h (by simp)
    · omega
  · intro h
    have : ¬ length ≤ 0 := by omega
    simp [this]

/-! ### `IRCClient._sendMessage` (`msg`, `notice`) -/

/-- the limit in force: the given `length`, or the computed default when `None` -/
def limitOf (nicklen : Nat) (msgType user : Text) (length : Option Int) : Int :=
  effLength nicklen (fmtOf msgType user) length

/-- What a successful `_sendMessage` did, in one place. -/
theorem sendMessage_ok (wrap : Wrap) (nicklen : Nat) (msgType user message : Text) (length : Option Int)
    (lines : List (List UInt8)) (h : sendMessage wrap nicklen msgType user message length = .ok lines) :
    minimumLength (fmtOf msgType user) < limitOf nicklen msgType user length ∧
    ∃ chunks parts,
      split wrap message (wrapWidth nicklen msgType user length) = .ok chunks ∧
      splitAllOctets (wrapWidth nicklen msgType user length).toNat chunks = .ok parts ∧
      lines = parts.map fun p => wire (fmtOf msgType user ++ p) := by
  unfold sendMessage at h
  simp only at h
  split at h
  · exact absurd h (by simp)
  · rename_i hlt
    split at h
    · exact absurd h (by simp)
    · rename_i chunks hc
      split at h
      · exact absurd h (by simp)
      · rename_i parts hp
        simp only [Except.ok.injEq] at h
        exact ⟨by unfold limitOf; omega, chunks, parts, hc, hp, h.symm⟩

/-- **Every line is within the limit, in octets, line terminator included** — for every
    message, target, command, limit (or the computed default), and *whatever* `textwrap.wrap`
    returns (no contract needed: the octet bound is enforced by `_splitOctets`). -/
theorem lines_within_limit (wrap : Wrap) (nicklen : Nat) (msgType user message : Text) (length : Option Int)
    (lines : List (List UInt8)) (h : sendMessage wrap nicklen msgType user message length = .ok lines) :
    ∀ l ∈ lines, (l.length : Int) ≤ limitOf nicklen msgType user length := by
  obtain ⟨hlt, chunks, parts, _, hp, hl⟩ := sendMessage_ok _ _ _ _ _ _ _ h
  subst hl
  intro l hl
  rw [List.mem_map] at hl
  obtain ⟨p, hp', rfl⟩ := hl
  have hb := (splitAllOctets_ok _ _ _ hp).2 p hp'
  rw [wire_length, wireLen_append]
  unfold wrapWidth at hb
  unfold limitOf at hlt ⊢
  unfold minimumLength wireLen at *
  omega

/-- **No line contains CR or LF** except as its terminator: every written line is
    `body ++ CR LF` with neither octet in `body`. -/
theorem lines_no_CR_LF (wrap : Wrap) (nicklen : Nat) (msgType user message : Text) (length : Option Int)
    (lines : List (List UInt8)) (h : sendMessage wrap nicklen msgType user message length = .ok lines) :
    ∀ l ∈ lines, ∃ body, l = body ++ [13, 10] ∧ ∀ b ∈ body, b ≠ 13 ∧ b ≠ 10 := by
  obtain ⟨_, chunks, parts, _, _, hl⟩ := sendMessage_ok _ _ _ _ _ _ _ h
  subst hl
  intro l hl
  rw [List.mem_map] at hl
  obtain ⟨p, _, rfl⟩ := hl
  refine ⟨encode (lowQuote (fmtOf msgType user ++ p)), rfl, ?_⟩
  intro b hb
  unfold encode at hb
  rw [List.mem_flatMap] at hb
  obtain ⟨x, hx, hbx⟩ := hb
  have := lowQuote_clean _ x hx
  exact utf8_no_crlf x this.2.1 this.2.2 b hbx

/-- **Content is preserved**: the written lines are exactly `wire (fmt ++ part)` for a list of
    message parts whose concatenation has the message's non-whitespace characters, in order
    (for every `textwrap.wrap` meeting its contract).  `receiver_recovers` below says the
    part is what the receiver's UTF-8 decoding and low-level dequoting give back. -/
theorem content_preserved (wrap : Wrap) (hw : WrapContract wrap) (nicklen : Nat) (msgType user message : Text)
    (length : Option Int) (lines : List (List UInt8))
    (h : sendMessage wrap nicklen msgType user message length = .ok lines) :
    ∃ parts : List Text, lines = parts.map (fun p => wire (fmtOf msgType user ++ p)) ∧
      nonspace parts.flatten = nonspace message := by
  obtain ⟨_, chunks, parts, hc, hp, hl⟩ := sendMessage_ok _ _ _ _ _ _ _ h
  refine ⟨parts, hl, ?_⟩
  rw [(splitAllOctets_ok _ _ _ hp).1]
  exact split_content wrap hw message _ chunks hc

/-- **What the peer reads**: a written line is `body ++ CR LF`; UTF-8 decoding `body` gives the
    code points of a text that low-level dequoting turns into exactly `fmt ++ part` — so the
    `part`s of `content_preserved` are the message parts the receiver sees. -/
theorem receiver_recovers (fmt part : Text) :
    ∃ (body : List UInt8) (quoted : Text), wire (fmt ++ part) = body ++ [13, 10] ∧
      decodeNat body = some (quoted.map Char.toNat) ∧ lowDequote quoted = fmt ++ part :=
  ⟨encode (lowQuote (fmt ++ part)), lowQuote (fmt ++ part), rfl, decode_encode _, low_roundtrip _⟩

/-- **The message is never refused while the limit leaves room for one character**
    (4 octets): `ValueError` is possible only when `length < minimumLength + 4`. -/
theorem sends_when_room (wrap : Wrap) (nicklen : Nat) (msgType user message : Text) (length : Option Int)
    (hroom : minimumLength (fmtOf msgType user) + 4 ≤ limitOf nicklen msgType user length) :
    ∃ lines, sendMessage wrap nicklen msgType user message length = .ok lines := by
  unfold limitOf at hroom
  unfold sendMessage
  simp only
  have h1 : ¬ effLength nicklen (fmtOf msgType user) length ≤ minimumLength (fmtOf msgType user) := by omega
  simp only [h1, if_false]
  have h2 : ¬ effLength nicklen (fmtOf msgType user) length - minimumLength (fmtOf msgType user) ≤ 0 := by omega
  simp only [split, h2, if_false]
  obtain ⟨ps, hps⟩ := splitAllOctets_succeeds
    (effLength nicklen (fmtOf msgType user) length - minimumLength (fmtOf msgType user)).toNat (by omega)
    ((splitOn NL message).flatMap fun line => wrap line
      (effLength nicklen (fmtOf msgType user) length - minimumLength (fmtOf msgType user)).toNat)
  rw [hps]
  exact ⟨_, rfl⟩

/-- `ValueError` when the limit does not exceed the framing plus terminator (the documented refusal). -/
theorem refuses_without_room (wrap : Wrap) (nicklen : Nat) (msgType user message : Text) (length : Option Int)
    (h : limitOf nicklen msgType user length ≤ minimumLength (fmtOf msgType user)) :
    sendMessage wrap nicklen msgType user message length = .error .value := by
  unfold limitOf at h
  unfold sendMessage
  simp only [h, if_true]

/-! ### Non-vacuity: a `wrap` meeting the contract exists, and concrete runs -/

/-- a crude wrap: drop all whitespace, chop into pieces of `w` characters -/
def chopAux (w : Nat) : Text → Text → List Text
  | [], cur => if cur.isEmpty then [] else [cur]
  | c :: s, cur => if cur.length + 1 > w then cur :: chopAux w s [c] else chopAux w s (cur ++ [c])

def hardWrap : Wrap := fun s w => chopAux w (nonspace s) []

theorem chopAux_spec (w : Nat) (hw : 0 < w) : ∀ (s cur : Text), cur.length ≤ w →
    (chopAux w s cur).flatten = cur ++ s ∧ ∀ p ∈ chopAux w s cur, p.length ≤ w := by
  intro s
  induction s with
  | nil =>
    intro cur hc
    simp only [chopAux]
    by_cases he : cur.isEmpty = true
    · have : cur = [] := by simpa using he
      subst this; simp
    · simp only [he, Bool.false_eq_true, if_false]
      exact ⟨by simp, by intro p hp; simp at hp; subst hp; exact hc⟩
  | cons c s ih =>
    intro cur hc
    simp only [chopAux]
    split
    · have := ih [c] (by simp; omega)
      refine ⟨by simp [this.1], ?_⟩
      intro p hp
      simp only [List.mem_cons] at hp
      rcases hp with hp | hp
      · subst hp; exact hc
      · exact this.2 p hp
    · have := ih (cur ++ [c]) (by simp; omega)
      exact ⟨by simp [this.1], this.2⟩

theorem nonspace_idem (s : Text) : nonspace (nonspace s) = nonspace s := by
  simp [nonspace, List.filter_filter]

/-- the contract is satisfiable -/
theorem hardWrap_contract : WrapContract hardWrap where
  width := fun s w hw c hc => (chopAux_spec w hw (nonspace s) [] (by simp)).2 c hc
  content := fun s w hw => by
    have := (chopAux_spec w hw (nonspace s) [] (by simp)).1
    simp only [hardWrap, this, List.nil_append, nonspace_idem]

def okLines (r : Except Err (List (List UInt8))) (expect : List (List UInt8)) : Bool :=
  match r with
  | .ok ls => ls == expect
  | .error _ => false

def isValueError (r : Except Err (List (List UInt8))) : Bool :=
  match r with
  | .ok _ => false
  | .error .value => true

/-- `msg("foo", "a😀 b\nc", length=19)`: 4 octets of room; the 4-octet character gets a line of
    its own (19 octets = the limit); before the fix the first line was 21 octets. -/
example : okLines (sendMessage hardWrap 9 "PRIVMSG".toList "foo".toList "a😀 b\nc".toList (some 19))
    [[80, 82, 73, 86, 77, 83, 71, 32, 102, 111, 111, 32, 58, 97, 13, 10],
     [80, 82, 73, 86, 77, 83, 71, 32, 102, 111, 111, 32, 58, 240, 159, 152, 128, 13, 10],
     [80, 82, 73, 86, 77, 83, 71, 32, 102, 111, 111, 32, 58, 98, 13, 10],
     [80, 82, 73, 86, 77, 83, 71, 32, 102, 111, 111, 32, 58, 99, 13, 10]] = true := by decide

/-- NUL is sent as two octets (`M_QUOTE 0`): with 3 octets of room, `"\0\0"` takes two lines. -/
example : okLines (sendMessage hardWrap 9 "NOTICE".toList "#c".toList [NUL, NUL] (some 16))
    [[78, 79, 84, 73, 67, 69, 32, 35, 99, 32, 58, 16, 48, 13, 10],
     [78, 79, 84, 73, 67, 69, 32, 35, 99, 32, 58, 16, 48, 13, 10]] = true := by decide

/-- with 3 octets of room a 4-octet character cannot be sent: `ValueError`, nothing written -/
example : isValueError (sendMessage hardWrap 9 "PRIVMSG".toList "foo".toList "a😀".toList (some 18)) = true := by
  decide

/-- the limit equal to framing + terminator is refused (`length <= minimumLength`) -/
example : isValueError (sendMessage hardWrap 9 "PRIVMSG".toList "foo".toList "a".toList (some 15)) = true := by
  decide

/-- default limit (`length=None`, NICKLEN 9): `416 - len(fmt)` -/
example : limitOf 9 "PRIVMSG".toList "foo".toList none = 403 := by decide

/-- Why the fix was needed: a chunk within the *character* width can exceed it in octets
    (this is the witness the check found on the unchanged tree: `msg("foo", "😀", length=16)`,
    width 1, one character, 4 octets; the line was 19 octets). -/
theorem chars_are_not_octets : ∃ chunk : Text, chunk.length ≤ 1 ∧ 1 < wireLen chunk ∧
    (wire ("PRIVMSG foo :".toList ++ chunk)).length = 19 := ⟨['😀'], by decide⟩

/-! ### CTCP framing: `ctcpStringify` → `ctcpExtract` -/

theorem xq1_clean (c x : Char) (h : x ∈ xq1 c) : x ≠ X_DELIM := by
  by_cases h1 : c = X_QUOTE
  · subst h1
    have e : xq1 X_QUOTE = [X_QUOTE, X_QUOTE] := by decide
    rw [e] at h; simp only [List.mem_cons, List.not_mem_nil, or_false] at h
    rcases h with h | h <;> subst h <;> decide
  · by_cases h2 : c = X_DELIM
    · subst h2
      have e : xq1 X_DELIM = [X_QUOTE, 'a'] := by decide
      rw [e] at h; simp only [List.mem_cons, List.not_mem_nil, or_false] at h
      rcases h with h | h <;> subst h <;> decide
    · have e : xq1 c = [c] := by simp [xq1, h1, h2]
      rw [e] at h; simp only [List.mem_cons, List.not_mem_nil, or_false] at h
      subst h; exact h2

/-- the output of `ctcpQuote` never contains X-DELIM -/
theorem ctcpQuote_clean (s : Text) : ∀ x ∈ ctcpQuote s, x ≠ X_DELIM := by
  intro x hx
  rw [ctcpQuote_eq_flatMap, List.mem_flatMap] at hx
  obtain ⟨c, _, hxc⟩ := hx
  exact xq1_clean c x hxc

theorem xq1_ne_nil (c : Char) : xq1 c ≠ [] := by
  unfold xq1; split
  · simp
  · split <;> simp

theorem ctcpQuote_ne_nil (s : Text) (h : s ≠ []) : ctcpQuote s ≠ [] := by
  cases s with
  | nil => exact absurd rfl h
  | cons c s =>
    rw [ctcpQuote_cons]
    intro hn
    exact xq1_ne_nil c (List.append_eq_nil_iff.mp hn).1

/-- `str.split(sep)`: a piece free of `sep`, followed by `sep`, is cut off whole -/
theorem splitAux_piece (sep : Char) (rest : Text) : ∀ (a cur : Text), (∀ x ∈ a, x ≠ sep) →
    splitAux sep (a ++ sep :: rest) cur = (cur ++ a) :: splitAux sep rest [] := by
  intro a
  induction a with
  | nil => intro cur _; simp [splitAux]
  | cons c a ih =>
    intro cur h
    have hc : c ≠ sep := h c (by simp)
    simp only [List.cons_append, splitAux, hc, if_false]
    rw [ih (cur ++ [c]) (fun x hx => h x (by simp [hx]))]
    simp

theorem splitAux_last (sep : Char) : ∀ (a cur : Text), (∀ x ∈ a, x ≠ sep) →
    splitAux sep a cur = [cur ++ a] := by
  intro a
  induction a with
  | nil => intro cur _; simp [splitAux]
  | cons c a ih =>
    intro cur h
    have hc : c ≠ sep := h c (by simp)
    simp only [splitAux, hc, if_false]
    rw [ih (cur ++ [c]) (fun x hx => h x (by simp [hx]))]
    simp

theorem splitOn_piece (sep : Char) (a rest : Text) (h : ∀ x ∈ a, x ≠ sep) :
    splitOn sep (a ++ sep :: rest) = a :: splitOn sep rest := by
  simpa [splitOn] using splitAux_piece sep rest a [] h

theorem splitOn_last (sep : Char) (a : Text) (h : ∀ x ∈ a, x ≠ sep) : splitOn sep a = [a] := by
  simpa [splitOn] using splitAux_last sep a [] h

/-- the quoted body of one extended message, as it stands between its two X-DELIMs -/
def quoted (m : Text × Data) : Text := ctcpQuote (body m.1 m.2)

/-- normal text `n0`, then extended messages each followed by normal text:
    `n0 + ctcpStringify([m1]) + n1 + … + ctcpStringify([mk]) + nk` -/
def interleave (n0 : Text) (pairs : List ((Text × Data) × Text)) : Text :=
  n0 ++ pairs.flatMap fun p => stringify1 p.1 ++ p.2

theorem interleave_cons (n0 : Text) (p : (Text × Data) × Text) (ps : List ((Text × Data) × Text)) :
    interleave n0 (p :: ps) = n0 ++ X_DELIM :: (quoted p.1 ++ X_DELIM :: interleave p.2 ps) := by
  simp [interleave, stringify1, quoted]

theorem splitOn_interleave : ∀ (pairs : List ((Text × Data) × Text)) (n0 : Text),
    (∀ x ∈ n0, x ≠ X_DELIM) → (∀ p ∈ pairs, ∀ x ∈ p.2, x ≠ X_DELIM) →
    splitOn X_DELIM (interleave n0 pairs) = n0 :: pairs.flatMap fun p => [quoted p.1, p.2] := by
  intro pairs
  induction pairs with
  | nil => intro n0 h0 _; simpa [interleave] using splitOn_last X_DELIM n0 h0
  | cons p ps ih =>
    intro n0 h0 hp
    rw [interleave_cons, splitOn_piece X_DELIM n0 _ h0,
      splitOn_piece X_DELIM (quoted p.1) _ (ctcpQuote_clean _),
      ih p.2 (hp p (by simp)) (fun q hq => hp q (by simp [hq]))]
    simp

theorem alternate_two (a b : Text) (rest : List Text) :
    alternate (a :: b :: rest) false = (b :: (alternate rest false).1, a :: (alternate rest false).2) := by
  simp [alternate]

theorem alternate_pieces : ∀ (pairs : List ((Text × Data) × Text)) (n0 : Text),
    alternate (n0 :: pairs.flatMap fun p => [quoted p.1, p.2]) false =
      (pairs.map fun p => quoted p.1, n0 :: pairs.map fun p => p.2) := by
  intro pairs
  induction pairs with
  | nil => intro n0; simp [alternate]
  | cons p ps ih =>
    intro n0
    simp only [List.flatMap_cons, List.cons_append, List.nil_append, List.map_cons]
    rw [alternate_two, ih p.2]

theorem splitFirst_tag (sep : Char) : ∀ (tag : Text), (∀ x ∈ tag, x ≠ sep) →
    splitFirst sep tag = (tag, none) := by
  intro tag
  induction tag with
  | nil => intro _; simp [splitFirst]
  | cons c t ih =>
    intro h
    have hc : c ≠ sep := h c (by simp)
    simp [splitFirst, hc, ih (fun x hx => h x (by simp [hx]))]

theorem splitFirst_tag_data (sep : Char) (d : Text) : ∀ (tag : Text), (∀ x ∈ tag, x ≠ sep) →
    splitFirst sep (tag ++ sep :: d) = (tag, some d) := by
  intro tag
  induction tag with
  | nil => intro _; simp [splitFirst]
  | cons c t ih =>
    intro h
    have hc : c ≠ sep := h c (by simp)
    simp [splitFirst, hc, ih (fun x hx => h x (by simp [hx]))]

/-- the cut at the first single space recovers the tag and the data text, whatever the data
    text is (leading, trailing, only whitespace; any number of further spaces) -/
theorem splitFirst_body (tag : Text) (d : Data) (h : ∀ x ∈ tag, x ≠ SPC) :
    splitFirst SPC (body tag d) = (tag, d.back) := by
  unfold body Data.back
  by_cases ht : d.truthy = true
  · simp only [ht, if_true]; exact splitFirst_tag_data SPC _ tag h
  · simp only [ht]; exact splitFirst_tag SPC tag h

/-- a tag is a non-empty word that does not contain the separating space -/
def ValidTag (tag : Text) : Prop := tag ≠ [] ∧ ∀ x ∈ tag, x ≠ SPC

theorem body_ne_nil (tag : Text) (d : Data) (h : tag ≠ []) : body tag d ≠ [] := by
  unfold body; split
  · cases tag with
    | nil => exact absurd rfl h
    | cons c t => simp
  · exact h

theorem nonEmpty_quoted (m : Text × Data) (h : ValidTag m.1) : nonEmpty (quoted m) = true := by
  have := ctcpQuote_ne_nil _ (body_ne_nil m.1 m.2 h.1)
  unfold nonEmpty quoted
  cases hq : ctcpQuote (body m.1 m.2) with
  | nil => exact absurd hq this
  | cons _ _ => rfl

/-- **CTCP framing round-trips, in any surrounding text**: normal text (free of X-DELIM)
    interleaved with extended messages `(tag, data)` — every tag a non-empty word without a
    space, every data `None`, a text or a list of texts, the texts *arbitrary* — is taken apart
    by `ctcpExtract` into exactly those tags with exactly those data texts (absent/empty data
    comes back as `None`) and the non-empty normal texts, in order. -/
theorem ctcp_extract_interleaved (n0 : Text) (pairs : List ((Text × Data) × Text))
    (htag : ∀ p ∈ pairs, ValidTag p.1.1)
    (h0 : ∀ x ∈ n0, x ≠ X_DELIM) (hn : ∀ p ∈ pairs, ∀ x ∈ p.2, x ≠ X_DELIM) :
    ctcpExtract (interleave n0 pairs) =
      (pairs.map fun p => (p.1.1, p.1.2.back), (n0 :: pairs.map fun p => p.2).filter nonEmpty) := by
  unfold ctcpExtract
  simp only [splitOn_interleave pairs n0 h0 hn, alternate_pieces]
  congr 1
  have hf : (pairs.map fun p => quoted p.1).filter nonEmpty = pairs.map fun p => quoted p.1 := by
    rw [List.filter_eq_self]
    intro q hq
    rw [List.mem_map] at hq
    obtain ⟨p, hp, rfl⟩ := hq
    exact nonEmpty_quoted p.1 (htag p hp)
  rw [hf, List.map_map, List.map_map]
  apply List.map_congr_left
  intro p hp
  simp only [Function.comp, quoted, ctcp_roundtrip]
  exact splitFirst_body _ _ (htag p hp).2

theorem ctcpStringify_eq_interleave (msgs : List (Text × Data)) :
    ctcpStringify msgs = interleave [] (msgs.map fun m => (m, [])) := by
  simp [ctcpStringify, interleave, List.flatMap_map]

/-- **`ctcpExtract(ctcpStringify(messages))` gives the messages back**: same tags, same data
    texts character for character, nothing left over as normal text. -/
theorem ctcp_stringify_roundtrip (msgs : List (Text × Data)) (htag : ∀ m ∈ msgs, ValidTag m.1) :
    ctcpExtract (ctcpStringify msgs) = (msgs.map fun m => (m.1, m.2.back), []) := by
  rw [ctcpStringify_eq_interleave, ctcp_extract_interleaved]
  · simp [List.map_map, Function.comp, nonEmpty]
  · intro p hp; rw [List.mem_map] at hp; obtain ⟨m, hm, rfl⟩ := hp; exact htag m hm
  · simp
  · intro p hp; rw [List.mem_map] at hp; obtain ⟨m, hm, rfl⟩ := hp; simp

/-! ### The receiving client, and client → client -/

theorem ctcpStringify_cons (m : Text × Data) (ms : List (Text × Data)) :
    ctcpStringify (m :: ms) = X_DELIM :: (quoted m ++ X_DELIM :: ctcpStringify ms) := by
  simp [ctcpStringify, stringify1, quoted]

/-- what `irc_PRIVMSG` / `irc_NOTICE` do with the text of `ctcpStringify(messages)`: one call
    (`ctcpQuery` resp. `ctcpReply`) carrying exactly the messages; nothing is delivered as a
    normal message. -/
theorem recvCommon_stringify (ext : List (Text × Option Text) → Event) (plain : Text → Event)
    (msgs : List (Text × Data)) (hne : msgs ≠ []) (htag : ∀ m ∈ msgs, ValidTag m.1) :
    recvCommon ext plain (ctcpStringify msgs) = [ext (msgs.map fun m => (m.1, m.2.back))] := by
  cases msgs with
  | nil => exact absurd rfl hne
  | cons m ms =>
    have hx := ctcp_stringify_roundtrip (m :: ms) htag
    rw [ctcpStringify_cons] at hx ⊢
    simp only [recvCommon, if_true, hx]
    simp

theorem ctcpStringify_ne_nil (msgs : List (Text × Data)) (hne : msgs ≠ []) : ctcpStringify msgs ≠ [] := by
  cases msgs with
  | nil => exact absurd rfl hne
  | cons m ms => rw [ctcpStringify_cons]; simp

/-- **A client receiving a PRIVMSG whose text is `ctcpStringify(messages)`** calls
    `ctcpQuery(user, channel, messages)` with the same tags and the same data texts. -/
theorem recvPrivmsg_stringify (msgs : List (Text × Data)) (hne : msgs ≠ []) (htag : ∀ m ∈ msgs, ValidTag m.1) :
    recvPrivmsg (ctcpStringify msgs) = .ok [.query (msgs.map fun m => (m.1, m.2.back))] := by
  have h := ctcpStringify_ne_nil msgs hne
  unfold recvPrivmsg
  rw [recvCommon_stringify _ _ msgs hne htag]
  cases hs : ctcpStringify msgs with
  | nil => exact absurd hs h
  | cons _ _ => rfl

/-- … and for a NOTICE, `ctcpReply(user, channel, messages)`. -/
theorem recvNotice_stringify (msgs : List (Text × Data)) (hne : msgs ≠ []) (htag : ∀ m ∈ msgs, ValidTag m.1) :
    recvNotice (ctcpStringify msgs) = .ok [.reply (msgs.map fun m => (m.1, m.2.back))] := by
  have h := ctcpStringify_ne_nil msgs hne
  unfold recvNotice
  rw [recvCommon_stringify _ _ msgs hne htag]
  cases hs : ctcpStringify msgs with
  | nil => exact absurd hs h
  | cons _ _ => rfl

/-- `_sendMessage` writes `wire (fmt ++ part)` for each part of `sendParts` -/
theorem sendMessage_eq_sendParts (wrap : Wrap) (nicklen : Nat) (msgType user message : Text) (length : Option Int) :
    sendMessage wrap nicklen msgType user message length =
      (sendParts wrap nicklen msgType user message length).map
        (fun ps => ps.map fun p => wire (fmtOf msgType user ++ p)) := by
  unfold sendMessage sendParts
  simp only
  split
  · rfl
  · cases split wrap message
        (effLength nicklen (fmtOf msgType user) length - minimumLength (fmtOf msgType user)) with
    | error e => rfl
    | ok chunks =>
      simp only
      cases splitAllOctets
          (effLength nicklen (fmtOf msgType user) length - minimumLength (fmtOf msgType user)).toNat chunks with
      | error e => rfl
      | ok ps => rfl

theorem wireLen_cons (c : Char) (s : Text) : wireLen (c :: s) = wireLen1 c + wireLen s := by
  have := wireLen_append [c] s
  simpa [wireLen_singleton] using this

theorem splitOctetsAux_whole (m : Nat) : ∀ (text cur : Text) (size : Nat),
    size = wireLen cur → wireLen cur + wireLen text ≤ m →
    splitOctetsAux m text cur size = .ok (if (cur ++ text).isEmpty then [] else [cur ++ text]) := by
  intro text
  induction text with
  | nil => intro cur size _ _; simp [splitOctetsAux]
  | cons c rest ih =>
    intro cur size hs hle
    rw [wireLen_cons] at hle
    have h1 : ¬ wireLen1 c > m := by omega
    have h2 : ¬ size + wireLen1 c > m := by omega
    simp only [splitOctetsAux, h1, h2, if_false]
    rw [ih (cur ++ [c]) (size + wireLen1 c) (by rw [wireLen_append, wireLen_singleton, hs])
      (by rw [wireLen_append, wireLen_singleton]; omega)]
    simp

/-- a non-empty text that fits the octet budget is one piece -/
theorem splitOctets_whole (text : Text) (m : Nat) (hne : text ≠ []) (h : wireLen text ≤ m) :
    splitOctets text m = .ok [text] := by
  have := splitOctetsAux_whole m text [] 0 (by simp [wireLen_nil]) (by simp [wireLen_nil]; exact h)
  unfold splitOctets
  rw [this]
  cases text with
  | nil => exact absurd rfl hne
  | cons _ _ => simp

/-- **When `msg()`/`notice()` leave a text whole**: no newline in it, `textwrap.wrap` returns it
    as its single line, and it fits the octet budget — then it is sent as one part, unchanged. -/
theorem sendParts_whole (wrap : Wrap) (nicklen : Nat) (msgType user text : Text) (length : Option Int)
    (hne : text ≠ []) (hnl : ∀ x ∈ text, x ≠ NL)
    (hfit : (wireLen text : Int) ≤ wrapWidth nicklen msgType user length)
    (hwrap : wrap text (wrapWidth nicklen msgType user length).toNat = [text]) :
    sendParts wrap nicklen msgType user text length = .ok [text] := by
  have hpos : 1 ≤ wireLen text := by
    cases text with
    | nil => exact absurd rfl hne
    | cons c s => rw [wireLen_cons]; have := wireLen1_pos c; omega
  unfold wrapWidth at hfit hwrap
  unfold sendParts
  simp only
  have h1 : ¬ effLength nicklen (fmtOf msgType user) length ≤ minimumLength (fmtOf msgType user) := by omega
  have h2 : ¬ effLength nicklen (fmtOf msgType user) length - minimumLength (fmtOf msgType user) ≤ 0 := by omega
  simp only [h1, if_false, split, h2, splitOn_last NL text hnl, List.flatMap_cons, List.flatMap_nil,
    List.append_nil, hwrap, splitAllOctets]
  rw [splitOctets_whole text _ hne (by omega)]

/-- **Client → client**: `ctcpMakeQuery(user, messages)` whose text `msg()` leaves whole (see
    `sendParts_whole`) writes one line; the peer's UTF-8 decoding and low-level dequoting of that
    line give back `PRIVMSG user :` + the text, and its `irc_PRIVMSG` calls
    `ctcpQuery(…, messages)` with the same tags and the same data texts. -/
theorem ctcp_query_end_to_end (wrap : Wrap) (nicklen : Nat) (user : Text) (msgs : List (Text × Data))
    (hne : msgs ≠ []) (htag : ∀ m ∈ msgs, ValidTag m.1)
    (hnl : ∀ x ∈ ctcpStringify msgs, x ≠ NL)
    (hfit : (wireLen (ctcpStringify msgs) : Int) ≤ wrapWidth nicklen PRIVMSG user none)
    (hwrap : wrap (ctcpStringify msgs) (wrapWidth nicklen PRIVMSG user none).toNat = [ctcpStringify msgs]) :
    ctcpMakeQuery wrap nicklen user msgs = .ok [wire (fmtOf PRIVMSG user ++ ctcpStringify msgs)] ∧
    (∃ (body : List UInt8) (quotedLine : Text),
      wire (fmtOf PRIVMSG user ++ ctcpStringify msgs) = body ++ [13, 10] ∧
      decodeNat body = some (quotedLine.map Char.toNat) ∧
      lowDequote quotedLine = fmtOf PRIVMSG user ++ ctcpStringify msgs) ∧
    recvAll recvPrivmsg [ctcpStringify msgs] = .ok [.query (msgs.map fun m => (m.1, m.2.back))] := by
  refine ⟨?_, receiver_recovers _ _, ?_⟩
  · unfold ctcpMakeQuery
    rw [sendMessage_eq_sendParts, sendParts_whole wrap nicklen PRIVMSG user _ none
      (ctcpStringify_ne_nil msgs hne) hnl hfit hwrap]
    rfl
  · simp [recvAll, recvPrivmsg_stringify msgs hne htag]

/-- the same for `ctcpMakeReply` → `irc_NOTICE` → `ctcpReply` -/
theorem ctcp_reply_end_to_end (wrap : Wrap) (nicklen : Nat) (user : Text) (msgs : List (Text × Data))
    (hne : msgs ≠ []) (htag : ∀ m ∈ msgs, ValidTag m.1)
    (hnl : ∀ x ∈ ctcpStringify msgs, x ≠ NL)
    (hfit : (wireLen (ctcpStringify msgs) : Int) ≤ wrapWidth nicklen NOTICE user none)
    (hwrap : wrap (ctcpStringify msgs) (wrapWidth nicklen NOTICE user none).toNat = [ctcpStringify msgs]) :
    ctcpMakeReply wrap nicklen user msgs = .ok [wire (fmtOf NOTICE user ++ ctcpStringify msgs)] ∧
    (∃ (body : List UInt8) (quotedLine : Text),
      wire (fmtOf NOTICE user ++ ctcpStringify msgs) = body ++ [13, 10] ∧
      decodeNat body = some (quotedLine.map Char.toNat) ∧
      lowDequote quotedLine = fmtOf NOTICE user ++ ctcpStringify msgs) ∧
    recvAll recvNotice [ctcpStringify msgs] = .ok [.reply (msgs.map fun m => (m.1, m.2.back))] := by
  refine ⟨?_, receiver_recovers _ _, ?_⟩
  · unfold ctcpMakeReply
    rw [sendMessage_eq_sendParts, sendParts_whole wrap nicklen NOTICE user _ none
      (ctcpStringify_ne_nil msgs hne) hnl hfit hwrap]
    rfl
  · simp [recvAll, recvNotice_stringify msgs hne htag]

/-! ### Non-vacuity of the CTCP framing theorems -/

/-- data beginning with two spaces, no data, data made of X-DELIM / X-QUOTE / `a`, a list -/
example : ctcpExtract (ctcpStringify [("ACTION".toList, .text "  two leading".toList), ("PING".toList, .none),
      ("X".toList, .text [X_DELIM, '\\', 'a', ' ']), ("L".toList, .list [" a".toList, [], "b ".toList])]) =
    ([("ACTION".toList, some "  two leading".toList), ("PING".toList, none),
      ("X".toList, some [X_DELIM, '\\', 'a', ' ']), ("L".toList, some " a  b ".toList)], []) := by decide

/-- data that is a single space comes back as that space (not as `None`), a tab as a tab -/
example : ctcpExtract (ctcpStringify [("ACTION".toList, .text [' ']), ("ACTION".toList, .text ['\t', 'x'])]) =
    ([("ACTION".toList, some [' ']), ("ACTION".toList, some ['\t', 'x'])], []) := by decide

/-- the text on the wire: `\x01ACTION  x\x01` (two spaces: the separator and the data's own) -/
example : ctcpStringify [("ACTION".toList, .text " x".toList)] = X_DELIM :: "ACTION  x".toList ++ [X_DELIM] := by decide

/-- normal text around and between extended messages -/
example : ctcpExtract (interleave "hi ".toList [(("ACTION".toList, .text " x".toList), []), (("PING".toList, .none), " bye".toList)]) =
    ([("ACTION".toList, some " x".toList), ("PING".toList, none)], ["hi ".toList, " bye".toList]) := by decide

/-- empty data and absent data are the same message: `""` comes back as `None` -/
example : ctcpExtract (ctcpStringify [("V".toList, .text [])]) = ([("V".toList, none)], []) := by decide

/-- Why the tag must not contain the separator: `("A B", "c")` comes back as `("A", "B c")`. -/
theorem tag_with_space_counterexample :
    ctcpExtract (ctcpStringify [("A B".toList, .text "c".toList)]) = ([("A".toList, some "B c".toList)], []) := by decide

/-- a `wrap` meeting the contract that returns a fitting text whole (as `textwrap.wrap` does for a
    line without tabs/newlines that does not begin or end in whitespace) -/
def wholeWrap : Wrap := fun s w => if s.length ≤ w then [s] else hardWrap s w

theorem wholeWrap_contract : WrapContract wholeWrap where
  width := fun s w hw c hc => by
    unfold wholeWrap at hc
    split at hc
    · simp at hc; subst hc; assumption
    · exact hardWrap_contract.width s w hw c hc
  content := fun s w hw => by
    unfold wholeWrap
    split
    · simp
    · exact hardWrap_contract.content s w hw

/-- client → client with data that begins with a space: the hypotheses of
    `ctcp_query_end_to_end` hold and the peer's `ctcpQuery` gets `" leading space"`. -/
example : ctcpMakeQuery wholeWrap 9 "bob".toList [("ACTION".toList, .text " leading space".toList)] =
      .ok [wire ("PRIVMSG bob :".toList ++ X_DELIM :: "ACTION  leading space".toList ++ [X_DELIM])] ∧
    recvAll recvPrivmsg [ctcpStringify [("ACTION".toList, .text " leading space".toList)]] =
      .ok [.query [("ACTION".toList, some " leading space".toList)]] := by
  have h := ctcp_query_end_to_end wholeWrap 9 "bob".toList [("ACTION".toList, .text " leading space".toList)]
    (by simp) (by intro m hm; simp at hm; subst hm; exact ⟨by decide, by decide⟩)
    (by decide) (by decide) (by decide)
  exact ⟨h.1, h.2.2⟩

/-- a blank NOTICE makes `irc_NOTICE` raise `IndexError` (`message[0]`); a blank PRIVMSG is ignored -/
example : recvNotice [] = .error .index ∧ recvPrivmsg [] = .ok [] := ⟨rfl, rfl⟩

/-! ### Client → client under `textwrap.wrap`'s whole-line behaviour -/

theorem length_le_wireLen (s : Text) : s.length ≤ wireLen s := by
  induction s with
  | nil => simp
  | cons c s ih => rw [wireLen_cons]; have := wireLen1_pos c; simp; omega

theorem ctcpStringify_ends (msgs : List (Text × Data)) (hne : msgs ≠ []) :
    ∃ t, ctcpStringify msgs = t ++ [X_DELIM] := by
  induction msgs with
  | nil => exact absurd rfl hne
  | cons m ms ih =>
    by_cases h : ms = []
    · subst h; exact ⟨X_DELIM :: quoted m, by simp [ctcpStringify, stringify1, quoted]⟩
    · obtain ⟨t, ht⟩ := ih h
      exact ⟨X_DELIM :: (quoted m ++ X_DELIM :: t), by rw [ctcpStringify_cons, ht]; simp⟩

/-- the CTCP text is a line `textwrap.wrap` returns whole when it fits: it is not empty, ends in
    X-DELIM (not whitespace), and has no tab / LF / VT / FF / CR if tags and data have none -/
theorem ctcpStringify_wholeLine (msgs : List (Text × Data)) (hne : msgs ≠ [])
    (hplain : ∀ x ∈ ctcpStringify msgs, isMunged x = false) : wholeLine (ctcpStringify msgs) = true := by
  obtain ⟨t, ht⟩ := ctcpStringify_ends msgs hne
  have h0 := ctcpStringify_ne_nil msgs hne
  unfold wholeLine
  simp only [Bool.and_eq_true, Bool.not_eq_true', List.all_eq_true]
  refine ⟨⟨?_, ?_⟩, ?_⟩
  · cases hs : ctcpStringify msgs with
    | nil => exact absurd hs h0
    | cons _ _ => rfl
  · intro x hx; simp [hplain x hx]
  · rw [ht]; simp; decide

theorem not_munged_ne_NL (x : Char) (h : isMunged x = false) : x ≠ NL := by
  intro e; subst e; revert h; decide

/-- **Client → client, for `textwrap.wrap` as it behaves** (`WrapWhole`, checked on every observed
    call): `ctcpMakeQuery(user, messages)` whose CTCP text has no tab / LF / VT / FF / CR and fits
    the line (in octets, as sent) writes ONE line, from which the peer's UTF-8 decoding +
    low-level dequoting recover `PRIVMSG user :` + the text, and the peer's `irc_PRIVMSG` calls
    `ctcpQuery(…, messages)` with the same tags and the same data texts — whatever else the data
    texts are (leading / trailing / only whitespace, X-DELIM, X-QUOTE, NUL, M-QUOTE, any code point). -/
theorem ctcp_query_client_to_client (wrap : Wrap) (hw : WrapWhole wrap) (nicklen : Nat) (user : Text)
    (msgs : List (Text × Data)) (hne : msgs ≠ []) (htag : ∀ m ∈ msgs, ValidTag m.1)
    (hplain : ∀ x ∈ ctcpStringify msgs, isMunged x = false)
    (hfit : (wireLen (ctcpStringify msgs) : Int) ≤ wrapWidth nicklen PRIVMSG user none) :
    ctcpMakeQuery wrap nicklen user msgs = .ok [wire (fmtOf PRIVMSG user ++ ctcpStringify msgs)] ∧
    (∃ (body : List UInt8) (quotedLine : Text),
      wire (fmtOf PRIVMSG user ++ ctcpStringify msgs) = body ++ [13, 10] ∧
      decodeNat body = some (quotedLine.map Char.toNat) ∧
      lowDequote quotedLine = fmtOf PRIVMSG user ++ ctcpStringify msgs) ∧
    recvAll recvPrivmsg [ctcpStringify msgs] = .ok [.query (msgs.map fun m => (m.1, m.2.back))] := by
  apply ctcp_query_end_to_end wrap nicklen user msgs hne htag
    (fun x hx => not_munged_ne_NL x (hplain x hx)) hfit
  apply hw.whole _ _ (ctcpStringify_wholeLine msgs hne hplain)
  have := length_le_wireLen (ctcpStringify msgs)
  omega

theorem ctcp_reply_client_to_client (wrap : Wrap) (hw : WrapWhole wrap) (nicklen : Nat) (user : Text)
    (msgs : List (Text × Data)) (hne : msgs ≠ []) (htag : ∀ m ∈ msgs, ValidTag m.1)
    (hplain : ∀ x ∈ ctcpStringify msgs, isMunged x = false)
    (hfit : (wireLen (ctcpStringify msgs) : Int) ≤ wrapWidth nicklen NOTICE user none) :
    ctcpMakeReply wrap nicklen user msgs = .ok [wire (fmtOf NOTICE user ++ ctcpStringify msgs)] ∧
    (∃ (body : List UInt8) (quotedLine : Text),
      wire (fmtOf NOTICE user ++ ctcpStringify msgs) = body ++ [13, 10] ∧
      decodeNat body = some (quotedLine.map Char.toNat) ∧
      lowDequote quotedLine = fmtOf NOTICE user ++ ctcpStringify msgs) ∧
    recvAll recvNotice [ctcpStringify msgs] = .ok [.reply (msgs.map fun m => (m.1, m.2.back))] := by
  apply ctcp_reply_end_to_end wrap nicklen user msgs hne htag
    (fun x hx => not_munged_ne_NL x (hplain x hx)) hfit
  apply hw.whole _ _ (ctcpStringify_wholeLine msgs hne hplain)
  have := length_le_wireLen (ctcpStringify msgs)
  omega

/-- `wholeWrap` has the whole-line behaviour (so `WrapContract ∧ WrapWhole` is satisfiable) -/
theorem wholeWrap_whole : WrapWhole wholeWrap where
  whole := fun s w _ hl => by simp [wholeWrap, hl]

/-- non-vacuity of `ctcp_query_client_to_client`: data beginning with a no-break space and containing NUL, through a
    `wrap` that meets both parts of the contract -/
example : recvAll recvPrivmsg [ctcpStringify [("ACTION".toList, .text [Char.ofNat 0xA0, 'x', NUL])]] =
      .ok [.query [("ACTION".toList, some [Char.ofNat 0xA0, 'x', NUL])]] :=
  (ctcp_query_client_to_client wholeWrap wholeWrap_whole 9 "#chan".toList [("ACTION".toList, .text [Char.ofNat 0xA0, 'x', NUL])]
    (by simp) (by intro m hm; simp at hm; subst hm; exact ⟨by decide, by decide⟩) (by decide) (by decide)).2.2

/-! ### One client, several messages: `say`, NICKLEN, the `lineRate` queue -/

/-- what the transport has seen plus what is still queued, as octets -/
def pending (c : Conn) : List (List UInt8) := c.written ++ c.queue.map wire

/-- a non-empty queue always has its timer armed; without `lineRate` nothing is ever queued -/
def Inv (rate : Bool) (c : Conn) : Prop := (c.queue ≠ [] → c.emptying = true) ∧ (rate = false → c.queue = [])

theorem tick_pending (c : Conn) : pending c.tick = pending c := by
  unfold Conn.tick pending
  cases h : c.queue <;> simp

theorem tick_inv (rate : Bool) (c : Conn) (h : rate = false → c.queue = []) : Inv rate c.tick := by
  unfold Conn.tick Inv
  cases hq : c.queue with
  | nil => simp
  | cons l q => exact ⟨fun _ => rfl, fun hr => absurd (h hr) (by simp [hq])⟩

theorem fire_pending (c : Conn) : pending c.fire = pending c := by
  unfold Conn.fire
  split
  · exact tick_pending c
  · rfl

theorem fire_inv (rate : Bool) (c : Conn) (h : Inv rate c) : Inv rate c.fire := by
  unfold Conn.fire
  split
  · exact tick_inv rate c h.2
  · exact h

theorem fireN_pending : ∀ (n : Nat) (c : Conn), pending (fireN n c) = pending c
  | 0, _ => rfl
  | n + 1, c => by rw [fireN, fireN_pending n, fire_pending]

theorem fireN_inv (rate : Bool) : ∀ (n : Nat) (c : Conn), Inv rate c → Inv rate (fireN n c)
  | 0, _, h => h
  | n + 1, c, h => by rw [fireN]; exact fireN_inv rate n _ (fire_inv rate c h)

theorem sendLine_pending (rate : Bool) (c : Conn) (line : Text) (h : Inv rate c) :
    pending (c.sendLine rate line) = pending c ++ [wire line] := by
  unfold Conn.sendLine
  cases rate
  · simp [pending, h.2 rfl]
  · simp only [if_true]
    split
    · simp [pending]
    · rw [tick_pending]; simp [pending]

theorem sendLine_inv (rate : Bool) (c : Conn) (line : Text) (h : Inv rate c) : Inv rate (c.sendLine rate line) := by
  unfold Conn.sendLine
  cases rate
  · exact h
  · simp only [if_true]
    split
    · exact ⟨fun _ => rfl, fun hr => absurd hr (by simp)⟩
    · exact tick_inv true _ (fun hr => absurd hr (by simp))

theorem sendLines_pending (rate : Bool) : ∀ (ls : List Text) (c : Conn), Inv rate c →
    pending (ls.foldl (Conn.sendLine rate) c) = pending c ++ ls.map wire
  | [], c, _ => by simp
  | l :: ls, c, h => by
    rw [List.foldl_cons, sendLines_pending rate ls _ (sendLine_inv rate c l h), sendLine_pending rate c l h]; simp

theorem sendLines_inv (rate : Bool) : ∀ (ls : List Text) (c : Conn), Inv rate c →
    Inv rate (ls.foldl (Conn.sendLine rate) c)
  | [], _, h => h
  | l :: ls, c, h => by
    rw [List.foldl_cons]; exact sendLines_inv rate ls _ (sendLine_inv rate c l h)

theorem runStep_pending (wrap : Wrap) (rate : Bool) (c : Conn) (s : Step) (h : Inv rate c) :
    pending (runStep wrap rate c s) = pending c ++ (s.sent wrap).map wire := by
  unfold runStep
  rw [fireN_pending, sendLines_pending rate _ c h]

theorem runStep_inv (wrap : Wrap) (rate : Bool) (c : Conn) (s : Step) (h : Inv rate c) :
    Inv rate (runStep wrap rate c s) :=
  fireN_inv rate _ _ (sendLines_inv rate _ c h)

theorem foldl_runStep_pending (wrap : Wrap) (rate : Bool) : ∀ (steps : List Step) (c : Conn), Inv rate c →
    pending (steps.foldl (runStep wrap rate) c) = pending c ++ (steps.flatMap fun s => (s.sent wrap).map wire)
  | [], c, _ => by simp
  | s :: ss, c, h => by
    rw [List.foldl_cons, foldl_runStep_pending wrap rate ss _ (runStep_inv wrap rate c s h),
      runStep_pending wrap rate c s h]; simp

theorem foldl_runStep_inv (wrap : Wrap) (rate : Bool) : ∀ (steps : List Step) (c : Conn), Inv rate c →
    Inv rate (steps.foldl (runStep wrap rate) c)
  | [], _, h => h
  | s :: ss, c, h => by
    rw [List.foldl_cons]; exact foldl_runStep_inv wrap rate ss _ (runStep_inv wrap rate c s h)

theorem init_inv (rate : Bool) : Inv rate Conn.init := by simp [Inv, Conn.init]

/-- **The queue loses, adds and reorders nothing, whenever the timer fires**: at every moment the
    writes so far followed by the queued lines are the lines of the messages sent so far, in order. -/
theorem queue_keeps_order (wrap : Wrap) (rate : Bool) (steps : List Step) :
    pending (runHistory wrap rate steps) = steps.flatMap fun s => (s.sent wrap).map wire := by
  unfold runHistory
  rw [foldl_runStep_pending wrap rate steps _ (init_inv rate)]; simp [pending, Conn.init]

theorem fireN_drains (rate : Bool) : ∀ (n : Nat) (c : Conn), Inv rate c → c.queue.length ≤ n → (fireN n c).queue = []
  | 0, c, _, hn => by
    have : c.queue.length = 0 := by omega
    simpa [fireN] using this
  | n + 1, c, ha, hn => by
    rw [fireN]
    apply fireN_drains rate n _ (fire_inv rate c ha)
    unfold Conn.fire
    cases hq : c.queue with
    | nil => split <;> simp [Conn.tick, hq]
    | cons l q =>
      have he : c.emptying = true := ha.1 (by simp [hq])
      simp only [he, if_true, Conn.tick, hq]
      rw [hq] at hn
      simp only [List.length_cons] at hn
      omega

/-- **Once the timer has run dry the transport has been written, in order, exactly the lines of
    each message** — for every history of `msg` / `notice` / `say` calls on one client, every NICKLEN
    in force at each call, `lineRate` set or not, and every schedule of timer firings in between. -/
theorem history_written (wrap : Wrap) (rate : Bool) (steps : List Step) :
    (drain (runHistory wrap rate steps)).written = (steps.flatMap fun s => (s.sent wrap).map wire) ∧
    (drain (runHistory wrap rate steps)).queue = [] := by
  have ha : Inv rate (runHistory wrap rate steps) :=
    foldl_runStep_inv wrap rate steps Conn.init (init_inv rate)
  have hq : (drain (runHistory wrap rate steps)).queue = [] :=
    fireN_drains rate _ _ ha (by omega)
  refine ⟨?_, hq⟩
  have hp := fireN_pending ((runHistory wrap rate steps).queue.length + 1) (runHistory wrap rate steps)
  rw [queue_keeps_order] at hp
  unfold drain at hq ⊢
  rw [← hp]
  simp [pending, hq]

/-- the octets a step writes are those of `_sendMessage` for its command and target -/
theorem step_sent_eq_sendMessage (wrap : Wrap) (s : Step) :
    sendMessage wrap s.nicklen s.msgType s.target s.message s.length =
      (s.lines wrap).map fun ls => ls.map wire := by
  rw [sendMessage_eq_sendParts]
  unfold Step.lines
  cases sendParts wrap s.nicklen s.msgType s.target s.message s.length with
  | error e => rfl
  | ok ps => simp [Except.map, List.map_map, Function.comp_def]

theorem step_sent_ok (wrap : Wrap) (s : Step) :
    (∃ lines, sendMessage wrap s.nicklen s.msgType s.target s.message s.length = .ok lines ∧
      (s.sent wrap).map wire = lines) ∨
    (sendMessage wrap s.nicklen s.msgType s.target s.message s.length = .error .value ∧ s.sent wrap = []) := by
  rw [step_sent_eq_sendMessage]
  unfold Step.sent
  cases h : s.lines wrap with
  | error e => cases e; right; exact ⟨rfl, rfl⟩
  | ok ls => left; exact ⟨_, rfl, rfl⟩

/-- **Every line of every message of a history is within the limit in force for that message**
    (the given length, or the default computed from the NICKLEN in force at that call), has no CR / LF
    before its terminator — whatever was sent before on the same client. -/
theorem history_lines_within_limit (wrap : Wrap) (steps : List Step) (s : Step) (_ : s ∈ steps) :
    ∀ l ∈ (s.sent wrap).map wire,
      (l.length : Int) ≤ limitOf s.nicklen s.msgType s.target s.length ∧
      ∃ body, l = body ++ [13, 10] ∧ ∀ b ∈ body, b ≠ 13 ∧ b ≠ 10 := by
  intro l hl
  rcases step_sent_ok wrap s with ⟨lines, hok, heq⟩ | ⟨_, hnil⟩
  · rw [heq] at hl
    exact ⟨lines_within_limit _ _ _ _ _ _ _ hok l hl, lines_no_CR_LF _ _ _ _ _ _ _ hok l hl⟩
  · rw [hnil] at hl; simp at hl

/-- **… and carries the message's non-whitespace characters in order** (per message of the history) -/
theorem history_content_preserved (wrap : Wrap) (hw : WrapContract wrap) (s : Step)
    (hs : s.sent wrap ≠ [] ∨ ∃ ls, s.lines wrap = .ok ls) :
    ∃ parts : List Text, (s.sent wrap).map wire = parts.map (fun p => wire (fmtOf s.msgType s.target ++ p)) ∧
      nonspace parts.flatten = nonspace s.message := by
  rcases step_sent_ok wrap s with ⟨lines, hok, heq⟩ | ⟨herr, hnil⟩
  · rw [heq]; exact content_preserved wrap hw _ _ _ _ _ _ hok
  · exfalso
    rcases hs with h | ⟨ls, h⟩
    · exact h hnil
    · rw [step_sent_eq_sendMessage, h] at herr; cases herr

/-- `say(channel, …)` is `msg` to the channel with `#` put in front unless it has a prefix -/
theorem say_target (c : Char) (cs : Text) :
    sayTarget (c :: cs) = some (if c = '&' ∨ c = '#' ∨ c = '!' ∨ c = '+' then c :: cs else '#' :: c :: cs) := by
  unfold sayTarget CHANNEL_PREFIXES
  by_cases h1 : c = '&' <;> by_cases h2 : c = '#' <;> by_cases h3 : c = '!' <;> by_cases h4 : c = '+' <;>
    simp [h1, h2, h3, h4]

example : (drain (runHistory wholeWrap true
    [⟨.say, "chan".toList, "abcdefgh".toList, some 20, 9, 1⟩,
     ⟨.notice, "bob".toList, "x".toList, none, 30, 0⟩])).written =
    ["PRIVMSG #chan :abc\r\n".toList.map (fun c => c.toNat.toUInt8),
     "PRIVMSG #chan :def\r\n".toList.map (fun c => c.toNat.toUInt8),
     "PRIVMSG #chan :gh\r\n".toList.map (fun c => c.toNat.toUInt8),
     "NOTICE bob :x\r\n".toList.map (fun c => c.toNat.toUInt8)] := by decide

example : limitOf 30 NOTICE "bob".toList none = 383 := by decide

end TwistedProps.C43
