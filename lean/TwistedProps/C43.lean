import TwistedModel.Irc.Split
import TwistedProps.C43.Utf8
/-!
C43 — IRC messages are split within the length limit without losing content; CTCP and
low-level quoting round-trip any text.
-/
namespace TwistedProps.C43
open Twisted.Irc.Split

/-! ### The sequential `str.replace` calls are one per-character substitution -/

def lq1 (c : Char) : Text :=
  if c = M_QUOTE then [M_QUOTE, M_QUOTE] else if c = NUL then [M_QUOTE, '0']
  else if c = NL then [M_QUOTE, 'n'] else if c = CR then [M_QUOTE, 'r'] else [c]

theorem lowQuote_eq_flatMap (s : Text) : lowQuote s = s.flatMap lq1 := by
  unfold lowQuote replaceChar
  rw [List.flatMap_assoc, List.flatMap_assoc, List.flatMap_assoc]
  congr 1
  funext x
  unfold lq1
  by_cases h1 : x = M_QUOTE
  · subst h1; decide
  · by_cases h2 : x = NUL
    · subst h2; decide
    · by_cases h3 : x = NL
      · subst h3; decide
      · by_cases h4 : x = CR
        · subst h4; decide
        · simp [h1, h2, h3, h4]

theorem lowQuote_nil : lowQuote [] = [] := by simp [lowQuote_eq_flatMap]
theorem lowQuote_cons (c : Char) (s : Text) : lowQuote (c :: s) = lq1 c ++ lowQuote s := by
  simp [lowQuote_eq_flatMap]
theorem lowQuote_append (a b : Text) : lowQuote (a ++ b) = lowQuote a ++ lowQuote b := by
  simp [lowQuote_eq_flatMap]

def xq1 (c : Char) : Text :=
  if c = X_QUOTE then [X_QUOTE, X_QUOTE] else if c = X_DELIM then [X_QUOTE, 'a'] else [c]

theorem ctcpQuote_eq_flatMap (s : Text) : ctcpQuote s = s.flatMap xq1 := by
  unfold ctcpQuote replaceChar
  rw [List.flatMap_assoc]
  congr 1
  funext x
  unfold xq1
  by_cases h1 : x = X_QUOTE
  · subst h1; decide
  · by_cases h2 : x = X_DELIM
    · subst h2; decide
    · simp [h1, h2]

theorem ctcpQuote_cons (c : Char) (s : Text) : ctcpQuote (c :: s) = xq1 c ++ ctcpQuote s := by
  simp [ctcpQuote_eq_flatMap]

/-! ### Dequoting: one-step unfoldings -/

theorem lowDequote_esc (d : Char) (rest : Text) :
    lowDequote (M_QUOTE :: d :: rest) = mDequote d :: lowDequote rest := by
  simp [lowDequote]

theorem lowDequote_lit (c : Char) (rest : Text) (h : c ≠ M_QUOTE) :
    lowDequote (c :: rest) = c :: lowDequote rest := by
  cases rest <;> simp [lowDequote, h]

theorem ctcpDequote_esc (d : Char) (rest : Text) :
    ctcpDequote (X_QUOTE :: d :: rest) = xDequote d :: ctcpDequote rest := by
  simp [ctcpDequote]

theorem ctcpDequote_lit (c : Char) (rest : Text) (h : c ≠ X_QUOTE) :
    ctcpDequote (c :: rest) = c :: ctcpDequote rest := by
  cases rest <;> simp [ctcpDequote, h]

theorem lowDequote_lq1 (c : Char) (rest : Text) : lowDequote (lq1 c ++ rest) = c :: lowDequote rest := by
  unfold lq1
  by_cases h1 : c = M_QUOTE
  · subst h1; simp only [if_true, List.cons_append, List.nil_append]; rw [lowDequote_esc]; rfl
  · by_cases h2 : c = NUL
    · subst h2; simp only [h1, if_false, if_true, List.cons_append, List.nil_append]; rw [lowDequote_esc]; rfl
    · by_cases h3 : c = NL
      · subst h3; simp only [h1, h2, if_false, if_true, List.cons_append, List.nil_append]; rw [lowDequote_esc]; rfl
      · by_cases h4 : c = CR
        · subst h4; simp only [h1, h2, h3, if_false, if_true, List.cons_append, List.nil_append]; rw [lowDequote_esc]; rfl
        · simp only [h1, h2, h3, h4, if_false, List.cons_append, List.nil_append]
          exact lowDequote_lit c rest h1

theorem ctcpDequote_xq1 (c : Char) (rest : Text) : ctcpDequote (xq1 c ++ rest) = c :: ctcpDequote rest := by
  unfold xq1
  by_cases h1 : c = X_QUOTE
  · subst h1; simp only [if_true, List.cons_append, List.nil_append]; rw [ctcpDequote_esc]; rfl
  · by_cases h2 : c = X_DELIM
    · subst h2; simp only [h1, if_false, if_true, List.cons_append, List.nil_append]; rw [ctcpDequote_esc]; rfl
    · simp only [h1, h2, if_false, List.cons_append, List.nil_append]
      exact ctcpDequote_lit c rest h1

/-! ### Quoting round-trips — every text -/

/-- **Low-level quoting round-trips**: `lowDequote(lowQuote(s)) == s` for every text. -/
theorem low_roundtrip (s : Text) : lowDequote (lowQuote s) = s := by
  induction s with
  | nil => simp [lowQuote_nil, lowDequote]
  | cons c s ih => rw [lowQuote_cons, lowDequote_lq1, ih]

example : lowDequote (lowQuote [M_QUOTE, 'n', NUL, '0', CR, NL, M_QUOTE]) = [M_QUOTE, 'n', NUL, '0', CR, NL, M_QUOTE] := by
  decide
example : lowQuote ['a', NL, M_QUOTE] = ['a', M_QUOTE, 'n', M_QUOTE, M_QUOTE] := by decide

/-- **CTCP quoting round-trips**: `ctcpDequote(ctcpQuote(s)) == s` for every text. -/
theorem ctcp_roundtrip (s : Text) : ctcpDequote (ctcpQuote s) = s := by
  induction s with
  | nil => simp [ctcpQuote_eq_flatMap, ctcpDequote]
  | cons c s ih => rw [ctcpQuote_cons, ctcpDequote_xq1, ih]

example : ctcpDequote (ctcpQuote ['\\', 'a', X_DELIM, '\\', '\\', 'a']) = ['\\', 'a', X_DELIM, '\\', '\\', 'a'] := by
  decide
example : ctcpQuote [X_DELIM, '\\'] = ['\\', 'a', '\\', '\\'] := by decide

/-! ### What is on the wire: no NUL / CR / LF survives quoting; UTF-8 octets -/

theorem lq1_cases (c : Char) :
    (c = M_QUOTE ∧ lq1 c = [M_QUOTE, M_QUOTE]) ∨ (c = NUL ∧ lq1 c = [M_QUOTE, '0']) ∨
    (c = NL ∧ lq1 c = [M_QUOTE, 'n']) ∨ (c = CR ∧ lq1 c = [M_QUOTE, 'r']) ∨
    (c ≠ M_QUOTE ∧ c ≠ NUL ∧ c ≠ NL ∧ c ≠ CR ∧ lq1 c = [c]) := by
  by_cases h1 : c = M_QUOTE
  · subst h1; exact Or.inl ⟨rfl, by decide⟩
  · by_cases h2 : c = NUL
    · subst h2; exact Or.inr (Or.inl ⟨rfl, by decide⟩)
    · by_cases h3 : c = NL
      · subst h3; exact Or.inr (Or.inr (Or.inl ⟨rfl, by decide⟩))
      · by_cases h4 : c = CR
        · subst h4; exact Or.inr (Or.inr (Or.inr (Or.inl ⟨rfl, by decide⟩)))
        · exact Or.inr (Or.inr (Or.inr (Or.inr ⟨h1, h2, h3, h4, by simp [lq1, h1, h2, h3, h4]⟩)))

theorem lq1_clean (c x : Char) (h : x ∈ lq1 c) : x ≠ NUL ∧ x ≠ NL ∧ x ≠ CR := by
  rcases lq1_cases c with ⟨_, e⟩ | ⟨_, e⟩ | ⟨_, e⟩ | ⟨_, e⟩ | ⟨_, h2, h3, h4, e⟩
  all_goals rw [e] at h; simp only [List.mem_cons, List.not_mem_nil, or_false] at h
  · rcases h with h | h <;> subst h <;> decide
  · rcases h with h | h <;> subst h <;> decide
  · rcases h with h | h <;> subst h <;> decide
  · rcases h with h | h <;> subst h <;> decide
  · subst h; exact ⟨h2, h3, h4⟩

/-- the output of `lowQuote` never contains NUL, LF or CR -/
theorem lowQuote_clean (s : Text) : ∀ x ∈ lowQuote s, x ≠ NUL ∧ x ≠ NL ∧ x ≠ CR := by
  intro x hx
  rw [lowQuote_eq_flatMap, List.mem_flatMap] at hx
  obtain ⟨c, _, hxc⟩ := hx
  exact lq1_clean c x hxc

theorem toNat_ne_of_ne (x : Char) (n : Nat) (h : x ≠ Char.ofNat n) : x.toNat ≠ n := by
  intro hn; apply h; rw [← hn, Char.ofNat_toNat]

/-- UTF-8 never produces the octets CR (13) or LF (10) except for those characters themselves -/
theorem utf8_no_crlf (x : Char) (hn : x ≠ NL) (hr : x ≠ CR) : ∀ b ∈ utf8 x, b ≠ 13 ∧ b ≠ 10 := by
  have h10 : x.toNat ≠ 10 := toNat_ne_of_ne x 10 hn
  have h13 : x.toNat ≠ 13 := toNat_ne_of_ne x 13 hr
  intro b hb
  have key : ∀ k : Nat, b = k.toUInt8 → (k < 256 ∧ k ≠ 13 ∧ k ≠ 10) → b ≠ 13 ∧ b ≠ 10 := by
    intro k hk hlt
    subst hk
    constructor
    · intro h; have := congrArg UInt8.toNat h; simp at this; omega
    · intro h; have := congrArg UInt8.toNat h; simp at this; omega
  unfold utf8 at hb
  simp only at hb
  split at hb
  · simp only [List.mem_cons, List.not_mem_nil, or_false] at hb
    exact key _ hb (by omega)
  · split at hb
    · simp only [List.mem_cons, List.not_mem_nil, or_false] at hb
      rcases hb with hb | hb <;> exact key _ hb (by omega)
    · split at hb
      · simp only [List.mem_cons, List.not_mem_nil, or_false] at hb
        rcases hb with hb | hb | hb <;> exact key _ hb (by omega)
      · have hmax : x.toNat < 0x110000 := char_lt x
        simp only [List.mem_cons, List.not_mem_nil, or_false] at hb
        rcases hb with hb | hb | hb | hb <;> exact key _ hb (by omega)

theorem utf8_length (c : Char) : 1 ≤ (utf8 c).length ∧ (utf8 c).length ≤ 4 := by
  unfold utf8
  simp only
  split
  · simp
  · split
    · simp
    · split <;> simp

/-- octets a text occupies on the wire (low-level quoted, UTF-8) -/
def wireLen (s : Text) : Nat := (encode (lowQuote s)).length

theorem wireLen_nil : wireLen [] = 0 := by simp [wireLen, lowQuote_nil, encode]
theorem wireLen_append (a b : Text) : wireLen (a ++ b) = wireLen a + wireLen b := by
  simp [wireLen, lowQuote_append, encode]
theorem wireLen_singleton (c : Char) : wireLen [c] = wireLen1 c := rfl

theorem wire_length (l : Text) : (wire l).length = wireLen l + 2 := by simp [wire, wireLen]

/-- a single character never needs more than 4 octets on the wire -/
theorem wireLen1_le (c : Char) : wireLen1 c ≤ 4 := by
  unfold wireLen1
  rw [lowQuote_cons, lowQuote_nil, List.append_nil]
  have := utf8_length c
  rcases lq1_cases c with ⟨_, e⟩ | ⟨_, e⟩ | ⟨_, e⟩ | ⟨_, e⟩ | ⟨_, _, _, _, e⟩
  · rw [e]; decide
  · rw [e]; decide
  · rw [e]; decide
  · rw [e]; decide
  · rw [e]; simp [encode]; omega

theorem wireLen1_pos (c : Char) : 1 ≤ wireLen1 c := by
  unfold wireLen1
  rw [lowQuote_cons, lowQuote_nil, List.append_nil]
  have := utf8_length c
  rcases lq1_cases c with ⟨_, e⟩ | ⟨_, e⟩ | ⟨_, e⟩ | ⟨_, e⟩ | ⟨_, _, _, _, e⟩
  · rw [e]; decide
  · rw [e]; decide
  · rw [e]; decide
  · rw [e]; decide
  · rw [e]; simp [encode]; omega

/-! ### `_splitOctets` -/

theorem splitOctetsAux_ok (m : Nat) : ∀ (text cur : Text) (size : Nat) (ps : List Text),
    size = wireLen cur → wireLen cur ≤ m → splitOctetsAux m text cur size = .ok ps →
    ps.flatten = cur ++ text ∧ ∀ p ∈ ps, wireLen p ≤ m := by
  intro text
  induction text with
  | nil =>
    intro cur size ps _ hle h
    simp only [splitOctetsAux, Except.ok.injEq] at h
    subst h
    by_cases he : cur.isEmpty = true
    · have : cur = [] := by simpa using he
      subst this; simp
    · simp only [he, Bool.false_eq_true, if_false, List.append_nil]
      exact ⟨by simp, by intro p hp; simp at hp; subst hp; exact hle⟩
  | cons c rest ih =>
    intro cur size ps hsz hle h
    simp only [splitOctetsAux] at h
    split at h
    · exact absurd h (by simp)
    · rename_i hc
      split at h
      · split at h
        · exact absurd h (by simp)
        · rename_i qs hq
          simp only [Except.ok.injEq] at h
          subst h
          have := ih [c] (wireLen1 c) qs rfl (by rw [wireLen_singleton]; omega) hq
          refine ⟨by simp [this.1], ?_⟩
          intro p hp
          simp only [List.mem_cons] at hp
          rcases hp with hp | hp
          · subst hp; exact hle
          · exact this.2 p hp
      · rename_i hs
        have hw : wireLen (cur ++ [c]) = size + wireLen1 c := by
          rw [wireLen_append, wireLen_singleton, hsz]
        have := ih (cur ++ [c]) (size + wireLen1 c) ps hw.symm (by omega) h
        exact ⟨by simp [this.1], this.2⟩

theorem splitOctetsAux_succeeds (m : Nat) : ∀ (text cur : Text) (size : Nat),
    (∀ c ∈ text, wireLen1 c ≤ m) → ∃ ps, splitOctetsAux m text cur size = .ok ps := by
  intro text
  induction text with
  | nil => intro cur size _; exact ⟨_, rfl⟩
  | cons c rest ih =>
    intro cur size h
    have hc : ¬ wireLen1 c > m := by have := h c (by simp); omega
    have hr : ∀ x ∈ rest, wireLen1 x ≤ m := fun x hx => h x (by simp [hx])
    simp only [splitOctetsAux, hc, if_false]
    split
    · obtain ⟨qs, hq⟩ := ih [c] (wireLen1 c) hr
      rw [hq]; exact ⟨_, rfl⟩
    · exact ih _ _ hr

/-- `_splitOctets`: the pieces concatenate to the text (nothing dropped, added or reordered) and
    each occupies at most `maximum` octets on the wire. -/
theorem splitOctets_ok (text : Text) (m : Nat) (ps : List Text) (h : splitOctets text m = .ok ps) :
    ps.flatten = text ∧ ∀ p ∈ ps, wireLen p ≤ m := by
  have := splitOctetsAux_ok m text [] 0 ps (by simp [wireLen_nil]) (by simp [wireLen_nil]) h
  simpa using this

/-- `_splitOctets` refuses only when a single character does not fit. -/
theorem splitOctets_succeeds (text : Text) (m : Nat) (h : ∀ c ∈ text, wireLen1 c ≤ m) :
    ∃ ps, splitOctets text m = .ok ps := splitOctetsAux_succeeds m text [] 0 h

theorem splitAllOctets_ok (m : Nat) : ∀ (ls ps : List Text), splitAllOctets m ls = .ok ps →
    ps.flatten = ls.flatten ∧ ∀ p ∈ ps, wireLen p ≤ m := by
  intro ls
  induction ls with
  | nil => intro ps h; simp only [splitAllOctets, Except.ok.injEq] at h; subst h; simp
  | cons l ls ih =>
    intro ps h
    simp only [splitAllOctets] at h
    split at h
    · exact absurd h (by simp)
    · rename_i qs hq
      split at h
      · exact absurd h (by simp)
      · rename_i rs hr
        simp only [Except.ok.injEq] at h
        subst h
        have h1 := splitOctets_ok l m qs hq
        have h2 := ih rs hr
        refine ⟨by simp [h1.1, h2.1], ?_⟩
        intro p hp
        simp only [List.mem_append] at hp
        rcases hp with hp | hp
        · exact h1.2 p hp
        · exact h2.2 p hp

theorem splitAllOctets_succeeds (m : Nat) (hm : 4 ≤ m) : ∀ ls : List Text, ∃ ps, splitAllOctets m ls = .ok ps := by
  intro ls
  induction ls with
  | nil => exact ⟨_, rfl⟩
  | cons l ls ih =>
    obtain ⟨qs, hq⟩ := splitOctets_succeeds l m (fun c _ => by have := wireLen1_le c; omega)
    obtain ⟨rs, hr⟩ := ih
    simp only [splitAllOctets, hq, hr]
    exact ⟨_, rfl⟩

/-! ### `str.split("\n")` and whitespace -/

theorem nonspace_append (a b : Text) : nonspace (a ++ b) = nonspace a ++ nonspace b := by
  simp [nonspace]

theorem splitAux_nonspace (sep : Char) (hsep : isSpace sep = true) : ∀ (s cur : Text),
    nonspace (splitAux sep s cur).flatten = nonspace cur ++ nonspace s := by
  intro s
  induction s with
  | nil => intro cur; simp [splitAux, nonspace]
  | cons c s ih =>
    intro cur
    simp only [splitAux]
    split
    · rename_i h; subst h
      simp only [List.flatten_cons, nonspace_append, ih]
      simp [nonspace, hsep]
    · rw [ih, nonspace_append, List.append_assoc]
      congr 1
      exact (nonspace_append [c] s).symm

/-- joining the pieces of `str.split("\n")` loses only the newlines -/
theorem splitOn_nonspace (s : Text) : nonspace (splitOn NL s).flatten = nonspace s := by
  have := splitAux_nonspace NL (by decide) s []
  simpa [splitOn, nonspace] using this

theorem flatMap_nonspace (f : Text → List Text) (hf : ∀ l, nonspace (f l).flatten = nonspace l) :
    ∀ ls : List Text, nonspace (ls.flatMap f).flatten = nonspace ls.flatten := by
  intro ls
  induction ls with
  | nil => simp
  | cons l ls ih => simp [nonspace_append, hf, ih]

/-! ### `split` (public function) -/

/-- `split(str, length)` for `length > 0`: no chunk is longer than `length` characters … -/
theorem split_chunks_le (wrap : Wrap) (hw : WrapContract wrap) (s : Text) (length : Int) (chunks : List Text)
    (h : split wrap s length = .ok chunks) : ∀ c ∈ chunks, (c.length : Int) ≤ length := by
  unfold split at h
  split at h
  · exact absurd h (by simp)
  · rename_i hl
    simp only [Except.ok.injEq] at h
    subst h
    intro c hc
    rw [List.mem_flatMap] at hc
    obtain ⟨line, _, hcl⟩ := hc
    have := hw.width line length.toNat (by omega) c hcl
    omega

/-- … and the chunks are the text's non-whitespace characters in order. -/
theorem split_content (wrap : Wrap) (hw : WrapContract wrap) (s : Text) (length : Int) (chunks : List Text)
    (h : split wrap s length = .ok chunks) : nonspace chunks.flatten = nonspace s := by
  unfold split at h
  split at h
  · exact absurd h (by simp)
  · rename_i hl
    simp only [Except.ok.injEq] at h
    subst h
    rw [flatMap_nonspace _ (fun l => hw.content l length.toNat (by omega)), splitOn_nonspace]

theorem split_refuses (wrap : Wrap) (s : Text) (length : Int) :
    (∃ chunks, split wrap s length = .ok chunks) ↔ 0 < length := by
  unfold split
  constructor
  · rintro ⟨chunks, h⟩
    split at h
    · exact absurd h (by simp)
    · omega
  · intro h
    have : ¬ length ≤ 0 := by omega
    simp [this]

/-! ### `IRCClient._sendMessage` (`msg`, `notice`) -/

/-- the limit in force: the given `length`, or the computed default when `None` -/
def limitOf (nicklen : Nat) (msgType user : Text) (length : Option Int) : Int :=
  effLength nicklen (fmtOf msgType user) length

/-- What a successful `_sendMessage` did, in one place. -/
theorem sendMessage_ok (wrap : Wrap) (nicklen : Nat) (msgType user message : Text) (length : Option Int)
    (lines : List (List UInt8)) (h : sendMessage wrap nicklen msgType user message length = .ok lines) :
    minimumLength (fmtOf msgType user) < limitOf nicklen msgType user length ∧
    ∃ chunks parts,
      split wrap message (wrapWidth nicklen msgType user length) = .ok chunks ∧
      splitAllOctets (wrapWidth nicklen msgType user length).toNat chunks = .ok parts ∧
      lines = parts.map fun p => wire (fmtOf msgType user ++ p) := by
  unfold sendMessage at h
  simp only at h
  split at h
  · exact absurd h (by simp)
  · rename_i hlt
    split at h
    · exact absurd h (by simp)
    · rename_i chunks hc
      split at h
      · exact absurd h (by simp)
      · rename_i parts hp
        simp only [Except.ok.injEq] at h
        exact ⟨by unfold limitOf; omega, chunks, parts, hc, hp, h.symm⟩

/-- **Every line is within the limit, in octets, line terminator included** — for every
    message, target, command, limit (or the computed default), and *whatever* `textwrap.wrap`
    returns (no contract needed: the octet bound is enforced by `_splitOctets`). -/
theorem lines_within_limit (wrap : Wrap) (nicklen : Nat) (msgType user message : Text) (length : Option Int)
    (lines : List (List UInt8)) (h : sendMessage wrap nicklen msgType user message length = .ok lines) :
    ∀ l ∈ lines, (l.length : Int) ≤ limitOf nicklen msgType user length := by
  obtain ⟨hlt, chunks, parts, _, hp, hl⟩ := sendMessage_ok _ _ _ _ _ _ _ h
  subst hl
  intro l hl
  rw [List.mem_map] at hl
  obtain ⟨p, hp', rfl⟩ := hl
  have hb := (splitAllOctets_ok _ _ _ hp).2 p hp'
  rw [wire_length, wireLen_append]
  unfold wrapWidth at hb
  unfold limitOf at hlt ⊢
  unfold minimumLength wireLen at *
  omega

/-- **No line contains CR or LF** except as its terminator: every written line is
    `body ++ CR LF` with neither octet in `body`. -/
theorem lines_no_CR_LF (wrap : Wrap) (nicklen : Nat) (msgType user message : Text) (length : Option Int)
    (lines : List (List UInt8)) (h : sendMessage wrap nicklen msgType user message length = .ok lines) :
    ∀ l ∈ lines, ∃ body, l = body ++ [13, 10] ∧ ∀ b ∈ body, b ≠ 13 ∧ b ≠ 10 := by
  obtain ⟨_, chunks, parts, _, _, hl⟩ := sendMessage_ok _ _ _ _ _ _ _ h
  subst hl
  intro l hl
  rw [List.mem_map] at hl
  obtain ⟨p, _, rfl⟩ := hl
  refine ⟨encode (lowQuote (fmtOf msgType user ++ p)), rfl, ?_⟩
  intro b hb
  unfold encode at hb
  rw [List.mem_flatMap] at hb
  obtain ⟨x, hx, hbx⟩ := hb
  have := lowQuote_clean _ x hx
  exact utf8_no_crlf x this.2.1 this.2.2 b hbx

/-- **Content is preserved**: the written lines are exactly `wire (fmt ++ part)` for a list of
    message parts whose concatenation has the message's non-whitespace characters, in order
    (for every `textwrap.wrap` meeting its contract).  `receiver_recovers` below says the
    part is what the receiver's UTF-8 decoding and low-level dequoting give back. -/
theorem content_preserved (wrap : Wrap) (hw : WrapContract wrap) (nicklen : Nat) (msgType user message : Text)
    (length : Option Int) (lines : List (List UInt8))
    (h : sendMessage wrap nicklen msgType user message length = .ok lines) :
    ∃ parts : List Text, lines = parts.map (fun p => wire (fmtOf msgType user ++ p)) ∧
      nonspace parts.flatten = nonspace message := by
  obtain ⟨_, chunks, parts, hc, hp, hl⟩ := sendMessage_ok _ _ _ _ _ _ _ h
  refine ⟨parts, hl, ?_⟩
  rw [(splitAllOctets_ok _ _ _ hp).1]
  exact split_content wrap hw message _ chunks hc

/-- **What the peer reads**: a written line is `body ++ CR LF`; UTF-8 decoding `body` gives the
    code points of a text that low-level dequoting turns into exactly `fmt ++ part` — so the
    `part`s of `content_preserved` are the message parts the receiver sees. -/
theorem receiver_recovers (fmt part : Text) :
    ∃ (body : List UInt8) (quoted : Text), wire (fmt ++ part) = body ++ [13, 10] ∧
      decodeNat body = some (quoted.map Char.toNat) ∧ lowDequote quoted = fmt ++ part :=
  ⟨encode (lowQuote (fmt ++ part)), lowQuote (fmt ++ part), rfl, decode_encode _, low_roundtrip _⟩

/-- **The message is never refused while the limit leaves room for one character**
    (4 octets): `ValueError` is possible only when `length < minimumLength + 4`. -/
theorem sends_when_room (wrap : Wrap) (nicklen : Nat) (msgType user message : Text) (length : Option Int)
    (hroom : minimumLength (fmtOf msgType user) + 4 ≤ limitOf nicklen msgType user length) :
    ∃ lines, sendMessage wrap nicklen msgType user message length = .ok lines := by
  unfold limitOf at hroom
  unfold sendMessage
  simp only
  have h1 : ¬ effLength nicklen (fmtOf msgType user) length ≤ minimumLength (fmtOf msgType user) := by omega
  simp only [h1, if_false]
  have h2 : ¬ effLength nicklen (fmtOf msgType user) length - minimumLength (fmtOf msgType user) ≤ 0 := by omega
  simp only [split, h2, if_false]
  obtain ⟨ps, hps⟩ := splitAllOctets_succeeds
    (effLength nicklen (fmtOf msgType user) length - minimumLength (fmtOf msgType user)).toNat (by omega)
    ((splitOn NL message).flatMap fun line => wrap line
      (effLength nicklen (fmtOf msgType user) length - minimumLength (fmtOf msgType user)).toNat)
  rw [hps]
  exact ⟨_, rfl⟩

/-- `ValueError` when the limit does not exceed the framing plus terminator (the documented refusal). -/
theorem refuses_without_room (wrap : Wrap) (nicklen : Nat) (msgType user message : Text) (length : Option Int)
    (h : limitOf nicklen msgType user length ≤ minimumLength (fmtOf msgType user)) :
    sendMessage wrap nicklen msgType user message length = .error .value := by
  unfold limitOf at h
  unfold sendMessage
  simp only [h, if_true]

/-! ### Non-vacuity: a `wrap` meeting the contract exists, and concrete runs -/

/-- a crude wrap: drop all whitespace, chop into pieces of `w` characters -/
def chopAux (w : Nat) : Text → Text → List Text
  | [], cur => if cur.isEmpty then [] else [cur]
  | c :: s, cur => if cur.length + 1 > w then cur :: chopAux w s [c] else chopAux w s (cur ++ [c])

def hardWrap : Wrap := fun s w => chopAux w (nonspace s) []

theorem chopAux_spec (w : Nat) (hw : 0 < w) : ∀ (s cur : Text), cur.length ≤ w →
    (chopAux w s cur).flatten = cur ++ s ∧ ∀ p ∈ chopAux w s cur, p.length ≤ w := by
  intro s
  induction s with
  | nil =>
    intro cur hc
    simp only [chopAux]
    by_cases he : cur.isEmpty = true
    · have : cur = [] := by simpa using he
      subst this; simp
    · simp only [he, Bool.false_eq_true, if_false]
      exact ⟨by simp, by intro p hp; simp at hp; subst hp; exact hc⟩
  | cons c s ih =>
    intro cur hc
    simp only [chopAux]
    split
    · have := ih [c] (by simp; omega)
      refine ⟨by simp [this.1], ?_⟩
      intro p hp
      simp only [List.mem_cons] at hp
      rcases hp with hp | hp
      · subst hp; exact hc
      · exact this.2 p hp
    · have := ih (cur ++ [c]) (by simp; omega)
      exact ⟨by simp [this.1], this.2⟩

theorem nonspace_idem (s : Text) : nonspace (nonspace s) = nonspace s := by
  simp [nonspace, List.filter_filter]

/-- the contract is satisfiable -/
theorem hardWrap_contract : WrapContract hardWrap where
  width := fun s w hw c hc => (chopAux_spec w hw (nonspace s) [] (by simp)).2 c hc
  content := fun s w hw => by
    have := (chopAux_spec w hw (nonspace s) [] (by simp)).1
    simp only [hardWrap, this, List.nil_append, nonspace_idem]

def okLines (r : Except Err (List (List UInt8))) (expect : List (List UInt8)) : Bool :=
  match r with
  | .ok ls => ls == expect
  | .error _ => false

def isValueError (r : Except Err (List (List UInt8))) : Bool :=
  match r with
  | .ok _ => false
  | .error .value => true

/-- `msg("foo", "a😀 b\nc", length=19)`: 4 octets of room; the 4-octet character gets a line of
    its own (19 octets = the limit); before the fix the first line was 21 octets. -/
example : okLines (sendMessage hardWrap 9 "PRIVMSG".toList "foo".toList "a😀 b\nc".toList (some 19))
    [[80, 82, 73, 86, 77, 83, 71, 32, 102, 111, 111, 32, 58, 97, 13, 10],
     [80, 82, 73, 86, 77, 83, 71, 32, 102, 111, 111, 32, 58, 240, 159, 152, 128, 13, 10],
     [80, 82, 73, 86, 77, 83, 71, 32, 102, 111, 111, 32, 58, 98, 13, 10],
     [80, 82, 73, 86, 77, 83, 71, 32, 102, 111, 111, 32, 58, 99, 13, 10]] = true := by decide

/-- NUL is sent as two octets (`M_QUOTE 0`): with 3 octets of room, `"\0\0"` takes two lines. -/
example : okLines (sendMessage hardWrap 9 "NOTICE".toList "#c".toList [NUL, NUL] (some 16))
    [[78, 79, 84, 73, 67, 69, 32, 35, 99, 32, 58, 16, 48, 13, 10],
     [78, 79, 84, 73, 67, 69, 32, 35, 99, 32, 58, 16, 48, 13, 10]] = true := by decide

/-- with 3 octets of room a 4-octet character cannot be sent: `ValueError`, nothing written -/
example : isValueError (sendMessage hardWrap 9 "PRIVMSG".toList "foo".toList "a😀".toList (some 18)) = true := by
  decide

/-- the limit equal to framing + terminator is refused (`length <= minimumLength`) -/
example : isValueError (sendMessage hardWrap 9 "PRIVMSG".toList "foo".toList "a".toList (some 15)) = true := by
  decide

/-- default limit (`length=None`, NICKLEN 9): `416 - len(fmt)` -/
example : limitOf 9 "PRIVMSG".toList "foo".toList none = 403 := by decide

/-- Why the fix was needed: a chunk within the *character* width can exceed it in octets
    (this is the witness the check found on the unchanged tree: `msg("foo", "😀", length=16)`,
    width 1, one character, 4 octets; the line was 19 octets). -/
theorem chars_are_not_octets : ∃ chunk : Text, chunk.length ≤ 1 ∧ 1 < wireLen chunk ∧
    (wire ("PRIVMSG foo :".toList ++ chunk)).length = 19 := ⟨['😀'], by decide⟩

end TwistedProps.C43
