import TwistedModel.Framing.Stream
import TwistedModel.Framing.IntN
import TwistedModel.Framing.Line
import TwistedModel.Framing.Netstring
import TwistedProps.C16.IntN
import TwistedProps.C16.LineOnly
/-!
C16 — framed-message receivers are segmentation-invariant with exact length limits.

A *schedule* (`List Op`) is any sequence of deliveries (`Op.data chunk`, empty chunks allowed)
and `resumeProducing` calls (`Op.resume`); `dataOf ops` is the concatenated stream; `run`
plays the schedule on the receiver until the first close request; `upTo` keeps the events
through the first close request.  The application is an arbitrary script `Nat → Act`
(what the callback does on the k-th message: close / pause / raw switch).

For each receiver:
* `…_matches_reference`  every schedule delivers the reference framing of the stream;
* `…_seg_invariant`       two schedules of the same stream deliver the same (in particular any
                          segmentation vs. the stream delivered at once);
* `…_send_receive`        what the send method writes is received as exactly those messages,
                          and nothing within the limit is rejected;
* `…_over_limit_never_delivered`.
"Quiescent" (`closed ∨ ¬ paused` at the end of the schedule) is the statement's own
precondition for pausable receivers: a receiver left paused has, by design, not delivered yet.
-/
namespace TwistedProps.C16
open Twisted.Framing

/-- an event of a run is an event of one of its steps -/
theorem mem_run {σ : Type} (M : Machine σ) (e : Ev) :
    ∀ (ops : List Op) (s : σ), e ∈ (M.run s ops).2 → ∃ s' op, e ∈ (M.step s' op).2 := by
  intro ops
  induction ops with
  | nil => intro s h; simp [Machine.run] at h
  | cons op ops ih =>
    intro s h
    simp only [Machine.run] at h
    split at h
    · simp at h
    · simp only [List.mem_append] at h
      rcases h with h | h
      · exact ⟨s, op, h⟩
      · exact ih _ h

/-! ## Int8/16/32StringReceiver -/
section IntN
open Twisted.Framing.IntN

/-- **IntN, reference framing**: for every prefix width ≥ 1, limit, application script and
    schedule that ends quiescent, the events up to the first close request are the reference
    framing of the concatenated stream. -/
theorem intN_matches_reference (c : Cfg) (hp : 0 < c.prefixLen) (ops : List Op)
    (hq : ((machine c).run init ops).1.closed = true ∨ ((machine c).run init ops).1.paused = false) :
    upTo ((machine c).run init ops).2 = upTo (refStream c (dataOf ops)) :=
  IntN.run_ref c hp ops hq

/-- **IntN, segmentation invariance**: two schedules carrying the same stream (any cuts, any
    interleaving of `resumeProducing`) deliver the same events up to the first close request. -/
theorem intN_seg_invariant (c : Cfg) (hp : 0 < c.prefixLen) (ops₁ ops₂ : List Op)
    (hd : dataOf ops₁ = dataOf ops₂)
    (hq₁ : ((machine c).run init ops₁).1.closed = true ∨ ((machine c).run init ops₁).1.paused = false)
    (hq₂ : ((machine c).run init ops₂).1.closed = true ∨ ((machine c).run init ops₂).1.paused = false) :
    upTo ((machine c).run init ops₁).2 = upTo ((machine c).run init ops₂).2 := by
  rw [IntN.run_ref c hp ops₁ hq₁, IntN.run_ref c hp ops₂ hq₂, hd]

/-- **IntN, send/receive and "within the limit is never rejected"**: the strings `ms`, each within
    `MAX_LENGTH` and accepted by `sendString`, written back to back and delivered under any
    schedule, are received as exactly `ms` (with the script's close requests), and no
    `lengthLimitExceeded` is reported. -/
theorem intN_send_receive (c : Cfg) (hp : 0 < c.prefixLen) (ms : List Bytes)
    (hm : ∀ m ∈ ms, m.length ≤ c.maxLen ∧ m.length < 256 ^ c.prefixLen) (ops : List Op)
    (hd : dataOf ops = (ms.map (IntN.frame c)).flatten)
    (hq : ((machine c).run init ops).1.closed = true ∨ ((machine c).run init ops).1.paused = false) :
    (∀ m ∈ ms, send c m = some (IntN.frame c m)) ∧
    upTo ((machine c).run init ops).2 = upTo (IntN.delivered c 0 ms) := by
  refine ⟨fun m h => IntN.send_eq_frame c m (hm m h).2, ?_⟩
  rw [IntN.run_ref c hp ops hq, hd, refStream]
  have := IntN.ref_frames c hp ms hm 0 [] (((ms.map (IntN.frame c)).flatten).length + 1) (by simp)
  simp only [List.append_nil] at this
  rw [this]
  simp [ref, hp]

/-- **IntN, a longer string is never delivered** (anywhere in the run, not only before the
    first close request). -/
theorem intN_over_limit_never_delivered (c : Cfg) (ops : List Op) (m : Bytes)
    (h : Ev.str m ∈ ((machine c).run init ops).2) : m.length ≤ c.maxLen := by
  obtain ⟨s, op, h⟩ := mem_run (machine c) _ ops init h
  cases op with
  | data x => exact IntN.loop_within c _ _ _ _ _ _ m h
  | resume => exact IntN.loop_within c _ _ _ _ _ _ m h

/-! non-vacuity: Int16, MAX_LENGTH 3; the handler pauses on the first string and closes on the third -/
def exI : Cfg := ⟨2, 3, fun k => if k = 0 then { pause := true } else if k = 2 then { close := true } else {}⟩

example : ((machine exI).run init
      [.data [0, 1, 97, 0], .data [2, 98, 98, 0, 0], .resume, .data [0, 9]]).2 =
    [.str [97], .str [98, 98], .str [], .close] := by decide
example : upTo (refStream exI [0, 1, 97, 0, 2, 98, 98, 0, 0, 0, 9]) =
    [.str [97], .str [98, 98], .str [], .close] := by decide
example : ((machine ⟨1, 3, fun _ => {}⟩).run init [.data [1, 97, 4], .data [1, 2, 3, 4]]).2 =
    [.str [97], .tooLong 4, .close] := by decide
example : send ⟨1, 300, fun _ => {}⟩ (List.replicate 256 0) = none := by
  unfold send; simp only [List.length_replicate]; decide

end IntN

/-! ## LineOnlyReceiver (repaired buffer check `len(buffer) >= MAX_LENGTH + len(delimiter)`)

The observation `LineOnly.obsLine` erases the argument of `lineLengthExceeded` (how much of the
over-long line had been buffered is, by the method's own documentation, delivery dependent) and
cuts at the first close request. -/
section LineOnly
open Twisted.Framing.Line Twisted.Framing.Line.Only

/-- **LineOnlyReceiver, segmentation invariance**: for every non-empty delimiter, limit,
    application script and schedule of deliveries, the lines delivered and oversize
    notifications up to the first close request are those of the whole stream delivered at once. -/
theorem lineOnly_seg_invariant (c : Cfg) (hd : c.delim ≠ []) (ops : List Op) :
    LineOnly.obsLine.obs ((machine c).run init ops).2 =
      LineOnly.obsLine.obs (feed c init (dataOf ops)).2 :=
  LineOnly.run_once c hd ops

/-- two segmentations of the same stream -/
theorem lineOnly_seg_invariant_two (c : Cfg) (hd : c.delim ≠ []) (ops₁ ops₂ : List Op)
    (h : dataOf ops₁ = dataOf ops₂) :
    LineOnly.obsLine.obs ((machine c).run init ops₁).2 =
      LineOnly.obsLine.obs ((machine c).run init ops₂).2 := by
  rw [LineOnly.run_once c hd ops₁, LineOnly.run_once c hd ops₂, h]

/-- **LineOnlyReceiver, reference framing of the stream delivered at once**: the stream is split
    at the delimiter (`pySplit`); complete pieces are lines, delivered in order while within the
    limit (an over-long one is reported and closes); the unfinished last piece is reported
    exactly when it can no longer end within the limit. -/
theorem lineOnly_matches_reference (c : Cfg) (b : Bytes) :
    (feed c init b).2 =
      (LineOnly.fin c (forLines c (pySplit c.delim b).dropLast false 0)
        (LineOnly.lastP (pySplit c.delim b))).2 := by
  rw [LineOnly.feed_eq]; rfl

/-- **LineOnlyReceiver, send/receive and "within the limit is never rejected"**: lines `ms`
    that `sendLine` can carry (the delimiter first occurs at the end of `m ++ delimiter`), each
    within `MAX_LENGTH`, written back to back and delivered under any schedule, are received as
    exactly `ms`; no `lineLengthExceeded`. -/
theorem lineOnly_send_receive (c : Cfg) (hd : c.delim ≠ []) (ms : List Bytes)
    (hs : ∀ m ∈ ms, LineOnly.Sendable c.delim m) (hm : ∀ m ∈ ms, m.length ≤ c.maxLen)
    (ops : List Op) (hdata : dataOf ops = (ms.map (send c)).flatten) :
    LineOnly.obsLine.obs ((machine c).run init ops).2 = upTo (LineOnly.delivered c 0 ms) := by
  rw [LineOnly.run_once c hd ops, hdata]
  exact LineOnly.once_frames c hd ms hs hm

/-- **LineOnlyReceiver, a longer line is never delivered** (anywhere in the run). -/
theorem lineOnly_over_limit_never_delivered (c : Cfg) (ops : List Op) (l : Bytes)
    (h : Ev.line l ∈ ((machine c).run init ops).2) : l.length ≤ c.maxLen := by
  obtain ⟨s, op, h⟩ := mem_run (machine c) _ ops init h
  cases op with
  | data x => exact LineOnly.feed_within c s x l h
  | resume => simp [Machine.step, machine] at h

/-- The pinned tree's check `len(buffer) > MAX_LENGTH` falsified the property: with
    `MAX_LENGTH = 2`, `b"ab\r"` then `b"\n"` was rejected although `b"ab\r\n"` at once delivers
    `ab`.  With the repaired rule the model delivers the line under both schedules. -/
theorem lineOnly_split_delimiter_witness :
    ((machine ⟨[13, 10], 2, fun _ => {}⟩).run init [.data [97, 98, 13], .data [10]]).2 = [.line [97, 98]] ∧
    ((machine ⟨[13, 10], 2, fun _ => {}⟩).run init [.data [97, 98, 13, 10]]).2 = [.line [97, 98]] := by
  decide

/-! non-vacuity -/
def exL : Cfg := ⟨[13, 10], 3, fun k => if k = 1 then { close := true } else {}⟩
example : ((machine exL).run init [.data [97, 13], .data [10, 98, 13, 10, 99], .data [13, 10]]).2 =
    [.line [97], .line [98], .close] := by decide
example : ((machine ⟨[13, 10], 3, fun _ => {}⟩).run init [.data [97, 98, 99, 100], .data [101], .data [13, 10]]).2 =
    [.exceeded [97, 98, 99, 100, 101], .close] := by decide
example : LineOnly.obsLine.obs (feed ⟨[13, 10], 3, fun _ => {}⟩ init [97, 98, 99, 100, 101, 13, 10]).2 =
    [.exceeded [], .close] := by decide
example : LineOnly.Sendable [13, 10] [97, 13] := by unfold LineOnly.Sendable; decide

end LineOnly

/-! ## NetstringReceiver and LineReceiver — PARTIAL

Both are modelled (`Framing/Netstring.lean`, `Framing/Line.lean` `Recv`) and tied to the code on
every run (all single cuts of structured streams, pause/resume, raw-mode switches), and the
oracle checks segmentation invariance and the reference framing on the implementation.  The
full-strength statements, NOT yet proved in Lean, are

  theorem netstring_seg_invariant (c) (h : 1 ≤ c.maxLen) (ops) :
      upTo ((Netstring.machine c).run Netstring.init ops).2 = upTo (Netstring.refStream c (dataOf ops))
  theorem lineReceiver_seg_invariant (c) (hd : c.delim ≠ []) (ops₁ ops₂) (same data, both quiescent) :
      obs ((Line.Recv.machine c).run init ops₁).2 = obs ((Line.Recv.machine c).run init ops₂).2
      -- obs: exceeded-argument erased, adjacent raw deliveries joined, cut at first close

What is missing is the per-receiver splitting lemma (`hstep` of `run_obs`): for netstrings the
resumption of a partially received length/payload, for LineReceiver the loop with mode switches.
What is proved below are the limit halves that do not need it. -/
section Partial
open Twisted.Framing.Netstring

theorem consumePayload_len (s : St) (s' : St) (m : Bytes)
    (h : consumePayload s = .done s' m) (he : 1 ≤ s.expected) (hp : s.payload.length = s.current)
    (hc : s.current ≤ s.expected) : m.length + 1 = s.expected := by
  unfold consumePayload at h
  simp only at h
  split at h
  · rename_i hge
    simp only [Nat.lt_irrefl, if_false] at h
    split at h
    · cases h
    · injection h with _ hm
      subst hm
      simp only [List.length_dropLast, List.length_append, List.length_take, hp]
      omega
  · rename_i hlt
    split at h
    · cases h
    · rename_i h2
      simp only [List.length_append] at h2
      omega

/-- **Netstring, partial (`_partial`)**: a string handed to `stringReceived` directly after its
    length was parsed in the same `_consumeData` call is never longer than `MAX_LENGTH`.
    (Missing for the full `over_limit_never_delivered`: the invariant `expected ≤ MAX_LENGTH + 1`
    carried across deliveries that end inside a payload.) -/
theorem netstring_over_limit_never_delivered_partial (c : Cfg) (s s' : St) (m : Bytes)
    (hs : s.inPayload = false) (h : consume c s = .done s' m) : m.length ≤ c.maxLen := by
  unfold consume at h
  simp only [hs, Bool.false_eq_true, if_false] at h
  split at h
  · cases h
  · split at h <;> cases h
  · rename_i ds after _
    split at h
    · cases h
    · rename_i hb
      have := consumePayload_len _ _ _ h (by simp) (by simp) (by simp)
      simp only [tooBig, Bool.or_eq_true, decide_eq_true_eq, not_or] at hb
      simp only at this
      omega

example : ((machine ⟨12, fun _ => {}⟩).run init
    [.data [51, 58, 97, 98], .data [99, 44, 48, 58, 44, 49, 51, 58]]).2 = [.str [97, 98, 99], .str [], .close] := by
  decide
example : ((Line.Recv.machine ⟨[10], 5, fun k => if k = 0 then { raw := 3 } else { pause := true }⟩).run Line.Recv.init
    [.data [97, 10, 1], .data [2, 3, 98, 10, 99, 10], .resume]).2 =
    [.line [97], .raw [1], .raw [2, 3], .line [98], .line [99]] := by decide

end Partial

end TwistedProps.C16
