import TwistedModel.Framing.Stream
import TwistedModel.Framing.IntN
import TwistedModel.Framing.Line
import TwistedModel.Framing.Netstring
import TwistedProps.C16.IntN
import TwistedProps.C16.LineOnly
import TwistedProps.C16.Netstring
import TwistedProps.C16.Line
/-!
C16 — framed-message receivers are segmentation-invariant with exact length limits.

A *schedule* (`List Op`) is any sequence of deliveries (`Op.data chunk`, empty chunks allowed)
and `resumeProducing` calls (`Op.resume`); `dataOf ops` is the concatenated stream; `run`
plays the schedule on the receiver until the first close request; `upTo` keeps the events
through the first close request.  The application is an arbitrary script `Nat → Act`
(what the callback does on the k-th message: close / pause / raw switch).

For each receiver:
* `…_matches_reference`  every schedule delivers the reference framing of the stream;
* `…_seg_invariant`       two schedules of the same stream deliver the same (in particular any
                          segmentation vs. the stream delivered at once);
* `…_send_receive`        what the send method writes is received as exactly those messages,
                          and nothing within the limit is rejected;
* `…_over_limit_never_delivered`.
"Quiescent" (`closed ∨ ¬ paused` at the end of the schedule) is the statement's own
precondition for pausable receivers: a receiver left paused has, by design, not delivered yet.

All four receivers are proved at full strength: `intN_*`, `lineOnly_*`, `netstring_*`, `line_*`
(LineReceiver: line mode, raw mode switches and pause/resume requested by the callbacks).
-/
namespace TwistedProps.C16
open Twisted.Framing

/-- an event of a run is an event of one of its steps -/
theorem mem_run {σ : Type} (M : Machine σ) (e : Ev) :
    ∀ (ops : List Op) (s : σ), e ∈ (M.run s ops).2 → ∃ s' op, e ∈ (M.step s' op).2 := by
  intro ops
  induction ops with
  | nil => intro s h; simp [Machine.run] at h
  | cons op ops ih =>
    intro s h
    simp only [Machine.run] at h
    split at h
    · simp at h
    · simp only [List.mem_append] at h
      rcases h with h | h
      · exact ⟨s, op, h⟩
      · exact ih _ h

/-- an event of a run is an event of a step taken from a reachable (not yet closed) state:
    `P` is any property of states that the steps preserve -/
theorem mem_run_inv {σ : Type} (M : Machine σ) (P : σ → Prop)
    (hP : ∀ s op, P s → M.closed s = false → P (M.step s op).1) (e : Ev) :
    ∀ (ops : List Op) (s : σ), P s → e ∈ (M.run s ops).2 →
      ∃ s' op, P s' ∧ M.closed s' = false ∧ e ∈ (M.step s' op).2 := by
  intro ops
  induction ops with
  | nil => intro s _ h; simp [Machine.run] at h
  | cons op ops ih =>
    intro s hs h
    simp only [Machine.run] at h
    split at h
    · simp at h
    · rename_i hc
      have hc' : M.closed s = false := by simpa using hc
      simp only [List.mem_append] at h
      rcases h with h | h
      · exact ⟨s, op, hs, hc', h⟩
      · exact ih _ (hP s op hs hc') h

/-! ## Int8/16/32StringReceiver -/
section IntN
open Twisted.Framing.IntN

/-- **IntN, reference framing**: for every prefix width ≥ 1, limit, application script and
    schedule that ends quiescent, the events up to the first close request are the reference
    framing of the concatenated stream. -/
theorem intN_matches_reference (c : Cfg) (hp : 0 < c.prefixLen) (ops : List Op)
    (hq : ((machine c).run init ops).1.closed = true ∨ ((machine c).run init ops).1.paused = false) :
    upTo ((machine c).run init ops).2 = upTo (refStream c (dataOf ops)) :=
  IntN.run_ref c hp ops hq

/-- **IntN, segmentation invariance**: two schedules carrying the same stream (any cuts, any
    interleaving of `resumeProducing`) deliver the same events up to the first close request. -/
theorem intN_seg_invariant (c : Cfg) (hp : 0 < c.prefixLen) (ops₁ ops₂ : List Op)
    (hd : dataOf ops₁ = dataOf ops₂)
    (hq₁ : ((machine c).run init ops₁).1.closed = true ∨ ((machine c).run init ops₁).1.paused = false)
    (hq₂ : ((machine c).run init ops₂).1.closed = true ∨ ((machine c).run init ops₂).1.paused = false) :
    upTo ((machine c).run init ops₁).2 = upTo ((machine c).run init ops₂).2 := by
  rw [IntN.run_ref c hp ops₁ hq₁, IntN.run_ref c hp ops₂ hq₂, hd]

/-- **IntN, send/receive and "within the limit is never rejected"**: the strings `ms`, each within
    `MAX_LENGTH` and accepted by `sendString`, written back to back and delivered under any
    schedule, are received as exactly `ms` (with the script's close requests), and no
    `lengthLimitExceeded` is reported. -/
theorem intN_send_receive (c : Cfg) (hp : 0 < c.prefixLen) (ms : List Bytes)
    (hm : ∀ m ∈ ms, m.length ≤ c.maxLen ∧ m.length < 256 ^ c.prefixLen) (ops : List Op)
    (hd : dataOf ops = (ms.map (IntN.frame c)).flatten)
    (hq : ((machine c).run init ops).1.closed = true ∨ ((machine c).run init ops).1.paused = false) :
    (∀ m ∈ ms, send c m = some (IntN.frame c m)) ∧
    upTo ((machine c).run init ops).2 = upTo (IntN.delivered c 0 ms) := by
  refine ⟨fun m h => IntN.send_eq_frame c m (hm m h).2, ?_⟩
  rw [IntN.run_ref c hp ops hq, hd, refStream]
  have := IntN.ref_frames c hp ms hm 0 [] (((ms.map (IntN.frame c)).flatten).length + 1) (by simp)
  simp only [List.append_nil] at this
  rw [this]
  simp [ref, hp]

/-- **IntN, a longer string is never delivered** (anywhere in the run, not only before the
    first close request). -/
theorem intN_over_limit_never_delivered (c : Cfg) (ops : List Op) (m : Bytes)
    (h : Ev.str m ∈ ((machine c).run init ops).2) : m.length ≤ c.maxLen := by
  obtain ⟨s, op, h⟩ := mem_run (machine c) _ ops init h
  cases op with
  | data x => exact IntN.loop_within c _ _ _ _ _ _ m h
  | resume => exact IntN.loop_within c _ _ _ _ _ _ m h

/-! non-vacuity: Int16, MAX_LENGTH 3; the handler pauses on the first string and closes on the third -/
def exI : Cfg := ⟨2, 3, fun k => if k = 0 then { pause := true } else if k = 2 then { close := true } else {}⟩

example : ((machine exI).run init
      [.data [0, 1, 97, 0], .data [2, 98, 98, 0, 0], .resume, .data [0, 9]]).2 =
    [.str [97], .str [98, 98], .str [], .close] := by decide
example : upTo (refStream exI [0, 1, 97, 0, 2, 98, 98, 0, 0, 0, 9]) =
    [.str [97], .str [98, 98], .str [], .close] := by decide
example : ((machine ⟨1, 3, fun _ => {}⟩).run init [.data [1, 97, 4], .data [1, 2, 3, 4]]).2 =
    [.str [97], .tooLong 4, .close] := by decide
example : send ⟨1, 300, fun _ => {}⟩ (List.replicate 256 0) = none := by
  unfold send; simp only [List.length_replicate]; decide

end IntN

/-! ## LineOnlyReceiver (repaired buffer check `len(buffer) >= MAX_LENGTH + len(delimiter)`)

The observation `LineOnly.obsLine` erases the argument of `lineLengthExceeded` (how much of the
over-long line had been buffered is, by the method's own documentation, delivery dependent) and
cuts at the first close request. -/
section LineOnly
open Twisted.Framing.Line Twisted.Framing.Line.Only

/-- **LineOnlyReceiver, segmentation invariance**: for every non-empty delimiter, limit,
    application script and schedule of deliveries, the lines delivered and oversize
    notifications up to the first close request are those of the whole stream delivered at once. -/
theorem lineOnly_seg_invariant (c : Cfg) (hd : c.delim ≠ []) (ops : List Op) :
    LineOnly.obsLine.obs ((machine c).run init ops).2 =
      LineOnly.obsLine.obs (feed c init (dataOf ops)).2 :=
  LineOnly.run_once c hd ops

/-- two segmentations of the same stream -/
theorem lineOnly_seg_invariant_two (c : Cfg) (hd : c.delim ≠ []) (ops₁ ops₂ : List Op)
    (h : dataOf ops₁ = dataOf ops₂) :
    LineOnly.obsLine.obs ((machine c).run init ops₁).2 =
      LineOnly.obsLine.obs ((machine c).run init ops₂).2 := by
  rw [LineOnly.run_once c hd ops₁, LineOnly.run_once c hd ops₂, h]

/-- **LineOnlyReceiver, reference framing of the stream delivered at once**: the stream is split
    at the delimiter (`pySplit`); complete pieces are lines, delivered in order while within the
    limit (an over-long one is reported and closes); the unfinished last piece is reported
    exactly when it can no longer end within the limit. -/
theorem lineOnly_matches_reference (c : Cfg) (b : Bytes) :
    (feed c init b).2 =
      (LineOnly.fin c (forLines c (pySplit c.delim b).dropLast false 0)
        (LineOnly.lastP (pySplit c.delim b))).2 := by
  rw [LineOnly.feed_eq]; rfl

/-- **LineOnlyReceiver, send/receive and "within the limit is never rejected"**: lines `ms`
    that `sendLine` can carry (the delimiter first occurs at the end of `m ++ delimiter`), each
    within `MAX_LENGTH`, written back to back and delivered under any schedule, are received as
    exactly `ms`; no `lineLengthExceeded`. -/
theorem lineOnly_send_receive (c : Cfg) (hd : c.delim ≠ []) (ms : List Bytes)
    (hs : ∀ m ∈ ms, LineOnly.Sendable c.delim m) (hm : ∀ m ∈ ms, m.length ≤ c.maxLen)
    (ops : List Op) (hdata : dataOf ops = (ms.map (send c)).flatten) :
    LineOnly.obsLine.obs ((machine c).run init ops).2 = upTo (LineOnly.delivered c 0 ms) := by
  rw [LineOnly.run_once c hd ops, hdata]
  exact LineOnly.once_frames c hd ms hs hm

/-- **LineOnlyReceiver, a longer line is never delivered** (anywhere in the run). -/
theorem lineOnly_over_limit_never_delivered (c : Cfg) (ops : List Op) (l : Bytes)
    (h : Ev.line l ∈ ((machine c).run init ops).2) : l.length ≤ c.maxLen := by
  obtain ⟨s, op, h⟩ := mem_run (machine c) _ ops init h
  cases op with
  | data x => exact LineOnly.feed_within c s x l h
  | resume => simp [Machine.step, machine] at h

/-- The pinned tree's check `len(buffer) > MAX_LENGTH` falsified the property: with
    `MAX_LENGTH = 2`, `b"ab\r"` then `b"\n"` was rejected although `b"ab\r\n"` at once delivers
    `ab`.  With the repaired rule the model delivers the line under both schedules. -/
theorem lineOnly_split_delimiter_witness :
    ((machine ⟨[13, 10], 2, fun _ => {}⟩).run init [.data [97, 98, 13], .data [10]]).2 = [.line [97, 98]] ∧
    ((machine ⟨[13, 10], 2, fun _ => {}⟩).run init [.data [97, 98, 13, 10]]).2 = [.line [97, 98]] := by
  decide

/-! non-vacuity -/
def exL : Cfg := ⟨[13, 10], 3, fun k => if k = 1 then { close := true } else {}⟩
example : ((machine exL).run init [.data [97, 13], .data [10, 98, 13, 10, 99], .data [13, 10]]).2 =
    [.line [97], .line [98], .close] := by decide
example : ((machine ⟨[13, 10], 3, fun _ => {}⟩).run init [.data [97, 98, 99, 100], .data [101], .data [13, 10]]).2 =
    [.exceeded [97, 98, 99, 100, 101], .close] := by decide
example : LineOnly.obsLine.obs (feed ⟨[13, 10], 3, fun _ => {}⟩ init [97, 98, 99, 100, 101, 13, 10]).2 =
    [.exceeded [], .close] := by decide
example : LineOnly.Sendable [13, 10] [97, 13] := by unfold LineOnly.Sendable; decide

end LineOnly

/-! ## NetstringReceiver

`Netstring.Cfg.maxLen = 0` is outside the tie (`MAX_LENGTH = 0` raises `ValueError` in
`_maxLengthSize`); the theorems below hold for the model at every `maxLen`, so no hypothesis
`1 ≤ maxLen` is needed.  NetstringReceiver has no pause/resume; `Op.resume` is a no-op. -/
section Netstring
open Twisted.Framing.Netstring

/-- **Netstring, reference framing**: for every limit, application script and schedule of
    deliveries, the events up to the first close request are the reference framing of the
    concatenated stream. -/
theorem netstring_matches_reference (c : Cfg) (ops : List Op) :
    upTo ((machine c).run init ops).2 = upTo (refStream c (dataOf ops)) := by
  rw [Netstring.run_once c ops, Netstring.feed_init_ref]

/-- **Netstring, segmentation invariance**: two schedules carrying the same stream (any cuts,
    a partially received length specification or payload included) deliver the same events up
    to the first close request. -/
theorem netstring_seg_invariant (c : Cfg) (ops₁ ops₂ : List Op) (hd : dataOf ops₁ = dataOf ops₂) :
    upTo ((machine c).run init ops₁).2 = upTo ((machine c).run init ops₂).2 := by
  rw [Netstring.run_once c ops₁, Netstring.run_once c ops₂, hd]

/-- … in particular any schedule versus the stream delivered at once -/
theorem netstring_seg_invariant_once (c : Cfg) (ops : List Op) :
    upTo ((machine c).run init ops).2 = upTo ((machine c).run init [.data (dataOf ops)]).2 :=
  netstring_seg_invariant c ops [.data (dataOf ops)] (by simp [dataOf, Op.bytes])

/-- **Netstring, send/receive and "within the limit is never rejected"**: the strings `ms`, each
    within `MAX_LENGTH`, written by `sendString` back to back and delivered under any schedule,
    are received as exactly `ms` (with the script's close requests); no parse error. -/
theorem netstring_send_receive (c : Cfg) (ms : List Bytes) (hm : ∀ m ∈ ms, m.length ≤ c.maxLen)
    (ops : List Op) (hd : dataOf ops = (ms.map send).flatten) :
    upTo ((machine c).run init ops).2 = upTo (Netstring.delivered c 0 ms) := by
  rw [netstring_matches_reference, hd, refStream, Netstring.ref_frames c ms hm 0 _ (by omega)]

/-- **Netstring, a longer string is never delivered** (anywhere in the run, not only before the
    first close request; the announced size is carried across deliveries that end inside a
    payload). -/
theorem netstring_over_limit_never_delivered (c : Cfg) (ops : List Op) (m : Bytes)
    (h : Ev.str m ∈ ((machine c).run init ops).2) : m.length ≤ c.maxLen := by
  obtain ⟨s, op, hs, hcl, h⟩ := mem_run_inv (machine c) (Netstring.Settled c)
    (fun s op hs hcl => Netstring.step_settled c s op hs hcl) _ ops init (Netstring.settled_init c) h
  exact Netstring.step_within c s op m hs hcl h

/-- (kept from the earlier partial result) from *any* state that is parsing a length, a string
    handed to `stringReceived` in the same `_consumeData` call is within `MAX_LENGTH` -/
theorem netstring_fresh_string_within_limit (c : Cfg) (s s' : St) (m : Bytes)
    (hs : s.inPayload = false) (h : consume c s = .done s' m) : m.length ≤ c.maxLen :=
  (Netstring.consume_done c s s' m (fun hp => by rw [hs] at hp; cases hp) h).2.2.2.2

/-! non-vacuity: MAX_LENGTH 12; length and payload split across deliveries; a second string
    closes; an over-long length is refused as soon as its digits are there -/
example : ((machine ⟨12, fun _ => {}⟩).run init
    [.data [51, 58, 97, 98], .data [99, 44, 48, 58, 44, 49, 51, 58]]).2 = [.str [97, 98, 99], .str [], .close] := by
  decide
example : upTo (refStream ⟨12, fun _ => {}⟩ [51, 58, 97, 98, 99, 44, 48, 58, 44, 49, 51, 58]) =
    [.str [97, 98, 99], .str [], .close] := by decide
example : upTo ((machine ⟨12, fun k => if k = 0 then { close := true } else {}⟩).run init
    [.data [49], .data [58, 97], .data [44, 49, 58, 98, 44]]).2 = [.str [97], .close] := by decide
example : send [97, 98, 99] = [51, 58, 97, 98, 99, 44] := by decide
example : Netstring.delivered ⟨12, fun _ => {}⟩ 0 [[97], []] = [.str [97], .str []] := by decide

end Netstring

/-! ## LineReceiver (line mode, raw mode, pause/resume)

The application is a script: on the k-th line it may close, pause (`pauseProducing`) and/or
switch to raw mode for `raw` bytes, after which its raw handler calls `setLineMode(rest)`.
The observation `Line.obsRecv` erases the argument of `lineLengthExceeded` (as for
LineOnlyReceiver), joins adjacent `rawDataReceived` chunks (how a raw body is chunked *is* the
segmentation) and cuts at the first close request.  "Quiescent" as for IntN. -/
section LineReceiver
open Twisted.Framing.Line Twisted.Framing.Line.Recv

/-- **LineReceiver, reference framing**: for every delimiter, limit, application script (closing,
    pausing, switching to raw mode) and schedule of deliveries and `resumeProducing` calls that
    ends quiescent, the observed events are the reference framing of the concatenated stream. -/
theorem line_matches_reference (c : Cfg) (ops : List Op)
    (hq : ((machine c).run init ops).1.closed = true ∨ ((machine c).run init ops).1.paused = false) :
    Line.obsRecv.obs ((machine c).run init ops).2 = Line.obsRecv.obs (refStream c (dataOf ops)) :=
  Line.run_ref c ops hq

/-- **LineReceiver, segmentation invariance**: two schedules carrying the same stream (any cuts —
    inside a delimiter, inside a raw body —, any interleaving of `resumeProducing`, with the
    pauses and line/raw mode switches the callbacks request) are observed the same. -/
theorem line_seg_invariant (c : Cfg) (ops₁ ops₂ : List Op) (hd : dataOf ops₁ = dataOf ops₂)
    (hq₁ : ((machine c).run init ops₁).1.closed = true ∨ ((machine c).run init ops₁).1.paused = false)
    (hq₂ : ((machine c).run init ops₂).1.closed = true ∨ ((machine c).run init ops₂).1.paused = false) :
    Line.obsRecv.obs ((machine c).run init ops₁).2 = Line.obsRecv.obs ((machine c).run init ops₂).2 := by
  rw [Line.run_ref c ops₁ hq₁, Line.run_ref c ops₂ hq₂, hd]

/-- … in particular any schedule versus the stream delivered at once and then resumed `k` times -/
theorem line_seg_invariant_once (c : Cfg) (ops : List Op) (k : Nat)
    (hq : ((machine c).run init ops).1.closed = true ∨ ((machine c).run init ops).1.paused = false)
    (hq' : ((machine c).run init (.data (dataOf ops) :: List.replicate k .resume)).1.closed = true ∨
      ((machine c).run init (.data (dataOf ops) :: List.replicate k .resume)).1.paused = false) :
    Line.obsRecv.obs ((machine c).run init ops).2 =
      Line.obsRecv.obs ((machine c).run init (.data (dataOf ops) :: List.replicate k .resume)).2 := by
  apply line_seg_invariant c _ _ _ hq hq'
  have : ∀ k, dataOf (List.replicate k Op.resume) = [] := by
    intro k; induction k with
    | zero => rfl
    | succ k ih => simp [List.replicate_succ, dataOf, Op.bytes, ih]
  simp [dataOf, Op.bytes, this]

/-- **LineReceiver, send/receive and "within the limit is never rejected"**: for an application
    that stays in line mode, lines `ms` that `sendLine` can carry, each within `MAX_LENGTH`,
    written back to back and delivered under any schedule that ends quiescent, are received as
    exactly `ms`; no `lineLengthExceeded`. -/
theorem line_send_receive (c : Cfg) (hraw : ∀ k, (c.script k).raw = 0) (ms : List Bytes)
    (hs : ∀ m ∈ ms, LineOnly.Sendable c.delim m) (hm : ∀ m ∈ ms, m.length ≤ c.maxLen)
    (ops : List Op) (hdata : dataOf ops = (ms.map (send c)).flatten)
    (hq : ((machine c).run init ops).1.closed = true ∨ ((machine c).run init ops).1.paused = false) :
    Line.obsRecv.obs ((machine c).run init ops).2 = upTo (LineOnly.delivered c 0 ms) := by
  rw [Line.run_ref c ops hq, hdata, refStream, Line.ref_frames c hraw ms hs hm 0 _ (by omega)]
  exact Line.obs_delivered c ms 0

/-- **LineReceiver, a longer line is never delivered** (anywhere in the run). -/
theorem line_over_limit_never_delivered (c : Cfg) (ops : List Op) (l : Bytes)
    (h : Ev.line l ∈ ((machine c).run init ops).2) : l.length ≤ c.maxLen := by
  obtain ⟨s, op, h⟩ := mem_run (machine c) _ ops init h
  exact Line.step_within c s op l h

/-- **join law for the model of `bytes.split`** (used by the LineOnlyReceiver reference framing):
    the pieces joined by the delimiter give back the stream — `pySplit` loses and invents nothing. -/
theorem split_join (d b : Bytes) : Line.pyJoin d (pySplit d b) = b := Line.pySplit_join d b

example : pySplit [13, 10] [97, 13, 10, 13, 10, 98] = [[97], [], [98]] := by decide

/-! non-vacuity: delimiter LF, MAX_LENGTH 5; the first line asks for 3 raw bytes, later lines pause -/
def exR : Cfg := ⟨[10], 5, fun k => if k = 0 then { raw := 3 } else { pause := true }⟩
example : ((machine exR).run init [.data [97, 10, 1], .data [2, 3, 98, 10, 99, 10], .resume]).2 =
    [.line [97], .raw [1], .raw [2, 3], .line [98], .line [99]] := by decide
example : Line.obsRecv.obs ((machine exR).run init [.data [97, 10, 1], .data [2, 3, 98, 10, 99, 10], .resume]).2 =
    [.line [97], .raw [1, 2, 3], .line [98], .line [99]] := by decide
example : Line.obsRecv.obs (refStream exR [97, 10, 1, 2, 3, 98, 10, 99, 10]) =
    [.line [97], .raw [1, 2, 3], .line [98], .line [99]] := by decide
example : ((machine exR).run init [.data [97, 10, 1, 2, 3, 98, 10, 99, 10], .resume]).1.paused = true := by decide
example : Line.obsRecv.obs ((machine ⟨[13, 10], 3, fun _ => {}⟩).run init [.data [97, 98, 99, 13], .data [10, 97, 98, 99, 100, 13]]).2 =
    [.line [97, 98, 99], .exceeded [], .close] := by decide

end LineReceiver

/-! ## Two live connections of one receiver class (white-box mutation audit: state shared between connections)

The statement's "reference framing of the stream" is per connection.  The models are pure functions of one
connection's state, so interleaving the schedules of two connections changes nothing for either — stated here
for every machine, every pair of states and every interleaving; the harness checks the same on the real
classes (oracle clause `interference`), which is what exposes class-level / global mutable state. -/

/-- Two live connections of one receiver class.  A joint schedule tags every operation with the connection
    it is for (`true` = the first); each connection, as in `Machine.run`, ignores what arrives after its own
    first close request. -/
def runPair {σ : Type} (M : Machine σ) : σ → σ → List (Bool × Op) → (σ × List Ev) × (σ × List Ev)
  | s₁, s₂, [] => ((s₁, []), (s₂, []))
  | s₁, s₂, (true, op) :: rest =>
    if M.closed s₁ then runPair M s₁ s₂ rest
    else
      let r := M.step s₁ op
      let q := runPair M r.1 s₂ rest
      ((q.1.1, r.2 ++ q.1.2), q.2)
  | s₁, s₂, (false, op) :: rest =>
    if M.closed s₂ then runPair M s₁ s₂ rest
    else
      let r := M.step s₂ op
      let q := runPair M s₁ r.1 rest
      (q.1, (q.2.1, r.2 ++ q.2.2))

/-- the operations of a joint schedule addressed to one connection -/
def opsFor (which : Bool) (ops : List (Bool × Op)) : List Op :=
  (ops.filter (fun p => p.1 == which)).map (·.2)

theorem run_closed {σ : Type} (M : Machine σ) (s : σ) (h : M.closed s = true) (ops : List Op) :
    M.run s ops = (s, []) := by
  cases ops with
  | nil => rfl
  | cons op ops => simp [Machine.run, h]

/-- **no interference between connections**: in any interleaving of the schedules of two live connections
    of a receiver, each connection ends in the state and delivers the events of its own schedule played alone. -/
theorem pair_independent {σ : Type} (M : Machine σ) (ops : List (Bool × Op)) :
    ∀ s₁ s₂, (runPair M s₁ s₂ ops).1 = M.run s₁ (opsFor true ops) ∧
             (runPair M s₁ s₂ ops).2 = M.run s₂ (opsFor false ops) := by
  induction ops with
  | nil => intro s₁ s₂; simp [runPair, opsFor, Machine.run]
  | cons p rest ih =>
    intro s₁ s₂
    obtain ⟨w, op⟩ := p
    cases w with
    | true =>
      by_cases hc : M.closed s₁ = true
      · have := ih s₁ s₂
        simp only [runPair, hc, if_true]
        refine ⟨?_, by simpa [opsFor] using this.2⟩
        rw [this.1, run_closed M s₁ hc, run_closed M s₁ hc]
      · have := ih (M.step s₁ op).1 s₂
        simp only [runPair, hc]
        simp [opsFor, Machine.run, hc] at this ⊢
        simp [this.1, this.2]
    | false =>
      by_cases hc : M.closed s₂ = true
      · have := ih s₁ s₂
        simp only [runPair, hc, if_true]
        refine ⟨by simpa [opsFor] using this.1, ?_⟩
        rw [this.2, run_closed M s₂ hc, run_closed M s₂ hc]
      · have := ih s₁ (M.step s₂ op).1
        simp only [runPair, hc]
        simp [opsFor, Machine.run, hc] at this ⊢
        simp [this.1, this.2]

/-- non-vacuity: a concrete interleaving of two Int8 connections, each holding a partial string while the other works -/
example :
    let M := IntN.machine ⟨1, 5, fun _ => {}⟩
    let ops : List (Bool × Op) := [(true, .data [2, 97]), (false, .data [1]), (true, .data [98, 1]), (false, .data [120]),
                                   (true, .data [99])]
    (runPair M IntN.init IntN.init ops).1.2 = [Ev.str [97, 98], Ev.str [99]] ∧
    (runPair M IntN.init IntN.init ops).2.2 = [Ev.str [120]] := by decide

end TwistedProps.C16
