import TwistedModel.Framing.Stream
import TwistedModel.Framing.Line
import TwistedProps.C16.LineOnly
/-! Lemmas for C16, LineReceiver: the receive loop (line mode, raw mode, pauses) splits the
    reference framing. -/
set_option linter.unusedSimpArgs false
namespace TwistedProps.C16.Line
open Twisted.Framing Twisted.Framing.Line Twisted.Framing.Line.Recv
open TwistedProps.C16.LineOnly (erase erase_isClose hasClose_map_erase splitGo_ne_nil Sendable delivered)

/-! ### the observation: exceeded-argument erased, adjacent raw chunks joined, cut at close -/

def joinStep : Ev → List Ev → List Ev
  | .raw x, .raw y :: t => .raw (x ++ y) :: t
  | e, t => e :: t

def joinRaw (es : List Ev) : List Ev := es.foldr joinStep []

theorem joinStep_nonraw (e : Ev) (t : List Ev) (h : ∀ x, e ≠ .raw x) : joinStep e t = e :: t := by
  cases e <;> first | rfl | exact absurd rfl (h _)

theorem joinStep_raw_raw (x y : Bytes) (t : List Ev) : joinStep (.raw x) (.raw y :: t) = .raw (x ++ y) :: t := rfl

theorem joinStep_raw_other (x : Bytes) (t : List Ev) (h : ∀ y t', t ≠ .raw y :: t') :
    joinStep (.raw x) t = .raw x :: t := by
  cases t with
  | nil => rfl
  | cons a t => cases a <;> first | rfl | exact absurd rfl (h _ _)

theorem upTo_cons (e : Ev) (es : List Ev) : upTo (e :: es) = if e.isClose then [e] else e :: upTo es := rfl

theorem upTo_joinStep_congr (x : Ev) (T T' : List Ev) (h : upTo T = upTo T') :
    upTo (joinStep x T) = upTo (joinStep x T') := by
  by_cases hx : ∃ b, x = .raw b
  · obtain ⟨b, rfl⟩ := hx
    cases T with
    | nil =>
      cases T' with
      | nil => rfl
      | cons a' t' => rw [upTo_cons] at h; split at h <;> simp [upTo] at h
    | cons a t =>
      cases T' with
      | nil => rw [upTo_cons] at h; split at h <;> simp [upTo] at h
      | cons a' t' =>
        have ha : a = a' := by
          rw [upTo_cons, upTo_cons] at h
          split at h <;> split at h <;> simp at h <;> first | exact h | exact h.1
        subst ha
        by_cases hr : ∃ y, a = .raw y
        · obtain ⟨y, rfl⟩ := hr
          rw [joinStep_raw_raw, joinStep_raw_raw]
          simp only [upTo_cons, Ev.isClose, Bool.false_eq_true, if_false, List.cons.injEq, true_and] at h ⊢
          exact h
        · have hn : ∀ (t0 : List Ev), ∀ y t', a :: t0 ≠ .raw y :: t' := by
            intro t0 y t' he; injection he with he _; exact hr ⟨y, he⟩
          rw [joinStep_raw_other _ _ (hn t), joinStep_raw_other _ _ (hn t')]
          simp only [upTo_cons (Ev.raw b), Ev.isClose, Bool.false_eq_true, if_false, h]
  · have hx' : ∀ b, x ≠ .raw b := fun b hb => hx ⟨b, hb⟩
    rw [joinStep_nonraw x T hx', joinStep_nonraw x T' hx', upTo_cons, upTo_cons, h]

theorem upTo_foldr_congr (e : List Ev) (T T' : List Ev) (h : upTo T = upTo T') :
    upTo (e.foldr joinStep T) = upTo (e.foldr joinStep T') := by
  induction e with
  | nil => exact h
  | cons x e ih => exact upTo_joinStep_congr x _ _ ih

theorem upTo_foldr_cut (T T' : List Ev) : ∀ (a : List Ev), hasClose a = true →
    upTo (a.foldr joinStep T) = upTo (a.foldr joinStep T') := by
  intro a
  induction a with
  | nil => intro h; simp [hasClose] at h
  | cons x a ih =>
    intro h
    by_cases ha : hasClose a = true
    · exact upTo_joinStep_congr x _ _ (ih ha)
    · have hx : x.isClose = true := by
        simp only [hasClose, List.any_cons, Bool.or_eq_true] at h ha
        rcases h with h | h
        · exact h
        · exact absurd h ha
      have hx' : ∀ b, x ≠ .raw b := by intro b hb; rw [hb] at hx; cases hx
      simp only [List.foldr_cons]
      rw [joinStep_nonraw x _ hx', joinStep_nonraw x _ hx', upTo_cons, upTo_cons, hx]
      rfl

theorem joinRaw_append (e a : List Ev) : joinRaw (e ++ a) = e.foldr joinStep (joinRaw a) := by
  simp [joinRaw, List.foldr_append]

def obsRecv : Obs where
  obs := fun es => upTo (joinRaw (es.map erase))
  congr := by
    intro e a b h
    simp only [List.map_append, joinRaw_append]
    exact upTo_foldr_congr _ _ _ h
  cut := by
    intro a b h
    have h' : hasClose (a.map erase) = true := by rw [hasClose_map_erase]; exact h
    simp only [List.map_append, joinRaw_append]
    have := upTo_foldr_cut (joinRaw (b.map erase)) [] (a.map erase) h'
    rw [this]; rfl

theorem obs_cons_congr (e : Ev) (a b : List Ev) (h : obsRecv.obs a = obsRecv.obs b) :
    obsRecv.obs (e :: a) = obsRecv.obs (e :: b) := obsRecv.congr [e] a b h

/-- two adjacent raw chunks are observed as one -/
theorem obs_raw_raw (x y : Bytes) (a : List Ev) :
    obsRecv.obs (.raw x :: .raw y :: a) = obsRecv.obs (.raw (x ++ y) :: a) := by
  show upTo (joinRaw _) = upTo (joinRaw _)
  simp only [List.map_cons, erase, joinRaw, List.foldr_cons]
  cases h : List.foldr joinStep [] (List.map erase a) with
  | nil => rfl
  | cons b t =>
    by_cases hr : ∃ z, b = .raw z
    · obtain ⟨z, rfl⟩ := hr
      simp only [joinStep_raw_raw, List.append_assoc]
    · have hn : ∀ (t0 : List Ev), ∀ y t', b :: t0 ≠ .raw y :: t' := by
        intro t0 y t' he; injection he with he _; exact hr ⟨y, he⟩
      rw [joinStep_raw_other y _ (hn t), joinStep_raw_raw, joinStep_raw_other _ _ (hn t)]

theorem obs_exceeded (x y : Bytes) (a b : List Ev) :
    obsRecv.obs (.exceeded x :: .close :: a) = obsRecv.obs (.exceeded y :: .close :: b) := by
  have h1 := obsRecv.cut [.exceeded x, .close] a (by simp [hasClose, Ev.isClose])
  have h2 := obsRecv.cut [.exceeded y, .close] b (by simp [hasClose, Ev.isClose])
  simp only [List.cons_append, List.nil_append] at h1 h2
  rw [h1, h2]
  rfl

/-! ### `split(delimiter, 1)` under further bytes -/

theorem cutGo_cons (d : Bytes) (a : UInt8) (rest cur : Bytes) :
    cutGo d (a :: rest) cur =
      if d.isSuffixOf (cur ++ [a]) then
        some ((cur ++ [a]).take ((cur ++ [a]).length - d.length), rest)
      else cutGo d rest (cur ++ [a]) := rfl

theorem cutGo_some_append (d y : Bytes) : ∀ (u cur line rest : Bytes),
    cutGo d u cur = some (line, rest) → cutGo d (u ++ y) cur = some (line, rest ++ y) := by
  intro u
  induction u with
  | nil => intro cur line rest h; simp [cutGo] at h
  | cons a u ih =>
    intro cur line rest h
    rw [cutGo_cons] at h
    rw [List.cons_append, cutGo_cons]
    split
    · rename_i hs
      simp only [hs, if_true, Option.some.injEq, Prod.mk.injEq] at h
      rw [← h.1, ← h.2]
    · rename_i hs
      simp only [hs, Bool.false_eq_true, if_false] at h
      exact ih _ _ _ h

theorem cutGo_none_append (d y : Bytes) : ∀ (u cur : Bytes),
    cutGo d u cur = none → cutGo d (u ++ y) cur = cutGo d y (cur ++ u) := by
  intro u
  induction u with
  | nil => intro cur _; simp
  | cons a u ih =>
    intro cur h
    rw [cutGo_cons] at h
    rw [List.cons_append, cutGo_cons]
    split
    · rename_i hs; simp [hs] at h
    · rename_i hs
      simp only [hs, Bool.false_eq_true, if_false] at h
      rw [ih _ h]; simp

theorem cutGo_some_len (d : Bytes) : ∀ (u cur line rest : Bytes),
    cutGo d u cur = some (line, rest) →
      rest.length < u.length ∧ cur.length + 1 ≤ line.length + d.length := by
  intro u
  induction u with
  | nil => intro cur line rest h; simp [cutGo] at h
  | cons a u ih =>
    intro cur line rest h
    rw [cutGo_cons] at h
    split at h
    · simp only [Option.some.injEq, Prod.mk.injEq] at h
      rw [← h.1, ← h.2]
      simp only [List.length_take, List.length_append, List.length_cons, List.length_nil]
      omega
    · have := ih _ _ _ h
      simp only [List.length_append, List.length_cons, List.length_nil] at this ⊢
      omega

/-! ### unfolding -/

/-- the state after the k-th line was handed to `lineReceived` -/
def afterLine (c : Cfg) (s : St) (rest : Bytes) : St :=
  { s with buffer := rest, n := s.n + 1,
           closed := s.closed || (c.script s.n).close, paused := s.paused || (c.script s.n).pause,
           lineMode := (c.script s.n).raw == 0, rawLeft := (c.script s.n).raw }

/-- the state after `rawDataReceived(buffer)` -/
def afterRaw (s : St) : St :=
  if s.rawLeft - min s.rawLeft s.buffer.length = 0 then
    { s with buffer := s.buffer.drop (min s.rawLeft s.buffer.length), lineMode := true, rawLeft := 0 }
  else { s with buffer := [], rawLeft := s.rawLeft - min s.rawLeft s.buffer.length }

theorem loop_succ (c : Cfg) (fuel : Nat) (s : St) :
    loop c (fuel + 1) s =
      if s.buffer = [] ∨ s.paused = true then (s, [])
      else if s.lineMode then
        match pyCut c.delim s.buffer with
        | none =>
          if s.buffer.length ≥ c.maxLen + c.delim.length then
            ({ s with buffer := [], closed := true }, [Ev.exceeded s.buffer, Ev.close])
          else (s, [])
        | some (line, rest) =>
          if line.length > c.maxLen then
            ({ s with buffer := [], closed := true }, [Ev.exceeded (line ++ c.delim ++ rest), Ev.close])
          else if (afterLine c s rest).closed then
            (afterLine c s rest, Ev.line line :: closeEv (c.script s.n))
          else
            ((loop c fuel (afterLine c s rest)).1,
              Ev.line line :: (closeEv (c.script s.n) ++ (loop c fuel (afterLine c s rest)).2))
      else
        ((loop c fuel (afterRaw s)).1,
          Ev.raw (s.buffer.take (min s.rawLeft s.buffer.length)) :: (loop c fuel (afterRaw s)).2) := by
  simp only [loop, afterLine, afterRaw]
  split
  · rfl
  · split
    · cases pyCut c.delim s.buffer with
      | none => rfl
      | some p => obtain ⟨line, rest⟩ := p; rfl
    · rfl

theorem ref_succ (c : Cfg) (fuel n rawLeft : Nat) (b : Bytes) :
    ref c (fuel + 1) n rawLeft b =
      if b = [] then []
      else if rawLeft > 0 then
        Ev.raw (b.take rawLeft) :: ref c fuel n (rawLeft - min rawLeft b.length) (b.drop rawLeft)
      else
        match pyCut c.delim b with
        | none => if b.length ≥ c.maxLen + c.delim.length then [Ev.exceeded b, Ev.close] else []
        | some (line, rest) =>
          if line.length > c.maxLen then [Ev.exceeded (line ++ c.delim ++ rest), Ev.close]
          else Ev.line line :: (closeEv (c.script n) ++ ref c fuel (n + 1) (c.script n).raw rest) := rfl

/-- enough fuel is enough for the reference -/
theorem ref_fuel (c : Cfg) : ∀ (F F' n rawLeft : Nat) (b : Bytes), b.length < F → b.length < F' →
    ref c F n rawLeft b = ref c F' n rawLeft b := by
  intro F
  induction F with
  | zero => intro F' n r b h; omega
  | succ F ih =>
    intro F' n r b h1 h2
    cases F' with
    | zero => omega
    | succ F' =>
      rw [ref_succ, ref_succ]
      by_cases hb : b = []
      · simp [hb]
      · have hpos : 0 < b.length := List.length_pos_iff.mpr hb
        simp only [hb, if_false]
        split
        · rw [ih F' _ _ _ (by simp only [List.length_drop]; omega) (by simp only [List.length_drop]; omega)]
        · cases hcut : pyCut c.delim b with
          | none => rfl
          | some p =>
            obtain ⟨line, rest⟩ := p
            have := (cutGo_some_len _ _ _ _ _ hcut).1
            simp only
            split
            · rfl
            · rw [ih F' _ _ _ (by omega) (by omega)]

theorem ref_nil (c : Cfg) (F n r : Nat) : ref c F n r [] = [] := by
  cases F with
  | zero => rfl
  | succ F => rw [ref_succ]; simp

theorem loop_nil (c : Cfg) (fuel : Nat) (s : St) (h : s.buffer = []) : loop c fuel s = (s, []) := by
  cases fuel with
  | zero => rfl
  | succ fuel => rw [loop_succ]; simp [h]

/-- line mode exactly when the raw handler wants nothing -/
def Mode (s : St) : Prop := s.lineMode = true ↔ s.rawLeft = 0

theorem mode_afterLine (c : Cfg) (s : St) (rest : Bytes) : Mode (afterLine c s rest) := by
  simp [Mode, afterLine]

theorem mode_afterRaw (s : St) (h : Mode s) : Mode (afterRaw s) := by
  unfold afterRaw
  split
  · simp [Mode]
  · rename_i hne
    simp only [Mode]
    have : s.rawLeft ≠ 0 := by omega
    constructor
    · intro hl; exact absurd (h.mp hl) this
    · intro h0; exact absurd h0 hne

/-- **Splitting lemma.**  Running the receive loop on the buffer and then framing what it left
    together with the further stream `y` is observed as the reference framing of
    `buffer ++ y` (pauses only postpone). -/
theorem loop_ref (c : Cfg) (y : Bytes) : ∀ (fuel : Nat) (s : St) (F F' : Nat),
    Mode s → s.closed = false → s.buffer.length < fuel → (s.buffer ++ y).length < F →
    ((loop c fuel s).1.buffer ++ y).length < F' →
    obsRecv.obs (ref c F s.n s.rawLeft (s.buffer ++ y)) =
      obsRecv.obs ((loop c fuel s).2 ++
        ref c F' (loop c fuel s).1.n (loop c fuel s).1.rawLeft ((loop c fuel s).1.buffer ++ y)) := by
  intro fuel
  induction fuel with
  | zero => intro s F F' _ _ h; omega
  | succ fuel ih =>
    intro s F F' hm hcl hf hF hF'
    rw [loop_succ] at hF' ⊢
    by_cases h1 : s.buffer = [] ∨ s.paused = true
    · simp only [h1, if_true, List.nil_append] at hF' ⊢
      rw [ref_fuel c F F' _ _ _ hF hF']
    · simp only [h1, if_false] at hF' ⊢
      have hne : s.buffer ≠ [] := fun h => h1 (Or.inl h)
      have hne' : s.buffer ++ y ≠ [] := by simp [hne]
      have hpos : 0 < s.buffer.length := List.length_pos_iff.mpr hne
      cases F with
      | zero => omega
      | succ F =>
      have hL := ref_succ c F s.n s.rawLeft (s.buffer ++ y)
      simp only [hne', if_false] at hL
      by_cases hl : s.lineMode = true
      · have hr0 : s.rawLeft = 0 := hm.mp hl
        have hr0' : ¬ s.rawLeft > 0 := by omega
        simp only [hl, if_true] at hF' ⊢
        simp only [hr0', if_false] at hL
        cases hcut : pyCut c.delim s.buffer with
        | none =>
          rw [hcut] at hF'
          simp only at hF' ⊢
          by_cases hov : s.buffer.length ≥ c.maxLen + c.delim.length
          · simp only [hov, if_true, List.cons_append, List.nil_append]
            rw [hL]
            have hc2 : pyCut c.delim (s.buffer ++ y) = cutGo c.delim y ([] ++ s.buffer) :=
              cutGo_none_append _ y _ _ hcut
            cases hc3 : pyCut c.delim (s.buffer ++ y) with
            | none =>
              have : (s.buffer ++ y).length ≥ c.maxLen + c.delim.length := by
                simp only [List.length_append]; omega
              simp only [this, if_true]
              exact obs_exceeded _ _ _ _
            | some p =>
              obtain ⟨line, rest⟩ := p
              rw [hc3] at hc2
              have := (cutGo_some_len _ _ _ _ _ hc2.symm).2
              simp only [List.nil_append] at this
              have hlong : line.length > c.maxLen := by omega
              simp only [hlong, if_true]
              exact obs_exceeded _ _ _ _
          · simp only [hov, if_false, List.nil_append] at hF' ⊢
            rw [ref_fuel c (F + 1) F' _ _ _ hF hF']
        | some p =>
          obtain ⟨line, rest⟩ := p
          rw [hcut] at hF'
          have hc2 : pyCut c.delim (s.buffer ++ y) = some (line, rest ++ y) :=
            cutGo_some_append _ y _ _ _ _ hcut
          have hrl := (cutGo_some_len _ _ _ _ _ hcut).1
          rw [hL, hc2]
          simp only at hF' ⊢
          by_cases hlong : line.length > c.maxLen
          · simp only [hlong, if_true, List.cons_append, List.nil_append]
            exact obs_exceeded _ _ _ _
          · simp only [hlong, if_false] at hF' ⊢
            by_cases hc : (afterLine c s rest).closed = true
            · simp only [hc, if_true, List.cons_append]
              have hcl2 : (c.script s.n).close = true := by
                simpa [afterLine, hcl] using hc
              simp only [closeEv, hcl2, if_true, List.cons_append, List.nil_append]
              have h1 := obsRecv.cut [Ev.line line, Ev.close]
                (ref c F (s.n + 1) (c.script s.n).raw (rest ++ y)) (by simp [hasClose, Ev.isClose])
              have h2 := obsRecv.cut [Ev.line line, Ev.close]
                (ref c F' (afterLine c s rest).n (afterLine c s rest).rawLeft ((afterLine c s rest).buffer ++ y))
                (by simp [hasClose, Ev.isClose])
              simp only [List.cons_append, List.nil_append] at h1 h2
              rw [h1, h2]
            · simp only [hc, Bool.false_eq_true, if_false] at hF' ⊢
              have hc' : (afterLine c s rest).closed = false := by simpa using hc
              have := ih (afterLine c s rest) F F' (mode_afterLine c s rest) hc'
                (by simp only [afterLine]; omega)
                (by simp only [afterLine, List.length_append] at hF ⊢; omega) hF'
              simp only [List.cons_append, List.append_assoc]
              exact obsRecv.congr (Ev.line line :: closeEv (c.script s.n)) _ _ this
      · have hrpos : s.rawLeft > 0 := by
          have : ¬ s.rawLeft = 0 := fun h0 => hl (hm.mpr h0)
          omega
        simp only [hl, Bool.false_eq_true, if_false] at hF' ⊢
        simp only [hrpos, if_true] at hL
        rw [hL]
        by_cases hle : s.rawLeft ≤ s.buffer.length
        · have hk : min s.rawLeft s.buffer.length = s.rawLeft := by omega
          have har : afterRaw s = { s with buffer := s.buffer.drop s.rawLeft, lineMode := true, rawLeft := 0 } := by
            simp [afterRaw, hk]
          have e1 : (s.buffer ++ y).take s.rawLeft = s.buffer.take s.rawLeft :=
            List.take_append_of_le_length hle
          have e2 : (s.buffer ++ y).drop s.rawLeft = s.buffer.drop s.rawLeft ++ y :=
            List.drop_append_of_le_length hle
          have e3 : s.rawLeft - min s.rawLeft (s.buffer ++ y).length = 0 := by
            simp only [List.length_append]; omega
          rw [e1, e2, e3, hk]
          have := ih (afterRaw s) F F' (mode_afterRaw s hm) (by rw [har]; exact hcl)
            (by rw [har]; simp only [List.length_drop]; omega)
            (by rw [har]; simp only [List.length_append, List.length_drop] at hF ⊢; omega) hF'
          rw [har] at this ⊢
          simp only [List.cons_append]
          exact obs_cons_congr _ _ _ this
        · have hk : min s.rawLeft s.buffer.length = s.buffer.length := by omega
          have har : afterRaw s = { s with buffer := [], rawLeft := s.rawLeft - s.buffer.length } := by
            have : ¬ (s.rawLeft - s.buffer.length = 0) := by omega
            simp [afterRaw, hk, this]
          rw [har, loop_nil c fuel _ rfl] at hF' ⊢
          dsimp only at hF' ⊢
          simp only [List.nil_append, List.cons_append, hk, List.take_length] at hF' ⊢
          have e1 : (s.buffer ++ y).take s.rawLeft = s.buffer ++ y.take (s.rawLeft - s.buffer.length) := by
            rw [List.take_append, List.take_of_length_le (by omega)]
          have e2 : (s.buffer ++ y).drop s.rawLeft = y.drop (s.rawLeft - s.buffer.length) := by
            rw [List.drop_append, List.drop_of_length_le (by omega)]; rfl
          rw [e1, e2]
          cases y with
          | nil => simp [ref_nil]
          | cons a y =>
            cases F' with
            | zero => omega
            | succ F' =>
              rw [ref_succ c F']
              have hpos2 : s.rawLeft - s.buffer.length > 0 := by omega
              simp only [List.cons_ne_nil, if_false, hpos2, if_true]
              rw [obs_raw_raw]
              apply obs_cons_congr
              have e4 : s.rawLeft - min s.rawLeft (s.buffer ++ a :: y).length =
                  s.rawLeft - s.buffer.length - min (s.rawLeft - s.buffer.length) (a :: y).length := by
                simp only [List.length_append]; omega
              rw [e4]
              have hA : (List.drop (s.rawLeft - s.buffer.length) (a :: y)).length < F := by
                simp only [List.length_append, List.length_drop] at hF ⊢; omega
              have hB : (List.drop (s.rawLeft - s.buffer.length) (a :: y)).length < F' := by
                simp only [List.length_drop, List.length_cons] at hF' ⊢; omega
              rw [ref_fuel c F F' _ _ _ hA hB]

/-! ### the loop: close requests, settled final states -/

theorem afterRaw_closed (s : St) : (afterRaw s).closed = s.closed := by
  unfold afterRaw; split <;> rfl

theorem afterRaw_len (s : St) (hr : s.rawLeft > 0) (hb : s.buffer ≠ []) :
    (afterRaw s).buffer.length < s.buffer.length := by
  have hpos : 0 < s.buffer.length := List.length_pos_iff.mpr hb
  unfold afterRaw
  split
  · simp only [List.length_drop]; omega
  · simp only [List.length_nil]; exact hpos

theorem loop_closed (c : Cfg) : ∀ (fuel : Nat) (s : St), s.closed = false →
    (loop c fuel s).1.closed = true → hasClose (loop c fuel s).2 = true := by
  intro fuel
  induction fuel with
  | zero => intro s hcl h; simp [loop, hcl] at h
  | succ fuel ih =>
    intro s hcl h
    rw [loop_succ] at h ⊢
    by_cases h1 : s.buffer = [] ∨ s.paused = true
    · simp only [h1, if_true] at h; rw [hcl] at h; cases h
    · simp only [h1, if_false] at h ⊢
      by_cases hl : s.lineMode = true
      · simp only [hl, if_true] at h ⊢
        cases hcut : pyCut c.delim s.buffer with
        | none =>
          rw [hcut] at h
          simp only at h ⊢
          split
          · simp [hasClose, Ev.isClose]
          · rename_i hov; simp only [hov, if_false] at h; rw [hcl] at h; cases h
        | some p =>
          obtain ⟨line, rest⟩ := p
          rw [hcut] at h
          simp only at h ⊢
          split
          · simp [hasClose, Ev.isClose]
          · rename_i hlong
            simp only [hlong, if_false] at h
            split
            · rename_i hc
              have hcl2 : (c.script s.n).close = true := by simpa [afterLine, hcl] using hc
              simp [hasClose, closeEv, hcl2, Ev.isClose]
            · rename_i hc
              simp only [hc, if_false] at h
              have := ih (afterLine c s rest) (by simpa using hc) h
              simp only [hasClose, List.any_cons, List.any_append, Bool.or_eq_true] at this ⊢
              exact Or.inr (Or.inr this)
      · simp only [hl, Bool.false_eq_true, if_false] at h ⊢
        have := ih (afterRaw s) (by rw [afterRaw_closed]; exact hcl) h
        simp only [hasClose, List.any_cons, Bool.or_eq_true] at this ⊢
        exact Or.inr this

/-- invariant of the states between top-level calls; *settled*: unless paused or closed,
    nothing deliverable is buffered -/
def Inv (c : Cfg) (s : St) : Prop :=
  s.busy = false ∧ Mode s ∧
    (s.paused = true ∨ s.closed = true ∨ ∀ F, ref c F s.n s.rawLeft s.buffer = [])

theorem loop_busy (c : Cfg) : ∀ (fuel : Nat) (s : St), (loop c fuel s).1.busy = s.busy := by
  intro fuel
  induction fuel with
  | zero => intro s; rfl
  | succ fuel ih =>
    intro s
    rw [loop_succ]
    split
    · rfl
    · split
      · cases pyCut c.delim s.buffer with
        | none => simp only; split <;> rfl
        | some p =>
          obtain ⟨line, rest⟩ := p
          simp only
          split
          · rfl
          · split
            · rfl
            · rw [ih]; rfl
      · rw [ih]; unfold afterRaw; split <;> rfl

theorem loop_settled (c : Cfg) : ∀ (fuel : Nat) (s : St), Mode s → s.buffer.length < fuel →
    Mode (loop c fuel s).1 ∧
    ((loop c fuel s).1.paused = true ∨ (loop c fuel s).1.closed = true ∨
      ∀ F, ref c F (loop c fuel s).1.n (loop c fuel s).1.rawLeft (loop c fuel s).1.buffer = []) := by
  intro fuel
  induction fuel with
  | zero => intro s _ h; omega
  | succ fuel ih =>
    intro s hm hf
    rw [loop_succ]
    by_cases h1 : s.buffer = [] ∨ s.paused = true
    · simp only [h1, if_true]
      refine ⟨hm, ?_⟩
      rcases h1 with h1 | h1
      · right; right; intro F; rw [h1]; exact ref_nil c F _ _
      · exact Or.inl h1
    · simp only [h1, if_false]
      have hne : s.buffer ≠ [] := fun h => h1 (Or.inl h)
      by_cases hl : s.lineMode = true
      · simp only [hl, if_true]
        have hr0 : s.rawLeft = 0 := hm.mp hl
        cases hcut : pyCut c.delim s.buffer with
        | none =>
          simp only
          split
          · exact ⟨by simp [Mode, hr0], Or.inr (Or.inl rfl)⟩
          · rename_i hov
            refine ⟨hm, Or.inr (Or.inr fun F => ?_)⟩
            cases F with
            | zero => rfl
            | succ F => rw [ref_succ]; simp [hne, hr0, hcut, hov]
        | some p =>
          obtain ⟨line, rest⟩ := p
          have hrl := (cutGo_some_len _ _ _ _ _ hcut).1
          simp only
          split
          · exact ⟨by simp [Mode, hr0], Or.inr (Or.inl rfl)⟩
          · split
            · rename_i hc; exact ⟨mode_afterLine c s rest, Or.inr (Or.inl hc)⟩
            · exact ih (afterLine c s rest) (mode_afterLine c s rest) (by simp only [afterLine]; omega)
      · simp only [hl, Bool.false_eq_true, if_false]
        have hrpos : s.rawLeft > 0 := by
          have : ¬ s.rawLeft = 0 := fun h0 => hl (hm.mpr h0)
          omega
        have := afterRaw_len s hrpos hne
        exact ih (afterRaw s) (mode_afterRaw s hm) (by omega)

/-- what is still owed from state `s` when the further stream is `y` -/
def refOf (c : Cfg) (s : St) (y : Bytes) : List Ev :=
  ref c ((s.buffer ++ y).length + 1) s.n s.rawLeft (s.buffer ++ y)

theorem feed_eq (c : Cfg) (s : St) (x : Bytes) (hb : s.busy = false) :
    feed c s x = loop c ((s.buffer ++ x).length + 1) { s with buffer := s.buffer ++ x } := by
  simp [feed, hb]

theorem feed_split (c : Cfg) (s : St) (x y : Bytes) (hb : s.busy = false) (hm : Mode s)
    (hcl : s.closed = false) :
    Inv c (feed c s x).1 ∧
    obsRecv.obs (refOf c s (x ++ y)) = obsRecv.obs ((feed c s x).2 ++ refOf c (feed c s x).1 y) := by
  rw [feed_eq c s x hb]
  have hm0 : Mode { s with buffer := s.buffer ++ x } := hm
  constructor
  · have := loop_settled c ((s.buffer ++ x).length + 1) { s with buffer := s.buffer ++ x } hm0 (by simp)
    exact ⟨by rw [loop_busy]; exact hb, this.1, this.2⟩
  · have := loop_ref c y ((s.buffer ++ x).length + 1) { s with buffer := s.buffer ++ x }
      ((s.buffer ++ (x ++ y)).length + 1)
      (((loop c ((s.buffer ++ x).length + 1) { s with buffer := s.buffer ++ x }).1.buffer ++ y).length + 1)
      hm0 hcl (by simp) (by simp) (by omega)
    simp only [List.append_assoc] at this
    exact this

theorem step_split (c : Cfg) (s : St) (op : Op) (y : Bytes) (hi : Inv c s) (hcl : s.closed = false) :
    Inv c ((machine c).step s op).1 ∧
    obsRecv.obs (refOf c s (op.bytes ++ y)) =
      obsRecv.obs (((machine c).step s op).2 ++ refOf c ((machine c).step s op).1 y) := by
  cases op with
  | data x => exact feed_split c s x y hi.1 hi.2.1 hcl
  | resume =>
    have := feed_split c { s with paused := false } [] y hi.1 hi.2.1 hcl
    simpa [Machine.step, machine, resume, Op.bytes, refOf] using this

theorem step_closed (c : Cfg) (s : St) (op : Op) (hi : Inv c s) (hcl : s.closed = false)
    (h : ((machine c).step s op).1.closed = true) : hasClose ((machine c).step s op).2 = true := by
  cases op with
  | data x =>
    simp only [Machine.step, machine] at h ⊢
    rw [feed_eq c s x hi.1] at h ⊢
    exact loop_closed c _ _ hcl h
  | resume =>
    simp only [Machine.step, machine, resume] at h ⊢
    rw [feed_eq c { s with paused := false } [] hi.1] at h ⊢
    exact loop_closed c _ _ hcl h

theorem inv_init (c : Cfg) : Inv c init :=
  ⟨rfl, by simp [Mode, init], Or.inr (Or.inr fun F => ref_nil c F _ _)⟩

theorem run_preserves {σ : Type} (M : Machine σ) (P : σ → Prop)
    (hP : ∀ s op, P s → M.closed s = false → P (M.step s op).1) :
    ∀ (ops : List Op) (s : σ), P s → P (M.run s ops).1 := by
  intro ops
  induction ops with
  | nil => intro s hs; simpa [Machine.run] using hs
  | cons op ops ih =>
    intro s hs
    simp only [Machine.run]
    by_cases hcl : M.closed s = true
    · simpa [hcl] using hs
    · simp only [hcl, Bool.false_eq_true, if_false]
      exact ih _ (hP s op hs (by simpa using hcl))

/-- every schedule that ends quiescent delivers the reference framing of the concatenated stream -/
theorem run_ref (c : Cfg) (ops : List Op)
    (hq : ((machine c).run init ops).1.closed = true ∨ ((machine c).run init ops).1.paused = false) :
    obsRecv.obs ((machine c).run init ops).2 = obsRecv.obs (refStream c (dataOf ops)) := by
  have key := run_obs (machine c) obsRecv (refOf c) (Inv c)
    (fun s op y hi hcl => step_split c s op y hi hcl)
    (fun s op hi hcl h => step_closed c s op hi hcl h) ops init (inv_init c) rfl
  have hI := run_preserves (machine c) (Inv c) (fun s op hi hcl => (step_split c s op [] hi hcl).1)
    ops init (inv_init c)
  have hrs : refOf c init (dataOf ops) = refStream c (dataOf ops) := by
    simp [refOf, refStream, init]
  rw [hrs] at key
  rw [← key]
  by_cases hcl : ((machine c).run init ops).1.closed = true
  · have : (machine c).closed ((machine c).run init ops).1 = true := hcl
    simp [this]
  · have hcl' : (machine c).closed ((machine c).run init ops).1 = false := by
      simpa [machine] using hcl
    simp only [hcl', Bool.false_eq_true, if_false]
    rcases hq with hq | hq
    · exact absurd hq hcl
    · rcases hI.2.2 with h | h | h
      · rw [hq] at h; cases h
      · exact absurd h hcl
      · simp only [refOf, List.append_nil, h, List.append_nil]

/-! ### limits -/

theorem loop_within (c : Cfg) : ∀ (fuel : Nat) (s : St) (l : Bytes),
    Ev.line l ∈ (loop c fuel s).2 → l.length ≤ c.maxLen := by
  intro fuel
  induction fuel with
  | zero => intro s l h; simp [loop] at h
  | succ fuel ih =>
    intro s l h
    rw [loop_succ] at h
    split at h
    · simp at h
    · split at h
      · cases hcut : pyCut c.delim s.buffer with
        | none => rw [hcut] at h; simp only at h; split at h <;> simp at h
        | some p =>
          obtain ⟨line, rest⟩ := p
          rw [hcut] at h
          simp only at h
          split at h
          · simp at h
          · rename_i hlong
            have hmem : ∀ (X : List Ev), Ev.line l ∈ Ev.line line :: (closeEv (c.script s.n) ++ X) →
                l.length ≤ c.maxLen ∨ Ev.line l ∈ X := by
              intro X hX
              simp only [List.mem_cons, List.mem_append] at hX
              rcases hX with hX | hX | hX
              · injection hX with hX; subst hX; left; omega
              · simp only [closeEv] at hX; split at hX <;> simp at hX
              · right; exact hX
            split at h
            · rcases hmem [] (by simpa using h) with h | h
              · exact h
              · simp at h
            · rcases hmem _ h with h | h
              · exact h
              · exact ih _ _ h
      · simp only [List.mem_cons] at h
        rcases h with h | h
        · cases h
        · exact ih _ _ h

theorem step_within (c : Cfg) (s : St) (op : Op) (l : Bytes)
    (h : Ev.line l ∈ ((machine c).step s op).2) : l.length ≤ c.maxLen := by
  cases op with
  | data x =>
    simp only [Machine.step, machine, feed] at h
    split at h
    · simp at h
    · exact loop_within c _ _ l h
  | resume =>
    simp only [Machine.step, machine, resume, feed] at h
    split at h
    · simp at h
    · exact loop_within c _ _ l h

/-! ### `split` and `split(…, 1)`; lines `sendLine` can carry -/

theorem splitGo_cut (d : Bytes) : ∀ (u cur : Bytes),
    splitGo d u cur =
      match cutGo d u cur with
      | none => [cur ++ u]
      | some (l, r) => l :: splitGo d r [] := by
  intro u
  induction u with
  | nil => intro cur; simp [splitGo, cutGo]
  | cons a u ih =>
    intro cur
    rw [cutGo_cons]
    simp only [splitGo]
    split
    · rfl
    · rw [ih]; simp

theorem splitGo_nil_piece (d r : Bytes) (h : splitGo d r [] = [[]]) : r = [] := by
  rw [splitGo_cut] at h
  cases hc : cutGo d r [] with
  | none => rw [hc] at h; simpa using h
  | some p =>
    obtain ⟨l, r'⟩ := p
    rw [hc] at h
    simp only [List.cons.injEq] at h
    exact absurd h.2 (splitGo_ne_nil d r' [])

/-- a sendable line (`LineOnly.Sendable`: the delimiter first occurs at the very end of
    `m ++ delimiter`) is cut off by `split(delimiter, 1)` as exactly `m` -/
theorem sendable_cut (d m : Bytes) (h : Sendable d m) : pyCut d (m ++ d) = some (m, []) := by
  unfold Sendable at h
  rw [splitGo_cut] at h
  unfold pyCut
  cases hc : cutGo d (m ++ d) [] with
  | none => rw [hc] at h; simp at h
  | some p =>
    obtain ⟨l, r⟩ := p
    rw [hc] at h
    simp only [List.cons.injEq] at h
    rw [h.1, splitGo_nil_piece d r h.2]

/-! ### send / receive -/

theorem ref_send (c : Cfg) (hraw : ∀ k, (c.script k).raw = 0) (m rest : Bytes)
    (hs : Sendable c.delim m) (hm : m.length ≤ c.maxLen) (F n : Nat) :
    ref c (F + 1) n 0 (send c m ++ rest) =
      Ev.line m :: (closeEv (c.script n) ++ ref c F (n + 1) 0 rest) := by
  rw [ref_succ]
  have hcut : pyCut c.delim (send c m ++ rest) = some (m, [] ++ rest) :=
    cutGo_some_append _ rest _ _ _ _ (sendable_cut c.delim m hs)
  by_cases hne : send c m ++ rest = []
  · rw [hne] at hcut; simp [pyCut, cutGo] at hcut
  · have hl : ¬ m.length > c.maxLen := by omega
    simp only [hne, if_false, Nat.lt_irrefl, gt_iff_lt, hcut, hl, hraw n, List.nil_append]

theorem ref_frames (c : Cfg) (hraw : ∀ k, (c.script k).raw = 0) (ms : List Bytes)
    (hs : ∀ m ∈ ms, Sendable c.delim m) (hm : ∀ m ∈ ms, m.length ≤ c.maxLen) :
    ∀ (n F : Nat), ((ms.map (send c)).flatten).length < F →
      ref c F n 0 ((ms.map (send c)).flatten) = delivered c n ms := by
  induction ms with
  | nil => intro n F _; simp [ref_nil, delivered]
  | cons m ms ih =>
    intro n F hF
    cases F with
    | zero => omega
    | succ F =>
      simp only [List.map_cons, List.flatten_cons] at hF ⊢
      rw [ref_send c hraw m _ (hs m (by simp)) (hm m (by simp)), delivered]
      rw [ih (fun x hx => hs x (by simp [hx])) (fun x hx => hm x (by simp [hx])) (n + 1) F]
      have hne : send c m ≠ [] := by
        intro h0
        have := sendable_cut c.delim m (hs m (by simp))
        have h1 : m ++ c.delim = [] := h0
        rw [h1] at this; simp [pyCut, cutGo] at this
      have : 0 < (send c m).length := List.length_pos_iff.mpr hne
      simp only [List.length_append] at hF
      omega

/-- lines and close requests are observed as they are -/
theorem obs_delivered (c : Cfg) : ∀ (ms : List Bytes) (n : Nat),
    obsRecv.obs (delivered c n ms) = upTo (delivered c n ms) := by
  intro ms
  induction ms with
  | nil => intro n; rfl
  | cons m ms ih =>
    intro n
    have h := ih (n + 1)
    show upTo (joinRaw _) = _
    change upTo (joinRaw _) = _ at h
    simp only [delivered, List.map_cons, List.map_append, joinRaw, List.foldr_cons, List.foldr_append] at h ⊢
    by_cases hc : (c.script n).close = true
    · simp [closeEv, hc, erase, joinStep, upTo, Ev.isClose]
    · simp only [closeEv, hc, Bool.false_eq_true, if_false, List.map_nil, List.foldr_nil, List.nil_append]
      rw [joinStep_nonraw _ _ (by intro x hx; cases hx)]
      simp only [erase, upTo_cons, Ev.isClose, Bool.false_eq_true, if_false, h]

/-! ### join law: the pieces of `split`, joined by the delimiter, are the stream -/

/-- `delimiter.join(pieces)` -/
def pyJoin (d : Bytes) : List Bytes → Bytes
  | [] => []
  | [p] => p
  | p :: q :: ps => p ++ d ++ pyJoin d (q :: ps)

theorem suffix_take (d x : Bytes) (h : d.isSuffixOf x = true) :
    x.take (x.length - d.length) ++ d = x := by
  obtain ⟨t, ht⟩ := List.isSuffixOf_iff_suffix.mp h
  subst ht
  simp

theorem cutGo_join (d : Bytes) : ∀ (u cur l r : Bytes), cutGo d u cur = some (l, r) →
    cur ++ u = l ++ d ++ r := by
  intro u
  induction u with
  | nil => intro cur l r h; simp [cutGo] at h
  | cons a u ih =>
    intro cur l r h
    rw [cutGo_cons] at h
    split at h
    · rename_i hs
      simp only [Option.some.injEq, Prod.mk.injEq] at h
      rw [← h.1, ← h.2, suffix_take d _ hs]; simp
    · have := ih _ _ _ h
      simpa using this

theorem splitGo_join (d : Bytes) : ∀ (n : Nat) (u cur : Bytes), u.length < n →
    pyJoin d (splitGo d u cur) = cur ++ u := by
  intro n
  induction n with
  | zero => intro u cur h; omega
  | succ n ih =>
    intro u cur hn
    rw [splitGo_cut]
    cases hc : cutGo d u cur with
    | none => rfl
    | some p =>
      obtain ⟨l, r⟩ := p
      simp only
      have hlen := (cutGo_some_len d u cur l r hc).1
      have hj := cutGo_join d u cur l r hc
      obtain ⟨q, qs, hq⟩ : ∃ q qs, splitGo d r [] = q :: qs := by
        cases hs : splitGo d r [] with
        | nil => exact absurd hs (LineOnly.splitGo_ne_nil d r [])
        | cons q qs => exact ⟨q, qs, rfl⟩
      have := ih r [] (by omega)
      rw [hq] at this ⊢
      simp only [pyJoin, this, hj, List.nil_append]

/-- **join law**: `delimiter.join(stream.split(delimiter)) == stream` -/
theorem pySplit_join (d b : Bytes) : pyJoin d (pySplit d b) = b := by
  have := splitGo_join d (b.length + 1) b [] (by omega)
  simpa [pySplit] using this
end TwistedProps.C16.Line
