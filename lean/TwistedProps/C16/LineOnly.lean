import TwistedModel.Framing.Stream
import TwistedModel.Framing.Line
/-! Lemmas for C16, LineOnlyReceiver: `split` distributes over deliveries; the buffer check
    of the repaired code only fires when the line can no longer fit. -/
namespace TwistedProps.C16.LineOnly
open Twisted.Framing Twisted.Framing.Line Twisted.Framing.Line.Only

def lastP (l : List Bytes) : Bytes := l.getLast?.getD []

theorem splitGo_ne_nil (d : Bytes) : ∀ (u cur : Bytes), splitGo d u cur ≠ [] := by
  intro u
  induction u with
  | nil => intro cur; simp [splitGo]
  | cons c u ih =>
    intro cur
    simp only [splitGo]
    split
    · simp
    · exact ih _

theorem lastP_cons (p : Bytes) (l : List Bytes) (h : l ≠ []) : lastP (p :: l) = lastP l := by
  cases l with
  | nil => exact absurd rfl h
  | cons a l => simp [lastP, List.getLast?_cons_cons]

/-- `split` of a concatenation: the complete pieces of the first part, then the split of the
    second part continuing the unfinished piece -/
theorem splitGo_append (d : Bytes) : ∀ (u v cur : Bytes),
    splitGo d (u ++ v) cur = (splitGo d u cur).dropLast ++ splitGo d v (lastP (splitGo d u cur)) := by
  intro u
  induction u with
  | nil => intro v cur; simp [splitGo, lastP]
  | cons c u ih =>
    intro v cur
    simp only [List.cons_append, splitGo]
    split
    · rw [ih, List.dropLast_cons_of_ne_nil (splitGo_ne_nil d u []), lastP_cons _ _ (splitGo_ne_nil d u [])]
      simp
    · exact ih _ _

/-- delimiter-free: splitting yields the text itself -/
def Free (d b : Bytes) : Prop := splitGo d b [] = [b]

theorem free_nil (d : Bytes) : Free d [] := by simp [Free, splitGo]

theorem splitGo_free (d buf x : Bytes) (h : Free d buf) : splitGo d (buf ++ x) [] = splitGo d x buf := by
  rw [splitGo_append, h]; simp [lastP]

theorem lastP_free (d : Bytes) : ∀ (x cur : Bytes), Free d cur → Free d (lastP (splitGo d x cur)) := by
  intro x
  induction x with
  | nil => intro cur h; simpa [splitGo, lastP] using h
  | cons c x ih =>
    intro cur h
    simp only [splitGo]
    split
    · rw [lastP_cons _ _ (splitGo_ne_nil d x [])]
      exact ih [] (free_nil d)
    · rename_i hs
      apply ih
      unfold Free
      rw [splitGo_free d cur [c] h]
      simp [splitGo, hs]

/-- the buffer check applied to the result of the `for` loop -/
def fin (c : Cfg) (r : (Bool × Nat) × List Ev × Bool) (b : Bytes) : (Bool × Nat) × List Ev :=
  if r.2.2 then (r.1, r.2.1)
  else if bufferExceeded c b then ((true, r.1.2), r.2.1 ++ [Ev.exceeded b, Ev.close])
  else (r.1, r.2.1)

/-- `dataReceived` on given pieces -/
def proc (c : Cfg) (P : List Bytes) (closed : Bool) (n : Nat) : (Bool × Nat) × List Ev :=
  fin c (forLines c P.dropLast closed n) (lastP P)

theorem feed_eq (c : Cfg) (s : St) (x : Bytes) :
    feed c s x =
      (⟨lastP (pySplit c.delim (s.buffer ++ x)),
        (proc c (pySplit c.delim (s.buffer ++ x)) s.closed s.n).1.1,
        (proc c (pySplit c.delim (s.buffer ++ x)) s.closed s.n).1.2⟩,
       (proc c (pySplit c.delim (s.buffer ++ x)) s.closed s.n).2) := by
  unfold feed proc fin lastP
  simp only
  split
  · rfl
  · split <;> rfl

/-- observation for line receivers: the argument of `lineLengthExceeded` is erased (it is
    documented to depend on how much was buffered), then cut at the first close request -/
def erase : Ev → Ev
  | .exceeded _ => .exceeded []
  | e => e

theorem erase_isClose (e : Ev) : (erase e).isClose = e.isClose := by cases e <;> rfl

theorem hasClose_map_erase (a : List Ev) : hasClose (a.map erase) = hasClose a := by
  induction a with
  | nil => rfl
  | cons e a ih =>
    simp only [hasClose, List.map_cons, List.any_cons, erase_isClose] at ih ⊢
    rw [ih]

def obsLine : Obs where
  obs := fun es => upTo (es.map erase)
  congr := by
    intro e a b h
    simp only [List.map_append]
    exact upTo_append_congr _ _ _ h
  cut := by
    intro a b h
    simp only [List.map_append]
    exact upTo_append_of_hasClose _ _ (by rw [hasClose_map_erase]; exact h)

theorem forLines_nil (c : Cfg) (closed : Bool) (n : Nat) :
    forLines c [] closed n = ((closed, n), [], false) := rfl

theorem forLines_cons (c : Cfg) (l : Bytes) (ls : List Bytes) (n : Nat) :
    forLines c (l :: ls) false n =
      if l.length > c.maxLen then ((true, n), [Ev.exceeded l, Ev.close], true)
      else ((forLines c ls (c.script n).close (n + 1)).1,
            Ev.line l :: (closeEv (c.script n) ++ (forLines c ls (c.script n).close (n + 1)).2.1),
            (forLines c ls (c.script n).close (n + 1)).2.2) := by
  simp [forLines]

theorem forLines_closed (c : Cfg) (l : Bytes) (ls : List Bytes) (n : Nat) :
    forLines c (l :: ls) true n = ((true, n), [], true) := by
  simp [forLines]

/-- what follows an over-full unfinished line `b1`: either it stays unfinished and over-full,
    or its completion is an over-long line -/
def Over (c : Cfg) (B : List Bytes) (bL : Bytes) : Prop :=
  (B = [] ∧ bufferExceeded c bL = true) ∨ (∃ l B', B = l :: B' ∧ l.length > c.maxLen)

theorem over_of_exceeded (c : Cfg) : ∀ (y cur : Bytes), bufferExceeded c cur = true →
    Over c (splitGo c.delim y cur).dropLast (lastP (splitGo c.delim y cur)) := by
  intro y
  induction y with
  | nil => intro cur h; left; simpa [splitGo, lastP] using h
  | cons x y ih =>
    intro cur h
    simp only [splitGo]
    have hlen : cur.length ≥ c.maxLen + c.delim.length := by simpa [bufferExceeded] using h
    split
    · right
      rw [List.dropLast_cons_of_ne_nil (splitGo_ne_nil _ y [])]
      refine ⟨_, _, rfl, ?_⟩
      simp only [List.length_take, List.length_append, List.length_cons, List.length_nil]
      omega
    · apply ih
      simp only [bufferExceeded, List.length_append, List.length_cons, List.length_nil, decide_eq_true_eq]
      omega

/-- **Core of the splitting lemma**, on pieces: lines `A` then unfinished `b1` delivered first,
    lines `B` then unfinished `bL` afterwards, versus `A ++ B` then `bL` at once. -/
theorem proc_split (c : Cfg) (B : List Bytes) (b1 bL : Bytes)
    (hover : bufferExceeded c b1 = true → Over c B bL) :
    ∀ (A : List Bytes) (n : Nat),
      obsLine.obs (fin c (forLines c (A ++ B) false n) bL).2 =
      obsLine.obs ((fin c (forLines c A false n) b1).2 ++
        (fin c (forLines c B (fin c (forLines c A false n) b1).1.1 (fin c (forLines c A false n) b1).1.2) bL).2) := by
  intro A
  induction A with
  | nil =>
    intro n
    simp only [List.nil_append, forLines_nil]
    by_cases hb : bufferExceeded c b1 = true
    · rcases hover hb with ⟨hB, hL⟩ | ⟨l, B', hB, hl⟩
      · subst hB
        simp [fin, hb, hL, forLines_nil, obsLine, erase, upTo, Ev.isClose]
      · subst hB
        simp [fin, hb, forLines_cons, hl, obsLine, erase, upTo, Ev.isClose]
    · simp [fin, hb]
  | cons l A ih =>
    intro n
    simp only [List.cons_append, forLines_cons]
    by_cases hl : l.length > c.maxLen
    · simp [hl, fin, obsLine, erase, upTo, Ev.isClose]
    · simp only [hl, if_false]
      by_cases hc : (c.script n).close = true
      · -- the handler closes on this line: both sides are cut here
        have e1 : ∀ X : List Ev, obsLine.obs (Ev.line l :: (closeEv (c.script n) ++ X)) = [Ev.line l, Ev.close] := by
          intro X; simp [obsLine, closeEv, hc, erase, upTo, Ev.isClose]
        have e2 : ∀ (r : (Bool × Nat) × List Ev × Bool) (b : Bytes),
            (fin c (r.1, Ev.line l :: (closeEv (c.script n) ++ r.2.1), r.2.2) b).2 =
              Ev.line l :: (closeEv (c.script n) ++ (fin c r b).2) := by
          intro r b; unfold fin; simp only; split
          · rfl
          · split <;> simp
        rw [e2, e2, e1]
        simp only [List.cons_append, List.append_assoc]
        rw [e1]
      · have hc' : (c.script n).close = false := by simpa using hc
        have e2 : ∀ (r : (Bool × Nat) × List Ev × Bool) (b : Bytes),
            fin c (r.1, Ev.line l :: (closeEv (c.script n) ++ r.2.1), r.2.2) b =
              ((fin c r b).1, Ev.line l :: (closeEv (c.script n) ++ (fin c r b).2)) := by
          intro r b; unfold fin; simp only; split
          · rfl
          · split <;> simp
        rw [e2, e2]
        simp only [hc', List.cons_append, List.append_assoc]
        have := ih (n + 1)
        exact obsLine.congr (Ev.line l :: closeEv (c.script n)) _ _ this

theorem lastP_append (A P : List Bytes) (h : P ≠ []) : lastP (A ++ P) = lastP P := by
  unfold lastP
  cases P with
  | nil => exact absurd rfl h
  | cons a P =>
    rw [List.getLast?_append, List.getLast?_eq_some_getLast (l := a :: P) (by simp)]
    simp

theorem forLines_ret_closed (c : Cfg) : ∀ (A : List Bytes) (cl : Bool) (n : Nat),
    (forLines c A cl n).2.2 = true → (forLines c A cl n).1.1 = true := by
  intro A
  induction A with
  | nil => intro cl n h; simp [forLines] at h
  | cons l A ih =>
    intro cl n h
    cases cl with
    | true => simp [forLines]
    | false =>
      rw [forLines_cons] at h ⊢
      split
      · rfl
      · rename_i hl; simp only [hl, if_false] at h; exact ih _ _ h

theorem forLines_closed_has (c : Cfg) : ∀ (A : List Bytes) (n : Nat),
    (forLines c A false n).1.1 = true → hasClose (forLines c A false n).2.1 = true := by
  intro A
  induction A with
  | nil => intro n h; simp [forLines] at h
  | cons l A ih =>
    intro n h
    rw [forLines_cons] at h ⊢
    split
    · simp [hasClose, Ev.isClose]
    · rename_i hl
      simp only [hl, if_false] at h
      by_cases hc : (c.script n).close = true
      · simp [hasClose, closeEv, hc, Ev.isClose]
      · have hc' : (c.script n).close = false := by simpa using hc
        rw [hc'] at h ⊢
        have := ih _ h
        simp only [hasClose, List.any_cons, List.any_append, Bool.or_eq_true] at this ⊢
        exact Or.inr (Or.inr this)

theorem proc_closed_has (c : Cfg) (P : List Bytes) (n : Nat)
    (h : (proc c P false n).1.1 = true) : hasClose (proc c P false n).2 = true := by
  unfold proc fin at h ⊢
  split
  · rename_i hr
    simp only [hr, if_true] at h
    exact forLines_closed_has c _ _ h
  · split
    · simp [hasClose, Ev.isClose]
    · rename_i hr hb
      simp only [hr, hb] at h
      exact forLines_closed_has c _ _ h

theorem proc_open (c : Cfg) (P : List Bytes) (n : Nat)
    (h : (proc c P false n).1.1 = false) : bufferExceeded c (lastP P) = false := by
  unfold proc fin at h
  split at h
  · rename_i hr
    rw [forLines_ret_closed c _ _ _ hr] at h; exact absurd h (by simp)
  · split at h
    · simp at h
    · rename_i hb; simpa using hb

/-- settled state: the buffer holds no delimiter and, unless closed, is not over-full -/
def Inv (c : Cfg) (s : St) : Prop :=
  Free c.delim s.buffer ∧ (s.closed = false → bufferExceeded c s.buffer = false)

theorem feed_split (c : Cfg) (s : St) (x y : Bytes) (hi : Inv c s) (hc : s.closed = false) :
    Inv c (feed c s x).1 ∧
    obsLine.obs (feed c s (x ++ y)).2 =
      obsLine.obs ((feed c s x).2 ++ (feed c (feed c s x).1 y).2) := by
  have hP1 : pySplit c.delim (s.buffer ++ x) = splitGo c.delim x s.buffer := splitGo_free _ _ _ hi.1
  have hfree1 : Free c.delim (lastP (splitGo c.delim x s.buffer)) := lastP_free _ _ _ hi.1
  constructor
  · rw [feed_eq, hP1, hc]
    exact ⟨hfree1, fun h => proc_open c _ _ h⟩
  · have hP12 : pySplit c.delim (s.buffer ++ (x ++ y)) =
        (splitGo c.delim x s.buffer).dropLast ++ splitGo c.delim y (lastP (splitGo c.delim x s.buffer)) := by
      unfold pySplit
      rw [splitGo_free _ _ _ hi.1, splitGo_append]
    rw [feed_eq c s (x ++ y), feed_eq c s x, feed_eq c _ y]
    simp only [hP1, hP12, hc]
    have hP2 : pySplit c.delim (lastP (splitGo c.delim x s.buffer) ++ y) =
        splitGo c.delim y (lastP (splitGo c.delim x s.buffer)) := splitGo_free _ _ _ hfree1
    rw [hP2]
    have hne := splitGo_ne_nil c.delim y (lastP (splitGo c.delim x s.buffer))
    unfold proc
    rw [List.dropLast_append_of_ne_nil hne, lastP_append _ _ hne]
    exact proc_split c _ _ _ (over_of_exceeded c y _) _ s.n

theorem step_split (c : Cfg) (s : St) (op : Op) (y : Bytes) (hi : Inv c s) (hc : s.closed = false) :
    Inv c ((machine c).step s op).1 ∧
    obsLine.obs (feed c s (op.bytes ++ y)).2 =
      obsLine.obs (((machine c).step s op).2 ++ (feed c ((machine c).step s op).1 y).2) := by
  cases op with
  | data x => exact feed_split c s x y hi hc
  | resume => exact ⟨hi, by simp [Machine.step, machine, Op.bytes]⟩

theorem step_closed (c : Cfg) (s : St) (op : Op) (hc : s.closed = false)
    (h : ((machine c).step s op).1.closed = true) : hasClose ((machine c).step s op).2 = true := by
  cases op with
  | data x =>
    simp only [Machine.step, machine] at h ⊢
    rw [feed_eq] at h ⊢
    rw [hc] at h ⊢
    exact proc_closed_has c _ _ h
  | resume =>
    simp only [Machine.step, machine] at h
    rw [hc] at h; exact absurd h (by simp)

theorem inv_init (c : Cfg) (hd : c.delim ≠ []) : Inv c init := by
  refine ⟨free_nil _, fun _ => ?_⟩
  have : 0 < c.delim.length := List.length_pos_iff.mpr hd
  show decide ((init.buffer).length ≥ c.maxLen + c.delim.length) = false
  apply decide_eq_false
  simp only [init, List.length_nil]; omega

/-- every schedule of deliveries delivers what the whole stream delivered at once delivers -/
theorem run_once (c : Cfg) (hd : c.delim ≠ []) (ops : List Op) :
    obsLine.obs ((machine c).run init ops).2 = obsLine.obs (feed c init (dataOf ops)).2 := by
  have key := run_obs (machine c) obsLine (fun s y => (feed c s y).2) (Inv c)
    (fun s op y hi hcl => step_split c s op y hi hcl)
    (fun s op _ hcl h => step_closed c s op hcl h) ops init (inv_init c hd) rfl
  have hfin : ∀ (ops : List Op) (s : St), Inv c s → Inv c ((machine c).run s ops).1 := by
    intro ops
    induction ops with
    | nil => intro s hs; simpa [Machine.run] using hs
    | cons op ops ih =>
      intro s hs
      simp only [Machine.run]
      by_cases hcl : (machine c).closed s = true
      · simpa [hcl] using hs
      · simp only [hcl, Bool.false_eq_true, if_false]
        have hcl' : s.closed = false := by simpa [machine] using hcl
        exact ih _ (step_split c s op [] hs hcl').1
  have hI := hfin ops init (inv_init c hd)
  rw [← key]
  by_cases hcl : ((machine c).run init ops).1.closed = true
  · have : (machine c).closed ((machine c).run init ops).1 = true := hcl
    simp [this]
  · have hcl' : ((machine c).run init ops).1.closed = false := by simpa using hcl
    have hcl2 : (machine c).closed ((machine c).run init ops).1 = false := hcl'
    simp only [hcl2, Bool.false_eq_true, if_false]
    -- a settled open state owes nothing
    have : (feed c ((machine c).run init ops).1 []).2 = [] := by
      rw [feed_eq]
      simp only [List.append_nil, hcl']
      have hf : pySplit c.delim ((machine c).run init ops).1.buffer = [((machine c).run init ops).1.buffer] := hI.1
      rw [hf]
      simp [proc, fin, forLines, lastP, hI.2 hcl']
    rw [this, List.append_nil]

/-! ### send / receive, limits -/

/-- a line `sendLine` can carry: the delimiter first occurs at the very end of `m ++ delimiter` -/
def Sendable (d m : Bytes) : Prop := splitGo d (m ++ d) [] = [m, []]

theorem split_frames (d : Bytes) (ms : List Bytes) (h : ∀ m ∈ ms, Sendable d m) :
    pySplit d ((ms.map (· ++ d)).flatten) = ms ++ [[]] := by
  induction ms with
  | nil => simp [pySplit, splitGo]
  | cons m ms ih =>
    have hm : splitGo d (m ++ d) [] = [m, []] := h m (by simp)
    unfold pySplit at ih ⊢
    simp only [List.map_cons, List.flatten_cons]
    rw [splitGo_append, hm]
    simp only [lastP, List.dropLast, List.getLast?, List.getLast, Option.getD]
    rw [ih (fun x hx => h x (by simp [hx]))]
    simp

/-- the callbacks a list of lines produces, from line index `n` on -/
def delivered (c : Cfg) : Nat → List Bytes → List Ev
  | _, [] => []
  | n, m :: ms => Ev.line m :: (closeEv (c.script n) ++ delivered c (n + 1) ms)

theorem forLines_delivered (c : Cfg) : ∀ (ms : List Bytes) (n : Nat) (tl : List Ev),
    (∀ m ∈ ms, m.length ≤ c.maxLen) →
    ((forLines c ms false n).2.2 = false → upTo tl = []) →
    upTo ((forLines c ms false n).2.1 ++ (if (forLines c ms false n).2.2 then [] else tl)) =
      upTo (delivered c n ms) := by
  intro ms
  induction ms with
  | nil => intro n tl _ h; simpa [forLines, delivered, upTo] using h rfl
  | cons m ms ih =>
    intro n tl hm htl
    have hl : ¬ m.length > c.maxLen := by have := hm m (by simp); omega
    rw [forLines_cons] at htl ⊢
    simp only [hl, if_false, delivered] at htl ⊢
    by_cases hc : (c.script n).close = true
    · simp [closeEv, hc, upTo, Ev.isClose]
    · have hc' : (c.script n).close = false := by simpa using hc
      rw [hc'] at htl ⊢
      simp only [closeEv, hc', Bool.false_eq_true, if_false, List.nil_append, List.cons_append, upTo, Ev.isClose]
      rw [ih (n + 1) tl (fun x hx => hm x (by simp [hx])) htl]

theorem forLines_within (c : Cfg) : ∀ (A : List Bytes) (cl : Bool) (n : Nat) (l : Bytes),
    Ev.line l ∈ (forLines c A cl n).2.1 → l.length ≤ c.maxLen := by
  intro A
  induction A with
  | nil => intro cl n l h; simp [forLines] at h
  | cons a A ih =>
    intro cl n l h
    cases cl with
    | true => simp [forLines] at h
    | false =>
      rw [forLines_cons] at h
      split at h
      · simp at h
      · simp only [List.mem_cons, List.mem_append] at h
        rcases h with h | h | h
        · injection h with h; subst h; omega
        · simp only [closeEv] at h; split at h <;> simp at h
        · exact ih _ _ _ h

theorem feed_within (c : Cfg) (s : St) (x l : Bytes) (h : Ev.line l ∈ (feed c s x).2) :
    l.length ≤ c.maxLen := by
  rw [feed_eq] at h
  unfold proc fin at h
  split at h
  · exact forLines_within c _ _ _ _ h
  · split at h
    · simp only [List.mem_append, List.mem_cons, List.not_mem_nil, or_false] at h
      rcases h with h | h | h
      · exact forLines_within c _ _ _ _ h
      · cases h
      · cases h
    · exact forLines_within c _ _ _ _ h

theorem upTo_map_erase (E : List Ev) : upTo (E.map erase) = (upTo E).map erase := by
  induction E with
  | nil => rfl
  | cons e E ih =>
    simp only [List.map_cons, upTo, erase_isClose]
    split
    · rfl
    · simp [ih]

theorem map_erase_delivered (c : Cfg) : ∀ (ms : List Bytes) (n : Nat),
    (delivered c n ms).map erase = delivered c n ms := by
  intro ms
  induction ms with
  | nil => intro n; rfl
  | cons m ms ih =>
    intro n
    simp only [delivered, List.map_cons, List.map_append, ih, erase]
    congr 2
    simp only [closeEv]; split <;> rfl

/-- the stream `sendLine` writes for `ms`, delivered at once, yields exactly the lines `ms` -/
theorem once_frames (c : Cfg) (hd : c.delim ≠ []) (ms : List Bytes)
    (hs : ∀ m ∈ ms, Sendable c.delim m) (hm : ∀ m ∈ ms, m.length ≤ c.maxLen) :
    obsLine.obs (feed c init ((ms.map (send c)).flatten)).2 = upTo (delivered c 0 ms) := by
  rw [feed_eq]
  have hsp : pySplit c.delim (init.buffer ++ (ms.map (send c)).flatten) = ms ++ [[]] := by
    have := split_frames c.delim ms hs
    have hse : (send c) = (· ++ c.delim) := by funext m; rfl
    rw [hse]
    simpa [init] using this
  rw [hsp]
  have hb : bufferExceeded c [] = false := (inv_init c hd).2 rfl
  have hfin : (proc c (ms ++ [[]]) init.closed init.n).2 = (forLines c ms false 0).2.1 := by
    unfold proc fin
    simp only [List.dropLast_concat, init]
    have : lastP (ms ++ [[]]) = [] := by simp [lastP]
    rw [this, hb]
    split <;> simp
  rw [hfin]
  show upTo (((forLines c ms false 0).2.1).map erase) = _
  rw [upTo_map_erase]
  have := forLines_delivered c ms 0 [] hm (fun _ => rfl)
  simp only [ite_self, List.append_nil] at this
  rw [this, ← upTo_map_erase, map_erase_delivered]

end TwistedProps.C16.LineOnly
