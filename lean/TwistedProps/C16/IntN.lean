import TwistedModel.Framing.Stream
import TwistedModel.Framing.IntN
/-! Lemmas for C16, IntNStringReceiver: the loop splits the reference framing. -/
namespace TwistedProps.C16.IntN
open Twisted.Framing Twisted.Framing.IntN

theorem ref_succ (c : Cfg) (fuel n : Nat) (b : Bytes) :
    ref c (fuel + 1) n b =
      if b.length < c.prefixLen then []
      else if beNat (b.take c.prefixLen) > c.maxLen then [Ev.tooLong (beNat (b.take c.prefixLen)), Ev.close]
      else if b.length < c.prefixLen + beNat (b.take c.prefixLen) then []
      else Ev.str ((b.drop c.prefixLen).take (beNat (b.take c.prefixLen))) ::
          (closeEv (c.script n) ++ ref c fuel (n + 1) (b.drop (c.prefixLen + beNat (b.take c.prefixLen)))) := by
  simp only [ref]

theorem loop_succ (c : Cfg) (fuel : Nat) (done rest : Bytes) (paused closed : Bool) (n : Nat) :
    loop c (fuel + 1) done rest paused closed n =
      if rest.length < c.prefixLen ∨ paused = true then (⟨rest, paused, closed, n⟩, [])
      else if beNat (rest.take c.prefixLen) > c.maxLen then
        (⟨done ++ rest, paused, true, n⟩, [Ev.tooLong (beNat (rest.take c.prefixLen)), Ev.close])
      else if rest.length < c.prefixLen + beNat (rest.take c.prefixLen) then (⟨rest, paused, closed, n⟩, [])
      else
        ((loop c fuel (done ++ rest.take (c.prefixLen + beNat (rest.take c.prefixLen)))
            (rest.drop (c.prefixLen + beNat (rest.take c.prefixLen)))
            (paused || (c.script n).pause) (closed || (c.script n).close) (n + 1)).1,
         Ev.str ((rest.drop c.prefixLen).take (beNat (rest.take c.prefixLen))) ::
           (closeEv (c.script n) ++
            (loop c fuel (done ++ rest.take (c.prefixLen + beNat (rest.take c.prefixLen)))
              (rest.drop (c.prefixLen + beNat (rest.take c.prefixLen)))
              (paused || (c.script n).pause) (closed || (c.script n).close) (n + 1)).2)) := by
  simp only [loop]

/-- enough fuel is enough: the reference does not depend on it -/
theorem ref_fuel (c : Cfg) (hp : 0 < c.prefixLen) :
    ∀ (f1 f2 n : Nat) (b : Bytes), b.length < f1 → b.length < f2 → ref c f1 n b = ref c f2 n b := by
  intro f1
  induction f1 with
  | zero => intro f2 n b h; omega
  | succ f1 ih =>
    intro f2 n b h1 h2
    cases f2 with
    | zero => omega
    | succ f2 =>
      rw [ref_succ, ref_succ]
      split
      · rfl
      · split
        · rfl
        · split
          · rfl
          · rename_i h3 _ h4
            have hl : (b.drop (c.prefixLen + beNat (b.take c.prefixLen))).length < b.length := by
              simp only [List.length_drop]; omega
            rw [ih f2 (n + 1) _ (by omega) (by omega)]

/-- **Splitting lemma.**  Running the receive loop on `rest` and then framing what it left
    together with the further stream `y` is, up to the first close request, the reference
    framing of `rest ++ y`. -/
theorem loop_ref (c : Cfg) (hp : 0 < c.prefixLen) :
    ∀ (fuel : Nat) (done rest : Bytes) (paused closed : Bool) (n : Nat) (y : Bytes) (F F' : Nat),
      rest.length < fuel → (rest ++ y).length < F →
      ((loop c fuel done rest paused closed n).1.unprocessed ++ y).length < F' →
      upTo (ref c F n (rest ++ y)) =
        upTo ((loop c fuel done rest paused closed n).2 ++
          ref c F' (loop c fuel done rest paused closed n).1.n
            ((loop c fuel done rest paused closed n).1.unprocessed ++ y)) := by
  intro fuel
  induction fuel with
  | zero => intro done rest paused closed n y F F' h; omega
  | succ fuel ih =>
    intro done rest paused closed n y F F' hf hF hF'
    rw [loop_succ] at hF' ⊢
    by_cases h1 : rest.length < c.prefixLen ∨ paused = true
    · simp only [h1, if_true, List.nil_append] at hF' ⊢
      rw [ref_fuel c hp F F' n _ hF hF']
    · simp only [h1, if_false] at hF' ⊢
      have hlen : c.prefixLen ≤ rest.length := by omega
      have htake : (rest ++ y).take c.prefixLen = rest.take c.prefixLen :=
        List.take_append_of_le_length hlen
      cases F with
      | zero => omega
      | succ F =>
        rw [ref_succ]
        have hnl : ¬ (rest ++ y).length < c.prefixLen := by simp only [List.length_append]; omega
        simp only [hnl, if_false, htake]
        by_cases h2 : beNat (rest.take c.prefixLen) > c.maxLen
        · simp only [h2, if_true, List.cons_append, List.nil_append]
          simp [upTo, Ev.isClose]
        · simp only [h2, if_false] at hF' ⊢
          by_cases h3 : rest.length < c.prefixLen + beNat (rest.take c.prefixLen)
          · simp only [h3, if_true, List.nil_append] at hF' ⊢
            rw [ref_fuel c hp F' (F + 1) n _ hF' hF, ref_succ]
            simp only [hnl, if_false, htake, h2]
          · simp only [h3, if_false] at hF' ⊢
            have hle : c.prefixLen + beNat (rest.take c.prefixLen) ≤ rest.length := by omega
            have hnl2 : ¬ (rest ++ y).length < c.prefixLen + beNat (rest.take c.prefixLen) := by
              simp only [List.length_append]; omega
            simp only [hnl2, if_false]
            have hd : (rest ++ y).drop (c.prefixLen + beNat (rest.take c.prefixLen)) =
                rest.drop (c.prefixLen + beNat (rest.take c.prefixLen)) ++ y :=
              List.drop_append_of_le_length hle
            have hd1 : (rest ++ y).drop c.prefixLen = rest.drop c.prefixLen ++ y :=
              List.drop_append_of_le_length hlen
            have ht2 : (rest.drop c.prefixLen ++ y).take (beNat (rest.take c.prefixLen)) =
                (rest.drop c.prefixLen).take (beNat (rest.take c.prefixLen)) :=
              List.take_append_of_le_length (by simp only [List.length_drop]; omega)
            rw [hd, hd1, ht2]
            have hdl : (rest.drop (c.prefixLen + beNat (rest.take c.prefixLen))).length < fuel := by
              simp only [List.length_drop]; omega
            have hdF : (rest.drop (c.prefixLen + beNat (rest.take c.prefixLen)) ++ y).length < F := by
              simp only [List.length_append, List.length_drop] at hF ⊢; omega
            have := ih (done ++ rest.take (c.prefixLen + beNat (rest.take c.prefixLen)))
              (rest.drop (c.prefixLen + beNat (rest.take c.prefixLen)))
              (paused || (c.script n).pause) (closed || (c.script n).close) (n + 1) y F F' hdl hdF hF'
            simp only [List.cons_append, List.append_assoc]
            exact upTo_append_congr (Ev.str _ :: closeEv (c.script n)) _ _ this

/-- a loop that leaves the connection closed emitted a close request (or it was closed before) -/
theorem loop_closed (c : Cfg) :
    ∀ (fuel : Nat) (done rest : Bytes) (paused closed : Bool) (n : Nat),
      (loop c fuel done rest paused closed n).1.closed = true →
      closed = true ∨ hasClose (loop c fuel done rest paused closed n).2 = true := by
  intro fuel
  induction fuel with
  | zero => intro done rest paused closed n h; left; simpa [loop] using h
  | succ fuel ih =>
    intro done rest paused closed n h
    rw [loop_succ] at h ⊢
    by_cases h1 : rest.length < c.prefixLen ∨ paused = true
    · simp only [h1, if_true] at h ⊢; exact Or.inl h
    · simp only [h1, if_false] at h ⊢
      by_cases h2 : beNat (rest.take c.prefixLen) > c.maxLen
      · simp only [h2, if_true]; right; simp [hasClose, Ev.isClose]
      · simp only [h2, if_false] at h ⊢
        by_cases h3 : rest.length < c.prefixLen + beNat (rest.take c.prefixLen)
        · simp only [h3, if_true] at h ⊢; exact Or.inl h
        · simp only [h3, if_false] at h ⊢
          rcases ih _ _ _ _ _ h with h4 | h4
          · simp only [Bool.or_eq_true] at h4
            rcases h4 with h4 | h4
            · exact Or.inl h4
            · right; simp [hasClose, closeEv, h4, Ev.isClose]
          · right
            simp only [hasClose, List.any_cons, List.any_append, Bool.or_eq_true] at h4 ⊢
            exact Or.inr (Or.inr h4)

/-- when the loop stops without being paused or closed, nothing deliverable is left -/
theorem loop_settled (c : Cfg) (hp : 0 < c.prefixLen) :
    ∀ (fuel : Nat) (done rest : Bytes) (paused closed : Bool) (n : Nat) (F : Nat),
      rest.length < fuel → (loop c fuel done rest paused closed n).1.unprocessed.length < F →
      (loop c fuel done rest paused closed n).1.paused = true ∨
      (loop c fuel done rest paused closed n).1.closed = true ∨
      ref c F (loop c fuel done rest paused closed n).1.n
        (loop c fuel done rest paused closed n).1.unprocessed = [] := by
  intro fuel
  induction fuel with
  | zero => intro done rest paused closed n F h; omega
  | succ fuel ih =>
    intro done rest paused closed n F hf hF
    rw [loop_succ] at hF ⊢
    cases F with
    | zero => omega
    | succ F =>
    by_cases h1 : rest.length < c.prefixLen ∨ paused = true
    · simp only [h1, if_true] at hF ⊢
      rcases h1 with h1 | h1
      · right; right; rw [ref_succ]; simp [h1]
      · exact Or.inl h1
    · simp only [h1, if_false] at hF ⊢
      by_cases h2 : beNat (rest.take c.prefixLen) > c.maxLen
      · simp only [h2, if_true]; exact Or.inr (Or.inl trivial)
      · simp only [h2, if_false] at hF ⊢
        by_cases h3 : rest.length < c.prefixLen + beNat (rest.take c.prefixLen)
        · simp only [h3, if_true] at hF ⊢
          right; right; rw [ref_succ]
          have : ¬ rest.length < c.prefixLen := by omega
          simp [this, h2, h3]
        · simp only [h3, if_false] at hF ⊢
          exact ih _ _ _ _ _ (F + 1) (by simp only [List.length_drop]; omega) hF

/-- what is still owed from state `s` when the further stream is `y` -/
def refOf (c : Cfg) (s : St) (y : Bytes) : List Ev :=
  ref c ((s.unprocessed ++ y).length + 1) s.n (s.unprocessed ++ y)

/-- a state is *settled*: unless paused or closed, nothing deliverable is buffered -/
def Inv (c : Cfg) (s : St) : Prop :=
  s.paused = true ∨ s.closed = true ∨ refOf c s [] = []

theorem feed_split (c : Cfg) (hp : 0 < c.prefixLen) (s : St) (x y : Bytes) :
    Inv c (feed c s x).1 ∧
    upTo (refOf c s (x ++ y)) = upTo ((feed c s x).2 ++ refOf c (feed c s x).1 y) := by
  constructor
  · unfold Inv refOf feed
    simp only [List.append_nil]
    exact loop_settled c hp _ _ _ _ _ _ _ (by omega) (by omega)
  · unfold refOf feed
    have := loop_ref c hp ((s.unprocessed ++ x).length + 1) [] (s.unprocessed ++ x) s.paused s.closed s.n y
      ((s.unprocessed ++ (x ++ y)).length + 1)
      (((loop c ((s.unprocessed ++ x).length + 1) [] (s.unprocessed ++ x) s.paused s.closed s.n).1.unprocessed ++ y).length + 1)
      (by omega) (by simp only [List.append_assoc]; omega) (by omega)
    simpa only [List.append_assoc] using this

theorem step_split (c : Cfg) (hp : 0 < c.prefixLen) (s : St) (op : Op) (y : Bytes) :
    Inv c ((machine c).step s op).1 ∧
    upTo (refOf c s (op.bytes ++ y)) =
      upTo (((machine c).step s op).2 ++ refOf c ((machine c).step s op).1 y) := by
  cases op with
  | data x => exact feed_split c hp s x y
  | resume =>
    have := feed_split c hp { s with paused := false } [] y
    simpa [Machine.step, machine, resume, Op.bytes, refOf] using this

theorem step_closed (c : Cfg) (s : St) (op : Op) (hc : s.closed = false)
    (h : ((machine c).step s op).1.closed = true) : hasClose ((machine c).step s op).2 = true := by
  cases op with
  | data x =>
    rcases loop_closed c _ _ _ _ _ _ h with h | h
    · simp [hc] at h
    · exact h
  | resume =>
    rcases loop_closed c _ _ _ _ _ _ h with h | h
    · simp [hc] at h
    · exact h

/-- every schedule delivers the reference framing of the concatenated stream -/
theorem run_ref (c : Cfg) (hp : 0 < c.prefixLen) (ops : List Op)
    (hq : ((machine c).run init ops).1.closed = true ∨ ((machine c).run init ops).1.paused = false) :
    upTo ((machine c).run init ops).2 = upTo (refStream c (dataOf ops)) := by
  have hinit : Inv c init := by
    right; right
    have : ¬ c.prefixLen = 0 := by omega
    simp [refOf, init, ref, this]
  have key := run_obs (machine c) Obs.upTo (refOf c) (fun _ => True)
    (fun s op y _ _ => ⟨trivial, (step_split c hp s op y).2⟩)
    (fun s op _ hc h => step_closed c s op hc h) ops init trivial rfl
  -- the final state is settled
  have hfin : ∀ (ops : List Op) (s : St), Inv c s → Inv c ((machine c).run s ops).1 := by
    intro ops
    induction ops with
    | nil => intro s hs; simpa [Machine.run] using hs
    | cons op ops ih =>
      intro s hs
      simp only [Machine.run]
      by_cases hc : (machine c).closed s = true
      · simpa [hc] using hs
      · simp only [hc, Bool.false_eq_true, if_false]
        exact ih _ (step_split c hp s op []).1
  have hI := hfin ops init hinit
  simp only [Obs.upTo] at key
  have hrs : refOf c init (dataOf ops) = refStream c (dataOf ops) := by
    simp [refOf, refStream, init]
  rw [hrs] at key
  rw [← key]
  by_cases hcl : ((machine c).run init ops).1.closed = true
  · have : (machine c).closed ((machine c).run init ops).1 = true := hcl
    simp [this]
  · have hcl' : (machine c).closed ((machine c).run init ops).1 = false := by
      simpa [machine] using hcl
    simp only [hcl', Bool.false_eq_true, if_false]
    rcases hq with hq | hq
    · exact absurd hq hcl
    · rcases hI with h | h | h
      · rw [hq] at h; exact absurd h (by simp)
      · exact absurd h hcl
      · rw [h]; simp

/-! ### send / receive -/

theorem beNat_snoc (a : Bytes) (x : UInt8) : beNat (a ++ [x]) = beNat a * 256 + x.toNat := by
  simp [beNat]

theorem beBytes_length (k n : Nat) : (beBytes k n).length = k := by
  induction k generalizing n with
  | zero => rfl
  | succ k ih => simp [beBytes, ih]

theorem beNat_beBytes (k n : Nat) (h : n < 256 ^ k) : beNat (beBytes k n) = n := by
  induction k generalizing n with
  | zero => simp at h; subst h; rfl
  | succ k ih =>
    have h' : n / 256 < 256 ^ k := by
      apply Nat.div_lt_of_lt_mul; rw [Nat.pow_succ] at h; omega
    simp only [beBytes, beNat_snoc, ih _ h']
    have : (UInt8.ofNat (n % 256)).toNat = n % 256 := by
      simp [UInt8.toNat_ofNat']
    rw [this]; omega

/-- the wire form `sendString` writes for `m` (when it does not raise) -/
def frame (c : Cfg) (m : Bytes) : Bytes := beBytes c.prefixLen m.length ++ m

theorem send_eq_frame (c : Cfg) (m : Bytes) (h : m.length < 256 ^ c.prefixLen) :
    send c m = some (frame c m) := by
  have : 2 ^ (8 * c.prefixLen) = 256 ^ c.prefixLen := by
    rw [Nat.pow_mul]
  simp [send, frame, this]; exact h

/-- the callbacks a list of strings produces, from message index `n` on -/
def delivered (c : Cfg) : Nat → List Bytes → List Ev
  | _, [] => []
  | n, m :: ms => Ev.str m :: (closeEv (c.script n) ++ delivered c (n + 1) ms)

theorem ref_frames (c : Cfg) (hp : 0 < c.prefixLen) (ms : List Bytes)
    (hm : ∀ m ∈ ms, m.length ≤ c.maxLen ∧ m.length < 256 ^ c.prefixLen) :
    ∀ (n : Nat) (tail : Bytes) (F : Nat), ((ms.map (frame c)).flatten ++ tail).length < F →
      ref c F n ((ms.map (frame c)).flatten ++ tail) =
        delivered c n ms ++ ref c (tail.length + 1) (n + ms.length) tail := by
  induction ms with
  | nil =>
    intro n tail F hF
    simp only [List.map_nil, List.flatten_nil, List.nil_append, delivered, List.length_nil, Nat.add_zero] at hF ⊢
    exact ref_fuel c hp _ _ _ _ hF (by omega)
  | cons m ms ih =>
    intro n tail F hF
    have hmm := hm m (by simp)
    cases F with
    | zero => omega
    | succ F =>
    simp only [List.map_cons, List.flatten_cons, List.append_assoc] at hF ⊢
    rw [ref_succ]
    have hl : (beBytes c.prefixLen m.length).length = c.prefixLen := beBytes_length _ _
    have e1 : (frame c m ++ ((ms.map (frame c)).flatten ++ tail)).take c.prefixLen =
        beBytes c.prefixLen m.length := by
      simp only [frame, List.append_assoc]; exact List.take_left' hl
    have e2 : (frame c m ++ ((ms.map (frame c)).flatten ++ tail)).drop c.prefixLen =
        m ++ ((ms.map (frame c)).flatten ++ tail) := by
      simp only [frame, List.append_assoc]; exact List.drop_left' hl
    have e3 : (frame c m ++ ((ms.map (frame c)).flatten ++ tail)).drop (c.prefixLen + m.length) =
        (ms.map (frame c)).flatten ++ tail := by
      rw [← List.drop_drop, e2]; exact List.drop_left' rfl
    have e4 : (frame c m ++ ((ms.map (frame c)).flatten ++ tail)).length =
        c.prefixLen + m.length + ((ms.map (frame c)).flatten ++ tail).length := by
      simp only [frame, List.length_append, hl]
    rw [e1, beNat_beBytes _ _ hmm.2, e2, e3, e4]
    have h1 : ¬ c.prefixLen + m.length + ((ms.map (frame c)).flatten ++ tail).length < c.prefixLen := by omega
    have h2 : ¬ m.length > c.maxLen := by omega
    have h3 : ¬ c.prefixLen + m.length + ((ms.map (frame c)).flatten ++ tail).length < c.prefixLen + m.length := by omega
    simp only [h1, h2, h3, if_false, List.take_left' rfl, delivered]
    rw [ih (fun x hx => hm x (by simp [hx])) (n + 1) tail F (by rw [e4] at hF; omega)]
    simp only [List.length_cons, List.cons_append, List.append_assoc]
    have : n + 1 + ms.length = n + (ms.length + 1) := by omega
    rw [this]

/-- events of the reference: no delivered string is longer than `maxLen` -/
theorem ref_within (c : Cfg) : ∀ (F n : Nat) (b m : Bytes), Ev.str m ∈ ref c F n b → m.length ≤ c.maxLen := by
  intro F
  induction F with
  | zero => intro n b m h; simp [ref] at h
  | succ F ih =>
    intro n b m h
    rw [ref_succ] at h
    split at h
    · simp at h
    · split at h
      · simp at h
      · split at h
        · simp at h
        · simp only [List.mem_cons, List.mem_append] at h
          rcases h with h | h | h
          · injection h with h; subst h
            simp only [List.length_take]; omega
          · simp only [closeEv] at h; split at h <;> simp at h
          · exact ih _ _ _ h

/-- events of the receive loop itself (past close requests too): same bound -/
theorem loop_within (c : Cfg) : ∀ (fuel : Nat) (done rest : Bytes) (paused closed : Bool) (n : Nat) (m : Bytes),
    Ev.str m ∈ (loop c fuel done rest paused closed n).2 → m.length ≤ c.maxLen := by
  intro fuel
  induction fuel with
  | zero => intro done rest paused closed n m h; simp [loop] at h
  | succ fuel ih =>
    intro done rest paused closed n m h
    rw [loop_succ] at h
    split at h
    · simp at h
    · split at h
      · simp at h
      · split at h
        · simp at h
        · simp only [List.mem_cons, List.mem_append] at h
          rcases h with h | h | h
          · injection h with h; subst h
            simp only [List.length_take]; omega
          · simp only [closeEv] at h; split at h <;> simp at h
          · exact ih _ _ _ _ _ _ h

end TwistedProps.C16.IntN
