import TwistedModel.Framing.Stream
import TwistedModel.Framing.Netstring
/-! Lemmas for C16, NetstringReceiver: one `_consumeData()` and the receive loop commute with
    appending further bytes (resumption of a partially received length / payload). -/
set_option linter.unusedSimpArgs false
namespace TwistedProps.C16.Netstring
open Twisted.Framing Twisted.Framing.Netstring

/-- state with further bytes appended to `_remainingData` -/
def app (s : St) (y : Bytes) : St := { s with remaining := s.remaining ++ y }

/-- what the loop does with the outcome of one `_consumeData()` -/
def after (c : Cfg) (fuel : Nat) : Step → St × List Ev
  | .incomplete s1 => (s1, [])
  | .parseError s1 => ({ s1 with closed := true, broken := true }, [Ev.close])
  | .done s1 m =>
    let a := c.script s1.n
    let r := loop c fuel { s1 with n := s1.n + 1, closed := s1.closed || a.close }
    (r.1, Ev.str m :: (closeEv a ++ r.2))

theorem loop_succ (c : Cfg) (fuel : Nat) (s : St) :
    loop c (fuel + 1) s = if s.remaining = [] then (s, []) else after c fuel (consume c s) := by
  simp only [loop, after]
  split
  · rfl
  · split <;> simp_all

theorem consumePayload_eq (s : St) :
    consumePayload s =
      if s.remaining.length + s.current < s.expected then
        .incomplete { s with payload := s.payload ++ s.remaining,
                             current := s.current + s.remaining.length, remaining := [] }
      else if (s.payload ++ s.remaining.take (s.expected - s.current)).getLast? ≠ some COMMA then
        .parseError { s with payload := s.payload ++ s.remaining.take (s.expected - s.current),
                             remaining := s.remaining.drop (s.expected - s.current),
                             current := s.expected }
      else
        .done { s with payload := s.payload ++ s.remaining.take (s.expected - s.current),
                       remaining := s.remaining.drop (s.expected - s.current),
                       current := s.expected, inPayload := false }
          (s.payload ++ s.remaining.take (s.expected - s.current)).dropLast := by
  unfold consumePayload
  by_cases h : s.remaining.length + s.current < s.expected
  · have h' : ¬ (s.remaining.length + s.current ≥ s.expected) := by omega
    simp only [h', h, if_true, if_false]
    have : s.current + s.remaining.length < s.expected := by omega
    simp [this]
  · have h' : s.remaining.length + s.current ≥ s.expected := by omega
    simp only [h', h, if_true, if_false, Nat.lt_irrefl]

/-- payload resumption: bytes that do not complete the payload can be delivered first -/
theorem consumePayload_resume (s : St) (y : Bytes)
    (h : s.remaining.length + s.current < s.expected) :
    consumePayload (app s y) =
      consumePayload { s with payload := s.payload ++ s.remaining,
                              current := s.current + s.remaining.length, remaining := y } := by
  rw [consumePayload_eq, consumePayload_eq]
  simp only [app, List.length_append]
  have e1 : s.expected - s.current = s.remaining.length + (s.expected - (s.current + s.remaining.length)) := by omega
  have e2 : (s.remaining ++ y).take (s.expected - s.current) =
      s.remaining ++ y.take (s.expected - (s.current + s.remaining.length)) := by
    rw [e1, List.take_length_add_append]
  have e3 : (s.remaining ++ y).drop (s.expected - s.current) =
      y.drop (s.expected - (s.current + s.remaining.length)) := by
    rw [e1, List.drop_length_add_append]
  have e4 : s.remaining.length + (y.length + s.current) < s.expected ↔
      y.length + (s.current + s.remaining.length) < s.expected := by omega
  simp only [e2, e3, e4, List.append_assoc, Nat.add_assoc]

/-- a payload already complete is not affected by further bytes -/
def stepApp : Step → Bytes → Step
  | .incomplete s, _ => .incomplete s
  | .parseError s, y => .parseError (app s y)
  | .done s m, y => .done (app s y) m

theorem consumePayload_complete (s : St) (y : Bytes)
    (h : ¬ s.remaining.length + s.current < s.expected) :
    consumePayload (app s y) = stepApp (consumePayload s) y := by
  rw [consumePayload_eq, consumePayload_eq]
  have h1 : ¬ (s.remaining ++ y).length + s.current < s.expected := by
    simp only [List.length_append]; omega
  have hk : s.expected - s.current ≤ s.remaining.length := by omega
  simp only [app, h, h1, if_false, List.take_append_of_le_length hk, List.drop_append_of_le_length hk]
  split <;> rfl

/-! ### the length specification under further bytes -/

theorem span_stop (x : UInt8) (rest y : Bytes) : ∀ (cs : Bytes), cs.dropWhile isDigit = x :: rest →
    (cs ++ y).takeWhile isDigit = cs.takeWhile isDigit ∧
    (cs ++ y).dropWhile isDigit = x :: (rest ++ y) := by
  intro cs
  induction cs with
  | nil => intro h; simp at h
  | cons a cs ih =>
    intro h
    by_cases ha : isDigit a = true
    · simp only [List.dropWhile_cons, ha, if_true] at h
      simp [List.takeWhile_cons, List.dropWhile_cons, ha, ih h]
    · simp only [List.dropWhile_cons, ha] at h
      simp only [Bool.false_eq_true, if_false, List.cons.injEq] at h
      obtain ⟨h1, h2⟩ := h
      subst h1; subst h2
      simp [List.takeWhile_cons, List.dropWhile_cons, ha]

theorem span_all (y : Bytes) : ∀ (cs : Bytes), cs.dropWhile isDigit = [] →
    cs.takeWhile isDigit = cs ∧
    (cs ++ y).takeWhile isDigit = cs ++ y.takeWhile isDigit ∧
    (cs ++ y).dropWhile isDigit = y.dropWhile isDigit := by
  intro cs
  induction cs with
  | nil => intro _; simp
  | cons a cs ih =>
    intro h
    by_cases ha : isDigit a = true
    · simp only [List.dropWhile_cons, ha, if_true] at h
      simp [List.takeWhile_cons, List.dropWhile_cons, ha, ih h]
    · simp [List.dropWhile_cons, ha] at h

theorem afterDigits_cons (ds : Bytes) (x : UInt8) (rest : Bytes) :
    afterDigits ds (x :: rest) =
      if x = COLON then .matched ds rest
      else if x = NL ∧ rest = [] then .partialOk ds else .bad := rfl

theorem afterDigits_matched (ds ds' : Bytes) (r after y : Bytes)
    (h : afterDigits ds r = .matched ds' after) :
    afterDigits ds (r ++ y) = .matched ds' (after ++ y) := by
  cases r with
  | nil => simp [afterDigits] at h
  | cons x rest =>
    rw [afterDigits_cons] at h
    rw [List.cons_append, afterDigits_cons]
    split at h
    · rename_i hx
      simp only [hx, if_true]
      injection h with h1 h2
      rw [h1, h2]
    · split at h <;> cases h

theorem afterDigits_bad (ds : Bytes) (r y : Bytes) (h : afterDigits ds r = .bad) :
    afterDigits ds (r ++ y) = .bad := by
  cases r with
  | nil => simp [afterDigits] at h
  | cons x rest =>
    rw [afterDigits_cons] at h
    rw [List.cons_append, afterDigits_cons]
    split at h
    · cases h
    · rename_i hx
      simp only [hx, if_false]
      split at h
      · cases h
      · rename_i hn
        have : ¬ (x = NL ∧ rest ++ y = []) := by
          intro hh; apply hn; exact ⟨hh.1, (List.append_eq_nil_iff.mp hh.2).1⟩
        rw [if_neg this]

/-- digits followed by one final newline: still "incomplete"; more bytes make it an error -/
theorem afterDigits_partial_cons (ds ds' : Bytes) (x : UInt8) (rest y : Bytes)
    (h : afterDigits ds (x :: rest) = .partialOk ds') :
    ds' = ds ∧ (afterDigits ds (x :: rest ++ y) = .partialOk ds ∨ afterDigits ds (x :: rest ++ y) = .bad) := by
  rw [afterDigits_cons] at h
  rw [List.cons_append, afterDigits_cons]
  split at h
  · cases h
  · rename_i hx
    simp only [hx, if_false]
    split at h
    · injection h with h
      refine ⟨h.symm, ?_⟩
      split
      · exact Or.inl rfl
      · exact Or.inr rfl
    · cases h

theorem matchLength_cons (a : UInt8) (cs : Bytes) :
    matchLength (a :: cs) =
      if a = ZERO then afterDigits [a] cs
      else if isDigit a then afterDigits (a :: cs.takeWhile isDigit) (cs.dropWhile isDigit)
      else .bad := rfl

theorem matchLength_matched (r y ds after : Bytes) (h : matchLength r = .matched ds after) :
    matchLength (r ++ y) = .matched ds (after ++ y) := by
  cases r with
  | nil => simp [matchLength] at h
  | cons a cs =>
    rw [matchLength_cons] at h
    rw [List.cons_append, matchLength_cons]
    split at h
    · rename_i ha
      simp only [ha, if_true]
      rw [ha] at h
      exact afterDigits_matched _ _ _ _ _ h
    · rename_i ha
      simp only [ha, if_false]
      split at h
      · rename_i hd
        simp only [hd, if_true]
        cases hdw : cs.dropWhile isDigit with
        | nil => rw [hdw] at h; simp [afterDigits] at h
        | cons x rest =>
          obtain ⟨e1, e2⟩ := span_stop x rest y cs hdw
          rw [e1, e2]
          rw [hdw] at h
          exact afterDigits_matched _ _ (x :: rest) _ _ h
      · cases h

theorem matchLength_bad (r y : Bytes) (hr : r ≠ []) (h : matchLength r = .bad) :
    matchLength (r ++ y) = .bad := by
  cases r with
  | nil => exact absurd rfl hr
  | cons a cs =>
    rw [matchLength_cons] at h
    rw [List.cons_append, matchLength_cons]
    split at h
    · rename_i ha
      simp only [ha, if_true]
      rw [ha] at h
      exact afterDigits_bad _ _ _ h
    · rename_i ha
      simp only [ha, if_false]
      split at h
      · rename_i hd
        simp only [hd, if_true]
        cases hdw : cs.dropWhile isDigit with
        | nil => rw [hdw] at h; simp [afterDigits] at h
        | cons x rest =>
          obtain ⟨e1, e2⟩ := span_stop x rest y cs hdw
          rw [e1, e2]
          rw [hdw] at h
          exact afterDigits_bad _ (x :: rest) _ h
      · rename_i hd; simp [hd]

/-- an unfinished length specification `ds`: with more bytes the specification is an error, or
    still unfinished, or finished — in both cases its digits extend `ds` -/
theorem matchLength_partial (r y ds : Bytes) (h : matchLength r = .partialOk ds) :
    matchLength (r ++ y) = .bad ∨ ∃ e, matchLength (r ++ y) = .partialOk (ds ++ e) ∨
      ∃ after, matchLength (r ++ y) = .matched (ds ++ e) after := by
  have key : ∀ (ds0 : Bytes) (t : Bytes), afterDigits ds0 t = .partialOk ds →
      ds = ds0 ∧ (afterDigits ds0 (t ++ y) = .bad ∨ afterDigits ds0 (t ++ y) = .partialOk ds0 ∨
        (t = [] ∧ ∃ after, afterDigits ds0 (t ++ y) = .matched ds0 after)) := by
    intro ds0 t ht
    cases t with
    | nil =>
      simp only [afterDigits] at ht
      injection ht with ht
      refine ⟨ht.symm, ?_⟩
      cases y with
      | nil => right; left; rfl
      | cons x rest =>
        rw [List.nil_append, afterDigits_cons]
        split
        · right; right; exact ⟨rfl, _, rfl⟩
        · split
          · right; left; rfl
          · left; rfl
    | cons x rest =>
      obtain ⟨e, h2⟩ := afterDigits_partial_cons ds0 ds x rest y ht
      refine ⟨e, ?_⟩
      rcases h2 with h2 | h2
      · right; left; exact h2
      · left; exact h2
  cases r with
  | nil => simp [matchLength] at h
  | cons a cs =>
    rw [matchLength_cons] at h
    rw [List.cons_append, matchLength_cons]
    split at h
    · rename_i ha
      simp only [ha, if_true]
      rw [ha] at h
      obtain ⟨e, h2⟩ := key _ _ h
      subst e
      rcases h2 with h2 | h2 | ⟨_, after, h2⟩
      · left; exact h2
      · right; exact ⟨[], by simp [h2]⟩
      · right; exact ⟨[], Or.inr ⟨after, by simp [h2]⟩⟩
    · rename_i ha
      simp only [ha, if_false]
      split at h
      · rename_i hd
        simp only [hd, if_true]
        cases hdw : cs.dropWhile isDigit with
        | nil =>
          obtain ⟨e0, e1, e2⟩ := span_all y cs hdw
          rw [hdw, e0] at h
          simp only [afterDigits] at h
          injection h with h
          subst h
          rw [e1, e2]
          -- the digits continue into y
          cases hy : y.dropWhile isDigit with
          | nil => right; exact ⟨y.takeWhile isDigit, Or.inl (by simp [afterDigits])⟩
          | cons x rest =>
            rw [afterDigits_cons]
            split
            · right; exact ⟨y.takeWhile isDigit, Or.inr ⟨rest, by simp⟩⟩
            · split
              · right; exact ⟨y.takeWhile isDigit, Or.inl (by simp)⟩
              · left; rfl
        | cons x rest =>
          obtain ⟨e1, e2⟩ := span_stop x rest y cs hdw
          rw [e1, e2]
          rw [hdw] at h
          obtain ⟨e, h2⟩ := afterDigits_partial_cons _ _ x rest y h
          subst e
          rcases h2 with h2 | h2
          · right; exact ⟨[], Or.inl (by simpa using h2)⟩
          · left; simpa using h2
      · cases h

/-! ### `tooBig` is monotone in the digits -/

theorem decNat_append_ge (ds e : Bytes) : decNat ds ≤ decNat (ds ++ e) := by
  have key : ∀ (e : Bytes) (a b : Nat), a ≤ b →
      a ≤ e.foldl (fun a c => a * 10 + (c.toNat - 48)) b := by
    intro e
    induction e with
    | nil => intro a b h; simpa using h
    | cons x e ih => intro a b h; simp only [List.foldl_cons]; apply ih; omega
  unfold decNat
  rw [List.foldl_append]
  exact key e _ _ (Nat.le_refl _)

theorem tooBig_append (c : Cfg) (ds e : Bytes) (h : tooBig c ds = true) : tooBig c (ds ++ e) = true := by
  simp only [tooBig, Bool.or_eq_true, decide_eq_true_eq, List.length_append] at h ⊢
  have := decNat_append_ge ds e
  omega

/-! ### one `_consumeData()` under further bytes -/

/-- the fresh payload state after a length `ds` was accepted -/
def fresh (s : St) (ds after : Bytes) : St :=
  { s with expected := decNat ds + 1, remaining := after, inPayload := true, current := 0, payload := [] }

theorem consume_eq (c : Cfg) (s : St) :
    consume c s =
      if s.inPayload then consumePayload s
      else match matchLength s.remaining with
        | .bad => .parseError s
        | .partialOk ds => if tooBig c ds then .parseError s else .incomplete s
        | .matched ds after =>
          if tooBig c ds then .parseError s else consumePayload (fresh s ds after) := rfl

theorem app_fresh (s : St) (ds after y : Bytes) : app (fresh s ds after) y = fresh (app s y) ds (after ++ y) := rfl

theorem consume_done_append (c : Cfg) (s s1 : St) (m y : Bytes) (h : consume c s = .done s1 m) :
    consume c (app s y) = .done (app s1 y) m := by
  rw [consume_eq] at h ⊢
  by_cases hp : s.inPayload = true
  · simp only [hp, if_true] at h
    have hp' : (app s y).inPayload = true := hp
    simp only [hp', if_true]
    by_cases hl : s.remaining.length + s.current < s.expected
    · rw [consumePayload_eq] at h; simp [hl] at h
    · rw [consumePayload_complete s y hl, h]; rfl
  · simp only [hp, Bool.false_eq_true, if_false] at h
    have hp' : ¬ (app s y).inPayload = true := hp
    simp only [hp', Bool.false_eq_true, if_false]
    cases hm : matchLength s.remaining with
    | bad => rw [hm] at h; cases h
    | partialOk ds => rw [hm] at h; simp only at h; split at h <;> cases h
    | matched ds after =>
      rw [hm] at h
      simp only at h
      have hm' : matchLength (app s y).remaining = .matched ds (after ++ y) := matchLength_matched _ _ _ _ hm
      rw [hm']
      simp only
      split at h
      · cases h
      · rename_i hb
        have hb' : ¬ tooBig c ds = true := hb
        simp only [hb, if_false]
        by_cases hl : (fresh s ds after).remaining.length + (fresh s ds after).current < (fresh s ds after).expected
        · rw [consumePayload_eq] at h; simp [hl] at h
        · rw [← app_fresh, consumePayload_complete _ y hl, h]; rfl

theorem consume_error_append (c : Cfg) (s s1 : St) (y : Bytes) (hr : s.remaining ≠ [])
    (h : consume c s = .parseError s1) : ∃ s2, consume c (app s y) = .parseError s2 := by
  rw [consume_eq] at h ⊢
  by_cases hp : s.inPayload = true
  · simp only [hp, if_true] at h
    have hp' : (app s y).inPayload = true := hp
    simp only [hp', if_true]
    by_cases hl : s.remaining.length + s.current < s.expected
    · rw [consumePayload_eq] at h; simp [hl] at h
    · rw [consumePayload_complete s y hl, h]; exact ⟨_, rfl⟩
  · simp only [hp, Bool.false_eq_true, if_false] at h
    have hp' : ¬ (app s y).inPayload = true := hp
    simp only [hp', Bool.false_eq_true, if_false]
    cases hm : matchLength s.remaining with
    | bad =>
      have hm' : matchLength (app s y).remaining = .bad := matchLength_bad _ _ hr hm
      rw [hm']; exact ⟨_, rfl⟩
    | partialOk ds =>
      rw [hm] at h; simp only at h
      split at h
      · rename_i hb
        rcases matchLength_partial _ y _ hm with h2 | ⟨e, h2 | ⟨after, h2⟩⟩
        · have h2' : matchLength (app s y).remaining = .bad := h2
          rw [h2']; exact ⟨_, rfl⟩
        · have h2' : matchLength (app s y).remaining = .partialOk (ds ++ e) := h2
          rw [h2']; simp only [tooBig_append c ds e hb, if_true]; exact ⟨_, rfl⟩
        · have h2' : matchLength (app s y).remaining = .matched (ds ++ e) after := h2
          rw [h2']; simp only [tooBig_append c ds e hb, if_true]; exact ⟨_, rfl⟩
      · cases h
    | matched ds after =>
      rw [hm] at h
      simp only at h
      have hm' : matchLength (app s y).remaining = .matched ds (after ++ y) := matchLength_matched _ _ _ _ hm
      rw [hm']
      simp only
      split at h
      · rename_i hb; simp only [hb, if_true]; exact ⟨_, rfl⟩
      · rename_i hb
        simp only [hb, if_false]
        by_cases hl : (fresh s ds after).remaining.length + (fresh s ds after).current < (fresh s ds after).expected
        · rw [consumePayload_eq] at h; simp [hl] at h
        · rw [← app_fresh, consumePayload_complete _ y hl, h]; exact ⟨_, rfl⟩

/-- an incomplete netstring: either nothing was consumed (unfinished length), or everything went
    into the payload, and then further bytes are consumed exactly as if they had been there -/
theorem consume_incomplete_append (c : Cfg) (s s1 : St) (y : Bytes)
    (h : consume c s = .incomplete s1) :
    (s1 = s ∧ s.inPayload = false) ∨
      (s1.remaining = [] ∧ s1.inPayload = true ∧ consume c (app s y) = consume c (app s1 y)) := by
  rw [consume_eq] at h
  by_cases hp : s.inPayload = true
  · right
    simp only [hp, if_true] at h
    by_cases hl : s.remaining.length + s.current < s.expected
    · rw [consumePayload_eq] at h
      simp only [hl, if_true] at h
      injection h with h
      subst h
      refine ⟨rfl, hp, ?_⟩
      rw [consume_eq, consume_eq]
      have := consumePayload_resume s y hl
      simp only [app, hp] at this
      simp only [app, hp, if_true, List.nil_append, this]
    · rw [consumePayload_eq] at h; simp only [hl, if_false] at h; split at h <;> cases h
  · simp only [hp, Bool.false_eq_true, if_false] at h
    cases hm : matchLength s.remaining with
    | bad => rw [hm] at h; cases h
    | partialOk ds =>
      rw [hm] at h; simp only at h
      split at h
      · cases h
      · injection h with h; left; exact ⟨h.symm, by simpa using hp⟩
    | matched ds after =>
      right
      rw [hm] at h
      simp only at h
      split at h
      · cases h
      · rename_i hb
        by_cases hl : (fresh s ds after).remaining.length + (fresh s ds after).current < (fresh s ds after).expected
        · rw [consumePayload_eq] at h
          simp only [hl, if_true] at h
          injection h with h
          subst h
          refine ⟨rfl, rfl, ?_⟩
          rw [consume_eq, consume_eq]
          have hp' : ¬ (app s y).inPayload = true := hp
          simp only [hp', Bool.false_eq_true, if_false]
          have hm' : matchLength (app s y).remaining = .matched ds (after ++ y) := matchLength_matched _ _ _ _ hm
          rw [hm']
          simp only [hb, if_false]
          rw [← app_fresh, consumePayload_resume _ y hl]
          simp [app, fresh]
        · rw [consumePayload_eq] at h; simp only [hl, if_false] at h; split at h <;> cases h

/-! ### well-formed states -/

/-- invariant of reachable states: inside a payload something is still missing, the announced
    size was within the limit, and `_currentPayloadSize` is the size of `_payload` -/
def WF (c : Cfg) (s : St) : Prop :=
  s.inPayload = true → s.current < s.expected ∧ s.expected ≤ c.maxLen + 1 ∧ s.payload.length = s.current

theorem matchLength_matched_eq (r ds after : Bytes) (h : matchLength r = .matched ds after) :
    r = ds ++ COLON :: after := by
  have key : ∀ (ds0 t : Bytes), afterDigits ds0 t = .matched ds after → ds0 = ds ∧ t = COLON :: after := by
    intro ds0 t ht
    cases t with
    | nil => simp [afterDigits] at ht
    | cons x rest =>
      rw [afterDigits_cons] at ht
      split at ht
      · rename_i hx; injection ht with h1 h2; subst hx; exact ⟨h1, by rw [h2]⟩
      · split at ht <;> cases ht
  cases r with
  | nil => simp [matchLength] at h
  | cons a cs =>
    rw [matchLength_cons] at h
    split at h
    · obtain ⟨h1, h2⟩ := key _ _ h
      rw [← h1, h2]; rfl
    · split at h
      · obtain ⟨h1, h2⟩ := key _ _ h
        rw [← h1, List.cons_append, ← h2, List.takeWhile_append_dropWhile]
      · cases h

theorem consumePayload_done (s s1 : St) (m : Bytes) (h : consumePayload s = .done s1 m)
    (hc : s.current < s.expected) (hpl : s.payload.length = s.current) :
    s1.inPayload = false ∧ s1.n = s.n ∧ s1.closed = s.closed ∧
      s1.remaining.length < s.remaining.length ∧ m.length + 1 = s.expected := by
  rw [consumePayload_eq] at h
  split at h
  · cases h
  · rename_i hl
    split at h
    · cases h
    · injection h with h1 h2
      subst h1; subst h2
      simp only [List.length_drop, List.length_dropLast, List.length_append, List.length_take, hpl]
      refine ⟨trivial, trivial, trivial, ?_, ?_⟩ <;> omega

theorem consumePayload_incomplete (c : Cfg) (s s1 : St) (h : consumePayload s = .incomplete s1)
    (he : s.expected ≤ c.maxLen + 1) (hpl : s.payload.length = s.current) :
    WF c s1 ∧ s1.n = s.n ∧ s1.closed = s.closed := by
  rw [consumePayload_eq] at h
  split at h
  · rename_i hl
    injection h with h
    subst h
    refine ⟨fun _ => ⟨?_, he, ?_⟩, rfl, rfl⟩
    · simp only; omega
    · simp only [List.length_append, hpl]
  · split at h <;> cases h

theorem consume_done (c : Cfg) (s s1 : St) (m : Bytes) (hw : WF c s) (h : consume c s = .done s1 m) :
    s1.inPayload = false ∧ s1.n = s.n ∧ s1.closed = s.closed ∧
      s1.remaining.length < s.remaining.length ∧ m.length ≤ c.maxLen := by
  rw [consume_eq] at h
  by_cases hp : s.inPayload = true
  · simp only [hp, if_true] at h
    obtain ⟨h1, h2, h3⟩ := hw hp
    obtain ⟨a, b, d, e, f⟩ := consumePayload_done s s1 m h h1 h3
    exact ⟨a, b, d, e, by omega⟩
  · simp only [hp, Bool.false_eq_true, if_false] at h
    cases hm : matchLength s.remaining with
    | bad => rw [hm] at h; cases h
    | partialOk ds => rw [hm] at h; simp only at h; split at h <;> cases h
    | matched ds after =>
      rw [hm] at h
      simp only at h
      split at h
      · cases h
      · rename_i hb
        obtain ⟨a, b, d, e, f⟩ := consumePayload_done _ s1 m h (by simp [fresh]) (by simp [fresh])
        have hlen := congrArg List.length (matchLength_matched_eq _ _ _ hm)
        simp only [List.length_append, List.length_cons] at hlen
        simp only [tooBig, Bool.or_eq_true, decide_eq_true_eq, not_or] at hb
        simp only [fresh] at b d e f
        exact ⟨a, b, d, by omega, by omega⟩

theorem consume_incomplete (c : Cfg) (s s1 : St) (hw : WF c s) (h : consume c s = .incomplete s1) :
    WF c s1 ∧ s1.n = s.n ∧ s1.closed = s.closed := by
  rw [consume_eq] at h
  by_cases hp : s.inPayload = true
  · simp only [hp, if_true] at h
    obtain ⟨h1, h2, h3⟩ := hw hp
    exact consumePayload_incomplete c s s1 h h2 h3
  · simp only [hp, Bool.false_eq_true, if_false] at h
    cases hm : matchLength s.remaining with
    | bad => rw [hm] at h; cases h
    | partialOk ds =>
      rw [hm] at h; simp only at h
      split at h
      · cases h
      · injection h with h; subst h; exact ⟨hw, rfl, rfl⟩
    | matched ds after =>
      rw [hm] at h
      simp only at h
      split at h
      · cases h
      · rename_i hb
        simp only [tooBig, Bool.or_eq_true, decide_eq_true_eq, not_or] at hb
        exact consumePayload_incomplete c (fresh s ds after) s1 h (by simp only [fresh]; omega) (by simp [fresh])

/-- the state the loop continues with after a string was delivered -/
def next (c : Cfg) (s1 : St) : St :=
  { s1 with n := s1.n + 1, closed := s1.closed || (c.script s1.n).close }

theorem after_done (c : Cfg) (fuel : Nat) (s1 : St) (m : Bytes) :
    after c fuel (.done s1 m) =
      ((loop c fuel (next c s1)).1,
        Ev.str m :: (closeEv (c.script s1.n) ++ (loop c fuel (next c s1)).2)) := rfl

theorem wf_next (c : Cfg) (s1 : St) (h : s1.inPayload = false) : WF c (next c s1) := by
  intro hh; simp [next, h] at hh

/-- enough fuel is enough -/
theorem loop_fuel (c : Cfg) : ∀ (F F' : Nat) (s : St), WF c s → s.remaining.length < F →
    s.remaining.length < F' → loop c F s = loop c F' s := by
  intro F
  induction F with
  | zero => intro F' s _ h; omega
  | succ F ih =>
    intro F' s hw h1 h2
    cases F' with
    | zero => omega
    | succ F' =>
      rw [loop_succ, loop_succ]
      split
      · rfl
      · cases hc : consume c s with
        | incomplete s1 => rfl
        | parseError s1 => rfl
        | done s1 m =>
          obtain ⟨a, b, d, e, f⟩ := consume_done c s s1 m hw hc
          rw [after_done, after_done]
          rw [ih F' (next c s1) (wf_next c s1 a) (by simp only [next]; omega) (by simp only [next]; omega)]

theorem wf_app (c : Cfg) (s : St) (y : Bytes) (h : WF c s) : WF c (app s y) := h

theorem app_nil (s : St) : app s [] = s := by simp [app]

theorem after_fuel (c : Cfg) (F F' : Nat) (s : St) (hw : WF c s) (h1 : s.remaining.length ≤ F)
    (h2 : s.remaining.length ≤ F') : after c F (consume c s) = after c F' (consume c s) := by
  cases hc : consume c s with
  | incomplete s1 => rfl
  | parseError s1 => rfl
  | done s1 m =>
    obtain ⟨a, b, d, e, f⟩ := consume_done c s s1 m hw hc
    rw [after_done, after_done]
    rw [loop_fuel c F F' (next c s1) (wf_next c s1 a) (by simp only [next]; omega) (by simp only [next]; omega)]

/-- after an incomplete netstring, the bytes that follow are processed as if they had been
    delivered together with it -/
theorem loop_resume (c : Cfg) (s s1 : St) (y : Bytes) (F F' : Nat) (hw : WF c s)
    (hr : s.remaining ≠ []) (h : consume c s = .incomplete s1)
    (hF : (s.remaining ++ y).length < F) (hF' : (s1.remaining ++ y).length < F') :
    loop c F (app s y) = loop c F' (app s1 y) := by
  rcases consume_incomplete_append c s s1 y h with ⟨h1, _⟩ | ⟨h1, h2, h3⟩
  · subst h1
    exact loop_fuel c F F' _ (wf_app c s1 y hw) hF hF'
  · cases F with
    | zero => omega
    | succ F =>
    cases F' with
    | zero => omega
    | succ F' =>
    rw [loop_succ, loop_succ]
    cases y with
    | nil =>
      rw [app_nil, app_nil]
      simp only [hr, h1, if_true, if_false, h, after]
    | cons a y =>
      have e1 : (app s (a :: y)).remaining ≠ [] := by simp [app]
      have e2 : (app s1 (a :: y)).remaining ≠ [] := by simp [app]
      simp only [e1, e2, if_false, h3]
      have hw1 := (consume_incomplete c s s1 hw h).1
      apply after_fuel c F F' _ (wf_app c s1 _ hw1)
      · simp only [app, h1, List.nil_append, List.length_append] at hF ⊢; omega
      · simp only [app, h1, List.nil_append, List.length_append] at hF' ⊢; omega

/-- **Splitting lemma.**  Processing `remaining ++ y` at once is, up to the first close request,
    processing `remaining`, then `y` appended to what was left. -/
theorem loop_split (c : Cfg) (y : Bytes) : ∀ (fuel : Nat) (s : St) (F F' : Nat), WF c s →
    s.remaining.length < fuel → (s.remaining ++ y).length < F →
    ((loop c fuel s).1.remaining ++ y).length < F' →
    upTo (loop c F (app s y)).2 =
      upTo ((loop c fuel s).2 ++ (loop c F' (app (loop c fuel s).1 y)).2) := by
  intro fuel
  induction fuel with
  | zero => intro s F F' _ h; omega
  | succ fuel ih =>
    intro s F F' hw hf hF hF'
    rw [loop_succ] at hF' ⊢
    by_cases hr : s.remaining = []
    · simp only [hr, if_true, List.nil_append] at hF' ⊢
      rw [loop_fuel c F F' _ (wf_app c s y hw) hF (by simpa [app, hr] using hF')]
    · simp only [hr, if_false] at hF' ⊢
      cases hc : consume c s with
      | incomplete s1 =>
        rw [hc] at hF'
        simp only [after, List.nil_append] at hF' ⊢
        rw [loop_resume c s s1 y F F' hw hr hc hF hF']
      | parseError s1 =>
        obtain ⟨s2, h2⟩ := consume_error_append c s s1 y hr hc
        cases F with
        | zero => omega
        | succ F =>
          rw [loop_succ]
          have e1 : (app s y).remaining ≠ [] := by simp [app, hr]
          simp only [e1, if_false, h2, after, List.cons_append, List.nil_append, upTo, Ev.isClose, if_true]
      | done s1 m =>
        rw [hc] at hF'
        obtain ⟨a, b, d, e, f⟩ := consume_done c s s1 m hw hc
        have h2 := consume_done_append c s s1 m y hc
        cases F with
        | zero => omega
        | succ F =>
          rw [loop_succ]
          have e1 : (app s y).remaining ≠ [] := by simp [app, hr]
          simp only [e1, if_false, h2, after_done] at hF' ⊢
          have hlen : (app s1 y).remaining.length < (app s y).remaining.length := by
            simp only [app, List.length_append]; omega
          have := ih (next c s1) F F' (wf_next c s1 a) (by simp only [next]; omega)
            (by simp only [app, List.length_append] at hF hlen; simp only [next, List.length_append]; omega)
            hF'
          simp only [List.cons_append, List.append_assoc]
          exact upTo_append_congr (Ev.str m :: closeEv (c.script s1.n)) _ _ this

theorem hasClose_closeEv (a : Act) (h : a.close = true) (es : List Ev) :
    hasClose (closeEv a ++ es) = true := by
  simp [hasClose, closeEv, h, Ev.isClose]

/-- a loop that leaves the connection closed emitted a close request (or it was closed before) -/
theorem loop_closed (c : Cfg) : ∀ (fuel : Nat) (s : St), WF c s →
    (loop c fuel s).1.closed = true → s.closed = true ∨ hasClose (loop c fuel s).2 = true := by
  intro fuel
  induction fuel with
  | zero => intro s _ h; left; simpa [loop] using h
  | succ fuel ih =>
    intro s hw h
    rw [loop_succ] at h ⊢
    by_cases hr : s.remaining = []
    · simp only [hr, if_true] at h ⊢; exact Or.inl h
    · simp only [hr, if_false] at h ⊢
      cases hc : consume c s with
      | incomplete s1 =>
        rw [hc] at h
        simp only [after] at h
        rw [(consume_incomplete c s s1 hw hc).2.2] at h
        exact Or.inl h
      | parseError s1 => right; simp [after, hasClose, Ev.isClose]
      | done s1 m =>
        rw [hc] at h
        obtain ⟨a, b, d, e, f⟩ := consume_done c s s1 m hw hc
        rw [after_done] at h ⊢
        rcases ih (next c s1) (wf_next c s1 a) h with h4 | h4
        · simp only [next, Bool.or_eq_true] at h4
          rcases h4 with h4 | h4
          · left; rw [← d]; exact h4
          · right
            have := hasClose_closeEv _ h4 (loop c fuel (next c s1)).2
            simp only [hasClose, List.any_cons, Bool.or_eq_true] at this ⊢
            exact Or.inr this
        · right
          simp only [hasClose, List.any_cons, List.any_append, Bool.or_eq_true] at h4 ⊢
          exact Or.inr (Or.inr h4)

/-- the state a loop ends in is closed, or well-formed and settled (nothing more to deliver
    without further bytes) -/
theorem loop_final (c : Cfg) : ∀ (fuel : Nat) (s : St), WF c s → s.remaining.length < fuel →
    (loop c fuel s).1.closed = true ∨
      (WF c (loop c fuel s).1 ∧ ∀ F, loop c F (loop c fuel s).1 = ((loop c fuel s).1, [])) := by
  intro fuel
  induction fuel with
  | zero => intro s _ h; omega
  | succ fuel ih =>
    intro s hw hf
    rw [loop_succ]
    by_cases hr : s.remaining = []
    · simp only [hr, if_true]
      right
      refine ⟨hw, fun F => ?_⟩
      cases F with
      | zero => rfl
      | succ F => rw [loop_succ]; simp [hr]
    · simp only [hr, if_false]
      cases hc : consume c s with
      | incomplete s1 =>
        right
        simp only [after]
        refine ⟨(consume_incomplete c s s1 hw hc).1, fun F => ?_⟩
        cases F with
        | zero => rfl
        | succ F =>
          rw [loop_succ]
          rcases consume_incomplete_append c s s1 [] hc with ⟨h1, _⟩ | ⟨h1, _, _⟩
          · subst h1; simp [hr, hc, after]
          · simp [h1]
      | parseError s1 => left; rfl
      | done s1 m =>
        obtain ⟨a, b, d, e, f⟩ := consume_done c s s1 m hw hc
        rw [after_done]
        exact ih (next c s1) (wf_next c s1 a) (by simp only [next]; omega)

/-! ### the machine: every schedule delivers what the stream delivered at once delivers -/

theorem feed_eq (c : Cfg) (s : St) (x : Bytes) :
    feed c s x = loop c ((s.remaining ++ x).length + 1) (app s x) := rfl

/-- invariant for `run_obs` -/
def Inv (c : Cfg) (s : St) : Prop := s.closed = true ∨ WF c s

theorem feed_split (c : Cfg) (s : St) (x y : Bytes) (hw : WF c s) :
    upTo (feed c s (x ++ y)).2 = upTo ((feed c s x).2 ++ (feed c (feed c s x).1 y).2) := by
  have := loop_split c y ((s.remaining ++ x).length + 1) (app s x) ((s.remaining ++ (x ++ y)).length + 1)
    (((feed c s x).1.remaining ++ y).length + 1) (wf_app c s x hw) (by simp [app])
    (by simp [app]) (by rw [feed_eq]; omega)
  rw [feed_eq c s (x ++ y), feed_eq c (feed c s x).1 y]
  rw [← feed_eq c s x] at this
  have e : app (app s x) y = app s (x ++ y) := by simp [app]
  rw [e] at this
  exact this

theorem step_split (c : Cfg) (s : St) (op : Op) (y : Bytes) (hi : Inv c s) (hc : s.closed = false) :
    Inv c ((machine c).step s op).1 ∧
    upTo (feed c s (op.bytes ++ y)).2 =
      upTo (((machine c).step s op).2 ++ (feed c ((machine c).step s op).1 y).2) := by
  have hw : WF c s := by
    rcases hi with h | h
    · rw [hc] at h; cases h
    · exact h
  cases op with
  | data x =>
    refine ⟨?_, feed_split c s x y hw⟩
    simp only [Machine.step, machine, feed_eq]
    rcases loop_final c ((s.remaining ++ x).length + 1) (app s x) (wf_app c s x hw) (by simp [app]) with h | h
    · exact Or.inl h
    · exact Or.inr h.1
  | resume => exact ⟨Or.inr hw, by simp [Machine.step, machine, Op.bytes]⟩

theorem step_closed (c : Cfg) (s : St) (op : Op) (hi : Inv c s) (hc : s.closed = false)
    (h : ((machine c).step s op).1.closed = true) : hasClose ((machine c).step s op).2 = true := by
  have hw : WF c s := by
    rcases hi with h | h
    · rw [hc] at h; cases h
    · exact h
  cases op with
  | data x =>
    rcases loop_closed c _ (app s x) (wf_app c s x hw) h with h | h
    · have : s.closed = true := h
      rw [hc] at this; cases this
    · exact h
  | resume =>
    simp only [Machine.step, machine] at h
    rw [hc] at h; cases h

theorem wf_init (c : Cfg) : WF c init := by intro h; cases h

/-- reachable states of a run: closed, or well-formed and settled -/
def Settled (c : Cfg) (s : St) : Prop :=
  s.closed = true ∨ (WF c s ∧ ∀ F, loop c F s = (s, []))

theorem settled_init (c : Cfg) : Settled c init := by
  right
  refine ⟨wf_init c, fun F => ?_⟩
  cases F with
  | zero => rfl
  | succ F => rw [loop_succ]; simp [init]

theorem run_settled (c : Cfg) : ∀ (ops : List Op) (s : St), Settled c s →
    Settled c ((machine c).run s ops).1 := by
  intro ops
  induction ops with
  | nil => intro s hs; simpa [Machine.run] using hs
  | cons op ops ih =>
    intro s hs
    simp only [Machine.run]
    by_cases hcl : (machine c).closed s = true
    · simpa [hcl] using hs
    · simp only [hcl, Bool.false_eq_true, if_false]
      apply ih
      have hcl' : ¬ s.closed = true := hcl
      have hw : WF c s := by
        rcases hs with h | h
        · exact absurd h hcl'
        · exact h.1
      cases op with
      | data x => exact loop_final c ((s.remaining ++ x).length + 1) (app s x) (wf_app c s x hw) (by simp [app])
      | resume => exact hs

/-- every schedule of deliveries delivers what the whole stream delivered at once delivers -/
theorem run_once (c : Cfg) (ops : List Op) :
    upTo ((machine c).run init ops).2 = upTo (feed c init (dataOf ops)).2 := by
  have key := run_obs (machine c) Obs.upTo (fun s y => (feed c s y).2) (Inv c)
    (fun s op y hi hcl => step_split c s op y hi hcl)
    (fun s op hi hcl h => step_closed c s op hi hcl h) ops init (Or.inr (wf_init c)) rfl
  simp only [Obs.upTo] at key
  rw [← key]
  have hS := run_settled c ops init (settled_init c)
  by_cases hcl : ((machine c).run init ops).1.closed = true
  · have : (machine c).closed ((machine c).run init ops).1 = true := hcl
    simp [this]
  · have hcl2 : (machine c).closed ((machine c).run init ops).1 = false := by
      simpa [machine] using hcl
    simp only [hcl2, Bool.false_eq_true, if_false]
    rcases hS with h | h
    · exact absurd h hcl
    · rw [feed_eq, app_nil, h.2]; simp

/-! ### the receive loop is the reference framing -/

theorem ref_succ (c : Cfg) (fuel n : Nat) (b : Bytes) :
    ref c (fuel + 1) n b =
      if b = [] then []
      else match matchLength b with
        | .bad => [Ev.close]
        | .partialOk ds => if tooBig c ds then [Ev.close] else []
        | .matched ds after =>
          if tooBig c ds then [Ev.close]
          else if after.length < decNat ds + 1 then []
          else if (after.drop (decNat ds)).head? ≠ some COMMA then [Ev.close]
          else Ev.str (after.take (decNat ds)) ::
            (closeEv (c.script n) ++ ref c fuel (n + 1) (after.drop (decNat ds + 1))) := rfl

theorem take_succ_getLast (l : Bytes) (d : Nat) (h : d < l.length) :
    (l.take (d + 1)).getLast? = (l.drop d).head? ∧ (l.take (d + 1)).dropLast = l.take d := by
  have e : l.take (d + 1) = l.take d ++ [l[d]] := by
    rw [List.take_add_one]; simp [List.getElem?_eq_getElem h]
  rw [e, List.head?_drop, List.getElem?_eq_getElem h]
  exact ⟨List.getLast?_concat .., List.dropLast_concat ..⟩

/-- `_consumePayload` right aft a length `ds` was accepted -/
theorem consumePayload_fresh (s : St) (ds aft : Bytes) :
    consumePayload (fresh s ds aft) =
      if aft.length < decNat ds + 1 then
        .incomplete { (fresh s ds aft) with payload := aft, current := aft.length, remaining := [] }
      else if (aft.drop (decNat ds)).head? ≠ some COMMA then
        .parseError { (fresh s ds aft) with payload := aft.take (decNat ds + 1), remaining := aft.drop (decNat ds + 1), current := (decNat ds + 1) }
      else
        .done { (fresh s ds aft) with payload := aft.take (decNat ds + 1), remaining := aft.drop (decNat ds + 1), current := (decNat ds + 1), inPayload := false }
          (aft.take (decNat ds)) := by
  rw [consumePayload_eq]
  by_cases hl : aft.length < decNat ds + 1
  · simp [fresh, hl]
  · have hl' : decNat ds < aft.length := by omega
    obtain ⟨e1, e2⟩ := take_succ_getLast aft (decNat ds) hl'
    simp only [fresh, hl, Nat.add_zero, Nat.sub_zero, if_false, List.nil_append, e1, e2]

theorem loop_ref (c : Cfg) : ∀ (F F' : Nat) (s : St), s.inPayload = false →
    s.remaining.length < F → s.remaining.length < F' →
    (loop c F s).2 = ref c F' s.n s.remaining := by
  intro F
  induction F with
  | zero => intro F' s _ h; omega
  | succ F ih =>
    intro F' s hp h1 h2
    cases F' with
    | zero => omega
    | succ F' =>
    rw [loop_succ, ref_succ]
    by_cases hr : s.remaining = []
    · simp [hr]
    · simp only [hr, if_false]
      rw [consume_eq]
      simp only [hp, Bool.false_eq_true, if_false]
      cases hm : matchLength s.remaining with
      | bad => rfl
      | partialOk ds => simp only; split <;> rfl
      | matched ds aft =>
        simp only
        by_cases hb : tooBig c ds = true
        · simp [hb, after]
        · simp only [hb, Bool.false_eq_true, if_false]
          rw [consumePayload_fresh]
          by_cases hl : aft.length < decNat ds + 1
          · simp [hl, after]
          · simp only [hl, if_false]
            by_cases hcm : (aft.drop (decNat ds)).head? ≠ some COMMA
            · rw [if_pos hcm, if_pos hcm]; rfl
            · rw [if_neg hcm, if_neg hcm, after_done]
              have hlen := congrArg List.length (matchLength_matched_eq _ _ _ hm)
              simp only [List.length_append, List.length_cons] at hlen
              rw [ih F' _ rfl (by simp only [next, fresh, List.length_drop]; omega)
                (by simp only [next, fresh, List.length_drop]; omega)]
              rfl

/-- the stream delivered at once is framed exactly as the reference frames it -/
theorem feed_init_ref (c : Cfg) (b : Bytes) : (feed c init b).2 = refStream c b := by
  rw [feed_eq]
  exact loop_ref c _ _ (app init b) rfl (by simp [app, init]) (by simp [app, init])

/-! ### decimal lengths: `sendString` writes what `_consumeLength` reads -/

def dig (k : Nat) : UInt8 := UInt8.ofNat (48 + k)

theorem dig_facts : ∀ k, k < 10 → isDigit (dig k) = true ∧ (dig k).toNat - 48 = k ∧ (dig k = ZERO → k = 0) := by
  decide

theorem digitsAux_succ (fuel n : Nat) (acc : Bytes) :
    digitsAux (fuel + 1) n acc =
      if n < 10 then dig n :: acc else digitsAux fuel (n / 10) (dig (n % 10) :: acc) := rfl

theorem digitsAux_acc : ∀ (fuel n : Nat) (acc : Bytes), digitsAux fuel n acc = digitsAux fuel n [] ++ acc := by
  intro fuel
  induction fuel with
  | zero => intro n acc; rfl
  | succ fuel ih =>
    intro n acc
    rw [digitsAux_succ, digitsAux_succ]
    split
    · rfl
    · rw [ih _ (dig (n % 10) :: acc), ih _ [dig (n % 10)]]; simp

/-- digits of `n` with `fuel` -/
def D (fuel n : Nat) : Bytes := digitsAux fuel n []

theorem D_succ (fuel n : Nat) :
    D (fuel + 1) n = if n < 10 then [dig n] else D fuel (n / 10) ++ [dig (n % 10)] := by
  unfold D
  rw [digitsAux_succ]
  split
  · rfl
  · rw [digitsAux_acc]

theorem decNat_snoc (a : Bytes) (x : UInt8) : decNat (a ++ [x]) = decNat a * 10 + (x.toNat - 48) := by
  simp [decNat]

theorem D_all_digits : ∀ (fuel n : Nat), ∀ x ∈ D fuel n, isDigit x = true := by
  intro fuel
  induction fuel with
  | zero => intro n x hx; simp [D, digitsAux] at hx
  | succ fuel ih =>
    intro n x hx
    rw [D_succ] at hx
    split at hx
    · rename_i h
      simp only [List.mem_singleton] at hx
      rw [hx]; exact (dig_facts n h).1
    · simp only [List.mem_append, List.mem_singleton] at hx
      rcases hx with hx | hx
      · exact ih _ _ hx
      · rw [hx]; exact (dig_facts _ (Nat.mod_lt _ (by omega))).1

theorem D_decNat : ∀ (fuel n : Nat), n < fuel → decNat (D fuel n) = n := by
  intro fuel
  induction fuel with
  | zero => intro n h; omega
  | succ fuel ih =>
    intro n h
    rw [D_succ]
    split
    · rename_i h10
      have := (dig_facts n h10).2.1
      simp only [decNat, List.foldl_cons, List.foldl_nil]
      omega
    · rw [decNat_snoc, ih _ (by omega), (dig_facts _ (Nat.mod_lt _ (by omega))).2.1]
      omega

theorem D_head : ∀ (fuel n : Nat), n < fuel →
    ∃ a cs, D fuel n = a :: cs ∧ (a = ZERO → n = 0 ∧ cs = []) := by
  intro fuel
  induction fuel with
  | zero => intro n h; omega
  | succ fuel ih =>
    intro n h
    rw [D_succ]
    split
    · rename_i h10
      exact ⟨dig n, [], rfl, fun hz => ⟨(dig_facts n h10).2.2 hz, rfl⟩⟩
    · obtain ⟨a, cs, e, hz⟩ := ih (n / 10) (by omega)
      refine ⟨a, cs ++ [dig (n % 10)], by rw [e]; rfl, fun ha => ?_⟩
      have := (hz ha).1
      omega

theorem D_length : ∀ (fuel n k : Nat), n < 10 ^ (k + 1) → (D fuel n).length ≤ k + 1 := by
  intro fuel
  induction fuel with
  | zero => intro n k _; simp [D, digitsAux]
  | succ fuel ih =>
    intro n k h
    rw [D_succ]
    split
    · simp
    · rename_i h10
      cases k with
      | zero => simp at h; omega
      | succ k =>
        have : n / 10 < 10 ^ (k + 1) := by
          apply Nat.div_lt_of_lt_mul
          rw [Nat.pow_succ] at h; omega
        have := ih (n / 10) k this
        simp only [List.length_append, List.length_singleton]
        omega

theorem ceilLog10Aux_spec (n : Nat) : ∀ (fuel k pow : Nat), pow = 10 ^ k → n ≤ k + fuel →
    n ≤ 10 ^ (ceilLog10Aux n fuel k pow) := by
  intro fuel
  induction fuel with
  | zero =>
    intro k pow _ h
    simp only [ceilLog10Aux]
    have : k < 10 ^ k := Nat.lt_pow_self (by omega)
    omega
  | succ fuel ih =>
    intro k pow hp h
    simp only [ceilLog10Aux]
    split
    · rw [← hp]; assumption
    · exact ih (k + 1) (pow * 10) (by rw [hp, Nat.pow_succ]) (by omega)

theorem ceilLog10_spec (n : Nat) : n ≤ 10 ^ ceilLog10 n :=
  ceilLog10Aux_spec n n 0 1 rfl (by omega)

theorem decBytes_eq (n : Nat) : decBytes n = D (n + 1) n := rfl

theorem decNat_decBytes (n : Nat) : decNat (decBytes n) = n := D_decNat _ _ (by omega)

theorem tooBig_decBytes (c : Cfg) (n : Nat) (h : n ≤ c.maxLen) : tooBig c (decBytes n) = false := by
  have h1 : (decBytes n).length ≤ maxLengthSize c := by
    apply D_length
    have := ceilLog10_spec c.maxLen
    have hpos : 0 < 10 ^ ceilLog10 c.maxLen := Nat.pow_pos (by omega)
    rw [Nat.pow_succ]; omega
  have h2 := decNat_decBytes n
  simp only [tooBig, Bool.or_eq_false_iff, decide_eq_false_iff_not]
  omega

theorem isDigit_colon : isDigit COLON = false := by decide

theorem span_digits (rest : Bytes) : ∀ (cs : Bytes), (∀ x ∈ cs, isDigit x = true) →
    (cs ++ COLON :: rest).takeWhile isDigit = cs ∧ (cs ++ COLON :: rest).dropWhile isDigit = COLON :: rest := by
  intro cs
  induction cs with
  | nil => intro _; simp [List.takeWhile_cons, List.dropWhile_cons, isDigit_colon]
  | cons a cs ih =>
    intro h
    have ha : isDigit a = true := h a (by simp)
    have := ih (fun x hx => h x (by simp [hx]))
    simp [List.takeWhile_cons, List.dropWhile_cons, ha, this]

theorem matchLength_decBytes (n : Nat) (rest : Bytes) :
    matchLength (decBytes n ++ COLON :: rest) = .matched (decBytes n) rest := by
  obtain ⟨a, cs, e, hz⟩ := D_head (n + 1) n (by omega)
  have hd := D_all_digits (n + 1) n
  rw [decBytes_eq, e] at *
  rw [List.cons_append, matchLength_cons]
  by_cases ha : a = ZERO
  · obtain ⟨_, hcs⟩ := hz ha
    subst hcs
    simp [ha, afterDigits_cons]
  · have had : isDigit a = true := hd a (by simp)
    obtain ⟨e1, e2⟩ := span_digits rest cs (fun x hx => hd x (by simp [hx]))
    simp only [ha, if_false, had, if_true, e1, e2, afterDigits_cons]

/-! ### send / receive -/

/-- the callbacks a list of strings produces, from message index `n` on -/
def delivered (c : Cfg) : Nat → List Bytes → List Ev
  | _, [] => []
  | n, m :: ms => Ev.str m :: (closeEv (c.script n) ++ delivered c (n + 1) ms)

/-- the reference does not depend on the fuel (it is the loop) -/
theorem ref_fuel (c : Cfg) (F F' n : Nat) (b : Bytes) (h1 : b.length < F) (h2 : b.length < F') :
    ref c F n b = ref c F' n b := by
  rw [← loop_ref c F F ⟨b, false, 0, 0, [], false, false, n⟩ rfl h1 h1,
      ← loop_ref c F F' ⟨b, false, 0, 0, [], false, false, n⟩ rfl h1 h2]

theorem ref_send (c : Cfg) (m rest : Bytes) (hm : m.length ≤ c.maxLen) (F n : Nat) :
    ref c (F + 1) n (send m ++ rest) =
      Ev.str m :: (closeEv (c.script n) ++ ref c F (n + 1) rest) := by
  rw [ref_succ]
  have e : send m ++ rest = decBytes m.length ++ COLON :: (m ++ COMMA :: rest) := by simp [send]
  have hne : send m ++ rest ≠ [] := by simp [send]
  rw [if_neg hne, e, matchLength_decBytes]
  simp only [tooBig_decBytes c _ hm, Bool.false_eq_true, if_false, decNat_decBytes]
  have h1 : ¬ (m ++ COMMA :: rest).length < m.length + 1 := by simp
  have h2 : (m ++ COMMA :: rest).drop m.length = COMMA :: rest := List.drop_left' rfl
  have h3 : (m ++ COMMA :: rest).take m.length = m := List.take_left' rfl
  have h4 : (m ++ COMMA :: rest).drop (m.length + 1) = rest := by
    rw [← List.drop_drop, h2]; rfl
  simp only [h1, if_false, h2, h3, h4, List.head?_cons, ne_eq, not_true_eq_false]

theorem ref_frames (c : Cfg) (ms : List Bytes) (hm : ∀ m ∈ ms, m.length ≤ c.maxLen) :
    ∀ (n F : Nat), ((ms.map send).flatten).length < F →
      ref c F n ((ms.map send).flatten) = delivered c n ms := by
  induction ms with
  | nil =>
    intro n F hF
    cases F with
    | zero => omega
    | succ F => simp [ref_succ, delivered]
  | cons m ms ih =>
    intro n F hF
    cases F with
    | zero => omega
    | succ F =>
      simp only [List.map_cons, List.flatten_cons] at hF ⊢
      rw [ref_send c m _ (hm m (by simp)), delivered]
      rw [ih (fun x hx => hm x (by simp [hx])) (n + 1) F]
      have : 0 < (send m).length := by simp [send]; omega
      simp only [List.length_append] at hF
      omega

/-! ### limits -/

/-- no string longer than `MAX_LENGTH` is delivered from a well-formed state (past close
    requests too) -/
theorem loop_within (c : Cfg) : ∀ (fuel : Nat) (s : St) (m : Bytes), WF c s →
    Ev.str m ∈ (loop c fuel s).2 → m.length ≤ c.maxLen := by
  intro fuel
  induction fuel with
  | zero => intro s m _ h; simp [loop] at h
  | succ fuel ih =>
    intro s m hw h
    rw [loop_succ] at h
    split at h
    · simp at h
    · cases hc : consume c s with
      | incomplete s1 => rw [hc] at h; simp [after] at h
      | parseError s1 => rw [hc] at h; simp [after] at h
      | done s1 m1 =>
        rw [hc, after_done] at h
        obtain ⟨a, b, d, e, f⟩ := consume_done c s s1 m1 hw hc
        simp only [List.mem_cons, List.mem_append] at h
        rcases h with h | h | h
        · injection h with h; subst h; exact f
        · simp only [closeEv] at h; split at h <;> simp at h
        · exact ih _ _ (wf_next c s1 a) h

theorem step_settled (c : Cfg) (s : St) (op : Op) (hs : Settled c s) (hcl : s.closed = false) :
    Settled c ((machine c).step s op).1 := by
  have hw : WF c s := by
    rcases hs with h | h
    · rw [hcl] at h; cases h
    · exact h.1
  cases op with
  | data x => exact loop_final c ((s.remaining ++ x).length + 1) (app s x) (wf_app c s x hw) (by simp [app])
  | resume => exact hs

theorem step_within (c : Cfg) (s : St) (op : Op) (m : Bytes) (hs : Settled c s) (hcl : s.closed = false)
    (h : Ev.str m ∈ ((machine c).step s op).2) : m.length ≤ c.maxLen := by
  have hw : WF c s := by
    rcases hs with h | h
    · rw [hcl] at h; cases h
    · exact h.1
  cases op with
  | data x => exact loop_within c _ (app s x) m (wf_app c s x hw) h
  | resume => simp [Machine.step, machine] at h
end TwistedProps.C16.Netstring
