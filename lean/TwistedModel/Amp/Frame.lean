/-!
The boxes two `twisted.protocols.amp.AMP` peers exchange in the C31 model, and their wire form
(src/twisted/protocols/amp.py: `AmpBox.serialize` — keys sorted, each key and value prefixed by
its 16-bit big-endian length, terminated by a zero-length key; `BoxDispatcher._nextTag` —
`b"%x" % counter`; `Integer.toString` — decimal; `_commandReceived.formatAnswer/formatError`;
`dispatchCommand`'s "Unhandled Command" error).

Only *serialisation* is modelled: the dispatch model counts the bytes of a box that have been
delivered and hands the box over when its last byte (the end of the terminator) arrives.
Parsing is the subject of another property (C30); the correspondence check of C31 compares
the wire bytes of both peers byte for byte and lets the real parser parse them.
-/
namespace Twisted.Amp

abbrev Bytes := List UInt8

/-- which command is called = the script of its responder at the peer -/
inductive Beh where
  /-- responder returns `{"n": n}` -/
  | ok
  /-- responder raises the declared error `EErr(str(n))` (code `E`) -/
  | err
  /-- responder raises the declared *fatal* error `FErr(str(n))` (code `F`) -/
  | fatal
  /-- responder raises an undeclared exception -/
  | unk
  /-- responder returns a Deferred (fired later by the application, or never) -/
  | later
  /-- the peer has no responder for the command -/
  | nores
  deriving DecidableEq, Repr

/-- what the responder side answers -/
inductive Kind where
  | ok | err | fatal | unk
  /-- `dispatchCommand` found no responder (`UNHANDLED`) -/
  | unhandled
  deriving DecidableEq, Repr

inductive Box where
  /-- `{_ask: tag?, _command: beh, n: n}` -/
  | ask (tag : Option Nat) (beh : Beh) (n : Nat)
  /-- `{_answer: tag, n: n}` for `ok`, otherwise `{_error: tag, _error_code: …, _error_description: …}` -/
  | reply (tag : Nat) (k : Kind) (n : Nat)
  deriving DecidableEq, Repr

def ascii (s : String) : Bytes := s.toList.map fun c => UInt8.ofNat c.toNat

/-- `b"%x" % n` -/
def hexOf (n : Nat) : Bytes := (Nat.toDigits 16 n).map fun c => UInt8.ofNat c.toNat
/-- `b"%d" % n` -/
def decOf (n : Nat) : Bytes := (Nat.toDigits 10 n).map fun c => UInt8.ofNat c.toNat

/-- `pack("!H", n)` (every length here is far below 65536) -/
def u16 (n : Nat) : Bytes := [UInt8.ofNat (n / 256 % 256), UInt8.ofNat (n % 256)]

def kv (k v : Bytes) : Bytes := u16 k.length ++ k ++ u16 v.length ++ v

def Beh.name : Beh → String
  | .ok => "ok" | .err => "err" | .fatal => "fatal" | .unk => "unk" | .later => "later" | .nores => "nores"

/-- `_error_code` (characters below U+0100 stand for single bytes: the declared fatal error has the non-ASCII
    code `b"F\xe9"`) -/
def Kind.code : Kind → String
  | .ok => "" | .err => "E" | .fatal => "F\xe9" | .unk => "UNKNOWN" | .unhandled => "UNHANDLED"

/-- `str(exception).encode("utf-8")` of the declared error raised for call `n` by the harness responders:
    `"é" + str(n)` (the two bytes `c3 a9` first) for every third call, `str(n)` otherwise -/
def declDesc (n : Nat) : Bytes := (if n % 3 = 2 then [0xc3, 0xa9] else []) ++ decOf n

/-- `_error_description`: `str(exception)` for declared errors, the fixed texts otherwise -/
def Kind.desc (n : Nat) : Kind → Bytes
  | .ok => []
  | .err => declDesc n
  | .fatal => declDesc n
  | .unk => ascii "Unknown Error"
  | .unhandled => ascii "Unhandled Command: b'nores'"

/-- `AmpBox.serialize()` (keys in sorted order: `_answer < _ask < _command < _error < _error_code <
    _error_description < n`) -/
def ser : Box → Bytes
  | .ask tag beh n =>
    (match tag with
      | some t => kv (ascii "_ask") (hexOf t)
      | none => []) ++ kv (ascii "_command") (ascii beh.name) ++ kv (ascii "n") (decOf n) ++ [0, 0]
  | .reply t .ok n => kv (ascii "_answer") (hexOf t) ++ kv (ascii "n") (decOf n) ++ [0, 0]
  | .reply t k n =>
    kv (ascii "_error") (hexOf t) ++ kv (ascii "_error_code") (ascii k.code) ++
      kv (ascii "_error_description") (k.desc n) ++ [0, 0]

/-- number of bytes of a box on the wire -/
def size (b : Box) : Nat := (ser b).length

end Twisted.Amp
