/-
Model of the AMP wire format (C30), transcribing from `twisted/protocols/amp.py`
  * `AmpBox.serialize`                         → `serialize` (`sortItems` = `sorted(self.items())`,
                                                  `encodeItems` = the `for k, v in i` loop)
  * `BinaryBoxProtocol.sendBox`                → `sendBox` (connected, not locked, no TLS buffering)
  * `BinaryBoxProtocol.proto_init/proto_key/proto_value`, `MAX_LENGTH` switching,
    `lengthLimitExceeded`                      → `stringReceived`, `Core.maxLength`, `Proto.exceeded`
  * `_ParserHelper.parseString`                → `parseString`
and from `twisted/protocols/basic.py`
  * `IntNStringReceiver.dataReceived` (16-bit) → `loop` / `dataReceived`, generic in the receiver
    (`Recv`), so that `ListOf.fromString` (a bare `Int16StringReceiver`, `MAX_LENGTH = 99999`)
    reuses it
  * `StatefulStringProtocol.stringReceived`    → the dispatch on `Core.state`.

Quirks kept: a zero-length *key* string ends the box (so an empty key can never be
represented); a duplicate key on the wire overwrites (dict assignment); after
`lengthLimitExceeded` the whole buffer of that `dataReceived` call stays in `_unprocessed`
(`self._unprocessed = alldata`, not sliced) while the parser state is the one reached at the
offending prefix, so data arriving afterwards re-parses the already delivered strings.

A box is an insertion-ordered association list with distinct keys (a Python `dict`);
non-`bytes` keys/values (`TypeError`) are outside the model and covered by the tie/oracle only.
-/
namespace Twisted.Amp.Box

abbrev Bytes := List UInt8
abbrev Box := List (Bytes × Bytes)

/-- what sending can raise -/
inductive Err where
  | tooLong        -- `TooLong` (key > 255 or value > 65535)
  | emptyKey       -- `ValueError`: an empty key is the wire terminator
  | noEmptyBoxes   -- `NoEmptyBoxes`: `sendBox` of a box without items
  deriving Repr, DecidableEq

/-- `pack("!H", n)` for `n < 65536` -/
def pack16 (n : Nat) : Bytes := [UInt8.ofNat (n / 256), UInt8.ofNat (n % 256)]

/-- `unpack("!H", b0 b1)` -/
def unpack16 (b0 b1 : UInt8) : Nat := b0.toNat * 256 + b1.toNat

/-- `a < b` on `bytes` (lexicographic on unsigned octets, a proper prefix is smaller) -/
def bytesLt : Bytes → Bytes → Bool
  | [], [] => false
  | [], _ :: _ => true
  | _ :: _, [] => false
  | a :: as, b :: bs => a < b || (a == b && bytesLt as bs)

/-- insertion into a key-sorted item list -/
def insertItem (x : Bytes × Bytes) : Box → Box
  | [] => [x]
  | y :: ys => if bytesLt y.1 x.1 then y :: insertItem x ys else x :: y :: ys

/-- `sorted(self.items())`: keys of a dict are distinct, so the order is the order of keys -/
def sortItems : Box → Box
  | [] => []
  | x :: xs => insertItem x (sortItems xs)

def MAX_KEY_LENGTH : Nat := 255
def MAX_VALUE_LENGTH : Nat := 65535

/-- the `for k, v in i:` loop of `AmpBox.serialize`, with the final `w(pack("!H", 0))` -/
def encodeItems : Box → Except Err Bytes
  | [] => .ok (pack16 0)
  | (k, v) :: rest =>
    if k.length = 0 then .error .emptyKey
    else if k.length > MAX_KEY_LENGTH then .error .tooLong
    else if v.length > MAX_VALUE_LENGTH then .error .tooLong
    else match encodeItems rest with
      | .error e => .error e
      | .ok w => .ok (pack16 k.length ++ k ++ (pack16 v.length ++ v ++ w))

def serialize (b : Box) : Except Err Bytes := encodeItems (sortItems b)

/-- `BinaryBoxProtocol.sendBox` on a connected, unlocked protocol: what is written -/
def sendBox (b : Box) : Except Err Bytes :=
  if b.isEmpty then .error .noEmptyBoxes else serialize b

/-! ### `IntNStringReceiver.dataReceived`, 16-bit prefix -/

/-- the callbacks of an `Int16StringReceiver` subclass over its own state `σ` -/
structure Recv (σ : Type) where
  maxLength : σ → Nat
  stringReceived : σ → Bytes → σ

/-- The `while` loop of `dataReceived` on `alldata[currentOffset:]`.  Result: the receiver
    state and `some leftover` (what stays unprocessed), or `none` when a length prefix
    exceeded `MAX_LENGTH` (`lengthLimitExceeded` was called and the method returned). -/
def loop {σ : Type} (R : Recv σ) (st : σ) (rest : Bytes) : σ × Option Bytes :=
  match rest with
  | b0 :: b1 :: tl =>
    let n := unpack16 b0 b1
    if n > R.maxLength st then (st, none)
    else
      let packet := tl.take n
      if packet.length < n then (st, some rest)
      else loop R (R.stringReceived st packet) (tl.drop n)
  | _ => (st, some rest)
termination_by rest.length
decreasing_by simp only [List.length_cons, List.length_drop]; omega

/-- protocol-level state of an `Int16StringReceiver` -/
structure Proto (σ : Type) where
  core : σ
  unprocessed : Bytes      -- `_unprocessed`
  exceeded : Bool          -- `lengthLimitExceeded` has been called (`transport.loseConnection()`)

def dataReceived {σ : Type} (R : Recv σ) (p : Proto σ) (data : Bytes) : Proto σ :=
  let alldata := p.unprocessed ++ data
  match loop R p.core alldata with
  | (c, some r) => { core := c, unprocessed := r, exceeded := p.exceeded }
  | (c, none) => { core := c, unprocessed := alldata, exceeded := true }

def feedAll {σ : Type} (R : Recv σ) (p : Proto σ) : List Bytes → Proto σ
  | [] => p
  | c :: cs => feedAll R (dataReceived R p c) cs

/-! ### `BinaryBoxProtocol` as a receiver -/

inductive PState where
  | init | key | value
  deriving Repr, DecidableEq

structure Core where
  state : PState                 -- `StatefulStringProtocol.state`
  maxLength : Nat                -- `MAX_LENGTH` (instance attribute once assigned)
  currentKey : Bytes             -- `_currentKey`
  currentBox : Box               -- `_currentBox` (`None` between boxes is modelled as `[]`)
  received : List Box            -- calls of `boxReceiver.ampBoxReceived`, in order
  deriving Repr, DecidableEq

def Core.initial : Core := ⟨.init, MAX_KEY_LENGTH, [], [], []⟩

/-- `d[k] = v` on an insertion-ordered dict -/
def dictSet (d : Box) (k v : Bytes) : Box :=
  if d.any (·.1 == k) then d.map fun p => if p.1 == k then (k, v) else p else d ++ [(k, v)]

def protoKey (c : Core) (s : Bytes) : Core :=
  if s.isEmpty then { c with received := c.received ++ [c.currentBox], currentBox := [], state := .init }
  else { c with currentKey := s, maxLength := MAX_VALUE_LENGTH, state := .value }

def protoValue (c : Core) (s : Bytes) : Core :=
  { c with currentBox := dictSet c.currentBox c.currentKey s, currentKey := [],
           maxLength := MAX_KEY_LENGTH, state := .key }

/-- `StatefulStringProtocol.stringReceived` → `proto_<state>` -/
def stringReceived (c : Core) (s : Bytes) : Core :=
  match c.state with
  | .init => protoKey { c with currentBox := [] } s
  | .key => protoKey c s
  | .value => protoValue c s

def boxRecv : Recv Core := ⟨Core.maxLength, stringReceived⟩

def Proto.initial : Proto Core := ⟨Core.initial, [], false⟩

/-- a fresh `BinaryBoxProtocol` fed the given chunks -/
def receive (chunks : List Bytes) : Proto Core := feedAll boxRecv Proto.initial chunks

/-- `parseString(data)`: fresh protocol, one `dataReceived`, the boxes received -/
def parseString (data : Bytes) : List Box := (receive [data]).core.received

/-- sender side of a stream: `sendBox` each box in turn on a `StringTransport`;
    refused boxes write nothing.  Returns the wire bytes and, per box, whether it was refused. -/
def sendAll : List Box → Bytes × List (Option Err)
  | [] => ([], [])
  | b :: bs =>
    let r := sendAll bs
    match sendBox b with
    | .ok w => (w ++ r.1, none :: r.2)
    | .error e => (r.1, some e :: r.2)

end Twisted.Amp.Box
