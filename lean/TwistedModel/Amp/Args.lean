import TwistedModel.Amp.Box
/-
Model of the AMP argument types that are modelled in Lean (C30), transcribing from
`twisted/protocols/amp.py`:
  * `Integer.toString` (`b"%d" % (n,)`) / `Integer.fromString = int`   → `intToString` / `pyInt`
    (`int(bytes)`: optional surrounding ASCII whitespace, one sign, decimal digits with single
    underscores between digits; anything else `ValueError`)
  * `String.toString/fromString` (identity)
  * `Unicode.toString/fromString` (`str.encode("utf-8")` / `bytes.decode("utf-8")`, strict)
                                                                       → `utf8Encode` / `utf8Decode`
  * `Boolean.toString` (truthiness → `True`/`False`) / `fromString` (exact match else `TypeError`)
  * `ListOf.toString` (`pack("!H", len(s)) + s` per element; `struct.error` above 65535) /
    `ListOf.fromString` (a bare `Int16StringReceiver` with `MAX_LENGTH = 99999` collecting
    strings, trailing incomplete data silently dropped, then `elementType.fromString` on each).
  * `DateTime.toString` (`%04i-%02i-%02iT%02i:%02i:%02i.%06i%s%02i:%02i`, the UTC offset rounded
    towards zero to whole minutes, `ValueError` for a naive value or an offset outside ±1 day) /
    `DateTime.fromString` (ASCII, exactly 32 characters, nine `int()` slices, the separators are
    not looked at, sign `+`/`-`, `FixedOffsetTimeZone.fromSignHoursMinutes`, then the range checks of
    `datetime.datetime(...)`)                                          → `dtToString` / `dtFromString`
    A `datetime` is modelled by its FIELDS (year … microsecond + `utcoffset()` in microseconds),
    not as an instant.
  * `Decimal.toString` (`str(decimal.Decimal)`: `Decimal.__str__` of `_pydecimal.py`, which is
    the specified behaviour of `_decimal` too, with `context.capitals = 1`) / `Decimal.fromString`
    (`decimal.Decimal(str)`: strip, drop underscores, sign, `Inf[inity]` / `[s]NaN<digits>` /
    `digits[.digits][E[±]digits]`, case-insensitive)                   → `decToString` / `decFromString`
    A `Decimal` is its `as_tuple()`: sign, coefficient (a natural number: `_int` has no leading
    zeros), exponent — or Infinity / NaN / sNaN with a payload (0 = none).
  * `Float.toString/fromString` (`str(float)` / `float(bytes)`) are a PARAMETER of the model
    (`FloatCodec`): nothing about IEEE formatting is transcribed.
  * `AmpList.toStringProto/fromStringProto`, `_objectsToStrings/_stringsToObjects`,
    `Argument.toBox/fromBox/retrieve` (optional arguments: `None` ↔ key absent; a missing required
    key is `KeyError`; `parseString` on an over-long key prefix dies with `AttributeError` because
    `_ParserHelper` has no `loseConnection`)                           → `rowToBox` / `rowFromBox` /
    `ampListToString` / `ampListFromString`.  The names of a schema are assumed distinct (also after
    `_wireNameToPythonIdentifier`), so a row is a tuple in schema order instead of a dict.
  * `Path.toString` (`Unicode.toString(path.asTextMode().path)`) / `Path.fromString`
    (`FilePath(Unicode.fromString(s))`, i.e. `abspath` of the decoded text): a `FilePath` is modelled by
    its text-mode `.path`; `os.path.abspath` is a PARAMETER (`Ext.abspath`), not transcribed.

Text (`str`) is a list of code points (`Nat`); code points ≥ 0x110000 do not exist in Python.
-/
namespace Twisted.Amp.Args
open Twisted.Amp.Box

inductive ArgErr where
  | valueError | typeError | unicodeEncodeError | unicodeDecodeError | structError
  | keyError | tooLong | attributeError | invalidOperation
  deriving Repr, DecidableEq

/-! ### Integer -/

def digitByte (d : Nat) : UInt8 := UInt8.ofNat (48 + d)

/-- decimal digits of a natural number, most significant first -/
def natToDec (n : Nat) : Bytes :=
  if n < 10 then [digitByte n] else natToDec (n / 10) ++ [digitByte (n % 10)]
termination_by n
decreasing_by omega

/-- `b"%d" % (i,)` -/
def intToString : Int → Bytes
  | .ofNat n => natToDec n
  | .negSucc n => 45 :: natToDec (n + 1)

/-- `Py_ISSPACE`: space, `\t \n \v \f \r` -/
def isSpace (b : UInt8) : Bool := b == 32 || (9 ≤ b && b ≤ 13)
def isDigit (b : UInt8) : Bool := 48 ≤ b && b ≤ 57

def lstrip : Bytes → Bytes
  | [] => []
  | b :: bs => if isSpace b then lstrip bs else b :: bs

def rstrip : Bytes → Bytes
  | [] => []
  | b :: bs => match rstrip bs with
    | [] => if isSpace b then [] else [b]
    | r => b :: r

/-- digits with single underscores strictly between digits; `prev` = previous byte was a digit -/
def parseDigits : Bytes → Nat → Bool → Option Nat
  | [], acc, prev => if prev then some acc else none
  | b :: bs, acc, prev =>
    if isDigit b then parseDigits bs (acc * 10 + (b.toNat - 48)) true
    else if b == 95 && prev then
      match bs with
      | [] => none
      | b' :: _ => if isDigit b' then parseDigits bs acc false else none
    else none

/-- `int(s)` for `bytes` `s`, base 10; `none` = `ValueError` -/
def pyInt (s : Bytes) : Option Int :=
  match rstrip (lstrip s) with
  | 45 :: ds => (parseDigits ds 0 false).map fun n => -(Int.ofNat n)
  | 43 :: ds => (parseDigits ds 0 false).map Int.ofNat
  | ds => (parseDigits ds 0 false).map Int.ofNat

def intFromString (s : Bytes) : Except ArgErr Int :=
  match pyInt s with
  | some i => .ok i
  | none => .error .valueError

/-! ### Unicode (UTF-8) -/

def isSurrogate (c : Nat) : Bool := 0xD800 ≤ c && c < 0xE000

/-- UTF-8 of one code point; `none` for a surrogate (`UnicodeEncodeError`) -/
def utf8EncodeChar (c : Nat) : Option Bytes :=
  if c < 0x80 then some [UInt8.ofNat c]
  else if c < 0x800 then some [UInt8.ofNat (0xC0 + c / 64), UInt8.ofNat (0x80 + c % 64)]
  else if c < 0x10000 then
    if isSurrogate c then none
    else some [UInt8.ofNat (0xE0 + c / 4096), UInt8.ofNat (0x80 + c / 64 % 64), UInt8.ofNat (0x80 + c % 64)]
  else if c < 0x110000 then
    some [UInt8.ofNat (0xF0 + c / 262144), UInt8.ofNat (0x80 + c / 4096 % 64),
          UInt8.ofNat (0x80 + c / 64 % 64), UInt8.ofNat (0x80 + c % 64)]
  else none

/-- `text.encode("utf-8")` -/
def utf8Encode : List Nat → Option Bytes
  | [] => some []
  | c :: cs => match utf8EncodeChar c, utf8Encode cs with
    | some a, some b => some (a ++ b)
    | _, _ => none

def isCont (b : UInt8) : Bool := 0x80 ≤ b && b < 0xC0

/-- `data.decode("utf-8")` (strict): `none` = `UnicodeDecodeError`.  A sequence is accepted
    iff its continuation bytes are `10xxxxxx`, the value is not encodable in fewer bytes, is
    not a surrogate and is below 0x110000 — the same set CPython's decoder accepts. -/
def utf8Decode : Bytes → Option (List Nat)
  | [] => some []
  | b0 :: rest =>
    if b0 < 0x80 then (utf8Decode rest).map (b0.toNat :: ·)
    else if b0 < 0xC0 then none
    else if b0 < 0xE0 then
      match rest with
      | b1 :: rest' =>
        let c := (b0.toNat - 0xC0) * 64 + (b1.toNat - 0x80)
        if isCont b1 && 0x80 ≤ c then (utf8Decode rest').map (c :: ·) else none
      | _ => none
    else if b0 < 0xF0 then
      match rest with
      | b1 :: b2 :: rest' =>
        let c := (b0.toNat - 0xE0) * 4096 + (b1.toNat - 0x80) * 64 + (b2.toNat - 0x80)
        if isCont b1 && isCont b2 && 0x800 ≤ c && !isSurrogate c then (utf8Decode rest').map (c :: ·) else none
      | _ => none
    else if b0 < 0xF8 then
      match rest with
      | b1 :: b2 :: b3 :: rest' =>
        let c := (b0.toNat - 0xF0) * 262144 + (b1.toNat - 0x80) * 4096 + (b2.toNat - 0x80) * 64 + (b3.toNat - 0x80)
        if isCont b1 && isCont b2 && isCont b3 && 0x10000 ≤ c && c < 0x110000 then
          (utf8Decode rest').map (c :: ·) else none
      | _ => none
    else none

/-! ### Boolean -/

def bTrue : Bytes := [84, 114, 117, 101]          -- b"True"
def bFalse : Bytes := [70, 97, 108, 115, 101]     -- b"False"

def boolToString (b : Bool) : Bytes := if b then bTrue else bFalse

def boolFromString (s : Bytes) : Except ArgErr Bool :=
  if s = bTrue then .ok true else if s = bFalse then .ok false else .error .typeError

/-! ### ListOf -/

/-- `ListOf.toString` over already-or-not serialised elements -/
def listToString {α : Type} (enc : α → Except ArgErr Bytes) : List α → Except ArgErr Bytes
  | [] => .ok []
  | x :: xs =>
    match enc x with
    | .error e => .error e
    | .ok s =>
      if s.length > 65535 then .error .structError
      else match listToString enc xs with
        | .error e => .error e
        | .ok w => .ok (pack16 s.length ++ s ++ w)

/-- the bare `Int16StringReceiver()` of `ListOf.fromString`: `stringReceived = strings.append` -/
def listRecv : Recv (List Bytes) := ⟨fun _ => 99999, fun acc s => acc ++ [s]⟩

/-- the `strings` list after `parser.dataReceived(inString)` -/
def splitStrings (s : Bytes) : List Bytes := (loop listRecv [] s).1

def mapExcept {α β : Type} (f : α → Except ArgErr β) : List α → Except ArgErr (List β)
  | [] => .ok []
  | x :: xs =>
    match f x with
    | .error e => .error e
    | .ok y => match mapExcept f xs with
      | .error e => .error e
      | .ok ys => .ok (y :: ys)

def listFromString {α : Type} (dec : Bytes → Except ArgErr α) (s : Bytes) : Except ArgErr (List α) :=
  mapExcept dec (splitStrings s)

/-! ### fixed-width decimal text -/

/-- value of a digit string read left to right from `acc` -/
def digitsVal (acc : Nat) (bs : Bytes) : Nat := bs.foldl (fun a b => a * 10 + (b.toNat - 48)) acc

/-- `"%0<w>i" % n` for `n ≥ 0` -/
def padNat (w n : Nat) : Bytes :=
  List.replicate (w - (natToDec n).length) 48 ++ natToDec n

/-! ### DateTime -/

/-- the fields of a `datetime.datetime`; `off` = `utcoffset()` in microseconds (`none`: naive) -/
structure DT where
  year : Nat
  month : Nat
  day : Nat
  hour : Nat
  minute : Nat
  second : Nat
  micro : Nat
  off : Option Int
  deriving Repr, DecidableEq

def isLeap (y : Nat) : Bool := y % 4 == 0 && (y % 100 != 0 || y % 400 == 0)

def daysInMonth (y m : Nat) : Nat :=
  if m == 2 then (if isLeap y then 29 else 28)
  else if m == 4 || m == 6 || m == 9 || m == 11 then 30 else 31

/-- the invariant of every `datetime.datetime` object -/
def DT.validFields (d : DT) : Prop :=
  1 ≤ d.year ∧ d.year ≤ 9999 ∧ 1 ≤ d.month ∧ d.month ≤ 12 ∧ 1 ≤ d.day ∧ d.day ≤ daysInMonth d.year d.month
  ∧ d.hour < 24 ∧ d.minute < 60 ∧ d.second < 60 ∧ d.micro < 1000000

instance (d : DT) : Decidable d.validFields := by unfold DT.validFields; infer_instance

/-- whole minutes of an offset in microseconds, rounded towards zero (the repaired rounding) -/
def offsetMinutes (o : Int) : Int :=
  if o < 0 then -((-o) / 60000000) else o / 60000000

/-- `DateTime.toString` -/
def dtToString (d : DT) : Except ArgErr Bytes :=
  match d.off with
  | none => .error .valueError
  | some o =>
    if o ≤ -86400000000 ∨ 86400000000 ≤ o then .error .valueError      -- `utcoffset()` raises
    else
      let m := offsetMinutes o
      let sign : UInt8 := if m > 0 then 43 else 45
      let a := m.natAbs
      .ok (padNat 4 d.year ++ 45 :: padNat 2 d.month ++ 45 :: padNat 2 d.day ++ 84 :: padNat 2 d.hour
        ++ 58 :: padNat 2 d.minute ++ 58 :: padNat 2 d.second ++ 46 :: padNat 6 d.micro
        ++ sign :: padNat 2 (a / 60) ++ 58 :: padNat 2 (a % 60))

/-- `datetime.datetime(y, mo, d, h, mi, s, us, tz)` with `tz.offset = offMin` minutes:
    `none` = `ValueError` -/
def mkDateTime (y mo d h mi s us offMin : Int) : Option DT :=
  if 1 ≤ y ∧ y ≤ 9999 ∧ 1 ≤ mo ∧ mo ≤ 12 ∧ 1 ≤ d ∧ d ≤ (daysInMonth y.toNat mo.toNat : Nat)
      ∧ 0 ≤ h ∧ h < 24 ∧ 0 ≤ mi ∧ mi < 60 ∧ 0 ≤ s ∧ s < 60 ∧ 0 ≤ us ∧ us < 1000000 then
    some ⟨y.toNat, mo.toNat, d.toNat, h.toNat, mi.toNat, s.toNat, us.toNat, some (offMin * 60000000)⟩
  else none

/-- the part of `DateTime.fromString` after `nativeString` -/
def dtParse (s : Bytes) : Option DT :=
  match s with
  | [y0, y1, y2, y3, _, m0, m1, _, d0, d1, _, h0, h1, _, i0, i1, _, s0, s1, _,
     u0, u1, u2, u3, u4, u5, sg, a0, a1, _, b0, b1] => do
    let y ← pyInt [y0, y1, y2, y3]
    let mo ← pyInt [m0, m1]
    let d ← pyInt [d0, d1]
    let h ← pyInt [h0, h1]
    let mi ← pyInt [i0, i1]
    let se ← pyInt [s0, s1]
    let us ← pyInt [u0, u1, u2, u3, u4, u5]
    let oh ← pyInt [a0, a1]
    let om ← pyInt [b0, b1]
    let offMin ← if sg == 45 then some (-oh * 60 + -om) else if sg == 43 then some (oh * 60 + om) else none
    mkDateTime y mo d h mi se us offMin
  | _ => none

/-- `DateTime.fromString` -/
def dtFromString (s : Bytes) : Except ArgErr DT :=
  if s.any (fun b => b ≥ 128) then .error .unicodeDecodeError
  else match dtParse s with
    | some d => .ok d
    | none => .error .valueError

/-! ### Decimal -/

/-- `decimal.Decimal.as_tuple()` -/
inductive Dec where
  | fin (neg : Bool) (coeff : Nat) (exp : Int)
  | inf (neg : Bool)
  | nan (neg : Bool) (signaling : Bool) (payload : Nat)
  deriving Repr, DecidableEq

def signStr (neg : Bool) : Bytes := if neg then [45] else []
def zeros (n : Nat) : Bytes := List.replicate n 48

/-- `"%+d" % x` -/
def fmtPlusD (x : Int) : Bytes := (if x < 0 then 45 else 43) :: natToDec x.natAbs

def bInfinity : Bytes := [73, 110, 102, 105, 110, 105, 116, 121]     -- "Infinity"
def bNaN : Bytes := [78, 97, 78]                                     -- "NaN"
def bsNaN : Bytes := [115, 78, 97, 78]                               -- "sNaN"

/-- `str(d)` (`Decimal.__str__`, scientific notation, `capitals = 1`) -/
def decToString : Dec → Bytes
  | .inf neg => signStr neg ++ bInfinity
  | .nan neg sig p => signStr neg ++ (if sig then bsNaN else bNaN) ++ (if p = 0 then [] else natToDec p)
  | .fin neg c e =>
    let ds := natToDec c
    let n : Int := ds.length
    let leftdigits : Int := e + n
    let dotplace : Int := if e ≤ 0 ∧ leftdigits > -6 then leftdigits else 1
    let intpart : Bytes :=
      if dotplace ≤ 0 then [48]
      else if dotplace ≥ n then ds ++ zeros (dotplace - n).toNat
      else ds.take dotplace.toNat
    let fracpart : Bytes :=
      if dotplace ≤ 0 then 46 :: (zeros (-dotplace).toNat ++ ds)
      else if dotplace ≥ n then []
      else 46 :: ds.drop dotplace.toNat
    let exp : Bytes := if leftdigits = dotplace then [] else 69 :: fmtPlusD (leftdigits - dotplace)
    signStr neg ++ intpart ++ fracpart ++ exp

/-- `str.isspace` on ASCII: `Py_ISSPACE` plus the separators FS GS RS US -/
def isSpaceStr (b : UInt8) : Bool := isSpace b || (28 ≤ b && b ≤ 31)

def lstripStr : Bytes → Bytes
  | [] => []
  | b :: bs => if isSpaceStr b then lstripStr bs else b :: bs

def rstripStr : Bytes → Bytes
  | [] => []
  | b :: bs => match rstripStr bs with
    | [] => if isSpaceStr b then [] else [b]
    | r => b :: r

def lowerByte (b : UInt8) : UInt8 := if 65 ≤ b && b ≤ 90 then b + 32 else b

/-- does `s` start with the (lower-case) literal, ignoring case?  the rest if so -/
def ciPrefix : Bytes → Bytes → Option Bytes
  | [], s => some s
  | _ :: _, [] => none
  | l :: ls, b :: bs => if lowerByte b == l then ciPrefix ls bs else none

def allDigits (s : Bytes) : Bool := s.all isDigit

/-- the exponent after `E`: `[+-]?digits+` -/
def parseExp (s : Bytes) : Option Int :=
  match s with
  | 43 :: ds => if !ds.isEmpty && allDigits ds then some (Int.ofNat (digitsVal 0 ds)) else none
  | 45 :: ds => if !ds.isEmpty && allDigits ds then some (-(Int.ofNat (digitsVal 0 ds))) else none
  | ds => if !ds.isEmpty && allDigits ds then some (Int.ofNat (digitsVal 0 ds)) else none

/-- `digits[.digits][E[±]digits]` with at least one digit in the coefficient -/
def parseNumber (neg : Bool) (s : Bytes) : Option Dec :=
  let ip := s.takeWhile isDigit
  let r1 := s.dropWhile isDigit
  let fp := match r1 with
    | 46 :: r => r.takeWhile isDigit
    | _ => []
  let r2 := match r1 with
    | 46 :: r => r.dropWhile isDigit
    | _ => r1
  if ip.length + fp.length = 0 then none
  else match r2 with
    | [] => some (.fin neg (digitsVal 0 (ip ++ fp)) (-(Int.ofNat fp.length)))
    | e :: r3 =>
      if e == 69 || e == 101 then
        (parseExp r3).map fun x => .fin neg (digitsVal 0 (ip ++ fp)) (x - Int.ofNat fp.length)
      else none

def parseDecBody (neg : Bool) (s : Bytes) : Option Dec :=
  match ciPrefix [110, 97, 110] s with                                  -- "nan"
  | some r => if allDigits r then some (.nan neg false (digitsVal 0 r)) else none
  | none =>
    match ciPrefix [115, 110, 97, 110] s with                           -- "snan"
    | some r => if allDigits r then some (.nan neg true (digitsVal 0 r)) else none
    | none =>
      match ciPrefix [105, 110, 102] s with                             -- "inf"
      | some r => if r.isEmpty || ciPrefix [105, 110, 105, 116, 121] r == some [] then some (.inf neg) else none
      | none => parseNumber neg s

/-- `decimal.Decimal(text)` for ASCII text; `none` = `InvalidOperation`.  Exponents beyond
    libmpdec's ±999999999999999999 (refused by the real code) are outside the model. -/
def pyDecimal (s : Bytes) : Option Dec :=
  match (rstripStr (lstripStr s)).filter (fun b => b != 95) with
  | 45 :: r => parseDecBody true r
  | 43 :: r => parseDecBody false r
  | r => parseDecBody false r

/-- `Decimal.fromString` -/
def decFromString (s : Bytes) : Except ArgErr Dec :=
  if s.any (fun b => b ≥ 128) then .error .unicodeDecodeError
  else match pyDecimal s with
    | some d => .ok d
    | none => .error .invalidOperation

/-! ### Float: `str(float)` / `float(bytes)` are a parameter -/

structure FloatCodec where
  /-- `float` values (NaNs identified) -/
  F : Type
  /-- `str(x).encode("ascii")` -/
  repr : F → Bytes
  /-- `float(s)`; `none` = `ValueError` -/
  parse : Bytes → Option F

/-- the CPython guarantee: `float(repr(x)) == x` (NaN ↦ NaN) -/
def FloatCodec.RoundTrips (C : FloatCodec) : Prop := ∀ x, C.parse (C.repr x) = some x

/-- What the model takes from the platform instead of transcribing it: the float codec and
    `os.path.abspath` on text (used by `FilePath.__init__`; depends on the working directory). -/
structure Ext where
  float : FloatCodec
  /-- `os.path.abspath(text)` -/
  abspath : List Nat → List Nat

/-- `abspath(abspath(p)) == abspath(p)`: normalising a normalised absolute path changes nothing -/
def Ext.AbspathIdempotent (X : Ext) : Prop := ∀ p, X.abspath (X.abspath p) = X.abspath p

/-! ### AmpList framing -/

def boxErr : Err → ArgErr
  | .tooLong => .tooLong
  | .emptyKey => .valueError
  | .noEmptyBoxes => .valueError      -- not raised by `serialize`

/-- `b"".join(box.serialize() for box in boxes)`, the boxes being computed row by row -/
def ampListToString {ρ : Type} (toBox : ρ → Except ArgErr Box) : List ρ → Except ArgErr Bytes
  | [] => .ok []
  | r :: rs =>
    match toBox r with
    | .error e => .error e
    | .ok b => match serialize b with
      | .error e => .error (boxErr e)
      | .ok w => match ampListToString toBox rs with
        | .error e => .error e
        | .ok ws => .ok (w ++ ws)

/-- `parseString(data)` as `AmpList.fromStringProto` sees it: `lengthLimitExceeded` calls
    `self.transport.loseConnection()` on a `_ParserHelper`, which has no such attribute -/
def parseStringChecked (data : Bytes) : Except ArgErr (List Box) :=
  let p := receive [data]
  if p.exceeded then .error .attributeError else .ok p.core.received

def ampListFromString {ρ : Type} (fromBox : Box → Except ArgErr ρ) (s : Bytes) : Except ArgErr (List ρ) :=
  match parseStringChecked s with
  | .error e => .error e
  | .ok boxes => mapExcept fromBox boxes

/-! ### the modelled argument types as one family -/

mutual
inductive Ty where
  | int | str | uni | bool | float | dec | dt | path
  | list (t : Ty)
  | amplist (s : Schema)
/-- `AmpList.subargs`: `(name, argument)` pairs, `optional` being an attribute of the argument -/
inductive Schema where
  | nil
  | cons (name : Bytes) (optional : Bool) (t : Ty) (rest : Schema)
end

def Schema.names : Schema → List Bytes
  | .nil => []
  | .cons n _ _ rest => n :: rest.names

mutual
/-- Argument types the real classes support: the element type of a `ListOf` "must be implemented
    using only the `fromString` and `toString` methods" (its docstring) — `AmpList` only has
    `toStringProto`/`fromStringProto`, so `ListOf(AmpList(…))` is excluded (it raises `TypeError`
    on the `None` that `Argument.toString` returns); the names of a schema are distinct. -/
def Ty.supported : Ty → Bool
  | .list (.amplist _) => false
  | .list t => t.supported
  | .amplist s => decide s.names.Nodup && s.supported
  | _ => true
def Schema.supported : Schema → Bool
  | .nil => true
  | .cons _ _ t rest => t.supported && rest.supported
end

mutual
/-- Python values of an argument type -/
def Val (X : Ext) : Ty → Type
  | .int => Int
  | .str => Bytes
  | .uni => List Nat
  | .bool => Bool
  | .float => X.float.F
  | .dec => Dec
  | .dt => DT
  | .path => List Nat
  | .list t => List (Val X t)
  | .amplist s => List (Row X s)
/-- one element of an `AmpList` value: the dict's values in schema order (`None` allowed for
    optional arguments only) -/
def Row (X : Ext) : Schema → Type
  | .nil => Unit
  | .cons _ true t rest => Option (Val X t) × Row X rest
  | .cons _ false t rest => Val X t × Row X rest
end

mutual
/-- `<Argument>.toStringProto(v, proto)` (= `toString(v)` for every type but `AmpList`) -/
def toString (X : Ext) : (t : Ty) → Val X t → Except ArgErr Bytes
  | .int, v => .ok (intToString v)
  | .str, v => .ok v
  | .uni, v => match utf8Encode v with
    | some b => .ok b
    | none => .error .unicodeEncodeError
  | .bool, v => .ok (boolToString v)
  | .float, v => .ok (X.float.repr v)
  | .dec, v => .ok (decToString v)
  | .dt, v => dtToString v
  | .path, v => match utf8Encode v with
    | some b => .ok b
    | none => .error .unicodeEncodeError
  | .list t, v => listToString (toString X t) v
  | .amplist s, v => ampListToString (rowToBox X s) v
/-- `_objectsToStrings(objects, subargs, Box(), proto)`: `toBox` of every argument in order -/
def rowToBox (X : Ext) : (s : Schema) → Row X s → Except ArgErr Box
  | .nil, _ => .ok []
  | .cons _ true _ rest, (none, r) => rowToBox X rest r
  | .cons name true t rest, (some v, r) =>
    match toString X t v with
    | .error e => .error e
    | .ok w => match rowToBox X rest r with
      | .error e => .error e
      | .ok b => .ok ((name, w) :: b)
  | .cons name false t rest, (v, r) =>
    match toString X t v with
    | .error e => .error e
    | .ok w => match rowToBox X rest r with
      | .error e => .error e
      | .ok b => .ok ((name, w) :: b)
end

mutual
/-- `<Argument>.fromStringProto(s, proto)` (= `fromString(s)` for every type but `AmpList`) -/
def fromString (X : Ext) : (t : Ty) → Bytes → Except ArgErr (Val X t)
  | .int, s => intFromString s
  | .str, s => .ok s
  | .uni, s => match utf8Decode s with
    | some v => .ok v
    | none => .error .unicodeDecodeError
  | .bool, s => boolFromString s
  | .float, s => match X.float.parse s with
    | some v => .ok v
    | none => .error .valueError
  | .dec, s => decFromString s
  | .dt, s => dtFromString s
  | .path, s => match utf8Decode s with
    | some v => .ok (X.abspath v)
    | none => .error .unicodeDecodeError
  | .list t, s => listFromString (fromString X t) s
  | .amplist sch, s => ampListFromString (rowFromBox X sch) s
/-- `_stringsToObjects(box, subargs, proto)`: `fromBox` of every argument in order -/
def rowFromBox (X : Ext) : (s : Schema) → Box → Except ArgErr (Row X s)
  | .nil, _ => .ok ()
  | .cons name true t rest, b =>
    match b.lookup name with
    | none => match rowFromBox X rest b with
      | .error e => .error e
      | .ok r => .ok (none, r)
    | some w => match fromString X t w with
      | .error e => .error e
      | .ok v => match rowFromBox X rest b with
        | .error e => .error e
        | .ok r => .ok (some v, r)
  | .cons name false t rest, b =>
    match b.lookup name with
    | none => .error .keyError
    | some w => match fromString X t w with
      | .error e => .error e
      | .ok v => match rowFromBox X rest b with
        | .error e => .error e
        | .ok r => .ok (v, r)
end

end Twisted.Amp.Args
