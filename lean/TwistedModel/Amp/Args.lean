import TwistedModel.Amp.Box
/-
Model of the AMP argument types that are modelled in Lean (C30), transcribing from
`twisted/protocols/amp.py`:
  * `Integer.toString` (`b"%d" % (n,)`) / `Integer.fromString = int`   → `intToString` / `pyInt`
    (`int(bytes)`: optional surrounding ASCII whitespace, one sign, decimal digits with single
    underscores between digits; anything else `ValueError`)
  * `String.toString/fromString` (identity)
  * `Unicode.toString/fromString` (`str.encode("utf-8")` / `bytes.decode("utf-8")`, strict)
                                                                       → `utf8Encode` / `utf8Decode`
  * `Boolean.toString` (truthiness → `True`/`False`) / `fromString` (exact match else `TypeError`)
  * `ListOf.toString` (`pack("!H", len(s)) + s` per element; `struct.error` above 65535) /
    `ListOf.fromString` (a bare `Int16StringReceiver` with `MAX_LENGTH = 99999` collecting
    strings, trailing incomplete data silently dropped, then `elementType.fromString` on each).
`Float`, `Decimal`, `DateTime`, `Path`, `AmpList` are not modelled here (differential testing
in `harness/corr/C30.py` only; `AmpList`'s framing is `Box.parseString ∘ serialize`).

Text (`str`) is a list of code points (`Nat`); code points ≥ 0x110000 do not exist in Python.
-/
namespace Twisted.Amp.Args
open Twisted.Amp.Box

inductive ArgErr where
  | valueError | typeError | unicodeEncodeError | unicodeDecodeError | structError
  deriving Repr, DecidableEq

/-! ### Integer -/

def digitByte (d : Nat) : UInt8 := UInt8.ofNat (48 + d)

/-- decimal digits of a natural number, most significant first -/
def natToDec (n : Nat) : Bytes :=
  if n < 10 then [digitByte n] else natToDec (n / 10) ++ [digitByte (n % 10)]
termination_by n
decreasing_by omega

/-- `b"%d" % (i,)` -/
def intToString : Int → Bytes
  | .ofNat n => natToDec n
  | .negSucc n => 45 :: natToDec (n + 1)

/-- `Py_ISSPACE`: space, `\t \n \v \f \r` -/
def isSpace (b : UInt8) : Bool := b == 32 || (9 ≤ b && b ≤ 13)
def isDigit (b : UInt8) : Bool := 48 ≤ b && b ≤ 57

def lstrip : Bytes → Bytes
  | [] => []
  | b :: bs => if isSpace b then lstrip bs else b :: bs

def rstrip : Bytes → Bytes
  | [] => []
  | b :: bs => match rstrip bs with
    | [] => if isSpace b then [] else [b]
    | r => b :: r

/-- digits with single underscores strictly between digits; `prev` = previous byte was a digit -/
def parseDigits : Bytes → Nat → Bool → Option Nat
  | [], acc, prev => if prev then some acc else none
  | b :: bs, acc, prev =>
    if isDigit b then parseDigits bs (acc * 10 + (b.toNat - 48)) true
    else if b == 95 && prev then
      match bs with
      | [] => none
      | b' :: _ => if isDigit b' then parseDigits bs acc false else none
    else none

/-- `int(s)` for `bytes` `s`, base 10; `none` = `ValueError` -/
def pyInt (s : Bytes) : Option Int :=
  match rstrip (lstrip s) with
  | 45 :: ds => (parseDigits ds 0 false).map fun n => -(Int.ofNat n)
  | 43 :: ds => (parseDigits ds 0 false).map Int.ofNat
  | ds => (parseDigits ds 0 false).map Int.ofNat

def intFromString (s : Bytes) : Except ArgErr Int :=
  match pyInt s with
  | some i => .ok i
  | none => .error .valueError

/-! ### Unicode (UTF-8) -/

def isSurrogate (c : Nat) : Bool := 0xD800 ≤ c && c < 0xE000

/-- UTF-8 of one code point; `none` for a surrogate (`UnicodeEncodeError`) -/
def utf8EncodeChar (c : Nat) : Option Bytes :=
  if c < 0x80 then some [UInt8.ofNat c]
  else if c < 0x800 then some [UInt8.ofNat (0xC0 + c / 64), UInt8.ofNat (0x80 + c % 64)]
  else if c < 0x10000 then
    if isSurrogate c then none
    else some [UInt8.ofNat (0xE0 + c / 4096), UInt8.ofNat (0x80 + c / 64 % 64), UInt8.ofNat (0x80 + c % 64)]
  else if c < 0x110000 then
    some [UInt8.ofNat (0xF0 + c / 262144), UInt8.ofNat (0x80 + c / 4096 % 64),
          UInt8.ofNat (0x80 + c / 64 % 64), UInt8.ofNat (0x80 + c % 64)]
  else none

/-- `text.encode("utf-8")` -/
def utf8Encode : List Nat → Option Bytes
  | [] => some []
  | c :: cs => match utf8EncodeChar c, utf8Encode cs with
    | some a, some b => some (a ++ b)
    | _, _ => none

def isCont (b : UInt8) : Bool := 0x80 ≤ b && b < 0xC0

/-- `data.decode("utf-8")` (strict): `none` = `UnicodeDecodeError`.  A sequence is accepted
    iff its continuation bytes are `10xxxxxx`, the value is not encodable in fewer bytes, is
    not a surrogate and is below 0x110000 — the same set CPython's decoder accepts. -/
def utf8Decode : Bytes → Option (List Nat)
  | [] => some []
  | b0 :: rest =>
    if b0 < 0x80 then (utf8Decode rest).map (b0.toNat :: ·)
    else if b0 < 0xC0 then none
    else if b0 < 0xE0 then
      match rest with
      | b1 :: rest' =>
        let c := (b0.toNat - 0xC0) * 64 + (b1.toNat - 0x80)
        if isCont b1 && 0x80 ≤ c then (utf8Decode rest').map (c :: ·) else none
      | _ => none
    else if b0 < 0xF0 then
      match rest with
      | b1 :: b2 :: rest' =>
        let c := (b0.toNat - 0xE0) * 4096 + (b1.toNat - 0x80) * 64 + (b2.toNat - 0x80)
        if isCont b1 && isCont b2 && 0x800 ≤ c && !isSurrogate c then (utf8Decode rest').map (c :: ·) else none
      | _ => none
    else if b0 < 0xF8 then
      match rest with
      | b1 :: b2 :: b3 :: rest' =>
        let c := (b0.toNat - 0xF0) * 262144 + (b1.toNat - 0x80) * 4096 + (b2.toNat - 0x80) * 64 + (b3.toNat - 0x80)
        if isCont b1 && isCont b2 && isCont b3 && 0x10000 ≤ c && c < 0x110000 then
          (utf8Decode rest').map (c :: ·) else none
      | _ => none
    else none

/-! ### Boolean -/

def bTrue : Bytes := [84, 114, 117, 101]          -- b"True"
def bFalse : Bytes := [70, 97, 108, 115, 101]     -- b"False"

def boolToString (b : Bool) : Bytes := if b then bTrue else bFalse

def boolFromString (s : Bytes) : Except ArgErr Bool :=
  if s = bTrue then .ok true else if s = bFalse then .ok false else .error .typeError

/-! ### ListOf -/

/-- `ListOf.toString` over already-or-not serialised elements -/
def listToString {α : Type} (enc : α → Except ArgErr Bytes) : List α → Except ArgErr Bytes
  | [] => .ok []
  | x :: xs =>
    match enc x with
    | .error e => .error e
    | .ok s =>
      if s.length > 65535 then .error .structError
      else match listToString enc xs with
        | .error e => .error e
        | .ok w => .ok (pack16 s.length ++ s ++ w)

/-- the bare `Int16StringReceiver()` of `ListOf.fromString`: `stringReceived = strings.append` -/
def listRecv : Recv (List Bytes) := ⟨fun _ => 99999, fun acc s => acc ++ [s]⟩

/-- the `strings` list after `parser.dataReceived(inString)` -/
def splitStrings (s : Bytes) : List Bytes := (loop listRecv [] s).1

def mapExcept {α β : Type} (f : α → Except ArgErr β) : List α → Except ArgErr (List β)
  | [] => .ok []
  | x :: xs =>
    match f x with
    | .error e => .error e
    | .ok y => match mapExcept f xs with
      | .error e => .error e
      | .ok ys => .ok (y :: ys)

def listFromString {α : Type} (dec : Bytes → Except ArgErr α) (s : Bytes) : Except ArgErr (List α) :=
  mapExcept dec (splitStrings s)

/-! ### the modelled argument types as one family -/

inductive Ty where
  | int | str | uni | bool
  | list (t : Ty)
  deriving Repr, DecidableEq

/-- Python values of an argument type -/
def Val : Ty → Type
  | .int => Int
  | .str => Bytes
  | .uni => List Nat
  | .bool => Bool
  | .list t => List (Val t)

/-- `<Argument>.toString(v)` -/
def toString : (t : Ty) → Val t → Except ArgErr Bytes
  | .int, v => .ok (intToString v)
  | .str, v => .ok v
  | .uni, v => match utf8Encode v with
    | some b => .ok b
    | none => .error .unicodeEncodeError
  | .bool, v => .ok (boolToString v)
  | .list t, v => listToString (toString t) v

/-- `<Argument>.fromString(s)` -/
def fromString : (t : Ty) → Bytes → Except ArgErr (Val t)
  | .int, s => intFromString s
  | .str, s => .ok s
  | .uni, s => match utf8Decode s with
    | some v => .ok v
    | none => .error .unicodeDecodeError
  | .bool, s => boolFromString s
  | .list t, s => listFromString (fromString t) s

end Twisted.Amp.Args
