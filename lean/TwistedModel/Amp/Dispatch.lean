import TwistedModel.Amp.Frame
/-!
Model of two connected `twisted.protocols.amp.AMP` peers (src/twisted/protocols/amp.py):

* `BoxDispatcher._sendBoxCommand` / `_nextTag` / `callRemote` + `Command._doCommand`
  (`sendBoxCommand`, `callRemote`): `_failAllReason` test first (→ `fail(reason)` / `None`),
  `_counter += 1`, `_ask` only when an answer is required, `boxSender.sendBox`
  (`ConnectionLost` when `transport is None`), `_outstandingRequests[tag] = Deferred()`;
* `BoxDispatcher.ampBoxReceived` → `_answerReceived` / `_errorReceived` (`replyReceived`:
  `_outstandingRequests.pop(tag)` — `KeyError` when absent —, `addErrback(unhandledError)`,
  fire; `_massageError`: declared codes → the declared class, `UNKNOWN` → `UnknownRemoteError`,
  `UNHANDLED` → `UnhandledCommand`) and `_commandReceived` / `dispatchCommand` /
  `CommandLocator._wrapWithSerialization.doit` (`commandReceived`, `respond`: `formatAnswer`,
  `formatError` — `QuitBox` for fatal and undeclared errors: send, then
  `transport.loseConnection()` —, `_safeEmit` swallowing `ConnectionLost`, and
  `addErrback(unhandledError)` when the command carried no `_ask`);
* `BoxDispatcher.failAllOutgoing` via `stopReceivingBoxes` via `BinaryBoxProtocol.connectionLost`,
  and `AMP.connectionLost` setting `transport = None` afterwards (`connectionLost`);
* `BinaryBoxProtocol.unhandledError` (`if self.transport is not None: loseConnection()`).

The network is two FIFO byte pipes.  A scheduler delivers any number of bytes at a time
(`deliver`: one `dataReceived` call; all boxes whose last byte is among them are dispatched, in
order, even if an earlier one made the receiver call `loseConnection`), and tells either side
at any moment that its connection is gone (`connectionLost`).  As with a real
`abstract.FileDescriptor`, a transport on which `loseConnection()` was called reads nothing
more but still accepts writes, and nothing is delivered after `connectionLost`; the bytes
addressed to such a side vanish.

User code is data: a call names the behaviour of its responder (`Beh`), whether an answer is
required, whether the caller's callback handles a failure, and the follow-up calls the callback
makes (synchronously, i.e. inside `_answerReceived` / `failAllOutgoing` / `callRemote`).  A
Deferred chain (`parseResponse`/`_massageError`, the user callback, `unhandledError`) runs
synchronously when the Deferred fires and is one step here.
-/
namespace Twisted.Amp.Dispatch
open Twisted.Amp

/-- the reason given to `connectionLost`: `ConnectionDone` or `ConnectionLost` -/
inductive Why where
  | done | lost
  deriving DecidableEq, Repr

/-- what the Deferred returned by `callRemote` fires with -/
inductive Outcome where
  /-- the parsed response `{"n": m}` -/
  | response (m : Nat)
  /-- the declared error class with description `m` -/
  | declared (m : Nat)
  /-- the declared fatal error class with description `m` -/
  | fatalDeclared (m : Nat)
  | unknownRemote
  | unhandledCommand
  /-- the very reason passed to this side's `connectionLost` -/
  | connLost (w : Why)
  deriving DecidableEq, Repr

/-- the Deferred returned by a `callRemote`, i.e. the user callback attached to it -/
structure Rec where
  id : Nat
  handled : Bool
  follow : List Beh
  deriving DecidableEq, Repr

inductive Ev where
  /-- the harness starts the next operation -/
  | sep
  /-- `callRemote` number `id` is made by `side` -/
  | called (id : Nat) (side : Bool) (beh : Beh) (wants : Bool)
  /-- `callRemote` returned `None` (`requiresAnswer = False`) -/
  | returnedNone (id : Nat)
  /-- the Deferred of call `id` fired -/
  | fired (id : Nat) (o : Outcome)
  /-- the responder for call `n` was invoked at `side` -/
  | invoked (side : Bool) (n : Nat) (beh : Beh)
  /-- the application fired the Deferred returned by the responder for call `n` -/
  | laterFired (n : Nat) (k : Kind)
  /-- `connectionLost(reason)` was delivered to `side` -/
  | lost (side : Bool) (w : Why)
  /-- `KeyError` out of `_outstandingRequests.pop` (escapes `dataReceived`) -/
  | keyError
  /-- `ConnectionLost` out of `sendBox` (escapes `callRemote`) -/
  | sendFailed
  deriving DecidableEq, Repr

structure Side where
  /-- `_counter` -/
  counter : Nat := 0
  /-- `_failAllReason` -/
  failReason : Option Why := none
  /-- `_outstandingRequests` (insertion order); `None` is `[]` together with `failReason = some _` -/
  pending : List (Nat × Rec) := []
  /-- `self.transport is None` -/
  transportNone : Bool := false
  /-- `transport.disconnecting` -/
  disconnecting : Bool := false
  /-- Deferreds returned by `later` responders and not fired yet: call number and `_ask` tag -/
  laters : List (Nat × Option Nat) := []
  /-- boxes written by this side whose last byte has not left the pipe yet -/
  out : List Box := []
  /-- bytes of the first box of `out` that have left the pipe already -/
  outDone : Nat := 0
  /-- every box this side ever wrote -/
  written : List Box := []
  deriving Repr

structure Net where
  a : Side := {}
  b : Side := {}
  nextId : Nat := 0
  log : List Ev := []
  /-- an exception escaped into the harness: the run is over -/
  halted : Bool := false
  deriving Repr

def Net.get (st : Net) (s : Bool) : Side := if s then st.b else st.a
def Net.set (st : Net) (s : Bool) (v : Side) : Net := if s then { st with b := v } else { st with a := v }

def logEv (st : Net) (e : Ev) : Net := { st with log := st.log ++ [e] }

/-- `transport.write(box.serialize())` -/
def write (st : Net) (s : Bool) (b : Box) : Net :=
  st.set s { st.get s with out := (st.get s).out ++ [b], written := (st.get s).written ++ [b] }

/-- `transport.loseConnection()` -/
def loseConnection (st : Net) (s : Bool) : Net :=
  st.set s { st.get s with disconnecting := true }

/-- `BinaryBoxProtocol.unhandledError` -/
def unhandledError (st : Net) (s : Bool) : Net :=
  if (st.get s).transportNone then st else loseConnection st s

/-- `_sendBoxCommand` past the `_failAllReason` test -/
def sendBoxCommand (st : Net) (s : Bool) (beh : Beh) (wants : Bool) (r : Rec) : Net :=
  if (st.get s).transportNone then
    { logEv (st.set s { st.get s with counter := (st.get s).counter + 1 }) .sendFailed with halted := true }
  else
    let tag := (st.get s).counter + 1
    let st := write st s (.ask (if wants then some tag else none) beh r.id)
    let st := st.set s { st.get s with
      counter := tag, pending := if wants then (st.get s).pending ++ [(tag, r)] else (st.get s).pending }
    if wants then st else logEv st (.returnedNone r.id)

/-- a follow-up call made from inside a callback: `callRemote`, answer required, with a callback
    that records the result and handles it -/
def callPlain (st : Net) (s : Bool) (beh : Beh) : Net :=
  let id := st.nextId
  let st := logEv { st with nextId := id + 1 } (.called id s beh true)
  match (st.get s).failReason with
  | some w => logEv st (.fired id (.connLost w))
  | none => sendBoxCommand st s beh true ⟨id, true, []⟩

/-- the Deferred of call `r` fires with `o`: the user callback records it and makes its follow-up calls -/
def fireUser (st : Net) (s : Bool) (r : Rec) (o : Outcome) : Net :=
  r.follow.foldl (fun st beh => callPlain st s beh) (logEv st (.fired r.id o))

/-- `d = callRemote(Cmd_beh, n=id); d.addBoth(callback)` -/
def callRemote (st : Net) (s : Bool) (beh : Beh) (wants handled : Bool) (follow : List Beh) : Net :=
  let id := st.nextId
  let st := logEv { st with nextId := id + 1 } (.called id s beh wants)
  match (st.get s).failReason with
  | some w =>
    if wants then fireUser st s ⟨id, handled, follow⟩ (.connLost w) else logEv st (.returnedNone id)
  | none => sendBoxCommand st s beh wants ⟨id, handled, follow⟩

/-- `dict.pop(tag)`; `none` = `KeyError` -/
def popTag (t : Nat) : List (Nat × Rec) → Option (Rec × List (Nat × Rec))
  | [] => none
  | p :: ps =>
    if p.1 = t then some (p.2, ps)
    else match popTag t ps with
      | none => none
      | some (x, rest) => some (x, p :: rest)

/-- `parseResponse` / `_errorReceived` + `_massageError` -/
def outcomeOf (k : Kind) (n : Nat) : Outcome :=
  match k with
  | .ok => .response n
  | .err => .declared n
  | .fatal => .fatalDeclared n
  | .unk => .unknownRemote
  | .unhandled => .unhandledCommand

/-- `_answerReceived` / `_errorReceived` -/
def replyReceived (st : Net) (s : Bool) (t : Nat) (k : Kind) (n : Nat) : Net :=
  match popTag t (st.get s).pending with
  | none => { logEv st .keyError with halted := true }
  | some (r, rest) =>
    let st := st.set s { st.get s with pending := rest }
    let st := fireUser st s r (outcomeOf k n)
    if k ≠ .ok ∧ r.handled = false then unhandledError st s else st

/-- `formatError` builds a `QuitBox` -/
def isQuit : Kind → Bool
  | .fatal | .unk => true
  | _ => false

/-- the responder's result is known: `formatAnswer`/`formatError` + `_safeEmit`, or (no `_ask`)
    `unhandledError` for a failure -/
def respond (st : Net) (s : Bool) (tag : Option Nat) (k : Kind) (n : Nat) : Net :=
  match tag with
  | some t =>
    if (st.get s).transportNone then st
    else
      let st := write st s (.reply t k n)
      if isQuit k then loseConnection st s else st
  | none => if k = .ok then st else unhandledError st s

/-- `_commandReceived` -/
def commandReceived (st : Net) (s : Bool) (tag : Option Nat) (beh : Beh) (n : Nat) : Net :=
  match beh with
  | .nores => respond st s tag .unhandled n
  | .later =>
    let st := logEv st (.invoked s n .later)
    st.set s { st.get s with laters := (st.get s).laters ++ [(n, tag)] }
  | .ok => respond (logEv st (.invoked s n .ok)) s tag .ok n
  | .err => respond (logEv st (.invoked s n .err)) s tag .err n
  | .fatal => respond (logEv st (.invoked s n .fatal)) s tag .fatal n
  | .unk => respond (logEv st (.invoked s n .unk)) s tag .unk n

/-- `ampBoxReceived` -/
def boxReceived (st : Net) (s : Bool) (b : Box) : Net :=
  if st.halted then st else
  match b with
  | .ask tag beh n => commandReceived st s tag beh n
  | .reply t k n => replyReceived st s t k n

/-- take `n` bytes out of a pipe: the boxes completed by them, what stays, and how many bytes
    of the first remaining box are gone -/
def consume : List Box → Nat → Nat → List Box × List Box × Nat
  | [], _, _ => ([], [], 0)
  | b :: bs, done, n =>
    if size b ≤ done + n then
      let r := consume bs 0 (done + n - size b)
      (b :: r.1, r.2)
    else ([], b :: bs, done + n)

/-- the network hands the next `n` bytes addressed to `s` over (one `dataReceived` call) -/
def deliver (st : Net) (s : Bool) (n : Nat) : Net :=
  let r := consume (st.get (!s)).out (st.get (!s)).outDone n
  let deaf := (st.get s).transportNone || (st.get s).disconnecting
  let st := st.set (!s) { st.get (!s) with out := r.2.1, outDone := r.2.2 }
  if deaf then st else r.1.foldl (fun st b => boxReceived st s b) st

/-- the application fires the `j`-th pending responder Deferred of `s` -/
def fire (st : Net) (s : Bool) (j : Nat) (k : Kind) : Net :=
  match (st.get s).laters[j]? with
  | none => st
  | some (n, tag) =>
    let st := st.set s { st.get s with laters := (st.get s).laters.eraseIdx j }
    respond (logEv st (.laterFired n k)) s tag k n

/-- `AMP.connectionLost(reason)` -/
def connectionLost (st : Net) (s : Bool) (w : Why) : Net :=
  match (st.get s).failReason with
  | some _ => st
  | none =>
    let todo := (st.get s).pending
    let st := logEv st (.lost s w)
    let st := st.set s { st.get s with failReason := some w, pending := [] }
    let st := todo.foldl (fun st p => fireUser st s p.2 (.connLost w)) st
    st.set s { st.get s with transportNone := true }

inductive Op where
  | call (s : Bool) (beh : Beh) (wants handled : Bool) (follow : List Beh)
  | fire (s : Bool) (j : Nat) (k : Kind)
  | dlv (s : Bool) (n : Nat)
  | lost (s : Bool) (w : Why)
  deriving DecidableEq, Repr

def apply (st : Net) : Op → Net
  | .call s beh wants handled follow => callRemote st s beh wants handled follow
  | .fire s j k => fire st s j k
  | .dlv s n => deliver st s n
  | .lost s w => connectionLost st s w

/-- one operation of the schedule (nothing happens once an exception has escaped) -/
def step (st : Net) (op : Op) : Net :=
  if st.halted then st else apply (logEv st .sep) op

def run (ops : List Op) : Net := ops.foldl step {}

end Twisted.Amp.Dispatch
