import TwistedModel.Dns.Wire
/-
Model of the two entry points through which bytes from the network reach `Message.fromStr`
(`src/twisted/names/dns.py`, C33):

  `DNSProtocol.dataReceived` (TCP: `self.buffer += data`, the `while self.buffer:` loop, the 2-byte
  `!H` length prefix kept in `self.length`, `myChunk = self.buffer[:self.length]`,
  `m.fromStr(myChunk)` NOT wrapped in a `try`, the `liveMessages[m.id]` lookup that hands the
  message either to the pending query's `Deferred` or to `controller.messageReceived`, then
  `self.buffer = self.buffer[self.length:]; self.length = None`),

  `DNSDatagramProtocol.datagramReceived` (UDP: `m.fromStr(data)` inside
  `try … except EOFError … except ValueError … except BaseException: log.err(…)`, then
  `liveMessages` / `resends` / `controller.messageReceived`).

Conventions.
* The protocol instance is the record of the attributes the methods read and write
  (`length`, `buffer`, the key set of `liveMessages`); a call returns the new record, what was
  handed over during the call (in order) and the exception that left the method, if any.  An
  exception leaves `dataReceived` in the middle of the loop: the attributes keep the values they had
  at that point (the chunk is still in `buffer`, `length` is still set).
* `struct.unpack("!H", self.buffer[:2])` keeps its failure mode (`struct.error` when the slice is
  not 2 bytes long) — `TwistedProps.C33` shows that the guard makes it unreachable.
* The controller's `messageReceived`, a query's `Deferred` callbacks (whose exceptions
  `dataReceived`/`datagramReceived` catch and log) and `canceller.cancel()` are outside the model:
  they are the consumers of the `Delivery` events.
-/
namespace Twisted.Dns.Proto
open Twisted.Py Twisted.Dns.Wire

/-- what a protocol does with a decoded message -/
inductive Delivery where
  | controller (m : Msg)     -- `self.controller.messageReceived(m, self[, addr])`
  | query (m : Msg)          -- `d.callback(m)` of the pending query with that id (entry deleted, timeout cancelled)
  deriving Repr, DecidableEq

/-- the `liveMessages[m.id]` lookup common to both protocols; `live` = the dict's keys -/
def deliver (m : Msg) (live : List Nat) : Delivery × List Nat :=
  if live.contains m.id then (.query m, live.erase m.id) else (.controller m, live)

/-! ### `DNSProtocol` (TCP) -/

structure Tcp where
  length : Option Nat        -- `self.length`
  buffer : Bytes             -- `self.buffer`
  live : List Nat            -- `self.liveMessages.keys()`
  deriving Repr, DecidableEq

/-- a fresh connection: class attributes `length = None`, `buffer = b""` -/
def Tcp.init (live : List Nat) : Tcp := ⟨none, [], live⟩

structure TcpResult where
  state : Tcp
  delivered : List Delivery
  raised : Option Err
  deriving Repr, DecidableEq

/-- one pass through the body of `while self.buffer:` -/
inductive Step where
  | brk (length : Option Nat) (buffer : Bytes)                -- `else: break`
  | raise (length : Option Nat) (buffer : Bytes) (e : Err)    -- an exception leaves the method here
  | cont (d : Delivery) (buffer : Bytes) (live : List Nat)    -- message handed over, `self.length = None`
  deriving Repr, DecidableEq

/-- the second `if` of the loop body -/
def chunkStep (length : Option Nat) (buffer : Bytes) (live : List Nat) : Step :=
  match length with
  | some L =>
    if L ≤ buffer.length then                         -- `self.length is not None and len(self.buffer) >= self.length`
      match decodeMsg (buffer.take L) with            -- `m.fromStr(self.buffer[:self.length])`
      | .error e => .raise length buffer e
      | .ok m =>
        let dl := deliver m live
        .cont dl.1 (buffer.drop L) dl.2               -- `self.buffer = self.buffer[self.length:]`
    else .brk length buffer
  | none => .brk length buffer

def tcpStep (length : Option Nat) (buffer : Bytes) (live : List Nat) : Step :=
  match length with
  | none =>
    if 2 ≤ buffer.length then                         -- `self.length is None and len(self.buffer) >= 2`
      match unpackBE 2 (buffer.take 2) with           -- `struct.unpack("!H", self.buffer[:2])[0]`
      | .error e => .raise none buffer e
      | .ok L => chunkStep (some L) (buffer.drop 2) live
    else chunkStep none buffer live
  | some L => chunkStep (some L) buffer live

theorem chunkStep_cont {length : Option Nat} {buffer : Bytes} {live : List Nat} {d : Delivery} {b' : Bytes} {l' : List Nat}
    (h : chunkStep length buffer live = .cont d b' l') : b'.length ≤ buffer.length := by
  unfold chunkStep at h
  split at h
  · split at h
    · split at h
      · cases h
      · cases h; simp
    · cases h
  · cases h

/-- a pass that goes round the loop again has consumed a length prefix or leaves `length` unset -/
theorem tcpStep_cont {length : Option Nat} {buffer : Bytes} {live : List Nat} {d : Delivery} {b' : Bytes} {l' : List Nat}
    (h : tcpStep length buffer live = .cont d b' l') :
    2 * b'.length < 2 * buffer.length + (if length.isSome then 1 else 0) := by
  unfold tcpStep at h
  split at h
  · split at h
    · split at h
      · cases h
      · have := chunkStep_cont h
        simp only [List.length_drop] at this
        simp; omega
    · unfold chunkStep at h; cases h
  · have := chunkStep_cont h
    simp; omega

set_option linter.unusedVariables false in
/-- the `while self.buffer:` loop -/
def tcpLoop (length : Option Nat) (buffer : Bytes) (live : List Nat) : TcpResult :=
  if buffer = [] then ⟨⟨length, buffer, live⟩, [], none⟩ else
  match hstep : tcpStep length buffer live with
  | .brk l b => ⟨⟨l, b, live⟩, [], none⟩
  | .raise l b e => ⟨⟨l, b, live⟩, [], some e⟩
  | .cont d b' live' =>
    let r := tcpLoop none b' live'
    { r with delivered := d :: r.delivered }
termination_by 2 * buffer.length + (if length.isSome then 1 else 0)
decreasing_by
  have := tcpStep_cont hstep
  simp at this ⊢
  omega

/-- `DNSProtocol.dataReceived(data)` -/
def Tcp.dataReceived (s : Tcp) (data : Bytes) : TcpResult :=
  tcpLoop s.length (s.buffer ++ data) s.live        -- `self.buffer += data`

/-- the transport delivers the segments one after the other; an exception out of `dataReceived`
    makes the reactor drop the connection (`log.err` + `connectionLost`): nothing more is delivered -/
def Tcp.feed (s : Tcp) : List Bytes → TcpResult
  | [] => ⟨s, [], none⟩
  | c :: cs =>
    let r := s.dataReceived c
    match r.raised with
    | some _ => r
    | none =>
      let r' := Tcp.feed r.state cs
      { r' with delivered := r.delivered ++ r'.delivered }

/-! ### `DNSDatagramProtocol` (UDP) -/

inductive UdpOutcome where
  | truncated                 -- `except EOFError`: "Truncated packet", dropped
  | invalid                   -- `except ValueError`: "Invalid packet", dropped
  | unexpected (e : Err)      -- `except BaseException`: `log.err(…, "Unexpected decoding error")`, dropped
  | query (m : Msg)           -- `m.id in self.liveMessages`: `d.callback(m)`
  | controller (m : Msg)      -- `self.controller.messageReceived(m, self, addr)`
  | resend (m : Msg)          -- `m.id in self.resends`: duplicate of an answered query, ignored
  deriving Repr, DecidableEq

/-- `DNSDatagramProtocol.datagramReceived(data, addr)`; no exception of the decoder leaves it -/
def datagramReceived (live resends : List Nat) (data : Bytes) : UdpOutcome :=
  match decodeMsg data with
  | .error .eof => .truncated
  | .error .value => .invalid
  | .error e => .unexpected e
  | .ok m =>
    if live.contains m.id then .query m
    else if resends.contains m.id then .resend m
    else .controller m

end Twisted.Dns.Proto
