import TwistedModel.Dns.Wire
/-
Canonical one-line text for DNS messages (driver glue shared by C32 and C33; no model content).

  msg  := hdr SP nq SP nan SP nns SP nadd (SP item)*
  hdr  := id,answer,opCode,recDes,recAv,auth,rCode,trunc,maxSize,authenticData,checkingDisabled
  item := q:<name>:<type>:<cls> | r:<name>:<type>:<cls>:<ttl>:<k|u|->:<vals>
  vals := val(,val)* | _            val := n<dec> | i<dec> | b<hex> | l[<hex>(/<hex>)*] | a<dec>/<hex>/<hex>
  bytes are hex, `-` = empty
-/
namespace Twisted.Dns.Text
open Twisted.Py Twisted.Dns.Wire

def showErr : Err → String
  | .eof => "!raised EOFError"
  | .value => "!raised ValueError"
  | .struct => "!raised error"
  | .type => "!raised TypeError"
  | .other => "!raised Exception"

def showVal : Val → String
  | .nat n => s!"n{n}"
  | .int i => s!"i{i}"
  | .bytes b => "b" ++ hex b
  | .strs l => "l" ++ "/".intercalate (l.map hex)
  | .a6 p s n => s!"a{p}/{hex s}/{hex n}"

def showVals (vs : List Val) : String := if vs.isEmpty then "_" else ",".intercalate (vs.map showVal)

def showQuery (q : Query) : String := s!"q:{hex q.name}:{q.type}:{q.cls}"

def showRR (r : RR) : String :=
  match r.payload with
  | none => s!"r:{hex r.name}:{r.type}:{r.cls}:{r.ttl}:-:_"
  | some p => s!"r:{hex r.name}:{r.type}:{r.cls}:{r.ttl}:{if p.unknown then "u" else "k"}:{showVals p.vals}"

def showSections (qs : List Query) (an ns ad : List RR) : String :=
  " ".intercalate ([s!"{qs.length}", s!"{an.length}", s!"{ns.length}", s!"{ad.length}"]
    ++ qs.map showQuery ++ an.map showRR ++ ns.map showRR ++ ad.map showRR)

def showMsg (m : Msg) : String :=
  s!"{m.id},{m.answer},{m.opCode},{m.recDes},{m.recAv},{m.auth},{m.rCode},{m.trunc},{m.maxSize},{m.authenticData},{m.checkingDisabled} "
    ++ showSections m.queries m.answers m.authority m.additional

def showEMsg (m : EMsg) : String :=
  let v := match m.ednsVersion with | none => "-1" | some v => toString v
  s!"{m.id},{m.answer},{m.opCode},{m.recDes},{m.recAv},{m.auth},{m.rCode},{m.trunc},{m.maxSize},{m.authenticData},{m.checkingDisabled},{v},{m.dnssecOK} "
    ++ showSections m.queries m.answers m.authority m.additional

def parseVal (s : String) : Option Val :=
  match s.toList with
  | 'n' :: r => (String.ofList r).toNat?.map Val.nat
  | 'i' :: r => (String.ofList r).toInt?.map Val.int
  | 'b' :: r => (unhex (String.ofList r)).map Val.bytes
  | 'l' :: r => if r.isEmpty then some (.strs []) else (((String.ofList r).splitOn "/").mapM unhex).map Val.strs
  | 'a' :: r =>
    match (String.ofList r).splitOn "/" with
    | [p, s, n] => do
        let p ← p.toNat?
        let s ← unhex s
        let n ← unhex n
        pure (.a6 p s n)
    | _ => none
  | _ => none

def parseVals (s : String) : Option (List Val) :=
  if s = "_" then some [] else (s.splitOn ",").mapM parseVal

def parseQuery (s : String) : Option Query :=
  match s.splitOn ":" with
  | ["q", n, t, c] => do
      let n ← unhex n
      let t ← t.toNat?
      let c ← c.toNat?
      pure ⟨n, t, c⟩
  | _ => none

def parseRR (s : String) : Option RR :=
  match s.splitOn ":" with
  | ["r", n, t, c, ttl, pk, vals] => do
      let n ← unhex n
      let t ← t.toNat?
      let c ← c.toNat?
      let ttl ← ttl.toNat?
      let vs ← parseVals vals
      match pk with
      | "-" => if vs.isEmpty then pure ⟨n, t, c, ttl, none⟩ else none
      | "k" => pure ⟨n, t, c, ttl, some ⟨false, vs⟩⟩
      | "u" => pure ⟨n, t, c, ttl, some ⟨true, vs⟩⟩
      | _ => none
  | _ => none

structure Sections where
  queries : List Query
  answers : List RR
  authority : List RR
  additional : List RR

def parseSections (toks : List String) : Option Sections :=
  match toks with
  | nq :: nan :: nns :: nad :: items => do
      let nq ← nq.toNat?
      let nan ← nan.toNat?
      let nns ← nns.toNat?
      let nad ← nad.toNat?
      if items.length ≠ nq + nan + nns + nad then none else
      let qs ← (items.take nq).mapM parseQuery
      let an ← ((items.drop nq).take nan).mapM parseRR
      let ns ← ((items.drop (nq + nan)).take nns).mapM parseRR
      let ad ← ((items.drop (nq + nan + nns)).take nad).mapM parseRR
      pure ⟨qs, an, ns, ad⟩
  | _ => none

def parseMsg (toks : List String) : Option Msg :=
  match toks with
  | hdr :: rest => do
      let h ← (hdr.splitOn ",").mapM String.toNat?
      let s ← parseSections rest
      match h with
      | [id, answer, opCode, recDes, recAv, auth, rCode, trunc, maxSize, ad, cd] =>
        pure { id := id, answer := answer, opCode := opCode, recDes := recDes, recAv := recAv, auth := auth, rCode := rCode, trunc := trunc, maxSize := maxSize, authenticData := ad, checkingDisabled := cd, queries := s.queries, answers := s.answers, authority := s.authority, additional := s.additional }
      | _ => none
  | _ => none

def parseEMsg (toks : List String) : Option EMsg :=
  match toks with
  | hdr :: rest => do
      let h ← (hdr.splitOn ",").mapM String.toInt?
      let s ← parseSections rest
      match h with
      | [id, answer, opCode, recDes, recAv, auth, rCode, trunc, maxSize, ad, cd, ver, dok] =>
        if (h.take 11).any (· < 0) ∨ dok < 0 ∨ ver < -1 then none else
        pure { id := id.toNat, answer := answer.toNat, opCode := opCode.toNat, recDes := recDes.toNat, recAv := recAv.toNat, auth := auth.toNat, rCode := rCode.toNat, trunc := trunc.toNat, maxSize := maxSize.toNat, authenticData := ad.toNat, checkingDisabled := cd.toNat, ednsVersion := (if ver < 0 then none else some ver.toNat), dnssecOK := dok.toNat, queries := s.queries, answers := s.answers, authority := s.authority, additional := s.additional }
      | _ => none
  | _ => none

def showOpt (o : Opt) : String :=
  let os := match o.options with
    | none => ["none"]
    | some l => l.map fun (c, d) => s!"{c}:{hex d}"
  " ".intercalate (s!"{o.udpPayloadSize},{o.extendedRCODE},{o.version},{o.dnssecOK}" :: os)

def parseOpt (toks : List String) : Option Opt :=
  match toks with
  | hdr :: rest => do
      let h ← (hdr.splitOn ",").mapM String.toNat?
      let os ← rest.mapM fun t => match t.splitOn ":" with
        | [c, d] => do
            let c ← c.toNat?
            let d ← unhex d
            pure (c, d)
        | _ => none
      match h with
      | [u, e, v, d] => pure ⟨u, e, v, d, some os⟩
      | _ => none
  | _ => none

end Twisted.Dns.Text
