import TwistedModel.Py.Bytes
/-
Model of the DNS wire codec of `src/twisted/names/dns.py` (C32, C33):

  `readPrecisely`, `Charstr`, `Name.encode/decode` (compression dictionary keyed by the remaining
  name bytes, `0xC000 | offset`; decode with the `visited` loop check and the `off` seek-back),
  `Query`, `RRHeader.encode/decode`, every `Record_*.encode/decode` and `UnknownRecord`,
  `Message.encode/decode/parseRecords/lookupRecordType` (header bit packing, `maxSize`
  truncation, the `except EOFError: return`s), `_OPTHeader`/`_OPTVariableOption`,
  `_EDNSMessage._toMessage/_fromMessage`.

Conventions.
* A stream (`BytesIO`) being decoded is the pair (whole message `M`, position `pos`); a stream
  being encoded is (absolute offset `off` = `strio.tell() + Message.headerSize`, compression
  dictionary).  Encoders return the bytes they append and the new dictionary.  `RRHeader.encode`
  seeks back to patch RDLENGTH; here the payload bytes are computed first (at the offset they
  will have) and the length is emitted in place — same bytes.
* Every `Record_X.encode/decode` is a straight-line sequence of field operations; the table
  `schema` lists them per TYPE in the code's order (`Kind`), a record's attribute values are a
  `List Val` in that order.  Adjacent fixed-width `struct` fields that the code reads with a
  single `readPrecisely` are read one by one here (same bytes, same `EOFError`).
* Every primitive keeps its real failure mode: `readPrecisely` → `EOFError`; `ord()` of a
  non-1-byte string → `TypeError`; `struct.unpack` of a wrong-length string / `struct.pack` out of
  range → `struct.error`; a label over 63 bytes, a `Charstr` over 255 bytes → `ValueError`.  A negative length given to
  `file.read` reads to the end and never fails (`Record_WKS`, `Record_SSHFP`, `Record_A6`).
* `Name.decode` arithmetic: `l >> 6 == 3` is `l / 64 = 3`, `(l & 63) << 8 | b` is
  `(l % 64) * 256 + b` (`b < 256`).
-/
namespace Twisted.Dns.Wire
open Twisted.Py

inductive Err where
  | eof      -- EOFError
  | value    -- ValueError
  | struct   -- struct.error
  | type     -- TypeError
  | other    -- any other exception class
  deriving Repr, DecidableEq

/-! ### reading primitives -/

def slice (M : Bytes) (pos l : Nat) : Bytes := (M.drop pos).take l

/-- `readPrecisely(file, l)` for `l ≥ 0`: `buff = file.read(l); if len(buff) < l: raise EOFError` -/
def readPrecisely (M : Bytes) (pos l : Nat) : Except Err (Bytes × Nat) :=
  if l ≤ M.length - pos then .ok (slice M pos l, pos + l) else .error .eof

/-- `readPrecisely(file, l)` for a possibly negative `l`: `file.read(-n)` reads to the end. -/
def readPreciselyInt (M : Bytes) (pos : Nat) (l : Int) : Except Err (Bytes × Nat) :=
  if l < 0 then .ok (M.drop pos, max pos M.length) else readPrecisely M pos l.toNat

/-- `ord(b)`: `TypeError` unless `len(b) == 1` -/
def pyOrd (b : Bytes) : Except Err Nat :=
  match b with
  | [x] => .ok x.toNat
  | _ => .error .type

/-- `struct.unpack("!<one field of n bytes>", b)`: `struct.error` unless `len(b) == n` -/
def unpackBE (n : Nat) (b : Bytes) : Except Err Nat :=
  if b.length = n then .ok (beToNat b) else .error .struct

/-- fixed-width big-endian -/
def beN : Nat → Nat → Bytes
  | 0, _ => []
  | w + 1, v => beN w (v / 256) ++ [UInt8.ofNat (v % 256)]

/-- `struct.pack("!B/H/I", v)` for `v ≥ 0` -/
def packBE (w : Nat) (v : Nat) : Except Err Bytes :=
  if v < 256 ^ w then .ok (beN w v) else .error .struct

/-- `struct.pack("!l", v)` -/
def packI32 (v : Int) : Except Err Bytes :=
  if -2147483648 ≤ v ∧ v < 2147483648 then .ok (beN 4 (v % 4294967296).toNat) else .error .struct

def toSigned32 (n : Nat) : Int := if n < 2147483648 then (n : Int) else (n : Int) - 4294967296

/-! ### Name -/

abbrev Dict := List (Bytes × Nat)

/-- `(name[:ind], name[ind+1:])` for `ind = name.find(b".")`, `none` when `ind == -1` -/
def splitAtDot : Bytes → Option (Bytes × Bytes)
  | [] => none
  | c :: cs => if c = 46 then some ([], cs) else (splitAtDot cs).map fun p => (c :: p.1, p.2)

/-- the label/rest choice of one iteration of `Name.encode`'s loop (`if ind > 0 … else …`) -/
def nextLabel (name : Bytes) : Bytes × Option Bytes :=
  match splitAtDot name with
  | some (l, r) => if l ≠ [] then (l, some r) else (name, none)
  | none => (name, none)

/-- the largest offset a compression pointer can carry is `2^14 - 1` -/
def maxPtr : Nat := 16384

/-- `Name.encode(strio, compDict)`; `off` is `strio.tell() + Message.headerSize`,
    `comp = false` is `compDict=None`.  The fuel is `len(name) + 1` (the name shrinks). -/
def encodeNameAux : Nat → Bytes → Nat → Bool → Dict → Except Err (Bytes × Dict)
  | 0, _, _, _, d => .ok ([0], d)
  | fuel + 1, name, off, comp, d =>
    if name = [] then .ok ([0], d)
    else
      match (if comp then d.lookup name else none) with
      | some t => .ok (beN 2 (49152 ||| t), d)
      | none =>
        let d1 := if comp ∧ off < maxPtr then (name, off) :: d else d     -- `if offset < 0x4000`
        let (label, rest) := nextLabel name
        if label.length > 63 then .error .value           -- `if ind > 63: raise ValueError`
        else
          match rest with
          | none => .ok (UInt8.ofNat label.length :: label ++ [0], d1)
          | some r =>
            match encodeNameAux fuel r (off + 1 + label.length) comp d1 with
            | .error e => .error e
            | .ok (bs, d2) => .ok (UInt8.ofNat label.length :: label ++ bs, d2)

def encodeName (name : Bytes) (off : Nat) (comp : Bool) (d : Dict) : Except Err (Bytes × Dict) :=
  encodeNameAux (name.length + 1) name off comp d

/-- number of 14-bit offsets not yet in `visited` (termination measure only) -/
def unvisited (visited : List Nat) : Nat :=
  ((List.range maxPtr).filter fun o => !visited.contains o).length

theorem unvisited_lt (visited : List Nat) (o : Nat) (h1 : o < maxPtr) (h2 : visited.contains o = false) :
    unvisited (o :: visited) < unvisited visited := by
  unfold unvisited
  have hsub : ((List.range maxPtr).filter fun x => !(o :: visited).contains x) =
      ((List.range maxPtr).filter fun x => !visited.contains x).filter fun x => !(x == o) := by
    rw [List.filter_filter]
    congr 1
    funext x
    simp only [List.contains_cons, Bool.not_or]
  rw [hsub]
  apply List.length_filter_lt_length_iff_exists.mpr
  refine ⟨o, ?_, by simp⟩
  have h2' : ¬ o ∈ visited := by simpa using h2
  simp [List.mem_filter, h1, h2']

/-- `Name.decode(strio)`: the `while 1` loop.  `acc` is `self.name`, `off` the saved position
    (0 = none).  Terminates: a pointer adds a fresh 14-bit offset to `visited`, a label moves
    the position forward. -/
def decodeNameLoop (M : Bytes) (pos : Nat) (visited : List Nat) (acc : Bytes) (off : Nat) :
    Except Err (Bytes × Nat) :=
  if _h1 : 1 ≤ M.length - pos then
    let l := (M.getD pos 0).toNat            -- ord(readPrecisely(strio, 1))
    if l = 0 then .ok (acc, if off > 0 then off else pos + 1)
    else if l / 64 = 3 then
      if 1 ≤ M.length - (pos + 1) then
        let newOff := (l % 64) * 256 + (M.getD (pos + 1) 0).toNat
        if hv : visited.contains newOff then .error .value
        else decodeNameLoop M newOff (newOff :: visited) acc (if off = 0 then pos + 2 else off)
      else .error .eof
    else
      if _h3 : l ≤ M.length - (pos + 1) then
        let label := slice M (pos + 1) l
        decodeNameLoop M (pos + 1 + l) visited (if acc = [] then label else acc ++ 46 :: label) off
      else .error .eof
  else .error .eof
termination_by (unvisited visited, M.length - pos)
decreasing_by
  · apply Prod.Lex.left
    apply unvisited_lt
    · have : (M.getD (pos + 1) 0).toNat < 256 := UInt8.toNat_lt _
      have : (M.getD pos 0).toNat % 64 < 64 := Nat.mod_lt _ (by decide)
      simp only [maxPtr]; omega
    · simpa [newOff, l] using hv
  · apply Prod.Lex.right
    omega

def decodeName (M : Bytes) (pos : Nat) : Except Err (Bytes × Nat) := decodeNameLoop M pos [] [] 0

/-- the folding used in `decodeNameLoop`: `ord(readPrecisely(strio, 1))` -/
def readByte (M : Bytes) (pos : Nat) : Except Err (Nat × Nat) :=
  match readPrecisely M pos 1 with
  | .error e => .error e
  | .ok (b, p) => match pyOrd b with
    | .error e => .error e
    | .ok v => .ok (v, p)

/-! ### record fields -/

inductive Kind where
  | u8 | u16 | u32 | i32 | u48
  | raw (n : Nat)            -- exactly n bytes (`Record_A.address`, `Record_AAAA.address`)
  | name (comp : Bool)       -- `Name`; `comp = false`: encoded with `compDict=None`
  | charstr                  -- `Charstr` (length via `bytes([n])`: ValueError above 255)
  | bstr                     -- `struct.pack("!B", len(s)) + s` (HINFO): struct.error above 255
  | lp16                     -- `struct.pack("!H", len(s))` … `s` (TSIG MAC / otherData, OPT option data)
  | rest (k : Nat)           -- `readPrecisely(strio, length - k)`
  | txts                     -- the `Record_TXT` loop
  | a6                       -- the whole of `Record_A6`
  deriving Repr, DecidableEq

inductive Val where
  | nat (n : Nat)
  | int (i : Int)
  | bytes (b : Bytes)
  | strs (l : List Bytes)
  | a6 (prefixLen : Nat) (suffix pfx : Bytes)
  deriving Repr, DecidableEq

/-- `Record_A6.bytes = _a6SuffixOctets(prefixLen) = -((prefixLen - 128) // 8)`:
    `ceil((128 - prefixLen) / 8)`, negative above 128 -/
def a6bytes (p : Nat) : Int := if p ≤ 128 then ((128 - p + 7) / 8 : Nat) else -(((p - 128) / 8 : Nat) : Int)

/-- Python `s[-n:]` for the `n` of `a6bytes` (`n ≠ 0`): last `n` bytes, or `s[k:]` for `n = -k` -/
def lastBytes (s : Bytes) (n : Int) : Bytes :=
  if n < 0 then s.drop (-n).toNat else s.drop (s.length - n.toNat)

def encStrs : List Bytes → Except Err Bytes
  | [] => .ok []
  | d :: ds =>
    match packBE 1 d.length with
    | .error e => .error e
    | .ok l => match encStrs ds with
      | .error e => .error e
      | .ok r => .ok (l ++ d ++ r)

/-- one field of a record's `encode` -/
def encField (k : Kind) (v : Val) (off : Nat) (d : Dict) : Except Err (Bytes × Dict) :=
  match k, v with
  | .u8, .nat n => (packBE 1 n).map (·, d)
  | .u16, .nat n => (packBE 2 n).map (·, d)
  | .u32, .nat n => (packBE 4 n).map (·, d)
  | .i32, .int i => (packI32 i).map (·, d)
  | .u48, .nat n => (packBE 8 n).map fun b => (b.drop 2, d)       -- struct.pack("!Q", t)[2:]
  | .raw _, .bytes b => .ok (b, d)
  | .name comp, .bytes n => if comp then encodeName n off true d else (encodeName n off false d).map fun r => (r.1, d)
  | .charstr, .bytes s => if s.length > 255 then .error .value else .ok (UInt8.ofNat s.length :: s, d)
  | .bstr, .bytes s => (packBE 1 s.length).map fun l => (l ++ s, d)
  | .lp16, .bytes s => (packBE 2 s.length).map fun l => (l ++ s, d)
  | .rest _, .bytes b => .ok (b, d)
  | .txts, .strs l => (encStrs l).map (·, d)
  | .a6, .a6 p suffix pfx =>
    match packBE 1 p with
    | .error e => .error e
    | .ok pb =>
      let sfx := if a6bytes p ≠ 0 then lastBytes suffix (a6bytes p) else []
      if p ≠ 0 then
        match encodeName pfx (off + 1 + sfx.length) false d with
        | .error e => .error e
        | .ok (nb, _) => .ok (pb ++ sfx ++ nb, d)
      else .ok (pb ++ sfx, d)
  | _, _ => .error .other

def encFields : List Kind → List Val → Nat → Dict → Except Err (Bytes × Dict)
  | [], [], _, d => .ok ([], d)
  | k :: ks, v :: vs, off, d =>
    match encField k v off d with
    | .error e => .error e
    | .ok (b1, d1) =>
      match encFields ks vs (off + b1.length) d1 with
      | .error e => .error e
      | .ok (b2, d2) => .ok (b1 ++ b2, d2)
  | _, _, _, _ => .error .other

/-- read an unsigned big-endian field of `w` bytes: `struct.unpack(fmt, readPrecisely(strio, w))` -/
def readBE (M : Bytes) (pos w : Nat) : Except Err (Nat × Nat) :=
  match readPrecisely M pos w with
  | .error e => .error e
  | .ok (b, p) => match unpackBE w b with
    | .error e => .error e
    | .ok v => .ok (v, p)

/-- `u8 length + that many bytes` (`Charstr.decode`, HINFO, one TXT string) -/
def readStr8 (M : Bytes) (pos : Nat) : Except Err (Bytes × Nat) :=
  match readByte M pos with
  | .error e => .error e
  | .ok (l, p) => readPrecisely M p l

/-- the `while soFar < length` loop of `Record_TXT.decode`; `rem = length - soFar`
    (clamped at 0), fuel ≥ rem (each round consumes at least one byte of it) -/
def txtLoop : Nat → Nat → Bytes → Nat → Except Err (List Bytes × Nat)
  | 0, _, _, pos => .ok ([], pos)
  | fuel + 1, rem, M, pos =>
    if rem = 0 then .ok ([], pos)
    else
      match readStr8 M pos with
      | .error e => .error e
      | .ok (s, p) =>
        match txtLoop fuel (rem - (s.length + 1)) M p with
        | .error e => .error e
        | .ok (ss, p') => .ok (s :: ss, p')

def zeros (n : Nat) : Bytes := List.replicate n 0

/-- one field of a record's `decode(strio, length)` -/
def decField (k : Kind) (M : Bytes) (pos : Nat) (rdlen : Nat) : Except Err (Val × Nat) :=
  match k with
  | .u8 => (readBE M pos 1).map fun r => (.nat r.1, r.2)
  | .u16 => (readBE M pos 2).map fun r => (.nat r.1, r.2)
  | .u32 => (readBE M pos 4).map fun r => (.nat r.1, r.2)
  | .i32 => (readBE M pos 4).map fun r => (.int (toSigned32 r.1), r.2)
  | .u48 => (readBE M pos 6).map fun r => (.nat r.1, r.2)   -- unpack("!Q", b"\0\0" + six bytes)
  | .raw n => (readPrecisely M pos n).map fun r => (.bytes r.1, r.2)
  | .name _ => (decodeName M pos).map fun r => (.bytes r.1, r.2)
  | .charstr => (readStr8 M pos).map fun r => (.bytes r.1, r.2)
  | .bstr => (readStr8 M pos).map fun r => (.bytes r.1, r.2)
  | .lp16 =>
    match readBE M pos 2 with
    | .error e => .error e
    | .ok (l, p) => (readPrecisely M p l).map fun r => (.bytes r.1, r.2)
  | .rest k => (readPreciselyInt M pos ((rdlen : Int) - k)).map fun r => (.bytes r.1, r.2)
  | .txts => (txtLoop rdlen rdlen M pos).map fun r => (.strs r.1, r.2)
  | .a6 =>
    match readBE M pos 1 with
    | .error e => .error e
    | .ok (p, p1) =>
      let n := a6bytes p
      -- `if self.bytes: self.suffix = b"\x00" * (16 - self.bytes) + readPrecisely(strio, self.bytes)`
      match (if n ≠ 0 then (readPreciselyInt M p1 n).map fun r => (zeros (16 - n).toNat ++ r.1, r.2)
             else .ok (zeros 16, p1)) with
      | .error e => .error e
      | .ok (suffix, p2) =>
        if p ≠ 0 then (decodeName M p2).map fun r => (.a6 p suffix r.1, r.2)
        else .ok (.a6 p suffix [], p2)

def decFields : List Kind → Bytes → Nat → Nat → Except Err (List Val × Nat)
  | [], _, pos, _ => .ok ([], pos)
  | k :: ks, M, pos, rdlen =>
    match decField k M pos rdlen with
    | .error e => .error e
    | .ok (v, p) =>
      match decFields ks M p rdlen with
      | .error e => .error e
      | .ok (vs, p') => .ok (v :: vs, p')

/-- `Message._recordTypes`: TYPE → the field sequence of that `Record_*` class's `encode`/`decode`;
    `none` = `UnknownRecord` (also TYPE 41, OPT, in a plain `Message`). -/
def schema (t : Nat) : Option (List Kind) :=
  match t with
  | 1 => some [.raw 4]                                              -- A
  | 2 | 3 | 4 | 5 | 7 | 8 | 9 | 12 | 39 => some [.name true]        -- NS MD MF CNAME MB MG MR PTR DNAME
  | 6 => some [.name true, .name true, .u32, .i32, .i32, .i32, .u32]  -- SOA "!LlllL"
  | 10 => some [.rest 0]                                            -- NULL
  | 11 => some [.raw 4, .u8, .rest 5]                               -- WKS
  | 13 => some [.bstr, .bstr]                                       -- HINFO
  | 14 => some [.name true, .name true]                             -- MINFO
  | 15 => some [.u16, .name true]                                   -- MX
  | 16 | 99 => some [.txts]                                         -- TXT SPF
  | 17 => some [.name true, .name true]                             -- RP
  | 18 => some [.u16, .name true]                                   -- AFSDB
  | 28 => some [.raw 16]                                            -- AAAA
  | 33 => some [.u16, .u16, .u16, .name false]                      -- SRV
  | 35 => some [.u16, .u16, .charstr, .charstr, .charstr, .name false]  -- NAPTR
  | 38 => some [.a6]                                                -- A6
  | 44 => some [.u8, .u8, .rest 2]                                  -- SSHFP
  | 250 => some [.name true, .u48, .u16, .lp16, .u16, .u16, .lp16]  -- TSIG
  | _ => none

/-- field sequence used to *decode* TYPE `t` (`lookupRecordType`) -/
def kindsOf (t : Nat) : List Kind := (schema t).getD [.rest 0]

/-! ### Query, RRHeader, Message -/

structure Query where
  name : Bytes
  type : Nat
  cls : Nat
  deriving Repr, DecidableEq

/-- `unknown = true`: the payload object is an `UnknownRecord` (raw data, whatever the TYPE) -/
structure Payload where
  unknown : Bool
  vals : List Val
  deriving Repr, DecidableEq

/-- `RRHeader` (`auth` is not on the wire: a decoded header carries the message's `auth` flag;
    a payload's own `ttl` attribute is not on the wire either: decoded from the header's) -/
structure RR where
  name : Bytes
  type : Nat
  cls : Nat
  ttl : Nat
  payload : Option Payload
  deriving Repr, DecidableEq

def encodeQuery (q : Query) (off : Nat) (d : Dict) : Except Err (Bytes × Dict) :=
  match encodeName q.name off true d with
  | .error e => .error e
  | .ok (nb, d1) =>
    match packBE 2 q.type, packBE 2 q.cls with
    | .ok t, .ok c => .ok (nb ++ t ++ c, d1)
    | _, _ => .error .struct

def payloadKinds (type : Nat) (p : Payload) : List Kind := if p.unknown then [.rest 0] else kindsOf type

/-- `RRHeader.encode` -/
def encodeRR (r : RR) (off : Nat) (d : Dict) : Except Err (Bytes × Dict) :=
  match encodeName r.name off true d with
  | .error e => .error e
  | .ok (nb, d1) =>
    match packBE 2 r.type, packBE 2 r.cls, packBE 4 r.ttl with
    | .ok t, .ok c, .ok l =>
      match r.payload with
      | none => .ok (nb ++ t ++ c ++ l ++ [0, 0], d1)
      | some p =>
        match encFields (payloadKinds r.type p) p.vals (off + nb.length + 10) d1 with
        | .error e => .error e
        | .ok (pb, d2) =>
          match packBE 2 pb.length with                     -- struct.pack("!H", aft - prefix)
          | .error e => .error e
          | .ok rl => .ok (nb ++ t ++ c ++ l ++ rl ++ pb, d2)
    | _, _, _ => .error .struct

def decodeQuery (M : Bytes) (pos : Nat) : Except Err (Query × Nat) :=
  match decodeName M pos with
  | .error e => .error e
  | .ok (n, p1) =>
    match readBE M p1 2 with
    | .error e => .error e
    | .ok (t, p2) =>
      match readBE M p2 2 with
      | .error e => .error e
      | .ok (c, p3) => .ok (⟨n, t, c⟩, p3)

structure RRHead where
  name : Bytes
  type : Nat
  cls : Nat
  ttl : Nat
  rdlength : Nat

/-- `RRHeader.decode` -/
def decodeRRHead (M : Bytes) (pos : Nat) : Except Err (RRHead × Nat) :=
  match decodeName M pos with
  | .error e => .error e
  | .ok (n, p1) =>
    match readBE M p1 2 with
    | .error e => .error e
    | .ok (t, p2) =>
      match readBE M p2 2 with
      | .error e => .error e
      | .ok (c, p3) =>
        match readBE M p3 4 with
        | .error e => .error e
        | .ok (ttl, p4) =>
          match readBE M p4 2 with
          | .error e => .error e
          | .ok (rl, p5) => .ok (⟨n, t, c, ttl, rl⟩, p5)

/-- `for i in range(n): q = Query(); try: q.decode(strio) except EOFError: return`.
    The `Bool` says that `EOFError` was caught (then `Message.decode` returns at once). -/
def decodeQueries : Nat → Bytes → Nat → Except Err (List Query × Nat × Bool)
  | 0, _, pos => .ok ([], pos, false)
  | n + 1, M, pos =>
    match decodeQuery M pos with
    | .error .eof => .ok ([], pos, true)
    | .error e => .error e
    | .ok (q, p) =>
      match decodeQueries n M p with
      | .error e => .error e
      | .ok (qs, p', eof) => .ok (q :: qs, p', eof)

/-- `Message.parseRecords(list, num, strio)`.  After a caught `EOFError` the stream is at its end
    (a short `read` consumes what is left), so every later header decode fails at once: the
    `Bool` result makes the remaining sections empty. -/
def parseRecords : Nat → Bytes → Nat → Except Err (List RR × Nat × Bool)
  | 0, _, pos => .ok ([], pos, false)
  | n + 1, M, pos =>
    match decodeRRHead M pos with
    | .error .eof => .ok ([], pos, true)
    | .error e => .error e
    | .ok (h, p1) =>
      match decFields (kindsOf h.type) M p1 h.rdlength with
      | .error .eof => .ok ([], pos, true)
      | .error e => .error e
      | .ok (vals, p2) =>
        match parseRecords n M p2 with
        | .error e => .error e
        | .ok (rs, p', eof) =>
          .ok (⟨h.name, h.type, h.cls, h.ttl, some ⟨(schema h.type).isNone, vals⟩⟩ :: rs, p', eof)

structure Msg where
  id : Nat
  answer : Nat
  opCode : Nat
  recDes : Nat
  recAv : Nat
  auth : Nat
  rCode : Nat
  trunc : Nat
  maxSize : Nat
  authenticData : Nat
  checkingDisabled : Nat
  queries : List Query
  answers : List RR
  authority : List RR
  additional : List RR
  deriving Repr, DecidableEq

def encodeQueries : List Query → Nat → Dict → Except Err (Bytes × Dict)
  | [], _, d => .ok ([], d)
  | q :: qs, off, d =>
    match encodeQuery q off d with
    | .error e => .error e
    | .ok (b1, d1) =>
      match encodeQueries qs (off + b1.length) d1 with
      | .error e => .error e
      | .ok (b2, d2) => .ok (b1 ++ b2, d2)

def encodeRRs : List RR → Nat → Dict → Except Err (Bytes × Dict)
  | [], _, d => .ok ([], d)
  | r :: rs, off, d =>
    match encodeRR r off d with
    | .error e => .error e
    | .ok (b1, d1) =>
      match encodeRRs rs (off + b1.length) d1 with
      | .error e => .error e
      | .ok (b2, d2) => .ok (b1 ++ b2, d2)

def headerSize : Nat := 12

/-- the untruncated body: all four sections, one shared dictionary -/
def encodeBody (m : Msg) : Except Err Bytes :=
  match encodeQueries m.queries headerSize [] with
  | .error e => .error e
  | .ok (b1, d1) =>
    match encodeRRs m.answers (headerSize + b1.length) d1 with
    | .error e => .error e
    | .ok (b2, d2) =>
      match encodeRRs m.authority (headerSize + b1.length + b2.length) d2 with
      | .error e => .error e
      | .ok (b3, d3) =>
        match encodeRRs m.additional (headerSize + b1.length + b2.length + b3.length) d3 with
        | .error e => .error e
        | .ok (b4, _) => .ok (b1 ++ b2 ++ b3 ++ b4)

/-- `body[: maxSize - headerSize]` (Python slice: a negative stop counts from the end) -/
def pySliceTo (body : Bytes) (maxSize : Nat) : Bytes :=
  if headerSize ≤ maxSize then body.take (maxSize - headerSize)
  else body.take (body.length - (headerSize - maxSize))

def byte3 (m : Msg) (trunc : Nat) : Nat :=
  (m.answer % 2) * 128 + (m.opCode % 16) * 8 + (m.auth % 2) * 4 + (trunc % 2) * 2 + m.recDes % 2

def byte4 (m : Msg) : Nat :=
  (m.recAv % 2) * 128 + (m.authenticData % 2) * 32 + (m.checkingDisabled % 2) * 16 + m.rCode % 16

/-- `Message.encode` / `toStr` -/
def encodeMsg (m : Msg) : Except Err Bytes :=
  match encodeBody m with
  | .error e => .error e
  | .ok body =>
    let over := m.maxSize ≠ 0 ∧ body.length + headerSize > m.maxSize
    let trunc := if over then 1 else m.trunc
    let body' := if over then pySliceTo body m.maxSize else body
    match packBE 2 m.id, packBE 2 m.queries.length, packBE 2 m.answers.length,
          packBE 2 m.authority.length, packBE 2 m.additional.length with
    | .ok i, .ok a, .ok b, .ok c, .ok e =>
      .ok (i ++ [UInt8.ofNat (byte3 m trunc), UInt8.ofNat (byte4 m)] ++ a ++ b ++ c ++ e ++ body')
    | _, _, _, _, _ => .error .struct

/-- `Message.decode` / `fromStr` -/
def decodeMsg (M : Bytes) : Except Err Msg :=
  match readPrecisely M 0 headerSize with
  | .error e => .error e
  | .ok (h, p0) =>
    if h.length ≠ headerSize then .error .struct else     -- struct.unpack(headerFmt, header)
    let id := beToNat (slice h 0 2)
    let b3 := (h.getD 2 0).toNat
    let b4 := (h.getD 3 0).toNat
    let nq := beToNat (slice h 4 2)
    let nan := beToNat (slice h 6 2)
    let nns := beToNat (slice h 8 2)
    let nadd := beToNat (slice h 10 2)
    let base : Msg := { id := id, answer := b3 / 128 % 2, opCode := b3 / 8 % 16, recDes := b3 % 2, recAv := b4 / 128 % 2, auth := b3 / 4 % 2, rCode := b4 % 16, trunc := b3 / 2 % 2, maxSize := 0, authenticData := b4 / 32 % 2, checkingDisabled := b4 / 16 % 2, queries := [], answers := [], authority := [], additional := [] }
    match decodeQueries nq M p0 with
    | .error e => .error e
    | .ok (qs, p1, eofq) =>
      if eofq then .ok { base with queries := qs } else
      match parseRecords nan M p1 with
      | .error e => .error e
      | .ok (an, p2, eof1) =>
        if eof1 then .ok { base with queries := qs, answers := an } else
        match parseRecords nns M p2 with
        | .error e => .error e
        | .ok (ns, p3, eof2) =>
          if eof2 then .ok { base with queries := qs, answers := an, authority := ns } else
          match parseRecords nadd M p3 with
          | .error e => .error e
          | .ok (ad, _, _) => .ok { base with queries := qs, answers := an, authority := ns, additional := ad }

/-! ### EDNS: `_OPTVariableOption`, `_OPTHeader`, `_EDNSMessage` -/

structure Opt where
  udpPayloadSize : Nat
  extendedRCODE : Nat
  version : Nat
  dnssecOK : Nat
  options : Option (List (Nat × Bytes))      -- `None` only out of `fromRRHeader` of a payload-less header
  deriving Repr, DecidableEq

/-- `for o in self.options: o.encode(b)` -/
def encOptions : List (Nat × Bytes) → Except Err Bytes
  | [] => .ok []
  | (code, data) :: os =>
    match packBE 2 code, packBE 2 data.length with
    | .ok c, .ok l => match encOptions os with
      | .error e => .error e
      | .ok r => .ok (c ++ l ++ data ++ r)
    | _, _ => .error .struct

/-- `_OPTHeader.encode`: an `RRHeader` named `b""` of TYPE 41 around `UnknownRecord(optionBytes)` -/
def optToRR (o : Opt) : Except Err RR :=
  match encOptions (o.options.getD []) with
  | .error e => .error e
  | .ok ob => .ok ⟨[], 41, o.udpPayloadSize,
      o.extendedRCODE * 16777216 ||| o.version * 65536 ||| o.dnssecOK * 32768, some ⟨true, [.bytes ob]⟩⟩

/-- the `while optionsBytes.tell() < optionsBytesLength` loop of `fromRRHeader`
    (fuel = number of bytes left; every option consumes at least four) -/
def decOptions : Nat → Bytes → Nat → Except Err (List (Nat × Bytes))
  | 0, _, _ => .ok []
  | fuel + 1, B, pos =>
    if pos < B.length then
      match readPrecisely B pos 4 with
      | .error e => .error e
      | .ok (h, p1) =>
        if h.length ≠ 4 then .error .struct else
        match readPrecisely B p1 (beToNat (slice h 2 2)) with
        | .error e => .error e
        | .ok (data, p2) =>
          match decOptions fuel B p2 with
          | .error e => .error e
          | .ok os => .ok ((beToNat (slice h 0 2), data) :: os)
    else .ok []

/-- `_OPTHeader.fromRRHeader` for a header whose payload is an `UnknownRecord` -/
def optFromRR (r : RR) : Except Err Opt :=
  let mk (opts : Option (List (Nat × Bytes))) : Opt :=
    ⟨r.cls, r.ttl / 16777216, r.ttl / 65536 % 256, r.ttl % 65536 / 32768, opts⟩
  match r.payload with
  | none => .ok (mk none)
  | some ⟨_, [.bytes data]⟩ => (decOptions (data.length + 1) data 0).map fun os => mk (some os)
  | some _ => .error .other                       -- AttributeError: no `.data`

/-- `_OPTHeader.encode(strio, compDict)` -/
def encodeOpt (o : Opt) (off : Nat) (d : Dict) : Except Err (Bytes × Dict) :=
  match optToRR o with
  | .error e => .error e
  | .ok r => encodeRR r off d

/-- `_OPTHeader.decode(strio)`: `RRHeader.decode`, `UnknownRecord(readPrecisely(strio, rdlength))`,
    `fromRRHeader` -/
def decodeOpt (M : Bytes) (pos : Nat) : Except Err (Opt × Nat) :=
  match decodeRRHead M pos with
  | .error e => .error e
  | .ok (h, p1) =>
    match readPrecisely M p1 h.rdlength with
    | .error e => .error e
    | .ok (data, p2) =>
      (optFromRR ⟨h.name, h.type, h.cls, h.ttl, some ⟨true, [.bytes data]⟩⟩).map fun o => (o, p2)

structure EMsg where
  id : Nat
  answer : Nat
  opCode : Nat
  recDes : Nat
  recAv : Nat
  auth : Nat
  rCode : Nat
  trunc : Nat
  maxSize : Nat
  authenticData : Nat
  checkingDisabled : Nat
  ednsVersion : Option Nat
  dnssecOK : Nat
  queries : List Query
  answers : List RR
  authority : List RR
  additional : List RR
  deriving Repr, DecidableEq

/-- `_EDNSMessage._toMessage` (note: the `Message` is built with its default `maxSize=512`);
    the appended `_OPTHeader` is represented by the `RRHeader` its `encode` writes. -/
def toMessage (e : EMsg) : Except Err Msg :=
  let m : Msg := { id := e.id, answer := e.answer, opCode := e.opCode, recDes := e.recDes, recAv := e.recAv, auth := e.auth, rCode := e.rCode % 16, trunc := e.trunc, maxSize := 512, authenticData := e.authenticData, checkingDisabled := e.checkingDisabled, queries := e.queries, answers := e.answers, authority := e.authority, additional := e.additional }
  match e.ednsVersion with
  | none => .ok m
  | some v =>
    match optToRR ⟨e.maxSize, e.rCode / 16, v, e.dnssecOK, some []⟩ with
    | .error er => .error er
    | .ok o => .ok { m with additional := e.additional ++ [o] }

def optsOf : List RR → Except Err (List Opt)
  | [] => .ok []
  | r :: rs =>
    if r.type = 41 then
      match optFromRR r with
      | .error e => .error e
      | .ok o => (optsOf rs).map (o :: ·)
    else optsOf rs

/-- `_EDNSMessage._fromMessage` -/
def fromMessage (m : Msg) : Except Err EMsg :=
  match optsOf m.additional with
  | .error e => .error e
  | .ok opts =>
    let e : EMsg := { id := m.id, answer := m.answer, opCode := m.opCode, recDes := m.recDes, recAv := m.recAv, auth := m.auth, rCode := m.rCode, trunc := m.trunc, maxSize := 512, authenticData := m.authenticData, checkingDisabled := m.checkingDisabled, ednsVersion := none, dnssecOK := 0, queries := m.queries, answers := m.answers, authority := m.authority, additional := m.additional.filter (·.type ≠ 41) }
    match opts with
    | [o] => .ok { e with ednsVersion := some o.version, dnssecOK := o.dnssecOK, maxSize := o.udpPayloadSize,
                          rCode := o.extendedRCODE * 16 ||| m.rCode }
    | _ => .ok e

def encodeEMsg (e : EMsg) : Except Err Bytes :=
  match toMessage e with
  | .error er => .error er
  | .ok m => encodeMsg m

def decodeEMsg (M : Bytes) : Except Err EMsg :=
  match decodeMsg M with
  | .error e => .error e
  | .ok m => fromMessage m

end Twisted.Dns.Wire
