import TwistedModel.Dns.Wire
/-
An independent reader of the DNS wire format, written from RFC 1035 §4.1 (message layout,
§4.1.4 compression), RFC 3596 (AAAA), 2782 (SRV), 3403 (NAPTR), 1183 (AFSDB, RP), 2874 (A6),
6672 (DNAME), 4255 (SSHFP), 7208 (SPF), 2845 (TSIG) — *not* from `dns.py`.  It stands in for
the third-party decoder the property names (dnspython is not installed) and is deliberately
strict where the RFCs are:

* a label length octet has its top two bits `00` (length ≤ 63) or `11` (pointer); `01`/`10`
  are rejected;
* a compression pointer must point to a *prior* occurrence: strictly before the start of the
  label sequence that contains it (so chains strictly descend);
* RDATA is parsed inside exactly RDLENGTH octets and must fill them;
* all four section counts must be satisfied and nothing may follow the last record;
* A6 address suffix is `ceil((128 - prefixLen) / 8)` octets, prefix length ≤ 128.

It shares only the data types (`Msg`, `RR`, `Val`) with the model of Twisted's codec, so that
both print through the same canonical printer.  No theorem is stated about it; it is run by
the oracle of `harness/corr/C32.py` on the bytes the real encoder produced.
-/
namespace Twisted.Dns.Rfc1035
open Twisted.Py Twisted.Dns.Wire

abbrev R := Except String

def u8 (M : Bytes) (p : Nat) : R Nat :=
  match M[p]? with
  | some b => .ok b.toNat
  | none => .error "short"

def octets (M : Bytes) (p n : Nat) : R Bytes :=
  if p + n ≤ M.length then .ok ((M.drop p).take n) else .error "short"

def uN (M : Bytes) (p n : Nat) : R Nat := (octets M p n).map beToNat

/-- labels of the name at `p`; `bound`: pointers must target an offset `< bound`.
    Returns the labels and the offset just after this label run (after the root octet or the pointer). -/
def labels : Nat → Bytes → Nat → Nat → R (List Bytes × Nat)
  | 0, _, _, _ => .error "name-too-long"
  | fuel + 1, M, p, bound => do
    let l ← u8 M p
    if l = 0 then pure ([], p + 1)
    else if l < 64 then
      let lab ← octets M (p + 1) l
      let (ls, e) ← labels fuel M (p + 1 + l) bound
      pure (lab :: ls, e)
    else if l ≥ 192 then
      let c ← u8 M (p + 1)
      let t := (l - 192) * 256 + c
      if t < bound then
        let (ls, _) ← labels fuel M t t
        pure (ls, p + 2)
      else .error "bad-pointer"
    else .error "bad-label-type"

def dotted (ls : List Bytes) : Bytes :=
  match ls with
  | [] => []
  | l :: ls => ls.foldl (fun acc x => acc ++ 46 :: x) l

def name (M : Bytes) (p : Nat) : R (Bytes × Nat) := do
  let (ls, e) ← labels (M.length + 1) M p p
  pure (dotted ls, e)

def charstr (M : Bytes) (p lim : Nat) : R (Bytes × Nat) := do
  let l ← u8 M p
  if p + 1 + l ≤ lim then
    let s ← octets M (p + 1) l
    pure (s, p + 1 + l)
  else .error "charstr-overruns-rdata"

def charstrs : Nat → Bytes → Nat → Nat → R (List Bytes)
  | 0, _, _, _ => .error "fuel"
  | fuel + 1, M, p, lim =>
    if p = lim then pure [] else do
      let (s, p') ← charstr M p lim
      let r ← charstrs fuel M p' lim
      pure (s :: r)

def signed32 (n : Nat) : Int := if n < 2147483648 then n else (n : Int) - 4294967296

inductive F where | n (w : Nat) | s32 | raw (k : Nat) | nm | cs | rest | lp16 | txt | a6

def layout (t : Nat) : Option (List F) :=
  match t with
  | 1 => some [.raw 4]
  | 2 | 3 | 4 | 5 | 7 | 8 | 9 | 12 | 39 => some [.nm]
  | 6 => some [.nm, .nm, .n 4, .s32, .s32, .s32, .n 4]
  | 10 => some [.rest]
  | 11 => some [.raw 4, .n 1, .rest]
  | 13 => some [.cs, .cs]
  | 14 | 17 => some [.nm, .nm]
  | 15 | 18 => some [.n 2, .nm]
  | 16 | 99 => some [.txt]
  | 28 => some [.raw 16]
  | 33 => some [.n 2, .n 2, .n 2, .nm]
  | 35 => some [.n 2, .n 2, .cs, .cs, .cs, .nm]
  | 38 => some [.a6]
  | 44 => some [.n 1, .n 1, .rest]
  | 250 => some [.nm, .n 6, .n 2, .lp16, .n 2, .n 2, .lp16]
  | _ => none

def field (f : F) (M : Bytes) (p lim : Nat) : R (Val × Nat) :=
  match f with
  | .n w => do let v ← uN M p w; pure (.nat v, p + w)
  | .s32 => do let v ← uN M p 4; pure (.int (signed32 v), p + 4)
  | .raw k => do let b ← octets M p k; pure (.bytes b, p + k)
  | .nm => do let (n, e) ← name M p; pure (.bytes n, e)
  | .cs => do let (s, e) ← charstr M p lim; pure (.bytes s, e)
  | .rest => if p ≤ lim then do let b ← octets M p (lim - p); pure (.bytes b, lim) else .error "rdata-too-short"
  | .lp16 => do
      let l ← uN M p 2
      let b ← octets M (p + 2) l
      pure (.bytes b, p + 2 + l)
  | .txt => do let ss ← charstrs (M.length + 1) M p lim; pure (.strs ss, lim)
  | .a6 => do
      let pl ← u8 M p
      if pl > 128 then .error "a6-prefix-length" else
      let k := (128 - pl + 7) / 8
      let sfx ← octets M (p + 1) k
      let suffix := List.replicate (16 - k) 0 ++ sfx
      if pl = 0 then pure (.a6 pl suffix [], p + 1 + k)
      else do
        let (n, e) ← name M (p + 1 + k)
        pure (.a6 pl suffix n, e)

def fields : List F → Bytes → Nat → Nat → R (List Val × Nat)
  | [], _, p, _ => pure ([], p)
  | f :: fs, M, p, lim => do
    let (v, p1) ← field f M p lim
    if p1 > lim then .error "field-overruns-rdata" else
    let (vs, p2) ← fields fs M p1 lim
    pure (v :: vs, p2)

def question (M : Bytes) (p : Nat) : R (Query × Nat) := do
  let (n, p1) ← name M p
  let t ← uN M p1 2
  let c ← uN M (p1 + 2) 2
  pure (⟨n, t, c⟩, p1 + 4)

def questions : Nat → Bytes → Nat → R (List Query × Nat)
  | 0, _, p => pure ([], p)
  | k + 1, M, p => do
    let (q, p1) ← question M p
    let (qs, p2) ← questions k M p1
    pure (q :: qs, p2)

def rr (M : Bytes) (p : Nat) : R (RR × Nat) := do
  let (n, p1) ← name M p
  let t ← uN M p1 2
  let c ← uN M (p1 + 2) 2
  let ttl ← uN M (p1 + 4) 4
  let rdl ← uN M (p1 + 8) 2
  let start := p1 + 10
  let lim := start + rdl
  if lim > M.length then .error "short" else
  match layout t with
  | none => do
      let b ← octets M start rdl
      pure (⟨n, t, c, ttl, some ⟨true, [.bytes b]⟩⟩, lim)
  | some fs => do
      let (vs, e) ← fields fs M start lim
      if e ≠ lim then .error "rdata-length-mismatch" else
      pure (⟨n, t, c, ttl, some ⟨false, vs⟩⟩, lim)

def rrs : Nat → Bytes → Nat → R (List RR × Nat)
  | 0, _, p => pure ([], p)
  | k + 1, M, p => do
    let (r, p1) ← rr M p
    let (rs, p2) ← rrs k M p1
    pure (r :: rs, p2)

/-- RFC 1035 §4.1.1 header + four sections; the result reuses `Wire.Msg` (`maxSize := 0`) -/
def message (M : Bytes) : R Msg := do
  if M.length < 12 then .error "short-header" else
  let id ← uN M 0 2
  let b3 ← u8 M 2
  let b4 ← u8 M 3
  let nq ← uN M 4 2
  let nan ← uN M 6 2
  let nns ← uN M 8 2
  let nar ← uN M 10 2
  let (qs, p1) ← questions nq M 12
  let (an, p2) ← rrs nan M p1
  let (ns, p3) ← rrs nns M p2
  let (ar, p4) ← rrs nar M p3
  if p4 ≠ M.length then .error "trailing-junk" else
  pure { id := id, answer := b3 / 128, opCode := b3 / 8 % 16, recDes := b3 % 2, recAv := b4 / 128, auth := b3 / 4 % 2, rCode := b4 % 16, trunc := b3 / 2 % 2, maxSize := 0, authenticData := b4 / 32 % 2, checkingDisabled := b4 / 16 % 2, queries := qs, answers := an, authority := ns, additional := ar }

end Twisted.Dns.Rfc1035
