/-
Model of `twisted.names._rfc1982.SerialNumber` (C34).

Hand-written, import-free.  Integers are `Int` exactly as Python's unbounded ints;
`%` on `Int` is `Int.emod`, which for a positive modulus agrees with Python's `%`.
The model mirrors the code: the constructor stores `number % 2**bits`, comparisons and
addition are the boolean expressions of `__lt__/__gt__/__eq__/__le__/__ge__/__add__`
over `self._number`, `other._number`, `self._halfRing`, `self._maxAdd`, `self._modulo`.
`serialBits = 0` makes `2 ** (serialBits - 1)` a float in Python; outside the statement.
-/
namespace Twisted.Dns.Serial

def modulo (bits : Nat) : Int := 2 ^ bits
def halfRing (bits : Nat) : Int := 2 ^ (bits - 1)
def maxAdd (bits : Nat) : Int := 2 ^ (bits - 1) - 1

/-- `SerialNumber(number, serialBits)._number` -/
def mk (number : Int) (bits : Nat) : Int := number % modulo bits

/-- `__eq__` (after `_convertOther` succeeded) -/
def eq (a b : Int) : Bool := decide (b = a)

/-- `__lt__` -/
def lt (a b half : Int) : Bool :=
  (decide (a < b) && decide (b - a < half)) || (decide (a > b) && decide (a - b > half))

/-- `__gt__` -/
def gt (a b half : Int) : Bool :=
  (decide (a < b) && decide (b - a > half)) || (decide (a > b) && decide (a - b < half))

/-- `__le__` : `self == other or self < other` -/
def le (a b half : Int) : Bool := eq a b || lt a b half

/-- `__ge__` : `self == other or self > other` -/
def ge (a b half : Int) : Bool := eq a b || gt a b half

/-- `__add__`: `none` models `raise ArithmeticError`. -/
def add (a b maxAdd modulo : Int) : Option Int :=
  if b ≤ maxAdd then some ((a + b) % modulo) else none


/-! ## Histories (programs over several SerialNumber objects)

A program constructs objects `SerialNumber(num, bits)` (slots `0..k-1`) and then performs
operations between slots.  `_convertOther` accepts any `SerialNumber` instance (subclasses
included, the class is not part of the model) of the SAME `_serialBits`; otherwise the magic
method returns `NotImplemented`, which Python turns into `TypeError` for `<,>,<=,>=,+,+=` and
into identity comparison (`False` for two different objects) for `==`.
`s + n` / `s += n` (there is no `__iadd__`: `+=` is `s = s + n`, the old object is untouched)
append the NEW object to the slots; a refused / ill-typed addition appends an empty slot.
Objects are immutable: no operation changes an existing slot. -/

inductive Kind
  | eq | lt | gt | le | ge | add | iadd
  deriving DecidableEq, Repr

structure Op where
  kind : Kind
  i : Nat
  j : Nat
  deriving Repr

/-- a slot: `none` = no object (an addition that raised), `some (number, serialBits)` -/
abbrev Slot := Option (Int × Nat)

inductive Res
  | bool (b : Bool)
  /-- the new object `(number, serialBits)` and `new > s`, `new < s`, `new == s` -/
  | sum (val : Int) (bits : Nat) (g l e : Bool)
  | arith     -- ArithmeticError
  | type      -- TypeError
  | skip      -- an operand slot is empty / out of range
  deriving DecidableEq, Repr

/-- comparison `kind` on two objects of the same width -/
def cmpK (k : Kind) (a b h : Int) : Bool :=
  match k with
  | .eq => eq a b
  | .lt => lt a b h
  | .gt => gt a b h
  | .le => le a b h
  | _ => ge a b h

def slotAt (objs : List Slot) (i : Nat) : Slot := (objs[i]?).getD none

/-- one operation: its observable result and the new slot list -/
def step (objs : List Slot) (op : Op) : Res × List Slot :=
  match slotAt objs op.i, slotAt objs op.j with
  | some (a, wa), some (b, wb) =>
    match op.kind with
    | .add | .iadd =>
      if wa = wb then
        match add a b (maxAdd wa) (modulo wa) with
        | some r =>
          let r := mk r wa
          (.sum r wa (gt r a (halfRing wa)) (lt r a (halfRing wa)) (eq r a), objs ++ [some (r, wa)])
        | none => (.arith, objs ++ [none])
      else (.type, objs ++ [none])
    | .eq => (.bool (decide (wa = wb) && eq a b), objs)
    | k => if wa = wb then (.bool (cmpK k a b (halfRing wa)), objs) else (.type, objs)
  | _, _ =>
    match op.kind with
    | .add | .iadd => (.skip, objs ++ [none])
    | _ => (.skip, objs)

def run : List Slot → List Op → List Res × List Slot
  | objs, [] => ([], objs)
  | objs, op :: ops =>
    let (r, objs') := step objs op
    let (rs, objs'') := run objs' ops
    (r :: rs, objs'')

/-- `s + n₁ + n₂ + …` (each `+` is `__add__`); `none` as soon as one addition is refused -/
def addMany (a : Int) (ns : List Int) (maxAdd modulo : Int) : Option Int :=
  match ns with
  | [] => some a
  | n :: ns => match add a n maxAdd modulo with
    | some r => addMany r ns maxAdd modulo
    | none => none

end Twisted.Dns.Serial
