/-
Model of `twisted.names._rfc1982.SerialNumber` (C34).

Hand-written, import-free.  Integers are `Int` exactly as Python's unbounded ints;
`%` on `Int` is `Int.emod`, which for a positive modulus agrees with Python's `%`.
The model mirrors the code: the constructor stores `number % 2**bits`, comparisons and
addition are the boolean expressions of `__lt__/__gt__/__eq__/__le__/__ge__/__add__`
over `self._number`, `other._number`, `self._halfRing`, `self._maxAdd`, `self._modulo`.
`serialBits = 0` makes `2 ** (serialBits - 1)` a float in Python; outside the statement.
-/
namespace Twisted.Dns.Serial

def modulo (bits : Nat) : Int := 2 ^ bits
def halfRing (bits : Nat) : Int := 2 ^ (bits - 1)
def maxAdd (bits : Nat) : Int := 2 ^ (bits - 1) - 1

/-- `SerialNumber(number, serialBits)._number` -/
def mk (number : Int) (bits : Nat) : Int := number % modulo bits

/-- `__eq__` (after `_convertOther` succeeded) -/
def eq (a b : Int) : Bool := decide (b = a)

/-- `__lt__` -/
def lt (a b half : Int) : Bool :=
  (decide (a < b) && decide (b - a < half)) || (decide (a > b) && decide (a - b > half))

/-- `__gt__` -/
def gt (a b half : Int) : Bool :=
  (decide (a < b) && decide (b - a > half)) || (decide (a > b) && decide (a - b < half))

/-- `__le__` : `self == other or self < other` -/
def le (a b half : Int) : Bool := eq a b || lt a b half

/-- `__ge__` : `self == other or self > other` -/
def ge (a b half : Int) : Bool := eq a b || gt a b half

/-- `__add__`: `none` models `raise ArithmeticError`. -/
def add (a b maxAdd modulo : Int) : Option Int :=
  if b ≤ maxAdd then some ((a + b) % modulo) else none

end Twisted.Dns.Serial
