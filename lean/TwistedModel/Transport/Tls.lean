/-!
Model of the TLS memory-BIO layer (C17).

Transcribes, from `src/twisted/protocols/tls.py`:
  `TLSMemoryBIOProtocol.{makeConnection,_checkHandshakeStatus,_flushSendBIO,_flushReceiveBIO,dataReceived,
   _shutdownTLS,_tlsShutdownFinished,connectionLost,loseConnection,abortConnection,write,_bufferedWrite,
   _unbufferPendingWrites,_write}`, `_AggregateSmallWrites.{write,_scheduledFlush,flush}`,
  `BufferingTLSTransport.{write,loseConnection}` (no producer registered: `_producer is None` throughout),
from `harness/shims/OpenSSL/SSL.py` the FakeEngine `Connection` (structure `Eng`), from
`twisted/test/iosim.py` `FakeTransport.{write,loseConnection,abortConnection,reportDisconnect}`, and the
scheduler of `harness/corr/C17.py` (`World.step`, `World.drain`).

One `Side` = application + TLS protocol + engine + aggregator + underlying transport of one endpoint.
`out` is the byte stream the endpoint's transport has accepted and the network has not yet delivered.
Ghost fields (no influence on behaviour): `closed`, `accepted`, `Eng.sentPlain`, `Eng.recvPlain`.
-/
namespace Twisted.Transport.Tls

abbrev Bytes := List UInt8

/-! ## FakeEngine -/

/-- outcome of an engine call: ok / WantReadError / ZeroReturnError / any other Error -/
inductive R where
  | ok | wantRead | zeroReturn | error
  deriving DecidableEq, Repr

structure Eng where
  isClient : Bool
  k : Nat
  recMax : Nat
  seen : Nat := 0
  inB : Bytes := []
  outB : Bytes := []
  plain : Bytes := []
  sentSD : Bool := false
  recvSD : Bool := false
  eof : Bool := false
  failed : Bool := false
  sentPlain : Bytes := []     -- ghost: every plaintext byte `send` accepted, in order
  recvPlain : Bytes := []     -- ghost: every plaintext byte decoded from application-data records, in order

def recHandshake : UInt8 := 22
def recData : UInt8 := 23
def recAlert : UInt8 := 21

/-- `_record(ty, payload)` -/
def record (ty : UInt8) (p : Bytes) : Bytes := ty :: UInt8.ofNat p.length :: p

/-- `Connection._head`: first complete record of a buffer: (type, payload, rest) -/
def head? (b : Bytes) : Option (UInt8 × Bytes × Bytes) :=
  match b with
  | ty :: n :: rest =>
    if rest.length < n.toNat then none else some (ty, rest.take n.toNat, rest.drop n.toNat)
  | _ => none

def Eng.hsDone (e : Eng) : Bool := e.k ≤ e.seen
def Eng.myTurn (e : Eng) : Bool := (e.seen % 2 == 0) == e.isClient
/-- `_starved`: SysCallError(-1,"Unexpected EOF") after bio_shutdown, else WantReadError -/
def Eng.starved (e : Eng) : R := if e.eof then .error else .wantRead

def Eng.bioWrite (e : Eng) (b : Bytes) : Eng := { e with inB := e.inB ++ b }

/-- `do_handshake`; fuel `k - seen + 1` suffices -/
def Eng.doHandshakeF : Nat → Eng → Eng × R
  | 0, e => (e, .error)
  | f + 1, e =>
    if e.failed then (e, .error)
    else if e.hsDone then (e, .ok)
    else if e.myTurn then
      Eng.doHandshakeF f { e with outB := e.outB ++ record recHandshake [UInt8.ofNat (e.seen % 256)], seen := e.seen + 1 }
    else match head? e.inB with
      | none => (e, e.starved)
      | some (ty, _, rest) =>
        if ty ≠ recHandshake then ({ e with failed := true }, .error)
        else Eng.doHandshakeF f { e with inB := rest, seen := e.seen + 1 }

def Eng.doHandshake (e : Eng) : Eng × R := Eng.doHandshakeF (e.k - e.seen + 1) e

/-- `send(data)` → (engine, outcome, bytes accepted) -/
def Eng.send (e : Eng) (data : Bytes) : Eng × R × Nat :=
  if e.failed then (e, .error, 0)
  else if e.sentSD then (e, .error, 0)
  else if !e.hsDone then (e, .wantRead, 0)
  else
    let n := min data.length e.recMax
    if n = 0 then (e, .ok, 0)
    else ({ e with outB := e.outB ++ record recData (data.take n), sentPlain := e.sentPlain ++ data.take n }, .ok, n)

/-- `recv(n)`; fuel `inB.length + 2` suffices -/
def Eng.recvF (n : Nat) : Nat → Eng → Eng × R × Bytes
  | 0, e => (e, .error, [])
  | f + 1, e =>
    if e.plain ≠ [] then ({ e with plain := e.plain.drop n }, .ok, e.plain.take n)
    else if e.recvSD then (e, .zeroReturn, [])
    else if e.failed then (e, .error, [])
    else if !e.hsDone then (e, e.starved, [])
    else match head? e.inB with
      | none => (e, e.starved, [])
      | some (ty, p, rest) =>
        if ty = recData then Eng.recvF n f { e with inB := rest, plain := p, recvPlain := e.recvPlain ++ p }
        else if ty = recAlert then ({ e with inB := rest, recvSD := true }, .zeroReturn, [])
        else ({ e with failed := true }, .error, [])

def Eng.recv (e : Eng) (n : Nat) : Eng × R × Bytes := Eng.recvF n (e.inB.length + 2) e

/-- `shutdown()` → (engine, shutdownSuccess) with `Error` already mapped to `False` as `_shutdownTLS` does -/
def Eng.shutdown (e : Eng) : Eng × Bool :=
  if e.failed then (e, false)
  else if e.seen = 0 then (e, true)
  else if !e.hsDone then (e, false)
  else
    let e' := if e.sentSD then e else { e with outB := e.outB ++ record recAlert [], sentSD := true }
    (e', e'.recvSD)

/-! ## one endpoint -/

structure Side where
  e : Eng
  buffering : Bool                 -- BufferingTLSTransport (true) or TLSMemoryBIOProtocol (false)
  hook : Option (Nat × Nat)        -- the application writes pat(start,n) from handshakeCompleted
  -- TLSMemoryBIOProtocol
  hsDone : Bool := false           -- _handshakeDone
  lost : Bool := false             -- _lostTLSConnection
  aborted : Bool := false          -- _aborted
  disc : Bool := false             -- disconnecting
  connected : Bool := true
  buf : List Bytes := []           -- _appSendBuffer
  -- _AggregateSmallWrites
  agg : List Bytes := []
  aggLeft : Int := 64000
  aggSched : Bool := false
  -- FakeTransport
  out : Bytes := []
  tDisc : Bool := false            -- transport.disconnecting
  tGone : Bool := false            -- transport.disconnected (connectionLost reported)
  -- application
  rcvd : Bytes := []
  lostN : Nat := 0
  late : Bool := false             -- dataReceived after connectionLost
  hsN : Nat := 0
  closed : Bool := false           -- ghost: the application called loseConnection
  accepted : Bytes := []           -- ghost: everything it wrote before that

def pat (start n : Nat) : Bytes := (List.range n).map fun i => UInt8.ofNat ((start + i) % 256)

/-- FakeTransport.write -/
def Side.tWrite (s : Side) (b : Bytes) : Side := if s.tDisc then s else { s with out := s.out ++ b }
/-- FakeTransport.loseConnection / abortConnection -/
def Side.tLose (s : Side) : Side := { s with tDisc := true }

/-- `_flushSendBIO` -/
def Side.flushSend (s : Side) : Side :=
  if s.e.outB = [] then s
  else Side.tWrite { s with e := { s.e with outB := s.e.outB.drop 32768 } } (s.e.outB.take 32768)

/-- the application's dataReceived -/
def Side.appData (s : Side) (b : Bytes) : Side :=
  { s with rcvd := s.rcvd ++ b, late := s.late || decide (0 < s.lostN) }

/-- `_tlsShutdownFinished` (the reason is not modelled) -/
def Side.tlsShutdownFinished (s : Side) : Side :=
  Side.tLose (Side.flushSend { s with lost := true })

/-- `_shutdownTLS` -/
def Side.shutdownTLS (s : Side) : Side :=
  let r := s.e.shutdown
  let s1 := Side.flushSend { s with e := r.1 }
  if r.2 then Side.tLose s1 else s1

/-- the `while alreadySent < len(bytes)` loop of `_write`; `rest` = bytes[alreadySent:] -/
def Side.writeLoop : Nat → Bytes → Side → Side
  | 0, _, s => s
  | f + 1, rest, s =>
    if rest = [] then s
    else match s.e.send (rest.take 16384) with
      | (e', .wantRead, _) => { s with e := e', buf := s.buf ++ [rest] }
      | (e', .ok, n) => Side.writeLoop f (rest.drop n) (Side.flushSend { s with e := e' })
      | (e', _, _) => Side.tlsShutdownFinished { s with e := e' }

/-- `_write` (with the order-preserving guard of the repaired code) -/
def Side.write' (s : Side) (b : Bytes) : Side :=
  if s.lost then s
  else if s.buf ≠ [] then { s with buf := s.buf ++ [b] }
  else Side.writeLoop (b.length + 1) b s

/-- `TLSMemoryBIOProtocol.write` -/
def Side.tlsWrite (s : Side) (b : Bytes) : Side := if s.disc then s else Side.write' s b

/-- `_AggregateSmallWrites.flush` -/
def Side.aggFlush (s : Side) : Side :=
  if s.agg = [] then s
  else { Side.tlsWrite { s with aggLeft := 64000 } s.agg.flatten with agg := [] }

/-- `_AggregateSmallWrites.write` -/
def Side.aggWrite (s : Side) (b : Bytes) : Side :=
  let s1 := { s with agg := s.agg ++ [b], aggLeft := s.aggLeft - b.length }
  if s1.aggLeft < 0 then Side.aggFlush s1
  else if s1.aggSched then s1
  else { s1 with aggSched := true }

/-- `transport.write(data)` as the application sees it -/
def Side.transportWrite (s : Side) (b : Bytes) : Side :=
  if s.buffering then Side.aggWrite s b else Side.tlsWrite s b

/-- an application write (ghost bookkeeping + transport.write) -/
def Side.appWrite (s : Side) (b : Bytes) : Side :=
  Side.transportWrite (if s.closed then s else { s with accepted := s.accepted ++ b }) b

/-- `_unbufferPendingWrites` -/
def Side.unbuffer (s : Side) : Side :=
  let s1 := s.buf.foldl Side.write' { s with buf := [] }
  if s1.buf ≠ [] then s1
  else if s1.disc then Side.shutdownTLS s1
  else s1

/-- `_checkHandshakeStatus` -/
def Side.checkHandshake (s : Side) : Side :=
  if s.aborted then s
  else match s.e.doHandshake with
    | (e', .wantRead) => Side.flushSend { s with e := e' }
    | (e', .ok) =>
      let s1 := { s with e := e', hsDone := true, hsN := s.hsN + 1 }
      match s1.hook with
      | some (st, n) => Side.appWrite s1 (pat st n)
      | none => s1
    | (e', _) => Side.tlsShutdownFinished { s with e := e' }

/-- the `while not self._lostTLSConnection` loop of `_flushReceiveBIO` -/
def Side.recvLoop : Nat → Side → Side
  | 0, s => s
  | f + 1, s =>
    if s.lost then s
    else match s.e.recv 32768 with
      | (e', .wantRead, _) => { s with e := e' }
      | (e', .zeroReturn, _) =>
        Side.recvLoop f (Side.tlsShutdownFinished (Side.shutdownTLS { s with e := e' }))
      | (e', .error, _) => Side.recvLoop f (Side.tlsShutdownFinished { s with e := e' })
      | (e', .ok, b) =>
        Side.recvLoop f (if s.aborted then { s with e := e' } else Side.appData { s with e := e' } b)

/-- `_flushReceiveBIO` -/
def Side.flushReceive (s : Side) : Side :=
  Side.flushSend (Side.recvLoop (s.e.plain.length + s.e.inB.length + 2) s)

/-- `dataReceived` -/
def Side.dataReceived (s : Side) (b : Bytes) : Side :=
  let s0 := { s with e := s.e.bioWrite b }
  let s1 := if s0.hsDone then s0 else Side.checkHandshake s0
  if !s1.hsDone then s1
  else
    let s2 := if s1.buf ≠ [] then Side.unbuffer s1 else s1
    Side.flushReceive s2

/-- `connectionLost` (TLS layer, then the application's) -/
def Side.connectionLost (s : Side) : Side :=
  let s1 := if s.lost then s
            else { Side.flushReceive { s with e := { s.e with eof := true } } with lost := true }
  { s1 with connected := false, lostN := s1.lostN + 1 }

/-- `abortConnection` -/
def Side.abortConnection (s : Side) : Side :=
  Side.tLose (Side.shutdownTLS { s with aborted := true, disc := true })

/-- `TLSMemoryBIOProtocol.loseConnection` -/
def Side.tlsLoseConnection (s : Side) : Side :=
  if s.disc || !s.connected then s
  else
    let s1 := if !s.hsDone && s.buf.isEmpty then Side.abortConnection s else s
    let s2 := { s1 with disc := true }
    if s2.buf.isEmpty then Side.shutdownTLS s2 else s2

/-- the application calls `transport.loseConnection()` -/
def Side.appLose (s : Side) : Side :=
  let s1 := if s.buffering then Side.aggFlush s else s          -- BufferingTLSTransport.loseConnection flushes first
  Side.tlsLoseConnection { s1 with closed := true }

/-- a reactor iteration of this side's clock: `_scheduledFlush` if scheduled -/
def Side.tick (s : Side) : Side :=
  if s.buffering && s.aggSched then Side.aggFlush { s with aggSched := false } else s

/-- `makeConnection` -/
def Side.start (isClient : Bool) (k recMax : Nat) (buffering : Bool) (hook : Option (Nat × Nat)) : Side :=
  Side.checkHandshake { e := { isClient := isClient, k := k, recMax := recMax }, buffering := buffering, hook := hook }

/-! ## the two endpoints and the scheduler -/

structure World where
  c : Side
  s : Side

inductive Who where
  | c | s
  deriving DecidableEq, Repr

inductive Op where
  | W (w : Who) (start n : Nat)
  | L (w : Who)
  | D (w : Who) (n : Nat)
  | T (w : Who)
  | F (w : Who)
  | E (w : Who)
  deriving Repr

def World.get (w : World) : Who → Side
  | .c => w.c
  | .s => w.s

def World.set (w : World) : Who → Side → World
  | .c, x => { w with c := x }
  | .s, x => { w with s := x }

def Who.other : Who → Who
  | .c => .s
  | .s => .c

def World.step (w : World) : Op → World
  | .W who st n => w.set who ((w.get who).appWrite (pat st n))
  | .L who => w.set who (w.get who).appLose
  | .T who => w.set who (w.get who).tick
  | .D who n =>
    let me := w.get who
    let peer := w.get who.other
    if me.tGone || n == 0 || peer.out.isEmpty then w
    else (w.set who.other { peer with out := peer.out.drop n }).set who (me.dataReceived (peer.out.take n))
  | .F who =>
    let me := w.get who
    if me.tDisc && !me.tGone then w.set who (Side.connectionLost { me with tGone := true }) else w
  | .E who =>
    let me := w.get who
    let peer := w.get who.other
    if peer.tDisc && peer.out.isEmpty && !me.tGone then
      w.set who (Side.connectionLost { me with tDisc := true, tGone := true })
    else w

def World.run (w : World) (ops : List Op) : World := ops.foldl World.step w

def drainRound : List Op :=
  [.D .c (2 ^ 30), .D .s (2 ^ 30), .T .c, .T .s, .F .c, .F .s, .E .c, .E .s]

def World.drain (w : World) : Nat → World
  | 0 => w
  | n + 1 => World.drain (w.run drainRound) n

structure Cfg where
  buffering : Bool
  recMax : Nat
  hook : Option (Nat × Nat)

def World.init (k : Nat) (cc cs : Cfg) : World :=
  { c := Side.start true k cc.recMax cc.buffering cc.hook,
    s := Side.start false k cs.recMax cs.buffering cs.hook }

end Twisted.Transport.Tls
