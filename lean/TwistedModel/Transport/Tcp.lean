/-!
TCP transport over a kernel socket pair — executable model for C15.

Transcribes (src/twisted/internet):
  * abstract.py  `FileDescriptor.write / writeSequence / loseConnection / loseWriteConnection /
                  doWrite / connectionLost / pauseProducing / resumeProducing`
                 (`_tempDataBuffer` is kept flattened — its chunk structure is C14's subject)
  * tcp.py       `Connection.doRead / _dataReceived / writeSomeData / _closeWriteConnection /
                  readConnectionLost / connectionLost`, `_SocketCloser._closeSocket`,
                  `_AbortingMixin.abortConnection`
                 — the protocol callbacks made from there (`dataReceived`, `readConnectionLost`,
                 `writeConnectionLost`) may call the transport back RE-ENTRANTLY (scripts `onData`,
                 `onReadLost`, `onWriteLost`): in particular a `loseConnection()` issued inside `dataReceived` is
                 followed by the `doWrite` of the same IN|OUT readiness report
  * posixbase.py `_PollLikeMixin._doReadOrWrite`, `_DisconnectSelectableMixin._disconnectSelectable`
                 (select/asyncio dispatch = the single-event special cases of the poll-like one)

plus a *kernel* (the part that is assumed, not transcribed): per endpoint a socket with a bounded
receive queue, FIN/RST flags, `shutdown(SHUT_WR)`, orderly `close` (which resets the peer when unread
data is discarded — Linux) and aborting `close` (SO_LINGER 1,0 → RST).  Nondeterminism — how many
bytes `send` accepts / `recv` returns, which readiness events the poller reports and when, when the
delayed call of `abortConnection` runs, when the application calls — is the schedule (`List Ev`).

A `View` is what one endpoint's code can touch: its own `Conn`, its own socket and the peer's socket.
-/
namespace Twisted.Transport.Tcp

abbrev Bytes := List UInt8

/-- `ConnectionDone`, `ConnectionLost`, `ConnectionAborted`, anything else (`_NO_FILEDESC`). -/
inductive Reason | done | lost | aborted | other
  deriving DecidableEq, Repr, Inhabited

/-- what the application may call on the transport -/
inductive AppOp
  | write (d : Bytes) | writeSeq (ds : List Bytes) | lose | loseWrite | abort | pause | resume
  deriving DecidableEq, Repr, Inhabited

/-- kernel side of one endpoint -/
structure Sock where
  inq : Bytes := []          -- bytes that arrived and were not yet returned by recv
  inFin : Bool := false      -- peer's FIN arrived (after inq)
  inRst : Bool := false      -- peer's RST arrived
  shutWr : Bool := false     -- we sent FIN
  closed : Bool := false
  deriving DecidableEq, Repr, Inhabited

structure Params where
  sendLimit : Nat := 131072  -- FileDescriptor.SEND_LIMIT
  recvMax : Nat := 65536     -- FileDescriptor.bufferSize (argument of recv)
  cap : Nat := 65536         -- kernel: capacity of a receive queue
  deriving DecidableEq, Repr, Inhabited

/-- transport (`tcp.Connection`) + its protocol's log -/
structure Conn where
  connected : Bool := true
  disconnected : Bool := false
  disconnecting : Bool := false
  writeDisconnecting : Bool := false
  writeDisconnected : Bool := false
  dataBuffer : Bytes := []
  offset : Nat := 0
  temp : Bytes := []             -- concatenation of _tempDataBuffer (_tempDataLen = its length)
  reading : Bool := true         -- registered with the reactor for reading / writing
  writing : Bool := false
  aborting : Bool := false       -- _aborting (doRead/doWrite replaced by no-ops)
  abortCall : Bool := false      -- callLater(0, connectionLost, ConnectionAborted) pending
  hasSocket : Bool := true       -- hasattr(self, "socket")
  halfCloseable : Bool := false  -- protocol provides IHalfCloseableProtocol
  onReadLost : List AppOp := []  -- what the protocol's readConnectionLost() calls on the transport
  onData : List (Nat × List AppOp) := []  -- what the protocol's dataReceived() calls on the transport: the ops of
                                 -- an entry (threshold, ops) are called, once, inside the dataReceived call that
                                 -- brings the total received to ≥ threshold (entries in list order)
  onWriteLost : List AppOp := [] -- what the protocol's writeConnectionLost() calls on the transport
  -- observables / ghosts
  accepted : Bytes := []         -- bytes taken by write/writeSequence
  sent : Bytes := []             -- bytes taken by the kernel
  received : Bytes := []         -- protocol.dataReceived, concatenated
  lost : List Reason := []       -- protocol.connectionLost calls
  readLost : Nat := 0            -- protocol.readConnectionLost calls
  writeLost : Nat := 0           -- protocol.writeConnectionLost calls
  deriving DecidableEq, Repr, Inhabited

structure View where
  c : Conn
  k : Sock
  pk : Sock
  deriving DecidableEq, Repr, Inhabited

/-! ### kernel -/

/-- `shutdown(SHUT_WR)` -/
def kShutWr (v : View) : View :=
  { v with k := { v.k with shutWr := true }, pk := { v.pk with inFin := true } }

/-- `close()`; `orderly = false` is the SO_LINGER(1,0) close of `abortConnection`.  Discarding unread
    data on close makes Linux answer with RST instead of FIN. -/
def kClose (v : View) (orderly : Bool) : View :=
  let rst := !orderly || !v.k.inq.isEmpty
  { v with k := { v.k with closed := true, shutWr := true, inq := [] },
           pk := { v.pk with inFin := true, inRst := v.pk.inRst || rst } }

/-- `send(data)`: `none` = an error other than EWOULDBLOCK; `some l` = l bytes taken (0 = EWOULDBLOCK).
    `n` is the scheduler's bound on what the kernel takes. -/
def kSend (p : Params) (v : View) (data : Bytes) (n : Nat) : Option Nat × View :=
  if v.k.inRst || v.k.shutWr then (none, v)
  else if data.isEmpty then (some 0, v)
  else if v.pk.closed then (some (min n data.length), { v with k := { v.k with inRst := true } })
  else
    let l := min n (min data.length (p.cap - v.pk.inq.length))
    (some l, { v with pk := { v.pk with inq := v.pk.inq ++ data.take l } })

inductive RecvRes | data (d : Bytes) | eof | err | again
  deriving DecidableEq, Repr

/-- `recv(recvMax)`; `n = 0` is a spurious wake-up (EWOULDBLOCK). -/
def kRecv (p : Params) (v : View) (n : Nat) : RecvRes × View :=
  if n = 0 then (.again, v)
  else if !v.k.inq.isEmpty then
    let m := min n p.recvMax
    (.data (v.k.inq.take m), { v with k := { v.k with inq := v.k.inq.drop m } })
  else if v.k.inRst then (.err, v)
  else if v.k.inFin then (.eof, v)
  else (.again, v)

/-- POLLHUP/POLLERR condition of the socket -/
def hupCond (k : Sock) : Bool := k.inRst || (k.inFin && k.shutWr)

/-! ### transport -/

/-- `Connection.connectionLost` (→ `FileDescriptor.connectionLost`, `_closeSocket`, protocol) -/
def connLost (v : View) (r : Reason) : View :=
  if !v.c.hasSocket then v
  else
    kClose { v with c := { v.c with disconnected := true, connected := false, reading := false,
                                     writing := false, hasSocket := false, lost := v.c.lost ++ [r] } }
           (r != .aborted)

def doWriteOp (c : Conn) (d : Bytes) : Conn :=
  if !c.connected || c.writeDisconnected then c
  else if d.isEmpty then c
  else { c with temp := c.temp ++ d, accepted := c.accepted ++ d, writing := true }

def doWriteSeqOp (c : Conn) (ds : List Bytes) : Conn :=
  if !c.connected || ds.isEmpty || c.writeDisconnected then c
  else { c with temp := c.temp ++ ds.flatten, accepted := c.accepted ++ ds.flatten, writing := true }

def appOp (v : View) : AppOp → View
  | .write d => { v with c := doWriteOp v.c d }
  | .writeSeq ds => { v with c := doWriteSeqOp v.c ds }
  | .lose =>
    if v.c.connected && !v.c.disconnecting then
      if v.c.writeDisconnected then
        connLost { v with c := { v.c with reading := false, writing := false } } .done
      else { v with c := { v.c with reading := false, writing := true, disconnecting := true } }
    else v
  | .loseWrite => { v with c := { v.c with writeDisconnecting := true, writing := true } }
  | .abort =>
    if v.c.disconnected || v.c.aborting then v
    else { v with c := { v.c with aborting := true, reading := false, writing := false, abortCall := true } }
  | .pause => { v with c := { v.c with reading := false } }
  | .resume =>
    if v.c.connected && !v.c.disconnecting then { v with c := { v.c with reading := true } } else v

def appOps (v : View) (ops : List AppOp) : View := ops.foldl appOp v

/-- the delayed call scheduled by `abortConnection` -/
def timer (v : View) : View :=
  if v.c.abortCall then connLost { v with c := { v.c with abortCall := false } } .aborted else v

/-- `Connection.readConnectionLost` -/
def readConnLost (v : View) : View :=
  if v.c.halfCloseable then
    appOps { v with c := { v.c with readLost := v.c.readLost + 1 } } v.c.onReadLost
  else connLost v .done

/-- `_disconnectSelectable(selectable, why, isRead)` -/
def disconnectSelectable (v : View) (why : Reason) (isRead : Bool) : View :=
  let v := { v with c := { v.c with reading := false } }
  if why == .done && isRead then readConnLost v
  else connLost { v with c := { v.c with writing := false } } why

/-- the transport calls of the leading `onData` entries whose threshold is reached with `n` bytes received -/
def dueOps (n : Nat) : List (Nat × List AppOp) → List AppOp
  | [] => []
  | (t, ops) :: rest => if t ≤ n then ops ++ dueOps n rest else []

/-- the `onData` entries that stay armed -/
def restData (n : Nat) : List (Nat × List AppOp) → List (Nat × List AppOp)
  | [] => []
  | (t, ops) :: rest => if t ≤ n then restData n rest else (t, ops) :: rest

/-- `protocol.dataReceived(d)`: the protocol records the bytes and — re-entrantly, inside `doRead`, before the
    `doWrite` of the same readiness report — calls the transport as its `onData` script says -/
def dataReceived (v : View) (d : Bytes) : View :=
  let c := { v.c with received := v.c.received ++ d }
  appOps { v with c := { c with onData := restData c.received.length c.onData } } (dueOps c.received.length c.onData)

/-- `Connection.doRead`: result (`none` = keep going) and new state -/
def doRead (p : Params) (v : View) (n : Nat) : Option Reason × View :=
  if v.c.aborting then (none, v)
  else match kRecv p v n with
    | (.again, v) => (none, v)
    | (.err, v) => (some .lost, v)
    | (.eof, v) => (some .done, v)
    | (.data d, v) => (none, dataReceived v d)

/-- first part of `FileDescriptor.doWrite`: fold `_tempDataBuffer` into `dataBuffer` when less than
    SEND_LIMIT bytes are left in it -/
def mergeBuf (p : Params) (c : Conn) : Conn :=
  if c.dataBuffer.length - c.offset < p.sendLimit then
    { c with dataBuffer := c.dataBuffer.drop c.offset ++ c.temp, offset := 0, temp := [] }
  else c

/-- what `writeSomeData` hands to `send`: the unsent part of `dataBuffer`, at most SEND_LIMIT bytes -/
def offered (p : Params) (c : Conn) : Bytes := (c.dataBuffer.drop c.offset).take p.sendLimit

/-- rest of `FileDescriptor.doWrite` after `writeSomeData` returned `l` (with `_closeWriteConnection`) -/
def afterSend (v : View) (off : Bytes) (l : Nat) : Option Reason × View :=
  let c := { v.c with offset := v.c.offset + l, sent := v.c.sent ++ off.take l }
  if c.offset == c.dataBuffer.length && c.temp.isEmpty then
    let c := { c with dataBuffer := [], offset := 0, writing := false }
    if c.disconnecting then (some .done, { v with c := c })
    else if c.writeDisconnecting then
      let v := kShutWr { v with c := { c with writeDisconnected := true } }
      (none, if c.halfCloseable then
               appOps { v with c := { v.c with writeLost := v.c.writeLost + 1 } } c.onWriteLost
             else v)
    else (none, { v with c := c })
  else (none, { v with c := c })

/-- `FileDescriptor.doWrite` with `Connection.writeSomeData` -/
def doWrite (p : Params) (v : View) (n : Nat) : Option Reason × View :=
  if v.c.aborting then (none, v)
  else
    let c := mergeBuf p v.c
    match kSend p { v with c := c } (offered p c) n with
    | (none, v) => (some .lost, v)
    | (some l, v) => afterSend v (offered p c) l

/-- the `else` branch of `_doReadOrWrite`: `doRead` if IN, then `doWrite` if OUT and `doRead` returned
    nothing; a returned reason goes to `_disconnectSelectable` with `inRead` = which of the two ran last -/
def readThenWrite (p : Params) (v : View) (inE outE : Bool) (nr nw : Nat) : View :=
  let r := if inE then doRead p v nr else (none, v)
  match r.1 with
  | some w => disconnectSelectable r.2 w inE
  | none =>
    if outE then
      let r2 := doWrite p r.2 nw
      match r2.1 with
      | some w => disconnectSelectable r2.2 w false
      | none => r2.2
    else r.2

/-- one readiness report of the poller for this endpoint, dispatched by `_doReadOrWrite`.
    `inn/out/hup` are what the scheduler proposes; the poller only reports what is registered, reports
    HUP only when the kernel condition holds, and reports IN together with HUP when reading. -/
def io (p : Params) (v : View) (inn out hup : Bool) (nr nw : Nat) : View :=
  let hupE := hup && hupCond v.k && (v.c.reading || v.c.writing)
  let inE := (inn || hupE) && v.c.reading
  let outE := out && v.c.writing
  if !(inE || outE || hupE) then v
  else if hupE && !inE then
    if v.c.reading then disconnectSelectable v .done true
    else disconnectSelectable v .lost false
  else if !v.c.hasSocket then disconnectSelectable v .other false
  else readThenWrite p v inE outE nr nw

/-! ### the two-endpoint system -/

inductive Side | A | B
  deriving DecidableEq, Repr, Inhabited

inductive Ev
  | app (e : Side) (op : AppOp)
  | io (e : Side) (inn out hup : Bool) (nr nw : Nat)
  | timer (e : Side)
  deriving DecidableEq, Repr, Inhabited

structure Sys where
  p : Params
  a : Conn
  b : Conn
  ka : Sock
  kb : Sock
  deriving DecidableEq, Repr, Inhabited

/-- a freshly connected transport: only the protocol's behaviour is configurable -/
def Conn.fresh (half : Bool) (onReadLost : List AppOp) (onData : List (Nat × List AppOp) := [])
    (onWriteLost : List AppOp := []) : Conn :=
  { halfCloseable := half, onReadLost := onReadLost, onData := onData, onWriteLost := onWriteLost }

/-- both ends just connected, nothing in flight -/
def Sys.init (p : Params) (a b : Conn) : Sys := { p := p, a := a, b := b, ka := {}, kb := {} }

def Sys.view (s : Sys) : Side → View
  | .A => ⟨s.a, s.ka, s.kb⟩
  | .B => ⟨s.b, s.kb, s.ka⟩

def Sys.put (s : Sys) : Side → View → Sys
  | .A, v => { s with a := v.c, ka := v.k, kb := v.pk }
  | .B, v => { s with b := v.c, kb := v.k, ka := v.pk }

def step (s : Sys) : Ev → Sys
  | .app e op => s.put e (appOp (s.view e) op)
  | .io e i o h nr nw => s.put e (io s.p (s.view e) i o h nr nw)
  | .timer e => s.put e (timer (s.view e))

def run (s : Sys) (evs : List Ev) : Sys := evs.foldl step s

/-- nothing can happen any more without the application: no delayed call pending, and for each
    endpoint the kernel has nothing to report on what it is registered for. -/
def readable (k : Sock) : Bool := !k.inq.isEmpty || k.inFin || k.inRst
def writable (p : Params) (k pk : Sock) : Bool :=
  k.inRst || k.shutWr || pk.closed || pk.inq.length < p.cap

def quietView (p : Params) (v : View) : Bool :=
  !v.c.abortCall && !(v.c.reading && readable v.k) && !(v.c.writing && writable p v.k v.pk)

def Sys.quiescent (s : Sys) : Bool := quietView s.p (s.view .A) && quietView s.p (s.view .B)

/-- a fair round: everything reported to both endpoints with unbounded sizes, delayed calls run -/
def fairRound : List Ev :=
  [.io .A true true true 1000000000 1000000000, .io .B true true true 1000000000 1000000000,
   .timer .A, .timer .B]

/-- run fair rounds until quiescent (fuel-bounded; the driver's outer loop) -/
def runFair : Nat → Sys → Sys
  | 0, s => s
  | fuel + 1, s => if s.quiescent then s else runFair fuel (run s fairRound)

end Twisted.Transport.Tcp
