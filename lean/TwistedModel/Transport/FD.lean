/-
Executable model of the two-level send buffer of `twisted.internet.abstract`
(src/twisted/internet/abstract.py):

  `_ConsumerMixin.registerProducer`, `_ConsumerMixin.unregisterProducer`,
  `FileDescriptor.registerProducer`, `FileDescriptor.write`, `writeSequence`, `doWrite` (with `_concatenate`,
  `offset`, `_tempDataBuffer`, `_tempDataLen`, `SEND_LIMIT`), `_isSendBufferFull`,
  `_maybePauseProducer`, `loseConnection`, `loseWriteConnection`, `_postLoseConnection`,
  `connectionLost`, `pauseProducing` / `resumeProducing` / `stopProducing`, `stopConsuming`,
  `startReading/stopReading/startWriting/stopWriting` against a reactor that keeps a reader
  set and a writer set, and the reactor's reaction to `doWrite` returning a value
  (`posixbase._disconnectSelectable`: removeReader, removeWriter, `connectionLost`).

Nondeterminism is data: the operating system's answer to each `writeSomeData` call is the
`Accept` carried by the `tick` operation (any count, clamped to what was offered, or an
error); user code (producers) is a finite behaviour: a queue of scripts per callback, the
k-th call of `resumeProducing` / `pauseProducing` runs the k-th script (re-entrant calls
into the transport), later calls do nothing.  Callbacks are passed around as a function
`cb`, tied by `cbAt` (structural in the nesting depth).

Ghost fields (`sentChunks`, `accChunks`, `lastCall`, `regShut`, `log`) record what the property talks
about; no transport decision reads them.
-/
namespace Twisted.Transport.FD

abbrev Bytes := List UInt8

inductive Kind where
  | resume | pause | stop
  deriving DecidableEq, Repr

/-- re-entrant calls a producer callback may make on the transport -/
inductive POp where
  | write (d : Bytes)
  | writeSeq (ds : List Bytes)
  | unregister
  | lose
  | loseWrite
  deriving Repr

structure Producer where
  onResume : List (List POp)
  onPause : List (List POp)
  deriving Repr

/-- the operating system's answer to one `writeSomeData(data)` -/
inductive Accept where
  | n (k : Nat)        -- accepts `min k len(data)` bytes (0 allowed)
  | all
  | err                -- returns an exception instance (connection lost)
  deriving Repr

inductive Reason where
  | done | err | ext
  deriving DecidableEq, Repr

inductive Ev where
  | call (pid : Nat) (k : Kind)
  | os (offered : Bytes) (accepted : Nat)
  | osErr (offered : Bytes)
  | halfClose
  /-- `connectionLost`; ghost payload: bytes accepted by `write` but not handed to the OS at that
      moment, whether a pull producer is registered, whether the write side was already shut, whether the
      registered producer was registered when the write side was already shut (`regShut`) -/
  | lost (r : Reason) (pending : Nat) (pull : Bool) (wd : Bool) (late : Bool)
  | raised                                  -- RuntimeError from registerProducer
  deriving DecidableEq, Repr

structure St where
  sendLimit : Nat
  bufferSize : Nat
  dataBuffer : Bytes := []
  offset : Nat := 0
  temp : List Bytes := []
  tempLen : Nat := 0
  connected : Bool := true
  disconnected : Bool := false
  disconnecting : Bool := false
  writeDisconnecting : Bool := false
  writeDisconnected : Bool := false
  producer : Option Nat := none
  streaming : Bool := false
  producerPaused : Bool := false
  reader : Bool := true
  writer : Bool := false
  prods : List Producer := []
  -- ghosts
  sentChunks : List Bytes := []     -- newest first
  accChunks : List Bytes := []      -- newest first
  lastCall : Option Kind := none    -- last callback made to the *registered* producer since it registered
  starved : Bool := false           -- a script was skipped because the nesting depth ran out
  regShut : Bool := false           -- the write side was already shut when the current producer registered
  log : List Ev := []               -- newest first; cleared by the driver after every operation
  deriving Repr

/-- bytes handed to the operating system so far, in order -/
def St.sent (s : St) : Bytes := s.sentChunks.reverse.flatten
/-- bytes accepted by `write`/`writeSequence` so far (connected, write side open), in order -/
def St.acc (s : St) : Bytes := s.accChunks.reverse.flatten
/-- bytes buffered and not yet handed over -/
def St.unsent (s : St) : Bytes := s.dataBuffer.drop s.offset ++ s.temp.flatten

def emit (e : Ev) (s : St) : St := { s with log := e :: s.log }

def startWriting (s : St) : St := { s with writer := true }
def stopWriting (s : St) : St := { s with writer := false }
def startReading (s : St) : St := { s with reader := true }
def stopReading (s : St) : St := { s with reader := false }

abbrev Cb := Nat → Kind → St → St

/-- record a callback to producer `pid`, then run it -/
def callPid (cb : Cb) (pid : Nat) (k : Kind) (s : St) : St :=
  cb pid k { s with log := Ev.call pid k :: s.log,
                    lastCall := if s.producer = some pid then some k else s.lastCall }

/-- `self.producer.<k>()` -/
def callProducer (cb : Cb) (k : Kind) (s : St) : St :=
  match s.producer with
  | some pid => callPid cb pid k s
  | none => s

/-- `_isSendBufferFull`: note `len(self.dataBuffer)`, not `len(self.dataBuffer) - self.offset` -/
def isSendBufferFull (s : St) : Bool := s.dataBuffer.length + s.tempLen > s.bufferSize

/-- `_maybePauseProducer` -/
def maybePauseProducer (cb : Cb) (s : St) : St :=
  if s.producer.isSome && s.streaming then
    if isSendBufferFull s then callProducer cb .pause { s with producerPaused := true }
    else s
  else s

/-- `write(data)` -/
def write (cb : Cb) (d : Bytes) (s : St) : St :=
  if !s.connected || s.writeDisconnected then s
  else if d.isEmpty then s
  else
    let s := { s with temp := s.temp ++ [d], tempLen := s.tempLen + d.length,
                      accChunks := d :: s.accChunks }
    startWriting (maybePauseProducer cb s)

/-- `writeSequence(iovec)` (a list) -/
def writeSeq (cb : Cb) (ds : List Bytes) (s : St) : St :=
  if !s.connected || ds.isEmpty || s.writeDisconnected then s
  else
    let s := { s with temp := s.temp ++ ds, tempLen := s.tempLen + (ds.map List.length).sum,
                      accChunks := ds.flatten :: s.accChunks }
    startWriting (maybePauseProducer cb s)

/-- `connectionLost(reason)`; the `lost` event is emitted by the caller -/
def connectionLost (cb : Cb) (s : St) : St :=
  let s := { s with disconnected := true, connected := false }
  let s := match s.producer with
    | some _ => { callProducer cb .stop s with producer := none }
    | none => s
  stopWriting (stopReading s)

def lostEv (r : Reason) (s : St) : Ev :=
  Ev.lost r s.unsent.length (s.producer.isSome && !s.streaming) s.writeDisconnected s.regShut

/-- `loseConnection()` -/
def loseConnection (cb : Cb) (s : St) : St :=
  if s.connected && !s.disconnecting then
    if s.writeDisconnected then
      let s := stopWriting (stopReading s)
      connectionLost cb (emit (lostEv .done s) s)
    else
      { startWriting (stopReading s) with disconnecting := true }
  else s

/-- `loseWriteConnection()` (unconditional, as in the code) -/
def loseWriteConnection (s : St) : St :=
  startWriting { s with writeDisconnecting := true }

/-- `unregisterProducer()` -/
def unregisterProducer (s : St) : St :=
  let s := { s with producer := none }
  if s.connected && s.disconnecting then startWriting s else s

/-- `FileDescriptor.registerProducer(producer, streaming)`: `_ConsumerMixin.registerProducer`, then
    `_maybePauseProducer()` (a push producer registered on a full buffer is paused at once) -/
def registerProducer (cb : Cb) (pid : Nat) (streaming : Bool) (s : St) : St :=
  if s.producer.isSome then emit .raised s
  else if s.disconnected then callPid cb pid .stop s
  else
    let s := { s with producer := some pid, streaming := streaming, lastCall := none,
                      regShut := s.writeDisconnected }
    maybePauseProducer cb (if !streaming then callProducer cb .resume s else s)

inductive Ret where
  | none | done | err
  deriving DecidableEq, Repr

/-- the `_concatenate` step at the top of `doWrite` -/
def merge (s : St) : St :=
  if s.dataBuffer.length - s.offset < s.sendLimit then
    { s with dataBuffer := s.dataBuffer.drop s.offset ++ s.temp.flatten, offset := 0, temp := [], tempLen := 0 }
  else s

/-- what happens in `doWrite` once `offset == len(dataBuffer) and not _tempDataLen` -/
def drained (cb : Cb) (s : St) : St × Ret :=
  let s := stopWriting { s with dataBuffer := [], offset := 0 }
  if s.producer.isSome && (!s.streaming || s.producerPaused) then
    (callProducer cb .resume { s with producerPaused := false }, .none)
  else if s.disconnecting then (s, .done)
  else if s.writeDisconnecting then (emit .halfClose { s with writeDisconnected := true }, .none)
  else (s, .none)

/-- how many of `n` offered bytes the OS takes; `none` = `writeSomeData` returned an exception -/
def acceptLen (a : Accept) (n : Nat) : Option Nat :=
  match a with
  | .n k => some (min k n)
  | .all => some n
  | .err => none

/-- `doWrite()` with the OS answering `a` -/
def doWrite (cb : Cb) (a : Accept) (s : St) : St × Ret :=
  let s := merge s
  let offered := s.dataBuffer.drop s.offset
  match acceptLen a offered.length with
  | none => (emit (.osErr offered) s, .err)
  | some l =>
    let s := { s with offset := s.offset + l, sentChunks := offered.take l :: s.sentChunks,
                      log := Ev.os offered l :: s.log }
    if s.offset == s.dataBuffer.length && s.tempLen == 0 then drained cb s
    else (s, .none)

/-- `_disconnectSelectable(selectable, why, …)` of the reactor -/
def reactorLost (cb : Cb) (r : Reason) (s : St) : St :=
  let s := stopWriting (stopReading s)
  connectionLost cb (emit (lostEv r s) s)

/-- one writability event from the reactor: only descriptors in the writer set get `doWrite` -/
def tick (cb : Cb) (a : Accept) (s : St) : St :=
  if s.writer then
    match doWrite cb a s with
    | (s, .none) => s
    | (s, .done) => reactorLost cb .done s
    | (s, .err) => reactorLost cb .err s
  else s

/-- `FileDescriptor.resumeProducing` (the transport as a producer) -/
def resumeT (s : St) : St := if s.connected && !s.disconnecting then startReading s else s
/-- `FileDescriptor.pauseProducing` -/
def pauseT (s : St) : St := stopReading s

def applyP (cb : Cb) (op : POp) (s : St) : St :=
  match op with
  | .write d => write cb d s
  | .writeSeq ds => writeSeq cb ds s
  | .unregister => unregisterProducer s
  | .lose => loseConnection cb s
  | .loseWrite => loseWriteConnection s

def runScript (cb : Cb) (ops : List POp) (s : St) : St := ops.foldl (fun s op => applyP cb op s) s

def setProd (ps : List Producer) (i : Nat) (p : Producer) : List Producer := ps.set i p

/-- take the next script of callback `k` of producer `pid` off its queue -/
def popScript (pid : Nat) (k : Kind) (s : St) : List POp × St :=
  match s.prods[pid]? with
  | none => ([], s)
  | some p =>
    match k with
    | .resume =>
      match p.onResume with
      | [] => ([], s)
      | sc :: rest => (sc, { s with prods := s.prods.set pid { p with onResume := rest } })
    | .pause =>
      match p.onPause with
      | [] => ([], s)
      | sc :: rest => (sc, { s with prods := s.prods.set pid { p with onPause := rest } })
    | .stop => ([], s)

/-- the producers' callbacks, `depth` levels of re-entrancy deep -/
def cbAt : Nat → Cb
  | 0, pid, k, s =>
    let (sc, s) := popScript pid k s
    if sc.isEmpty then s else { s with starved := true }
  | d + 1, pid, k, s =>
    let (sc, s) := popScript pid k s
    runScript (cbAt d) sc s

inductive Op where
  | write (d : Bytes)
  | writeSeq (ds : List Bytes)
  | register (pid : Nat) (streaming : Bool)
  | unregister
  | lose
  | loseWrite
  | pauseT
  | resumeT
  | tick (a : Accept)
  | extLost                 -- the reactor drops the descriptor for a reason of its own (read side)
  | stopConsuming
  deriving Repr

def applyOp (cb : Cb) (op : Op) (s : St) : St :=
  match op with
  | .write d => write cb d s
  | .writeSeq ds => writeSeq cb ds s
  | .register pid st => registerProducer cb pid st s
  | .unregister => unregisterProducer s
  | .lose => loseConnection cb s
  | .loseWrite => loseWriteConnection s
  | .pauseT => pauseT s
  | .resumeT => resumeT s
  | .tick a => tick cb a s
  | .extLost => if s.disconnected then s else reactorLost cb .ext s
  | .stopConsuming => loseConnection cb (unregisterProducer s)

def run (cb : Cb) (ops : List Op) (s : St) : St := ops.foldl (fun s op => applyOp cb op s) s

def init (sendLimit bufferSize : Nat) (prods : List Producer) : St :=
  { sendLimit := sendLimit, bufferSize := bufferSize, prods := prods }

end Twisted.Transport.FD
