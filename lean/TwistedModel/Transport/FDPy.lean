import TwistedModel.Transport.FD
/-
The Python-level face of three operations of `twisted.internet.abstract.FileDescriptor`
(src/twisted/internet/abstract.py), above the model in `FD.lean`:

  `FileDescriptor.writeSequence(iovec)` for an arbitrary *iterable* `iovec` (a list / tuple, another
  re-iterable collection such as a deque, or a one-shot iterator / generator / map object): the code
  traverses `iovec` several times (`list(iovec)` for a non-list/tuple, the bytes type check, `extend`,
  the length count) and tests its truth value; a one-shot iterable yields its elements to the first
  traversal only and is always true.  `writeSequencePy` transcribes the function as it is now,
  `writeSequencePyOld` as it was before the repair (no `list(iovec)`).

  `registerProducer(producer, streaming)` where `streaming` is "C{bool} or C{int}": only its truth value
  is used (`Flag.truthy`).

`FD.lean` talks about the elements (`Iovec.items`) only; `TwistedProps/C14/Py.lean` proves that this is
sound for the code as it is (`writeSequencePy_eq`) and was not before (`writeSequencePyOld_counterexample`).
-/
namespace Twisted.Transport.FD

/-- the Python value handed to `writeSequence` -/
inductive Iovec where
  | seq (ds : List Bytes)     -- a list or a tuple
  | coll (ds : List Bytes)    -- another re-iterable collection with a length (deque, user class): false when empty
  | once (ds : List Bytes)    -- iterator / generator / map object: one traversal only; always true
  deriving Repr

/-- the chunks the caller handed over -/
def Iovec.items : Iovec → List Bytes
  | .seq ds => ds | .coll ds => ds | .once ds => ds

def Iovec.isListOrTuple : Iovec → Bool
  | .seq _ => true | _ => false

/-- `bool(iovec)` -/
def Iovec.truthy : Iovec → Bool
  | .seq ds => !ds.isEmpty | .coll ds => !ds.isEmpty | .once _ => true

/-- one traversal (`for i in iovec`, `list(iovec)`, `extend(iovec)`): the elements it sees, the value afterwards -/
def Iovec.traverse : Iovec → List Bytes × Iovec
  | .seq ds => (ds, .seq ds) | .coll ds => (ds, .coll ds) | .once ds => (ds, .once [])

/-- the body of `writeSequence` after the optional `list(iovec)` -/
def writeSequenceBody (cb : Cb) (given : List Bytes) (v : Iovec) (s : St) : St :=
  let (_, v) := v.traverse                       -- for i in iovec: _dataMustBeBytes(i)
  if !s.connected || !v.truthy || s.writeDisconnected then s
  else
    let (ext, v) := v.traverse                   -- self._tempDataBuffer.extend(iovec)
    let (cnt, _) := v.traverse                   -- for i in iovec: self._tempDataLen += len(i)
    let s := { s with temp := s.temp ++ ext, tempLen := s.tempLen + (cnt.map List.length).sum,
                      accChunks := given.flatten :: s.accChunks }   -- ghost: what the caller wrote
    startWriting (maybePauseProducer cb s)

/-- `writeSequence(iovec)` as it is: a non-list/tuple iterable is materialised first -/
def writeSequencePy (cb : Cb) (v : Iovec) (s : St) : St :=
  let v' := if v.isListOrTuple then v else Iovec.seq v.traverse.1      -- iovec = list(iovec)
  writeSequenceBody cb v.items v' s

/-- `writeSequence(iovec)` as it was before the repair -/
def writeSequencePyOld (cb : Cb) (v : Iovec) (s : St) : St :=
  writeSequenceBody cb v.items v s

/-- the `streaming` argument of `registerProducer`: "C{bool} or C{int}" -/
inductive Flag where
  | bool (b : Bool)
  | int (n : Nat)
  deriving Repr

/-- `bool(streaming)`: all the code looks at -/
def Flag.truthy : Flag → Bool
  | .bool b => b | .int n => n != 0

/-- operations as Python callers make them -/
inductive PyOp where
  | base (op : Op)
  | writeSeqIt (v : Iovec)
  | registerFlag (pid : Nat) (f : Flag)
  deriving Repr

def PyOp.abs : PyOp → Op
  | .base op => op
  | .writeSeqIt v => .writeSeq v.items
  | .registerFlag pid f => .register pid f.truthy

def applyPy (cb : Cb) (op : PyOp) (s : St) : St :=
  match op with
  | .base op => applyOp cb op s
  | .writeSeqIt v => writeSequencePy cb v s
  | .registerFlag pid f => registerProducer cb pid f.truthy s

def runPy (cb : Cb) (ops : List PyOp) (s : St) : St := ops.foldl (fun s op => applyPy cb op s) s

end Twisted.Transport.FD
