/-
Model of `twisted.internet.endpoints.quoteStringArgument`, `_tokenize` and `_parse` (C46),
for `str` descriptions.  Text is `List Char`.

`quoteStringArgument` is the sequence of `str.replace(c, "\\" + c)` calls the code performs,
in the code's order (backslash first).  `_tokenize` is the generator transcribed as a
function returning the token list, or `none` where the generator's `next(iterdesc)` raises
`StopIteration` (a description ending in a lone backslash: surfaces as `RuntimeError`).
`_parse` is the fold over tokens with `add`.
`dropName` / `select`: what `serverFromString` / `clientFromString` do with the parsed description before a
plugin parser or a built-in parser sees it (endpoint name taken off; one positional index or keyword name passed on).
-/
namespace Twisted.Endpoints.Quote

abbrev Text := List Char

/-- `s.replace(c, "\\" + c)` for a single character `c`. -/
def escapeChar (c : Char) (s : Text) : Text :=
  s.flatMap fun x => if x = c then ['\\', c] else [x]

/-- `for c in backslash, colon, equals: argument = argument.replace(c, backslash + c)` -/
def quote (s : Text) : Text :=
  escapeChar '=' (escapeChar ':' (escapeChar '\\' s))

inductive Tok where
  | str (s : Text)
  | op (c : Char)
  deriving Repr, DecidableEq

/-- `_tokenize`: `eqA` says whether `=` is currently an operator (`ops == ":="`);
    after `:` it is, after `=` it is not (`nextOps`).  The generator is lazy, so it is
    modelled as (tokens yielded, completed?): `completed = false` when `next(iterdesc)`
    raised `StopIteration` (lone trailing backslash) — the final `yield` then never happens
    and the consumer sees `RuntimeError` only after the tokens yielded before it. -/
def tokenize : Text → Text → Bool → List Tok × Bool
  | [], cur, _ => ([Tok.str cur], true)
  | c :: rest, cur, eqA =>
    if c = ':' ∨ (c = '=' ∧ eqA = true) then
      let r := tokenize rest [] (c = ':')
      (Tok.str cur :: Tok.op c :: r.1, r.2)
    else if c = '\\' then
      match rest with
      | [] => ([], false)
      | d :: rest' => tokenize rest' (cur ++ [d]) eqA
    else tokenize rest (cur ++ [c]) eqA

structure Parsed where
  args : List Text
  kw : List (Text × Text)      -- insertion-ordered dict; later assignment to a key overwrites
  deriving Repr, DecidableEq

def kwSet (kw : List (Text × Text)) (k v : Text) : List (Text × Text) :=
  if kw.any (·.1 = k) then kw.map fun p => if p.1 = k then (k, v) else p else kw ++ [(k, v)]

/-- What `_parse` can raise: `RuntimeError` (generator `StopIteration` on a trailing lone
    backslash), `UnicodeEncodeError` (`nativeString(key)` on a non-ASCII keyword name),
    `IndexError` (never, for token lists produced by `tokenize`). -/
inductive Err where
  | runtime | unicode | index
  deriving Repr, DecidableEq

/-- `add(sofar)`: one element → positional; otherwise `kw[nativeString(sofar[0])] = sofar[1]`. -/
def add (p : Parsed) (sofar : List Text) : Except Err Parsed :=
  match sofar with
  | [a] => .ok { p with args := p.args ++ [a] }
  | k :: v :: _ => if k.all (·.toNat < 128) then .ok { p with kw := kwSet p.kw k v } else .error .unicode
  | [] => .error .index

/-- the `for type, value in _tokenize(description)` loop -/
def loopToks : List Tok → Parsed → List Text → Except Err (Parsed × List Text)
  | [], p, sofar => .ok (p, sofar)
  | Tok.str s :: ts, p, sofar => loopToks ts p (sofar ++ [s])
  | Tok.op c :: ts, p, sofar =>
    if c = ':' then (add p sofar).bind fun p' => loopToks ts p' [] else loopToks ts p sofar

/-- after the loop: the final `add(sofar)`, unless the generator raised -/
def finish (completed : Bool) : Except Err (Parsed × List Text) → Except Err Parsed
  | .error e => .error e
  | .ok (p, sofar) => if completed then add p sofar else .error .runtime

def parse (d : Text) : Except Err Parsed :=
  let r := tokenize d [] true
  finish r.2 (loopToks r.1 ⟨[], []⟩ [])

/-- An argument of a description: positional text, or `key=text`. -/
inductive Item where
  | pos (t : Text)
  | kw (k : Text) (t : Text)
  deriving Repr, DecidableEq

/-- how a caller interpolates `quoteStringArgument(text)` into a description -/
def render : Item → Text
  | .pos t => quote t
  | .kw k t => k ++ '=' :: quote t

/-- `":".join(render(i) for i in items)` -/
def describe : List Item → Text
  | [] => []
  | [i] => render i
  | i :: is => render i ++ ':' :: describe is

/-- What a plugin parser receives once the endpoint name is taken off
    (`_parseServer`: `return (plugin, args[1:], kw)`; `clientFromString`: `aname = args.pop(0)` then
    `plugin.parseStreamClient(reactor, *args, **kwargs)`). -/
def dropName (r : Except Err Parsed) : Except Err Parsed :=
  r.map fun p => { p with args := p.args.drop 1 }

/-- `kw[k]` -/
def kwGet (kw : List (Text × Text)) (k : Text) : Option Text :=
  (kw.find? (·.1 = k)).map (·.2)

/-- A slot of the parsed description: `args[i]` or `kw[k]` — the value a built-in parser
    (`_parseUNIX(factory, *args[1:], **kw)`, `_parseClientTCP(*args, **kwargs)`, …) passes on to the reactor. -/
inductive Sel where
  | arg (i : Nat)
  | key (k : Text)
  deriving Repr, DecidableEq

def select (p : Parsed) : Sel → Option Text
  | .arg i => p.args[i]?
  | .key k => kwGet p.kw k

end Twisted.Endpoints.Quote
