import TwistedModel.Irc.Split
/-
Model of the CTCP framing code of `twisted/words/protocols/irc.py` (C43, "CTCP quoting
round-trips any text" beyond the two quoting functions themselves).

Transcribed (text is `List Char`):
* `ctcpStringify(messages)`  — `(tag, data)` → `X_DELIM ctcpQuote(tag [SPC data]) X_DELIM`, concatenated;
  `data` is `None`, a `str`, or a list of `str` joined with one space; *falsy* data (`None`, `""`, `[]`)
  gives the tag alone.
* `ctcpExtract(message)`     — `message.split(X_DELIM)`, alternately normal / extended, empty pieces
  filtered, extended pieces `ctcpDequote`d and cut at the FIRST SINGLE SPACE (`str.split(SPC, 1)`):
  `(tag, data)` or `(tag, None)`.
* `IRCClient.irc_PRIVMSG` / `irc_NOTICE` as far as CTCP goes: which of `ctcpQuery(user, channel, messages)`,
  `ctcpReply(…)`, `privmsg(user, channel, text)`, `noticed(…)` is called with what (the dispatch inside
  `ctcpQuery`/`ctcpReply` to `ctcpQuery_<TAG>` methods is not modelled: the observable is the call).
* `IRCClient.ctcpMakeQuery` = `msg(user, ctcpStringify(messages))`, `ctcpMakeReply` = `notice(…)`;
  `sendParts` is `_sendMessage` before `_reallySendLine` (the message parts, not yet the octets).
-/
namespace Twisted.Irc.Ctcp
open Twisted.Irc.Split

/-- the `data` of an extended message as `ctcpStringify` accepts it -/
inductive Data where
  | none
  | text (t : Text)
  | list (ts : List Text)
  deriving Repr, DecidableEq

/-- Python truthiness (`if data:`) -/
def Data.truthy : Data → Bool
  | .none => false
  | .text t => !t.isEmpty
  | .list ts => !ts.isEmpty

/-- `" ".join(parts)` -/
def joinSpc : List Text → Text
  | [] => []
  | [t] => t
  | t :: ts => t ++ SPC :: joinSpc ts

/-- the text that is put on the wire for truthy data: the `str` itself, or `" ".join(map(str, data))` -/
def Data.str : Data → Text
  | .none => []
  | .text t => t
  | .list ts => joinSpc ts

/-- what comes back for that data: `None` for falsy data, else the text -/
def Data.back (d : Data) : Option Text := if d.truthy then some d.str else Option.none

/-- `m = f"{tag} {data}"` or `str(tag)` -/
def body (tag : Text) (d : Data) : Text := if d.truthy then tag ++ SPC :: d.str else tag

def stringify1 (m : Text × Data) : Text := X_DELIM :: (ctcpQuote (body m.1 m.2) ++ [X_DELIM])

/-- `ctcpStringify(messages)` -/
def ctcpStringify (msgs : List (Text × Data)) : Text := msgs.flatMap stringify1

/-- the `while messages:` loop: pieces go alternately to normal (`odd` false) and extended (`odd` true);
    result is `(extended, normal)` -/
def alternate : List Text → Bool → List Text × List Text
  | [], _ => ([], [])
  | m :: ms, odd =>
    let r := alternate ms (!odd)
    if odd then (m :: r.1, r.2) else (r.1, m :: r.2)

/-- `s.split(sep, 1)` as used by `ctcpExtract`: `(m[0], m[1] if len(m) > 1 else None)` -/
def splitFirst (sep : Char) : Text → Text × Option Text
  | [] => ([], none)
  | c :: s =>
    if c = sep then ([], some s)
    else let r := splitFirst sep s; (c :: r.1, r.2)

def nonEmpty (t : Text) : Bool := !t.isEmpty

/-- `ctcpExtract(message)`: `(retval["extended"], retval["normal"])` -/
def ctcpExtract (message : Text) : List (Text × Option Text) × List Text :=
  let r := alternate (splitOn X_DELIM message) false
  (((r.1.filter nonEmpty).map ctcpDequote).map (splitFirst SPC), r.2.filter nonEmpty)

/-! ### the receiving client -/

inductive Event where
  | query (msgs : List (Text × Option Text))     -- ctcpQuery(user, channel, msgs)
  | reply (msgs : List (Text × Option Text))     -- ctcpReply(user, channel, msgs)
  | privmsg (t : Text)                           -- privmsg(user, channel, t)
  | noticed (t : Text)                           -- noticed(user, channel, t)
  deriving Repr, DecidableEq

inductive RecvErr where
  | index          -- IndexError (`message[0]` of an empty NOTICE)
  deriving Repr, DecidableEq

/-- the CTCP branch shared by `irc_PRIVMSG` and `irc_NOTICE` (`message[0] == X_DELIM` or not) -/
def recvCommon (ext : List (Text × Option Text) → Event) (plain : Text → Event) (message : Text) : List Event :=
  match message with
  | [] => [plain message]
  | c :: _ =>
    if c = X_DELIM then
      let m := ctcpExtract message
      let evs := if m.1.isEmpty then [] else [ext m.1]
      if m.2.isEmpty then evs else evs ++ [plain (joinSpc m.2)]
    else [plain message]

/-- `irc_PRIVMSG(prefix, [channel, message])`: a blank message is ignored -/
def recvPrivmsg (message : Text) : Except RecvErr (List Event) :=
  if message.isEmpty then .ok [] else .ok (recvCommon .query .privmsg message)

/-- `irc_NOTICE(prefix, [channel, message])`: `message[0]` raises `IndexError` on a blank message -/
def recvNotice (message : Text) : Except RecvErr (List Event) :=
  if message.isEmpty then .error .index else .ok (recvCommon .reply .noticed message)

/-! ### the sending client: `_sendMessage` up to (not including) `_reallySendLine` -/

/-- the message parts `_sendMessage` hands to `sendLine` (each prefixed with `fmt` there) -/
def sendParts (wrap : Wrap) (nicklen : Nat) (msgType user message : Text) (length : Option Int) :
    Except Err (List Text) :=
  let fmt := fmtOf msgType user
  let length := effLength nicklen fmt length
  if length ≤ minimumLength fmt then .error .value
  else
    let available := length - minimumLength fmt
    match split wrap message available with
    | .error e => .error e
    | .ok chunks => splitAllOctets available.toNat chunks

def PRIVMSG : Text := "PRIVMSG".toList
def NOTICE : Text := "NOTICE".toList

/-- `ctcpMakeQuery(user, messages)` = `msg(user, ctcpStringify(messages))` -/
def ctcpMakeQuery (wrap : Wrap) (nicklen : Nat) (user : Text) (msgs : List (Text × Data)) :=
  sendMessage wrap nicklen PRIVMSG user (ctcpStringify msgs) none

/-- `ctcpMakeReply(user, messages)` = `notice(user, ctcpStringify(messages))` -/
def ctcpMakeReply (wrap : Wrap) (nicklen : Nat) (user : Text) (msgs : List (Text × Data)) :=
  sendMessage wrap nicklen NOTICE user (ctcpStringify msgs) none

/-- every part delivered in order to the peer's `irc_PRIVMSG` / `irc_NOTICE` -/
def recvAll (recv : Text → Except RecvErr (List Event)) : List Text → Except RecvErr (List Event)
  | [] => .ok []
  | p :: ps =>
    match recv p with
    | .error e => .error e
    | .ok evs =>
      match recvAll recv ps with
      | .error e => .error e
      | .ok rest => .ok (evs ++ rest)

end Twisted.Irc.Ctcp
