/-
Model of the message-splitting and quoting code of `twisted/words/protocols/irc.py` (C43).

Transcribed (text is `List Char`, octets are `List UInt8`):
* `lowQuote` / `lowDequote`   (M-QUOTE `\x10`; table `mQuoteTable`, regex `M_QUOTE .` DOTALL)
* `ctcpQuote` / `ctcpDequote` (X-QUOTE `\`;   table `xQuoteTable`, regex `X_QUOTE .` DOTALL)
* `split(str, length)`        = `[chunk for line in str.split("\n") for chunk in textwrap.wrap(line, length)]`
* `_splitOctets(text, maximum)` (added by the C43 fix: pieces of at most `maximum` wire octets)
* `IRCClient._safeMaximumLineLength`, `IRCClient._sendMessage` (used by `msg` and `notice`),
  `IRCClient._reallySendLine` (`lowQuote`, UTF-8, `+ b"\r"`, `LineReceiver.sendLine` adds the
  delimiter `b"\n"`), with `lineRate = None` (the default: lines are written immediately).

`textwrap.wrap` is a *stdlib* component.  It is NOT transcribed: it is a parameter
`wrap : Text → Nat → List Text` of the model.  The theorems are stated for every `wrap`
satisfying the contract `WrapContract` below (the part of textwrap's documented behaviour the
property needs); the tie instantiates the parameter with the answers the real `textwrap.wrap`
gave to the very calls the real code made (a finite table) and checks the contract on them.
-/
namespace Twisted.Irc.Split

abbrev Text := List Char

def NUL : Char := Char.ofNat 0
def NL : Char := '\n'
def CR : Char := '\r'
def SPC : Char := ' '
def M_QUOTE : Char := Char.ofNat 0x10
def X_DELIM : Char := Char.ofNat 1
def X_QUOTE : Char := '\\'

/-- `s.replace(c, r)` for a single character `c` -/
def replaceChar (c : Char) (r : Text) (s : Text) : Text :=
  s.flatMap fun x => if x = c then r else [x]

/-- `for c in (M_QUOTE, NUL, NL, CR): s = s.replace(c, mQuoteTable[c])` -/
def lowQuote (s : Text) : Text :=
  replaceChar CR [M_QUOTE, 'r'] (replaceChar NL [M_QUOTE, 'n']
    (replaceChar NUL [M_QUOTE, '0'] (replaceChar M_QUOTE [M_QUOTE, M_QUOTE] s)))

/-- `mDequoteTable.get(d, d)`: `0`→NUL, `n`→NL, `r`→CR, M_QUOTE→M_QUOTE, anything else itself -/
def mDequote (d : Char) : Char :=
  if d = '0' then NUL else if d = 'n' then NL else if d = 'r' then CR else d

/-- `mEscape_re.sub(sub, s)`: leftmost non-overlapping matches of `M_QUOTE .` (DOTALL);
    a lone trailing M_QUOTE does not match and stays. -/
def lowDequote : Text → Text
  | [] => []
  | [c] => [c]
  | c :: d :: rest =>
    if c = M_QUOTE then mDequote d :: lowDequote rest else c :: lowDequote (d :: rest)

/-- `for c in (X_QUOTE, X_DELIM): s = s.replace(c, xQuoteTable[c])` -/
def ctcpQuote (s : Text) : Text :=
  replaceChar X_DELIM [X_QUOTE, 'a'] (replaceChar X_QUOTE [X_QUOTE, X_QUOTE] s)

/-- `xDequoteTable.get(d, d)`: `a`→X_DELIM, `\`→`\`, anything else itself -/
def xDequote (d : Char) : Char := if d = 'a' then X_DELIM else d

def ctcpDequote : Text → Text
  | [] => []
  | [c] => [c]
  | c :: d :: rest =>
    if c = X_QUOTE then xDequote d :: ctcpDequote rest else c :: ctcpDequote (d :: rest)

/-! ### UTF-8 (`str.encode("utf-8")` for Unicode scalar values) -/

def utf8 (c : Char) : List UInt8 :=
  let n := c.toNat
  if n < 0x80 then [n.toUInt8]
  else if n < 0x800 then [(0xC0 + n / 64).toUInt8, (0x80 + n % 64).toUInt8]
  else if n < 0x10000 then
    [(0xE0 + n / 4096).toUInt8, (0x80 + n / 64 % 64).toUInt8, (0x80 + n % 64).toUInt8]
  else
    [(0xF0 + n / 262144).toUInt8, (0x80 + n / 4096 % 64).toUInt8,
     (0x80 + n / 64 % 64).toUInt8, (0x80 + n % 64).toUInt8]

def encode (s : Text) : List UInt8 := s.flatMap utf8

/-- The receiving side: a UTF-8 decoder to code points (`bytes.decode("utf-8")` on well-formed
    input; `none` on truncated input).  Not used by the sending code; the theorems use it to say
    what the peer reads. -/
def decodeNat : List UInt8 → Option (List Nat)
  | [] => some []
  | b0 :: rest =>
    if b0.toNat < 0x80 then (decodeNat rest).map (b0.toNat :: ·)
    else if b0.toNat < 0xE0 then
      match rest with
      | b1 :: r => (decodeNat r).map (((b0.toNat - 0xC0) * 64 + (b1.toNat - 0x80)) :: ·)
      | _ => none
    else if b0.toNat < 0xF0 then
      match rest with
      | b1 :: b2 :: r =>
        (decodeNat r).map (((b0.toNat - 0xE0) * 4096 + (b1.toNat - 0x80) * 64 + (b2.toNat - 0x80)) :: ·)
      | _ => none
    else
      match rest with
      | b1 :: b2 :: b3 :: r =>
        (decodeNat r).map (((b0.toNat - 0xF0) * 262144 + (b1.toNat - 0x80) * 4096 + (b2.toNat - 0x80) * 64 + (b3.toNat - 0x80)) :: ·)
      | _ => none

/-! ### Whitespace (`str.isspace`) — what "non-whitespace characters" means -/

/-- `chr(n).isspace()` (Unicode 15: bidi class WS/B/S or category Zs) -/
def isSpaceNat (n : Nat) : Bool :=
  (9 ≤ n && n ≤ 13) || (28 ≤ n && n ≤ 32) || n == 0x85 || n == 0xA0 || n == 0x1680 ||
  (0x2000 ≤ n && n ≤ 0x200A) || n == 0x2028 || n == 0x2029 || n == 0x202F || n == 0x205F ||
  n == 0x3000

def isSpace (c : Char) : Bool := isSpaceNat c.toNat

/-- the non-whitespace characters of a text, in order -/
def nonspace (s : Text) : Text := s.filter fun c => !isSpace c

/-! ### `str.split("\n")` -/

/-- `s.split(sep)` for a one-character separator; `cur` is the piece being accumulated -/
def splitAux (sep : Char) : Text → Text → List Text
  | [], cur => [cur]
  | c :: s, cur => if c = sep then cur :: splitAux sep s [] else splitAux sep s (cur ++ [c])

def splitOn (sep : Char) (s : Text) : List Text := splitAux sep s []

/-! ### textwrap.wrap as a parameter -/

abbrev Wrap := Text → Nat → List Text

/-- The contract of `textwrap.wrap(text, width)` (default options: `break_long_words`,
    `drop_whitespace`, `replace_whitespace`, `expand_tabs`) for `width > 0`:
    every returned line has at most `width` characters, and the returned lines differ from
    the text only in whitespace (tabs expanded, whitespace replaced by spaces, whitespace-only
    chunks dropped at line breaks) — nothing else is removed, added or reordered. -/
structure WrapContract (wrap : Wrap) : Prop where
  width : ∀ s w, 0 < w → ∀ c ∈ wrap s w, c.length ≤ w
  content : ∀ s w, 0 < w → nonspace (wrap s w).flatten = nonspace s

/-- decidable form of the contract for one observed call (used by the driver on the table) -/
def wrapEntryOk (s : Text) (w : Nat) (chunks : List Text) : Bool :=
  chunks.all (fun c => c.length ≤ w) && nonspace chunks.flatten == nonspace s

/-- the characters `textwrap` rewrites before wrapping (`expand_tabs`, `replace_whitespace`):
    `string.whitespace` other than the space itself -/
def isMunged (c : Char) : Bool :=
  c = '\t' || c = '\n' || c = Char.ofNat 0x0b || c = Char.ofNat 0x0c || c = '\r'

/-- a line `textwrap.wrap` leaves alone when it fits: not empty, none of the rewritten characters,
    and not ending in whitespace (`drop_whitespace` removes a trailing whitespace chunk; leading
    whitespace of the FIRST line is kept) -/
def wholeLine (s : Text) : Bool :=
  !s.isEmpty && s.all (fun c => !isMunged c) && (s.getLast?.map fun c => !isSpace c).getD false

/-- Second, independent part of `textwrap.wrap`'s behaviour (used only by the client → client
    theorems): such a line, when it fits the width, is returned whole as the single line. -/
structure WrapWhole (wrap : Wrap) : Prop where
  whole : ∀ s w, wholeLine s = true → s.length ≤ w → wrap s w = [s]

/-- decidable form of `WrapWhole` for one observed call -/
def wholeEntryOk (s : Text) (w : Nat) (chunks : List Text) : Bool :=
  !(wholeLine s && s.length ≤ w) || chunks == [s]

inductive Err where
  | value          -- ValueError
  deriving Repr, DecidableEq

/-- `split(str, length)`.  `textwrap` raises `ValueError("invalid width")` for `length <= 0`
    (`str.split("\n")` is never empty, so `wrap` is always called). -/
def split (wrap : Wrap) (s : Text) (length : Int) : Except Err (List Text) :=
  if length ≤ 0 then .error .value
  else .ok ((splitOn NL s).flatMap fun line => wrap line length.toNat)

/-! ### IRCClient._sendMessage -/

/-- `fmt = f"{msgType} {user} :"` -/
def fmtOf (msgType user : Text) : Text := msgType ++ SPC :: (user ++ [SPC, ':'])

/-- `_safeMaximumLineLength(command)`:
    `512 - len(":" + "a"*NICKLEN + "!" + "b"*10 + "@" + "c"*63 + " " + command) - 10` -/
def safeMaximumLineLength (nicklen : Nat) (command : Text) : Int :=
  512 - ((1 + nicklen + 1 + 10 + 1 + 63 + 1 + command.length : Nat) : Int) - 10

/-- `_reallySendLine(line)` + `LineReceiver.sendLine`: the octets of one `transport.write` -/
def wire (line : Text) : List UInt8 := encode (lowQuote line) ++ [13, 10]

/-- `len(lowQuote(character).encode("utf-8"))`: octets one character occupies on the wire -/
def wireLen1 (c : Char) : Nat := (encode (lowQuote [c])).length

/-- `_splitOctets(text, maximum)`: the `for character in text` loop; `cur`/`size` are the
    loop's `current`/`size`.  Raises `ValueError` at the first character that alone needs more
    than `maximum` octets. -/
def splitOctetsAux (maximum : Nat) : Text → Text → Nat → Except Err (List Text)
  | [], cur, _ => .ok (if cur.isEmpty then [] else [cur])
  | c :: rest, cur, size =>
    if wireLen1 c > maximum then .error .value
    else if size + wireLen1 c > maximum then
      match splitOctetsAux maximum rest [c] (wireLen1 c) with
      | .error e => .error e
      | .ok ps => .ok (cur :: ps)
    else splitOctetsAux maximum rest (cur ++ [c]) (size + wireLen1 c)

def splitOctets (text : Text) (maximum : Nat) : Except Err (List Text) :=
  splitOctetsAux maximum text [] 0

/-- `[piece for line in lines for piece in _splitOctets(line, maximum)]` (raises at the first
    line that raises) -/
def splitAllOctets (maximum : Nat) : List Text → Except Err (List Text)
  | [] => .ok []
  | l :: ls =>
    match splitOctets l maximum with
    | .error e => .error e
    | .ok ps =>
      match splitAllOctets maximum ls with
      | .error e => .error e
      | .ok qs => .ok (ps ++ qs)

/-- `length` after the `if length is None` default -/
def effLength (nicklen : Nat) (fmt : Text) (length : Option Int) : Int :=
  length.getD (safeMaximumLineLength nicklen fmt)

/-- `minimumLength = len(lowQuote(fmt).encode("utf-8")) + 2` (framing as sent + line terminator) -/
def minimumLength (fmt : Text) : Int := ((encode (lowQuote fmt)).length : Int) + 2

/-- `available = length - minimumLength`: the width `_sendMessage` passes to `split` and the
    octet budget it passes to `_splitOctets` -/
def wrapWidth (nicklen : Nat) (msgType user : Text) (length : Option Int) : Int :=
  effLength nicklen (fmtOf msgType user) length - minimumLength (fmtOf msgType user)

/-- `_sendMessage(msgType, user, message, length)`: the list of `transport.write`s, or
    `ValueError` (always raised before anything is written). -/
def sendMessage (wrap : Wrap) (nicklen : Nat) (msgType user message : Text) (length : Option Int) :
    Except Err (List (List UInt8)) :=
  let fmt := fmtOf msgType user
  let length := effLength nicklen fmt length
  if length ≤ minimumLength fmt then .error .value
  else
    let available := length - minimumLength fmt
    match split wrap message available with
    | .error e => .error e
    | .ok chunks =>
      match splitAllOctets available.toNat chunks with
      | .error e => .error e
      | .ok lines => .ok (lines.map fun line => wire (fmt ++ line))

end Twisted.Irc.Split
