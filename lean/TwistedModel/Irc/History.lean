/-
Model of ONE `IRCClient` used for several messages (C43): `say`, the server-announced NICKLEN
that `_safeMaximumLineLength` reads when each message is sent, and the `lineRate` queue.

Transcribed from `twisted/words/protocols/irc.py`:
* `IRCClient.say(channel, message, length)`   (`"#"` prepended unless `channel[0]` is in `CHANNEL_PREFIXES`)
* `IRCClient.sendLine(line)`  (`lineRate is None`: `_reallySendLine(line)` at once; otherwise
  `self._queue.append(line)` and, when no timer is pending, `_sendLine()`)
* `IRCClient._sendLine()`     (`self._queue.pop(0)` is written and the timer re-armed; an empty
  queue clears `_queueEmptying`)
* `msg` / `notice` / `say` → `_sendMessage` (model: `Twisted.Irc.Ctcp.sendParts`, each part prefixed with `fmt`)

The reactor is a parameter: a history says after which message the timer fires how often
(`clock.advance(lineRate)` of a `task.Clock` in the tie).
-/
import TwistedModel.Irc.Split
import TwistedModel.Irc.Ctcp
namespace Twisted.Irc.History
open Twisted.Irc.Split Twisted.Irc.Ctcp

def CHANNEL_PREFIXES : Text := ['&', '#', '!', '+']

/-- the channel `say` sends to; `none` = `channel[0]` raises `IndexError` -/
def sayTarget : Text → Option Text
  | [] => none
  | c :: cs => some (if CHANNEL_PREFIXES.contains c then c :: cs else '#' :: c :: cs)

inductive Kind where
  | msg | notice | say
  deriving DecidableEq, Repr

/-- one call `msg/notice/say(user, message, length)` with the state it meets -/
structure Step where
  kind : Kind
  user : Text
  message : Text
  length : Option Int
  /-- `self.supported.getFeature("NICKLEN")` when the call is made -/
  nicklen : Nat
  /-- how often the `lineRate` timer fires after the call returned -/
  fires : Nat

def Step.msgType (s : Step) : Text :=
  match s.kind with
  | .notice => NOTICE
  | _ => PRIVMSG

def Step.target (s : Step) : Text :=
  match s.kind with
  | .say => (sayTarget s.user).getD []
  | _ => s.user

/-- the texts `_sendMessage` hands to `sendLine` (`fmt + line`), or `ValueError` before any -/
def Step.lines (wrap : Wrap) (s : Step) : Except Err (List Text) :=
  (sendParts wrap s.nicklen s.msgType s.target s.message s.length).map
    fun ps => ps.map fun p => fmtOf s.msgType s.target ++ p

/-- the connection as the property sees it -/
structure Conn where
  /-- `transport.write` calls so far -/
  written : List (List UInt8)
  /-- `self._queue` -/
  queue : List Text
  /-- `self._queueEmptying` is a pending call -/
  emptying : Bool

def Conn.init : Conn := ⟨[], [], false⟩

/-- `_sendLine()` -/
def Conn.tick (c : Conn) : Conn :=
  match c.queue with
  | l :: q => ⟨c.written ++ [wire l], q, true⟩
  | [] => ⟨c.written, [], false⟩

/-- the reactor runs the pending call, if there is one -/
def Conn.fire (c : Conn) : Conn := if c.emptying then c.tick else c

/-- `sendLine(line)`; `rate = (lineRate is not None)` -/
def Conn.sendLine (rate : Bool) (c : Conn) (line : Text) : Conn :=
  if rate then
    if c.emptying then ⟨c.written, c.queue ++ [line], true⟩
    else Conn.tick ⟨c.written, c.queue ++ [line], false⟩
  else ⟨c.written ++ [wire line], c.queue, c.emptying⟩

def fireN : Nat → Conn → Conn
  | 0, c => c
  | n + 1, c => fireN n c.fire

/-- the lines a step hands to `sendLine` (none when it raises) -/
def Step.sent (wrap : Wrap) (s : Step) : List Text :=
  match s.lines wrap with
  | .ok ls => ls
  | .error _ => []

def runStep (wrap : Wrap) (rate : Bool) (c : Conn) (s : Step) : Conn :=
  fireN s.fires ((s.sent wrap).foldl (Conn.sendLine rate) c)

def runHistory (wrap : Wrap) (rate : Bool) (steps : List Step) : Conn :=
  steps.foldl (runStep wrap rate) Conn.init

/-- let the timer fire until the queue is empty and the timer is cleared -/
def drain (c : Conn) : Conn := fireN (c.queue.length + 1) c

end Twisted.Irc.History
