/-
Model of the IMAP4 modified UTF-7 codec of `src/twisted/mail/imap4.py` (C41):
`modified_base64`, `modified_unbase64`, `encoder`, `decoder` (registered as "imap4-utf-7").

Text (a Python `str`) is a list of code points; bytes are `List UInt8`.

* `encLoop` / `encode` transcribe `encoder`: the `_in` run of characters that are neither
  printable ASCII nor `&`, flushed as `&` + modified_base64(run) + `-` before a printable
  character, before `&` (which becomes `&-`), and at the end.
* `decLoop` / `decode` transcribe `decoder`: the `decode` list (`none` = empty list,
  `some d` = `[b"&"] + d`), `&-` → `&`, `&X-` → modified_unbase64(X), direct bytes through
  `c.decode()` (UTF-8 of one byte: fails for bytes ≥ 0x80), and the quirk that an
  unterminated `&X` at the end of input is decoded too (`&` alone gives `+`).
* `modified_unbase64` calls CPython's own "utf-7" decoder on `+X'-` (`X'` = `X` with `,` → `/`).
  `pyDec` is a model of that decoder (CPython `PyUnicode_DecodeUTF7Stateful`, strict errors)
  for arbitrary input.  Its base64 buffer is kept as the list of pending bits, fed one bit
  at a time (`absorbBit`); CPython keeps the same bits in an integer and tests `bits >= 16`
  after every sextet, which is the same function.
* `modified_base64` (after the C41 repair) is `binascii.b2a_base64(s.encode("utf-16-be",
  "surrogatepass")).rstrip(b"\n=").replace(b"/", b",")`: `utf16be`, `b64nopad`.
* `pyEnc` models CPython's "utf-7" *encoder* (`_PyUnicode_EncodeUTF7`, default flags), which
  the unrepaired `modified_base64` used as `s.encode("utf-7")[1:-1]`; `encodeLegacy` is the
  encoder as it was before the repair (kept for the recorded counterexample: CPython encodes
  TAB, LF and CR directly, so the `[1:-1]` slice cut the wrong bytes).
-/
namespace Twisted.Mail.Utf7

abbrev Bytes := List UInt8
abbrev Text := List Nat
abbrev Bits := List Bool

inductive Err where
  | unicodeDecode
  deriving Repr, DecidableEq

/-! ### bits, UTF-16BE, base64 -/

/-- `w` bits of `n`, most significant first -/
def natToBits : Nat → Nat → Bits
  | 0, _ => []
  | w + 1, n => natToBits w (n / 2) ++ [n % 2 == 1]

def bitsToNat (bs : Bits) : Nat := bs.foldl (fun a b => 2 * a + (if b then 1 else 0)) 0

/-- the standard base64 alphabet -/
def b64char (n : Nat) : UInt8 :=
  if n < 26 then (65 + n).toUInt8
  else if n < 52 then (71 + n).toUInt8
  else if n < 62 then (n - 4).toUInt8
  else if n = 62 then 43 else 47

def b64val? (c : UInt8) : Option Nat :=
  let n := c.toNat
  if 65 ≤ n ∧ n ≤ 90 then some (n - 65)
  else if 97 ≤ n ∧ n ≤ 122 then some (n - 71)
  else if 48 ≤ n ∧ n ≤ 57 then some (n + 4)
  else if n = 43 then some 62
  else if n = 47 then some 63
  else none

/-- groups of six bits, the last one padded with zero bits -/
def chunk6 : Bits → List Bits
  | [] => []
  | [a] => [[a, false, false, false, false, false]]
  | [a, b] => [[a, b, false, false, false, false]]
  | [a, b, c] => [[a, b, c, false, false, false]]
  | [a, b, c, d] => [[a, b, c, d, false, false]]
  | [a, b, c, d, e] => [[a, b, c, d, e, false]]
  | a :: b :: c :: d :: e :: f :: rest => [a, b, c, d, e, f] :: chunk6 rest

/-- `binascii.b2a_base64(bs).rstrip(b"\n=")` -/
def b64nopad (bs : Bytes) : Bytes :=
  (chunk6 (bs.flatMap fun b => natToBits 8 b.toNat)).map fun g => b64char (bitsToNat g)

/-- UTF-16 code units of one code point (a lone surrogate is its own unit: "surrogatepass") -/
def units (c : Nat) : List Nat :=
  if c < 0x10000 then [c] else [0xD800 + (c - 0x10000) / 0x400, 0xDC00 + (c - 0x10000) % 0x400]

/-- `s.encode("utf-16-be", "surrogatepass")` -/
def utf16be (t : Text) : Bytes :=
  t.flatMap fun c => (units c).flatMap fun u => [(u / 256).toUInt8, (u % 256).toUInt8]

/-- `modified_base64` (repaired) -/
def modifiedBase64 (t : Text) : Bytes :=
  (b64nopad (utf16be t)).map fun c => if c = 47 then 44 else c

/-! ### CPython's utf-7 decoder -/

def isHigh (u : Nat) : Bool := 0xD800 ≤ u && u ≤ 0xDBFF
def isLow (u : Nat) : Bool := 0xDC00 ≤ u && u ≤ 0xDFFF
def joinSur (hi lo : Nat) : Nat := 0x10000 + (hi - 0xD800) * 0x400 + (lo - 0xDC00)

/-- a complete UTF-16 code unit `u` arrives inside a shift sequence; `sur` = pending high
    surrogate (0 = none) -/
def unitStep (sur : Nat) (out : Text) (u : Nat) : Nat × Text :=
  if sur ≠ 0 then
    if isLow u then (0, out ++ [joinSur sur u])
    else if isHigh u then (u, out ++ [sur])
    else (0, out ++ [sur, u])
  else if isHigh u then (u, out)
  else (0, out ++ [u])

structure Shift where
  pend : Bits      -- base64buffer / base64bits
  sur : Nat
  out : Text
  deriving Repr, DecidableEq

def absorbBit (st : Shift) (b : Bool) : Shift :=
  let p := st.pend ++ [b]
  if p.length = 16 then
    let r := unitStep st.sur st.out (bitsToNat p)
    ⟨[], r.1, r.2⟩
  else ⟨p, st.sur, st.out⟩

def absorb (st : Shift) (bs : Bits) : Shift := bs.foldl absorbBit st

inductive Mode where
  | direct (out : Text)
  | plus (out : Text)          -- just consumed `+`
  | shift (st : Shift)
  deriving Repr, DecidableEq

/-- a byte seen outside a shift sequence -/
def directStep (ch : UInt8) (out : Text) : Except Err Mode :=
  if ch = 43 then .ok (.plus out)
  else if ch.toNat ≤ 127 then .ok (.direct (out ++ [ch.toNat]))
  else .error .unicodeDecode                               -- "unexpected special character"

def pyDecFrom : Bytes → Mode → Except Err Text
  | [], .direct out => .ok out
  | [], .plus out => .ok out
  | [], .shift st =>
    if st.sur ≠ 0 ∨ st.pend.length ≥ 6 ∨ st.pend.any id then .error .unicodeDecode   -- "unterminated shift sequence"
    else .ok st.out
  | ch :: rest, .direct out =>
    match directStep ch out with
    | .ok m => pyDecFrom rest m
    | .error e => .error e
  | ch :: rest, .plus out =>
    if ch = 45 then pyDecFrom rest (.direct (out ++ [43]))          -- `+-` is `+`
    else match b64val? ch with
      | some v => pyDecFrom rest (.shift (absorb ⟨[], 0, out⟩ (natToBits 6 v)))
      | none => .error .unicodeDecode                              -- "ill-formed sequence"
  | ch :: rest, .shift st =>
    match b64val? ch with
    | some v => pyDecFrom rest (.shift (absorb st (natToBits 6 v)))
    | none =>
      if st.pend.length ≥ 6 then .error .unicodeDecode             -- "partial character in shift sequence"
      else if st.pend.any id then .error .unicodeDecode            -- "non-zero padding bits in shift sequence"
      else
        let out := if st.sur ≠ 0 ∧ ch.toNat ≤ 127 ∧ ch ≠ 43 then st.out ++ [st.sur] else st.out
        if ch = 45 then pyDecFrom rest (.direct out)               -- `-` is absorbed
        else match directStep ch out with
          | .ok m => pyDecFrom rest m
          | .error e => .error e

/-- `bs.decode("utf-7")` -/
def pyDec (bs : Bytes) : Except Err Text := pyDecFrom bs (.direct [])

/-- `modified_unbase64` -/
def modifiedUnbase64 (d : Bytes) : Except Err Text :=
  pyDec (43 :: (d.map fun c => if c = 44 then 47 else c) ++ [45])

/-! ### `encoder` -/

/-- `c in valid_chars` (printable ASCII except `&`) -/
def isValid (c : Nat) : Bool := 0x20 ≤ c && c < 0x7F && c != 0x26

/-- `b"&" + modified_base64("".join(_in)) + b"-"` -/
def shiftSection (mb64 : Text → Bytes) (inn : Text) : Bytes := 38 :: mb64 inn ++ [45]

/-- `if _in: r += …; del _in[:]` -/
def flush (mb64 : Text → Bytes) (inn : Text) (r : Bytes) : Bytes :=
  if inn.isEmpty then r else r ++ shiftSection mb64 inn

def encLoop (mb64 : Text → Bytes) : Text → Text → Bytes → Bytes
  | [], inn, r => flush mb64 inn r
  | c :: s, inn, r =>
    if isValid c then encLoop mb64 s [] (flush mb64 inn r ++ [c.toUInt8])
    else if c = 0x26 then encLoop mb64 s [] (flush mb64 inn r ++ [38, 45])
    else encLoop mb64 s (inn ++ [c]) r

/-- `encoder(s)[0]` -/
def encode (s : Text) : Bytes := encLoop modifiedBase64 s [] []

/-! ### `decoder` -/

def decLoop : Bytes → Option Bytes → Text → Except Err Text
  | [], none, r => .ok r
  | [], some d, r => (modifiedUnbase64 d).map (r ++ ·)
  | c :: s, none, r =>
    if c = 38 then decLoop s (some []) r
    else if c.toNat < 128 then decLoop s none (r ++ [c.toNat])
    else .error .unicodeDecode
  | c :: s, some d, r =>
    if c = 45 then
      if d.isEmpty then decLoop s none (r ++ [38])
      else match modifiedUnbase64 d with
        | .ok t => decLoop s none (r ++ t)
        | .error e => .error e
    else decLoop s (some (d ++ [c])) r

/-- `decoder(s)[0]` -/
def decode (bs : Bytes) : Except Err Text := decLoop bs none []

/-! ### the unrepaired `modified_base64`: CPython's utf-7 encoder, sliced -/

/-- `ENCODE_DIRECT(c, 1, 1)`: ASCII except NUL and category 3 (controls other than TAB LF CR,
    `+`, backslash, `~`, DEL) -/
def pyDirect (c : Nat) : Bool :=
  c < 128 && c != 0 && !(c < 32 && c != 9 && c != 10 && c != 13) && c != 43 && c != 92 && c != 126 && c != 127

def b64units (run : Text) : Bytes :=
  (chunk6 ((run.flatMap units).flatMap (natToBits 16))).map fun g => b64char (bitsToNat g)

/-- `_PyUnicode_EncodeUTF7`: `run` = characters of the open shift sequence -/
def pyEncFrom : Text → Option Text → Bytes
  | [], none => []
  | [], some run => b64units run ++ [45]
  | c :: s, none =>
    if c = 43 then 43 :: 45 :: pyEncFrom s none
    else if pyDirect c then c.toUInt8 :: pyEncFrom s none
    else 43 :: pyEncFrom s (some [c])
  | c :: s, some run =>
    if pyDirect c then
      b64units run ++ (if (b64val? c.toUInt8).isSome || c = 45 then [45] else []) ++ c.toUInt8 :: pyEncFrom s none
    else pyEncFrom s (some (run ++ [c]))

def pyEnc (t : Text) : Bytes := pyEncFrom t none

/-- the old `modified_base64`: `s.encode("utf-7")[1:-1].replace(b"/", b",")` -/
def modifiedBase64Legacy (t : Text) : Bytes :=
  ((pyEnc t).drop 1).dropLast.map fun c => if c = 47 then 44 else c

def encodeLegacy (s : Text) : Bytes := encLoop modifiedBase64Legacy s [] []

end Twisted.Mail.Utf7
