/-
Model of the IMAP4 nested-list serializer and parser of `twisted/mail/imap4.py` (C42), for `bytes`:

  serializer  `collapseNestedLists`, `_quote`, `_needsLiteral`
  parser      `parseNestedParens`, `collapseStrings`, `splitOn`, `splitQuoted`

Bytes are `List UInt8`.

* `collapseNestedLists` is transcribed piece by piece: every item contributes `b" "` + its
  rendering, and the first `b" "` is dropped (`pieces[1:]`).
* `parseNestedParens` is the `while i < L` loop written as a left fold over the bytes: the
  places where the code jumps `i` forward (`i += 2` after a backslash inside quotes,
  `i = end + 3 + literalSize` for a literal) are modes of the fold (`quoteEsc`, `hdr`,
  `skip`, `lit`) that consume the skipped bytes one at a time.  `s.find(b"}")` failing and
  `int()` failing are `ValueError`; `contentStack[-2]` on a one-element stack is the
  `IndexError` that the code turns into `MismatchedNesting`.  A *negative* literal size makes
  the real loop move backwards (it can spin forever: `parseNestedParens(b"{-6}")`); the model
  stops with `negLiteral` there and the tie never runs such input on the real code.
* `collapseStrings`/`splitOn`: the run of consecutive non-list elements is kept as a pending
  run of 1-byte strings (`Pend.chars`) or of literal tuples (`Pend.lits`); a change of kind, a
  list, or the end flushes it through `splitQuoted` / concatenation, in the code's order.
  (`begun is None` is `Pend.chars []`: `splitQuoted(b"")` is `[]` and raises nothing.)
* `splitQuoted` is the `for i, c in enumerate(...)` loop as a fold; `escaped` is the code's
  look-behind `i and s[i-1:i] == esc` (the previous byte is a backslash).  As coded, a quote
  after a backslash is an escaped quote, and a backslash is never removed otherwise: `\\`
  inside quotes stays two bytes (pinned by `test_parenParser`), which is why quoted strings
  containing a backslash do not round-trip (known finding `backslash`).
-/
namespace Twisted.Mail.ImapSexp

abbrev Bytes := List UInt8

/-! ### Data -/

/-- what the server hands to `collapseNestedLists` -/
inductive Item where
  | str (b : Bytes)
  | nil
  | int (n : Int)
  | list (l : List Item)
  deriving Repr

/-- what `parseNestedParens` returns: `bytes`, `None`, nested lists -/
inductive Out where
  | str (b : Bytes)
  | none
  | list (l : List Out)
  deriving Repr

/-- exceptions -/
inductive Err where
  | nesting      -- MismatchedNesting
  | quoting      -- MismatchedQuoting
  | value        -- ValueError ("Malformed literal", or int() of the literal size)
  | index        -- IndexError (word.pop() on an empty word; unreachable)
  | negLiteral   -- negative literal size: outside the model (the real loop moves backwards)
  deriving Repr, DecidableEq

/-! ### Serializer -/

def QU : UInt8 := 34   -- '"'
def ESC : UInt8 := 92  -- '\\'
def SP : UInt8 := 32
def CR : UInt8 := 13
def LF : UInt8 := 10

/-- `s.replace(c, b"\\" + c)` for a single byte `c` -/
def escapeByte (c : UInt8) (s : Bytes) : Bytes :=
  s.flatMap fun x => if x = c then [ESC, c] else [x]

/-- `_quote`: `qu + s.replace(esc, esc + esc).replace(qu, esc + qu) + qu` -/
def quote (s : Bytes) : Bytes :=
  QU :: escapeByte QU (escapeByte ESC s) ++ [QU]

/-- `_needsLiteral`: `b"\n" in s or b"\r" in s or len(s) > 1000` -/
def needsLiteral (s : Bytes) : Bool :=
  s.contains LF || s.contains CR || decide (s.length > 1000)

/-- decimal digits of `n`, most significant first (`fuel` > number of digits) -/
def natDigitsF : Nat → Nat → Bytes
  | 0, _ => []
  | f + 1, n => if n < 10 then [(48 + n).toUInt8] else natDigitsF f (n / 10) ++ [(48 + n % 10).toUInt8]

/-- `b"%d" % n` / `str(n)` for `n ≥ 0` -/
def natText (n : Nat) : Bytes := natDigitsF (n + 1) n

/-- `networkString(str(i))` -/
def intText : Int → Bytes
  | .ofNat n => natText n
  | .negSucc n => 45 :: natText (n + 1)

def NIL : Bytes := [78, 73, 76]

mutual
/-- the pieces one item contributes, without the leading `b" "` -/
def collapseItem : Item → Bytes
  | .nil => NIL
  | .int n => intText n
  | .str b =>
    if needsLiteral b then 123 :: natText b.length ++ 125 :: CR :: LF :: b   -- b"{%d}" + delimiter + i
    else quote b
  | .list l => 40 :: collapseNestedLists l ++ [41]
/-- `pieces`: `b" "` + rendering, for every item -/
def collapsePieces : List Item → Bytes
  | [] => []
  | x :: r => SP :: collapseItem x ++ collapsePieces r
/-- `b"".join(pieces[1:])` -/
def collapseNestedLists : List Item → Bytes
  | [] => []
  | x :: r => collapseItem x ++ collapsePieces r
end

/-! ### `splitQuoted` -/

/-- `string.whitespace.encode("ascii")` = `bytes.strip()`'s set: space, \t, \n, \r, \x0b, \x0c -/
def isWs (c : UInt8) : Bool := c = 32 || c = 9 || c = 10 || c = 13 || c = 11 || c = 12

def lstrip (s : Bytes) : Bytes := s.dropWhile isWs
def rstrip (s : Bytes) : Bytes := (s.reverse.dropWhile isWs).reverse
/-- `bytes.strip()` -/
def strip (s : Bytes) : Bytes := rstrip (lstrip s)

structure QState where
  result : List Out
  word : Bytes
  inQuote : Bool
  inWord : Bool
  /-- the previous byte was a backslash: `i and s[i - 1 : i] == esc` -/
  escaped : Bool
  err : Option Err
  deriving Repr

def qInit : QState := ⟨[], [], false, false, false, none⟩

/-- `w == nil ? None : w` -/
def tok (w : Bytes) : Out := if w = NIL then .none else .str w

/-- one iteration of the `for i, c in enumerate(iterbytes(s))` loop -/
def stepQ (st : QState) (c : UInt8) : QState :=
  if st.err.isSome then st else
  if c = QU then
    if st.escaped then
      -- word.pop(); word.append(qu)
      if st.word.isEmpty then { st with err := some .index }
      else { st with word := st.word.dropLast ++ [QU], escaped := false }
    else if !st.inQuote then { st with inQuote := true, escaped := false }
    else { st with inQuote := false, result := st.result ++ [.str st.word], word := [], escaped := false }
  else if !st.inWord && !st.inQuote && !isWs c then
    { st with inWord := true, word := st.word ++ [c], escaped := c = ESC }
  else if st.inWord && !st.inQuote && isWs c then
    { st with result := st.result ++ [tok st.word], word := [], inWord := false, escaped := false }
  else if st.inWord || st.inQuote then
    { st with word := st.word ++ [c], escaped := c = ESC }
  else { st with escaped := false }

/-- after the loop: `if inQuote: raise MismatchedQuoting`, `if inWord: result.append(...)` -/
def finishQ (st : QState) : Except Err (List Out) :=
  match st.err with
  | some e => .error e
  | none =>
    if st.inQuote then .error .quoting
    else if st.inWord then .ok (st.result ++ [tok st.word])
    else .ok st.result

def splitQuoted (s : Bytes) : Except Err (List Out) :=
  finishQ ((strip s).foldl stepQ qInit)

/-! ### `collapseStrings` / `splitOn` -/

/-- elements of a `contentStack` frame: 1-byte strings, `(literal,)` tuples, lists -/
inductive Elem where
  | ch (b : UInt8)
  | lit (bs : Bytes)
  | sub (es : List Elem)
  deriving Repr

/-- the pending run of `splitOn` (`tmp` with its `mode`) -/
inductive Pend where
  | chars (bs : Bytes)
  | lits (bs : Bytes)
  deriving Repr

/-- `transformers[mode](tmp)` -/
def flush : Pend → Except Err (List Out)
  | .chars bs => splitQuoted bs
  | .lits bs => .ok [.str bs]

def isChars : Pend → Bool
  | .chars _ => true
  | .lits _ => false

mutual
/-- the recursive call `collapseStrings(c)` for an element that is a list -/
def collapseSub : Elem → Except Err (List Out)
  | .sub s => collapseGo s (.chars [])
  | _ => .ok []
termination_by structural e => e
/-- `collapseStrings(results)`, `p` the run collected so far -/
def collapseGo : List Elem → Pend → Except Err (List Out)
  | [], p => flush p
  | e :: es, p =>
    match e with
    | .ch c =>
      match p with
      | .chars bs => collapseGo es (.chars (bs ++ [c]))
      | .lits _ => do
        let a ← flush p
        let r ← collapseGo es (.chars [c])
        pure (a ++ r)
    | .lit l =>
      match p with
      | .lits bs => collapseGo es (.lits (bs ++ l))
      | .chars _ => do
        let a ← flush p
        let r ← collapseGo es (.lits l)
        pure (a ++ r)
    | .sub _ => do
      let a ← flush p
      let inner ← collapseSub e
      let r ← collapseGo es (.chars [])
      pure (a ++ Out.list inner :: r)
termination_by structural es => es
end

def collapseStrings (es : List Elem) : Except Err (List Out) := collapseGo es (.chars [])

/-! ### `parseNestedParens` -/

def isDigit (c : UInt8) : Bool := 48 ≤ c && c ≤ 57

/-- the digit part of `int(bytes)`: digits, single underscores between digits -/
def digitsVal : Bytes → Nat → Bool → Option Nat
  | [], acc, pd => if pd then some acc else none
  | c :: r, acc, pd =>
    if isDigit c then digitsVal r (acc * 10 + (c.toNat - 48)) true
    else if c = 95 && pd then
      match r with
      | [] => none
      | _ => digitsVal r acc false
    else none

/-- `int(b)` for `bytes`: surrounding whitespace, optional sign, decimal digits with `_` -/
def pyInt (b : Bytes) : Option Int :=
  match strip b with
  | 45 :: r => (digitsVal r 0 false).map fun n => -(Int.ofNat n)
  | 43 :: r => (digitsVal r 0 false).map Int.ofNat
  | r => (digitsVal r 0 false).map Int.ofNat

inductive Mode where
  | normal
  | quote                      -- inQuote
  | quoteEsc                   -- inQuote, second byte of `s[i:i+2]` still to come
  | hdr (acc : Bytes)          -- after `{`: bytes up to the `}` that `s.find` looks for
  | skip (k : Nat) (n : Nat)   -- the `+3`: `k` more bytes after `}` are skipped unseen, then `n` literal bytes
  | lit (n : Nat) (acc : Bytes) -- `n` more bytes of `s[end+3 : end+3+literalSize]`
  | failed (e : Err)
  deriving Repr

structure PState where
  mode : Mode
  top : List Elem               -- contentStack[-1]
  below : List (List Elem)      -- contentStack[-2], contentStack[-3], …
  deriving Repr

def pInit : PState := ⟨.normal, [], []⟩

def push (st : PState) (e : Elem) : PState := { st with top := st.top ++ [e] }

/-- one byte of the `while i < L` loop -/
def stepP (handleLiteral : Bool) (st : PState) (c : UInt8) : PState :=
  match st.mode with
  | .failed _ => st
  | .quote =>
    if c = ESC then { push st (.ch c) with mode := .quoteEsc }
    else if c = QU then { push st (.ch c) with mode := .normal }
    else push st (.ch c)
  | .quoteEsc => { push st (.ch c) with mode := .quote }
  | .hdr acc =>
    if c = 125 then
      match pyInt acc with
      | none => { st with mode := .failed .value }
      | some (.negSucc _) => { st with mode := .failed .negLiteral }
      | some (.ofNat n) => { st with mode := .skip 2 n }
    else { st with mode := .hdr (acc ++ [c]) }
  | .skip k n =>
    if k ≤ 1 then
      if n = 0 then { push st (.lit []) with mode := .normal } else { st with mode := .lit n [] }
    else { st with mode := .skip (k - 1) n }
  | .lit n acc =>
    if n ≤ 1 then { push st (.lit (acc ++ [c])) with mode := .normal }
    else { st with mode := .lit (n - 1) (acc ++ [c]) }
  | .normal =>
    if c = QU then { push st (.ch c) with mode := .quote }
    else if handleLiteral && c = 123 then { st with mode := .hdr [] }
    else if c = 40 || c = 91 then { st with top := [], below := st.top :: st.below }
    else if c = 41 || c = 93 then
      match st.below with
      | [] => { st with mode := .failed .nesting }
      | p :: bs => { st with top := p ++ [.sub st.top], below := bs }
    else push st (.ch c)

/-- the end of the loop and `if len(contentStack) != 1` -/
def finishP (st : PState) : Except Err (List Elem) :=
  let done (st : PState) : Except Err (List Elem) :=
    match st.below with
    | [] => .ok st.top
    | _ => .error .nesting
  match st.mode with
  | .failed e => .error e
  | .hdr _ => .error .value                       -- `end == -1`
  | .skip _ _ => done (push st (.lit []))         -- slice past the end is empty
  | .lit _ acc => done (push st (.lit acc))       -- slice cut short by the end
  | _ => done st

/-- `parseNestedParens(s, handleLiteral)`.  (No top-level `s.strip()`: removed by the C42 fix
    commit in twisted — it cut into a trailing literal.) -/
def parseNestedParens (s : Bytes) (handleLiteral : Bool := true) : Except Err (List Out) :=
  match finishP (s.foldl (stepP handleLiteral) pInit) with
  | .error e => .error e
  | .ok top => collapseStrings top

/-! ### the property's right-hand side -/

mutual
/-- the same structure, integers as their decimal text, `None` stays `None` -/
def outItem : Item → Out
  | .str b => .str b
  | .nil => .none
  | .int n => .str (intText n)
  | .list l => .list (outItems l)
def outItems : List Item → List Out
  | [] => []
  | x :: r => outItem x :: outItems r
end

end Twisted.Mail.ImapSexp
