/-
Model of the SMTP xtext codec of `src/twisted/mail/smtp.py` (C41): `xtext_encode`,
`xtext_decode`, for a `bytes` argument.

`xtext_encode(s)` walks `iterbytes(s)` (one-byte slices), `o = ord(ch)`, and emits
`+XX` (two upper-case hex digits) or the byte itself.  `plusEq` is *what the test
`ch == "+" or ch == "="` evaluates to*: in the unrepaired code `ch` is a one-byte `bytes`
compared with `str` literals, which is always `False` (`encodeLegacy`); the repaired code
tests `o` (`encode`).

`xtext_decode(s)` returns a `str` (list of code points): at `+` it takes `s[i+1:i+3]`,
`chr(int(·, 16))`, on `ValueError` (from `int` or from `chr` of a negative number) it does
`r.append(ord(s[i:i+3]))`, which raises `TypeError` at once for a 2- or 3-byte slice and
makes the final `"".join(r)` raise `TypeError` for a 1-byte slice (a lone `+` at the end);
other bytes go through `.decode("ascii")` (`UnicodeDecodeError` for bytes ≥ 0x80).
`pyIntHex` is Python's `int(b, 16)` for slices of at most two bytes (surrounding ASCII
whitespace, a sign).
-/
namespace Twisted.Mail.Xtext

abbrev Bytes := List UInt8
abbrev Text := List Nat

inductive Err where
  | typeError
  | unicodeDecode
  deriving Repr, DecidableEq

/-- upper-case hex digit (`f"{o:02X}"`) -/
def hexDigit (n : Nat) : UInt8 := if n < 10 then (48 + n).toUInt8 else (55 + n).toUInt8

/-- `f"+{o:02X}"` for `o < 256` -/
def hexEsc (o : Nat) : Bytes := [43, hexDigit (o / 16), hexDigit (o % 16)]

def encodeWith (plusEq : UInt8 → Bool) (s : Bytes) : Bytes :=
  s.flatMap fun ch =>
    let o := ch.toNat
    if plusEq ch || o < 33 || o > 126 then hexEsc o else [ch]

/-- unrepaired: `ch == "+" or ch == "="` with `ch : bytes` is `False` -/
def encodeLegacy (s : Bytes) : Bytes := encodeWith (fun _ => false) s

/-- repaired: `o == 0x2B or o == 0x3D` -/
def encode (s : Bytes) : Bytes := encodeWith (fun ch => ch = 43 || ch = 61) s

def hexVal? (c : UInt8) : Option Nat :=
  let n := c.toNat
  if 48 ≤ n ∧ n ≤ 57 then some (n - 48)
  else if 65 ≤ n ∧ n ≤ 70 then some (n - 55)
  else if 97 ≤ n ∧ n ≤ 102 then some (n - 87)
  else none

/-- `Py_ISSPACE` -/
def isSpace (c : UInt8) : Bool := c = 32 || (9 ≤ c.toNat && c.toNat ≤ 13)

/-- `chr(int(b, 16))` for `len(b) ≤ 2`; `none` = `ValueError` (from `int`, or from `chr` of a
    negative value) -/
def pyIntHex : Bytes → Option Nat
  | [a] => hexVal? a
  | [a, b] =>
    match hexVal? a, hexVal? b with
    | some x, some y => some (16 * x + y)
    | some x, none => if isSpace b then some x else none
    | none, some y =>
      if isSpace a || a = 43 then some y
      else if a = 45 then (if y = 0 then some 0 else none)
      else none
    | none, none => none
  | _ => none

def decLoop : Bytes → Text → Except Err Text
  | [], r => .ok r
  | [43], _ => .error .typeError
  | [43, a], r =>
    match pyIntHex [a] with
    | some v => .ok (r ++ [v])
    | none => .error .typeError
  | 43 :: a :: b :: rest, r =>
    match pyIntHex [a, b] with
    | some v => decLoop rest (r ++ [v])
    | none => .error .typeError
  | c :: rest, r =>
    if c.toNat < 128 then decLoop rest (r ++ [c.toNat]) else .error .unicodeDecode

/-- `xtext_decode(s)[0]` -/
def decode (s : Bytes) : Except Err Text := decLoop s []

end Twisted.Mail.Xtext
