/-
Model of the SMTP DATA transfer (C40): the client's message sender and the server's
message receiver.  Transcribes

* `twisted/protocols/basic.py`  `FileSender.resumeProducing` (read a chunk, transform it,
  write it, remember `lastSent = chunk[-1:]`; an empty read ends the transfer and fires the
  deferred with `lastSent`), `LineOnlyReceiver.dataReceived` (`(buffer + data).split(delimiter)`,
  the `MAX_LENGTH` checks on complete lines (`> MAX_LENGTH`) and on the remaining buffer
  (`>= MAX_LENGTH + len(delimiter)`: the partial line may end with the beginning of a delimiter), `return` at the
  first over-long line — the rest of that packet's lines are dropped, the over-long
  remainder stays in `_buffer`);
* `twisted/mail/smtp.py`  `SMTPClient.transformChunk`, `SMTPClient.finishedFileTransfer`,
  `SMTPClient.smtpState_data` (client), `SMTP.lineReceived` (mode dispatch),
  `SMTP.dataLineReceived` (leading-dot removal, lone `.` ends DATA, the
  `__inheader`/`__inbody` blank-line insertion), `SMTP.lineLengthExceeded` (server).

Bytes are `List UInt8`; 13 = CR, 10 = LF, 46 = '.', 58 = ':'.

What is NOT modelled (recorded as assumptions of the check): the interpretation of lines in
COMMAND mode (the model only records that a line was handed to `state_COMMAND`; the tie
compares events up to the first such line; between two messages of a session only the accepted
`DATA` command is modelled, as `doData`), `datafailed` (an `IMessage.lineReceived` that
raises `SMTPServerError`), several recipients (every message object is handed the same
calls), timeouts.
-/
namespace Twisted.Mail.SmtpData

abbrev Bytes := List UInt8

/-! ## client -/

/-- `chunk.replace(b"\n", b"\r\n")` -/
def lfToCrlf : Bytes → Bytes
  | [] => []
  | b :: r => if b = 10 then 13 :: 10 :: lfToCrlf r else b :: lfToCrlf r

/-- `chunk.replace(b"\r\n.", b"\r\n..")` (left to right, non-overlapping) -/
def stuffDots : Bytes → Bytes
  | [] => []
  | [b] => [b]
  | [b, c] => b :: stuffDots [c]
  | b :: c :: d :: r =>
    if b = 13 ∧ c = 10 ∧ d = 46 then 13 :: 10 :: 46 :: 46 :: stuffDots r
    else b :: stuffDots (c :: d :: r)

/-- `chunk[-1:]` -/
def lastByte (bs : Bytes) : Bytes :=
  match bs.getLast? with
  | some b => [b]
  | none => []

/-- `SMTPClient.transformChunk`; `last` is `self._lastChunkByte` (the last byte produced so far,
    `b"\n"` when the message starts).  Returns the bytes to write and the new `_lastChunkByte`. -/
def transformChunk (last chunk : Bytes) : Bytes × Bytes :=
  let c := stuffDots (lfToCrlf chunk)
  -- `if chunk[:1] == b"." and self._lastChunkByte == b"\n": chunk = b"." + chunk`
  let c := if c.take 1 = [46] ∧ last = [10] then 46 :: c else c
  -- `if chunk: self._lastChunkByte = chunk[-1:]`
  (c, if c ≠ [] then lastByte c else last)

/-- `SMTPClient.finishedFileTransfer(lastsent)` followed by `sendLine`: the terminator as written
    to the transport. `lastsent` is `FileSender.lastSent` (`""` when nothing was sent). -/
def finished (lastSent : Bytes) : Bytes :=
  (if lastSent ≠ [] ∧ lastSent ≠ [10] then [13, 10, 46] else [46]) ++ [13, 10]

/-- `FileSender.resumeProducing`, once per read, until the file is exhausted (an empty read is
    EOF): `carry` is the client's `_lastChunkByte`, `lastSent` is `FileSender.lastSent`.
    Result: everything written to the transport from the `354` reply on. -/
def sendFileAux : List Bytes → Bytes → Bytes → Bytes
  | [], _, lastSent => finished lastSent
  | c :: rest, carry, lastSent =>
    if c = [] then finished lastSent
    else
      let t := transformChunk carry c
      t.1 ++ sendFileAux rest t.2 (lastByte t.1)

/-- `SMTPClient.smtpState_data`: `_lastChunkByte = b"\n"`, a fresh `FileSender` (`lastSent = ""`) -/
def sendFile (chunks : List Bytes) : Bytes := sendFileAux chunks [10] []

/-! ### the client before the repair (kept for the counterexample theorems) -/

/-- `SMTPClient.transformChunk` as it was before the repair: every chunk on its own. -/
def transformChunkOld (chunk : Bytes) : Bytes := stuffDots (lfToCrlf chunk)

/-- `finishedFileTransfer` before the repair: `if lastsent != b"\n"` -/
def finishedOld (lastSent : Bytes) : Bytes :=
  (if lastSent ≠ [10] then [13, 10, 46] else [46]) ++ [13, 10]

def sendFileOldAux : List Bytes → Bytes → Bytes
  | [], last => finishedOld last
  | c :: rest, last =>
    if c = [] then finishedOld last
    else
      let t := transformChunkOld c
      t ++ sendFileOldAux rest (lastByte t)

def sendFileOld (chunks : List Bytes) : Bytes := sendFileOldAux chunks []

/-! ## server -/

inductive Mode where
  | command | data
  deriving DecidableEq, Repr

structure Srv where
  buffer : Bytes := []
  mode : Mode := .data
  inheader : Bool := false
  inbody : Bool := false
  deriving DecidableEq, Repr

/-- what the server does that the property observes -/
inductive Ev where
  | line (l : Bytes)   -- `message.lineReceived(l)`
  | eom                -- `message.eomReceived()`: the transfer ended
  | lost               -- `message.connectionLost()`
  | cmd (l : Bytes)    -- `state_COMMAND(l)`: the line is interpreted as an SMTP command
  | tooLong            -- `lineLengthExceeded`: `500 Line too long`
  deriving DecidableEq, Repr

/-- prepend a byte to the first piece of a split -/
def consB (b : UInt8) (p : List Bytes × Bytes) : List Bytes × Bytes :=
  match p.1 with
  | [] => ([], b :: p.2)
  | l :: ls => ((b :: l) :: ls, p.2)

/-- `(buffer + data).split(b"\r\n")`: the complete lines and the remainder (`lines.pop(-1)`). -/
def splitLines : Bytes → List Bytes × Bytes
  | [] => ([], [])
  | [b] => ([], [b])
  | b :: c :: r =>
    if b = 13 ∧ c = 10 then
      let p := splitLines r
      ([] :: p.1, p.2)
    else consB b (splitLines (c :: r))

/-- the part of `dataLineReceived` after the leading-dot handling (`datafailed` is never set) -/
def bodyLine (s : Srv) (line : Bytes) : Srv × List Ev :=
  let first := !s.inheader && !s.inbody
  let colon := line.contains 58
  -- `if not inheader and not inbody: if b":" in line: inheader = 1 elif line: lineReceived(b""); inbody = 1`
  let s1 : Srv :=
    if first then
      if colon then { s with inheader := true }
      else if line ≠ [] then { s with inbody := true } else s
    else s
  let pre : List Ev := if first ∧ ¬ colon ∧ line ≠ [] then [Ev.line []] else []
  -- `if not line: inbody = 1`
  let s2 : Srv := if line = [] then { s1 with inbody := true } else s1
  (s2, pre ++ [Ev.line line])

/-- `SMTP.dataLineReceived` -/
def dataLine (s : Srv) (line : Bytes) : Srv × List Ev :=
  if line.take 1 = [46] then
    if line = [46] then ({ s with mode := .command }, [Ev.eom])
    else bodyLine s (line.drop 1)
  else bodyLine s line

/-- `SMTP.lineReceived`: `getattr(self, "state_" + self.mode)(line)` -/
def lineReceived (s : Srv) (line : Bytes) : Srv × List Ev :=
  match s.mode with
  | .data => dataLine s line
  | .command => (s, [Ev.cmd line])

/-- `SMTP.lineLengthExceeded` -/
def exceeded (s : Srv) : Srv × List Ev :=
  match s.mode with
  | .data => ({ s with mode := .command }, [Ev.tooLong, Ev.lost])
  | .command => (s, [Ev.tooLong])

/-- the `for line in lines:` loop of `LineOnlyReceiver.dataReceived`; the flag says that the loop
    was left by `return self.lineLengthExceeded(line)` -/
def procLines (maxLen : Nat) : Srv → List Bytes → Srv × List Ev × Bool
  | s, [] => (s, [], false)
  | s, l :: ls =>
    if l.length > maxLen then
      let r := exceeded s
      (r.1, r.2, true)
    else
      let r := lineReceived s l
      let q := procLines maxLen r.1 ls
      (q.1, r.2 ++ q.2.1, q.2.2)

/-- `LineOnlyReceiver.dataReceived` (with `transport.disconnecting` false) -/
def dataReceived (maxLen : Nat) (s : Srv) (data : Bytes) : Srv × List Ev :=
  let p := splitLines (s.buffer ++ data)
  let q := procLines maxLen { s with buffer := p.2 } p.1
  if q.2.2 then (q.1, q.2.1)
  -- `if len(self._buffer) >= self.MAX_LENGTH + len(self.delimiter)`
  else if q.1.buffer.length ≥ maxLen + 2 then
    let r := exceeded q.1
    (r.1, q.2.1 ++ r.2)
  else (q.1, q.2.1)

/-- one `dataReceived` per segment -/
def feed (maxLen : Nat) : Srv → List Bytes → Srv × List Ev
  | s, [] => (s, [])
  | s, d :: ds =>
    let r := dataReceived maxLen s d
    let q := feed maxLen r.1 ds
    (q.1, r.2 ++ q.2)

/-- the server when `354` has been sent: `mode = DATA`, `__inheader = __inbody = 0`, empty buffer -/
def initData : Srv := {}

/-- `SMTP.do_DATA` when the message is accepted (`354 Continue`), on a server in whatever state the earlier
    commands and messages of the session left it: `self.mode = DATA`, `self.__inheader = self.__inbody = 0`
    (`datafailed = None` as well — `datafailed` is not modelled); the receive buffer is not touched. -/
def doData (s : Srv) : Srv := { s with mode := .data, inheader := false, inbody := false }

/-- the server at the `354` of the next message, after earlier messages of the same session: each earlier
    message is the client's stream for it (`sendFile`, read in one chunk — `[]` for an empty file) delivered in
    one piece to a server that accepted its `DATA` command.  `prevMax` is the line limit in force then. -/
def afterSession (prevMax : Nat) : Srv → List Bytes → Srv
  | s, [] => doData s
  | s, b :: bs =>
    afterSession prevMax (feed prevMax (doData s) [sendFile (if b = [] then [] else [b])]).1 bs

end Twisted.Mail.SmtpData
