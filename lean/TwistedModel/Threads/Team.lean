/-!
Model of `twisted._threads._team.Team` driven through in-memory workers, with the worker
limit of `twisted._threads._pool.pool` and the `twisted.python.threadpool.ThreadPool`
wrapper on top.

Transcribes (src/twisted/…):
* `_threads/_team.py`   `Team.do/grow/shrink/quit/_coordinateThisTask/_recycleWorker/_quitIdlers`
* `_threads/_memory.py` `MemoryWorker.do/quit`, `createMemoryWorker.perform` (one queue item per step;
                         a quit queue refuses `do`, `NoMoreWork` stays at the end of the queue)
* `_threads/_convenience.py` `Quit.set/check` (`AlreadyQuit` on the second `set`)
* `_threads/_pool.py`   `pool.limitedWorkerCreator` (`busy + idle >= currentLimit()` → `None`)
* `python/threadpool.py` `ThreadPool.start/stop/adjustPoolsize/callInThreadWithCallback/
                         startAWorker/stopAWorker`, `currentLimit` (`0` unless started, else `max`)

Everything that is nondeterministic in the code is an explicit input here:
* which queue performs its next item                      → the `Op.stepC/stepW/any` schedule steps;
* which element `set.pop()` removes from `Team._idle`     → the `choices` stream (index into the idle
  workers in insertion order, modulo their number; `0` once exhausted).

An exception that would escape a queue item (a second `Quit.set`, `do` on a quit worker, `set.remove`
of a missing element) is recorded as `crashed := some …`; a crashed state is frozen.  The theorems show
it is unreachable.
-/
namespace Twisted.Threads

/-- a task: identifier and kind.  "raises" stands for any `BaseException` (both `Team`'s `doWork` and
    `ThreadPool`'s `inContext` catch `BaseException`, so the class makes no difference).
    kind 0: returns; 1: raises (Team calls `logException`);
    ThreadPool calls (`inContext` closures; `func`, then the report of its outcome):
    2: `func` returns, `onResult(True, …)` returns;   3: `func` raises, `onResult(False, Failure)` returns
       (nothing reaches `Team`'s handler);
    4: `func` returns, `onResult(True, …)` RAISES;    5: `func` raises, `onResult(False, Failure)` RAISES
       (the callback's own exception leaves `inContext`: `Team` calls `logException`; `onResult` is not called again);
    6: `func` returns, `onResult is None` (nothing);  7: `func` raises, `onResult is None` (`log.err(failure)`). -/
abbrev Task := Nat × Nat

/-- how the `onResult` argument of `callInThreadWithCallback` behaves -/
inductive Cb where
  | returns   -- a callback that returns normally
  | raises    -- a callback that raises (a fault inside the result callback)
  | absent    -- `onResult is None` (`callInThread`)
  deriving Repr, DecidableEq

/-- the task kind of a ThreadPool call -/
def callKind (raises : Bool) : Cb → Nat
  | .returns => if raises then 3 else 2
  | .raises => if raises then 5 else 4
  | .absent => if raises then 7 else 6

/-- items of the coordinator's queue (the closures `Team` passes to `_coordinator.do`) -/
inductive CItem where
  | coord (t : Task)          -- `lambda: self._coordinateThisTask(task)`
  | grow (n : Nat)            -- `createOneWorker` of `grow(n)`
  | shrink (n : Option Nat)   -- `lambda: self._quitIdlers(n)`
  | recycle (w : Nat)         -- `idleAndPending` of worker `w`
  | finish                    -- `startFinishing` of `quit()`
  deriving Repr, DecidableEq

/-- a worker created by `createWorker`: its queue of `doWork` closures and its `Quit` flag -/
structure Worker where
  queue : List Task := []
  quit : Bool := false
  deriving Repr, DecidableEq

inductive Ev where
  | create (w : Nat) (live : Nat) (limit : Int)  -- `createWorker` made worker `w` with `live` = busy+idle
  | run (t : Nat) (w : Nat)                       -- task `t` was called on worker `w`
  | err (t : Nat)                                 -- `logException()` for task `t`
  | res (t : Nat) (ok : Bool)                     -- `onResult(ok, …)` for ThreadPool call `t`
  | logerr (t : Nat)                              -- `log.err(failure)` of `inContext` (failed call without callback)
  | wquit (w : Nat)                               -- `worker.quit()`
  | cquit                                         -- `coordinator.quit()`
  | accept (t : Task)                             -- `Team.do(task)` returned normally (the task is ghost information)
  | refused (what : Nat)                          -- `AlreadyQuit` out of do(0)/grow(1)/shrink(2)/quit(3)
  | dropped (t : Nat)                             -- `callInThreadWithCallback` after `stop()` (silently ignored)
  | assertion                                     -- `AssertionError` out of `adjustPoolsize`
  deriving Repr, DecidableEq

structure St where
  quit : Bool := false              -- `Team._quit.isSet`
  idle : List Nat := []             -- `Team._idle` (insertion order)
  busy : Nat := 0                   -- `Team._busyCount`
  pending : List Task := []         -- `Team._pending`
  shouldQuit : Bool := false        -- `Team._shouldQuitCoordinator`
  toShrink : Nat := 0               -- `Team._toShrink`
  limit : Int := 0                  -- value `currentLimit()` returns now
  coordQ : List CItem := []         -- coordinator `MemoryWorker._pending` (without `NoMoreWork`)
  coordQuit : Bool := false         -- coordinator `_quit.isSet`
  workers : List Worker := []       -- every worker ever created, by number
  choices : List Nat := []          -- remaining `set.pop()` choices
  log : List Ev := []
  crashed : Option Nat := none
  -- ThreadPool
  pmin : Int := 5
  pmax : Int := 20
  started : Bool := false
  joined : Bool := false
  deriving Repr

namespace St

def emit (s : St) (e : Ev) : St := { s with log := s.log ++ [e] }

def crash (s : St) (code : Nat) : St :=
  match s.crashed with
  | some _ => s
  | none => { s with crashed := some code }

/-- `MemoryWorker.do` on the coordinator: `AlreadyQuit` escapes into the queue item that called it. -/
def coordDo (s : St) (c : CItem) : St :=
  if s.coordQuit then s.crash 1 else { s with coordQ := s.coordQ ++ [c] }

/-- `coordinator.quit()` -/
def coordinatorQuit (s : St) : St :=
  if s.coordQuit then s.crash 2 else ({ s with coordQuit := true }).emit .cquit

/-- `worker.do(doWork)` -/
def workerDo (s : St) (w : Nat) (t : Task) : St :=
  match s.workers[w]? with
  | none => s.crash 3
  | some wk =>
    if wk.quit then s.crash 4
    else { s with workers := s.workers.set w { wk with queue := wk.queue ++ [t] } }

/-- `worker.quit()` -/
def workerQuit (s : St) (w : Nat) : St :=
  match s.workers[w]? with
  | none => s.crash 5
  | some wk =>
    if wk.quit then s.crash 6
    else ({ s with workers := s.workers.set w { wk with quit := true } }).emit (.wquit w)

/-- `self._idle.pop()` on a non-empty set: the next choice selects the element. -/
def popIdle (s : St) : Option (Nat × St) :=
  match s.idle with
  | [] => none
  | i :: rest =>
    let k := s.choices.headD 0 % (i :: rest).length
    some ((i :: rest).getD k i, { s with idle := (i :: rest).eraseIdx k, choices := s.choices.tail })

/-- `limitedWorkerCreator()` -/
def createWorker (s : St) : Option Nat × St :=
  if ((s.busy + s.idle.length : Nat) : Int) ≥ s.limit then (none, s)
  else
    let w := s.workers.length
    (some w, ({ s with workers := s.workers ++ [({ } : Worker)] }).emit (.create w (s.busy + s.idle.length) s.limit))

/-- `Team._coordinateThisTask(task)` -/
def coordinate (s : St) (t : Task) : St :=
  let r : Option Nat × St :=
    match s.popIdle with
    | some (w, s') => (some w, s')
    | none => s.createWorker
  match r with
  | (none, s') => { s' with pending := s'.pending ++ [t] }
  | (some w, s') => ({ s' with busy := s'.busy + 1 }).workerDo w t

/-- the `for x in range(n)` loop of `_quitIdlers` -/
def quitLoop : Nat → St → St
  | 0, s => s
  | n + 1, s =>
    match s.popIdle with
    | some (w, s') => quitLoop n (s'.workerQuit w)
    | none => quitLoop n { s with toShrink := s.toShrink + 1 }

/-- `Team._quitIdlers(n)` -/
def quitIdlers (s : St) (n : Option Nat) : St :=
  let n := n.getD (s.idle.length + s.busy)
  let s := quitLoop n s
  if s.shouldQuit && s.busy == 0 then s.coordinatorQuit else s

/-- `set.add` -/
def idleAdd (s : St) (w : Nat) : St :=
  if w ∈ s.idle then s else { s with idle := s.idle ++ [w] }

/-- `Team._recycleWorker(worker)` -/
def recycle (s : St) (w : Nat) : St :=
  let s := s.idleAdd w
  match s.pending with
  | t :: rest => ({ s with pending := rest }).coordinate t
  | [] =>
    if s.shouldQuit then s.quitIdlers none
    else if s.toShrink > 0 then
      let s := { s with toShrink := s.toShrink - 1 }
      if w ∈ s.idle then ({ s with idle := s.idle.erase w }).workerQuit w else s.crash 7
    else s

/-- `createOneWorker` of `Team.grow(n)` -/
def growLoop : Nat → St → St
  | 0, s => s
  | n + 1, s =>
    match s.createWorker with
    | (none, s') => s'
    | (some w, s') => growLoop n (s'.recycle w)

/-- run one coordinator queue item -/
def runC (s : St) : CItem → St
  | .coord t => s.coordinate t
  | .grow n => growLoop n s
  | .shrink n => s.quitIdlers n
  | .recycle w => ({ s with busy := s.busy - 1 }).recycle w
  | .finish => ({ s with shouldQuit := true }).quitIdlers none

/-- `perform()` of the coordinator's memory worker -/
def stepC (s : St) : St :=
  match s.coordQ with
  | [] => s
  | c :: rest => ({ s with coordQ := rest }).runC c

/-- the events of calling the task itself (before `Team` sees the outcome) -/
def taskEvents (t : Task) (w : Nat) : List Ev :=
  if t.2 = 1 then [.run t.1 w, .err t.1]
  else if t.2 = 2 then [.run t.1 w, .res t.1 true]
  else if t.2 = 3 then [.run t.1 w, .res t.1 false]
  else if t.2 = 4 then [.run t.1 w, .res t.1 true, .err t.1]
  else if t.2 = 5 then [.run t.1 w, .res t.1 false, .err t.1]
  else if t.2 = 7 then [.run t.1 w, .logerr t.1]
  else [.run t.1 w]

/-- `perform()` of worker `w`: run `doWork` (the task, then hand `idleAndPending` to the coordinator) -/
def stepW (s : St) (w : Nat) : St :=
  match s.workers[w]? with
  | none => s
  | some wk =>
    match wk.queue with
    | [] => s
    | t :: rest =>
      let s := { s with workers := s.workers.set w { wk with queue := rest },
                        log := s.log ++ taskEvents t w }
      s.coordDo (.recycle w)

/-- queues whose `perform()` would do something: `none` = coordinator, `some w` = worker `w` -/
def enabled (s : St) : List (Option Nat) :=
  (if s.coordQ = [] then [] else [none]) ++
    ((List.range s.workers.length).filter fun w =>
      match s.workers[w]? with
      | some wk => wk.queue ≠ []
      | none => false).map some

def stepAny (s : St) (k : Nat) : St :=
  match s.enabled with
  | [] => s
  | e :: rest =>
    match (e :: rest).getD (k % (e :: rest).length) e with
    | none => s.stepC
    | some w => s.stepW w

/-! ### `Team` public methods (called from outside; `AlreadyQuit` goes to the caller) -/

/-- `check(); coordinator.do(item)`; `what` names the method in the `refused` event -/
def teamSubmit (s : St) (what : Nat) (c : CItem) : St × Bool :=
  if s.quit || s.coordQuit then (s.emit (.refused what), false)
  else ({ s with coordQ := s.coordQ ++ [c] }, true)

def teamDo (s : St) (t : Task) : St × Bool :=
  if s.quit || s.coordQuit then (s.emit (.refused 0), false)
  else (({ s with coordQ := s.coordQ ++ [CItem.coord t] }).emit (.accept t), true)
def teamGrow (s : St) (n : Nat) : St × Bool := s.teamSubmit 1 (.grow n)
def teamShrink (s : St) (n : Option Nat) : St × Bool := s.teamSubmit 2 (.shrink n)

/-- `Team.quit()`: `_quit.set()` then `coordinator.do(startFinishing)` -/
def teamQuit (s : St) : St × Bool :=
  if s.quit then (s.emit (.refused 3), false)
  else
    let s := { s with quit := true }
    if s.coordQuit then (s.emit (.refused 3), false)
    else ({ s with coordQ := s.coordQ ++ [.finish] }, true)

/-! ### `ThreadPool` -/

def poolWorkers (s : St) : Int := ((s.idle.length + s.busy : Nat) : Int)

/-- the body of `adjustPoolsize` after the assertions -/
def poolAdjustCore (s : St) (mn mx : Int) : St × Bool :=
  let s := { s with pmin := mn, pmax := mx, limit := if s.started then mx else 0 }
  if !s.started then (s, true)
  else
    let r : St × Bool :=
      if s.poolWorkers > s.pmax then s.teamShrink (some (s.poolWorkers - s.pmax).toNat) else (s, true)
    if !r.2 then r
    else
      let r : St × Bool :=
        if r.1.poolWorkers < r.1.pmin then r.1.teamGrow (r.1.pmin - r.1.poolWorkers).toNat else r
      if !r.2 then r
      else if r.1.pending.length > 0 then r.1.teamGrow r.1.pending.length else r

/-- `ThreadPool.adjustPoolsize(minthreads, maxthreads)` -/
def poolAdjust (s : St) (mn mx : Option Int) : St × Bool :=
  let mn := mn.getD s.pmin
  let mx := mx.getD s.pmax
  if mn < 0 || mn > mx then (s.emit .assertion, false)
  else s.poolAdjustCore mn mx

/-- `ThreadPool.start()` -/
def poolStart (s : St) : St :=
  (({ s with joined := false, started := true, limit := s.pmax }).poolAdjust none none).1

/-- `ThreadPool.stop()` (the joins are not part of the model) -/
def poolStop (s : St) : St :=
  ({ s with joined := true, started := false, limit := 0 }).teamQuit.1

/-- `ThreadPool.callInThreadWithCallback(onResult, func)`; `raises` = `func` raises, `cb` = what `onResult` is -/
def poolCall (s : St) (t : Nat) (raises : Bool) (cb : Cb) : St :=
  if s.joined then s.emit (.dropped t) else (s.teamDo (t, callKind raises cb)).1

end St

inductive Op where
  | doTask (t : Nat) (raises : Bool)
  | grow (n : Nat)
  | shrink (n : Option Nat)
  | quit
  | limit (l : Int)
  | stepC
  | stepW (w : Nat)
  | any (k : Nat)
  | pStart
  | pStop
  | pCall (t : Nat) (raises : Bool) (cb : Cb)
  | pAdjust (mn mx : Option Int)
  | pStartWorker
  | pStopWorker
  deriving Repr, DecidableEq

def applyOp (s : St) : Op → St
  | .doTask t r => (s.teamDo (t, if r then 1 else 0)).1
  | .grow n => (s.teamGrow n).1
  | .shrink n => (s.teamShrink n).1
  | .quit => s.teamQuit.1
  | .limit l => { s with limit := l }
  | .stepC => s.stepC
  | .stepW w => s.stepW w
  | .any k => s.stepAny k
  | .pStart => s.poolStart
  | .pStop => s.poolStop
  | .pCall t r cb => s.poolCall t r cb
  | .pAdjust mn mx => (s.poolAdjust mn mx).1
  | .pStartWorker => (s.teamGrow 1).1
  | .pStopWorker => (s.teamShrink (some 1)).1

/-- one operation; a crashed state is frozen -/
def step (s : St) (o : Op) : St :=
  match s.crashed with
  | some _ => s
  | none => applyOp s o

def run (s : St) (ops : List Op) : St := ops.foldl step s

/-- a fresh team whose limit function currently returns `limit`, with the given `set.pop()` choices -/
def init (limit : Int) (choices : List Nat) : St := { limit := limit, choices := choices }

/-- a fresh `ThreadPool(minthreads, maxthreads)` (not started: `currentLimit()` is 0) -/
def initPool (mn mx : Int) (choices : List Nat) : St :=
  { limit := 0, choices := choices, pmin := mn, pmax := mx }

end Twisted.Threads
