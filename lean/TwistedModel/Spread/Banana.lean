/-!
Model of `src/twisted/spread/banana.py` (C44).

Transcribes, function by function:
  * `int2b128`, `b1282int`
  * `Banana.setPrefixLimit` (the four integer bounds), `SIZE_LIMIT`
  * `Banana._encode` / `sendEncoded` (type bytes, integer ranges, the `pb` vocabulary)
  * `Banana.gotItem`, the completion loop at the end of the `dataReceived` loop body
  * `Banana.dataReceived` (prefix scan, `prefixLimit`, partial-item buffering, the
    `assert self.buffer != buffer`, which exception is raised where, what `self.buffer`
    holds afterwards)

Floats are their 64-bit pattern (`struct.pack("!d")` / `struct.unpack("!d")` are the trusted
bijection between a Python float and its 8 big-endian bytes).  The dialect is a parameter
(`pb : Bool` — `currentDialect == b"pb"`); protocol negotiation (`callExpressionReceived` with
`currentDialect is None`) is outside the property and is not modelled: every completed
top-level item is an `expressionReceived` event.
-/
namespace Twisted.Spread.Banana

abbrev Bytes := List UInt8

/-- exception classes the code raises -/
inductive Err
  | banana          -- BananaError
  | notImplemented  -- NotImplementedError (unknown type byte; VOCAB outside dialect pb)
  | keyError        -- KeyError (`self.incomingVocabulary[num]`)
  | assertion       -- AssertionError (`assert self.buffer != buffer`)
  deriving DecidableEq, Repr

/-- the values `_encode` is given / `expressionReceived` delivers -/
inductive Expr
  | int (i : Int)
  | float (bits : UInt64)
  | bytes (b : Bytes)
  | seq (tuple : Bool) (xs : List Expr)   -- `list` (`tuple = false`) or `tuple`
  | other                                   -- any object `_encode` has no branch for (str, None, dict …)
  deriving Repr

def LIST : UInt8 := 0x80
def INT : UInt8 := 0x81
def STRING : UInt8 := 0x82
def NEG : UInt8 := 0x83
def FLOAT : UInt8 := 0x84
def LONGINT : UInt8 := 0x85
def LONGNEG : UInt8 := 0x86
def VOCAB : UInt8 := 0x87
def HIGH_BIT_SET : UInt8 := 0x80

def SIZE_LIMIT : Nat := 640 * 1024

/-- per-connection parameters: `currentDialect == b"pb"`, `prefixLimit` -/
structure Cfg where
  pb : Bool
  lim : Nat
  deriving DecidableEq, Repr

/-! ### int2b128 / b1282int -/

/-- the `while integer:` loop: `stream(integer & 0x7F); integer >>= 7` (little-endian digits) -/
def digits (n : Nat) : Bytes :=
  if h : n = 0 then [] else UInt8.ofNat (n % 128) :: digits (n / 128)
termination_by n
decreasing_by omega

/-- `int2b128` (the assert on negative input is unreachable: callers pass `-obj` for `obj < 0`) -/
def int2b128 (n : Nat) : Bytes := if n = 0 then [0] else digits n

/-- the `for char in st: i += n * e; e <<= 7` loop -/
def b1282intGo (e i : Nat) : Bytes → Nat
  | [] => i
  | ch :: st => b1282intGo (e * 128) (i + ch.toNat * e) st

def b1282int (st : Bytes) : Nat := b1282intGo 1 0 st

/-! ### struct.pack("!d") / struct.unpack("!d") on the bit pattern -/

def be64 (w : UInt64) : Bytes :=
  let n := w.toNat
  [UInt8.ofNat (n / 2 ^ 56 % 256), UInt8.ofNat (n / 2 ^ 48 % 256), UInt8.ofNat (n / 2 ^ 40 % 256),
   UInt8.ofNat (n / 2 ^ 32 % 256), UInt8.ofNat (n / 2 ^ 24 % 256), UInt8.ofNat (n / 2 ^ 16 % 256),
   UInt8.ofNat (n / 2 ^ 8 % 256), UInt8.ofNat (n % 256)]

def unbe64 (b : Bytes) : UInt64 :=
  UInt64.ofNat (b.foldl (fun acc x => acc * 256 + x.toNat) 0)

/-! ### the pb vocabulary -/

def w (s : String) : Bytes := s.toList.map fun ch => UInt8.ofNat ch.toNat

/-- `Banana.outgoingVocabulary` (word, symbol id); `incomingVocabulary` is its inverse -/
def vocabulary : List (Bytes × Nat) :=
  [(w "None", 1), (w "class", 2), (w "dereference", 3), (w "reference", 4), (w "dictionary", 5),
   (w "function", 6), (w "instance", 7), (w "list", 8), (w "module", 9), (w "persistent", 10),
   (w "tuple", 11), (w "unpersistable", 12),
   (w "copy", 13), (w "cache", 14), (w "cached", 15), (w "remote", 16), (w "local", 17),
   (w "lcache", 18),
   (w "version", 19), (w "login", 20), (w "password", 21), (w "challenge", 22),
   (w "logged_in", 23), (w "not_logged_in", 24), (w "cachemessage", 25), (w "message", 26),
   (w "answer", 27), (w "error", 28), (w "decref", 29), (w "decache", 30), (w "uncache", 31)]

/-- `self.outgoingSymbols.get(obj)` -/
def outgoing (word : Bytes) : Option Nat :=
  (vocabulary.find? fun p => p.1 == word).map (·.2)

/-- `self.incomingVocabulary.get(num)` -/
def incoming (num : Nat) : Option Bytes :=
  (vocabulary.find? fun p => p.2 == num).map (·.1)

/-! ### _encode -/

/-- `_largestLongInt = 2 ** (limit * 7) - 1`, `_smallestLongInt = -(2 ** (limit * 7)) + 1` -/
def largestLongInt (lim : Nat) : Int := 2 ^ (lim * 7) - 1
def smallestLongInt (lim : Nat) : Int := -(2 ^ (lim * 7)) + 1
def largestInt : Int := 2 ^ 31 - 1
def smallestInt : Int := -(2 ^ 31)

mutual
/-- `Banana._encode(obj, write)`; the writes are collected, an exception discards them
    (`sendEncoded` writes to the transport only after `_encode` returned) -/
def encode (c : Cfg) : Expr → Except Err Bytes
  | .seq _ xs =>
    if xs.length > SIZE_LIMIT then .error .banana
    else match encodeAll c xs with
      | .error e => .error e
      | .ok body => .ok (int2b128 xs.length ++ LIST :: body)
  | .int obj =>
    if obj < smallestLongInt c.lim ∨ obj > largestLongInt c.lim then .error .banana
    else if obj < smallestInt then .ok (int2b128 (-obj).toNat ++ [LONGNEG])
    else if obj < 0 then .ok (int2b128 (-obj).toNat ++ [NEG])
    else if obj ≤ largestInt then .ok (int2b128 obj.toNat ++ [INT])
    else .ok (int2b128 obj.toNat ++ [LONGINT])
  | .float bits => .ok (FLOAT :: be64 bits)
  | .bytes obj =>
    match (if c.pb then outgoing obj else none) with
    | some symbolID => .ok (int2b128 symbolID ++ [VOCAB])
    | none =>
      if obj.length > SIZE_LIMIT then .error .banana
      else .ok (int2b128 obj.length ++ STRING :: obj)
  | .other => .error .banana
/-- `for elem in obj: self._encode(elem, write)` -/
def encodeAll (c : Cfg) : List Expr → Except Err Bytes
  | [] => .ok []
  | x :: xs =>
    match encode c x with
    | .error e => .error e
    | .ok a => match encodeAll c xs with
      | .error e => .error e
      | .ok b => .ok (a ++ b)
end

/-! ### decoding -/

/-- one entry of `listStack`: `(num, [])` -/
structure Frame where
  n : Nat
  items : List Expr
  deriving Repr

/-- `gotItem(item)`: append to the innermost open list, else `expressionReceived(item)`.
    The stack's top is the head. -/
def gotItem (stk : List Frame) (item : Expr) : List Frame × List Expr :=
  match stk with
  | [] => ([], [item])
  | f :: fs => ({ f with items := f.items ++ [item] } :: fs, [])

theorem gotItem_length (stk : List Frame) (item : Expr) : (gotItem stk item).1.length = stk.length := by
  cases stk <;> simp [gotItem]

/-- `while listStack and (len(listStack[-1][1]) == listStack[-1][0]): item = listStack.pop()[1]; gotItem(item)` -/
def complete (stk : List Frame) : List Frame × List Expr :=
  match stk with
  | [] => ([], [])
  | f :: fs =>
    if f.items.length = f.n then
      let r := gotItem fs (.seq false f.items)
      let r2 := complete r.1
      (r2.1, r.2 ++ r2.2)
    else (f :: fs, [])
termination_by stk.length
decreasing_by simp [gotItem_length]

/-- what one iteration of the `while buffer:` loop found at the front of the buffer -/
inductive Tok
  | openList (n : Nat)
  | atom (v : Expr)
  deriving Repr

inductive Parsed
  | incomplete                       -- the `return`s: the item is not all there yet
  | error (e : Err)                  -- the `raise`s
  | item (t : Tok) (rest : Bytes)    -- an item was consumed, `buffer = rest`
  deriving Repr

/-- `for ch in buffer: if ch >= HIGH_BIT_SET: break; pos += 1` -/
def scan (buffer : Bytes) : Nat := (buffer.takeWhile fun ch => ch < HIGH_BIT_SET).length

/-- the `if typebyte == …` chain of the loop body, after `num`/`typebyte`/`rest` were cut
    out of the buffer -/
def parseTyped (c : Cfg) (num : Bytes) (typebyte : UInt8) (rest : Bytes) : Parsed :=
  if num.length > c.lim then .error .banana
  else if typebyte = LIST then
    if b1282int num > SIZE_LIMIT then .error .banana else .item (.openList (b1282int num)) rest
  else if typebyte = STRING then
    if b1282int num > SIZE_LIMIT then .error .banana
    else if rest.length ≥ b1282int num then
      .item (.atom (.bytes (rest.take (b1282int num)))) (rest.drop (b1282int num))
    else .incomplete
  else if typebyte = INT then .item (.atom (.int (b1282int num))) rest
  else if typebyte = LONGINT then .item (.atom (.int (b1282int num))) rest
  else if typebyte = LONGNEG then .item (.atom (.int (-(b1282int num : Int)))) rest
  else if typebyte = NEG then .item (.atom (.int (-(b1282int num : Int)))) rest
  else if typebyte = VOCAB then
    match incoming (b1282int num) with
    | none => .error .keyError
    | some item => if c.pb then .item (.atom (.bytes item)) rest else .error .notImplemented
  else if typebyte = FLOAT then
    if rest.length ≥ 8 then .item (.atom (.float (unbe64 (rest.take 8)))) (rest.drop 8)
    else .incomplete
  else .error .notImplemented

/-- the body of the `while buffer:` loop up to (not including) the completion loop:
    `pos = scan buffer`, `num = buffer[:pos]`, `typebyte = buffer[pos:pos+1]`, `rest = buffer[pos+1:]` -/
def parseItem (c : Cfg) (buffer : Bytes) : Parsed :=
  match buffer.drop (scan buffer) with
  | [] =>                                     -- the `for … else:` branch: no type byte yet
    if scan buffer > c.lim then .error .banana else .incomplete
  | typebyte :: rest => parseTyped c (buffer.take (scan buffer)) typebyte rest

theorem parseTyped_rest_le {c : Cfg} {num : Bytes} {tb : UInt8} {rest : Bytes} {t : Tok} {r : Bytes}
    (h : parseTyped c num tb rest = .item t r) : r.length ≤ rest.length := by
  unfold parseTyped at h
  repeat' split at h
  all_goals (cases h <;> first | exact Nat.le_refl _ | (simp only [List.length_drop]; omega))

theorem parseItem_rest_lt {c : Cfg} {buffer : Bytes} {t : Tok} {rest : Bytes}
    (h : parseItem c buffer = .item t rest) : rest.length < buffer.length := by
  unfold parseItem at h
  split at h
  · split at h <;> cases h
  · next typebyte rest' hd =>
    have := congrArg List.length hd
    simp only [List.length_drop, List.length_cons] at this
    have := parseTyped_rest_le h
    omega

/-- the effect of a consumed item on `listStack` + the completion loop; returns the
    expressions handed to `expressionReceived` -/
def applyTok (stk : List Frame) : Tok → List Frame × List Expr
  | .openList n => complete ({ n := n, items := [] } :: stk)
  | .atom v =>
    let r := gotItem stk v
    let r2 := complete r.1
    (r2.1, r.2 ++ r2.2)

/-- protocol state between deliveries: `self.listStack`, `self.buffer` -/
structure State where
  stack : List Frame
  buffer : Bytes
  deriving Repr

def State.init : State := { stack := [], buffer := [] }

/-- outcome of (part of) a delivery: the state left behind, the expressions delivered, and the
    exception that escaped `dataReceived`, if any -/
structure Result where
  st : State
  outs : List Expr
  err : Option Err
  deriving Repr

def Result.prepend (o : List Expr) (r : Result) : Result := { r with outs := o ++ r.outs }

/-- the `while buffer:` loop; `selfBuffer` is `self.buffer` on entry to the iteration -/
def run (c : Cfg) (stk : List Frame) (selfBuffer buffer : Bytes) : Result :=
  if buffer = [] then { st := { stack := stk, buffer := [] }, outs := [], err := none }   -- `self.buffer = b""`
  else if selfBuffer = buffer then
    { st := { stack := stk, buffer := selfBuffer }, outs := [], err := some .assertion }
  else
    -- `self.buffer = buffer`
    match _h : parseItem c buffer with
    | .incomplete => { st := { stack := stk, buffer := buffer }, outs := [], err := none }
    | .error e => { st := { stack := stk, buffer := buffer }, outs := [], err := some e }
    | .item t rest =>
      let r := applyTok stk t
      (run c r.1 buffer rest).prepend r.2
termination_by buffer.length
decreasing_by exact parseItem_rest_lt _h

/-- `Banana.dataReceived(chunk)`: `if not chunk: return` (added by the repair of the
    empty-delivery AssertionError), then the loop on `self.buffer + chunk` -/
def feed (c : Cfg) (s : State) (chunk : Bytes) : Result :=
  if chunk = [] then { st := s, outs := [], err := none }
  else run c s.stack s.buffer (s.buffer ++ chunk)

/-- a sequence of deliveries; stops at the first escaping exception (the transport then drops
    the connection) -/
def feedAll (c : Cfg) (s : State) : List Bytes → Result
  | [] => { st := s, outs := [], err := none }
  | chunk :: chunks =>
    let r := feed c s chunk
    match r.err with
    | some _ => r
    | none => (feedAll c r.st chunks).prepend r.outs

/-- tuples become lists -/
def listify : Expr → Expr
  | .seq _ xs => .seq false (listifyAll xs)
  | e => e
where listifyAll : List Expr → List Expr
  | [] => []
  | x :: xs => listify x :: listifyAll xs

end Twisted.Spread.Banana
