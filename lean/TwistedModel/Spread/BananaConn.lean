import TwistedModel.Spread.Banana
/-!
Histories on Banana connections (C44): `src/twisted/spread/banana.py`

  * `Banana._encode(obj, write)` WITH its writes as they happen (`encodeP`): an exception raised
    part-way through a structure leaves the fragments already handed to `write` where they are —
    `Banana.encode` (in `Banana.lean`) only says what a *successful* `_encode` produced.
  * `Banana.sendEncoded(obj)` (`sendEncoded`): a fresh `BytesIO()` per call, `_encode` into it,
    `transport.write(value)` only when `_encode` returned; a refusal propagates and the scratch
    stream (with whatever fragments it holds) is dropped.
  * one direction of a connection (`Link`): the bytes written by the sender and not yet
    delivered, the peer's decoder (`listStack`, `buffer`), what the peer's `expressionReceived`
    got, the exception that escaped the peer's `dataReceived` (the transport then drops the
    connection: no further delivery).
  * a pair of connected Bananas (`Pair`), each one both sending and receiving, the second one
    optionally answering every expression it receives by `sendEncoded` from inside
    `expressionReceived` (i.e. re-entrantly from `dataReceived` — the way pb uses Banana).
  * the module-level helpers `banana.encode` / `banana.decode`, which share ONE instance `_i`
    (dialect `none`, default prefix limit) across calls (`modEncode`, `modDecode`), after the repair
    `fix: banana.decode() leaves no open lists behind …` (`finally:` resets `buffer` AND `listStack`).
-/
namespace Twisted.Spread.Banana

/-! ### `_encode` with partial output -/

mutual
/-- `Banana._encode(obj, write)`: everything handed to `write`, in order, and the exception that
    ended the call (if any).  The bytes written before a `raise` are still part of the result. -/
def encodeP (c : Cfg) : Expr → Bytes × Option Err
  | .seq _ xs =>
    if xs.length > SIZE_LIMIT then ([], some .banana)
    else
      let r := encodeAllP c xs
      (int2b128 xs.length ++ LIST :: r.1, r.2)
  | .int obj =>
    if obj < smallestLongInt c.lim ∨ obj > largestLongInt c.lim then ([], some .banana)
    else if obj < smallestInt then (int2b128 (-obj).toNat ++ [LONGNEG], none)
    else if obj < 0 then (int2b128 (-obj).toNat ++ [NEG], none)
    else if obj ≤ largestInt then (int2b128 obj.toNat ++ [INT], none)
    else (int2b128 obj.toNat ++ [LONGINT], none)
  | .float bits => (FLOAT :: be64 bits, none)
  | .bytes obj =>
    match (if c.pb then outgoing obj else none) with
    | some symbolID => (int2b128 symbolID ++ [VOCAB], none)
    | none =>
      if obj.length > SIZE_LIMIT then ([], some .banana)
      else (int2b128 obj.length ++ STRING :: obj, none)
  | .other => ([], some .banana)
/-- `for elem in obj: self._encode(elem, write)` — stops at the first exception -/
def encodeAllP (c : Cfg) : List Expr → Bytes × Option Err
  | [] => ([], none)
  | x :: xs =>
    match encodeP c x with
    | (a, some e) => (a, some e)
    | (a, none) =>
      let r := encodeAllP c xs
      (a ++ r.1, r.2)
end

/-! ### `sendEncoded` -/

/-- `Banana.sendEncoded(obj)` on a transport that already carries `wire`:
    `encodeStream = BytesIO(); self._encode(obj, encodeStream.write); self.transport.write(encodeStream.getvalue())`.
    Returns the transport's content afterwards and the exception that escaped. -/
def sendEncoded (c : Cfg) (wire : Bytes) (obj : Expr) : Bytes × Option Err :=
  match encodeP c obj with
  | (_, some e) => (wire, some e)          -- the exception propagates before `transport.write`
  | (value, none) => (wire ++ value, none)

/-! ### one direction of a connection -/

/-- sender → receiver -/
structure Link where
  pending : Bytes        -- written by the sender, not yet delivered
  rx : State             -- the receiver's `listStack` / `buffer`
  got : List Expr        -- the receiver's `expressionReceived` calls, in order
  rerr : Option Err      -- exception that escaped the receiver's `dataReceived` (connection dropped)
  log : List Expr        -- ghost: the values the sender's `sendEncoded` accepted, in order
  deriving Repr

def Link.init : Link := { pending := [], rx := State.init, got := [], rerr := none, log := [] }

/-- `sender.sendEncoded(obj)`; the second component is the exception it raised -/
def Link.send (c : Cfg) (l : Link) (obj : Expr) : Link × Option Err :=
  match sendEncoded c l.pending obj with
  | (_, some e) => (l, some e)
  | (w, none) => ({ l with pending := w, log := l.log ++ [obj] }, none)

/-- the next `n` pending bytes (fewer if fewer are pending; `b""` if none) reach
    `receiver.dataReceived`; nothing is delivered once the connection was dropped.
    Returns also the expressions delivered by this very call. -/
def Link.deliver (c : Cfg) (l : Link) (n : Nat) : Link × List Expr :=
  match l.rerr with
  | some _ => (l, [])
  | none =>
    let r := feed c l.rx (l.pending.take n)
    ({ l with pending := l.pending.drop n, rx := r.st, got := l.got ++ r.outs, rerr := r.err }, r.outs)

/-- everything still pending is delivered in one piece (nothing happens if nothing is pending) -/
def Link.flush (c : Cfg) (l : Link) : Link × List Expr :=
  if l.pending = [] then (l, []) else l.deliver c l.pending.length

/-! ### two connected Bananas -/

/-- operations of a history; `side = false` is the first Banana (A), `true` the second (B) -/
inductive Op
  | send (side : Bool) (obj : Expr)     -- `side.sendEncoded(obj)`
  | deliver (side : Bool) (n : Nat)     -- the next `n` bytes written by `side` reach its peer
  deriving Repr

structure Pair where
  ab : Link      -- A → B
  ba : Link      -- B → A
  deriving Repr

def Pair.init : Pair := { ab := Link.init, ba := Link.init }

/-- B's `expressionReceived` when it echoes: `self.sendEncoded(expr)` for each delivered expression
    (from inside `dataReceived`); a refusal is ignored by the callback (`except BananaError: pass`) -/
def echoAll (c : Cfg) (l : Link) : List Expr → Link
  | [] => l
  | x :: xs => echoAll c (l.send c x).1 xs

/-- one operation; the `Option Err` is what a `send` raised -/
def Pair.step (c : Cfg) (echo : Bool) (p : Pair) : Op → Pair × Option Err
  | .send false obj => let r := p.ab.send c obj; ({ p with ab := r.1 }, r.2)
  | .send true obj => let r := p.ba.send c obj; ({ p with ba := r.1 }, r.2)
  | .deliver false n =>
    let r := p.ab.deliver c n
    ({ ab := r.1, ba := if echo then echoAll c p.ba r.2 else p.ba }, none)
  | .deliver true n => ({ p with ba := (p.ba.deliver c n).1 }, none)

def Pair.run (c : Cfg) (echo : Bool) (p : Pair) : List Op → Pair × List (Option Err)
  | [] => (p, [])
  | op :: ops =>
    let r := p.step c echo op
    let r2 := Pair.run c echo r.1 ops
    (r2.1, r.2 :: r2.2)

/-- end of a history: what A wrote reaches B (B may echo), then what B wrote reaches A -/
def Pair.flush (c : Cfg) (echo : Bool) (p : Pair) : Pair :=
  let r := p.ab.flush c
  let ba := if echo then echoAll c p.ba r.2 else p.ba
  { ab := r.1, ba := (ba.flush c).1 }

/-! ### `banana.encode` / `banana.decode` (module level, one shared instance `_i`) -/

/-- `_i`: `Banana()`, `connectionMade()`, `_selectDialect(b"none")` — default prefix limit 64 -/
def modCfg : Cfg := { pb := false, lim := 64 }

/-- `banana.encode(lst)`: `_i.transport = BytesIO(); _i.sendEncoded(lst); return getvalue()` -/
def modEncode (obj : Expr) : Except Err Bytes :=
  match sendEncoded modCfg [] obj with
  | (_, some e) => .error e
  | (v, none) => .ok v

/-- what `banana.decode(st)` returns or raises -/
inductive ModOut
  | value (v : Expr)
  | raised (e : Err)
  | indexError            -- `l[0]` with nothing delivered
  deriving Repr

/-- `banana.decode(st)`: `_i.dataReceived(st)` collecting into `l`; `finally:` `_i.buffer = b""`,
    `_i.listStack = []`; `return l[0]`.  The state of `_i` afterwards is the first component. -/
def modDecode (s : State) (st : Bytes) : State × ModOut :=
  let r := feed modCfg s st
  (State.init,
    match r.err with
    | some e => .raised e
    | none => match r.outs with
      | [] => .indexError
      | v :: _ => .value v)

end Twisted.Spread.Banana
