/-
Model of `twisted.spread.jelly` (C45): `SecurityOptions` (`allowTypes`, `allowModules`,
`allowInstancesOf`, `allowBasicTypes`, `isTypeAllowed`, `isModuleAllowed`, `isClassAllowed`),
`_Unjellier.unjelly` (dispatch: type guard, `unjellyableRegistry`, `unjellyableFactoryRegistry`,
`_unjelly_*` lookup, the dotted-class-name branch), `_genericUnjelly`, `_newInstance`,
`_createBlank`, every `_unjelly_*` handler, and the part of `_Jellier.jelly` that serialises
unshared acyclic values.  `twisted.python.reflect.namedObject/namedModule/namedAny` and
`__import__` are transcribed over a **world** `World` (what the interpreter would find:
which dotted names import, which attribute of which object is which object, what kind of
object it is) — theorems quantify over every world.

What is kept of Python objects: the tree of the value as `_Unjellier` builds it.  Where the
code creates a `NotKnown` placeholder (`_Dereference`, `_Tuple`, `_Container`,
`_InstanceMethod`) the model keeps a placeholder node (`deref`, `pending`, `instMethod`)
instead of patching it in place later (`resolveDependants`): the references table `refs`
holds what every reference id was bound to, so the *objects reachable* from the result and
from the table are the same as in the implementation.  Inputs on which the in-place patching
can additionally fail or leave a stale placeholder (a `NotKnown` flowing into a set, a dict
key, a `reference` binding, a method's self) set the flag `quirk`; for those the model is an
over-approximation (same guards, same resolutions in the same order, possibly continuing
where the implementation has already raised).

The monad `M` keeps the event log when an exception is raised (events are observable side
effects: imports stay done).  Recursion is open (`rec`) and closed by fuel in `unjelly`.
-/
namespace Twisted.Spread.Jelly

abbrev Bytes := List UInt8
abbrev ObjId := String

inductive Atom where
  | bytes (b : Bytes)
  | str (s : String)
  | int (i : Int)
  | float (f : String)
  deriving DecidableEq, Repr

/-- what banana hands to jelly: atoms and lists -/
inductive Sexp where
  | atom (a : Atom)
  | list (xs : List Sexp)
  deriving Repr

/-- exception classes, as canonicalised by the harness (`UnicodeError` before `ValueError`;
    `InvalidName`, `ModuleNotFound`, `ObjectNotFound` are `ValueError`s; `ModuleNotFoundError`
    is an `ImportError`) -/
inductive Err where
  | insecure | index | attribute | type | unicode | assertion | importE | value | unmodelled | fuel
  deriving DecidableEq, Repr

inductive Kind where
  | module
  | cls (plain : Bool)        -- `plain`: `type(k) is type`
  | func
  | other (hashable : Bool)
  deriving DecidableEq, Repr

/-- What the interpreter would find.  Object identity is an `ObjId`. -/
structure World where
  importable : String → Bool             -- `__import__(name)` succeeds
  modObj : String → ObjId                -- `sys.modules[name]` after a successful import
  attr : ObjId → String → Option ObjId   -- `getattr(o, name)`
  kind : ObjId → Kind
  classDict : ObjId → String → Option ObjId   -- `cls.__dict__.get(name)`
  callable : ObjId → Bool
  hasSetstate : ObjId → Bool             -- instances have `__setstate__`
  qual : ObjId → String                  -- `reflect.qual(cls)`
  clsModule : ObjId → String             -- `cls.__module__`

structure Policy where
  types : List Bytes
  modules : List Bytes
  classes : List ObjId

structure RegEntry where
  cls : ObjId
  unjellyFor : Bool       -- the class has `unjellyFor` (an `Unjellyable`); otherwise it is called

structure Registry where
  classes : List (Bytes × RegEntry)      -- `unjellyableRegistry`
  factories : List (Bytes × ObjId)       -- `unjellyableFactoryRegistry`: tag ↦ class of what the factory builds

structure Env where
  W : World
  P : Policy
  R : Registry

/-! ### SecurityOptions -/

def utf8 (s : String) : Bytes := s.toUTF8.toList

def emptyPolicyTypes : List Bytes :=
  ["None", "bool", "boolean", "string", "str", "int", "float", "datetime", "time", "date",
   "timedelta", "NoneType", "unicode", "decimal", "set", "frozenset"].map utf8

/-- `SecurityOptions()` -/
def Policy.init : Policy := ⟨emptyPolicyTypes, [], []⟩

def basicTypes : List Bytes :=
  ["dictionary", "list", "tuple", "reference", "dereference", "unpersistable", "persistent",
   "long_int", "long", "dict"].map utf8

def Policy.allowTypes (p : Policy) (ts : List Bytes) : Policy := { p with types := p.types ++ ts }
def Policy.allowModules (p : Policy) (ms : List Bytes) : Policy := { p with modules := p.modules ++ ms }
def Policy.allowBasicTypes (p : Policy) : Policy := p.allowTypes basicTypes

/-- `allowInstancesOf(*classes)` -/
def Policy.allowInstancesOf (W : World) (p : Policy) (cs : List ObjId) : Policy :=
  cs.foldl (fun p k =>
      let p := p.allowTypes [utf8 (W.qual k)]
      let p := p.allowModules [utf8 (W.clsModule k)]
      { p with classes := p.classes ++ [k] })
    ((p.allowBasicTypes).allowTypes (["instance", "class", "classobj", "module"].map utf8))

/-- one argument of `allowModules(*modules)`, in every form the method accepts -/
inductive ModArg where
  | bytes (b : Bytes)          -- a name as bytes: stored as it is
  | str (s : String)           -- a name as str: `.encode("utf-8")`
  | obj (name : String)        -- a module object: `module = module.__name__`, then encoded
  deriving Repr

/-- the key `allowModules` stores for the argument -/
def ModArg.key : ModArg → Bytes
  | .bytes b => b
  | .str s => utf8 s
  | .obj n => utf8 n

/-- `allowModules(*modules)` on arguments of any form -/
def Policy.allowModuleArgs (p : Policy) (as : List ModArg) : Policy := p.allowModules (as.map ModArg.key)

/-- one argument of `allowTypes(*types)` -/
inductive TypeArg where
  | bytes (b : Bytes)
  | str (s : String)           -- `.encode("utf-8")`
  | cls (k : ObjId)            -- anything else: `typ = qual(typ)`, a *str* key
  deriving Repr

/-- the bytes key `allowTypes` stores; a class object is stored under the str `qual(cls)`, which no type name
    (always looked up as bytes) equals: nothing is added -/
def TypeArg.key? : TypeArg → Option Bytes
  | .bytes b => some b
  | .str s => some (utf8 s)
  | .cls _ => none

/-- `allowTypes(*types)` on arguments of any form -/
def Policy.allowTypeArgs (p : Policy) (as : List TypeArg) : Policy := p.allowTypes (as.filterMap TypeArg.key?)

/-- `isTypeAllowed` on the utf-8 bytes of the type name -/
def Policy.isTypeAllowed (p : Policy) (t : Bytes) : Bool := p.types.contains t || t.contains 46
def Policy.isModuleAllowed (p : Policy) (name : String) : Bool := p.modules.contains (utf8 name)
def Policy.isClassAllowed (p : Policy) (k : ObjId) : Bool := p.classes.contains k

/-! ### values -/

inductive CKind where
  | tuple | set | frozenset
  deriving DecidableEq, Repr

inductive Val where
  | atom (a : Atom)                      -- a non-list s-expression passes through
  | none
  | unicode (b : Bytes)
  | bool (b : Bool)
  | scalar (tag : String) (args : List Atom)   -- decimal / datetime / date / time / timedelta
  | list (xs : List Val)
  | tuple (xs : List Val)
  | set (xs : List Val)
  | frozenset (xs : List Val)
  | dict (ks : List Val) (vs : List Val)
  | obj (id : ObjId)                     -- a world object returned as such (module, class, function, …)
  | inst (cls : ObjId) (state : Val)     -- a new instance of `cls`
  | unpersistable
  | deref (key : Atom)                   -- `_Dereference`
  | pending (k : CKind) (xs : List Val)  -- `_Tuple` / `_Container`
  | method (name : String) (self : Val) (cls : ObjId)
  | instMethod (name : String) (self : Val) (cls : ObjId)
  deriving Repr

/-- world objects a value mentions, by role -/
inductive Label where
  | obj (id : ObjId)           -- returned as an object
  | instOf (cls : ObjId)       -- an instance of it was built
  deriving DecidableEq, Repr

mutual
def Val.labels : Val → List Label
  | .atom _ | .none | .unicode _ | .bool _ | .scalar _ _ | .unpersistable | .deref _ => []
  | .list xs | .tuple xs | .set xs | .frozenset xs | .pending _ xs => labelsL xs
  | .dict ks vs => labelsL ks ++ labelsL vs
  | .obj id => [.obj id]
  | .inst c st => .instOf c :: st.labels
  | .method _ self c => .obj c :: self.labels
  | .instMethod _ self c => .obj c :: self.labels
def labelsL : List Val → List Label
  | [] => []
  | x :: xs => x.labels ++ labelsL xs
end

def Val.isNotKnown : Val → Bool
  | .deref _ | .pending _ _ | .instMethod _ _ _ => true
  | _ => false

def Val.isDict : Val → Bool
  | .dict _ _ => true
  | _ => false

def Val.isNone : Val → Bool
  | .none => true
  | _ => false

mutual
/-- `hash(v)` does not raise `TypeError` (placeholders are handled before this is asked) -/
def Val.hashable (W : World) : Val → Bool
  | .list _ | .set _ | .dict _ _ => false
  | .tuple xs => hashableL W xs
  | .obj id => match W.kind id with
    | .other h => h
    | _ => true
  | .method _ self _ => self.hashable W
  | _ => true
def hashableL (W : World) : List Val → Bool
  | [] => true
  | x :: xs => x.hashable W && hashableL W xs
end

/-! ### events and the monad -/

inductive Event where
  | imp (name : String) (ok : Bool)     -- `__import__(name, …)` called from jelly.py / reflect.py
  | resolve (name : String)             -- `namedAny(name)` / `namedObject(name)` called from jelly.py
  | newInst (cls : ObjId)               -- `_createBlank(cls)` on a type: `cls.__new__(cls)`
  deriving DecidableEq, Repr

structure St where
  refs : List (Atom × Val) := []
  events : List Event := []
  quirk : Bool := false

def M (α : Type) := St → Except Err α × St

@[inline] def M.pure (a : α) : M α := fun s => (.ok a, s)
@[inline] def M.bind (m : M α) (f : α → M β) : M β := fun s =>
  match m s with
  | (.ok a, s') => f a s'
  | (.error e, s') => (.error e, s')
instance : Monad M where
  pure := M.pure
  bind := M.bind

def raise (e : Err) : M α := fun s => (.error e, s)
def emit (e : Event) : M Unit := fun s => (.ok (), { s with events := s.events ++ [e] })
def setQuirk : M Unit := fun s => (.ok (), { s with quirk := true })
def getRef (k : Atom) : M (Option Val) := fun s => (.ok (s.refs.lookup k), s)
def setRef (k : Atom) (v : Val) : M Unit := fun s => (.ok (), { s with refs := (k, v) :: s.refs })
def whenM (c : Bool) (m : M Unit) : M Unit := if c then m else pure ()
/-- `if not cond: raise e` -/
def guardM (cond : Bool) (e : Err) : M Unit := if cond then pure () else raise e

/-! ### names, imports, reflect -/

def isAscii (s : String) : Bool := s.toList.all (fun c => c.toNat < 128)
def bytesToAscii (b : Bytes) : Option String :=
  if b.all (fun c => c < 128) then some (String.ofList (b.map fun c => Char.ofNat c.toNat)) else none

/-- `nativeString(x)` -/
def nativeString : Sexp → M String
  | .atom (.bytes b) => match bytesToAscii b with
    | some s => pure s
    | none => raise .unicode
  | .atom (.str s) => if isAscii s then pure s else raise .unicode
  | _ => raise .type

def splitName (name : String) : List String := name.splitOn "."
/-- `".".join(name.split(".")[:-1])` -/
def modPrefix (name : String) : String := ".".intercalate (splitName name).dropLast
def lastPart (name : String) : String := (splitName name).getLast?.getD ""

/-- `__import__(name)`: `ValueError` on the empty name, `ImportError` when there is no such module -/
def pyImport (env : Env) (name : String) : M Unit :=
  if name = "" then raise .value
  else if env.W.importable name then emit (.imp name true)
  else do emit (.imp name false); raise .importE

def getattrM (env : Env) (o : ObjId) (a : String) : M ObjId :=
  match env.W.attr o a with
  | some r => pure r
  | none => raise .attribute

def walk (env : Env) : ObjId → List String → M ObjId
  | o, [] => pure o
  | o, a :: as => do let o' ← getattrM env o a; walk env o' as

/-- `reflect.namedModule(name)` -/
def namedModule (env : Env) (name : String) : M ObjId := do
  pyImport env name
  walk env (env.W.modObj ((splitName name).headD "")) (splitName name).tail

/-- `reflect.namedObject(name)` as called from jelly.py -/
def namedObject (env : Env) (name : String) : M ObjId := do
  emit (.resolve name)
  let m ← namedModule env (modPrefix name)
  getattrM env m (lastPart name)

/-- the `while not topLevelPackage` loop of `namedAny`: try ever shorter prefixes -/
def trialImport (env : Env) (nparts : Nat) : List String → M Unit
  | [] => raise .value         -- ModuleNotFound / ObjectNotFound (both `InvalidName`)
  | p :: ps =>
    -- `moduleNames` is kept reversed: `p :: ps` is the current trial name, last component first
    let trial := ".".intercalate (p :: ps).reverse
    if env.W.importable trial then emit (.imp trial true)
    else do emit (.imp trial false); trialImport env nparts ps

/-- `reflect.namedAny(name)` as called from jelly.py -/
def namedAny (env : Env) (name : String) : M ObjId := do
  emit (.resolve name)
  if name = "" then raise .value
  else if (splitName name).contains "" then raise .value
  else do
    trialImport env (splitName name).length (splitName name).reverse
    walk env (env.W.modObj ((splitName name).headD "")) (splitName name).tail

/-! ### the unjellier -/

def idx (xs : List Sexp) (i : Nat) : M Sexp :=
  match xs[i]? with
  | some x => pure x
  | none => raise .index

/-- the `for elem in l: self.unjellyInto(l, elem, lst[elem])` loops -/
def mapRec (rec : Sexp → M Val) : List Sexp → M (List Val)
  | [] => pure []
  | x :: xs => do let v ← rec x; let vs ← mapRec rec xs; pure (v :: vs)

/-- `_createBlank(cls)` then `_newInstance`'s setter -/
def newInstance (env : Env) (clz : Val) (state : Val) : M Val :=
  match clz with
  | .obj k => match env.W.kind k with
    | .cls _ => do
      emit (.newInst k)
      if env.W.hasSetstate k then pure (.inst k state)
      else if state.isDict then pure (.inst k state) else pure (.inst k (.dict [] []))
    | _ => if state.isDict then raise .attribute else pure .none
  | _ => if state.isDict then raise .attribute else pure .none

def isPlainClass (env : Env) : Val → Bool
  | .obj k => match env.W.kind k with
    | .cls true => true
    | _ => false
  | _ => false

def isClass (env : Env) : Val → Bool
  | .obj k => match env.W.kind k with
    | .cls _ => true
    | _ => false
  | _ => false

/-- `isClassAllowed(obj)`: `obj in self.allowedClasses` hashes `obj` -/
def classAllowedM (env : Env) (k : ObjId) : M Bool :=
  match env.W.kind k with
  | .other false => raise .type
  | _ => pure (env.P.isClassAllowed k)

def setOrFrozenset (env : Env) (rec : Sexp → M Val) (rest : List Sexp) (k : CKind) : M Val := do
  let vs ← mapRec rec rest
  if vs.any Val.isNotKnown then do setQuirk; pure (.pending k vs)
  else if hashableL env.W vs then pure (if k = .set then .set vs else .frozenset vs)
  else raise .type

/-- one `for k, v in lst` step of `_unjelly_dictionary`: unpack the pair -/
def unpackPair : Sexp → M (Sexp × Sexp)
  | .list [k, v] => pure (k, v)
  | .list _ => raise .value
  | .atom (.bytes [a, b]) => pure (.atom (.int a.toNat), .atom (.int b.toNat))
  | .atom (.bytes _) => raise .value
  | .atom (.str s) => match s.toList with
    | [a, b] => pure (.atom (.str (String.singleton a)), .atom (.str (String.singleton b)))
    | _ => raise .value
  | .atom _ => raise .type

def dictLoop (env : Env) (rec : Sexp → M Val) : List Sexp → M (List Val × List Val)
  | [] => pure ([], [])
  | p :: ps => do
    let kv ← unpackPair p
    let k ← rec kv.1
    let v ← rec kv.2
    if k.isNotKnown then do setQuirk; raise .assertion     -- `NotKnown.__hash__`
    else do
      guardM (k.hashable env.W) .type
      let r ← dictLoop env rec ps
      pure (k :: r.1, v :: r.2)

def scalarArgs : List Sexp → List Atom
  | [] => []
  | .atom a :: xs => a :: scalarArgs xs
  | .list _ :: xs => scalarArgs xs

def isBytesAtom : Sexp → Bool
  | .atom (.bytes _) => true
  | _ => false
def isIntAtom : Sexp → Bool
  | .atom (.int _) => true
  | _ => false

/-- `self.references.get(refid)`: the key must be hashable -/
def refKey : Sexp → M Atom
  | .atom a => pure a
  | .list _ => raise .type

def hUnicode (rest : List Sexp) : M Val := do
  let x ← idx rest 0
  match x with
  | .atom (.bytes b) => match String.fromUTF8? ⟨b.toArray⟩ with
    | some _ => pure (.unicode b)
    | none => raise .unicode
  | _ => raise .type

def hDecimal (rest : List Sexp) : M Val := do
  let v ← idx rest 0
  let e ← idx rest 1
  if isIntAtom v && isIntAtom e then pure (.scalar "decimal" (scalarArgs [v, e])) else raise .unmodelled

def hBoolean (rest : List Sexp) : M Val := do
  let x ← idx rest 0
  match x with
  | .atom (.bytes b) =>
    if b = utf8 "true" then pure (.bool true)
    else if b = utf8 "false" then pure (.bool false) else raise .assertion
  | _ => raise .assertion

def hDate (name : String) (rest : List Sexp) : M Val := do
  let x ← idx rest 0
  if isBytesAtom x then pure (.scalar name (scalarArgs [x])) else raise .unmodelled

/-- the table entry is a placeholder other than the one `dereference k` itself made -/
def staleRisk (k : Atom) : Val → Bool
  | .deref k' => k' != k
  | v => v.isNotKnown

/-- `_unjelly_dereference` -/
def hDereference (rest : List Sexp) : M Val := do
  let k ← idx rest 0
  let k ← refKey k
  let x ← getRef k
  match x with
  | some v =>
    if v.isNone then do setRef k (.deref k); pure (.deref k)
    else do
      -- the entry made by an earlier `dereference` of the same id is still unresolved; any other
      -- placeholder in the table may have been resolved meanwhile
      whenM (staleRisk k v) setQuirk
      pure v
  | none => do setRef k (.deref k); pure (.deref k)

/-- `_unjelly_reference` -/
def hReference (rec : Sexp → M Val) (rest : List Sexp) : M Val := do
  let k ← idx rest 0
  let e ← idx rest 1
  let o ← rec e
  let k ← refKey k
  let r ← getRef k
  whenM o.isNotKnown setQuirk
  match r with
  | none => do setRef k o; pure o
  | some v =>
    if v.isNone || v.isNotKnown then do setRef k o; pure o
    else raise .assertion

def hTuple (rec : Sexp → M Val) (rest : List Sexp) : M Val := do
  let vs ← mapRec rec rest
  if vs.any Val.isNotKnown then pure (.pending .tuple vs) else pure (.tuple vs)

def hList (rec : Sexp → M Val) (rest : List Sexp) : M Val := do
  let vs ← mapRec rec rest
  pure (.list vs)

def hDictionary (env : Env) (rec : Sexp → M Val) (rest : List Sexp) : M Val := do
  let kv ← dictLoop env rec rest
  pure (.dict kv.1 kv.2)

/-- `_unjelly_module` -/
def hModule (env : Env) (rest : List Sexp) : M Val := do
  let x ← idx rest 0
  let moduleName ← nativeString x
  guardM (env.P.isModuleAllowed moduleName) .insecure
  pyImport env moduleName
  pure (.obj (env.W.modObj moduleName))

/-- `_unjelly_class` -/
def hClass (env : Env) (rest : List Sexp) : M Val := do
  let x ← idx rest 0
  let cname ← nativeString x
  guardM (env.P.isModuleAllowed (modPrefix cname)) .insecure
  let klaus ← namedObject env cname
  guardM (isPlainClass env (.obj klaus)) .insecure
  guardM (env.P.isClassAllowed klaus) .insecure
  pure (.obj klaus)

/-- `_unjelly_function`: `getattr(namedAny(modName), modSplit[-1])`, then "is not a function" -/
def hFunction (env : Env) (rest : List Sexp) : M Val := do
  let x ← idx rest 0
  let fname ← nativeString x
  guardM (env.P.isModuleAllowed (modPrefix fname)) .insecure
  let m ← namedAny env (modPrefix fname)
  let f ← getattrM env m (lastPart fname)
  guardM (env.W.kind f = .func) .insecure
  pure (.obj f)

/-- `_unjelly_instance` (deprecated atom) -/
def hInstance (env : Env) (rec : Sexp → M Val) (rest : List Sexp) : M Val := do
  let c ← idx rest 0
  let clz ← rec c
  guardM (isClass env clz) .insecure          -- "Instance found with non-class class."
  match clz with
  | .obj k => do
    let ok ← classAllowedM env k
    guardM ok .insecure
    let s ← idx rest 1
    let state ← rec s
    newInstance env (.obj k) state
  | _ => raise .insecure

def hUnpersistable (rest : List Sexp) : M Val := do
  let _ ← idx rest 0
  pure .unpersistable

/-- `_unjelly_method` -/
def hMethod (env : Env) (rec : Sexp → M Val) (rest : List Sexp) : M Val := do
  let n ← idx rest 0
  let s ← idx rest 1
  let imSelf ← rec s
  let c ← idx rest 2
  let imClass ← rec c
  guardM (isClass env imClass) .insecure
  match imClass, n with
  | .obj k, .atom (.str nm) =>
    match env.W.classDict k nm with
    | none => raise .type           -- "instance method changed"
    | some f =>
      if imSelf.isNone then do      -- `getattr(im_class, im_name)`, must be a function
        guardM (env.W.kind f = .func) .insecure
        pure (.obj f)
      else if imSelf.isNotKnown then do setQuirk; pure (.instMethod nm imSelf k)
      else if env.W.callable f then pure (.method nm imSelf k) else raise .type
  | _, .atom _ => raise .type       -- a bytes / number name is never in `__dict__`
  | _, .list _ => raise .type       -- unhashable

def handlerNames : List String :=
  ["None", "unicode", "decimal", "boolean", "datetime", "date", "time", "timedelta", "dereference",
   "reference", "tuple", "list", "set", "frozenset", "dictionary", "module", "class", "function",
   "persistent", "instance", "unpersistable", "method"]

/-- `getattr(self, "_unjelly_%s" % name, None) is not None` -/
def isHandler (name : String) : Bool := handlerNames.contains name

/-- the `_unjelly_<name>` method (for `isHandler name`) -/
def handlerFor (env : Env) (rec : Sexp → M Val) (name : String) (rest : List Sexp) : M Val :=
  if name = "None" then pure .none
  else if name = "unicode" then hUnicode rest
  else if name = "decimal" then hDecimal rest
  else if name = "boolean" then hBoolean rest
  else if name = "datetime" ∨ name = "date" ∨ name = "time" ∨ name = "timedelta" then hDate name rest
  else if name = "dereference" then hDereference rest
  else if name = "reference" then hReference rec rest
  else if name = "tuple" then hTuple rec rest
  else if name = "list" then hList rec rest
  else if name = "set" then setOrFrozenset env rec rest .set
  else if name = "frozenset" then setOrFrozenset env rec rest .frozenset
  else if name = "dictionary" then hDictionary env rec rest
  else if name = "module" then hModule env rest
  else if name = "class" then hClass env rest
  else if name = "function" then hFunction env rest
  else if name = "persistent" then pure .unpersistable      -- no `persistentLoad`
  else if name = "instance" then hInstance env rec rest
  else if name = "unpersistable" then hUnpersistable rest
  else if name = "method" then hMethod env rec rest
  else raise .unmodelled

/-- the type name as bytes for `isTypeAllowed` / the registries (`AttributeError` when it has no `.encode`) -/
def typeKey : Sexp → M (Bytes × Bool)
  | .atom (.bytes b) => pure (b, true)
  | .atom (.str s) => pure (utf8 s, false)
  | _ => raise .attribute

/-- `_Unjellier.unjelly`, one level; `rec` is `self.unjelly` -/
def step (env : Env) (rec : Sexp → M Val) : Sexp → M Val
  | .atom a => pure (.atom a)
  | .list [] => raise .index
  | .list (t :: rest) => do
    let tk ← typeKey t
    guardM (env.P.isTypeAllowed tk.1) .insecure
    -- registries are keyed by bytes: a `str` type name never matches
    match (if tk.2 then env.R.classes.lookup tk.1 else none) with
    | some reg => do
      emit (.newInst reg.cls)                 -- `_createBlank(regClass)`
      if reg.unjellyFor then do
        let s ← idx (t :: rest) 1
        let state ← rec s
        guardM state.isDict .type               -- `self.__dict__ = state`
        pure (.inst reg.cls state)
      else pure (.inst reg.cls (.dict [] []))   -- `regClass(self, obj)`
    | none =>
    match (if tk.2 then env.R.factories.lookup tk.1 else none) with
    | some fcls => do
      let s ← idx (t :: rest) 1
      let state ← rec s
      pure (.inst fcls state)
    | none => do
      let text ← nativeString t
      if isHandler text then handlerFor env rec text rest
      else do
        guardM (env.P.isModuleAllowed (modPrefix text)) .insecure
        let clz ← namedObject env text
        let ok ← classAllowedM env clz
        guardM ok .insecure
        let s ← idx (t :: rest) 1
        let state ← rec s
        newInstance env (.obj clz) state

/-- `_Unjellier.unjelly` -/
def unjelly (env : Env) : Nat → Sexp → M Val
  | 0, _ => raise .fuel
  | n + 1, s => step env (unjelly env n) s

mutual
def Sexp.depth : Sexp → Nat
  | .atom _ => 0
  | .list xs => depthL xs + 1
def depthL : List Sexp → Nat
  | [] => 0
  | x :: xs => max x.depth (depthL xs)
end

/-- `jelly.unjelly(sexp, taster)` with no `persistentLoad` -/
def unjellyFull (env : Env) (s : Sexp) : Except Err Val × St :=
  unjelly env (s.depth + 1) s {}

end Twisted.Spread.Jelly
