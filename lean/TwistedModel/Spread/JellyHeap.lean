import TwistedModel.Spread.Jelly
/-
Heap model of the jelly round trip (C45, second half): `_Jellier.jelly` (`_checkMutable`,
`prepare`, `preserve`, `_cook`, the `reference` / `dereference` atoms) over a heap of Python
objects with identity, and `_Unjellier.unjelly` building a second heap, with the `NotKnown`
placeholders of `twisted.persisted.crefutil` (`_Dereference`, `_Tuple` / `_Container`,
`_DictKeyAndValue`) and their in-place patching (`addDependant`, `resolveDependants`,
`_Container.__setitem__`), as `src/twisted/spread/jelly.py` and `persisted/crefutil.py` do it.

Objects: `list`, `tuple`, `set`, `frozenset`, `dict` (flat `k0 v0 k1 v1 …`), instances
(`inst cls`, one kid: the state — what `__getstate__()` / `__dict__` gives, itself a reference
into the heap, so an instance's `__dict__` is a heap object with identity).  Leaves (`Imm`) are
what jelly serialises without identity: `bytes` / `int` / `float` atoms pass through; `None`,
`str`, `bool`, `Decimal`, dates, classes, functions, modules are *identified with their jelly*
`[tag, atom…]` (`Imm.leaf`): the per-leaf conversions are not modelled here (oracle only).

How `_Jellier`'s in-place list surgery is modelled: the Python list that `preserve` returns for
object `a` is the tree node `JT.first a …`; `_cook`, which later rewrites *that same list* in
place to `[reference, refid, <copy>]`, is modelled by recording `a ↦ refid` in `cooked` and by
`render`, which reads the final `cooked` table when it prints the node.  (Each such list occurs
exactly once in the output, `_checkMutable` intercepts every later visit.)

Not modelled: bound methods (`method` atom, `_InstanceMethod`), `Jellyable` / `Unjellyable`
hooks, `persistentStore`, hashability errors, de-duplication in `set(l)` / `d[k] = v` by
Python `==` on distinct model references (keys are compared as model references: same leaf,
or same object).  The security checks of `unjelly` are the other model
(`TwistedModel/Spread/Jelly.lean`); here `Env.resolve` stands for "type allowed, module allowed,
`namedObject` finds a class, class allowed".
-/
namespace Twisted.Spread.JellyHeap
open Twisted.Spread.Jelly (Bytes ObjId Atom Sexp Err)

abbrev Addr := Nat

/-! ### type tags (utf-8 bytes, spelled out so that `decide` can compare them) -/

def tList : Bytes := [108, 105, 115, 116]
def tTuple : Bytes := [116, 117, 112, 108, 101]
def tSet : Bytes := [115, 101, 116]
def tFrozenset : Bytes := [102, 114, 111, 122, 101, 110, 115, 101, 116]
def tDictionary : Bytes := [100, 105, 99, 116, 105, 111, 110, 97, 114, 121]
def tReference : Bytes := [114, 101, 102, 101, 114, 101, 110, 99, 101]
def tDereference : Bytes := [100, 101, 114, 101, 102, 101, 114, 101, 110, 99, 101]
def tNone : Bytes := [78, 111, 110, 101]

/-- tags whose `_unjelly_*` handler returns an immutable value determined by the atoms that follow:
    None unicode boolean decimal datetime date time timedelta class function module -/
def leafTags : List Bytes :=
  [tNone, [117, 110, 105, 99, 111, 100, 101], [98, 111, 111, 108, 101, 97, 110],
   [100, 101, 99, 105, 109, 97, 108], [100, 97, 116, 101, 116, 105, 109, 101], [100, 97, 116, 101],
   [116, 105, 109, 101], [116, 105, 109, 101, 100, 101, 108, 116, 97], [99, 108, 97, 115, 115],
   [102, 117, 110, 99, 116, 105, 111, 110], [109, 111, 100, 117, 108, 101]]

inductive TagKind where
  | list | tuple | set | frozenset | dict | reference | dereference | leaf | other
  deriving DecidableEq, Repr

def classify (t : Bytes) : TagKind :=
  if t = tList then .list else if t = tTuple then .tuple else if t = tSet then .set
  else if t = tFrozenset then .frozenset else if t = tDictionary then .dict
  else if t = tReference then .reference else if t = tDereference then .dereference
  else if t ∈ leafTags then .leaf else .other

/-! ### object graphs -/

inductive Imm where
  | atom (a : Atom)                          -- bytes / int / float: jellied as themselves
  | leaf (tag : Bytes) (args : List Atom)    -- the immutable value whose jelly is `[tag, args…]`
  deriving DecidableEq, Repr

inductive Ref where
  | imm (i : Imm)
  | ptr (a : Addr)
  deriving DecidableEq, Repr

inductive Shape where
  | list | tuple | set | frozenset | dict
  | inst (cls : ObjId)
  deriving DecidableEq, Repr

structure Obj where
  shape : Shape
  kids : List Ref
  deriving DecidableEq, Repr

abbrev Heap := List Obj

structure Env where
  qual : ObjId → Bytes              -- `qual(cls).encode("utf-8")`
  classAllowed : ObjId → Bool       -- `taster.isClassAllowed(cls)` (jelly side)
  resolve : Bytes → Option ObjId    -- unjelly side: the dotted tag passes the policy and names this class
  hasSetstate : ObjId → Bool        -- instances have `__setstate__`

/-- the instance whose `__dict__` is empty: `__getstate__()` is `None` -/
def noneLeaf : Ref := .imm (.leaf tNone [])

/-! ### `_Jellier` -/

structure JSt where
  preserved : List Addr := []          -- keys of `self.preserved`
  cooked : List (Addr × Nat) := []     -- `self.cooked`: id ↦ refid of its `[dereference, refid]`
  refId : Nat := 1                     -- `self._ref_id`

/-- jelly output before the final `cooked` table is read (see the header) -/
inductive JT where
  | imm (i : Imm)
  | first (a : Addr) (sh : Shape) (kids : List JT)   -- the list `preserve` returned for object `a`
  | back (n : Nat)                                   -- `[dereference, n]`
  deriving Repr

def mapS {α β σ : Type} (f : α → σ → Except Err (β × σ)) : List α → σ → Except Err (List β × σ)
  | [], s => .ok ([], s)
  | x :: xs, s =>
    match f x s with
    | .error e => .error e
    | .ok (y, s1) =>
      match mapS f xs s1 with
      | .error e => .error e
      | .ok (ys, s2) => .ok (y :: ys, s2)

def classOK (env : Env) : Shape → Bool
  | .inst c => env.classAllowed c
  | _ => true

/-- `_Jellier.jelly(obj)`; the fuel stands for the interpreter's recursion limit -/
def jelly (env : Env) (h : Heap) : Nat → Ref → JSt → Except Err (JT × JSt)
  | 0, _, _ => .error .fuel
  | _ + 1, .imm i, s => .ok (.imm i, s)
  | n + 1, .ptr a, s =>
    match h[a]? with
    | none => .error .unmodelled
    | some o =>
      -- `_checkMutable`
      match s.cooked.lookup a with
      | some r => .ok (.back r, s)
      | none =>
        if a ∈ s.preserved then
          -- `_cook`
          .ok (.back s.refId, { s with cooked := (a, s.refId) :: s.cooked, refId := s.refId + 1 })
        else if classOK env o.shape then
          -- `prepare` … fill `sxp` … `preserve`
          match mapS (jelly env h n) o.kids { s with preserved := a :: s.preserved } with
          | .error e => .error e
          | .ok (ks, s') => .ok (.first a o.shape ks, s')
        else .error .unmodelled      -- `unpersistable`: not a round trip

def bsym (t : Bytes) : Sexp := .atom (.bytes t)

def tagOf (env : Env) : Shape → Bytes
  | .list => tList
  | .tuple => tTuple
  | .set => tSet
  | .frozenset => tFrozenset
  | .dict => tDictionary
  | .inst c => env.qual c

/-- `[k0, v0, k1, v1, …]` → `[[k0, v0], [k1, v1], …]` -/
def pairUp : List Sexp → List Sexp
  | k :: v :: rest => .list [k, v] :: pairUp rest
  | _ => []

def renderImm : Imm → Sexp
  | .atom a => .atom a
  | .leaf tag args => .list (bsym tag :: args.map .atom)

def wrapKids : Shape → List Sexp → List Sexp
  | .dict, ks => pairUp ks
  | _, ks => ks

mutual
/-- the s-expression `jelly()` returns, given the final `cooked` table -/
def render (env : Env) (C : List (Addr × Nat)) : JT → Sexp
  | .imm i => renderImm i
  | .back n => .list [bsym tDereference, .atom (.int n)]
  | .first a sh kids =>
    match C.lookup a with
    | some n => .list [bsym tReference, .atom (.int n),
                       .list (bsym (tagOf env sh) :: wrapKids sh (renderL env C kids))]
    | none => .list (bsym (tagOf env sh) :: wrapKids sh (renderL env C kids))
def renderL (env : Env) (C : List (Addr × Nat)) : List JT → List Sexp
  | [] => []
  | t :: ts => render env C t :: renderL env C ts
end

/-- `jelly.jelly(obj, taster)` -/
def jellyFull (env : Env) (h : Heap) (fuel : Nat) (root : Ref) : Except Err Sexp :=
  match jelly env h fuel root {} with
  | .ok (t, s) => .ok (render env s.cooked t)
  | .error e => .error e

/-! ### `_Unjellier` over a heap -/

/-- one `(mutableObject, key)` entry of `NotKnown.dependants` -/
inductive Dep where
  | slot (p : Addr) (i : Nat)        -- a list / the `l` of a container / a `_Container`, index `i`
  | dictVal (d : Addr) (key : Ref)   -- `(_DictKeyAndValue(d) whose key is set, 1)`
  | refs (id : Atom)                 -- `(self.references, refid)`
  deriving Repr

inductive DObj where
  | obj (sh : Shape) (kids : List Ref)
  | deref (deps : List Dep) (resolved : Option Ref)                                  -- `_Dereference`
  | cont (kind : Shape) (l : Addr) (locs : List Nat) (deps : List Dep) (resolved : Option Ref)  -- `_Tuple` / `_Container`
  deriving Repr

structure USt where
  heap : List DObj := []
  refs : List (Atom × Ref) := []       -- `self.references`

def UM (α : Type) := USt → Except Err (α × USt)

@[inline] def UM.pure {α : Type} (a : α) : UM α := fun s => .ok (a, s)
@[inline] def UM.bind {α β : Type} (m : UM α) (f : α → UM β) : UM β := fun s =>
  match m s with
  | .ok (a, s') => f a s'
  | .error e => .error e
instance : Monad UM where
  pure := UM.pure
  bind := UM.bind

def raise {α : Type} (e : Err) : UM α := fun _ => .error e
def alloc (o : DObj) : UM Addr := fun s => .ok (s.heap.length, { s with heap := s.heap ++ [o] })
def getObj (p : Addr) : UM DObj := fun s =>
  match s.heap[p]? with
  | some o => .ok (o, s)
  | none => .error .unmodelled
def putObj (p : Addr) (o : DObj) : UM Unit := fun s => .ok ((), { s with heap := s.heap.set p o })
def getRef (k : Atom) : UM (Option Ref) := fun s => .ok (s.refs.lookup k, s)
def setRef (k : Atom) (v : Ref) : UM Unit := fun s => .ok ((), { s with refs := (k, v) :: s.refs })

def DObj.isNK : DObj → Bool
  | .obj _ _ => false
  | _ => true

def nkIn (heap : List DObj) : Ref → Bool
  | .imm _ => false
  | .ptr p => match heap[p]? with
    | some o => o.isNK
    | none => false

/-- `isinstance(o, NotKnown)` -/
def isNK (r : Ref) : UM Bool := fun s => .ok (nkIn s.heap r, s)

/-- `o.addDependant(mut, key)` (`assert not self.resolved`) -/
def addDep (r : Ref) (d : Dep) : UM Unit :=
  match r with
  | .imm _ => raise .attribute
  | .ptr q => do
    let o ← getObj q
    match o with
    | .deref deps none => putObj q (.deref (deps ++ [d]) none)
    | .cont k l locs deps none => putObj q (.cont k l locs (deps ++ [d]) none)
    | .obj _ _ => raise .attribute
    | _ => raise .assertion

/-- `lst[i] = v` on a real object -/
def setSlot (p : Addr) (i : Nat) (v : Ref) : UM Unit := do
  let o ← getObj p
  match o with
  | .obj sh kids => putObj p (.obj sh (kids.set i v))
  | _ => raise .type

/-- `d[k] = v` on the flat list: overwrite the value of an existing key, else append -/
def storeKV : List Ref → Ref → Ref → List Ref
  | k' :: v' :: rest, k, v => if k' = k then k' :: v :: rest else k' :: v' :: storeKV rest k v
  | _, k, v => [k, v]

def dictStore (d : Addr) (k v : Ref) : UM Unit := do
  let o ← getObj d
  match o with
  | .obj .dict kids => putObj d (.obj .dict (storeKV kids k v))
  | _ => raise .type

def kidsOf (p : Addr) : UM (List Ref) := do
  let o ← getObj p
  match o with
  | .obj _ kids => pure kids
  | _ => raise .type

def depsOf : DObj → List Dep
  | .obj _ _ => []
  | .deref deps _ => deps
  | .cont _ _ _ deps _ => deps

def markResolved (new : Ref) : DObj → DObj
  | .obj sh kids => .obj sh kids
  | .deref deps _ => .deref deps (some new)
  | .cont k l locs deps _ => .cont k l locs deps (some new)

def forEach {α : Type} (f : α → UM Unit) : List α → UM Unit
  | [] => pure ()
  | x :: xs => do f x; forEach f xs

/-- `mut[key] = new` for one dependant; `res` is `resolveDependants` one level down -/
def applyDep (res : Addr → Ref → UM Unit) (new : Ref) : Dep → UM Unit
  | .refs id => setRef id new
  | .dictVal d key => dictStore d key new
  | .slot p i => do
    let m ← getObj p
    match m with
    | .obj sh kids => putObj p (.obj sh (kids.set i new))
    | .deref _ _ => raise .type
    | .cont kind l locs deps r => do
      -- `_Container.__setitem__`
      setSlot l i new
      let nk ← isNK new
      if nk then pure ()
      else if locs.contains i then do
        let locs' := locs.erase i
        putObj p (.cont kind l locs' deps r)
        if locs'.isEmpty then do
          let ks ← kidsOf l
          let t ← alloc (.obj kind ks)          -- `self.containerType(self.l)`
          res p (.ptr t)
        else pure ()
      else raise .value                          -- `self.locs.remove(n)`

/-- `NotKnown.resolveDependants(newObject)` on placeholder `q` -/
def resolve : Nat → Addr → Ref → UM Unit
  | 0, _, _ => raise .fuel
  | n + 1, q, new => do
    let o ← getObj q
    putObj q (markResolved new o)
    forEach (applyDep (resolve n) new) (depsOf o)

/-- `list(range(n))` -/
def rangeRefs (n : Nat) : List Ref := (List.range n).map fun i => .imm (.atom (.int (Int.ofNat i)))

def allAtoms : List Sexp → Option (List Atom)
  | [] => some []
  | .atom a :: xs => (allAtoms xs).map (a :: ·)
  | .list _ :: _ => none

/-- `_newInstance(cls, state)` -/
def newInstance (env : Env) (c : ObjId) (state : Ref) : UM Ref := fun s =>
  if env.hasSetstate c then
    .ok (.ptr s.heap.length, { s with heap := s.heap ++ [.obj (.inst c) [state]] })
  else
    -- `defaultSetter`: `if isinstance(state, dict): instance.__dict__ = state or {}`
    match state with
    | .ptr d =>
      match s.heap[d]? with
      | some (.obj .dict (_ :: _)) =>
        .ok (.ptr s.heap.length, { s with heap := s.heap ++ [.obj (.inst c) [state]] })
      | some (.obj .dict []) =>
        .ok (.ptr (s.heap.length + 1),
             { s with heap := s.heap ++ [.obj .dict [], .obj (.inst c) [.ptr s.heap.length]] })
      | _ => .ok (.ptr s.heap.length, { s with heap := s.heap ++ [.obj (.inst c) [noneLeaf]] })
    | .imm _ => .ok (.ptr s.heap.length, { s with heap := s.heap ++ [.obj (.inst c) [noneLeaf]] })

/-- `_Container.__init__(l, containerType)` when some element is still `NotKnown` -/
def mkContainer (kind : Shape) (l : Addr) : UM Ref := do
  let ks ← kidsOf l
  let s ← (fun s => .ok (s, s) : UM USt)
  let locs := (List.range ks.length).filter fun i => nkIn s.heap (ks.getD i noneLeaf)
  let q ← alloc (.cont kind l locs [] none)
  forEach (fun i => addDep (ks.getD i noneLeaf) (.slot q i)) locs
  if locs.isEmpty then do
    let t ← alloc (.obj kind ks)
    resolve (s.heap.length + 2) q (.ptr t)
  else pure ()
  pure (.ptr q)

def isNoneRef : Ref → Bool
  | .imm (.leaf t []) => t = tNone
  | _ => false

/-- `_unjelly_reference` after `o = self.unjelly(exp)` -/
def bindReference (key : Atom) (o : Ref) : UM Ref := do
  let r ← getRef key
  match r with
  | none => setRef key o
  | some ref =>
    if isNoneRef ref then setRef key o
    else do
      let rnk ← isNK ref
      if rnk then do
        match ref with
        | .ptr q => do
          let s ← (fun s => .ok (s, s) : UM USt)
          resolve (s.heap.length + 2) q o
          let onk ← isNK o
          if onk then do
            let ph ← getObj q
            forEach (fun d => addDep o d) (depsOf ph)
          else pure ()
          setRef key o
        | .imm _ => raise .unmodelled
      else raise .assertion
  let onk ← isNK o
  if onk then addDep o (.refs key) else pure ()
  pure o

/-- `der = _Dereference(refid); self.references[refid] = der` -/
def newDeref (key : Atom) : UM Ref := do
  let q ← alloc (.deref [] none)
  setRef key (.ptr q)
  pure (.ptr q)

/-- `_unjelly_dereference` -/
def doDereference (key : Atom) : UM Ref := do
  let x ← getRef key
  match x with
  | some v => if isNoneRef v then newDeref key else pure v
  | none => newDeref key

/-- the `tuple(l)` / `_Tuple(l)`, `containerType(l)` / `_Container(l, containerType)` endings -/
def finishSeq (kind : Shape) (l : Addr) (unfinished : Bool) : UM Ref :=
  if unfinished then mkContainer kind l
  else do
    let ks ← kidsOf l
    let t ← alloc (.obj kind ks)
    pure (.ptr t)

mutual
/-- `_Unjellier.unjelly` -/
def unj (env : Env) : Sexp → UM Ref
  | .atom a => pure (.imm (.atom a))
  | .list [] => raise .index
  | .list (.list _ :: _) => raise .attribute
  | .list (.atom (.bytes tag) :: rest) =>
    match classify tag with
    | .list => do
      let p ← alloc (.obj .list (rangeRefs rest.length))
      let _ ← unjInto env p 0 rest
      pure (.ptr p)
    | .tuple => do
      let p ← alloc (.obj .list (rangeRefs rest.length))
      let u ← unjInto env p 0 rest
      finishSeq .tuple p u
    | .set => do
      let p ← alloc (.obj .list (rangeRefs rest.length))
      let u ← unjInto env p 0 rest
      finishSeq .set p u
    | .frozenset => do
      let p ← alloc (.obj .list (rangeRefs rest.length))
      let u ← unjInto env p 0 rest
      finishSeq .frozenset p u
    | .dict => do
      let p ← alloc (.obj .dict [])
      unjDict env p rest
      pure (.ptr p)
    | .reference =>
      match rest with
      | .atom key :: e :: _ => do
        let o ← unj env e
        bindReference key o
      | .list _ :: _ :: _ => raise .type
      | _ => raise .index
    | .dereference =>
      match rest with
      | .atom key :: _ => doDereference key
      | .list _ :: _ => raise .type
      | [] => raise .index
    | .leaf =>
      match allAtoms rest with
      | some args => pure (.imm (.leaf tag args))
      | none => raise .unmodelled
    | .other =>
      match env.resolve tag with
      | none => raise .insecure
      | some c =>
        match rest with
        | st :: _ => do
          let state ← unj env st
          newInstance env c state
        | [] => raise .index
  | .list (.atom _ :: _) => raise .unmodelled
/-- the loops `for elem in l: self.unjellyInto(l, elem, lst[elem])`; returns "some element was `NotKnown`" -/
def unjInto (env : Env) (p : Addr) : Nat → List Sexp → UM Bool
  | _, [] => pure false
  | i, x :: xs => do
    let o ← unj env x
    let nk ← isNK o
    if nk then addDep o (.slot p i) else pure ()
    setSlot p i o
    let r ← unjInto env p (i + 1) xs
    pure (nk || r)
/-- `for k, v in lst: kvd = _DictKeyAndValue(d); unjellyInto(kvd, 0, k); unjellyInto(kvd, 1, v)` -/
def unjDict (env : Env) (p : Addr) : List Sexp → UM Unit
  | [] => pure ()
  | .list [k, v] :: xs => do
    let ko ← unj env k
    let knk ← isNK ko
    if knk then addDep ko (.slot p 0) else pure ()     -- only its `assert not self.resolved` matters
    let vo ← unj env v
    let vnk ← isNK vo
    if vnk then addDep vo (.dictVal p ko) else pure ()
    if knk then raise .assertion                        -- `NotKnown.__hash__`
    else do
      dictStore p ko vo
      unjDict env p xs
  | _ :: _ => raise .value
end

/-- `jelly.unjelly(sexp, taster)` -/
def unjelly (env : Env) (s : Sexp) : Except Err (Ref × USt) := unj env s {}

end Twisted.Spread.JellyHeap
