/-
Model of the HTTP/1.1 transfer decoders of `twisted/web/http.py` (C22):

* `_ChunkedTransferDecoder` — `__init__`, `_dataReceived_CHUNK_LENGTH`, `_dataReceived_CRLF`,
  `_dataReceived_TRAILER`, `_dataReceived_BODY`, `_dataReceived_FINISHED`, `dataReceived`,
  `noMoreData`; module constants `maxChunkSizeLineLength`, `_chunkExtChars`;
* `_IdentityTransferDecoder` — `dataReceived`, `noMoreData`;
* `toChunk`, `fromChunk`;
* `twisted/web/_abnf.py` — `_ishexdigits`, `_hexint`, `_decint`.

The decoder object is the record `Dec`: the Python attributes `state`, `_buffer`, `_start`,
`length`, `_receivedTrailerHeadersSize`, plus the two observables the property names: the
concatenation of everything passed to `dataCallback` (`data`) and the list of arguments
`finishCallback` was called with (`fin`).  (`_trailerHeaders` is write-only in the code and is
not modelled.)  A raise is `Except.error (class, decoder at the time of the raise)`.
Every `_dataReceived_*` handler raises before it delivers anything, so the `data`/`fin` of the
decoder carried by the error are exactly what the callbacks had received before the raise.
Every handler also finishes updating the decoder (`state`, `_buffer`, `length`) BEFORE it calls
`dataCallback`/`finishCallback` (and `_IdentityTransferDecoder.dataReceived` sets `contentLength = 0` and
drops both callbacks before calling them): the record a handler returns is, apart from `data`/`fin`,
the decoder a callback sees — what a `noMoreData()` called from inside the callback works on.
-/
namespace Twisted.Http.Chunked

abbrev Bytes := List UInt8

def CR : UInt8 := 13
def LF : UInt8 := 10
def SEMI : UInt8 := 59

/-- exception classes the property distinguishes -/
inductive Err where
  | malformed          -- `_MalformedChunkedDataError`
  | runtime            -- `RuntimeError` (data after the last chunk was processed)
  | dataLoss           -- `_DataLoss`
  | potentialDataLoss  -- `PotentialDataLoss`
  deriving Repr, DecidableEq

/-! ### `_abnf.py` -/

def isHexDigit (c : UInt8) : Bool :=
  (48 ≤ c && c ≤ 57) || (97 ≤ c && c ≤ 102) || (65 ≤ c && c ≤ 70)

def hexDigitVal (c : UInt8) : Nat :=
  if 48 ≤ c && c ≤ 57 then c.toNat - 48
  else if 97 ≤ c && c ≤ 102 then c.toNat - 87
  else c.toNat - 55

/-- `_ishexdigits(b)`: every byte a hex digit, and `b != b""` -/
def isHexDigits (b : Bytes) : Bool := b.all isHexDigit && !b.isEmpty

/-- `int(b, 16)` on hex digits (most significant first) -/
def hexVal (b : Bytes) : Nat := b.foldl (fun acc c => acc * 16 + hexDigitVal c) 0

/-- `_hexint(b)`; `none` = `ValueError` -/
def hexint (b : Bytes) : Option Nat := if isHexDigits b then some (hexVal b) else none

def isDigit (c : UInt8) : Bool := 48 ≤ c && c ≤ 57

/-- `bytes.strip(b" \t")` -/
def stripSpTab (b : Bytes) : Bytes :=
  ((b.dropWhile fun c => c = 32 || c = 9).reverse.dropWhile fun c => c = 32 || c = 9).reverse

/-- `_decint(data)`; `none` = `ValueError`.  (`bytes.isdigit()` is false for `b""`.) -/
def decint (b : Bytes) : Option Nat :=
  let d := stripSpTab b
  if d.all isDigit && !d.isEmpty then some (d.foldl (fun acc c => acc * 10 + (c.toNat - 48)) 0) else none

/-! ### `toChunk` -/

def hexDigitLower (d : Nat) : UInt8 := if d < 10 then UInt8.ofNat (48 + d) else UInt8.ofNat (87 + d)

/-- digits of `n` (most significant first) appended in front of `acc`; `fuel` bounds the depth -/
def toHexAux : Nat → Nat → Bytes → Bytes
  | 0, _, acc => acc
  | fuel + 1, n, acc =>
    if n < 16 then hexDigitLower n :: acc else toHexAux fuel (n / 16) (hexDigitLower (n % 16) :: acc)

/-- `f"{n:x}"` -/
def toHex (n : Nat) : Bytes := toHexAux (n + 1) n []

/-- `b"".join(toChunk(data))` -/
def toChunk (data : Bytes) : Bytes := toHex data.length ++ [CR, LF] ++ data ++ [CR, LF]

/-! ### `fromChunk` -/

/-- `data.split(b"\r\n", 1)` unpacked into two names: `none` when there is no CRLF (the unpacking of
    a 1-element list raises `ValueError`) -/
def splitCRLF : Bytes → Option (Bytes × Bytes)
  | [] => none
  | c :: rest =>
    if c = CR ∧ rest.head? = some LF then some ([], rest.tail)
    else match splitCRLF rest with
      | none => none
      | some (a, b) => some (c :: a, b)

/-- `fromChunk(data)`; `none` = `ValueError`.  (`length < 0` cannot happen after `_hexint`;
    `rest[length : length + 2]` is `(rest.drop length).take 2`.) -/
def fromChunk (data : Bytes) : Option (Bytes × Bytes) :=
  match splitCRLF data with
  | none => none
  | some (pre, rest) =>
    match hexint pre with
    | none => none
    | some n => if (rest.drop n).take 2 = [CR, LF] then some (rest.take n, rest.drop (n + 2)) else none

/-! ### `_ChunkedTransferDecoder` -/

inductive St where
  | chunkLength | crlf | trailer | body | finished
  deriving Repr, DecidableEq

structure Dec where
  state : St
  buffer : Bytes
  start : Nat
  length : Nat
  recvTrailer : Nat
  data : Bytes
  fin : List Bytes
  deriving Repr, DecidableEq

def init : Dec :=
  { state := .chunkLength, buffer := [], start := 0, length := 0, recvTrailer := 0, data := [], fin := [] }

def maxChunkSizeLineLength : Nat := 1024
def maxTrailerHeadersSize : Nat := 65536

/-- membership in `_chunkExtChars`: HTAB, SP..`~` except backslash, obs-text -/
def chunkExtChar (c : UInt8) : Bool := c = 9 || (32 ≤ c && c ≤ 126 && c ≠ 92) || 128 ≤ c

/-- first index `≥ i`-offset of `\r\n`: `i` is the index of the head of the list -/
def findCRLFFrom : Bytes → Nat → Option Nat
  | [], _ => none
  | c :: rest, i => if c = CR ∧ rest.head? = some LF then some i else findCRLFFrom rest (i + 1)

/-- `buf.find(b"\r\n", start)` (`none` = -1) -/
def findCRLF (b : Bytes) (start : Nat) : Option Nat := findCRLFFrom (b.drop start) start

/-- `line.find(b";")` then the two slices `line[0:i]`, `line[i+1:]` (no `;`: whole line, empty) -/
def splitSemi : Bytes → Bytes × Bytes
  | [] => ([], [])
  | c :: rest => if c = SEMI then ([], rest) else ((c :: (splitSemi rest).1), (splitSemi rest).2)

/-- `_dataReceived_CHUNK_LENGTH` -/
def handleChunkLength (s : Dec) : Except Err (Bool × Dec) :=
  match findCRLF s.buffer s.start with
  | none =>
    if s.buffer.length > maxChunkSizeLineLength then .error .malformed
    else .ok (false, { s with start := s.buffer.length - 1 })
  | some eol =>
    if eol ≥ maxChunkSizeLineLength then .error .malformed else
    match hexint (splitSemi (s.buffer.take eol)).1 with
    | none => .error .malformed
    | some n =>
      if !(splitSemi (s.buffer.take eol)).2.all chunkExtChar then .error .malformed else
      .ok (true, { s with state := if n = 0 then .trailer else .body, length := n,
                          buffer := s.buffer.drop (eol + 2), start := 0 })

/-- `_dataReceived_CRLF` -/
def handleCRLF (s : Dec) : Except Err (Bool × Dec) :=
  match s.buffer with
  | c :: d :: rest =>
    if c = CR ∧ d = LF then .ok (true, { s with state := .chunkLength, buffer := rest })
    else .error .malformed
  | _ => .ok (false, s)

/-- `(1 if self._buffer.endswith(b"\r") else 2)` -/
def trailerSlack (b : Bytes) : Nat := if b.getLast? = some CR then 1 else 2

/-- `_dataReceived_TRAILER` (as repaired: while the buffer is exactly `b"\r"` — possibly the first
    half of the terminating CRLF, which is not trailer data — the size limit is not applied) -/
def handleTrailer (s : Dec) : Except Err (Bool × Dec) :=
  match findCRLF s.buffer s.start with
  | none =>
    if s.buffer ≠ [CR] ∧ s.recvTrailer + s.buffer.length + trailerSlack s.buffer > maxTrailerHeadersSize
    then .error .malformed
    else .ok (false, s)
  | some 0 =>
    .ok (false, { s with state := .finished, buffer := [], fin := s.fin ++ [s.buffer.drop 2] })
  | some (eol + 1) =>
    if s.recvTrailer + (eol + 1 + 2) > maxTrailerHeadersSize then .error .malformed else
    .ok (true, { s with buffer := s.buffer.drop (eol + 1 + 2), start := 0,
                        recvTrailer := s.recvTrailer + (eol + 1 + 2) })

/-- `_dataReceived_BODY` -/
def handleBody (s : Dec) : Except Err (Bool × Dec) :=
  if s.buffer.length ≥ s.length then
    .ok (true, { s with state := .crlf, buffer := s.buffer.drop s.length,
                        data := s.data ++ s.buffer.take s.length })
  else
    .ok (true, { s with length := s.length - s.buffer.length, buffer := [], data := s.data ++ s.buffer })

/-- `getattr(self, "_dataReceived_" + self.state)()` -/
def handler (s : Dec) : Except Err (Bool × Dec) :=
  match s.state with
  | .chunkLength => handleChunkLength s
  | .crlf => handleCRLF s
  | .trailer => handleTrailer s
  | .body => handleBody s
  | .finished => .error .runtime

/-- termination measure of the `while goOn and self._buffer` loop -/
def measure (s : Dec) : Nat := 2 * s.buffer.length + (if s.state = .body then 1 else 0)

theorem findCRLFFrom_lt (b : Bytes) (i e : Nat) (h : findCRLFFrom b i = some e) :
    e + 2 ≤ i + b.length := by
  induction b generalizing i with
  | nil => simp [findCRLFFrom] at h
  | cons c rest ih =>
    simp only [findCRLFFrom] at h
    split at h
    · rename_i hc
      cases rest with
      | nil => simp at hc
      | cons d r => simp at h; simp; omega
    · have := ih (i + 1) h
      simp; omega

theorem findCRLF_lt (b : Bytes) (st e : Nat) (h : findCRLF b st = some e) : e + 2 ≤ b.length ∨ b.length < st := by
  unfold findCRLF at h
  have := findCRLFFrom_lt _ _ _ h
  simp at this
  omega

theorem handler_decreases (s s' : Dec) (hne : s.buffer ≠ []) (h : handler s = .ok (true, s')) :
    measure s' < measure s := by
  have hpos : 0 < s.buffer.length := List.length_pos_iff.mpr hne
  unfold handler at h
  split at h
  · -- chunkLength
    rename_i hst
    unfold handleChunkLength at h
    split at h
    · split at h <;> simp at h
    · rename_i eol hf
      split at h
      · simp at h
      · split at h
        · simp at h
        · split at h
          · simp at h
          · simp only [Except.ok.injEq, Prod.mk.injEq, true_and] at h
            subst h
            have hl := findCRLF_lt _ _ _ hf
            unfold measure
            simp only [List.length_drop, hst]
            split <;> simp <;> omega
  · -- crlf
    rename_i hst
    unfold handleCRLF at h
    split at h
    · rename_i c d rest hb
      split at h
      · simp only [Except.ok.injEq, Prod.mk.injEq, true_and] at h
        subst h
        unfold measure
        simp [hb, hst]
        omega
      · simp at h
    · simp at h
  · -- trailer
    rename_i hst
    unfold handleTrailer at h
    split at h
    · split at h <;> simp at h
    · simp at h
    · rename_i eol hf
      split at h
      · simp at h
      · simp only [Except.ok.injEq, Prod.mk.injEq, true_and] at h
        subst h
        unfold measure
        simp only [List.length_drop, hst]
        simp
        omega
  · -- body
    rename_i hst
    unfold handleBody at h
    split at h
    · simp only [Except.ok.injEq, Prod.mk.injEq, true_and] at h
      subst h
      unfold measure
      simp only [List.length_drop, hst]
      simp
      omega
    · simp only [Except.ok.injEq, Prod.mk.injEq, true_and] at h
      subst h
      unfold measure
      simp [hst]
      omega
  · simp at h

/-- the loop of `dataReceived`: `while goOn and self._buffer: goOn = handler()`.
    A raise carries the decoder as it was when the handler raised. -/
def loop (s : Dec) : Except (Err × Dec) Dec :=
  if hne : s.buffer = [] then .ok s else
  match hh : handler s with
  | .error e => .error (e, s)
  | .ok (false, s') => .ok s'
  | .ok (true, s') => loop s'
termination_by measure s
decreasing_by exact handler_decreases s s' hne hh

/-- `self._buffer += data` -/
def Dec.append (s : Dec) (d : Bytes) : Dec := { s with buffer := s.buffer ++ d }

/-- `dataReceived(data)` -/
def dataReceived (s : Dec) (d : Bytes) : Except (Err × Dec) Dec := loop (s.append d)

/-- `noMoreData()` -/
def noMoreData (s : Dec) : Except (Err × Dec) Dec :=
  if s.state ≠ .finished then .error (.dataLoss, s) else .ok s

/-- every delivery is handed to `dataReceived`, whatever the state (what a caller without any
    discipline does; after the last chunk a non-empty delivery raises `RuntimeError`) -/
def feedAll (s : Dec) : List Bytes → Except (Err × Dec) Dec
  | [] => .ok s
  | d :: cs => (dataReceived s d).bind fun s' => feedAll s' cs

/-- the discipline of `HTTPChannel`/`HTTPClientParser`: once `finishCallback` has fired the decoder
    is dropped; the deliveries not handed to it are returned -/
def feed (s : Dec) : List Bytes → Except (Err × Dec) (Dec × List Bytes)
  | [] => .ok (s, [])
  | d :: cs =>
    if s.state = .finished then .ok (s, d :: cs)
    else (dataReceived s d).bind fun s' => feed s' cs

/-! ### `_IdentityTransferDecoder` -/

structure Ident where
  contentLength : Option Nat
  active : Bool                -- `dataCallback is not None`
  data : Bytes
  fin : List Bytes
  deriving Repr, DecidableEq

def Ident.init (n : Option Nat) : Ident := { contentLength := n, active := true, data := [], fin := [] }

def Ident.dataReceived (s : Ident) (d : Bytes) : Except (Err × Ident) Ident :=
  if !s.active then .error (.runtime, s) else
  match s.contentLength with
  | none => .ok { s with data := s.data ++ d }
  | some n =>
    if d.length < n then .ok { s with contentLength := some (n - d.length), data := s.data ++ d }
    else .ok { s with contentLength := some 0, active := false, data := s.data ++ d.take n,
                      fin := s.fin ++ [d.drop n] }

def Ident.noMoreData (s : Ident) : Except (Err × Ident) Ident :=
  match s.contentLength with
  | none => .error (.potentialDataLoss, { s with active := false, fin := s.fin ++ [[]] })
  | some n => if n ≠ 0 then .error (.dataLoss, { s with active := false }) else .ok { s with active := false }

def Ident.feedAll (s : Ident) : List Bytes → Except (Err × Ident) Ident
  | [] => .ok s
  | d :: cs => (Ident.dataReceived s d).bind fun s' => Ident.feedAll s' cs

def Ident.feed (s : Ident) : List Bytes → Except (Err × Ident) (Ident × List Bytes)
  | [] => .ok (s, [])
  | d :: cs =>
    if !s.active then .ok (s, d :: cs)
    else (Ident.dataReceived s d).bind fun s' => Ident.feed s' cs

end Twisted.Http.Chunked
