import TwistedModel.Http.Channel
/-!
Line-protocol encoding shared by the drivers of C18, C19 and C21 (the `Http/Channel.lean` model).
Bytes: lower-case hex, `-` = empty.
  script  : entries joined by `;`, each `<mode>:<nf>:<pieces>`; pieces = hex joined by `,`, `.` = no piece;
            the k-th request uses entry `k mod len`
  ops     : joined by `,`: `d<hex>` delivery, `f` the application finishes the request it holds,
            `p`/`r` the transport pauses/resumes the channel, `l` connectionLost,
            `x` the application calls `loseConnection()` on the request it holds
  request : `<method>/<target>/<version>/<headers>/<body>`, headers `name=value&value|name=value` (`.` = none)
-/
namespace Twisted.Http.ChannelWire
open Twisted.Http.Chunked Twisted.Http.Channel

def hexNib (c : Char) : Option Nat :=
  if '0' ≤ c ∧ c ≤ '9' then some (c.toNat - 48)
  else if 'a' ≤ c ∧ c ≤ 'f' then some (c.toNat - 87)
  else none

def decHexAux : List Char → Bytes → Option Bytes
  | [], acc => some acc.reverse
  | [_], _ => none
  | a :: b :: rest, acc =>
    match hexNib a, hexNib b with
    | some x, some y => decHexAux rest (UInt8.ofNat (x * 16 + y) :: acc)
    | _, _ => none

def decHex (s : String) : Option Bytes :=
  if s = "-" then some [] else if s = "" then none else decHexAux s.toList []

def nibChar (n : Nat) : Char := if n < 10 then Char.ofNat (48 + n) else Char.ofNat (87 + n)

def encHex (b : Bytes) : String :=
  if b.isEmpty then "-" else
  String.ofList (b.foldr (fun c acc => nibChar (c.toNat / 16) :: nibChar (c.toNat % 16) :: acc) [])

def decEntry (s : String) : Option Entry :=
  match s.splitOn ":" with
  | [m, n, ps] => do
    let m ← m.toNat?
    let n ← n.toNat?
    let ps ← if ps = "." then some [] else (ps.splitOn ",").mapM decHex
    if m > 5 then none else pure { mode := m, nf := n, pieces := ps }
  | _ => none

def decScript (s : String) : Option (Nat → Entry) := do
  let es ← (s.splitOn ";").mapM decEntry
  if es.isEmpty then none
  else pure fun k => es.getD (k % es.length) { mode := 0, nf := 0, pieces := [] }

def decOp (s : String) : Option Op :=
  match s.toList with
  | ['f'] => some .finish
  | ['p'] => some .pause
  | ['r'] => some .resume
  | ['l'] => some .lose
  | ['x'] => some .close
  | 'd' :: rest => (decHex (String.ofList rest)).map .data
  | _ => none

def decOps (s : String) : Option (List Op) :=
  if s = "." then some [] else (s.splitOn ",").mapM decOp

def encHeaders (h : Headers) : String :=
  if h.isEmpty then "." else
  "|".intercalate (h.map fun (n, vs) => encHex n ++ "=" ++ "&".intercalate (vs.map encHex))

def encReq (r : Req) : String :=
  encHex r.method ++ "/" ++ encHex r.uri ++ "/" ++ encHex r.version ++ "/" ++ encHeaders r.headers ++ "/" ++ encHex r.body

def encReqs (rs : List Req) : String :=
  if rs.isEmpty then "none" else ";".intercalate (rs.map encReq)

def excName : Option Exc → String
  | none => "-"
  | some .valueError => "ValueError"
  | some .attributeError => "AttributeError"
  | some .runtimeError => "RuntimeError"
  | some .stuck => "ModelStuck"

def bit (b : Bool) : String := if b then "1" else "0"

/-- the observables of C18/C19: transport state, bytes written, requests handed over -/
def encState (s : Channel.St) : String :=
  "closed=" ++ bit s.chan.closed ++ " paused=" ++ bit (tpaused false s.outs) ++ " raised=" ++ excName s.chan.raised ++
  " written=" ++ encHex (written s.outs) ++ " reqs=" ++ encReqs (delivered s.outs)

/-- the order of events (C21): `R<k>@<bytes written so far>`, `D<k>@<bytes>`, `N<k>:<n>:<1|0>` -/
def encLogGo : List Out → Nat → Nat → List String
  | [], _, _ => []
  | .req _ :: rest, k, w => ("R" ++ toString k ++ "@" ++ toString w) :: encLogGo rest (k + 1) w
  | .done j :: rest, k, w => ("D" ++ toString j ++ "@" ++ toString w) :: encLogGo rest k w
  | .notify j n ok :: rest, k, w => ("N" ++ toString j ++ ":" ++ toString n ++ ":" ++ bit ok) :: encLogGo rest k w
  | .write b :: rest, k, w => encLogGo rest k (w + b.length)
  | .appWrite _ b :: rest, k, w => encLogGo rest k (w + b.length)
  | _ :: rest, k, w => encLogGo rest k w

def encLog (o : List Out) : String :=
  let l := encLogGo o 0 0
  if l.isEmpty then "none" else ",".intercalate l

end Twisted.Http.ChannelWire
