import TwistedModel.Http.Chunked
/-
Reference HTTP/1.1 *response* parser (RFC 9112 §2–§7, RFC 9110 §5) — NOT a transcription of
Twisted code.  It is the independent reader against which the emitted bytes of the response
model (`TwistedModel/Http/Response.lean`) are judged in the C20 theorems, and it is tied on
every run to the `h11` library (the parser named by the property): both read the bytes the
real server wrote and must return the same status / reason / field list / body.

What it accepts (deliberately strict; everything it accepts is a well-formed message):
* lines end at LF, one preceding CR is dropped (RFC 9112 §2.2; h11 does the same);
* status-line `HTTP/1.(0|1) SP 3DIGIT [SP reason]`;
* field lines `token ":" OWS value OWS`; names are reported in lower case, values without
  the surrounding SP / HTAB;
* bytes of a reason phrase or field value: anything except NUL, LF, VT, FF, CR
  (h11's `[^\x00\s]` plus SP and HTAB; RFC 9110 §5.5 singles out CR, LF and NUL as dangerous);
* message body (RFC 9112 §6.3): none for a HEAD request and for 204 / 304; chunked when
  `Transfer-Encoding: chunked` (no extensions, no trailer fields; `Content-Length` together
  with `Transfer-Encoding` is refused); `Content-Length` (all field lines equal, 1*DIGIT)
  octets; otherwise everything up to the end of the connection (`eof` must be true);
* the input must be exactly one response: nothing may follow it.
-/
namespace Twisted.Http.Rfc9112
open Twisted.Http.Chunked (hexint isDigit)

abbrev Bytes := List UInt8

structure Resp where
  status : Nat
  reason : Bytes
  headers : List (Bytes × Bytes)
  body : Bytes
  deriving Repr, DecidableEq

def isTchar (c : UInt8) : Bool :=
  (65 ≤ c && c ≤ 90) || (97 ≤ c && c ≤ 122) || (48 ≤ c && c ≤ 57) ||
  c = 33 || c = 35 || c = 36 || c = 37 || c = 38 || c = 39 || c = 42 || c = 43 || c = 45 || c = 46 ||
  c = 94 || c = 95 || c = 96 || c = 124 || c = 126

def isToken (b : Bytes) : Bool := b.all isTchar && !b.isEmpty

/-- a byte allowed inside a reason phrase / field value -/
def okByte (c : UInt8) : Bool := !(c = 0 || c = 10 || c = 11 || c = 12 || c = 13)

def lower (c : UInt8) : UInt8 := if 65 ≤ c && c ≤ 90 then c + 32 else c

def isOWS (c : UInt8) : Bool := c = 32 || c = 9

/-- remove SP / HTAB at both ends -/
def strip (b : Bytes) : Bytes := ((b.dropWhile isOWS).reverse.dropWhile isOWS).reverse

def stripCR (l : Bytes) : Bytes := if l.getLast? = some 13 then l.dropLast else l

/-- The head of a message: the lines up to and excluding the first empty line, and what
    follows that empty line.  `cur` is the line being accumulated.  `none`: no empty line. -/
def headLines : Bytes → Bytes → Option (List Bytes × Bytes)
  | [], _ => none
  | c :: rest, cur =>
    if c = 10 then
      if stripCR cur = [] then some ([], rest)
      else (headLines rest []).map fun p => (stripCR cur :: p.1, p.2)
    else headLines rest (cur ++ [c])

def digitVal (c : UInt8) : Nat := c.toNat - 48

/-- `HTTP/1.x SP 3DIGIT [SP reason]` -/
def parseStatusLine : Bytes → Option (Nat × Bytes)
  | 72 :: 84 :: 84 :: 80 :: 47 :: 49 :: 46 :: v :: 32 :: a :: b :: c :: rest =>
    if (v = 48 || v = 49) && isDigit a && isDigit b && isDigit c then
      let n := digitVal a * 100 + digitVal b * 10 + digitVal c
      match rest with
      | [] => some (n, [])
      | sp :: reason => if sp = 32 && reason.all okByte then some (n, reason) else none
    else none
  | _ => none

/-- the part of a line before the first `:` and the part after it -/
def splitColon : Bytes → Option (Bytes × Bytes)
  | [] => none
  | c :: rest => if c = 58 then some ([], rest) else (splitColon rest).map fun p => (c :: p.1, p.2)

def parseFieldLine (l : Bytes) : Option (Bytes × Bytes) :=
  match splitColon l with
  | none => none
  | some (name, value) =>
    if isToken name && value.all okByte then some (name.map lower, strip value) else none

def parseFieldLines : List Bytes → Option (List (Bytes × Bytes))
  | [] => some []
  | l :: ls => match parseFieldLine l, parseFieldLines ls with
    | some f, some fs => some (f :: fs)
    | _, _ => none

def fieldValues (hs : List (Bytes × Bytes)) (name : Bytes) : List Bytes :=
  (hs.filter (·.1 = name)).map (·.2)

/-- first line (up to LF, one CR dropped) and the rest -/
def takeLine : Bytes → Bytes → Option (Bytes × Bytes)
  | [], _ => none
  | c :: rest, cur => if c = 10 then some (stripCR cur, rest) else takeLine rest (cur ++ [c])

/-- chunked body: returns the decoded body and what follows the last chunk's final CRLF.
    `fuel` bounds the number of chunks. -/
def parseChunks : Nat → Bytes → Option (Bytes × Bytes)
  | 0, _ => none
  | fuel + 1, b =>
    match takeLine b [] with
    | none => none
    | some (line, rest) =>
      match hexint line with
      | none => none
      | some 0 =>
        -- last-chunk, empty trailer section
        (match takeLine rest [] with
         | some ([], rest') => some ([], rest')
         | _ => none)
      | some n =>
        if rest.length < n then none else
        match takeLine (rest.drop n) [] with
        | some ([], rest') => (parseChunks fuel rest').map fun p => (rest.take n ++ p.1, p.2)
        | _ => none

def decVal (b : Bytes) : Nat := b.foldl (fun acc c => acc * 10 + digitVal c) 0

def content_length : Bytes := [99, 111, 110, 116, 101, 110, 116, 45, 108, 101, 110, 103, 116, 104]
def transfer_encoding : Bytes :=
  [116, 114, 97, 110, 115, 102, 101, 114, 45, 101, 110, 99, 111, 100, 105, 110, 103]
def chunked : Bytes := [99, 104, 117, 110, 107, 101, 100]

/-- `head`: the request method was HEAD.  `eof`: the connection was closed after `b`. -/
def parseResponse (head eof : Bool) (b : Bytes) : Option Resp :=
  match headLines b [] with
  | none => none
  | some ([], _) => none
  | some (sl :: fls, rest) =>
    match parseStatusLine sl, parseFieldLines fls with
    | some (status, reason), some hs =>
      let te := fieldValues hs transfer_encoding
      let cl := fieldValues hs content_length
      if head || status = 204 || status = 304 then
        if rest = [] then some ⟨status, reason, hs, []⟩ else none
      else if te ≠ [] then
        if te.map (·.map lower) = [chunked] && cl = [] then
          match parseChunks (rest.length + 1) rest with
          | some (body, []) => some ⟨status, reason, hs, body⟩
          | _ => none
        else none
      else match cl with
        | [] => if eof then some ⟨status, reason, hs, rest⟩ else none
        | v :: vs =>
          if v.all isDigit && !v.isEmpty && vs.all (· = v) && rest.length = decVal v then
            some ⟨status, reason, hs, rest⟩
          else none
    | _, _ => none

end Twisted.Http.Rfc9112
