/-
Model of `twisted.web.client.RedirectAgent` / `BrowserLikeRedirectAgent` (C27):
`request`, `_handleResponse`, `_handleRedirect`, `_resolveLocation`, `_urljoin`
(src/twisted/web/client.py), over a scripted inner agent.

URIs are structured: scheme (`http`/`https`), authority (host token, optional decimal port),
path as the list `path.split('/')` (so `""` is `[""]`, `"/"` is `["",""]`, `"/a/b"` is
`["","a","b"]`), query and fragment tokens (`""` = absent — `urlunparse` drops empty ones).
A `Location` value is a reference: absolute (`s://auth` + path), scheme-relative
(`//auth` + path) or path-only (absolute path, relative path, or empty), + query, fragment.

`urljoinCore` transcribes `urllib.parse.urljoin` (CPython 3.12) on that shape, branch by
branch: different scheme → the reference verbatim; non-empty netloc → the reference with the
base's scheme; empty path → base path (and base query when the reference has none);
otherwise the segment merge: `base_parts` without a non-empty last item, absolute reference
path replaces, relative path is appended and *interior empty segments are filtered out*
(`segments[1:-1] = filter(None, …)`), then the `.`/`..` stack walk that ignores `..` on an
empty stack, a trailing `''` after a final `.`/`..`, `'/'.join(resolved) or '/'`, and
`urlunsplit`'s leading `/` when a netloc is present.  `urljoin` is `client._urljoin`:
resolve without fragments, then the reference's fragment, or else the base's, put back with
`urlparse` / `urlunparse` (schemes other than http / https are outside this model: the harness
judges such `Location`s by the oracle alone).

The agent: `follow` is `_handleResponse`/`_handleRedirect` driven by the list of responses
the inner agent will answer with; it returns the requests issued to the inner agent after
the first one, and how the caller's Deferred ends.  `Hop` carries exactly the arguments the
code passes along: `method`, `uri` (the ORIGINAL request URI: used for error reports and the
same-origin test), `requestURI` (the URI of the request whose response is being handled:
the base for resolving `Location`), `headers`, `redirectCount`.
-/
namespace Twisted.Http.Redirect

inductive Scheme where
  | http | https
  deriving Repr, DecidableEq

def Scheme.defaultPort : Scheme → Nat
  | .http => 80
  | .https => 443

structure Authority where
  host : String
  port : Option Nat
  deriving Repr, DecidableEq

structure Uri where
  scheme : Scheme
  auth : Authority
  path : List String
  query : String
  frag : String
  deriving Repr, DecidableEq

inductive RefKind where
  | abs (s : Scheme) (a : Authority)
  | net (a : Authority)
  | rel
  deriving Repr, DecidableEq

structure Ref where
  kind : RefKind
  path : List String
  query : String
  frag : String
  deriving Repr, DecidableEq

/-! ### `urllib.parse.urljoin` -/

/-- `if base_parts[-1] != '': del base_parts[-1]` -/
def baseParts (bpath : List String) : List String :=
  match bpath.getLast? with
  | some "" => bpath
  | some _ => bpath.dropLast
  | none => bpath

/-- `segments[1:-1] = filter(None, segments[1:-1])` -/
def filterInterior : List String → List String
  | [] => []
  | [a] => [a]
  | a :: rest => a :: ((rest.dropLast).filter (· ≠ "")) ++ [rest.getLast?.getD ""]

/-- the `for seg in segments` stack walk -/
def walk : List String → List String → List String
  | [], acc => acc
  | seg :: rest, acc =>
    if seg = ".." then walk rest acc.dropLast
    else if seg = "." then walk rest acc
    else walk rest (acc ++ [seg])

/-- `'/'.join(resolved_path) or '/'`, then `urlunsplit`'s `if url and url[:1] != '/': url = '/' + url` -/
def finishPath (resolved : List String) : List String :=
  match resolved with
  | [] => ["", ""]
  | [""] => ["", ""]
  | "" :: _ => resolved
  | _ => "" :: resolved

def mergePath (bpath rpath : List String) : List String :=
  let segments :=
    if rpath.head? = some "" then rpath            -- `path[:1] == '/'` (rpath ≠ [""] here)
    else filterInterior (baseParts bpath ++ rpath)
  let resolved := walk segments []
  let resolved :=
    if segments.getLast? = some "." ∨ segments.getLast? = some ".." then resolved ++ [""] else resolved
  finishPath resolved

/-- `urljoin(base, url)` on a fragment-free base; returns the result with the reference's fragment -/
def urljoinCore (b : Uri) (r : Ref) : Uri :=
  match r.kind with
  | .abs s a => { scheme := s, auth := a, path := r.path, query := r.query, frag := r.frag }
  | .net a => { scheme := b.scheme, auth := a, path := r.path, query := r.query, frag := r.frag }
  | .rel =>
    if r.path = [""] ∨ r.path = [] then
      { scheme := b.scheme, auth := b.auth, path := b.path,
        query := if r.query = "" then b.query else r.query, frag := r.frag }
    else
      { scheme := b.scheme, auth := b.auth, path := mergePath b.path r.path,
        query := r.query, frag := r.frag }

/-- `client._urljoin`: `urlFrag or baseFrag` -/
def urljoin (b : Uri) (r : Ref) : Uri :=
  let u := urljoinCore { b with frag := "" } r
  { u with frag := if u.frag = "" then b.frag else u.frag }

/-! ### origins (`URI.fromBytes(...).scheme/host/port`) -/

structure Origin where
  scheme : Scheme
  host : String
  port : Nat
  deriving Repr, DecidableEq

def Uri.origin (u : Uri) : Origin :=
  { scheme := u.scheme, host := u.auth.host, port := u.auth.port.getD u.scheme.defaultPort }

/-! ### the agent -/

abbrev Header := String × String          -- canonical name, opaque value list

structure Req where
  method : String
  uri : Uri
  headers : Option (List Header)          -- `None` or a `Headers` object
  deriving Repr, DecidableEq

structure Resp where
  code : Nat
  locs : List Ref                         -- the values of the `Location` header, in order
  deriving Repr, DecidableEq

structure Config where
  redirectCodes : List Nat                -- `_redirectResponses`
  seeOtherCodes : List Nat                -- `_seeOtherResponses`
  limit : Nat                             -- `redirectLimit`
  sensitive : List String                 -- `_sensitiveHeaderNames` (canonical)
  deriving Repr

def defaultSensitive : List String :=
  ["authorization", "cookie", "cookie2", "proxy-authorization", "www-authenticate"]

/-- `RedirectAgent(agent, limit, names)` -/
def strict (limit : Nat) (names : List String) : Config :=
  { redirectCodes := [301, 302, 307, 308], seeOtherCodes := [303], limit := limit,
    sensitive := names ++ defaultSensitive }

/-- `BrowserLikeRedirectAgent(agent, limit, names)` -/
def browserLike (limit : Nat) (names : List String) : Config :=
  { redirectCodes := [307, 308], seeOtherCodes := [301, 302, 303], limit := limit,
    sensitive := names ++ defaultSensitive }

inductive Outcome where
  | response (index : Nat)                -- fires with the response number `index` of the script
  | pending                               -- the inner agent has not answered (script exhausted)
  | infinite (code : Nat) (location : Uri)
  | noLocation (code : Nat) (uri : Uri)
  | pageRedirect (code : Nat) (location : Uri)
  deriving Repr, DecidableEq

structure Hop where
  method : String
  uri : Uri                               -- original request URI
  requestURI : Uri                        -- URI of the request being answered
  headers : Option (List Header)
  count : Nat
  deriving Repr, DecidableEq

def Hop.req (h : Hop) : Req := { method := h.method, uri := h.requestURI, headers := h.headers }

inductive Step where
  | stop (o : Outcome)
  | next (h : Hop)
  deriving Repr, DecidableEq

/-- `_handleRedirect(response, method, uri, headers, redirectCount, requestURI)` up to and
    including `self._agent.request(method, location, headers)` -/
def handleRedirect (cfg : Config) (h : Hop) (method : String) (r : Resp) : Step :=
  if h.count ≥ cfg.limit then .stop (.infinite r.code h.uri)
  else match r.locs with
    | [] => .stop (.noLocation r.code h.uri)
    | l :: _ =>
      let location := urljoin h.requestURI l
      let headers := match h.headers with
        | none => none
        | some hs =>
          if h.uri.origin = location.origin then some hs
          else some (hs.filter fun p => ¬ p.1 ∈ cfg.sensitive)
      .next { method := method, uri := h.uri, requestURI := location, headers := headers,
              count := h.count + 1 }

/-- `_handleResponse(response, method, uri, headers, redirectCount, requestURI)` -/
def handleResponse (cfg : Config) (h : Hop) (r : Resp) (index : Nat) : Step :=
  if r.code ∈ cfg.redirectCodes then
    if h.method ≠ "GET" ∧ h.method ≠ "HEAD" then .stop (.pageRedirect r.code h.uri)
    else handleRedirect cfg h h.method r
  else if r.code ∈ cfg.seeOtherCodes then handleRedirect cfg h "GET" r
  else .stop (.response index)

/-- the callback chain: each response of the script answers the latest request -/
def follow (cfg : Config) : Hop → List Resp → Nat → List Req × Outcome
  | _, [], _ => ([], .pending)
  | h, r :: rs, i =>
    match handleResponse cfg h r i with
    | .stop o => ([], o)
    | .next h' =>
      let t := follow cfg h' rs (i + 1)
      (h'.req :: t.1, t.2)

/-- `RedirectAgent.request(method, uri, headers)` against an inner agent answering `rs` -/
def start (method : String) (uri : Uri) (headers : Option (List Header)) : Hop :=
  { method := method, uri := uri, requestURI := uri, headers := headers, count := 0 }

def run (cfg : Config) (method : String) (uri : Uri) (headers : Option (List Header))
    (rs : List Resp) : List Req × Outcome :=
  let t := follow cfg (start method uri headers) rs 0
  ((start method uri headers).req :: t.1, t.2)

/-! ### one agent object, several requests

`RedirectAgent.__init__` stores the inner agent, the limit and the set of sensitive names; `request`,
`_handleResponse`, `_handleRedirect` read them and write nothing: everything that changes from hop to hop
travels in the callback arguments (`Hop`).  So the agent object is `Config`, and what the requests made
through it have in common is only that.

`Flight` is one request in flight against an inner agent that answers LATER: the hop whose answer is
awaited, the responses the inner agent will still give to this chain, the number of the next one, the
requests the inner agent has received for it so far, and how the caller's Deferred ended (if it has).
`deliver cfg pool i` = the inner agent fires the Deferred of chain `i` with its next response;
`schedule` = any sequence of such deliveries over the pool. -/

structure Call where
  method : String
  uri : Uri
  headers : Option (List Header)
  resps : List Resp
  deriving Repr, DecidableEq

/-- the requests are independent of each other: each is `run` -/
def runMany (cfg : Config) (calls : List Call) : List (List Req × Outcome) :=
  calls.map fun c => run cfg c.method c.uri c.headers c.resps

structure Flight where
  hop : Hop
  rest : List Resp
  index : Nat
  sent : List Req
  done : Option Outcome
  deriving Repr, DecidableEq

/-- `agent.request(method, uri, headers)`: the caller's request goes to the inner agent -/
def Call.take (c : Call) : Flight :=
  { hop := start c.method c.uri c.headers, rest := c.resps, index := 0,
    sent := [(start c.method c.uri c.headers).req], done := none }

/-- the inner agent answers the outstanding request of this chain (nothing happens when the caller's
    Deferred has fired already or the script is exhausted) -/
def Flight.advance (cfg : Config) (f : Flight) : Flight :=
  match f.done, f.rest with
  | some _, _ => f
  | none, [] => f
  | none, r :: rs =>
    match handleResponse cfg f.hop r f.index with
    | .stop o => { f with rest := rs, done := some o }
    | .next h' => { hop := h', rest := rs, index := f.index + 1, sent := f.sent ++ [h'.req], done := none }

def deliver (cfg : Config) : List Flight → Nat → List Flight
  | [], _ => []
  | f :: fs, 0 => f.advance cfg :: fs
  | f :: fs, i + 1 => f :: deliver cfg fs i

def schedule (cfg : Config) (pool : List Flight) (sched : List Nat) : List Flight :=
  sched.foldl (deliver cfg) pool

/-- what the caller of a chain has seen once nothing more can be delivered to it -/
def Flight.result (f : Flight) : List Req × Outcome := (f.sent, f.done.getD .pending)

/-! ### rendering (`urlunparse`) -/

def Scheme.text : Scheme → String
  | .http => "http"
  | .https => "https"

def Authority.text (a : Authority) : String :=
  a.host ++ (match a.port with | none => "" | some p => ":" ++ toString p)

def tail (path query frag : String) : String :=
  path ++ (if query = "" then "" else "?" ++ query) ++ (if frag = "" then "" else "#" ++ frag)

def Uri.text (u : Uri) : String :=
  u.scheme.text ++ "://" ++ u.auth.text ++ tail ("/".intercalate u.path) u.query u.frag

def Ref.text (r : Ref) : String :=
  (match r.kind with
    | .abs s a => s.text ++ "://" ++ a.text
    | .net a => "//" ++ a.text
    | .rel => "") ++ tail ("/".intercalate r.path) r.query r.frag

end Twisted.Http.Redirect
