import TwistedModel.Http.Chunked
/-
Model of the HTTP/1.1 client of `twisted/web/_newclient.py` (C23), for ONE request on a connection:

* `twisted/protocols/basic.py` `LineReceiver.dataReceived` / `clearLineBuffer` / `lineLengthExceeded`
  (with `HTTPParser.delimiter = b"\n"`, `MAX_LENGTH = 16384`)                     → `lrLoop`, `lineTooLong`
* `HTTPParser.lineReceived`, `headerReceived`, `switchToBodyMode`, `rawDataReceived`,
  `HTTPClientParser.dataReceived`, `parseVersion`, `statusReceived`, `_finished`,
  `isConnectionControlHeader`, `allHeadersReceived`, `connectionLost`, `_contentLength`
  (+ `http_headers._NameEncoder.encode`'s token check, `_sanitizeLinearWhitespace`, `_abnf._istoken`,
  `_abnf._decint` with CPython's 4300-digit limit, CPython `int(bytes)`)           → `parseStatus`, `headerReceived`, `framing`, `lineReceived`, …
* `Response.deliverBody`, `_bodyDataReceived_*`, `_bodyDataFinished_*`              → `deliverBody`, `bodyData`, `bodyFinished`
* `HTTP11ClientProtocol.request` (the state it leaves behind), `_finishResponse_WAITING/_TRANSMITTING/_ABORTING`,
  `_disconnectParser`, `_giveUp`, `dataReceived`, `connectionLost` (all `_connectionLost_*`), `abort`,
  the canceller `cancelRequest`, `cbRequestWritten`, `ebRequestWriting`; `TransportProxyProducer`
* the transfer decoders are the C22 models (`Twisted.Http.Chunked.Dec`, `Ident`).

The Python objects (protocol, parser, response, the two Deferreds, the transport fake) are flattened into
one record `S`; a method that can raise returns `R` = the state at the point of the raise + the class.
`Deferred` is modelled by what it does here: `respD` = result of the parser's `_responseDeferred` (once),
`chained` = `_responseDeferred.chainDeferred(_finishedRequest)` was done, `fires` = every time the request
Deferred `_finishedRequest` was fired (the property says: exactly one element).
`S.qRaises` / `initQ`: the application's quiescent callback raises; `_finishResponse_WAITING` runs it under
`failuresHandled`, logs, calls `transport.loseConnection()` and goes on to `_disconnectParser`.
The model follows the code AS REPAIRED for C23 (`_finishResponse_ABORTING`; `_disconnectParser` and `abort`
chain the Deferreds when the request is still being transmitted).
-/
namespace Twisted.Http.Client
open Twisted.Http.Chunked

/-- exception classes that appear as (wrapped) reasons or escape an entry point -/
inductive Exc where
  | parseError | badResponseVersion | valueError | keyError | attributeError | invalidHeaderName
  | malformedChunk | runtimeError | typeError | connectionDone | connectionLost | connectionAborted
  | cancelled | dataLoss | boom
  deriving Repr, DecidableEq

/-- what the request Deferred was fired with -/
inductive Fire where
  | response
  | responseFailed (rs : List Exc)
  | neverReceived (rs : List Exc)
  | transmissionFailed (rs : List Exc)
  | generationFailed (rs : List Exc)
  | cancelledError
  deriving Repr, DecidableEq

/-- reason given to the body protocol's `connectionLost` -/
inductive BodyEnd where
  | done                        -- `ResponseDone`
  | potentialDataLoss           -- `PotentialDataLoss`
  | failed (rs : List Exc)      -- `ResponseFailed([reason, _DataLoss])`
  deriving Repr, DecidableEq

inductive CState where
  | quiescent | transmitting | tar | generationFailed | waiting | aborting | connectionLost
  deriving Repr, DecidableEq

inductive PState where
  | status | header | body | done
  deriving Repr, DecidableEq

inductive RState where
  | initial | connected | deferredClose | finished
  deriving Repr, DecidableEq

inductive Decoder where
  | none
  | ident (d : Ident)
  | chunked (d : Dec)
  deriving Repr, DecidableEq

structure S where
  -- HTTP11ClientProtocol
  cstate : CState
  hasParser : Bool              -- `_parser is not None`
  persistent : Bool
  isHead : Bool
  reqPending : Bool             -- `Request.writeTo`'s Deferred has not fired yet
  fires : List Fire             -- firings of the request Deferred
  chained : Bool
  excs : List Exc               -- exceptions that escaped an entry point
  -- application
  deliverNow : Bool             -- the request Deferred's callback calls `deliverBody` at once
  appDelivered : Bool           -- `deliverBody` has been called
  -- transport (StringTransport, lenient) and the parser's proxy to it
  disconnecting : Bool
  aborted : Bool
  paused : Bool
  proxying : Bool
  quiet : Nat                   -- calls of the quiescent callback
  qRaises : Bool                -- the quiescent callback raises (the protocol logs that and closes the connection)
  stopw : Nat                   -- `bodyProducer.stopProducing()` calls
  -- HTTPClientParser (+ LineReceiver)
  pstate : PState
  buffer : Bytes
  lineMode : Bool
  partialHeader : Option Bytes  -- `b"".join(self._partialHeader)`
  connHeaders : List (Bytes × Bytes)   -- lower-cased name, sanitized value, in order of arrival
  decoder : Decoder
  everReceived : Bool
  respD : Option Fire
  code : Int
  -- Response (+ the logging body protocol)
  rstate : RState
  rbuffer : Bytes               -- `b"".join(_bodyBuffer)`
  rreason : Option BodyEnd
  made : Nat
  delivered : Bytes
  lost : List BodyEnd
  deriving Repr, DecidableEq

inductive R where
  | ok (s : S)
  | raise (e : Exc) (s : S)
  deriving Repr

def R.bind : R → (S → R) → R
  | .ok s, f => f s
  | .raise e s, _ => .raise e s

def R.state : R → S
  | .ok s => s
  | .raise _ s => s

/-- the protocol right after `request(request)` returned -/
def init (isHead persistent async deliverNow : Bool) : S :=
  { cstate := if async then .transmitting else .waiting, hasParser := true, persistent := persistent,
    isHead := isHead, reqPending := async, fires := [], chained := !async, excs := [],
    deliverNow := deliverNow, appDelivered := false,
    disconnecting := false, aborted := false, paused := false, proxying := true, quiet := 0, qRaises := false,
    stopw := 0,
    pstate := .status, buffer := [], lineMode := true, partialHeader := none, connHeaders := [],
    decoder := .none, everReceived := false, respD := none, code := 0,
    rstate := .initial, rbuffer := [], rreason := none, made := 0, delivered := [], lost := [] }

/-- the same, with an application-supplied quiescent callback that raises iff `q` -/
def initQ (isHead persistent async deliverNow q : Bool) : S :=
  { init isHead persistent async deliverNow with qRaises := q }

/-! ### bytes -/

def MAX_LENGTH : Nat := 16384

/-- `buf.split(b"\n", 1)`: `none` = no delimiter (the `ValueError` of the unpacking) -/
def splitLF : Bytes → Option (Bytes × Bytes)
  | [] => none
  | c :: rest =>
    if c = 10 then some ([], rest)
    else match splitLF rest with
      | none => none
      | some (l, r) => some (c :: l, r)

theorem splitLF_length (b l r : Bytes) (h : splitLF b = some (l, r)) : r.length < b.length := by
  induction b generalizing l r with
  | nil => simp [splitLF] at h
  | cons c rest ih =>
    simp only [splitLF] at h
    split at h
    · simp at h; obtain ⟨_, rfl⟩ := h; simp
    · split at h
      · simp at h
      · rename_i l' r' hs
        simp at h; obtain ⟨_, rfl⟩ := h
        have := ih l' r' hs
        simp; omega

/-- `bytes.split(sep)` (all occurrences) -/
def splitOn (sep : UInt8) : Bytes → List Bytes
  | [] => [[]]
  | c :: rest =>
    match splitOn sep rest with
    | [] => [[]]      -- unreachable
    | h :: t => if c = sep then [] :: h :: t else (c :: h) :: t

/-- `bytes.split(sep, 1)` -/
def split1 (sep : UInt8) : Bytes → Option (Bytes × Bytes)
  | [] => none
  | c :: rest =>
    if c = sep then some ([], rest)
    else match split1 sep rest with
      | none => none
      | some (l, r) => some (c :: l, r)

def isSpace (c : UInt8) : Bool := c = 32 || (9 ≤ c && c ≤ 13)

/-- `bytes.strip()` -/
def strip (b : Bytes) : Bytes := ((b.dropWhile isSpace).reverse.dropWhile isSpace).reverse

def lowerByte (c : UInt8) : UInt8 := if 65 ≤ c && c ≤ 90 then c + 32 else c

/-- `bytes.lower()` -/
def lower (b : Bytes) : Bytes := b.map lowerByte

/-- `_istoken` -/
def isTokenByte (c : UInt8) : Bool :=
  (65 ≤ c && c ≤ 90) || (97 ≤ c && c ≤ 122) || (48 ≤ c && c ≤ 57) ||
  c = 33 || c = 35 || c = 36 || c = 37 || c = 38 || c = 39 || c = 42 || c = 43 || c = 45 || c = 46 ||
  c = 94 || c = 95 || c = 96 || c = 124 || c = 126

def isToken (b : Bytes) : Bool := b.all isTokenByte && !b.isEmpty

/-- `bytes.splitlines()` state: lines so far (reversed), current line (reversed) -/
def splitlinesAux : Bytes → List Bytes → Bytes → List Bytes
  | [], acc, cur => (if cur.isEmpty then acc else cur.reverse :: acc).reverse
  | 13 :: 10 :: rest, acc, cur => splitlinesAux rest (cur.reverse :: acc) []
  | c :: rest, acc, cur =>
    if c = 13 || c = 10 then splitlinesAux rest (cur.reverse :: acc) []
    else splitlinesAux rest acc (c :: cur)

def joinWith (sep : Bytes) : List Bytes → Bytes
  | [] => []
  | [x] => x
  | x :: y :: t => x ++ sep ++ joinWith sep (y :: t)

/-- `_sanitizeLinearWhitespace` = `b" ".join(v.splitlines())` -/
def sanitize (v : Bytes) : Bytes := joinWith [32] (splitlinesAux v [] [])

/-- digits of CPython `int()`: decimal digits, single `_` between digits; returns value and digit count -/
def pyDigits : Bytes → Nat → Nat → Bool → Option (Nat × Nat)
  | [], acc, n, prevDigit => if prevDigit then some (acc, n) else none
  | c :: r, acc, n, prevDigit =>
    if isDigit c then pyDigits r (acc * 10 + (c.toNat - 48)) (n + 1) true
    else if c = 95 && prevDigit then pyDigits r acc n false
    else none

def MAX_STR_DIGITS : Nat := 4300

/-- `int(b)` for `bytes`; `none` = `ValueError` (also: more than 4300 digits) -/
def pyInt (b : Bytes) : Option Int :=
  let go (r : Bytes) (neg : Bool) : Option Int :=
    match pyDigits r 0 0 false with
    | none => none
    | some (v, n) => if n > MAX_STR_DIGITS then none else some (if neg then -(Int.ofNat v) else Int.ofNat v)
  match strip b with
  | 45 :: r => go r true
  | 43 :: r => go r false
  | r => go r false

/-- `_decint` incl. the digit limit of the final `int(data)` -/
def decintLim (b : Bytes) : Option Nat :=
  if (stripSpTab b).length > MAX_STR_DIGITS then none else decint b

/-! ### the head of a response, byte level (no protocol state) -/

/-- `HTTPClientParser.parseVersion`: `true` = returns, `false` = `BadResponseVersion` -/
def versionOK (v : Bytes) : Bool :=
  if v = [72, 84, 84, 80, 47, 49, 46, 49] then true else
  match splitOn 47 v with
  | [_, num] =>
    match splitOn 46 num with
    | [ma, mi] =>
      match pyInt ma, pyInt mi with
      | some a, some b => !(a < 0 || b < 0)
      | _, _ => false
    | _ => false
  | _ => false

/-- `HTTPClientParser.statusReceived`: the status code, or the exception class -/
def parseStatus (status : Bytes) : Except Exc Int :=
  match split1 32 status with
  | none => .error .parseError                       -- one part
  | some (version, rest) =>
    let codeBytes := match split1 32 rest with
      | none => rest
      | some (c, _) => c
    match pyInt codeBytes with
    | none => .error .parseError
    | some code => if versionOK version then .ok code else .error .badResponseVersion

def NAME_CL : Bytes := [99, 111, 110, 116, 101, 110, 116, 45, 108, 101, 110, 103, 116, 104]
def NAME_TE : Bytes := [116, 114, 97, 110, 115, 102, 101, 114, 45, 101, 110, 99, 111, 100, 105, 110, 103]
def NAME_CONNECTION : Bytes := [99, 111, 110, 110, 101, 99, 116, 105, 111, 110]
def CHUNKED : Bytes := [99, 104, 117, 110, 107, 101, 100]
def CLOSE : Bytes := [99, 108, 111, 115, 101]

/-- `CONNECTION_CONTROL_HEADERS` members the client ever looks up (the others are stored and never read) -/
def isConnControl (name : Bytes) : Bool := name = NAME_CL || name = NAME_TE || name = NAME_CONNECTION

/-- `header.split(b":", 1)`, `value.strip()`, `headerReceived`: the new `connHeaders`, or the class raised -/
def headerReceived (isHead : Bool) (conn : List (Bytes × Bytes)) (header : Bytes) : Except Exc (List (Bytes × Bytes)) :=
  match split1 58 header with
  | none => .error .valueError
  | some (name, value) =>
    let name := lower name
    if !isToken name then .error .invalidHeaderName
    else if isConnControl name && !(isHead && name = NAME_CL) then .ok (conn ++ [(name, sanitize (strip value))])
    else .ok conn

def rawHeaders (conn : List (Bytes × Bytes)) (name : Bytes) : List Bytes :=
  (conn.filter fun p => p.1 = name).map (·.2)

/-- all values equal (the `set` has one element) -/
def allSame : List Nat → Option Nat
  | [] => none
  | v :: rest => if rest.all (· = v) then some v else none

/-- `_contentLength(connHeaders)`: `.ok none` = no header, `.error` = `ValueError` -/
def contentLength (conn : List (Bytes × Bytes)) : Except Exc (Option Nat) :=
  match rawHeaders conn NAME_CL with
  | [] => .ok none
  | hs =>
    let fieldValues := joinWith [44] hs
    if fieldValues.contains 44 then
      match (splitOn 44 fieldValues).mapM decintLim with
      | none => .error .valueError
      | some vs => match allSame vs with
        | none => .error .valueError
        | some v => .ok (some v)
    else match decintLim fieldValues with
      | none => .error .valueError
      | some v => .ok (some v)

/-- how the body of the final response is framed, decided in `allHeadersReceived` -/
inductive Framing where
  | interim                 -- 1xx: reset and go on
  | noBody                  -- HEAD / 204 / 304 / `Content-Length: 0`
  | body (d : Decoder)      -- identity (known or unknown length) or chunked
  | bad (e : Exc)           -- `KeyError` (unknown transfer coding) / `ValueError` (Content-Length)
  deriving Repr, DecidableEq

def framing (isHead : Bool) (code : Int) (conn : List (Bytes × Bytes)) : Framing :=
  if 100 ≤ code && code < 200 then .interim
  else if code = 204 || code = 304 || isHead then .noBody
  else match rawHeaders conn NAME_TE with
    | te :: _ => if lower te = CHUNKED then .body (.chunked Chunked.init) else .bad .keyError
    | [] =>
      match contentLength conn with
      | .error e => .bad e
      | .ok (some 0) => .noBody
      | .ok n => .body (.ident (Ident.init n))

/-- `b"close" in connHeaders.getRawHeaders(b"Connection", ())` -/
def hasClose (conn : List (Bytes × Bytes)) : Bool := (rawHeaders conn NAME_CONNECTION).contains CLOSE

/-! ### Response -/

/-- `Response.deliverBody(protocol)`; `CONNECTED`/`FINISHED` raise `RuntimeError` (the application never does that) -/
def deliverBody (s : S) : S :=
  match s.rstate with
  | .initial =>
    { s with appDelivered := true, made := s.made + 1, delivered := s.delivered ++ s.rbuffer, rbuffer := [],
             rstate := .connected, paused := if s.proxying then false else s.paused }
  | .deferredClose =>
    { s with appDelivered := true, made := s.made + 1, delivered := s.delivered ++ s.rbuffer, rbuffer := [],
             lost := s.lost ++ [s.rreason.getD .done], rstate := .finished }
  | _ => { s with appDelivered := true }

/-- `Response._bodyDataReceived(data)` -/
def bodyData (s : S) (data : Bytes) : R :=
  match s.rstate with
  | .initial => .ok { s with rbuffer := s.rbuffer ++ data }
  | .connected => .ok { s with delivered := s.delivered ++ data }
  | _ => .raise .runtimeError s

/-- `Response._bodyDataFinished(reason)` (`none` = no argument = `ResponseDone`) -/
def bodyFinished (s : S) (reason : Option BodyEnd) : R :=
  match s.rstate with
  | .initial => .ok { s with rstate := .deferredClose, rreason := some (reason.getD .done) }
  | .connected => .ok { s with lost := s.lost ++ [reason.getD .done], rstate := .finished }
  | _ => .raise (if reason.isSome then .typeError else .runtimeError) s

/-! ### the two Deferreds -/

/-- `_finishedRequest.callback/errback(f)` and, synchronously, the application's callback -/
def fireFin (s : S) (f : Fire) : S :=
  let s := { s with fires := s.fires ++ [f] }
  if f = .response && s.deliverNow && !s.appDelivered then deliverBody s else s

/-- `_responseDeferred.callback/errback(f)`; `del self._responseDeferred` afterwards -/
def fireResp (s : S) (f : Fire) : R :=
  match s.respD with
  | some _ => .raise .attributeError s
  | none =>
    let s := { s with respD := some f }
    .ok (if s.chained then fireFin s f else s)

/-- `_responseDeferred.chainDeferred(_finishedRequest)` -/
def chain (s : S) : S :=
  let s := { s with chained := true }
  match s.respD with
  | some f => fireFin s f
  | none => s

/-! ### HTTP11ClientProtocol / HTTPClientParser control -/

/-- `_finishResponse(rest)` as seen from inside `parser.connectionLost` (`self._parser is None` by then) -/
def finishResponseLate (s : S) : R :=
  match s.cstate with
  | .waiting => .ok { s with cstate := .quiescent }
  | .transmitting => .ok (chain { s with cstate := .tar })
  | .aborting => .ok s
  | _ => .raise .runtimeError s

/-- errors inside `with _ignoreDecoderErrors:` are logged and dropped -/
def swallow : R → S
  | .ok s => s
  | .raise _ s => s

/-- `HTTPClientParser.connectionLost(reason)` -/
def parserConnectionLost (s : S) (reason : Exc) : R :=
  match s.decoder with
  | .ident d =>
    match d.contentLength with
    | none =>
      -- `finishCallback(b"")` = `_finished(b"")`, then `raise PotentialDataLoss()`
      let s := { s with decoder := .ident { d with active := false, fin := d.fin ++ [[]] }, pstate := .done }
      .ok (swallow ((finishResponseLate s).bind fun s => bodyFinished s (some .potentialDataLoss)))
    | some n =>
      let s := { s with decoder := .ident { d with active := false } }
      if n ≠ 0 then .ok (swallow (bodyFinished s (some (.failed [reason, .dataLoss]))))
      else .ok (swallow (bodyFinished s none))
  | .chunked d =>
    if d.state ≠ .finished then .ok (swallow (bodyFinished s (some (.failed [reason, .dataLoss]))))
    else .ok (swallow (bodyFinished s none))
  | .none =>
    if s.pstate ≠ .done then
      fireResp s (if s.everReceived then .responseFailed [reason] else .neverReceived [reason])
    else .ok s

/-- `_disconnectParser(reason)` -/
def disconnectParser (s : S) (reason : Exc) : R :=
  if s.hasParser then
    let s := if s.cstate = .transmitting then chain { s with cstate := .tar } else s
    parserConnectionLost { s with hasParser := false, proxying := false } reason
  else .ok s

/-- `_giveUp(reason)` -/
def giveUp (s : S) (reason : Exc) : R := disconnectParser { s with disconnecting := true } reason

/-- `_finishResponse(rest)` (the parser calls it through `_finished`) -/
def finishResponse (s : S) : R :=
  match s.cstate with
  | .waiting | .transmitting =>
    let s := if s.cstate = .waiting then { s with cstate := .quiescent } else chain { s with cstate := .tar }
    if !s.hasParser then .ok s
    else if hasClose s.connHeaders || s.cstate ≠ .quiescent || !s.persistent then giveUp s .connectionDone
    else
      -- `resumeProducing()`; the quiescent callback; `if op.failed: self.transport.loseConnection()`
      disconnectParser { s with paused := false, quiet := s.quiet + 1, disconnecting := s.disconnecting || s.qRaises }
        .connectionDone
  | .aborting => .ok s
  | _ => .raise .runtimeError s

/-- `HTTPClientParser._finished(rest)` -/
def finished (s : S) : R := finishResponse { s with pstate := .done }

/-- `allHeadersReceived()` once the framing is known -/
def allHeadersReceived (s : S) : R :=
  match framing s.isHead s.code s.connHeaders with
  | .interim => .ok { s with connHeaders := [], pstate := .status, partialHeader := none }
  | .noBody => ((finished s).bind fun s => bodyFinished s none).bind fun s => fireResp s .response
  | .bad e => .raise e s
  | .body d =>
    fireResp { s with paused := if s.proxying then true else s.paused, decoder := d, pstate := .body, lineMode := false }
      .response

/-- the pending (folded) header is complete: `headerReceived(name, value)` -/
def flushPartial (s : S) : R :=
  match s.partialHeader with
  | none => .ok s
  | some h =>
    match headerReceived s.isHead s.connHeaders h with
    | .error e => .raise e s
    | .ok conn => .ok { s with connHeaders := conn }

/-- `HTTPParser.lineReceived(line)` -/
def lineReceived (s : S) (line : Bytes) : R :=
  let line := if line.getLast? = some 13 then line.dropLast else line
  match s.pstate with
  | .status =>
    match parseStatus line with
    | .error e => .raise e s
    | .ok code => .ok { s with code := code, pstate := .header }
  | .header =>
    if line = [] || !(line.head? = some 32 || line.head? = some 9) then
      (flushPartial s).bind fun s =>
        if line = [] then allHeadersReceived s else .ok { s with partialHeader := some line }
    else match s.partialHeader with
      | none => .raise .attributeError s
      | some p => .ok { s with partialHeader := some (p ++ line) }
  | _ => .ok s

/-- `LineReceiver.lineLengthExceeded`: `self.transport.loseConnection()` through the proxy -/
def lineTooLong (s : S) : S := { s with buffer := [], disconnecting := s.disconnecting || s.proxying }

/-- the body callbacks of one `decoder.dataReceived(data)`: what was emitted, then `_finished` if the decoder
    finished in this call, then the decoder's own raise -/
def rawDataReceived (s : S) (data : Bytes) : R :=
  match s.decoder with
  | .none => .raise .attributeError s
  | .ident d =>
    match Ident.dataReceived d data with
    | .error _ => .raise .runtimeError s
    | .ok d' =>
      (bodyData { s with decoder := .ident d' } (d'.data.drop d.data.length)).bind fun s =>
        if d.active && !d'.active then finished s else .ok s
  | .chunked d =>
    match Chunked.dataReceived d data with
    | .error (e, d') =>
      (bodyData { s with decoder := .chunked d' } (d'.data.drop d.data.length)).bind fun s =>
        .raise (if e = .runtime then .runtimeError else .malformedChunk) s
    | .ok d' =>
      (bodyData { s with decoder := .chunked d' } (d'.data.drop d.data.length)).bind fun s =>
        if d.state ≠ .finished && d'.state = .finished then finished s else .ok s

/-- the `while self._buffer` loop of `LineReceiver.dataReceived` over the buffer `buf` -/
def lrLoop (s : S) (buf : Bytes) : R :=
  if buf = [] then .ok { s with buffer := [] }
  else if s.lineMode then
    match _h : splitLF buf with
    | none =>
      if buf.length ≥ MAX_LENGTH + 1 then .ok (lineTooLong s) else .ok { s with buffer := buf }
    | some (line, rest) =>
      if line.length > MAX_LENGTH then .ok (lineTooLong s)
      else match lineReceived s line with
        | .raise e s' => .raise e { s' with buffer := if s.pstate ≠ .done && s'.pstate = .done then [] else rest }
        | .ok s' =>
          -- `clearLineBuffer()` was called iff the parser has just become DONE
          if s.pstate ≠ .done && s'.pstate = .done then .ok { s' with buffer := [] } else lrLoop s' rest
  else rawDataReceived { s with buffer := [] } buf
termination_by buf.length
decreasing_by exact splitLF_length _ _ _ _h

/-- `HTTPClientParser.dataReceived(data)` -/
def parserDataReceived (s : S) (data : Bytes) : R :=
  lrLoop { s with everReceived := true } (s.buffer ++ data)

/-- an exception escaping an entry point of the protocol -/
def escape : R → S
  | .ok s => s
  | .raise e s => { s with excs := s.excs ++ [e] }

/-- `HTTP11ClientProtocol.dataReceived(bytes)` -/
def dataReceived (s : S) (data : Bytes) : S :=
  if !s.hasParser then escape (giveUp s .attributeError)
  else match parserDataReceived s data with
    | .ok s => s
    | .raise e s => escape (giveUp s e)

/-- `HTTP11ClientProtocol.connectionLost(reason)` -/
def connectionLost (s : S) (reason : Exc) : S :=
  match s.cstate with
  | .quiescent | .generationFailed | .tar => { s with cstate := .connectionLost }
  | .transmitting =>
    let s := fireFin { s with cstate := .connectionLost } (.transmissionFailed [reason])
    { s with stopw := s.stopw + 1 }
  | .waiting =>
    match disconnectParser s reason with
    | .ok s => { s with cstate := .connectionLost }
    | r => escape r
  | .aborting =>
    match disconnectParser s .connectionAborted with
    | .ok s => { s with cstate := .connectionLost }
    | r => escape r
  | .connectionLost => { s with excs := s.excs ++ [.runtimeError] }

/-- `HTTP11ClientProtocol.abort()` -/
def abort (s : S) : S :=
  if s.cstate = .connectionLost then s
  else
    let s := { s with disconnecting := true }
    let s := if s.cstate = .transmitting then chain s else s
    { s with cstate := .aborting }

/-- `ebRequestWriting(err)` after the request's body producer failed with `why` -/
def writeFailed (s : S) (why : Exc) : S :=
  if !s.reqPending then s else
  let s := { s with reqPending := false }
  if s.cstate = .transmitting then
    fireFin { s with cstate := .generationFailed, aborted := true, disconnecting := true } (.generationFailed [why])
  else s

/-- `cbRequestWritten` -/
def written (s : S) : S :=
  if !s.reqPending then s else
  let s := { s with reqPending := false }
  if s.cstate = .transmitting then chain { s with cstate := .waiting } else s

/-- `Deferred.cancel()` on the request Deferred (canceller `cancelRequest`) -/
def cancel (s : S) : S :=
  if s.fires ≠ [] then s else
  let s :=
    if s.cstate = .transmitting || s.cstate = .tar then writeFailed s .cancelled
    else escape (disconnectParser { s with aborted := true, disconnecting := true } .cancelled)
  if s.fires = [] then { s with fires := [.cancelledError] } else s

/-- the application calls `deliverBody` (once, and only when it has the response) -/
def deliver (s : S) : S :=
  if s.fires = [.response] && !s.appDelivered then deliverBody s else s

inductive Event where
  | data (b : Bytes)
  | lost (reason : Exc)
  | deliver | written | writeFailed | abort | cancel
  deriving Repr, DecidableEq

def step (s : S) : Event → S
  | .data b => dataReceived s b
  | .lost r => connectionLost s r
  | .deliver => deliver s
  | .written => written s
  | .writeFailed => writeFailed s .boom
  | .abort => abort s
  | .cancel => cancel s

def run (s : S) (evs : List Event) : S := evs.foldl step s

end Twisted.Http.Client
