/-
Model of the byte-range handling of `twisted.web.static.File` (C25), transcribed from
`src/twisted/web/static.py`:

  * `File._parseRangeHeader`            → `parseRangeHeader` (`splitOnce`, `splitAll`, `strip`,
                                           `parseNat`, `parseSpec`, `parseElems`)
  * `File._rangeToOffsetAndSize`        → `r2os`
  * `File._contentRange`                → `contentRange`
  * `File._doSingleRangeRequest`, `_doMultipleRangeRequest`, `_setContentHeaders`,
    `makeProducer`, `render_GET` (HEAD branch)      → `respond`
  * `SingleRangeStaticProducer.start/resumeProducing`   → `srLoop`
  * `MultipleRangeStaticProducer.start/_nextRange/resumeProducing` → `mrLoop`

Bytes are `List UInt8`.  A parsed range is the Python pair `(start, end)` with at most one
`None`: `(a, b)` = `Rng.fromTo a b`, `(a, None)` = `Rng.from a`, `(None, n)` = `Rng.suffix n`
(the parser never returns `(None, None)`).

Python details mirrored on purpose:
  * `bytes.strip()` and `int()` use the same ASCII whitespace set 0x09–0x0d, 0x20.
  * `if start:` tests the *unstripped* piece; the number itself is stripped before conversion.
  * `int()` of more than 4300 digits raises `ValueError` (CPython `max_str_digits`), i.e. the
    header is treated as malformed.
  * the producers are pull loops bounded by `bufferSize`; they are modelled with fuel and return
    `none` when the fuel runs out (the real loop would then spin or stall).  `mrLoop` flattens the
    sequence of `request.write` calls into their concatenation; `dl` is `dataLength`, reset to 0 at
    every new `resumeProducing` call.
  * `NoRangeStaticProducer` (read `bufferSize` until EOF) is abstracted to "the whole content".
-/
namespace Twisted.Http.Range

abbrev Bytes := List UInt8

def ofChars (cs : List Char) : Bytes := cs.map fun c => c.toNat.toUInt8

/-- Python's ASCII whitespace (`Py_ISSPACE`): space, \t \n \v \f \r -/
def isWs (b : UInt8) : Bool := b == 32 || (9 ≤ b && b ≤ 13)

def lstrip (s : Bytes) : Bytes := s.dropWhile isWs
def rstrip (s : Bytes) : Bytes := (s.reverse.dropWhile isWs).reverse
/-- `bytes.strip()` -/
def strip (s : Bytes) : Bytes := rstrip (lstrip s)

/-- `s.split(sep, 1)` unpacked into two names: `none` is the `ValueError` of the unpacking
    when `sep` does not occur. -/
def splitOnce (sep : UInt8) : Bytes → Option (Bytes × Bytes)
  | [] => none
  | c :: cs =>
    if c = sep then some ([], cs)
    else match splitOnce sep cs with
      | none => none
      | some (a, b) => some (c :: a, b)

/-- `s.split(sep)` (always at least one piece) -/
def splitAll (sep : UInt8) : Bytes → List Bytes
  | [] => [[]]
  | c :: cs =>
    if c = sep then [] :: splitAll sep cs
    else match splitAll sep cs with
      | [] => [[c]]
      | p :: ps => (c :: p) :: ps

def isDigit (b : UInt8) : Bool := 48 ≤ b && b ≤ 57

/-- value of a string of ASCII digits -/
def digitsVal (s : Bytes) : Nat := s.foldl (fun n b => 10 * n + (b.toNat - 48)) 0

/-- CPython's `sys.int_info.default_max_str_digits` -/
def maxStrDigits : Nat := 4300

/-- `_parseRangeInt`: `value.strip()`, refuse unless `isdigit()`, then `int()`. -/
def parseNat (s : Bytes) : Option Nat :=
  let t := strip s
  if t ≠ [] ∧ t.all isDigit = true ∧ t.length ≤ maxStrDigits then some (digitsVal t) else none

inductive Rng where
  | fromTo (a b : Nat)
  | from (a : Nat)
  | suffix (n : Nat)
  deriving Repr, DecidableEq

/-- body of the `for byteRange in unparsedRanges` loop; `none` = `ValueError` -/
def parseSpec (e : Bytes) : Option Rng :=
  match splitOnce 45 e with
  | none => none
  | some (s, t) =>
    if s = [] then
      if t = [] then none
      else match parseNat t with
        | none => none
        | some n => some (.suffix n)
    else match parseNat s with
      | none => none
      | some a =>
        if t = [] then some (.from a)
        else match parseNat t with
          | none => none
          | some b => if a > b then none else some (.fromTo a b)

def parseElems : List Bytes → Option (List Rng)
  | [] => some []
  | e :: es =>
    match parseSpec e with
    | none => none
    | some r =>
      match parseElems es with
      | none => none
      | some rs => some (r :: rs)

/-- `bytes.lower()` on one byte -/
def lower (b : UInt8) : UInt8 := if 65 ≤ b ∧ b ≤ 90 then b + 32 else b

def bytesUnit : Bytes := ofChars ['b', 'y', 't', 'e', 's']

/-- `list(filter(None, map(bytes.strip, value.split(b","))))` -/
def elements (value : Bytes) : List Bytes :=
  ((splitAll 44 value).map strip).filter (· ≠ [])

/-- `File._parseRangeHeader`; `none` = `ValueError` (header ignored) -/
def parseRangeHeader (h : Bytes) : Option (List Rng) :=
  match splitOnce 61 h with
  | none => none
  | some (kind, value) =>
    if (strip kind).map lower ≠ bytesUnit then none
    else match parseElems (elements value) with
      | none => none
      | some [] => none
      | some rs => some rs

/-- `File._rangeToOffsetAndSize` → `(offset, size)`; `(0, 0)` means "does not overlap".
    `size - n` is truncated subtraction = `max(0, size - end)` of the code; the final
    `end - start` never truncates (`TwistedProps.C25.r2os_le`). -/
def r2os (size : Nat) : Rng → Nat × Nat
  | .suffix n =>
    let start := size - n
    let «end» := size
    if start ≥ size then (0, 0) else (start, «end» - start)
  | .from a =>
    let «end» := size
    if a ≥ size then (0, 0) else (a, «end» - a)
  | .fromTo a b =>
    let «end» := if b < size then b + 1 else if b > size then size else b
    if a ≥ size then (0, 0) else (a, «end» - a)

def dec (n : Nat) : Bytes := ofChars (Nat.toDigits 10 n)

/-- `_contentRange(offset, size)`: `"bytes %d-%d/%d" % (offset, offset + size - 1, fileSize)`
    (only called with `size ≥ 1`) -/
def contentRange (fileSize off sz : Nat) : Bytes :=
  ofChars ['b', 'y', 't', 'e', 's', ' '] ++ dec off ++ [45] ++ dec (off + sz - 1) ++ [47] ++ dec fileSize

/-- `"bytes */%d" % (fileSize,)` -/
def unsatRange (fileSize : Nat) : Bytes :=
  ofChars ['b', 'y', 't', 'e', 's', ' ', '*', '/'] ++ dec fileSize

def crlf : Bytes := [13, 10]

/-- `partSeparator` of `_doMultipleRangeRequest` -/
def partSeparator (boundary ctype cr : Bytes) : Bytes :=
  crlf ++ [45, 45] ++ boundary ++ crlf
    ++ ofChars ['C', 'o', 'n', 't', 'e', 'n', 't', '-', 't', 'y', 'p', 'e', ':', ' '] ++ ctype ++ crlf
    ++ ofChars ['C', 'o', 'n', 't', 'e', 'n', 't', '-', 'r', 'a', 'n', 'g', 'e', ':', ' '] ++ cr ++ crlf
    ++ crlf

/-- `finalBoundary` -/
def finalBoundary (boundary : Bytes) : Bytes := crlf ++ [45, 45] ++ boundary ++ [45, 45] ++ crlf

/-- one entry of `rangeInfo`: `(partSeparator, partOffset, partSize)` -/
structure Part where
  sep : Bytes
  off : Nat
  size : Nat
  deriving Repr, DecidableEq

/-- the `for start, end in byteRanges` loop: parts for the ranges that overlap the file -/
def rangeParts (fileSize : Nat) (boundary ctype : Bytes) : List Rng → List Part
  | [] => []
  | r :: rs =>
    let os := r2os fileSize r
    if os.1 = 0 ∧ os.2 = 0 then rangeParts fileSize boundary ctype rs
    else ⟨partSeparator boundary ctype (contentRange fileSize os.1 os.2), os.1, os.2⟩
          :: rangeParts fileSize boundary ctype rs

/-- `fileObject.seek(pos); fileObject.read(n)` -/
def readAt (content : Bytes) (pos n : Nat) : Bytes := (content.drop pos).take n

/-- `SingleRangeStaticProducer`: every step is one `resumeProducing`; the result is the
    concatenation of the `request.write` calls up to `request.finish()`. -/
def srLoop (content : Bytes) (bs : Nat) : Nat → Nat → Nat → Nat → Option Bytes
  | 0, _, _, _ => none
  | fuel + 1, pos, size, written =>
    let data := readAt content pos (min bs (size - written))
    let written' := written + data.length
    if written' = size then some data
    else match srLoop content bs fuel (pos + data.length) size written' with
      | none => none
      | some rest => some (data ++ rest)

/-- state of `MultipleRangeStaticProducer` between loop iterations: `partBoundary`
    (`[]` = `None`/falsy), file position, `_partSize`, `_partBytesWritten`, and what is
    left in `rangeIter`. -/
structure MState where
  boundary : Bytes
  pos : Nat
  partSize : Nat
  written : Nat
  rest : List Part
  deriving Repr

/-- `MultipleRangeStaticProducer.resumeProducing`, one step per iteration of
    `while dataLength < self.bufferSize` (a step with `dl ≥ bs` is the end of one
    `resumeProducing` call: `request.write(b"".join(data))`, and the next call starts with
    `dataLength = 0`).  The read length is `max(0, min(bs - dl, partSize - written))`:
    both subtractions are truncated. -/
def mrLoop (content : Bytes) (bs : Nat) : Nat → MState → Nat → Option Bytes
  | 0, _, _ => none
  | fuel + 1, st, dl =>
    if dl ≥ bs then mrLoop content bs fuel st 0
    else
      let dl1 := dl + st.boundary.length
      let p := readAt content st.pos (min (bs - dl1) (st.partSize - st.written))
      let written' := st.written + p.length
      let dl2 := dl1 + p.length
      if written' = st.partSize then
        match st.rest with
        | [] => some (st.boundary ++ p)
        | q :: rest =>
          match mrLoop content bs fuel ⟨q.sep, q.off, q.size, 0, rest⟩ dl2 with
          | none => none
          | some out => some (st.boundary ++ p ++ out)
      else
        match mrLoop content bs fuel ⟨[], st.pos + p.length, st.partSize, written', st.rest⟩ dl2 with
        | none => none
        | some out => some (st.boundary ++ p ++ out)

def partsBytes : List Part → Nat
  | [] => 0
  | q :: qs => q.size + partsBytes qs

/-- enough steps for any well-formed `rangeInfo` (`TwistedProps.C25.mrLoop_spec`) -/
def mrFuel (parts : List Part) : Nat := 2 * partsBytes parts + 4 * parts.length + 4

/-- `MultipleRangeStaticProducer.start()` + all `resumeProducing` calls -/
def mrRun (content : Bytes) (bs : Nat) (parts : List Part) : Option Bytes :=
  match parts with
  | [] => none   -- `next(self.rangeIter)` raises StopIteration out of `start()`
  | q :: rest => mrLoop content bs (mrFuel parts) ⟨q.sep, q.off, q.size, 0, rest⟩ 0

structure Resp where
  code : Nat
  contentLength : Nat
  contentRange : Option Bytes
  multipart : Bool          -- Content-Type is `multipart/byteranges; boundary="<boundary>"`
  body : Option Bytes       -- `none`: the producer never finished the response
  deriving Repr, DecidableEq

/-- `abstract.FileDescriptor.bufferSize` -/
def bufferSize : Nat := 65536

/-- `File.render_GET`/`render_HEAD` + `makeProducer` + the producer, for a regular readable
    file with the given content; `range` is `request.getHeader(b"range")`. -/
def respond (bs : Nat) (content ctype boundary : Bytes) (isHead : Bool) (range : Option Bytes) : Resp :=
  let fileSize := content.length
  if isHead then ⟨200, fileSize, none, false, some []⟩
  else
    match range.bind parseRangeHeader with
    | none => ⟨200, fileSize, none, false, some content⟩
    | some [r] =>
      let os := r2os fileSize r
      let body := srLoop content bs (os.2 + 1) os.1 os.2 0
      if os.1 = 0 ∧ os.2 = 0 then ⟨416, os.2, some (unsatRange fileSize), false, body⟩
      else ⟨206, os.2, some (contentRange fileSize os.1 os.2), false, body⟩
    | some rs =>
      let parts := rangeParts fileSize boundary ctype rs
      if parts = [] then
        ⟨416, 0, some (unsatRange fileSize), false, mrRun content bs [⟨[], 0, 0⟩]⟩
      else
        let info := parts ++ [⟨finalBoundary boundary, 0, 0⟩]
        ⟨206, partsBytes parts + (parts.map (·.sep.length)).sum + (finalBoundary boundary).length,
          none, true, mrRun content bs info⟩

/-- one request as a reused `File` object sees it: the method, what the file holds when the request is
    served, the boundary this response draws (time/pid derived) and the `Range` header -/
structure Req where
  isHead : Bool
  content : Bytes
  boundary : Bytes
  range : Option Bytes

/-- ONE `File` object (e.g. `root.putChild(b"f", File(path))`) serving requests one after the other.
    `render_GET` starts with `self.restat(False)` and keeps `rangeInfo`, `contentLength`, the boundary and
    the producer in locals / per-request objects: the only thing that survives on the object from one
    request to the next is `self.type` (`ctype` here, fixed by the file name and `defaultType`). -/
def serve (bs : Nat) (ctype : Bytes) (reqs : List Req) : List Resp :=
  reqs.map fun q => respond bs q.content ctype q.boundary q.isHead q.range

end Twisted.Http.Range
