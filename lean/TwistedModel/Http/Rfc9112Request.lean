/-
Reference HTTP/1.1 *request stream* parser (RFC 9112 §2.2, §3, §5, §6.1, §6.3, §7.1; RFC 9110 §5.1,
§5.5, §5.6.2) — NOT a transcription of Twisted code and importing nothing from the channel model.
It splits a byte stream into the messages RFC 9112 says it consists of, and says why it stopped.
It is the reader the whole-stream C19 theorems (`TwistedProps/C19.lean`) are stated against, and on
every run of the check its verdict is compared with the Python reference parser of
`harness/corr/C19.py` (same rules, written separately) and, message by message, with `h11`.

For each message, in this order:
* §2.2: one empty line before the request-line is skipped (a second one: `may`);
* §3: `request-line = method SP request-target SP HTTP-version CRLF`, `method = token`,
  `request-target = 1*VCHAR`, `HTTP-version = "HTTP/" DIGIT "." DIGIT`; versions other than 1.0 / 1.1: `may`;
* §5: `field-line = field-name ":" OWS field-value OWS`, `field-name = token` (no whitespace before
  the colon); NUL in a value is refused; obs-fold, bare CR / LF in a value: `may`;
* §6.3, in the RFC's order: Transfer-Encoding together with Content-Length ⇒ refused; Transfer-Encoding
  whose only coding is `chunked` ⇒ chunked body (§7.1, chunk extensions and trailer fields allowed);
  `chunked` applied twice, or a final coding that is not `chunked`, or unknown codings ⇒ refused
  (other codings before a final `chunked`: `may`); several or invalid Content-Length ⇒ refused
  (a comma list of numbers: `may`); one valid Content-Length ⇒ that many octets; otherwise no body.
* recipient limits (a line of 16384 octets or more, a head above 16384 octets, more than 500 fields, a
  chunk-size line of 1024 octets or more, more than 65000 octets of trailer fields, a Content-Length of
  more than 4300 digits): `may` / refused as the RFC allows, the exact choices are those of the Python
  reference so that the two can be compared verbatim.

Verdicts: `bad k` — the message is invalid (class `k`), the server must answer 400 and stop;
`may` — the RFC lets a recipient reject or tolerate, no verdict from here on; `more` — the stream ends
inside this message; `done` — the stream ends after the last message.
-/
namespace Twisted.Http.Rfc9112Request

abbrev Bytes := List UInt8

inductive BadKey where
  | requestLine | method | targetByte | version
  | fieldLine | fieldName | fieldValueNul
  | clTe | teIdentity | teRepeated | teUnsupported
  | clRepeated | clNonnumeric | clDigits
  | chunkSize | chunkExt | chunkCrlf
  deriving Repr, DecidableEq

inductive Stop where
  | bad (k : BadKey)
  | may
  | more
  | done
  deriving Repr, DecidableEq

structure Msg where
  method : Bytes
  target : Bytes
  version : Bytes
  /-- field lines in order: lower-cased name, value without surrounding SP / HTAB -/
  headers : List (Bytes × Bytes)
  body : Bytes
  /-- offset of the first octet of the request-line in the stream -/
  start : Nat
  /-- offset of the first octet after the message -/
  stop : Nat
  deriving Repr, DecidableEq

/-! ### octets -/

def isDigit (c : UInt8) : Bool := 48 ≤ c && c ≤ 57
def isAlpha (c : UInt8) : Bool := (65 ≤ c && c ≤ 90) || (97 ≤ c && c ≤ 122)
def isVchar (c : UInt8) : Bool := 0x21 ≤ c && c ≤ 0x7e
def isHex (c : UInt8) : Bool := isDigit c || (97 ≤ c && c ≤ 102) || (65 ≤ c && c ≤ 70)

/-- RFC 9110 §5.6.2 `tchar` -/
def isTchar (c : UInt8) : Bool :=
  isDigit c || isAlpha c ||
  c = 33 || c = 35 || c = 36 || c = 37 || c = 38 || c = 39 || c = 42 || c = 43 || c = 45 || c = 46 ||
  c = 94 || c = 95 || c = 96 || c = 124 || c = 126

def isToken (b : Bytes) : Bool := !b.isEmpty && b.all isTchar

def isOWS (c : UInt8) : Bool := c = 32 || c = 9

/-- Python's `bytes.strip()` whitespace: HT LF VT FF CR SP -/
def isWs (c : UInt8) : Bool := c = 32 || (9 ≤ c && c ≤ 13)

def lowerByte (c : UInt8) : UInt8 := if 65 ≤ c && c ≤ 90 then c + 32 else c
def lower (b : Bytes) : Bytes := b.map lowerByte

def stripBy (p : UInt8 → Bool) (b : Bytes) : Bytes := ((b.dropWhile p).reverse.dropWhile p).reverse

/-- the line before the first CRLF, and what follows that CRLF -/
def takeLine : Bytes → Option (Bytes × Bytes)
  | [] => none
  | [_] => none
  | c :: d :: rest =>
    if c = 13 ∧ d = 10 then some ([], rest)
    else match takeLine (d :: rest) with
      | some p => some (c :: p.1, p.2)
      | none => none

/-- split at every occurrence of `sep` -/
def splitAt (sep : UInt8) : Bytes → List Bytes
  | [] => [[]]
  | c :: rest =>
    if c = sep then [] :: splitAt sep rest
    else match splitAt sep rest with
      | [] => [[c]]
      | p :: ps => (c :: p) :: ps

/-- the part before the first `sep` and the part after it -/
def splitFirst (sep : UInt8) : Bytes → Option (Bytes × Bytes)
  | [] => none
  | c :: rest =>
    if c = sep then some ([], rest)
    else match splitFirst sep rest with
      | some p => some (c :: p.1, p.2)
      | none => none

def startsOWS (b : Bytes) : Bool :=
  match b with
  | c :: _ => isOWS c
  | [] => false

def startsCRLF (b : Bytes) : Bool :=
  match b with
  | 13 :: 10 :: _ => true
  | _ => false

def decVal (b : Bytes) : Nat := b.foldl (fun acc c => acc * 10 + (c.toNat - 48)) 0

def hexDigitVal (c : UInt8) : Nat :=
  if isDigit c then c.toNat - 48 else if 97 ≤ c then c.toNat - 87 else c.toNat - 55

def hexVal (b : Bytes) : Nat := b.foldl (fun acc c => acc * 16 + hexDigitVal c) 0

def sContentLength : Bytes := [99, 111, 110, 116, 101, 110, 116, 45, 108, 101, 110, 103, 116, 104]
def sTransferEncoding : Bytes :=
  [116, 114, 97, 110, 115, 102, 101, 114, 45, 101, 110, 99, 111, 100, 105, 110, 103]
def sChunked : Bytes := [99, 104, 117, 110, 107, 101, 100]
def sIdentity : Bytes := [105, 100, 101, 110, 116, 105, 116, 121]
def sHttp10 : Bytes := [72, 84, 84, 80, 47, 49, 46, 48]
def sHttp11 : Bytes := [72, 84, 84, 80, 47, 49, 46, 49]

def maxLine : Nat := 16384
def maxFields : Nat := 500
def maxChunkLine : Nat := 1024
def maxTrailer : Nat := 65000
def maxDigits : Nat := 4300

/-! ### §3 request-line -/

/-- `"HTTP/" DIGIT "." DIGIT` -/
def isVersion : Bytes → Bool
  | [72, 84, 84, 80, 47, a, 46, b] => isDigit a && isDigit b
  | _ => false

def parseRequestLine (line : Bytes) : Except Stop (Bytes × Bytes × Bytes) :=
  match splitAt 32 line with
  | [m, t, v] =>
    if !isToken m then .error (.bad .method)
    else if t.isEmpty || !t.all isVchar then .error (.bad .targetByte)
    else if !isVersion v then .error (.bad .version)
    else if v ≠ sHttp10 ∧ v ≠ sHttp11 then .error .may
    else .ok (m, t, v)
  | _ => .error (.bad .requestLine)

/-! ### §5 field lines -/

/-- one field line (not empty, not a continuation); `acc` are the fields before it -/
def parseFieldLine (hl : Bytes) : Except Stop (Bytes × Bytes) :=
  match splitFirst 58 hl with
  | none => .error (.bad .fieldLine)
  | some (name, value) =>
    if !isToken name then .error (.bad .fieldName)
    else
      let value := stripBy isOWS value
      if value.contains 0 then .error (.bad .fieldValueNul)
      else if value.contains 13 || value.contains 10 then .error .may
      else .ok (lower name, value)

/-- the field section: lines up to the empty line.  `size`: octets of the lines of this head so far.
    A field line is judged once the line after it is complete (it may be continued by an obs-fold) and
    within the line limit (a recipient that enforces the limit by dropping the connection does so first).
    The fuel bounds the number of lines (`s.length + 1` is enough). -/
def fieldLines : Nat → Bytes → Nat → List (Bytes × Bytes) → Except Stop (List (Bytes × Bytes) × Bytes)
  | 0, _, _, _ => .error .more
  | fuel + 1, s, size, acc =>
    match takeLine s with
    | none => if s.length ≥ maxLine then .error .may else .error .more
    | some (hl, rest) =>
      if size + hl.length > maxLine || hl.length > maxLine then .error .may
      else if hl.isEmpty then .ok (acc, rest)
      else if startsOWS hl then .error .may
      else match takeLine rest with
        | none => .error .more
        | some (next, _) =>
          if next.length > maxLine then .error .may
          else if startsOWS rest then .error .may
          else match parseFieldLine hl with
            | .error e => .error e
            | .ok f =>
              if acc.length + 1 > maxFields then .error .may
              else fieldLines fuel rest (size + hl.length) (acc ++ [f])

def fieldValues (hs : List (Bytes × Bytes)) (name : Bytes) : List Bytes :=
  (hs.filter fun h => h.1 = name).map (·.2)

/-! ### §7.1 chunked -/

/-- trailer section up to its empty line; returns what follows it -/
def trailerSection : Nat → Bytes → Nat → Except Stop Bytes
  | 0, _, _ => .error .more
  | fuel + 1, s, total =>
    match takeLine s with
    | none => if s.length + total > maxTrailer then .error .may else .error .more
    | some (line, rest) =>
      if line.isEmpty then .ok rest
      else if total + line.length + 2 > maxTrailer then .error .may
      else trailerSection fuel rest (total + line.length + 2)

/-- a chunk-ext octet that may not occur: CTLs except HTAB, DEL -/
def badExtByte (c : UInt8) : Bool := c = 10 || c = 13 || c < 9 || (9 < c && c < 32) || c = 127

/-- the size announced by a chunk-size line `1*HEXDIG [ ";" chunk-ext ]` -/
def parseChunkLine (line : Bytes) : Except Stop Nat :=
  let size := (splitFirst 59 line).map (·.1) |>.getD line
  let ext := (splitFirst 59 line).map (·.2) |>.getD []
  if size.isEmpty || !size.all isHex then .error (.bad .chunkSize)
  else if ext.any badExtByte then .error (.bad .chunkExt)
  else if ext.contains 92 then .error .may
  else .ok (hexVal size)

/-- `chunked-body = *chunk last-chunk trailer-section CRLF`; returns the content and what follows -/
def chunkedBody : Nat → Bytes → Except Stop (Bytes × Bytes)
  | 0, _ => .error .more
  | fuel + 1, s =>
    match takeLine s with
    | none => if s.length > maxChunkLine then .error (.bad .chunkSize) else .error .more
    | some (line, rest) =>
      if line.length ≥ maxChunkLine then .error .may
      else match parseChunkLine line with
        | .error e => .error e
        | .ok 0 => (trailerSection (rest.length + 1) rest 0).map fun r => ([], r)
        | .ok k =>
          if rest.length < k then .error .more
          else if (rest.drop k).length < 2 then .error .more
          else if !startsCRLF (rest.drop k) then .error (.bad .chunkCrlf)
          else (chunkedBody fuel (rest.drop (k + 2))).map fun p => (rest.take k ++ p.1, p.2)

/-! ### §6.3 message body length -/

inductive Framing where
  | none
  | length (n : Nat)
  | chunked
  deriving Repr, DecidableEq

/-- the transfer codings named by the Transfer-Encoding field values, lower-cased -/
def codings (tes : List Bytes) : List Bytes :=
  (tes.map fun v => (splitAt 44 v).map fun t => lower (stripBy isOWS t)).flatten

/-- `token` before the first `;` of a coding (parameters are not looked at) -/
def codingName (c : Bytes) : Bytes := stripBy isWs ((splitAt 59 c).headD [])

/-- a Content-Length value that is a comma-separated list of numbers, `1*DIGIT *( OWS "," OWS 1*DIGIT )`
    with any whitespace as OWS (RFC 9110 §8.6 lets a recipient accept a list of identical values) -/
def isNumberList (v : Bytes) : Bool :=
  let parts := (splitAt 44 v).map (stripBy isWs)
  parts.length ≥ 2 && (parts.all fun p => !p.isEmpty && p.all isDigit) &&
    v.head?.any isDigit && v.getLast?.any isDigit

def framing (hs : List (Bytes × Bytes)) : Except Stop Framing :=
  let cls := fieldValues hs sContentLength
  let tes := fieldValues hs sTransferEncoding
  if !tes.isEmpty && !cls.isEmpty then
    -- §6.3 rule 3: both fields
    if tes.all fun t => lower (stripBy isWs t) = sIdentity then .error (.bad .teIdentity)
    else .error (.bad .clTe)
  else if !tes.isEmpty then
    -- §6.3 rule 4
    let cs := codings tes
    if cs = [sChunked] && tes.length = 1 && tes.map lower = [sChunked] then .ok .chunked
    else if tes.length > 1 && cs.all (· = sChunked) then .error (.bad .teRepeated)
    else if cs.getLast? = some sChunked && cs.all (fun c => isToken (codingName c)) then .error .may
    else if cs.contains sIdentity && cs.all (fun c => c = sIdentity || c = sChunked) then .error (.bad .teIdentity)
    else .error (.bad .teUnsupported)
  else match cls with
    | [] => .ok .none                                   -- §6.3 rule 7
    | [v] =>                                            -- §6.3 rules 5, 6
      if !v.isEmpty && v.all isDigit then
        if v.length > maxDigits then .error (.bad .clDigits) else .ok (.length (decVal v))
      else if isNumberList v then .error .may
      else .error (.bad .clNonnumeric)
    | _ => .error (.bad .clRepeated)

/-! ### one message, the stream -/

/-- one message at the head of `s` (which does not start with an empty line): the message
    (offsets relative to `s`) and what follows it -/
def parseOne (s : Bytes) : Except Stop (Msg × Bytes) :=
  match takeLine s with
  | none => if s.length ≥ maxLine then .error .may else .error .more
  | some (line, r1) =>
    if line.length > maxLine then .error .may
    else match parseRequestLine line with
      | .error e => .error e
      | .ok (m, t, v) =>
        match fieldLines (r1.length + 1) r1 line.length [] with
        | .error e => .error e
        | .ok (hs, r2) =>
          match framing hs with
          | .error e => .error e
          | .ok .none => .ok (⟨m, t, v, hs, [], 0, s.length - r2.length⟩, r2)
          | .ok (.length n) =>
            if r2.length < n then .error .more
            else .ok (⟨m, t, v, hs, r2.take n, 0, s.length - (r2.drop n).length⟩, r2.drop n)
          | .ok .chunked =>
            match chunkedBody (r2.length + 1) r2 with
            | .error e => .error e
            | .ok (body, r3) => .ok (⟨m, t, v, hs, body, 0, s.length - r3.length⟩, r3)

/-- the messages of the stream `s` (which starts at offset `pos`), and why the reading stopped.
    `skipped`: the previous thing read was an empty line. -/
def messages : Nat → Bytes → Nat → Bool → List Msg × Stop
  | 0, _, _, _ => ([], .done)
  | fuel + 1, s, pos, skipped =>
    if s.isEmpty then ([], .done)
    else if startsCRLF s then
      if skipped then ([], .may) else messages fuel (s.drop 2) (pos + 2) true
    else match parseOne s with
      | .error e => ([], e)
      | .ok (m, rest) =>
        let r := messages fuel rest (pos + m.stop) false
        ({ m with start := pos, stop := pos + m.stop } :: r.1, r.2)

def parseStream (s : Bytes) : List Msg × Stop := messages (s.length + 1) s 0 false

end Twisted.Http.Rfc9112Request
