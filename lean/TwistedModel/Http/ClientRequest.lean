import TwistedModel.Py.Bytes
/-!
Model of the HTTP/1.1 client request writer of `src/twisted/web/_newclient.py` (C24):

* `_ensureValidMethod` (through `_abnf._istoken`), `_ensureValidURI` (`\A[\x21-\x7e]+\Z`)
* `Request.__init__`, `Request._writeHeaders`, `Request.writeTo`,
  `Request._writeToEmptyBodyContentLength`, `Request._writeToBodyProducerChunked`
  (with its `cbProduced`/`ebProduced`), `Request._writeToBodyProducerContentLength`
  (with `combine`: `ebConsuming`/`cbProducing`/`ebProducing`, and `f`)
* `ChunkedEncoder.write/unregisterProducer/_allowNoMoreWrites`
* `LengthEnforcingConsumer.write/_noMoreWritesExpected/_allowNoMoreWrites`

The header store is what `Headers.getAllRawHeaders()` yields: `(name, values)` in insertion
order (names already canonicalised, values already passed through
`_sanitizeLinearWhitespace` by `Headers`; that class is outside this model).

The transport is a fresh `StringTransport`: `write`/`writeSequence` append, `registerProducer`
/`unregisterProducer` set/clear `producer` (never double-registered on a fresh transport).

A body producer is a *script*: the calls it makes on the consumer it was given and on the
Deferred it returned from `startProducing`, in program order, with `ret` marking the moment
`startProducing` returns.  Callbacks on the producer's Deferred (and on `finishedConsuming`)
are attached only after `startProducing` has returned, so a Deferred fired before `ret` runs
its callbacks at `ret` — this is why `returned`/`prodFired`/`consErr` are state.
A Deferred fires once: a script has at most one `succeed`/`fail` (the driver refuses others;
in Python the second `callback` raises `AlreadyCalledError` inside the producer).
`stopProducing` of the scripted producer only counts its calls.
-/
namespace Twisted.Http.ClientRequest
open Twisted.Py

def ofStr (s : String) : Bytes := s.toList.map fun c => UInt8.ofNat c.toNat

def crlf : Bytes := [13, 10]

/-- `c in b"ABC…Zabc…z0123456789!#$%&'*+-.^_`|~"` -/
def isTokenByte (c : UInt8) : Bool :=
  (65 ≤ c && c ≤ 90) || (97 ≤ c && c ≤ 122) || (48 ≤ c && c ≤ 57) ||
    (ofStr "!#$%&'*+-.^_`|~").contains c

/-- `_abnf._istoken` -/
def istoken (b : Bytes) : Bool := b.all isTokenByte && !b.isEmpty

/-- `_VALID_URI = re.compile(rb"\A[\x21-\x7e]+\Z")` -/
def validURI (b : Bytes) : Bool := !b.isEmpty && b.all fun c => 0x21 ≤ c && c ≤ 0x7e

inductive Err where
  | valueError      -- `_ensureValidMethod` / `_ensureValidURI`
  | badHeaders      -- `BadHeaders("Exactly one Host header required")`
  deriving DecidableEq, Repr

abbrev HeaderStore := List (Bytes × List Bytes)

/-- `headers.getRawHeaders(name, ())`: the dict entry, `()` when missing or empty -/
def getRaw (h : HeaderStore) (name : Bytes) : List Bytes :=
  match h.find? (fun p => p.1 = name) with
  | some p => p.2
  | none => []

structure Req where
  method : Bytes
  uri : Bytes
  headers : HeaderStore
  persistent : Bool
  deriving Repr

/-- `Request.__init__`: method checked first, then the URI -/
def construct (method uri : Bytes) (headers : HeaderStore) (persistent : Bool) : Except Err Req :=
  if !istoken method then .error .valueError
  else if !validURI uri then .error .valueError
  else .ok { method, uri, headers, persistent }

/-- `"%d" % n` for a non-negative int -/
def decimal (n : Nat) : Bytes :=
  if n < 10 then [UInt8.ofNat (48 + n)] else decimal (n / 10) ++ [UInt8.ofNat (48 + n % 10)]

def hexDigitByte (d : Nat) : UInt8 := if d < 10 then UInt8.ofNat (48 + d) else UInt8.ofNat (87 + d)

/-- `"%x" % n` -/
def hexLower (n : Nat) : Bytes :=
  if n < 16 then [hexDigitByte n] else hexLower (n / 16) ++ [hexDigitByte (n % 16)]

/-- the `name + b": " + v + b"\r\n"` lines of `getAllRawHeaders()` -/
def headerLines (h : HeaderStore) : Bytes :=
  h.flatMap fun p => p.2.flatMap fun v => p.1 ++ ofStr ": " ++ v ++ crlf

/-- `Request._writeHeaders(transport, TEorCL)`: the bytes handed to `transport.writeSequence`
    (`teOrCl = []` for `None`), or the exception raised before anything is written.
    Order of checks as in the code: Host count, then method, then URI. -/
def headerBlock (r : Req) (teOrCl : Bytes) : Except Err Bytes :=
  if (getRaw r.headers (ofStr "Host")).length ≠ 1 then .error .badHeaders
  else if !istoken r.method then .error .valueError
  else if !validURI r.uri then .error .valueError
  else .ok (r.method ++ [32] ++ r.uri ++ [32] ++ ofStr "HTTP/1.1\r\n"
      ++ (if r.persistent then [] else ofStr "Connection: close\r\n")
      ++ teOrCl ++ headerLines r.headers ++ crlf)

inductive Ev where
  | write (d : Bytes)   -- `consumer.write(d)`
  | succeed             -- the Deferred returned by `startProducing` is fired with a result
  | fail                -- … with a failure
  | ret                 -- `startProducing` returns
  deriving DecidableEq, Repr

inductive Body where
  | none                -- `bodyProducer is None`
  | unknown             -- `bodyProducer.length is UNKNOWN_LENGTH`
  | known (n : Nat)
  deriving DecidableEq, Repr

/-- state of the Deferred returned by `writeTo` -/
inductive Outcome where
  | pending | ok | wrongBodyLength | producerError
  deriving DecidableEq, Repr

structure St where
  out : Bytes                 -- `transport.value()`
  registered : Bool := false  -- `transport.producer is not None`
  stops : Nat := 0            -- calls of `bodyProducer.stopProducing()`
  excess : Nat := 0           -- `ExcessWrite` raised into the producer's `write` call
  outcome : Outcome := .pending
  returned : Bool := false    -- `startProducing` has returned (callbacks attached)
  prodFired : Option Bool := none  -- producer's Deferred fired before callbacks were attached
  encLive : Bool := true      -- `ChunkedEncoder.transport is not None`
  remaining : Nat := 0        -- `LengthEnforcingConsumer._length`
  finLive : Bool := true      -- `LengthEnforcingConsumer._finished is not None`
  consErr : Bool := false     -- `finishedConsuming` errbacked before callbacks were attached
  cstate : Nat := 0           -- `state[0]` of `combine` (0 = `None`)
  deriving DecidableEq, Repr

/-! ### chunked: `ChunkedEncoder` + `cbProduced`/`ebProduced` -/

/-- the three strings `ChunkedEncoder.write` hands to `writeSequence` -/
def chunk (d : Bytes) : Bytes := hexLower d.length ++ crlf ++ d ++ crlf

/-- the last-chunk written by `ChunkedEncoder.unregisterProducer` -/
def lastChunk : Bytes := ofStr "0\r\n\r\n"

/-- callbacks of the producer's Deferred run -/
def chFire (s : St) (ok : Bool) : St :=
  if s.outcome ≠ .pending then s
  else if ok then
    -- cbProduced: encoder.unregisterProducer(): last chunk, transport.unregisterProducer(), no more writes
    { s with out := s.out ++ lastChunk, registered := false, encLive := false, outcome := .ok }
  else
    -- ebProduced: encoder._allowNoMoreWrites(); transport.unregisterProducer(); failure passes through
    { s with encLive := false, registered := false, outcome := .producerError }

def chStep (s : St) : Ev → St
  | .write d =>
    if !s.encLive then { s with excess := s.excess + 1 }          -- raise ExcessWrite()
    else if d.isEmpty then s                                       -- `if not data: return`
    else { s with out := s.out ++ chunk d }
  | .succeed => if s.returned then chFire s true else { s with prodFired := some true }
  | .fail => if s.returned then chFire s false else { s with prodFired := some false }
  | .ret =>
    let s := { s with returned := true }
    match s.prodFired with
    | some ok => chFire s ok
    | none => s

/-! ### known length: `LengthEnforcingConsumer` + `combine` + `f` -/

/-- `ebConsuming` (then `f`) -/
def clConsumingErr (s : St) : St :=
  if s.cstate = 0 then { s with cstate := 1, outcome := .wrongBodyLength, registered := false }
  else s   -- "Buggy state machine": logged only

/-- `cbProducing` / `ebProducing` (then `f`) -/
def clFire (s : St) (ok : Bool) : St :=
  if s.cstate ≠ 0 then s   -- ignored / "Producer is buggy" logged
  else if ok then
    -- encoder._noMoreWritesExpected(): raises WrongBodyLength("too few bytes written")
    let tooFew := s.finLive && s.remaining ≠ 0
    { s with cstate := 2, finLive := false, registered := false,
             outcome := if tooFew then .wrongBodyLength else .ok }
  else
    { s with cstate := 3, finLive := false, registered := false, outcome := .producerError }

def clStep (s : St) : Ev → St
  | .write d =>
    if !s.finLive then
      { s with stops := s.stops + 1, excess := s.excess + 1 }   -- stopProducing(); raise ExcessWrite()
    else if d.length ≤ s.remaining then
      { s with remaining := s.remaining - d.length, out := s.out ++ d }
    else
      -- stopProducing(); _finished.errback(WrongBodyLength("too many bytes written")); _allowNoMoreWrites()
      let s := { s with stops := s.stops + 1, consErr := true }
      let s := if s.returned then clConsumingErr s else s
      { s with finLive := false }
  | .succeed => if s.returned then clFire s true else { s with prodFired := some true }
  | .fail => if s.returned then clFire s false else { s with prodFired := some false }
  | .ret =>
    -- combine(): consuming.addErrback first, then producing.addCallbacks
    let s := { s with returned := true }
    let s := if s.consErr then clConsumingErr s else s
    match s.prodFired with
    | some ok => clFire s ok
    | none => s

/-- `Request.writeTo(transport)` on a fresh transport, then the producer's script -/
def writeTo (r : Req) (body : Body) (script : List Ev) : Except Err St :=
  match body with
  | .none =>
    -- PUT/POST without a body: `Content-Length: 0`
    let te := if r.method = ofStr "PUT" ∨ r.method = ofStr "POST" then ofStr "Content-Length: 0\r\n" else []
    (headerBlock r te).map fun hb => { out := hb, outcome := .ok }
  | .unknown =>
    (headerBlock r (ofStr "Transfer-Encoding: chunked\r\n")).map fun hb =>
      script.foldl chStep { out := hb, registered := true }
  | .known n =>
    (headerBlock r (ofStr "Content-Length: " ++ decimal n ++ crlf)).map fun hb =>
      script.foldl clStep { out := hb, registered := true, remaining := n }

/-- The whole experiment: construct (`method`,`uri`), optionally overwrite the attributes
    afterwards (`method2`,`uri2`: `request.method = …`), then `writeTo`.  A refusal in the
    constructor happens before a transport exists. -/
def run (method uri : Bytes) (method2 uri2 : Option Bytes) (headers : HeaderStore)
    (persistent : Bool) (body : Body) (script : List Ev) : Except Err St := do
  let r ← construct method uri headers persistent
  let r := { r with method := method2.getD r.method, uri := uri2.getD r.uri }
  writeTo r body script

end Twisted.Http.ClientRequest
