/-
HTTP/2 server flow control — executable model of `src/twisted/web/_http2.py`:

  H2Connection._sendPrioritisedData   → `sendIter`
  H2Connection.writeDataToStream      → `writeData`
  H2Connection.endRequest             → `endRequest`
  H2Connection._requestReceived       → `openStream`
  H2Connection._handleWindowUpdate    → `windowUpdateStream` / `windowUpdateConn`
  H2Connection.remainingOutboundWindow→ `remainingOutbound`
  H2Connection._requestDone           → `del` in `sendOn` (stream state dropped)
  H2Connection._handleSettingsChange / _windowsChanged / _wakeSendingLoop → `settingsIws` / `windowsChanged` / `wake`
  H2Stream.windowUpdated / flowControlBlocked / registerProducer / unregisterProducer
                                      → `windowUpdated` / `flowControlBlocked` / `Op.reg` / `Op.unreg`
  http.Request.write / finish (only: empty writes never reach the channel; finish unregisters nothing,
  the harness unregisters a producer before finishing)

and of the part of the `h2` contract that this code reads and relies on:
  conn.local_flow_control_window(sid) = min(connection window, stream window)     → `localWindow`
  conn.max_outbound_frame_size                                                     → `maxFrame`
  conn.send_data refuses a non-empty frame larger than the local window (FlowControlError)
  receipt of WINDOW_UPDATE adds to a window; receipt of SETTINGS_INITIAL_WINDOW_SIZE adds the
  difference to every open stream's window (RFC 7540 §6.9.2 — windows may become negative).

The priority tree is reduced to what the code uses on a flat tree: every stream is blocked or
active; `next(priority)` returns SOME active stream (argument `pick` of `sendIter`: the
`pick % n`-th of the n active streams in insertion order — every scheduler is a pick sequence) or
raises DeadlockError when none is active.

`self.streams` / `_outboundStreamQueues` / the tree are dicts keyed by stream id: `streams : Nat → Option
Stream` plus `ids` (dict insertion order, used for the order of iteration only).

The send loop is one of: `sched` (a `callLater(0, _sendPrioritisedData)` is pending), `parked`
(`_sendingDeferred` is set: the loop waits to be woken), `dead` (an exception escaped an iteration:
nothing reschedules it).  Waking (`d.callback(streamID)`) runs one iteration synchronously.

Ghost fields (no influence on behaviour): `wrote` = all bytes the application wrote to the stream,
`sent` = all bytes put into DATA frames of the stream, `finished`; `closed` keeps (id, wrote, sent)
of every stream whose END_STREAM went out.
-/
namespace Twisted.Http.H2Flow

abbrev Bytes := List UInt8

/-- an element of `_outboundStreamQueues[sid]` -/
inductive Chunk where
  | data (b : Bytes)
  | fin                        -- `_END_STREAM_SENTINEL`
  deriving Repr, DecidableEq

structure Stream where
  window : Int                 -- h2: stream.outbound_flow_control_window
  queue : List Chunk := []     -- _outboundStreamQueues[id]
  active : Bool := false       -- priority tree: not blocked
  hasProd : Bool := false      -- H2Stream.producer is not None
  producing : Bool := false    -- H2Stream._producerProducing
  finished : Bool := false     -- Request.finished
  wrote : Bytes := []          -- ghost
  sent : Bytes := []           -- ghost
  deriving Repr

inductive Loop where
  | sched | parked | dead
  deriving Repr, DecidableEq

inductive Ev where
  | data (sid : Nat) (b : Bytes)     -- DATA frame written to the transport
  | fin (sid : Nat)                  -- END_STREAM written
  | pause (sid : Nat)                -- producer.pauseProducing()
  | resume (sid : Nat)               -- producer.resumeProducing()
  | flowErr                          -- h2 raised FlowControlError out of the loop
  | indexErr                         -- popleft on an empty deque
  deriving Repr, DecidableEq

structure State where
  connWindow : Int := 65535          -- h2: conn.outbound_flow_control_window
  iws : Int := 65535                 -- peer's SETTINGS_INITIAL_WINDOW_SIZE
  maxFrame : Nat := 16384            -- h2: conn.max_outbound_frame_size
  ids : List Nat := []               -- keys of self.streams in dict order (= priority insertion order)
  streams : Nat → Option Stream := fun _ => none
  loop : Loop := .sched              -- __init__ schedules the first iteration
  highest : Nat := 0                 -- highest stream id the peer has opened
  closed : List (Nat × Bytes × Bytes) := []   -- ghost: (id, wrote, sent) of ended streams

def init : State := {}

def qbytes : List Chunk → Bytes
  | [] => []
  | .data b :: r => b ++ qbytes r
  | .fin :: r => qbytes r

def qlen (q : List Chunk) : Nat := (qbytes q).length

/-- `conn.local_flow_control_window(sid)` -/
def localWindow (conn : Int) (st : Stream) : Int := min conn st.window

/-- `remainingOutboundWindow` -/
def remainingOutbound (conn : Int) (st : Stream) : Int := localWindow conn st - (qlen st.queue : Int)

def set (s : State) (sid : Nat) (st : Stream) : State :=
  { s with streams := fun i => if i = sid then some st else s.streams i }

/-- `_requestDone` -/
def del (s : State) (sid : Nat) : State :=
  { s with streams := (fun i => if i = sid then none else s.streams i), ids := s.ids.filter (· ≠ sid) }

/-- `H2Stream.flowControlBlocked` -/
def flowControlBlocked (sid : Nat) (st : Stream) : Stream × List Ev :=
  if st.hasProd ∧ st.producing then ({ st with producing := false }, [.pause sid]) else (st, [])

/-- `H2Stream.windowUpdated` (`conn`, `st.window` are the windows after the change) -/
def windowUpdated (conn : Int) (sid : Nat) (st : Stream) : Stream × List Ev :=
  if st.hasProd ∧ ¬ st.producing ∧ 0 < remainingOutbound conn st then
    ({ st with producing := true }, [.resume sid])
  else (st, [])

/-- the `else:` branch of `_sendPrioritisedData` for the popped data chunk: the bytes handed to
    `conn.send_data` (empty = not called) and the queue after re-queueing the excess.
    `maxFrameSize = max(0, min(max_outbound_frame_size, remainingWindow))`. -/
def cutFrame (maxFrame : Nat) (remaining : Int) (b : Bytes) (rest : List Chunk) : Bytes × List Chunk :=
  if b.length > (min (maxFrame : Int) remaining).toNat then
    (b.take (min (maxFrame : Int) remaining).toNat, .data (b.drop (min (maxFrame : Int) remaining).toNat) :: rest)
  else (b, rest)

/-- the popped stream state after `frame` went out (`conn.send_data` accepted it, or it was empty and
    nothing was sent) with `q` left in the queue: `priority.block` if the queue is empty -/
def sentStream (st : Stream) (frame : Bytes) (q : List Chunk) : Stream :=
  { st with window := st.window - frame.length, queue := q, sent := st.sent ++ frame,
            active := if q.isEmpty then false else st.active }

/-- the tail of the data branch of `_sendPrioritisedData`: h2 and the stream are debited, `priority.block`
    if nothing is left, `flowControlBlocked()` if `remainingOutboundWindow <= 0`, `callLater(0, …)` -/
def afterSend (s : State) (sid : Nat) (st : Stream) (frame : Bytes) (q : List Chunk) : State × List Ev :=
  let r := if remainingOutbound (s.connWindow - frame.length) (sentStream st frame q) ≤ 0
           then flowControlBlocked sid (sentStream st frame q) else (sentStream st frame q, [])
  ({ set s sid r.1 with connWindow := s.connWindow - frame.length, loop := .sched },
    (if frame.length > 0 then [.data sid frame] else []) ++ r.2)

/-- the body of `_sendPrioritisedData` once `next(self.priority)` has returned stream `sid` -/
def sendOn (s : State) (sid : Nat) (st : Stream) : State × List Ev :=
  match st.queue with
  | [] => ({ s with loop := .dead }, [.indexErr])
  | .fin :: _ =>
    ({ del s sid with loop := .sched, closed := s.closed ++ [(sid, st.wrote, st.sent)] }, [.fin sid])
  | .data b :: rest =>
    if (cutFrame s.maxFrame (localWindow s.connWindow st) b rest).1.length > 0 ∧
        ((cutFrame s.maxFrame (localWindow s.connWindow st) b rest).1.length : Int) > localWindow s.connWindow st then
      -- conn.send_data raises FlowControlError: the popped frame is lost, the excess was re-queued
      ({ set s sid { st with queue := (cutFrame s.maxFrame (localWindow s.connWindow st) b rest).2 } with loop := .dead },
        [.flowErr])
    else
      afterSend s sid st (cutFrame s.maxFrame (localWindow s.connWindow st) b rest).1
        (cutFrame s.maxFrame (localWindow s.connWindow st) b rest).2

/-- the streams `next(self.priority)` may return -/
def candidates (s : State) : List (Nat × Stream) :=
  s.ids.filterMap fun i =>
    match s.streams i with
    | some st => if st.active then some (i, st) else none
    | none => none

/-- One iteration of `_sendPrioritisedData`; `pick` resolves `next(self.priority)`. -/
def sendIter (s : State) (pick : Nat) : State × List Ev :=
  match (candidates s)[pick % (candidates s).length]? with
  | none => ({ s with loop := .parked }, [])        -- DeadlockError: park on `_sendingDeferred`
  | some (sid, st) => sendOn s sid st

/-- `_wakeSendingLoop` / the `if self._sendingDeferred is not None:` blocks: one synchronous iteration
    (the harness steers pick = 0 there) -/
def wake (s : State) : State × List Ev :=
  if s.loop = .parked then sendIter { s with loop := .sched } 0 else (s, [])

/-- the trailing `if self.remainingOutboundWindow(streamID) <= 0: flowControlBlocked()` of writeDataToStream -/
def blockIfFull (r : State × List Ev) (sid : Nat) : State × List Ev :=
  match r.1.streams sid with
  | none => r
  | some st =>
    if remainingOutbound r.1.connWindow st ≤ 0 then
      (set r.1 sid (flowControlBlocked sid st).1, r.2 ++ (flowControlBlocked sid st).2)
    else r

/-- `writeDataToStream(sid, b)` -/
def writeData (s : State) (sid : Nat) (b : Bytes) : State × List Ev :=
  match s.streams sid with
  | none => (s, [])
  | some st0 =>
    let st : Stream := { st0 with queue := st0.queue ++ [.data b], wrote := st0.wrote ++ b }
    blockIfFull
      (if 0 < localWindow s.connWindow st then wake (set s sid { st with active := true }) else (set s sid st, []))
      sid

/-- `endRequest(sid)` (via Request.finish → H2Stream.requestDone; the producer was unregistered before) -/
def endRequest (s : State) (sid : Nat) : State × List Ev :=
  match s.streams sid with
  | none => (s, [])
  | some st =>
    wake (set s sid { st with queue := st.queue ++ [.fin], active := true, finished := true,
                              hasProd := false, producing := false })

/-- `_requestReceived` (+ `priority.insert_stream`, `priority.block`) -/
def openStream (s : State) (sid : Nat) : State :=
  { set s sid { window := s.iws } with ids := s.ids ++ [sid], highest := sid }

/-- `_handleWindowUpdate` for a stream id ≠ 0, after h2 added `n` to the stream's window -/
def windowUpdateStream (s : State) (sid : Nat) (n : Nat) : State × List Ev :=
  match s.streams sid with
  | none => (s, [])
  | some st0 =>
    let st : Stream := { st0 with window := st0.window + n, active := if st0.queue.isEmpty then st0.active else true }
    let r := windowUpdated s.connWindow sid st
    let w := wake (set s sid r.1)
    (w.1, r.2 ++ w.2)

/-- per stream in `_windowsChanged`: `stream.windowUpdated()`, then unblock if something is queued -/
def windowChanged1 (conn : Int) (sid : Nat) (st : Stream) : Stream × List Ev :=
  ({ (windowUpdated conn sid st).1 with active := if st.queue.isEmpty then st.active else true },
   (windowUpdated conn sid st).2)

/-- `_windowsChanged`: every stream (dict order), then `_wakeSendingLoop` -/
def windowsChanged (s : State) : State × List Ev :=
  let evs := s.ids.flatMap fun i =>
    match s.streams i with
    | some st => (windowChanged1 s.connWindow i st).2
    | none => []
  let w := wake { s with streams := fun i => (s.streams i).map fun st => (windowChanged1 s.connWindow i st).1 }
  (w.1, evs ++ w.2)

/-- `_handleWindowUpdate` for stream id 0, after h2 added `n` to the connection window -/
def windowUpdateConn (s : State) (n : Nat) : State × List Ev :=
  windowsChanged { s with connWindow := s.connWindow + n }

/-- h2 applies the peer's SETTINGS_INITIAL_WINDOW_SIZE to every stream window (they may become negative),
    then `_handleSettingsChange` → `_windowsChanged` -/
def settingsIws (s : State) (n : Nat) : State × List Ev :=
  windowsChanged { s with streams := (fun i => (s.streams i).map fun st => { st with window := st.window + ((n : Int) - s.iws) }),
                          iws := n }

inductive Op where
  | req (sid : Nat)
  | write (sid : Nat) (b : Bytes)       -- Request.write by the application
  | pwrite (sid : Nat) (b : Bytes)      -- Request.write by the registered push producer (only while not paused)
  | reg (sid : Nat)
  | unreg (sid : Nat)
  | finish (sid : Nat)
  | wu (sid : Nat) (n : Nat)            -- peer WINDOW_UPDATE (sid = 0: connection)
  | iws (n : Nat)                       -- peer SETTINGS_INITIAL_WINDOW_SIZE
  | mfs (n : Nat)                       -- peer SETTINGS_MAX_FRAME_SIZE
  | tick (pick : Nat)                   -- the reactor runs the pending loop iteration
  | run (n : Nat)                       -- up to n iterations, pick = iteration index
  deriving Repr

def runLoop (s : State) : Nat → Nat → State × List Ev
  | 0, _ => (s, [])
  | n + 1, i =>
    if s.loop = .sched then
      ((runLoop (sendIter s i).1 n (i + 1)).1, (sendIter s i).2 ++ (runLoop (sendIter s i).1 n (i + 1)).2)
    else (s, [])

/-- `none` = the op is not applicable in this state (the harness skips it). -/
def step (s : State) : Op → Option (State × List Ev)
  | .req sid =>
    if sid % 2 = 0 ∨ sid ≤ s.highest then none else some (openStream s sid, [])
  | .write sid b =>
    match s.streams sid with
    | some st => if st.finished ∨ b.isEmpty then none else some (writeData s sid b)
    | none => none
  | .pwrite sid b =>
    match s.streams sid with
    | some st => if st.finished ∨ b.isEmpty ∨ ¬ st.hasProd ∨ ¬ st.producing then none else some (writeData s sid b)
    | none => none
  | .reg sid =>
    match s.streams sid with
    | some st =>
      if st.finished ∨ st.hasProd then none
      else some (set s sid { st with hasProd := true, producing := true }, [])
    | none => none
  | .unreg sid =>
    match s.streams sid with
    | some st =>
      if st.finished ∨ ¬ st.hasProd then none
      else some (set s sid { st with hasProd := false, producing := false }, [])
    | none => none
  | .finish sid =>
    match s.streams sid with
    | some st => if st.finished then none else some (endRequest s sid)
    | none => none
  | .wu sid n =>
    if n = 0 then none
    else if sid = 0 then some (windowUpdateConn s n)
    else match s.streams sid with
      | some _ => some (windowUpdateStream s sid n)
      | none => none
  | .iws n => some (settingsIws s n)
  | .mfs n => if n < 16384 ∨ 16777215 < n then none else some ({ s with maxFrame := n }, [])
  | .tick k => if s.loop = .sched then some (sendIter s k) else none
  | .run n => if s.loop = .sched ∧ 0 < n then some (runLoop s n 0) else none

/-- a history: skipped ops leave the state alone -/
def runOps (s : State) : List Op → State × List (List Ev)
  | [] => (s, [])
  | op :: ops =>
    match step s op with
    | some r => ((runOps r.1 ops).1, r.2 :: (runOps r.1 ops).2)
    | none => ((runOps s ops).1, [] :: (runOps s ops).2)

end Twisted.Http.H2Flow
